import JSight.Number
import Mathlib.Tactic.Ring
namespace Num

theorem foldl_acc (ds : List Nat) (acc : Nat) :
    ds.foldl (fun a d => a * 10 + d) acc = acc * 10 ^ ds.length + natVal ds := by
  induction ds generalizing acc with
  | nil => simp [natVal]
  | cons d ds ih =>
    simp only [List.foldl_cons, List.length_cons, natVal]
    rw [ih, ih (0 * 10 + d)]
    simp [Nat.pow_succ, Nat.add_mul, Nat.mul_assoc, Nat.add_assoc, Nat.mul_comm 10]

theorem natVal_cons (d : Nat) (ds : List Nat) : natVal (d :: ds) = d * 10 ^ ds.length + natVal ds := by
  have := foldl_acc ds (0 * 10 + d)
  simpa [natVal] using this

theorem natVal_nil : natVal [] = 0 := rfl

theorem natVal_append (xs ys : List Nat) : natVal (xs ++ ys) = natVal xs * 10 ^ ys.length + natVal ys := by
  induction xs with
  | nil => simp [natVal_nil]
  | cons x xs ih =>
    simp only [List.cons_append, natVal_cons, ih, List.length_append, Nat.pow_add]
    simp [Nat.add_mul, Nat.mul_assoc, Nat.add_assoc]

def Digits (ds : List Nat) : Prop := ∀ d ∈ ds, d < 10

theorem natVal_lt (ds : List Nat) (h : Digits ds) : natVal ds < 10 ^ ds.length := by
  induction ds with
  | nil => simp [natVal_nil]
  | cons d ds ih =>
    have hd : d < 10 := h d (by simp)
    have ih' := ih (fun x hx => h x (by simp [hx]))
    rw [natVal_cons, List.length_cons, Nat.pow_succ]
    have : d * 10 ^ ds.length ≤ 9 * 10 ^ ds.length := Nat.mul_le_mul_right _ (by omega)
    omega

theorem cmpDigits_correct (xs ys : List Nat) (hl : xs.length = ys.length) (hx : Digits xs) (hy : Digits ys) :
    cmpDigits xs ys = compare (natVal xs) (natVal ys) := by
  induction xs generalizing ys with
  | nil => cases ys with
    | nil => simp [cmpDigits, natVal_nil]
    | cons y ys => simp at hl
  | cons x xs ih =>
    cases ys with
    | nil => simp at hl
    | cons y ys =>
      have hl' : xs.length = ys.length := by simpa using hl
      have hxs : Digits xs := fun d hd => hx d (by simp [hd])
      have hys : Digits ys := fun d hd => hy d (by simp [hd])
      have bx := natVal_lt xs hxs
      have by' := natVal_lt ys hys
      simp only [cmpDigits, natVal_cons, hl']
      rw [hl'] at bx
      by_cases h1 : x < y
      · simp only [h1, if_true]
        have : (x + 1) * 10 ^ ys.length ≤ y * 10 ^ ys.length := Nat.mul_le_mul_right _ h1
        rw [Nat.add_mul] at this
        symm; rw [Nat.compare_eq_lt]; omega
      · by_cases h2 : x > y
        · simp only [h1, if_false, h2, if_true]
          have : (y + 1) * 10 ^ ys.length ≤ x * 10 ^ ys.length := Nat.mul_le_mul_right _ h2
          rw [Nat.add_mul] at this
          symm; rw [Nat.compare_eq_gt]; omega
        · have : x = y := by omega
          subst this
          simp only [h1, if_false, h2]
          rw [ih ys hl' hxs hys]
          simp [Nat.compare_eq_eq, compare, compareOfLessAndEq]

end Num

namespace Num

def NoLeadingZero (ds : List Nat) : Prop := ∀ d, ds.head? = some d → d ≠ 0

theorem natVal_ge_of_noLeadingZero (ds : List Nat) (hne : ds ≠ []) (h : NoLeadingZero ds) :
    10 ^ (ds.length - 1) ≤ natVal ds := by
  cases ds with
  | nil => exact absurd rfl hne
  | cons d ds =>
    have hd : d ≠ 0 := h d rfl
    rw [natVal_cons]
    simp only [List.length_cons, Nat.add_sub_cancel]
    have : 1 * 10 ^ ds.length ≤ d * 10 ^ ds.length := Nat.mul_le_mul_right _ (by omega)
    omega

theorem cmpInt_correct (xs ys : List Nat) (hx : Digits xs) (hy : Digits ys)
    (zx : NoLeadingZero xs) (zy : NoLeadingZero ys) :
    cmpInt xs ys = compare (natVal xs) (natVal ys) := by
  unfold cmpInt
  by_cases h1 : xs.length < ys.length
  · simp only [h1, if_true]
    have hyne : ys ≠ [] := by intro e; simp [e] at h1
    have b1 := natVal_lt xs hx
    have b2 := natVal_ge_of_noLeadingZero ys hyne zy
    have : 10 ^ xs.length ≤ 10 ^ (ys.length - 1) := Nat.pow_le_pow_right (by omega) (by omega)
    symm; rw [Nat.compare_eq_lt]; omega
  · by_cases h2 : xs.length > ys.length
    · simp only [h1, if_false, h2, if_true]
      have hxne : xs ≠ [] := by intro e; simp [e] at h2
      have b1 := natVal_lt ys hy
      have b2 := natVal_ge_of_noLeadingZero xs hxne zx
      have : 10 ^ ys.length ≤ 10 ^ (xs.length - 1) := Nat.pow_le_pow_right (by omega) (by omega)
      symm; rw [Nat.compare_eq_gt]; omega
    · simp only [h1, if_false, h2]
      exact cmpDigits_correct xs ys (by omega) hx hy

theorem cmpFra_correct (xs ys : List Nat) (hx : Digits xs) (hy : Digits ys) :
    cmpFra xs ys = compare (natVal xs * 10 ^ ys.length) (natVal ys * 10 ^ xs.length) := by
  induction xs generalizing ys with
  | nil =>
    induction ys with
    | nil => simp [cmpFra, natVal_nil]
    | cons y ys ih =>
      have hys : Digits ys := fun d hd => hy d (by simp [hd])
      have ih' := ih hys
      simp only [cmpFra, natVal_nil, Nat.zero_mul, List.length_nil, Nat.pow_zero, Nat.mul_one, natVal_cons] at ih' ⊢
      by_cases h0 : 0 < y
      · simp only [h0, if_true]
        have : 0 < y * 10 ^ ys.length := Nat.mul_pos h0 (Nat.pow_pos (by omega))
        symm; rw [Nat.compare_eq_lt]; omega
      · have : y = 0 := by omega
        subst this
        simp only [Nat.lt_irrefl, if_false, Nat.zero_mul, Nat.zero_add]
        exact ih'
  | cons x xs ih =>
    have hxs : Digits xs := fun d hd => hx d (by simp [hd])
    cases ys with
    | nil =>
      have ih' := ih [] hxs (by intro d hd; simp at hd)
      simp only [cmpFra, natVal_nil, Nat.zero_mul, List.length_nil, Nat.pow_zero, Nat.mul_one, natVal_cons] at ih' ⊢
      by_cases h0 : 0 < x
      · simp only [h0, if_true]
        have : 0 < x * 10 ^ xs.length := Nat.mul_pos h0 (Nat.pow_pos (by omega))
        symm; rw [Nat.compare_eq_gt]; omega
      · have : x = 0 := by omega
        subst this
        simp only [Nat.lt_irrefl, if_false, Nat.zero_mul, Nat.zero_add]
        exact ih'
    | cons y ys =>
      have hys : Digits ys := fun d hd => hy d (by simp [hd])
      have ih' := ih ys hxs hys
      have bx := natVal_lt xs hxs
      have by' := natVal_lt ys hys
      simp only [cmpFra, natVal_cons, List.length_cons, Nat.pow_succ]
      -- abbreviations
      generalize hA : 10 ^ xs.length = A at *
      generalize hB : 10 ^ ys.length = B at *
      generalize natVal xs = X at *
      generalize natVal ys = Y at *
      have hApos : 0 < A := by rw [← hA]; exact Nat.pow_pos (by omega)
      have hBpos : 0 < B := by rw [← hB]; exact Nat.pow_pos (by omega)
      have e1 : (x * A + X) * (B * 10) = 10 * (x * (A * B)) + 10 * (X * B) := by ring
      have e2 : (y * B + Y) * (A * 10) = 10 * (y * (A * B)) + 10 * (Y * A) := by ring
      rw [e1, e2]
      have hXB : X * B < A * B := Nat.mul_lt_mul_of_pos_right bx hBpos
      have hYA : Y * A < A * B := by
        have := Nat.mul_lt_mul_of_pos_right by' hApos
        rwa [Nat.mul_comm B A] at this
      generalize A * B = P at *
      by_cases h1 : x < y
      · simp only [h1, if_true]
        have : (x + 1) * P ≤ y * P := Nat.mul_le_mul_right _ h1
        rw [Nat.add_mul] at this
        symm; rw [Nat.compare_eq_lt]; omega
      · by_cases h2 : x > y
        · simp only [h1, if_false, h2, if_true]
          have : (y + 1) * P ≤ x * P := Nat.mul_le_mul_right _ h2
          rw [Nat.add_mul] at this
          symm; rw [Nat.compare_eq_gt]; omega
        · have : x = y := by omega
          subst this
          simp only [h1, if_false, h2]
          rw [ih']
          rcases Nat.lt_trichotomy (X * B) (Y * A) with l | l | l
          · rw [Nat.compare_eq_lt.2 l, Nat.compare_eq_lt.2 (by omega)]
          · rw [l, Nat.compare_eq_eq.2 rfl, Nat.compare_eq_eq.2 rfl]
          · rw [Nat.compare_eq_gt.2 l, Nat.compare_eq_gt.2 (by omega)]

end Num

namespace Num

/-- well-formed normal form, as produced by `scan` -/
structure WFN (n : N) : Prop where
  digits : Digits n.nat
  expLe : n.exp ≤ n.nat.length
  noLead : NoLeadingZero n.int
  negNonzero : n.neg = true → natVal n.nat ≠ 0

theorem digits_take (ds : List Nat) (k : Nat) (h : Digits ds) : Digits (ds.take k) :=
  fun d hd => h d (List.mem_of_mem_take hd)
theorem digits_drop (ds : List Nat) (k : Nat) (h : Digits ds) : Digits (ds.drop k) :=
  fun d hd => h d (List.mem_of_mem_drop hd)

theorem natVal_split (n : N) (h : n.exp ≤ n.nat.length) :
    natVal n.nat = natVal n.int * 10 ^ n.exp + natVal n.fra ∧ n.fra.length = n.exp := by
  have hl : n.fra.length = n.exp := by simp [N.fra]; omega
  refine ⟨?_, hl⟩
  have : n.nat = n.int ++ n.fra := by simp [N.int, N.fra]
  conv => lhs; rw [this]
  rw [natVal_append, hl]

theorem cmpAbs_correct (a b : N) (ha : WFN a) (hb : WFN b) :
    cmpAbs a b = compare (natVal a.nat * 10 ^ b.exp) (natVal b.nat * 10 ^ a.exp) := by
  obtain ⟨sa, la⟩ := natVal_split a ha.expLe
  obtain ⟨sb, lb⟩ := natVal_split b hb.expLe
  have dia := digits_take a.nat (a.nat.length - a.exp) ha.digits
  have dib := digits_take b.nat (b.nat.length - b.exp) hb.digits
  have dfa := digits_drop a.nat (a.nat.length - a.exp) ha.digits
  have dfb := digits_drop b.nat (b.nat.length - b.exp) hb.digits
  have ci := cmpInt_correct a.int b.int dia dib ha.noLead hb.noLead
  have cf := cmpFra_correct a.fra b.fra dfa dfb
  have bFa := natVal_lt a.fra dfa
  have bFb := natVal_lt b.fra dfb
  rw [la] at bFa; rw [lb] at bFb
  rw [la, lb] at cf
  unfold cmpAbs
  rw [ci, sa, sb]
  generalize natVal a.int = Ia at *
  generalize natVal b.int = Ib at *
  generalize natVal a.fra = Fa at *
  generalize natVal b.fra = Fb at *
  generalize hA : 10 ^ a.exp = A at *
  generalize hB : 10 ^ b.exp = B at *
  have hApos : 0 < A := by rw [← hA]; exact Nat.pow_pos (by omega)
  have hBpos : 0 < B := by rw [← hB]; exact Nat.pow_pos (by omega)
  have e1 : (Ia * A + Fa) * B = Ia * (A * B) + Fa * B := by ring
  have e2 : (Ib * B + Fb) * A = Ib * (A * B) + Fb * A := by ring
  rw [e1, e2]
  have hFaB : Fa * B < A * B := Nat.mul_lt_mul_of_pos_right bFa hBpos
  have hFbA : Fb * A < A * B := by
    have := Nat.mul_lt_mul_of_pos_right bFb hApos
    rwa [Nat.mul_comm B A] at this
  generalize A * B = P at *
  rcases Nat.lt_trichotomy Ia Ib with l | l | l
  · rw [Nat.compare_eq_lt.2 l]
    have : (Ia + 1) * P ≤ Ib * P := Nat.mul_le_mul_right _ l
    rw [Nat.add_mul] at this
    simp only
    symm; rw [Nat.compare_eq_lt]; omega
  · subst l
    rw [Nat.compare_eq_eq.2 rfl]
    simp only
    rw [cf]
    rcases Nat.lt_trichotomy (Fa * B) (Fb * A) with k | k | k
    · rw [Nat.compare_eq_lt.2 k, Nat.compare_eq_lt.2 (by omega)]
    · rw [k, Nat.compare_eq_eq.2 rfl, Nat.compare_eq_eq.2 rfl]
    · rw [Nat.compare_eq_gt.2 k, Nat.compare_eq_gt.2 (by omega)]
  · rw [Nat.compare_eq_gt.2 l]
    have : (Ib + 1) * P ≤ Ia * P := Nat.mul_le_mul_right _ l
    rw [Nat.add_mul] at this
    simp only
    symm; rw [Nat.compare_eq_gt]; omega

end Num

namespace Num

theorem int_compare_lt {a b : Int} (h : a < b) : compare a b = .lt := by
  simp [compare, compareOfLessAndEq, h]
theorem int_compare_gt {a b : Int} (h : b < a) : compare a b = .gt := by
  have h1 : ¬ a < b := by omega
  have h2 : ¬ a = b := by omega
  simp [compare, compareOfLessAndEq, h1, h2]
theorem int_compare_eq {a b : Int} (h : a = b) : compare a b = .eq := by
  subst h; simp [compare, compareOfLessAndEq]

theorem int_compare_cast (x y : Nat) : compare (x : Int) (y : Int) = compare x y := by
  rcases Nat.lt_trichotomy x y with l | l | l
  · rw [Nat.compare_eq_lt.2 l]; exact int_compare_lt (by omega)
  · rw [l, Nat.compare_eq_eq.2 rfl]; exact int_compare_eq rfl
  · rw [Nat.compare_eq_gt.2 l]; exact int_compare_gt (by omega)

theorem int_compare_neg_cast (x y : Nat) : compare (-(x : Int)) (-(y : Int)) = (compare x y).swap := by
  rcases Nat.lt_trichotomy x y with l | l | l
  · rw [Nat.compare_eq_lt.2 l]; exact int_compare_gt (by omega)
  · rw [l, Nat.compare_eq_eq.2 rfl]; exact int_compare_eq rfl
  · rw [Nat.compare_eq_gt.2 l]; exact int_compare_lt (by omega)

/-- C10 (model level): `Number.Cmp` is the exact comparison of the decimal values. -/
theorem cmp_correct (a b : N) (ha : WFN a) (hb : WFN b) : a.cmp b = cmpVal a b := by
  have hab := cmpAbs_correct a b ha hb
  unfold N.cmp cmpVal N.mant
  have pA : (0 : Int) < (10 : Int) ^ a.exp := Int.pow_pos (by omega)
  have pB : (0 : Int) < (10 : Int) ^ b.exp := Int.pow_pos (by omega)
  cases hna : a.neg <;> cases hnb : b.neg
  · -- both non-negative
    simp only [beq_self_eq_true, if_true, Bool.false_eq_true, if_false, Int.one_mul]
    rw [hab]
    have := int_compare_cast (natVal a.nat * 10 ^ b.exp) (natVal b.nat * 10 ^ a.exp)
    simpa using this.symm
  · -- a ≥ 0, b < 0
    simp only [Bool.false_eq_true, if_false, Int.one_mul, ↓reduceIte]
    have hb0 : 0 < natVal b.nat := Nat.pos_of_ne_zero (hb.negNonzero hnb)
    have hneg : (-1 : Int) * (natVal b.nat : Int) * (10 : Int) ^ a.exp < 0 := by
      have : (0 : Int) < (natVal b.nat : Int) * (10 : Int) ^ a.exp := Int.mul_pos (by omega) pA
      rw [Int.mul_assoc]; omega
    have hpos : (0 : Int) ≤ (natVal a.nat : Int) * (10 : Int) ^ b.exp := Int.mul_nonneg (by omega) (Int.le_of_lt pB)
    symm
    simp only [show (false == true) = false from rfl, Bool.false_eq_true, if_false, ↓reduceIte]
    exact int_compare_gt (by omega)
  · -- a < 0, b ≥ 0
    simp only [Bool.false_eq_true, if_false, if_true, Int.one_mul, ↓reduceIte]
    have ha0 : 0 < natVal a.nat := Nat.pos_of_ne_zero (ha.negNonzero hna)
    have hneg : (-1 : Int) * (natVal a.nat : Int) * (10 : Int) ^ b.exp < 0 := by
      have : (0 : Int) < (natVal a.nat : Int) * (10 : Int) ^ b.exp := Int.mul_pos (by omega) pB
      rw [Int.mul_assoc]; omega
    have hpos : (0 : Int) ≤ (natVal b.nat : Int) * (10 : Int) ^ a.exp := Int.mul_nonneg (by omega) (Int.le_of_lt pA)
    symm
    simp only [show (true == false) = false from rfl, Bool.false_eq_true, if_false, if_true, ↓reduceIte]
    exact int_compare_lt (by omega)
  · -- both negative
    simp only [beq_self_eq_true, if_true, ↓reduceIte]
    rw [hab]
    have := int_compare_neg_cast (natVal a.nat * 10 ^ b.exp) (natVal b.nat * 10 ^ a.exp)
    have e1 : (-1 : Int) * (natVal a.nat : Int) * (10 : Int) ^ b.exp = -((natVal a.nat * 10 ^ b.exp : Nat) : Int) := by
      push_cast; ring
    have e2 : (-1 : Int) * (natVal b.nat : Int) * (10 : Int) ^ a.exp = -((natVal b.nat * 10 ^ a.exp : Nat) : Int) := by
      push_cast; ring
    rw [e1, e2, this]

end Num

#print axioms Num.cmp_correct
