import JSight.LinksSound
/-!
C09 (a), completeness: when the link check passes, every name referenced by the root or by a type of the table is
in the table (the walk covers the root and EVERY type of the table, referenced or not, and every reference form).
-/
namespace LK

/-- the compiled list `c` accounts for every mention of the pre-order list `items` -/
def Covered (g : G) (items : List Item) (c : List CItem) : Prop :=
  (∀ it ∈ items, ∀ n ∈ it.allOfNames, InTable g n) ∧
  (∀ it ∈ items, ∀ n ∈ it.checkNames, ∃ ci ∈ c, n ∈ ci.names)

def CInv (g : G) (st : St) : Prop :=
  ∀ name c, st.compiled.lookup name = some c → ∃ body, lookup g name = some body ∧ Covered g (flat body) c

def Mono (st st' : St) : Prop := ∀ x c, st.compiled.lookup x = some c → st'.compiled.lookup x = some c

theorem Mono.refl (st : St) : Mono st st := fun _ _ h => h
theorem Mono.trans {a b c : St} (h1 : Mono a b) (h2 : Mono b c) : Mono a c := fun x cx h => h2 x cx (h1 x cx h)

def PtComplete (g : G) (pt : String → St → Except Err (List CItem × St)) : Prop :=
  ∀ name st c st', pt name st = .ok (c, st') → CInv g st →
    CInv g st' ∧ Mono st st' ∧ InTable g name ∧ (st'.compiled.lookup name).isSome

theorem mergeAddp_keep (pa : Option String) (a : String) (r : Option String) (h : mergeAddp pa (some a) = .ok r) :
    r = some a := by
  cases pa with
  | none => simp only [mergeAddp, Except.ok.injEq] at h; exact h.symm
  | some x =>
    simp only [mergeAddp] at h
    by_cases e : x = a
    · rw [if_pos e] at h; simp only [Except.ok.injEq] at h; exact h.symm
    · rw [if_neg e] at h; cases h

def AccLe (acc r : List (String × Bool) × Option String) : Prop :=
  (∀ k ∈ acc.1, k ∈ r.1) ∧ (∀ a, acc.2 = some a → r.2 = some a)

theorem AccLe.refl (a : List (String × Bool) × Option String) : AccLe a a := ⟨fun _ h => h, fun _ h => h⟩
theorem AccLe.trans {a b c : List (String × Bool) × Option String} (h1 : AccLe a b) (h2 : AccLe b c) : AccLe a c :=
  ⟨fun k hk => h2.1 k (h1.1 k hk), fun x hx => h2.2 x (h1.2 x hx)⟩

theorem extendWith_le (name : String) (acc r : List (String × Bool) × Option String) (pc : List CItem)
    (h : extendWith name acc pc = .ok r) : AccLe acc r := by
  unfold extendWith at h
  cases pc with
  | nil => cases h
  | cons ci rest =>
    cases ci with
    | lit jt ms => cases h
    | ref ns => cases h
    | arr => cases h
    | obj pkeys paddp =>
      simp only at h
      cases hm : mergeAddp paddp acc.2 with
      | error e => simp [hm] at h
      | ok addp' =>
        simp only [hm] at h
        cases hk : copyKeys acc.1 pkeys with
        | error e => simp [hk] at h
        | ok keys' =>
          simp only [hk, Except.ok.injEq] at h
          subst h
          refine ⟨fun k hk' => (copyKeys_mem pkeys acc.1 keys' hk k).2 (Or.inl hk'), fun a ha => ?_⟩
          rw [ha] at hm
          exact mergeAddp_keep _ _ _ hm

theorem extendAll_complete (g : G) (pt : String → St → Except Err (List CItem × St)) (hpt : PtComplete g pt) :
    ∀ (ao : List String) (acc r : List (String × Bool) × Option String) (st st' : St),
      extendAll pt ao acc st = .ok (r, st') → CInv g st →
      CInv g st' ∧ Mono st st' ∧ (∀ p ∈ ao, InTable g p) ∧ AccLe acc r
  | [], acc, r, st, st', h, hst => by
    simp only [extendAll, Except.ok.injEq, Prod.mk.injEq] at h
    obtain ⟨rfl, rfl⟩ := h
    exact ⟨hst, Mono.refl _, fun p hp => by simp at hp, AccLe.refl _⟩
  | p :: ps, acc, r, st, st', h, hst => by
    unfold extendAll at h
    cases h1 : pt p st with
    | error e => simp [h1] at h
    | ok res =>
      obtain ⟨pc, st1⟩ := res
      simp only [h1] at h
      obtain ⟨hst1, hm1, hin, _⟩ := hpt p st pc st1 h1 hst
      cases h2 : extendWith p acc pc with
      | error e => simp [h2] at h
      | ok acc1 =>
        simp only [h2] at h
        obtain ⟨hst', hm2, hall, hle⟩ := extendAll_complete g pt hpt ps acc1 r st1 st' h hst1
        refine ⟨hst', hm1.trans hm2, ?_, (extendWith_le p acc acc1 pc h2).trans hle⟩
        intro q hq
        rcases List.mem_cons.1 hq with rfl | hq
        · exact hin
        · exact hall q hq

theorem covered_nil (g : G) (c : List CItem) : Covered g [] c :=
  ⟨fun it h => by simp at h, fun it h => by simp at h⟩

/-- one more item, whose mentions are accounted for, and a longer compiled list -/
theorem covered_cons (g : G) (it : Item) (rest : List Item) (out c : List CItem) (hsub : ∀ ci ∈ out, ci ∈ c)
    (h1 : ∀ n ∈ it.allOfNames, InTable g n) (h2 : ∀ n ∈ it.checkNames, ∃ ci ∈ c, n ∈ ci.names)
    (hrest : Covered g rest out) : Covered g (it :: rest) c := by
  constructor
  · intro x hx n hn
    rcases List.mem_cons.1 hx with rfl | hx
    · exact h1 n hn
    · exact hrest.1 x hx n hn
  · intro x hx n hn
    rcases List.mem_cons.1 hx with rfl | hx
    · exact h2 n hn
    · obtain ⟨ci, hci, hm⟩ := hrest.2 x hx n hn
      exact ⟨ci, hsub ci hci, hm⟩

theorem processItems_complete (g : G) (pt : String → St → Except Err (List CItem × St)) (hpt : PtComplete g pt) :
    ∀ (items : List Item) (st : St) (c : List CItem) (st' : St), processItems pt items st = .ok (c, st') → CInv g st →
      CInv g st' ∧ Mono st st' ∧ Covered g items c
  | [], st, c, st', h, hst => by
    simp only [processItems, Except.ok.injEq, Prod.mk.injEq] at h
    obtain ⟨rfl, rfl⟩ := h
    exact ⟨hst, Mono.refl _, covered_nil g _⟩
  | .lit jt ms :: rest, st, c, st', h, hst => by
    simp only [processItems] at h
    cases h1 : processItems pt rest st with
    | error e => simp [h1] at h
    | ok res =>
      obtain ⟨out, st1⟩ := res
      simp only [h1, Except.ok.injEq, Prod.mk.injEq] at h
      obtain ⟨rfl, rfl⟩ := h
      obtain ⟨hst1, hm, hc⟩ := processItems_complete g pt hpt rest st out st1 h1 hst
      refine ⟨hst1, hm, covered_cons g _ rest out _ (fun ci h => List.mem_cons_of_mem _ h) ?_ ?_ hc⟩
      · intro n hn; simp [Item.allOfNames] at hn
      · intro n hn; exact ⟨.lit jt ms, List.mem_cons_self, hn⟩
  | .ref names :: rest, st, c, st', h, hst => by
    simp only [processItems] at h
    cases h1 : processItems pt rest st with
    | error e => simp [h1] at h
    | ok res =>
      obtain ⟨out, st1⟩ := res
      simp only [h1, Except.ok.injEq, Prod.mk.injEq] at h
      obtain ⟨rfl, rfl⟩ := h
      obtain ⟨hst1, hm, hc⟩ := processItems_complete g pt hpt rest st out st1 h1 hst
      refine ⟨hst1, hm, covered_cons g _ rest out _ (fun ci h => List.mem_cons_of_mem _ h) ?_ ?_ hc⟩
      · intro n hn; simp [Item.allOfNames] at hn
      · intro n hn; exact ⟨.ref names, List.mem_cons_self, hn⟩
  | .arr :: rest, st, c, st', h, hst => by
    simp only [processItems] at h
    cases h1 : processItems pt rest st with
    | error e => simp [h1] at h
    | ok res =>
      obtain ⟨out, st1⟩ := res
      simp only [h1, Except.ok.injEq, Prod.mk.injEq] at h
      obtain ⟨rfl, rfl⟩ := h
      obtain ⟨hst1, hm, hc⟩ := processItems_complete g pt hpt rest st out st1 h1 hst
      refine ⟨hst1, hm, covered_cons g _ rest out _ (fun ci h => List.mem_cons_of_mem _ h) ?_ ?_ hc⟩
      · intro n hn; simp [Item.allOfNames] at hn
      · intro n hn; simp [Item.checkNames] at hn
  | .obj keys addp ao :: rest, st, c, st', h, hst => by
    simp only [processItems] at h
    cases h0 : extendAll pt ao (keys, addp) st with
    | error e => simp [h0] at h
    | ok res0 =>
      obtain ⟨acc, st1⟩ := res0
      simp only [h0] at h
      obtain ⟨hst1, hm1, hall, hle⟩ := extendAll_complete g pt hpt ao (keys, addp) acc st st1 h0 hst
      cases h1 : processItems pt rest st1 with
      | error e => simp [h1] at h
      | ok res =>
        obtain ⟨out, st2⟩ := res
        simp only [h1, Except.ok.injEq, Prod.mk.injEq] at h
        obtain ⟨rfl, rfl⟩ := h
        obtain ⟨hst2, hm2, hc⟩ := processItems_complete g pt hpt rest st1 out st2 h1 hst1
        refine ⟨hst2, hm1.trans hm2, covered_cons g _ rest out _ (fun ci h => List.mem_cons_of_mem _ h) ?_ ?_ hc⟩
        · intro n hn; exact hall n hn
        · intro n hn
          refine ⟨.obj acc.1 acc.2, List.mem_cons_self, ?_⟩
          simp only [Item.checkNames, List.mem_append] at hn
          simp only [CItem.names, List.mem_append]
          rcases hn with hn | hn
          · exact Or.inl ((mem_shortcuts _ _).2 (hle.1 _ ((mem_shortcuts _ _).1 hn)))
          · cases addp with
            | none => simp at hn
            | some a =>
              have : n = a := by simpa using hn
              subst this
              have := hle.2 n rfl
              exact Or.inr (by rw [this]; simp)
  | .inh ps :: rest, st, c, st', h, hst => by
    simp only [processItems] at h
    cases h1 : processItems pt rest st with
    | error e => simp [h1] at h
    | ok res =>
      obtain ⟨out, st1⟩ := res
      simp only [h1, Except.ok.injEq, Prod.mk.injEq] at h
      obtain ⟨rfl, rfl⟩ := h
      obtain ⟨hst1, hm, hc⟩ := processItems_complete g pt hpt rest st out st1 h1 hst
      refine ⟨hst1, hm, covered_cons g _ rest out _ (fun ci h => List.mem_append_right _ h) ?_ ?_ hc⟩
      · intro n hn; simp [Item.allOfNames] at hn
      · intro n hn; simp [Item.checkNames] at hn

theorem processType_complete (g : G) : ∀ f, PtComplete g (processType g f)
  | 0 => by
    intro name st c st' h _
    simp [processType] at h
  | f + 1 => by
    intro name st c st' h hst
    have ih := processType_complete g f
    unfold processType at h
    by_cases hp : st.processing.contains name = true
    · rw [if_pos hp] at h; cases h
    · rw [if_neg hp] at h
      cases hl : lookup g name with
      | none => simp [hl] at h
      | some body =>
        simp only [hl] at h
        cases hc : st.compiled.lookup name with
        | some c0 =>
          simp only [hc, Except.ok.injEq, Prod.mk.injEq] at h
          obtain ⟨rfl, rfl⟩ := h
          exact ⟨hst, Mono.refl _, ⟨body, hl⟩, by simp [hc]⟩
        | none =>
          simp only [hc] at h
          cases h1 : processItems (processType g f) (flat body) { st with processing := name :: st.processing } with
          | error e => simp [h1] at h
          | ok res =>
            obtain ⟨c1, st1⟩ := res
            simp only [h1, Except.ok.injEq, Prod.mk.injEq] at h
            obtain ⟨rfl, rfl⟩ := h
            have hst0 : CInv g { st with processing := name :: st.processing } := hst
            obtain ⟨hst1, hm, hcov⟩ := processItems_complete g _ ih (flat body) _ c1 st1 h1 hst0
            refine ⟨?_, ?_, ⟨body, hl⟩, by simp [List.lookup_cons]⟩
            · intro x cx hxl
              simp only [List.lookup_cons] at hxl
              cases hb : (x == name) with
              | true =>
                simp only [hb] at hxl
                have e : x = name := by simpa using hb
                subst e
                cases hxl
                exact ⟨body, hl, hcov⟩
              | false =>
                simp only [hb] at hxl
                exact hst1 x cx hxl
            · intro x cx hxl
              have hne : (x == name) = false := by
                cases hb : (x == name) with
                | false => rfl
                | true =>
                  have e : x = name := by simpa using hb
                  subst e
                  rw [hc] at hxl; cases hxl
              simp only [List.lookup_cons, hne]
              exact hm x cx hxl

theorem processNames_complete (g : G) (pt : String → St → Except Err (List CItem × St)) (hpt : PtComplete g pt) :
    ∀ (names : List String) (st st' : St), processNames pt names st = .ok st' → CInv g st →
      CInv g st' ∧ Mono st st' ∧ ∀ n ∈ names, (st'.compiled.lookup n).isSome
  | [], st, st', h, hst => by
    simp only [processNames, Except.ok.injEq] at h
    subst h
    exact ⟨hst, Mono.refl _, fun n hn => by simp at hn⟩
  | n :: ns, st, st', h, hst => by
    unfold processNames at h
    cases h1 : pt n st with
    | error e => simp [h1] at h
    | ok res =>
      obtain ⟨c, st1⟩ := res
      simp only [h1] at h
      obtain ⟨hst1, hm1, _, hsome⟩ := hpt n st c st1 h1 hst
      obtain ⟨hst', hm2, hall⟩ := processNames_complete g pt hpt ns st1 st' h hst1
      refine ⟨hst', hm1.trans hm2, ?_⟩
      intro x hx
      rcases List.mem_cons.1 hx with rfl | hx
      · cases hs : st1.compiled.lookup x with
        | none => simp [hs] at hsome
        | some cx => simp [hm2 x cx hs]
      · exact hall x hx

theorem compileAllOf_complete (g : G) (fuel : Nat) (rootC : List CItem) (st : St)
    (h : compileAllOf g fuel = .ok (rootC, st)) :
    CInv g st ∧ Covered g (flat g.root) rootC ∧ ∀ n, InTable g n → (st.compiled.lookup n).isSome := by
  unfold compileAllOf at h
  have hpt := processType_complete g fuel
  have h0 : CInv g ⟨[], []⟩ := by intro name c h; simp at h
  cases h1 : processItems (processType g fuel) (flat g.root) ⟨[], []⟩ with
  | error e => simp [h1] at h
  | ok res =>
    obtain ⟨rc, st1⟩ := res
    simp only [h1] at h
    obtain ⟨hst1, _, hcov⟩ := processItems_complete g _ hpt (flat g.root) _ rc st1 h1 h0
    cases h2 : processNames (processType g fuel) (sortedNames g) st1 with
    | error e => simp [h2] at h
    | ok st2 =>
      simp only [h2, Except.ok.injEq, Prod.mk.injEq] at h
      obtain ⟨rfl, rfl⟩ := h
      obtain ⟨hst2, _, hall⟩ := processNames_complete g _ hpt (sortedNames g) st1 st2 h2 hst1
      exact ⟨hst2, hcov, fun n hn => hall n ((mem_sortedNames g n).2 hn)⟩

/-! ### `CheckRootSchema` passes only when every name it meets is in the table -/

theorem mustAll_ok (g : G) : ∀ (names : List String) (u : Unit), mustAll g names = .ok u → ∀ n ∈ names, InTable g n
  | [], _, _ => fun n hn => by simp at hn
  | x :: xs, u, h => by
    unfold mustAll at h
    cases hl : lookup g x with
    | none => simp [hl] at h
    | some b =>
      simp only [hl] at h
      intro n hn
      rcases List.mem_cons.1 hn with rfl | hn
      · exact ⟨b, hl⟩
      · exact mustAll_ok g xs u h n hn

theorem collectNames_ok (g : G) (rec : List String → N → List JT → Except Err (List JT)) :
    ∀ (ms : List Mem) (found : List String) (al r : List JT), collectNames g rec found ms al = .ok r →
      ∀ n ∈ userNames ms, InTable g n
  | [], _, _, _, _ => fun n hn => by simp [userNames] at hn
  | .builtin jt :: ms, found, al, r, h => by
    simp only [collectNames] at h
    simpa [userNames] using collectNames_ok g rec ms found (jt :: al) r h
  | .user x :: ms, found, al, r, h => by
    unfold collectNames at h
    by_cases hf : found.contains x = true
    · rw [if_pos hf] at h; cases h
    · rw [if_neg hf] at h
      cases hl : lookup g x with
      | none => simp [hl] at h
      | some body =>
        simp only [hl] at h
        cases h1 : rec (x :: found) body al with
        | error e => simp [h1] at h
        | ok al1 =>
          simp only [h1] at h
          intro n hn
          simp only [userNames, List.mem_cons] at hn
          rcases hn with rfl | hn
          · exact ⟨body, hl⟩
          · exact collectNames_ok g rec ms found al1 r h n hn

theorem checkKeys_ok (g : G) (fuel : Nat) : ∀ (keys : List (String × Bool)) (u : Unit), checkKeys g fuel keys = .ok u →
    ∀ n ∈ shortcuts keys, InTable g n
  | [], _, _ => fun n hn => by simp [shortcuts] at hn
  | (k, false) :: ks, u, h => by
    simp only [checkKeys] at h
    intro n hn
    have hn' : n ∈ shortcuts ks := by
      rw [mem_shortcuts] at hn ⊢
      rcases List.mem_cons.1 hn with e | hn
      · cases e
      · exact hn
    exact checkKeys_ok g fuel ks u h n hn'
  | (k, true) :: ks, u, h => by
    unfold checkKeys at h
    cases hl : lookup g k with
    | none => simp [hl] at h
    | some body =>
      simp only [hl] at h
      cases h1 : actualType g fuel [] body with
      | error e => simp [h1] at h
      | ok t =>
        simp only [h1] at h
        by_cases ht : t = .str
        · rw [if_pos ht] at h
          intro n hn
          rw [mem_shortcuts] at hn
          rcases List.mem_cons.1 hn with e | hn
          · have : n = k := by injection e
            subst this; exact ⟨body, hl⟩
          · exact checkKeys_ok g fuel ks u h n ((mem_shortcuts _ _).2 hn)
        · rw [if_neg ht] at h; cases h

theorem checkItem_ok (g : G) (fuel : Nat) (ci : CItem) (u : Unit) (h : checkItem g fuel ci = .ok u) :
    ∀ n ∈ ci.names, InTable g n := by
  cases ci with
  | arr => intro n hn; simp [CItem.names] at hn
  | ref names => exact mustAll_ok g names u h
  | lit jt ms =>
    cases ms with
    | nil => intro n hn; simp [CItem.names, userNames] at hn
    | cons x xs =>
      simp only [checkItem] at h
      cases h1 : collectNames g (collectRoot g fuel) [] (x :: xs) [] with
      | error e => simp [h1] at h
      | ok al => exact collectNames_ok g _ (x :: xs) [] [] al h1
  | obj keys addp =>
    simp only [checkItem] at h
    cases h1 : checkKeys g fuel keys with
    | error e => simp [h1] at h
    | ok u1 =>
      simp only [h1] at h
      intro n hn
      simp only [CItem.names, List.mem_append] at hn
      rcases hn with hn | hn
      · exact checkKeys_ok g fuel keys u1 h1 n hn
      · cases addp with
        | none => simp at hn
        | some a =>
          have : n = a := by simpa using hn
          subst this
          simp only at h
          cases hl : lookup g n with
          | none => simp [hl] at h
          | some b => exact ⟨b, hl⟩

theorem checkList_ok (g : G) (fuel : Nat) : ∀ (c : List CItem) (u : Unit), checkList g fuel c = .ok u →
    ∀ ci ∈ c, ∀ n ∈ ci.names, InTable g n
  | [], _, _ => fun ci h => by simp at h
  | x :: xs, u, h => by
    unfold checkList at h
    cases h1 : checkItem g fuel x with
    | error e => simp [h1] at h
    | ok u1 =>
      simp only [h1] at h
      intro ci hci
      rcases List.mem_cons.1 hci with rfl | hci
      · exact checkItem_ok g fuel _ u1 h1
      · exact checkList_ok g fuel xs u h ci hci

theorem checkTypes_ok (g : G) (fuel : Nat) (st : St) : ∀ (names : List String) (u : Unit),
    checkTypes g fuel st names = .ok u → ∀ n ∈ names, ∃ u', checkList g fuel (compiledOf g st n) = .ok u'
  | [], _, _ => fun n hn => by simp at hn
  | x :: xs, u, h => by
    unfold checkTypes at h
    cases h1 : checkList g fuel (compiledOf g st x) with
    | error e => simp [h1] at h
    | ok u1 =>
      simp only [h1] at h
      intro n hn
      rcases List.mem_cons.1 hn with rfl | hn
      · exact ⟨u1, h1⟩
      · exact checkTypes_ok g fuel st xs u h n hn

/-- **completeness of the link check**: if it passes, every referenced name is in the table -/
theorem linkCheckF_complete (g : G) (fuel : Nat) (ord : List (List String)) (u : Unit)
    (h : linkCheckF g fuel ord = .ok u) : Resolved g := by
  unfold linkCheckF at h
  cases h1 : compileAllOf g fuel with
  | error e => simp [h1] at h
  | ok res =>
    obtain ⟨rootC, st⟩ := res
    simp only [h1] at h
    obtain ⟨hst, hcov, hall⟩ := compileAllOf_complete g fuel rootC st h1
    unfold checkRootSchema at h
    cases h2 : checkList g fuel rootC with
    | error e => simp [h2] at h
    | ok u2 =>
      simp only [h2] at h
      cases h3 : checkOrNodes g ord with
      | error e => simp [h3] at h
      | ok u3 =>
        simp only [h3] at h
        intro n hr
        rcases hr with hr | ⟨t, body, hl, hr⟩
        · obtain ⟨it, hit, hm⟩ := (refs_iff_flat g.root n).1 hr
          rcases hm with hm | hm
          · exact hcov.1 it hit n hm
          · obtain ⟨ci, hci, hn⟩ := hcov.2 it hit n hm
            exact checkList_ok g fuel rootC u2 h2 ci hci n hn
        · obtain ⟨it, hit, hm⟩ := (refs_iff_flat body n).1 hr
          have hin : InTable g t := ⟨body, hl⟩
          have hs := hall t hin
          cases hc : st.compiled.lookup t with
          | none => simp [hc] at hs
          | some c =>
            obtain ⟨body', hl', hcv⟩ := hst t c hc
            rw [hl] at hl'
            cases hl'
            rcases hm with hm | hm
            · exact hcv.1 it hit n hm
            · obtain ⟨ci, hci, hn⟩ := hcv.2 it hit n hm
              obtain ⟨u', hu'⟩ := checkTypes_ok g fuel st (sortedNames g) u h t ((mem_sortedNames g t).2 hin)
              simp only [compiledOf, hc] at hu'
              exact checkList_ok g fuel c u' hu' ci hci n hn

end LK
