import JSight.Compile
import JSight.Links
/-!
# C09 — the bridge between the two models of the link check (definitions; core Lean only)

* `Compile.check` (`JSight/Compile.lean`): `CheckRootSchema` + `CheckRecursion` on the compiled tree `Compile.CN`
  that the text-level pipeline `E2E` builds from schema TEXTS. Its errors carry a code only (`.code 1302 0`).
* `LK.linkCheck` (`JSight/Links.lean`): the reference-resolving part of `Schema.compile()` over the abstract IR
  `LK.N`, the subject of `C09_links_*`. Its errors carry the NAME (`.missing n`).

Here:
* `CL.lkOf : Compile.CN → Compile.Types → LK.G` — the abstraction from the compiled tree to the IR of `LK`;
* `CL.checkN` — `Compile.check` with the names kept in the errors (the same traversal, every error constructor
  carries what the real message carries: `Type "n" not found`, the key of 1304, the type of 1303).
  `CompileLinksProofs.checkN_erase`: forgetting the names gives `Compile.check` back;
* `CL.ordOf` — the order in which the unnamed types of or-shortcuts are visited since fix F-34: by file name (= the
  name of the added type) and position of the root node, i.e. added types in `sort.Strings` order, pre-order inside.
-/
namespace CL
open Compile

/-! ### the abstraction -/

def jtOf : Compile.JT → LK.JT
  | .obj => .obj | .arr => .arr | .str => .str | .int => .int | .flt => .flt | .bool => .bool | .null => .null
  | .mixed => .mixed

mutual
/-- a compiled node as the link check sees it. A key shortcut gets its `@` back (`Compile` stores the bare name,
the type table holds `@name`); a literal EXAMPLE with a types list (`{type: "@A"}`, `{or: ["@A", "@B"]}`) becomes a
literal with an or-list of user types; `additionalProperties: "@T"` is kept, every other mode dropped. -/
def lkN : CN → LK.N
  | .lit spec _ => .lit (jtOf (JT.ofKind spec.kind)) .none none
  | .any jt _ => .lit (jtOf jt) .none none
  | .arr items _ _ => .arr (lkItems items)
  | .obj props add _ _ => .obj [] (match add with | .type n => some n | _ => none) (lkProps props)
  | .ref names _ jt _ _ => if jt == .mixed then .ref names else .lit (jtOf jt) (.orr (names.map LK.Mem.user)) none
def lkItems : List CN → List LK.N
  | [] => []
  | x :: xs => lkN x :: lkItems xs
def lkProps : List (String × Bool × Bool × Bool × CN) → List (String × Bool × LK.N)
  | [] => []
  | (k, sc, _, _, x) :: xs => ((if sc then "@" ++ k else k), sc, lkN x) :: lkProps xs
end

def lkTypes : Types → List (String × LK.N)
  | [] => []
  | (n, t) :: ts => (n, lkN t) :: lkTypes ts

/-- the compiled root and the table of added types (in `AddType` order) as a graph of `LK` -/
def lkOf (root : CN) (ts : Types) : LK.G := { root := lkN root, types := lkTypes ts }

/-! ### `Compile.check` with names -/

inductive LE
  | missing (n : String)            -- 1302 Type "n" not found
  | jsonTypeRecursion (n : String)  -- 1303
  | keyNotString (k : String)       -- 1304
  | incorrectUserType               -- 1301
  | code (c : Nat)                  -- any other error of `Compile.check` (1117, the example against its rules, 104)
  | unsupported (why : String)
  deriving Repr, DecidableEq

def LE.erase : LE → Err
  | .missing _ => .code 1302 0
  | .jsonTypeRecursion _ => .code 1303 0
  | .keyNotString _ => .code 1304 0
  | .incorrectUserType => .code 1301 0
  | .code c => .code c 0
  | .unsupported w => .unsupported w

def eraseR : Except LE Unit → Except Err Unit
  | .ok () => .ok ()
  | .error e => .error e.erase

/-- `MustType` for every name: the first one that is not in the table -/
def mustAllN (ts : Types) : List String → Except LE Unit
  | [] => .ok ()
  | n :: ns => if (lookupT ts n).isSome then mustAllN ts ns else .error (.missing n)

/-- `Compile.allowed` with names -/
def allowedN (ts : Types) : Nat → List String → List String → Except LE (Option (List Compile.JT))
  | 0, _, _ => .error (.unsupported "fuel")
  | _ + 1, _, [] => .ok (some [])
  | fuel + 1, found, name :: rest =>
    if found.contains name then .error (.jsonTypeRecursion name)
    else
      match lookupT ts name with
      | none => .error (.missing name)
      | some t =>
        let here : Except LE (Option (List Compile.JT)) :=
          match t with
          | .ref names _ jt _ _ =>
            if jt == .mixed then
              match mustAllN ts names with
              | .error e => .error e
              | .ok () => .ok none
            else allowedN ts fuel (name :: found) names
          | t => .ok (some (t.jt.toList))
        match here with
        | .error e => .error e
        | .ok a =>
          match allowedN ts fuel found rest with
          | .error e => .error e
          | .ok b =>
            .ok (match a, b with
              | some x, some y => some (x ++ y)
              | _, _ => none)

/-- `Compile.exampleAlts` with names -/
def exampleAltsN (ts : Types) (tok : Bytes) : Nat → List String → List String → Except LE (List String × List (Option Nat))
  | 0, _, _ => .error (.unsupported "fuel")
  | _ + 1, added, [] => .ok (added, [])
  | fuel + 1, added, name :: rest =>
    if added.contains name then exampleAltsN ts tok fuel added rest
    else
      match lookupT ts name with
      | none => .error (.missing name)
      | some t =>
        let here : Except LE (List String × List (Option Nat)) :=
          match t with
          | .ref names _ _ _ _ => exampleAltsN ts tok fuel (name :: added) names
          | .lit spec _ => .ok (name :: added, [litErr spec tok])
          | .any _ (some spec) => .ok (name :: added, [litErr spec tok])
          | _ => .ok (name :: added, [some 1201])
        match here with
        | .error e => .error e
        | .ok (added', xs) =>
          match exampleAltsN ts tok fuel added' rest with
          | .error e => .error e
          | .ok (added'', ys) => .ok (added'', xs ++ ys)

/-- `ensureShortcutKeysAreValid`, key by key -/
def checkKeysN (ts : Types) (fuel : Nat) : List (String × Bool × Bool × Bool × CN) → Except LE Unit
  | [] => .ok ()
  | (k, sc, _, _, _) :: ps =>
    if sc then
      if (lookupT ts ("@" ++ k)).isNone then .error (.missing ("@" ++ k))
      else if actualRoot ts fuel [] ("@" ++ k) != some .str then .error (.keyNotString ("@" ++ k))
      else checkKeysN ts fuel ps
    else checkKeysN ts fuel ps

mutual
/-- `Compile.checkNode` with names -/
def checkNodeN (ts : Types) (fuel : Nat) : CN → Except LE Unit
  | .lit spec bad =>
    if bad then .error (.code 1117)
    else match litErr spec spec.ex with
      | some c => .error (.code c)
      | none => .ok ()
  | .any _ _ => .ok ()
  | .ref names _ jt ex _ =>
    if jt == .mixed then mustAllN ts names
    else
      match allowedN ts fuel [] names with
      | .error e => .error e
      | .ok al =>
        if !(match al with | none => true | some l => l.contains jt) then .error .incorrectUserType
        else
          match ex with
          | none => .ok ()
          | some tok =>
            match exampleAltsN ts tok fuel [] names with
            | .error e => .error e
            | .ok (_, alts) =>
              if alts.all (·.isSome) then
                (match alts with
                 | [some c] => .error (.code c)
                 | _ => .error (.code 204))
              else .ok ()
  | .arr items _ bad =>
    if bad then .error (.code 1117) else checkItemsN ts fuel items
  | .obj props add _ bad =>
    if bad then .error (.code 1117)
    else
      match checkKeysN ts fuel props with
      | .error e => .error e
      | .ok () =>
        match add with
        | .type n => if (lookupT ts n).isNone then .error (.missing n) else checkPropsN ts fuel props
        | _ => checkPropsN ts fuel props
def checkItemsN (ts : Types) (fuel : Nat) : List CN → Except LE Unit
  | [] => .ok ()
  | x :: xs => match checkNodeN ts fuel x with
    | .error e => .error e
    | .ok () => checkItemsN ts fuel xs
def checkPropsN (ts : Types) (fuel : Nat) : List (String × Bool × Bool × Bool × CN) → Except LE Unit
  | [] => .ok ()
  | (_, _, _, _, x) :: xs => match checkNodeN ts fuel x with
    | .error e => .error e
    | .ok () => checkPropsN ts fuel xs
end

mutual
/-- the or-shortcut nodes of a tree (each the root of an unnamed type `#…`), in pre-order -/
def orLists : CN → List (List String)
  | .ref names _ _ _ orShort => if orShort then [names] else []
  | .arr items _ _ => orListsItems items
  | .obj props _ _ _ => orListsProps props
  | _ => []
def orListsItems : List CN → List (List String)
  | [] => []
  | x :: xs => orLists x ++ orListsItems xs
def orListsProps : List (String × Bool × Bool × Bool × CN) → List (List String)
  | [] => []
  | (_, _, _, _, x) :: xs => orLists x ++ orListsProps xs
end

def orListsOfNames (ts : Types) : List String → List (List String)
  | [] => []
  | n :: ns => (match lookupT ts n with | some t => orLists t | none => []) ++ orListsOfNames ts ns

/-- the unnamed types of the added types in the order `CheckRootSchema` visits them (fix F-34: file name, then
position): added types by name, pre-order inside -/
def ordOf (ts : Types) : List (List String) := orListsOfNames ts (sortNames (ts.map (·.1)))

def checkOrListsN (ts : Types) : List (List String) → Except LE Unit
  | [] => .ok ()
  | l :: ls => match mustAllN ts l with
    | .error e => .error e
    | .ok () => checkOrListsN ts ls

def checkTypesN (ts : Types) (fuel : Nat) : List String → Except LE Unit
  | [] => .ok ()
  | name :: rest =>
    match lookupT ts name with
    | none => checkTypesN ts fuel rest
    | some t =>
      match checkNodeN ts fuel t with
      | .error e => .error e
      | .ok () => checkTypesN ts fuel rest

/-- `CheckRootSchema` with names -/
def checkRootN (root : CN) (ts : Types) : Except LE Unit :=
  match checkNodeN ts (checkFuel (some root) ts) root with
  | .error e => .error e
  | .ok () =>
    match checkOrListsN ts (ordOf ts) with
    | .error e => .error e
    | .ok () => checkTypesN ts (checkFuel (some root) ts) (sortNames (ts.map (·.1)))

/-- `Compile.check` with names -/
def checkN (root : CN) (ts : Types) : Except LE Unit :=
  match checkRootN root ts with
  | .error e => .error e
  | .ok () => if TG.check (tgOf root ts) then .ok () else .error (.code 104)

/-! ### the two verdicts in one vocabulary -/

/-- the verdict of a link check -/
inductive V
  | ok
  | missing (n : String)
  | e1301
  | e1303 (n : String)
  | e1304 (k : String)
  | outside (why : String)
  deriving Repr, DecidableEq

/-- (A): the link verdict of `Compile.check` (through `checkRootN`): another error of the checker coming first
(1117, the EXAMPLE against its rules) puts the case outside -/
def vA : Except LE Unit → V
  | .ok () => .ok
  | .error (.missing n) => .missing n
  | .error (.jsonTypeRecursion n) => .e1303 n
  | .error (.keyNotString k) => .e1304 k
  | .error .incorrectUserType => .e1301
  | .error (.code c) => .outside s!"code {c}"
  | .error (.unsupported w) => .outside w

/-- (L): the verdict of `LK.linkCheck`; without `allOf` the errors 703, 704, 705, 402 cannot occur -/
def vL : Except LK.Err Unit → V
  | .ok () => .ok
  | .error (.missing n) => .missing n
  | .error (.jsonTypeRecursion n) => .e1303 n
  | .error (.keyNotString k) => .e1304 k
  | .error .incorrectUserType => .e1301
  | .error .fuel => .outside "LK fuel"
  | .error _ => .outside "LK allOf error"

mutual
/-- the class both models express, per node: no constraint incompatible with the JSON type (1117), every literal
EXAMPLE obeys its own rules, the or-shortcut flag of a type shortcut says whether it has two names or more, and a
literal with a types list carries no EXAMPLE check (see `exOK`) -/
def common : CN → Bool
  | .lit spec bad => !bad && (litErr spec spec.ex).isNone
  | .any _ _ => true
  | .ref names _ jt _ orShort => if jt == .mixed then orShort == decide (2 ≤ names.length) else !orShort
  | .arr items _ bad => !bad && commonItems items
  | .obj props _ _ bad => !bad && commonProps props
def commonItems : List CN → Bool
  | [] => true
  | x :: xs => common x && commonItems xs
def commonProps : List (String × Bool × Bool × Bool × CN) → Bool
  | [] => true
  | (_, _, _, _, x) :: xs => common x && commonProps xs
end

/-- the type of a key shortcut is not itself a type shortcut (then `actualRootType` is read off its root node) -/
def keyDirect (ts : Types) (k : String) : Bool :=
  match lookupT ts ("@" ++ k) with
  | some (.ref _ _ jt _ _) => jt != .mixed
  | _ => true

def keysDirect (ts : Types) : List (String × Bool × Bool × Bool × CN) → Bool
  | [] => true
  | (k, sc, _, _, _) :: ps => (!sc || keyDirect ts k) && keysDirect ts ps

mutual
/-- the class of the bridge THEOREM `C09_models_agree_links`: `common`, every reference is a type shortcut or an
or-shortcut (`@A`, `@A | @B` as a value), a key shortcut or `additionalProperties: "@T"`; key types are `keyDirect` -/
def cls (ts : Types) : CN → Bool
  | .lit spec bad => !bad && (litErr spec spec.ex).isNone
  | .any _ _ => true
  | .ref names _ jt _ orShort => jt == .mixed && orShort == decide (2 ≤ names.length)
  | .arr items _ bad => !bad && clsItems ts items
  | .obj props _ _ bad => !bad && (keysDirect ts props && clsProps ts props)
def clsItems (ts : Types) : List CN → Bool
  | [] => true
  | x :: xs => cls ts x && clsItems ts xs
def clsProps (ts : Types) : List (String × Bool × Bool × Bool × CN) → Bool
  | [] => true
  | (_, _, _, _, x) :: xs => cls ts x && clsProps ts xs
end

def clsAll (root : CN) (ts : Types) : Bool := cls ts root && ts.all fun t => cls ts t.2

/-! ### the visiting order of `CheckRootSchema`, as a list of the names it looks up -/

/-- the type of the key shortcut `@k`, when it was added, is a string (no error 1304) -/
def keyStrOK (ts : Types) (k : String) : Bool :=
  match lookupT ts ("@" ++ k) with
  | none => true
  | some (.ref _ _ jt _ _) => jt == .str
  | some t => t.jt == some .str

def keysStr (ts : Types) : List (String × Bool × Bool × Bool × CN) → Bool
  | [] => true
  | (k, sc, _, _, _) :: ps => (!sc || keyStrOK ts k) && keysStr ts ps

def keyNames : List (String × Bool × Bool × Bool × CN) → List String
  | [] => []
  | (k, sc, _, _, _) :: ps => if sc then ("@" ++ k) :: keyNames ps else keyNames ps

mutual
/-- the names a node makes the checker look up, in the order it does: at an object the key shortcuts (source
order), then `additionalProperties: "@T"`, then the member values; pre-order -/
def visit : CN → List String
  | .ref names _ _ _ _ => names
  | .arr items _ _ => visitItems items
  | .obj props add _ _ => keyNames props ++ ((match add with | .type n => [n] | _ => []) ++ visitProps props)
  | _ => []
def visitItems : List CN → List String
  | [] => []
  | x :: xs => visit x ++ visitItems xs
def visitProps : List (String × Bool × Bool × Bool × CN) → List String
  | [] => []
  | (_, _, _, _, x) :: xs => visit x ++ visitProps xs
end

def visitNames (ts : Types) : List String → List String
  | [] => []
  | n :: ns => (match lookupT ts n with | some t => visit t | none => []) ++ visitNames ts ns

def flattenL : List (List String) → List String
  | [] => []
  | l :: ls => l ++ flattenL ls

/-- the whole of `CheckRootSchema`: the root, the unnamed types of the or-shortcuts of the added types, the added
types by name -/
def visitAll (root : CN) (ts : Types) : List String :=
  visit root ++ (flattenL (ordOf ts) ++ visitNames ts (sortNames (ts.map (·.1))))

mutual
/-- `cls` with every key type a string: then `Type "n" not found` is the only error the link check can report -/
def clsS (ts : Types) : CN → Bool
  | .lit spec bad => !bad && (litErr spec spec.ex).isNone
  | .any _ _ => true
  | .ref names _ jt _ orShort => jt == .mixed && orShort == decide (2 ≤ names.length)
  | .arr items _ bad => !bad && clsSItems ts items
  | .obj props _ _ bad => !bad && (keysStr ts props && clsSProps ts props)
def clsSItems (ts : Types) : List CN → Bool
  | [] => true
  | x :: xs => clsS ts x && clsSItems ts xs
def clsSProps (ts : Types) : List (String × Bool × Bool × Bool × CN) → Bool
  | [] => true
  | (_, _, _, _, x) :: xs => clsS ts x && clsSProps ts xs
end

def clsSAll (root : CN) (ts : Types) : Bool := clsS ts root && ts.all fun t => clsS ts t.2

/-- run-time comparison of the two models on one compiled schema -/
def bridge (root : CN) (ts : Types) : V × V :=
  (vA (checkRootN root ts), vL (LK.linkCheck (lkOf root ts) (ordOf ts)))

end CL
