import JSight.KeyType
import JSight.RulesFullSpec
import JSight.RulesFullProofs
/-!
Proofs about the key test of key shortcuts (`KeyType.keyOKc`): the loop is a conjunction, the key test of a type
with at least one constraint is the C02 validator (`RulesF.litOKFull`) on the key token, a type without
constraints stands for its (decoded) example, the verdict depends on the key only through its decoded bytes.
-/
namespace KeyType
open RulesF
open Rules (Kind)

/-! ### the loop -/

theorem loop_tail (o : Oracles) (ex : Bytes) (k : KeyBytes) (cs : List KCon) (s : LoopSt) (hi : s.i ≠ 0) (hin : s.inside = true) :
    (cs.foldl (loopBody o ex k) s).flag = (s.flag && cs.all (checkConstraint o ex k)) ∧
    (cs.foldl (loopBody o ex k) s).inside = true := by
  induction cs generalizing s with
  | nil => simp [hin]
  | cons c cs ih =>
    have h1 : (loopBody o ex k s c).i ≠ 0 := by simp [loopBody]
    have h2 : (loopBody o ex k s c).inside = true := rfl
    have h3 : (loopBody o ex k s c).flag = (s.flag && checkConstraint o ex k c) := by
      simp [loopBody, hi]
    obtain ⟨a, b⟩ := ih (loopBody o ex k s c) h1 h2
    refine ⟨?_, b⟩
    rw [List.foldl_cons, a, h3, List.all_cons, Bool.and_assoc]

theorem loop_nil (o : Oracles) (T : KeyTypeNode) (k : KeyBytes) (h : T.cons = []) :
    (keyLoop o T k).inside = false := by
  simp [keyLoop, h]

theorem loop_cons (o : Oracles) (T : KeyTypeNode) (k : KeyBytes) (h : T.cons ≠ []) :
    (keyLoop o T k).inside = true ∧ (keyLoop o T k).flag = T.cons.all (checkConstraint o T.ex k) := by
  unfold keyLoop
  cases hc : T.cons with
  | nil => exact absurd hc h
  | cons c cs =>
    let s0 : LoopSt := { flag := false, inside := false, i := 0 }
    have h1 : (loopBody o T.ex k s0 c).i ≠ 0 := by simp [loopBody, s0]
    have h2 : (loopBody o T.ex k s0 c).inside = true := rfl
    have h3 : (loopBody o T.ex k s0 c).flag = checkConstraint o T.ex k c := by simp [loopBody, s0]
    obtain ⟨a, b⟩ := loop_tail o T.ex k cs _ h1 h2
    refine ⟨b, ?_⟩
    rw [List.foldl_cons, a, h3, List.all_cons]

/-- `validateTypeRules` for one shortcut and one key, in closed form -/
theorem keyStep_eq (o : Oracles) (T : KeyTypeNode) (k : KeyBytes) :
    keyStep o T k =
      if T.kind != .s then none
      else if T.cons.isEmpty then some (Unquote.unquote T.ex == Unquote.unquote k)
      else some (T.cons.all (checkConstraint o T.ex k)) := by
  unfold keyStep
  by_cases hk : (T.kind != .s) = true
  · simp [hk]
  · simp only [hk]
    by_cases hc : T.cons = []
    · simp [loop_nil o T k hc, hc]
    · obtain ⟨a, b⟩ := loop_cons o T k hc
      simp [a, b, hc]

theorem keyOKc_eq (o : Oracles) (T : KeyTypeNode) (k : KeyBytes) (hs : T.kind = .s) :
    keyOKc o T k = if T.cons.isEmpty then Unquote.unquote T.ex == Unquote.unquote k
                   else T.cons.all (checkConstraint o T.ex k) := by
  unfold keyOKc
  rw [keyStep_eq, hs]
  by_cases hc : T.cons.isEmpty = true <;> simp [hc]

theorem keyOKc_not_string (o : Oracles) (T : KeyTypeNode) (k : KeyBytes) (hs : T.kind ≠ .s) :
    keyStep o T k = none ∧ keyOKc o T k = false := by
  have : keyStep o T k = none := by rw [keyStep_eq]; simp [hs]
  exact ⟨this, by simp [keyOKc, this]⟩

/-! ### constraint map of a compiled scalar node -/

theorem ofSpec_all (o : Oracles) (l : LitSpecF) (k : KeyBytes) :
    (ofSpec l).cons.all (checkConstraint o (ofSpec l).ex k) = l.rules.all (ruleOK o l.ex k) := by
  unfold ofSpec
  cases l.nul <;> simp [List.all_map, checkConstraint, Function.comp_def]

theorem ofSpec_empty (l : LitSpecF) : (ofSpec l).cons.isEmpty = (!l.nul && l.rules.isEmpty) := by
  unfold ofSpec
  cases l.nul <;> cases l.rules <;> simp

/-! ### key tokens -/

theorem quoted_head (k : Bytes) (h : Unquote.inQuotes k = true) : ∃ r, k = 34 :: r := by
  cases k with
  | nil => simp [Unquote.inQuotes] at h
  | cons c r =>
    simp [Unquote.inQuotes] at h
    exact ⟨r, by rw [h.1.2]⟩

theorem quoted_last (k : Bytes) (h : Unquote.inQuotes k = true) : k.getLast? = some 34 := by
  simp [Unquote.inQuotes] at h
  exact h.2

theorem number_quoted (k : Bytes) (h : Unquote.inQuotes k = true) : number k = none := by
  obtain ⟨r, rfl⟩ := quoted_head k h
  show Num.scan (toCh (34 :: r)) = none
  have : toCh (34 :: r) = .other :: toCh r := by simp [toCh]
  rw [this]; exact scan_other _

theorem kind_quoted (k : Bytes) (h : Unquote.inQuotes k = true) : kindOfTok k = some .s := by
  simp [kindOfTok, h]

theorem not_null_quoted (k : Bytes) (h : Unquote.inQuotes k = true) : (k == sNull) = false := by
  obtain ⟨r, rfl⟩ := quoted_head k h
  simp [sNull]

theorem trim_quoted (k : Bytes) (h : Unquote.inQuotes k = true) : trimSpaces k = k := by
  apply trim_id
  · intro c hc
    obtain ⟨r, rfl⟩ := quoted_head k h
    simp at hc; subst hc; decide
  · intro c hc
    rw [quoted_last k h] at hc
    simp at hc; subst hc; decide

theorem enumItem_quoted (k : Bytes) (h : Unquote.inQuotes k = true) : enumItem k = some (Unquote.unquote k, .s) := by
  simp [enumItem, trim_quoted k h, kind_quoted k h]

/-- a key is a string value of admissible kind for every string type -/
theorem kindGate_quoted (l : LitSpecF) (k : Bytes) (hs : l.kind = .s) (h : Unquote.inQuotes k = true) :
    kindGate l k = true := by
  simp [kindGate, kind_quoted k h, hs]

/-- the C02 validator on a string token of a string node: the conjunction of the literal validators -/
theorem litOKFull_quoted (o : Oracles) (l : LitSpecF) (k : Bytes) (hs : l.kind = .s) (h : Unquote.inQuotes k = true) :
    litOKFull o l k = l.rules.all (ruleOK o l.ex k) := by
  simp [litOKFull, kindGate_quoted l k hs h, not_null_quoted k h]

/-! ### the theorems -/

/-- **key admitted iff value accepted** (model level): for a string type with at least one constraint left by the
compiler, the key test is the C02 validator on the key token -/
theorem key_admitted_iff_value_accepted (o : Oracles) (l : LitSpecF) (k : KeyBytes)
    (hs : l.kind = .s) (hk : Unquote.inQuotes k = true) (hr : l.nul = true ∨ l.rules ≠ []) :
    keyOKc o (ofSpec l) k = litOKFull o l k := by
  rw [keyOKc_eq o (ofSpec l) k hs, ofSpec_empty, ofSpec_all, litOKFull_quoted o l k hs hk]
  have : (!l.nul && l.rules.isEmpty) = false := by
    rcases hr with h | h
    · simp [h]
    · cases hl : l.rules with
      | nil => exact absurd hl h
      | cons => simp
  simp [this]

/-- … and in the vocabulary of the property text: every rule of the type is satisfied by the decoded key -/
theorem key_admitted_iff_accepts (o : Oracles) (S : SSpec) (hS : S.WF) (hA : S.applicable = true)
    (hs : S.kind = .s) (hr : S.nul = true ∨ S.rules ≠ []) (cs : List SCh) (hc : (STok.str cs).WF) :
    keyOKc o (ofSpec S.toModel) (STok.str cs).bytes = true ↔ Accepts EnumEq o S (.str cs) := by
  have hq : Unquote.inQuotes (STok.str cs).bytes = true := by
    rw [inQuotes_wf _ hc]; rfl
  rw [key_admitted_iff_value_accepted o S.toModel _ hs hq]
  · exact accept_iff o S hS hA (.str cs) hc
  · rcases hr with h | h
    · exact Or.inl h
    · refine Or.inr ?_
      intro h'
      apply h
      simpa [SSpec.toModel] using h'

/-- a string type without constraints admits exactly its example, compared after decoding -/
theorem key_type_without_rules (o : Oracles) (l : LitSpecF) (k : KeyBytes)
    (hs : l.kind = .s) (hn : l.nul = false) (hr : l.rules = []) :
    keyOKc o (ofSpec l) k = (Unquote.unquote l.ex == Unquote.unquote k) := by
  rw [keyOKc_eq o (ofSpec l) k hs, ofSpec_empty]
  simp [hn, hr, ofSpec]

/-- … although as a VALUE every string is accepted -/
theorem value_type_without_rules (o : Oracles) (l : LitSpecF) (k : Bytes)
    (hs : l.kind = .s) (hr : l.rules = []) (hk : Unquote.inQuotes k = true) : litOKFull o l k = true := by
  rw [litOKFull_quoted o l k hs hk, hr]; rfl

theorem contains_of_inert (raws : List RawRule) (x : RawRule) (hx : RawRule.inert x = false)
    (h : raws.all RawRule.inert = true) : raws.contains x = false := by
  induction raws with
  | nil => rfl
  | cons r rs ih =>
    simp only [List.all_cons, Bool.and_eq_true] at h
    have : (x == r) = false := by
      apply beq_false_of_ne
      rintro rfl
      rw [h.1] at hx; cases hx
    simp only [List.contains_cons, this, Bool.false_or]
    exact ih h.2

/-- the rules the compiler drops: `type: "string"` (any non-format type name), `const: false`, `nullable: false` -/
theorem compile_inert (ex : Bytes) (raws : List RawRule) (h : raws.all RawRule.inert = true) :
    (compile .s ex raws).nul = false ∧ (compile .s ex raws).rules = [] := by
  refine ⟨contains_of_inert raws _ rfl h, ?_⟩
  show raws.filterMap (compileRule raws) = []
  rw [List.filterMap_eq_nil_iff]
  intro r hr
  have := (List.all_eq_true.1 h) r hr
  cases r with
  | nullable v => rfl
  | const v => cases v <;> simp_all [RawRule.inert, compileRule]
  | typeOther => rfl
  | _ => simp [RawRule.inert] at this

theorem key_type_without_rules_raw (o : Oracles) (ex : Bytes) (raws : List RawRule) (k : KeyBytes)
    (h : raws.all RawRule.inert = true) :
    keyOKc o (ofRaw ex raws) k = (Unquote.unquote ex == Unquote.unquote k) := by
  obtain ⟨a, b⟩ := compile_inert ex raws h
  exact key_type_without_rules o (compile .s ex raws) k rfl a b

/-! ### spelling -/

/-- a literal validator sees a key only through its decoded bytes -/
theorem ruleOK_spelling (o : Oracles) (ex : Bytes) (k₁ k₂ : KeyBytes)
    (h₁ : Unquote.inQuotes k₁ = true) (h₂ : Unquote.inQuotes k₂ = true)
    (hu : Unquote.unquote k₁ = Unquote.unquote k₂) (r : Rule) :
    ruleOK o ex k₁ r = ruleOK o ex k₂ r := by
  cases r with
  | min b x => simp [ruleOK, number_quoted _ h₁, number_quoted _ h₂]
  | max b x => simp [ruleOK, number_quoted _ h₁, number_quoted _ h₂]
  | precision p => simp [ruleOK, number_quoted _ h₁, number_quoted _ h₂]
  | minLength n => simp [ruleOK, hu]
  | maxLength n => simp [ruleOK, hu]
  | regex p => simp [ruleOK, hu]
  | fmt f => simp [ruleOK, hu]
  | enum items => simp [ruleOK, enumItem_quoted _ h₁, enumItem_quoted _ h₂, hu]
  | const =>
    unfold ruleOK sameJSONValue
    by_cases he : Unquote.inQuotes ex = true
    · simp [h₁, h₂, he, hu]
    · have n1 : (k₁ == ex) = false := by
        apply beq_false_of_ne; rintro rfl; exact he h₁
      have n2 : (k₂ == ex) = false := by
        apply beq_false_of_ne; rintro rfl; exact he h₂
      simp [he, number_quoted _ h₁, number_quoted _ h₂, n1, n2]

/-- **F-35 as a theorem**: two spellings of one key get the same answer from every key type -/
theorem key_spelling_invariant (o : Oracles) (T : KeyTypeNode) (k₁ k₂ : KeyBytes)
    (h₁ : Unquote.inQuotes k₁ = true) (h₂ : Unquote.inQuotes k₂ = true)
    (hu : Unquote.unquote k₁ = Unquote.unquote k₂) :
    keyStep o T k₁ = keyStep o T k₂ ∧ keyOKc o T k₁ = keyOKc o T k₂ := by
  have hall : T.cons.all (checkConstraint o T.ex k₁) = T.cons.all (checkConstraint o T.ex k₂) := by
    congr 1
    funext c
    cases c <;> simp [checkConstraint]
    exact ruleOK_spelling o T.ex k₁ k₂ h₁ h₂ hu _
  have : keyStep o T k₁ = keyStep o T k₂ := by
    rw [keyStep_eq, keyStep_eq, hall, hu]
  exact ⟨this, by simp [keyOKc, this]⟩

/-- in the vocabulary of RFC 8259: string tokens denoting the same text -/
theorem key_spelling_invariant_tokens (o : Oracles) (T : KeyTypeNode) (cs₁ cs₂ : List SCh)
    (h₁ : (STok.str cs₁).WF) (h₂ : (STok.str cs₂).WF) (ht : text cs₁ = text cs₂) :
    keyOKc o T (STok.str cs₁).bytes = keyOKc o T (STok.str cs₂).bytes := by
  have q₁ : Unquote.inQuotes (STok.str cs₁).bytes = true := by rw [inQuotes_wf _ h₁]; rfl
  have q₂ : Unquote.inQuotes (STok.str cs₂).bytes = true := by rw [inQuotes_wf _ h₂]; rfl
  refine (key_spelling_invariant o T _ _ q₁ q₂ ?_).2
  rw [unquote_str cs₁ h₁, unquote_str cs₂ h₂, ht]

/-! ### key versus value: the full statement and its witness -/

/-- "a key is admitted iff the key, as a string value, is accepted by the key type" for EVERY compiled string type -/
def key_vs_value_full : Prop :=
  ∀ (o : Oracles) (l : LitSpecF) (k : KeyBytes), l.kind = .s → Unquote.inQuotes k = true →
    keyOKc o (ofSpec l) k = litOKFull o l k

/-- `@K = "zz"` (no rules) and the key `"a"`: refused as a key, accepted as a value -/
def wType : LitSpecF := { kind := .s, ex := [34, 122, 122, 34], nul := false, rules := [] }
def wKey : Bytes := [34, 97, 34]

theorem key_vs_value_full_false : ¬ key_vs_value_full := by
  intro h
  have := h noOracle wType wKey rfl (by decide)
  rw [key_type_without_rules noOracle wType wKey rfl rfl rfl,
      value_type_without_rules noOracle wType wKey rfl rfl (by decide)] at this
  revert this
  decide

end KeyType
