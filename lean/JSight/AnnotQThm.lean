import JSight.AnnotQLoad
import JSight.QNameBytes
import JSight.C02TextGrammar2
/-!
Annotations with QUOTED rule names and LIST values — on schema texts (bytes): the extended grammar `Lay.GObj`
(`C02TextGrammar2`) read as the class-level grammar `SchemaScan.QObj`; `load_gannot`: scanner model + loader model on
`gannText` build ONE literal node whose rules are, positions aside, the pairs (`GName.meaning`, `GVal.spell`) in written
order — the loader binds the UNQUOTED name (a quoted name's key-end span runs from quote to quote, `nameOf` decodes it)
and records a list value from bracket to bracket.
-/
namespace Lay
open SchemaScan

def GItem.cls (i : GItem) : CItem := (i.w1.map classify, i.tok.map classify, i.w2.map classify)

def GVal.qv : GVal → QV
  | .lit _ => .lit
  | .list b0 [] => .list (b0.map classify) []
  | .list _ (i :: is) => .list [] ((i :: is).map GItem.cls)

def GName.isQuoted : GName → Bool
  | .bare _ => false
  | .quoted _ => true

def GRule.cls (r : GRule) : QRule :=
  ⟨⟨r.b1.map classify, r.name.spell.map classify, r.n2, r.b3.map classify, r.val.spell.map classify, r.b4.map classify⟩,
    r.name.isQuoted, r.val.qv⟩

def GObj.cls : GObj → QObj
  | .empty b0 => .empty (b0.map classify)
  | .rules r rs tc => .rules r.cls (rs.map GRule.cls) (tc.map (·.map classify))

/-! ### rendering on bytes and on classes -/

theorem GRule.render_cls (r : GRule) : r.render.map classify = r.cls.c.render := by
  simp only [GRule.render, CRule.render, GRule.cls, List.map_append, List.map_cons, List.map_replicate]
  rfl

theorem renderGRules_cls : ∀ (rs : List GRule) (r : GRule),
    (renderGRules r rs).map classify = renderRules r.cls.c ((rs.map GRule.cls).map QRule.c)
  | [], r => by simp [renderGRules, renderRules, GRule.render_cls]
  | r' :: rs, r => by
    simp only [renderGRules, renderRules, List.map_append, List.map_cons, GRule.render_cls, renderGRules_cls rs r']
    rfl

theorem GObj.body_cls (ob : GObj) : ob.body.map classify = ob.cls.c.body := by
  cases ob with
  | empty b0 => rfl
  | rules r rs tc =>
    simp only [GObj.body, GObj.cls, QObj.c, CObj.body, List.map_append, renderGRules_cls]
    cases tc <;> rfl

theorem gannText_cls (a : Ann) (ha : a.isAnn = true) (tok s1 s2 : List UInt8) (ob : GObj) (s3 tl : List UInt8) :
    (gannText a tok s1 s2 ob s3 tl).map classify
      = annText a (tok.map classify) (s1.map classify) (s2.map classify) ob.cls.c (s3.map classify) (tl.map classify) := by
  simp only [gannText, annText, List.map_append, List.map_cons, GObj.body_cls]
  cases a <;> simp [Ann.isAnn] at ha <;> rfl

theorem cls44 : classify 44 = .comma := by decide
theorem cls91 : classify 91 = .lbrack := by decide
theorem cls93 : classify 93 = .rbrack := by decide

theorem renderGItems_cls : ∀ (is : List GItem) (i : GItem),
    (renderGItems (i :: is) ++ [93]).map classify = renderCItems ((i :: is).map GItem.cls)
  | [], i => by simp [renderGItems, renderCItems, GItem.cls, cls93]
  | i' :: is, i => by
    have ih := renderGItems_cls is i'
    have e : renderCItems ((i :: i' :: is).map GItem.cls)
        = i.w1.map classify ++ (i.tok.map classify ++ (i.w2.map classify ++
            ([Cls.comma] ++ renderCItems ((i' :: is).map GItem.cls)))) := rfl
    rw [e, ← ih]
    simp [renderGItems, cls44]

/-! ### validity -/

theorem GVal.valid_cls (a : Ann) (v : GVal) (h : v.Valid a) : v.qv.Valid a (v.spell.map classify) := by
  cases v with
  | lit t => exact h
  | list b0 items =>
    obtain ⟨hb0, hits⟩ := h
    cases items with
    | nil =>
      show (_ = _) ∧ ABlank a _ ∧ CItemsValid a _
      refine ⟨?_, hb0, fun it hit => absurd hit List.not_mem_nil⟩
      simp [GVal.spell, renderCItems, cls91, cls93]
    | cons i is =>
      show (_ = _) ∧ ABlank a _ ∧ CItemsValid a _
      refine ⟨?_, fun c hc => absurd hc List.not_mem_nil, ?_⟩
      · have := renderGItems_cls is i
        simp only [GVal.spell, List.map_cons, List.nil_append, cls91, this]
      · intro it hit
        obtain ⟨g, hg, rfl⟩ := List.mem_map.1 hit
        exact hits g hg

theorem GName.valid_cls (n : GName) (h : n.Valid) :
    (n.isQuoted = true → IsKey (n.spell.map classify)) ∧ (n.isQuoted = false → IsName (n.spell.map classify)) := by
  cases n with
  | bare b => exact ⟨fun hq => (by simp [GName.isQuoted] at hq), fun _ => h⟩
  | quoted cs => exact ⟨fun _ => isKey_of_str cs h, fun hq => (by simp [GName.isQuoted] at hq)⟩

theorem GRule.valid_cls (a : Ann) (r : GRule) (h : r.Valid a) : r.cls.Valid a :=
  ⟨h.1, GName.valid_cls r.name h.2.1, h.2.2.1, GVal.valid_cls a r.val h.2.2.2.1, h.2.2.2.2⟩

theorem GObj.valid_cls (a : Ann) (ob : GObj) (h : ob.Valid a) : ob.cls.Valid a := by
  cases ob with
  | empty b0 => exact h
  | rules r rs tc =>
    refine ⟨⟨GRule.valid_cls a r h.1.1, ?_⟩, ?_⟩
    · intro x hx
      obtain ⟨g, hg, rfl⟩ := List.mem_map.1 hx
      exact GRule.valid_cls a g (h.1.2 g hg)
    · intro b5 hb5
      cases tc with
      | none => cases hb5
      | some t =>
        simp only [Option.map_some, Option.some.injEq] at hb5
        subst hb5
        exact h.2 t rfl

/-! ### the name and the value of a rule, as the loader reads them off the text -/

theorem GRule.cls_render_length (r : GRule) : r.cls.c.render.length = r.render.length := by
  rw [← GRule.render_cls, List.length_map]

theorem nameOf_ruleQ (src : Array UInt8) (r : GRule) (hn : r.name.Valid) (p : Nat) (hat : AtB src p r.render) :
    Loader.nameOf src (r.cls.span p) = r.name.meaning := by
  cases hname : r.name with
  | bare n =>
    rw [hname] at hn
    have h := nameOf_rule src ⟨r.b1, n, r.n2, r.b3, r.val.spell, r.b4⟩ hn p (by
      simpa [BRule.render, GRule.render, hname, GName.spell] using hat)
    have e : r.cls.span p = (BRule.cls ⟨r.b1, n, r.n2, r.b3, r.val.spell, r.b4⟩).span p := by
      simp [QRule.span, QRule.keyEnd, CRule.span, GRule.cls, BRule.cls, hname, GName.isQuoted, GName.spell]
    rw [e, h]
    rfl
  | quoted cs =>
    rw [hname] at hn
    have hok : ∀ c ∈ cs, c.ok := hn
    simp only [GRule.render, hname, GName.spell] at hat
    rw [AtB_append, AtB_append] at hat
    have hns : AtB src (p + r.b1.length) (34 :: (cs.flatMap RulesF.SCh.render ++ [34])) := hat.2.1
    have hs := slice_tok src _ _ hns (by simp)
    have hsp : r.cls.span p = (p + r.b1.length,
        p + r.b1.length + (34 :: (cs.flatMap RulesF.SCh.render ++ [34]) : List UInt8).length - 1) := by
      simp [QRule.span, QRule.keyEnd, CRule.nameOff, GRule.cls, hname, GName.isQuoted, GName.spell]
    rw [hsp]
    unfold Loader.nameOf
    simp only [hs]
    have hq : Loader.isBlank 34 = false := by decide
    have ht := Loader.trimSpaces_token [] [] (34 :: (cs.flatMap RulesF.SCh.render ++ [34])) (by simp) (by simp) 34
      (cs.flatMap RulesF.SCh.render ++ [34]) rfl hq 34 ((cs.flatMap RulesF.SCh.render).reverse ++ [34]) (by simp) hq
    simp only [List.nil_append, List.append_nil] at ht
    rw [ht]
    exact RulesF.unquote_str cs hok

theorem GVal.spell_ne (a : Ann) (v : GVal) (h : v.Valid a) : v.spell ≠ [] := by
  cases v with
  | lit t => exact scalar_ne h
  | list b0 items => cases items <;> simp [GVal.spell]

theorem valOf_ruleQ (src : Array UInt8) (a : Ann) (r : GRule) (hv : r.val.Valid a) (p : Nat)
    (hat : AtB src p r.render) :
    Loader.slice src (r.cls.c.vspan p).1 (r.cls.c.vspan p).2 = r.val.spell := by
  simp only [GRule.render] at hat
  have e : r.b1 ++ (r.name.spell ++ (List.replicate r.n2 32 ++ 58 :: (r.b3 ++ (r.val.spell ++ r.b4))))
      = (r.b1 ++ (r.name.spell ++ (List.replicate r.n2 32 ++ 58 :: r.b3))) ++ (r.val.spell ++ r.b4) := by simp
  rw [e, AtB_append] at hat
  have hat2 := (AtB_append src r.val.spell r.b4 _).1 hat.2
  have hs := slice_tok src r.val.spell _ hat2.1 (GVal.spell_ne a r.val hv)
  have hoff : (r.b1 ++ (r.name.spell ++ (List.replicate r.n2 32 ++ 58 :: r.b3))).length
      = r.b1.length + r.name.spell.length + r.n2 + 1 + r.b3.length := by
    simp only [List.length_append, List.length_cons, List.length_replicate]; omega
  simp only [CRule.vspan, CRule.valOff, GRule.cls, List.length_map]
  rw [hoff] at hs
  simpa [Nat.add_assoc] using hs

/-! ### list values sit under `or` / `enum` / `allOf` -/

def embName (n : List UInt8) : Bool :=
  n == "or".toUTF8.toList || n == "enum".toUTF8.toList || n == "allOf".toUTF8.toList

/-- a list value is the value of a rule the loader reads as `or` / `enum` / `allOf` (under any other name the loader
answers error 802) -/
def GRule.listEmb (r : GRule) : Prop := ∀ b0 items, r.val = .list b0 items → embName r.name.meaning = true

def GObj.listsEmb (ob : GObj) : Prop := ∀ r ∈ ob.allRules, r.listEmb

theorem embOK_rule (src : Array UInt8) (r : GRule) (hn : r.name.Valid) (p : Nat) (hat : AtB src p r.render)
    (he : r.listEmb) : Loader.embOK src r.cls p := by
  intro w0 items hv
  have : ∃ b0 its, r.val = .list b0 its := by
    cases hval : r.val with
    | lit t => simp [GRule.cls, GVal.qv, hval] at hv
    | list b0 its => exact ⟨b0, its, rfl⟩
  obtain ⟨b0, its, hl⟩ := this
  have h := he b0 its hl
  unfold Loader.isEmbName
  rw [nameOf_ruleQ src r hn p hat]
  exact h

theorem embOK_rules (src : Array UInt8) (a : Ann) : ∀ (rs : List GRule) (r : GRule), (r.Valid a ∧ ∀ x ∈ rs, x.Valid a) →
    (r.listEmb ∧ ∀ x ∈ rs, x.listEmb) → ∀ (p : Nat) (rest : List UInt8), AtB src p (renderGRules r rs ++ rest) →
    Loader.embOKRules src p r.cls (rs.map GRule.cls)
  | [], r, hv, he, p, rest, hat => by
    simp only [renderGRules] at hat
    rw [AtB_append] at hat
    exact embOK_rule src r hv.1.2.1 p hat.1 he.1
  | r' :: rs, r, hv, he, p, rest, hat => by
    simp only [renderGRules, List.append_assoc, List.cons_append] at hat
    rw [AtB_append] at hat
    obtain ⟨h1, _, h3⟩ := hat
    have ih := embOK_rules src a rs r' ⟨hv.2 r' (by simp), fun z hz => hv.2 z (by simp [hz])⟩
      ⟨he.2 r' (by simp), fun z hz => he.2 z (by simp [hz])⟩ (p + r.render.length + 1) rest h3
    simp only [List.map_cons, Loader.embOKRules, GRule.cls_render_length]
    exact ⟨embOK_rule src r hv.1.2.1 p h1 he.1, ih⟩

/-! ### the loaded rules -/

theorem loaded_rulesQ (src : Array UInt8) (a : Ann) : ∀ (rs : List GRule) (r : GRule), (r.Valid a ∧ ∀ x ∈ rs, x.Valid a) →
    ∀ (p : Nat) (rest : List UInt8), AtB src p (renderGRules r rs ++ rest) →
    (C02T.loadedRules src (spansRulesQ p r.cls (rs.map GRule.cls))
        (vspansRules p r.cls.c ((rs.map GRule.cls).map QRule.c))).map C02T.erase
      = C02T.mk ((r.name.meaning, r.val.spell) :: rs.map (fun x => (x.name.meaning, x.val.spell)))
  | [], r, hv, p, rest, hat => by
    simp only [renderGRules] at hat
    rw [AtB_append] at hat
    simp [C02T.loadedRules, spansRulesQ, vspansRules, Compile.resolveRule, C02T.erase, C02T.mk,
      nameOf_ruleQ src r hv.1.2.1 p hat.1, valOf_ruleQ src a r hv.1.2.2.2.1 p hat.1]
  | r' :: rs, r, hv, p, rest, hat => by
    simp only [renderGRules, List.append_assoc, List.cons_append] at hat
    rw [AtB_append] at hat
    obtain ⟨h1, _, h3⟩ := hat
    have ih := loaded_rulesQ src a rs r' ⟨hv.2 r' (by simp), fun z hz => hv.2 z (by simp [hz])⟩
      (p + r.render.length + 1) rest h3
    simp only [C02T.loadedRules, C02T.mk, List.map_cons, spansRulesQ, vspansRules, GRule.cls_render_length,
      List.zip_cons_cons] at ih ⊢
    rw [ih]
    simp [Compile.resolveRule, C02T.erase, nameOf_ruleQ src r hv.1.2.1 p h1, valOf_ruleQ src a r hv.1.2.2.2.1 p h1]

/-! ### fuel -/

theorem citemsEvs_length (a : Ann) (v : Nat) : ∀ (items : List CItem), CItemsValid a items → ∀ (o : Nat),
    (citemsEvs v o items).length ≤ 5 * (renderCItems items).length
  | [], _, o => by simp [citemsEvs, renderCItems]
  | (w1, t, w2) :: its, hv, o => by
    have ih := citemsEvs_length a v its (fun z hz => hv z (by simp [hz]))
      (o + w1.length + t.length + w2.length + (if its.isEmpty then 0 else 1))
    have ht : 1 ≤ t.length := by
      have hsc : IsScalar t := (hv (w1, t, w2) (by simp)).2.1
      obtain ⟨c, tl, _, _, _, he, _⟩ := hsc
      rw [he]; simp
    have h1 := nlEvs_len o w1
    have h2 := nlEvs_len (o + w1.length + t.length) w2
    rw [Loader.renderCItems_cons_length]
    simp only [citemsEvs, List.length_append, List.length_cons]
    omega

theorem QRule.evs_length (a : Ann) (r : QRule) (hv : r.Valid a) (p : Nat) : (r.evs p).length ≤ 6 * r.c.render.length := by
  have h1 := nlEvs_len p r.c.b1
  have h3 := nlEvs_len (r.c.nameOff p + r.c.name.length + r.c.n2 + 1) r.c.b3
  have h4 := nlEvs_len (r.c.valOff p + r.c.val.length) r.c.b4
  have hval := hv.2.2.2.1
  cases hvk : r.v with
  | lit =>
    simp only [QRule.evs, QRule.openEvs, QRule.closeEvs, hvk, QV.openEvs, QV.closeEvs, CRule.render_length,
      List.length_append, List.length_cons, List.length_nil]
    have : 1 ≤ r.c.val.length := by
      rw [hvk] at hval
      obtain ⟨c, tl, _, _, _, he, _⟩ := hval
      rw [he]; simp
    omega
  | list w0 items =>
    rw [hvk] at hval
    obtain ⟨hve, _, hits⟩ := hval
    have h5 := nlEvs_len (r.c.valOff p + 1) w0
    have h6 := citemsEvs_length a (r.c.valOff p) items hits (r.c.valOff p + 1 + w0.length)
    have hl : r.c.val.length = 1 + w0.length + (renderCItems items).length := by
      rw [hve]; simp only [List.length_cons, List.length_append]; omega
    simp only [QRule.evs, QRule.openEvs, QRule.closeEvs, hvk, QV.openEvs, QV.closeEvs, CRule.render_length,
      List.length_append, List.length_cons, List.length_nil]
    omega

theorem rulesEvsQ_length (a : Ann) : ∀ (rs : List QRule) (r : QRule), ValidRulesQ a r rs → ∀ (p : Nat),
    (rulesEvsQ p r rs).length ≤ 6 * (renderRules r.c (rs.map QRule.c)).length
  | [], r, hv, p => QRule.evs_length a r hv.1 p
  | r' :: rs, r, hv, p => by
    have h1 := QRule.evs_length a r hv.1 p
    have h2 := rulesEvsQ_length a rs r' ⟨hv.2 r' (by simp), fun z hz => hv.2 z (by simp [hz])⟩ (p + r.c.render.length + 1)
    simp only [rulesEvsQ, renderRules, List.map_cons, List.length_append, List.length_cons]
    omega

theorem QObj.evs_length (a : Ann) (ob : QObj) (hv : ob.Valid a) (o : Nat) : (ob.evs o).length ≤ 6 * ob.c.body.length + 1 := by
  cases ob with
  | empty b0 =>
    have := nlEvs_len (o + 1) b0
    simp only [QObj.evs, QObj.c, CObj.body, List.length_append, List.length_cons, List.length_nil]
    omega
  | rules r rs tc =>
    have h1 := rulesEvsQ_length a rs r hv.1 (o + 1)
    cases tc with
    | none =>
      simp only [QObj.evs, QObj.c, CObj.body, tcEvs, renderTc, List.length_append, List.length_cons, List.length_nil]
      omega
    | some b5 =>
      have h2 := nlEvs_len (o + 1 + (renderRules r.c (rs.map QRule.c)).length + 1) b5
      simp only [QObj.evs, QObj.c, CObj.body, tcEvs, renderTc, List.length_append, List.length_cons, List.length_nil]
      omega

theorem annEvsQ_length (a : Ann) (tok s1 s2 : List Cls) (ob : QObj) (hv : ob.Valid a) (s3 tl : List Cls) :
    (annEvsQ a tok s1 s2 ob s3 tl).length ≤ 6 * (annText a tok s1 s2 ob.c s3 tl).length + 8 := by
  have h1 := nlEvs_len (annOff tok s1 + 2) s2
  have h2 := QObj.evs_length a ob hv (objOff tok s1 s2)
  have h3 := nlEvs_len (objOff tok s1 s2 + 1 + ob.c.body.length + 1) s3
  have h4 := tailEvs_length (annOff tok s1) (tailOff tok s1 s2 ob.c s3) a tl
  simp only [annEvsQ, annText, List.length_append, List.length_cons]
  omega

/-! ### the theorem -/

/-- **an annotated top-level scalar with quoted / bare rule names and literal / list values loads into one literal node**
whose resolved rules are, positions aside, the pairs (decoded name, value text) in written order -/
theorem load_gannot (a : Ann) (ha : a.isAnn = true) (tok s1 s2 : List UInt8) (ob : GObj) (s3 tl : List UInt8)
    (hv : GAnnValid a tok s1 s2 ob s3 tl) (he : ob.listsEmb) :
    ∃ st rs, Loader.loadText (gannText a tok s1 s2 ob s3 tl) = .ok st ∧ st.root = some 0 ∧
      st.nodes.toList.map (Compile.resolve (gannText a tok s1 s2 ob s3 tl).toArray) = [C02T.node tok rs] ∧
      rs.map C02T.erase = C02T.mk ob.pairs ∧
      absTable (gannText a tok s1 s2 ob s3 tl).toArray st = [annNode tok (ob.pairs.map Prod.fst)] := by
  have hvo := GObj.valid_cls a ob hv.ob
  have hat : AtB (gannText a tok s1 s2 ob s3 tl).toArray 0 (gannText a tok s1 s2 ob s3 tl) :=
    AtB_toArray _ [] _ rfl
  have htok : AtB (gannText a tok s1 s2 ob s3 tl).toArray 0 tok := by
    simp only [gannText] at hat ⊢
    rw [AtB_append] at hat
    exact hat.1
  have hval : Loader.slice (gannText a tok s1 s2 ob s3 tl).toArray 0 ((tok.map classify).length - 1) = tok := by
    have := slice_tok _ tok 0 htok (scalar_ne hv.tok)
    simpa using this
  -- the text behind `{`
  have hbody : ∀ r rs tc, ob = .rules r rs tc →
      AtB (gannText a tok s1 s2 ob s3 tl).toArray (objOff (tok.map classify) (s1.map classify) (s2.map classify) + 1)
        (renderGRules r rs ++ (renderTcB tc ++ (125 :: (s3 ++ tl)))) := by
    intro r rs tc hob
    subst hob
    have e : gannText a tok s1 s2 (.rules r rs tc) s3 tl
        = (tok ++ (s1 ++ (47 :: markB a :: (s2 ++ [123])))) ++ (renderGRules r rs ++ (renderTcB tc ++ (125 :: (s3 ++ tl)))) := by
      simp [gannText, GObj.body]
    have hat' := hat
    rw [e, AtB_append] at hat'
    have hoff : 0 + (tok ++ (s1 ++ (47 :: markB a :: (s2 ++ [123])))).length
        = objOff (tok.map classify) (s1.map classify) (s2.map classify) + 1 := by
      simp only [objOff, List.length_append, List.length_cons, List.length_nil, List.length_map]; omega
    rw [hoff] at hat'
    rw [← e] at hat'
    exact hat'.2
  have hemb : Loader.embOKObj (gannText a tok s1 s2 ob s3 tl).toArray
      (objOff (tok.map classify) (s1.map classify) (s2.map classify)) ob.cls := by
    cases hob : ob with
    | empty b0 => trivial
    | rules r rs tc =>
      have hb := hbody r rs tc hob
      rw [hob] at hv he
      have hvr := hv.ob
      exact embOK_rules _ a rs r hvr.1 ⟨he r (by simp [GObj.allRules]), fun x hx => he x (by simp [GObj.allRules, hx])⟩ _ _
        (hob ▸ hb)
  obtain ⟨st, hfold, hr, hn⟩ := Loader.annot_foldQ (gannText a tok s1 s2 ob s3 tl).toArray a ha (tok.map classify)
    (s1.map classify) (s2.map classify) ob.cls hvo hemb (s3.map classify) (tl.map classify)
  have hload : Loader.loadText (gannText a tok s1 s2 ob s3 tl) = .ok st := by
    unfold Loader.loadText
    simp only [gannText_cls a ha]
    refine Loader.loadLoop_of_emits _ (annot_emitsQ a ha _ hv.tok _ hv.s1 _ hv.s2 _ hvo _ hv.s3 _ hv.tl) _ {} st ?_ hfold
    have := annEvsQ_length a (tok.map classify) (s1.map classify) (s2.map classify) ob.cls hvo (s3.map classify)
      (tl.map classify)
    simp only [List.size_toArray]
    omega
  have hrules : (C02T.loadedRules (gannText a tok s1 s2 ob s3 tl).toArray
      (ob.cls.spans (objOff (tok.map classify) (s1.map classify) (s2.map classify)))
      (ob.cls.c.vspans (objOff (tok.map classify) (s1.map classify) (s2.map classify)))).map C02T.erase = C02T.mk ob.pairs := by
    cases hob : ob with
    | empty b0 => rfl
    | rules r rs tc =>
      have hb := hbody r rs tc hob
      rw [hob] at hv
      exact loaded_rulesQ _ a rs r hv.ob.1 _ _ (hob ▸ hb)
  refine ⟨st, _, hload, hr, ?_, hrules, ?_⟩
  · rw [hn]
    simp only [List.map_cons, List.map_nil, C02T.resolve_addSpans, hval]
  · unfold absTable
    rw [hn]
    have hnames : (ob.cls.spans (objOff (tok.map classify) (s1.map classify) (s2.map classify))).map
        (Loader.nameOf (gannText a tok s1 s2 ob s3 tl).toArray) = ob.pairs.map Prod.fst := by
      have h := congrArg (List.map (·.name)) hrules
      simp only [List.map_map] at h
      have e1 : ∀ (sps vsps : List (Nat × Nat)), sps.length = vsps.length →
          (C02T.loadedRules (gannText a tok s1 s2 ob s3 tl).toArray sps vsps).map ((·.name) ∘ C02T.erase)
            = sps.map (Loader.nameOf (gannText a tok s1 s2 ob s3 tl).toArray) := by
        intro sps
        induction sps with
        | nil => intro vsps _; simp [C02T.loadedRules]
        | cons sp sps ih =>
          intro vsps hl
          cases vsps with
          | nil => simp at hl
          | cons vsp vsps =>
            have := ih vsps (by simpa using hl)
            simp only [C02T.loadedRules, List.map_cons, List.zip_cons_cons, List.map_map] at this ⊢
            rw [this]
            simp [Compile.resolveRule, C02T.erase]
      have hlen : (ob.cls.spans (objOff (tok.map classify) (s1.map classify) (s2.map classify))).length
          = (ob.cls.c.vspans (objOff (tok.map classify) (s1.map classify) (s2.map classify))).length := by
        cases ob with
        | empty b0 => rfl
        | rules r rs tc =>
          simp only [GObj.cls, QObj.spans, QObj.c, CObj.vspans]
          generalize (objOff (tok.map classify) (s1.map classify) (s2.map classify)) + 1 = p
          generalize r.cls = q
          generalize rs.map GRule.cls = qs
          induction qs generalizing p q with
          | nil => rfl
          | cons q' qs ih => simp only [spansRulesQ, List.map_cons, vspansRules, List.length_cons, ih]
      rw [e1 _ _ hlen] at h
      rw [h]
      simp [C02T.mk, Function.comp_def]
    simp only [List.map_cons, List.map_nil, absNode, Loader.addSpans, List.nil_append, List.map_map,
      Option.map_some, hval, annNode]
    have hc : (ruleText (gannText a tok s1 s2 ob s3 tl).toArray ∘ Sum.inl)
        = Loader.nameOf (gannText a tok s1 s2 ob s3 tl).toArray := by
      funext sp; rfl
    rw [hc, hnames]
    rfl


theorem GObj.pairs_eq (ob : GObj) : ob.pairs = ob.allRules.map (fun x => (x.name.meaning, x.val.spell)) := by
  cases ob <;> rfl

/-- the condition on the loaded pairs: a value text that begins with `[` sits under `or` / `enum` / `allOf` -/
def pairsEmb (ps : List (List UInt8 × List UInt8)) : Prop := ∀ p ∈ ps, ∀ t, p.2 = 91 :: t → embName p.1 = true

theorem listsEmb_of_pairs (ob : GObj) (h : pairsEmb ob.pairs) : ob.listsEmb := by
  intro r hr b0 items hval
  have hp : (r.name.meaning, r.val.spell) ∈ ob.pairs := by
    rw [GObj.pairs_eq]; exact List.mem_map.2 ⟨r, hr, rfl⟩
  have hs : ∃ t, r.val.spell = 91 :: t := by
    rw [hval]; cases items <;> exact ⟨_, rfl⟩
  obtain ⟨t, ht⟩ := hs
  exact h _ hp t ht

/-- **the scanner model's events of an annotated scalar of the extended grammar**, exactly: a quoted name's key-begin /
key-end span runs from its opening to its closing quote (a bare name's: from its first byte to the byte before the
colon), a list value's array-end / value-end span from bracket to bracket -/
theorem annot_eventsQ (a : Ann) (ha : a.isAnn = true) (tok s1 s2 : List UInt8) (ob : GObj) (s3 tl : List UInt8)
    (hv : GAnnValid a tok s1 s2 ob s3 tl) :
    scanAll (gannText a tok s1 s2 ob s3 tl)
      = .ok (annEvsQ a (tok.map classify) (s1.map classify) (s2.map classify) ob.cls (s3.map classify)
          (tl.map classify)) := by
  have hvo := GObj.valid_cls a ob hv.ob
  unfold scanAll
  simp only [gannText_cls a ha]
  have h := events_of_emits (annot_emitsQ a ha _ hv.tok _ hv.s1 _ hv.s2 _ hvo _ hv.s3 _ hv.tl)
    (8 * (annText a (tok.map classify) (s1.map classify) (s2.map classify) ob.cls.c (s3.map classify)
      (tl.map classify)).toArray.size + 16) [] (by
      have := annEvsQ_length a (tok.map classify) (s1.map classify) (s2.map classify) ob.cls hvo (s3.map classify)
        (tl.map classify)
      simp only [List.size_toArray]
      omega)
  simpa using h

end Lay
