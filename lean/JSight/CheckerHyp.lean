import JSight.CheckerTraverse
/-!
# C04 — the hypotheses of the checker theorems as Boolean tests (core Lean only; the driver runs them on every dump)

`C04_checker_complete` assumes that literal nodes carry a literal-end lexeme and that the offsets of the nodes of a file
increase in pre-order (claimed for trees whose nodes all come from one file: no `allOf` inheritance); `C04_checker_no_crash` assumes `ArraysFlat`; `C04_literal_is_C02` assumes that a present `nullable`
is `true` and that `const` occurs once. The driver command `ck` evaluates these tests on every compiled schema the hook
prints and flags the reply when one fails, so the tie also shows that the hypotheses hold on what the library produces.
-/
namespace CK

def sortedB (l : List Nat) : Bool := decide (l.Pairwise (· < ·))

/-- every node of the tree comes from the text of one file (false when `allOf` copied the children of another type into an
object: those keep the lexemes of the file they were written in) -/
def oneFile (r : Node) : Bool := (preorder r).all fun h => h.info.lex.file == r.info.lex.file

def litEndB (r : Node) : Bool := (preorder r).all fun h => h.info.nk != .lit || h.info.lex.ty == .litEnd

def arraysFlatB (env : Env) : Bool :=
  env.types.all fun e => e.2.info.nk != .arr ||
    (match typesList? e.2.info.cs with
     | none => true
     | some names => names.all fun m => match env.lookup m with | some u => u.info.nk != .arr | none => true)

def nullableTrueB (cs : List Cn) : Bool := cs.all fun c => match c with | .nullable b => b | _ => true

def constCount (cs : List Cn) : Nat := (cs.filter fun c => c.ty == 25).length

def Schema.roots (s : Schema) : List Node := s.root.toList ++ s.types.map (·.root)

/-- the names of the tests that fail on a schema -/
def hypFlags (s : Schema) : List String :=
  (if s.roots.all litEndB then [] else ["NOTLITEND"]) ++
  (if s.roots.all (fun r => !oneFile r || sortedB ((preorder r).map fun h => h.info.lex.begin)) then [] else ["UNSORTED"]) ++
  (if arraysFlatB s.env then [] else ["NOTFLAT"]) ++
  (if s.roots.all (fun r => (preorder r).all fun h => nullableTrueB h.info.cs && decide (constCount h.info.cs ≤ 1)) then []
   else ["NULLABLE-OR-CONST"])

end CK
