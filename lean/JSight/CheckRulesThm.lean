import JSight.CheckRulesLoad
/-!
C08, the main theorems: `checkRules` (the model of what `Check` does with the rules of one annotated node)
accepts exactly the rule lists the specification `specOK` accepts.
-/
namespace CR

def NKind.isShortcut : NKind → Bool
  | .typeRef _ => true
  | .orShortcut _ => true
  | _ => false

theorem ctx_wf (k : NKind) (p : Bool) : (k.ctx p).wf = true := by cases k <;> rfl

theorem ctx_cls_base {k : NKind} (p : Bool) (h : k.isShortcut = false) : (k.ctx p).cls ≠ .mixedValue := by
  cases k <;> simp [NKind.isShortcut] at h <;> simp [NKind.ctx]

theorem initMap_base {k : NKind} (h : k.isShortcut = false) : initMap k = CMap.empty := by
  cases k <;> simp [NKind.isShortcut] at h <;> rfl

theorem foldO_none_of {rd : Rule → Option (List (CT × CV))} {nk : Bytes → List CT} (hK : KeyFn rd nk) (m0 : CMap) (rs : List Rule)
    (h : ¬ ((∀ r ∈ rs, (rd r).isSome = true) ∧ (namesOf rs).Nodup ∧ (∀ r ∈ rs, ∀ k ∈ nk r.1, m0.has k = false))) :
    foldO rd m0 rs = none := by
  cases hf : foldO rd m0 rs with
  | none => rfl
  | some m =>
    have := (foldO_some hK m0 rs m).1 hf
    exact absurd ⟨this.1, this.2.1, this.2.2.1⟩ h

theorem known_of_values (n : Node) (h : ValuesOK n = true) : Known n = true := by
  unfold ValuesOK at h; unfold Known
  rw [List.all_eq_true] at h ⊢
  intro e he
  obtain ⟨bs, hbs⟩ := Option.isSome_iff_exists.1 (h e he)
  cases readRule_shape hbs with
  | or h0 _ _ => simp [h0]
  | enum h0 _ _ => simp [h0]
  | allOf h0 _ _ => simp [h0]
  | lit r h0 _ _ _ _ _ _ _ _ => simp [h0]

/-- C08 on a node that has a JSON kind (scalar, object, array) -/
theorem check_iff_base (n : Node) (hk : n.kind.isShortcut = false) : isOk (checkRules n) = specOK n := by
  have hcls := ctx_cls_base n.isProp hk
  have hwf : n.ctx.wf = true := ctx_wf _ _
  unfold checkRules
  simp only [isOk_eq, toOpt_bind]
  have hstep : ∀ m r, toOpt (loadRule n.env n.ctx m r) = stepO (readRule n.env n.ctx) m r :=
    fun m r => toOpt_loadRule_step _ _ m r (fun _ => Or.inl hcls) (fun _ => Or.inr (Or.inl hcls))
  have henv : ({ okRegex := n.okRegex, enumRules := n.enumRules } : Env) = n.env := rfl
  rw [henv, toOpt_foldlM _ _ hstep, foldO_eq, initMap_base hk]
  have hSN : ShortcutNotRepeated n = true := by
    unfold ShortcutNotRepeated; cases hkind : n.kind <;> simp [hkind, NKind.isShortcut] at hk ⊢
  have hRS : ruleSetW n = readSet (readRule n.env n.ctx) n.rules := by
    have : ruleSetW n = ruleSet n := by
      unfold ruleSetW; cases hkind : n.kind <;> simp [hkind, NKind.isShortcut] at hk ⊢
    rw [this]
    funext k
    unfold ruleSet shortcutSet
    rw [initMap_base hk]
    cases readSet (readRule n.env n.ctx) n.rules k <;> rfl
  by_cases hall : ∀ r ∈ n.rules, (readRule n.env n.ctx r).isSome = true
  · by_cases hnd : (namesOf n.rules).Nodup
    · have hf := (foldO_some (keyFn_top n.env n.ctx) CMap.empty n.rules _).2 ⟨hall, hnd, fun _ _ _ _ => rfl, rfl⟩
      rw [hf, overlay_empty]
      simp only [Option.bind_some]
      have hV : ValuesOK n = true := List.all_eq_true.2 hall
      have hO : Once n = true := by simp [Once, hnd]
      have := compile_iff n.ctx _ hwf (shape_top n.env n.ctx n.rules hall)
      simp only [isOk_eq, toOpt_bind] at this
      rw [this]
      unfold specOK
      rw [known_of_values n hV, hO, hV, hSN, hRS]
      simp
    · rw [foldO_none_of (keyFn_top n.env n.ctx) _ _ (fun h => hnd h.2.1)]
      have hO : Once n = false := by simp [Once, hnd]
      simp [specOK, hO]
  · rw [foldO_none_of (keyFn_top n.env n.ctx) _ _ (fun h => hall h.1)]
    have hV : ValuesOK n = false := by
      cases h : ValuesOK n with
      | false => rfl
      | true => exact absurd (List.all_eq_true.1 h) hall
    simp [specOK, hV]

theorem foldlM_inv {I : CMap → List Rule → Prop} {f g : CMap → Rule → Option CMap}
    (hstep : ∀ m r rest, I m (r :: rest) → f m r = g m r)
    (hpres : ∀ m r rest m', I m (r :: rest) → g m r = some m' → I m' rest) :
    ∀ (m : CMap) (rs : List Rule), I m rs → rs.foldlM f m = rs.foldlM g m := by
  intro m rs
  induction rs generalizing m with
  | nil => intro _; rfl
  | cons r rest ih =>
    intro hI
    simp only [List.foldlM_cons]
    rw [hstep m r rest hI]
    cases hg : g m r with
    | none => rfl
    | some m' => simp only [Option.bind_eq_bind, Option.bind_some]; exact ih m' (hpres m r rest m' hI hg)

def typeCount (rs : List Rule) : Nat := (rs.filter fun e => RName.ofBytes e.1 = some .type).length

theorem typeCount_cons (r : Rule) (rs : List Rule) :
    typeCount (r :: rs) = (if RName.ofBytes r.1 = some .type then 1 else 0) + typeCount rs := by
  unfold typeCount
  by_cases h : RName.ofBytes r.1 = some .type
  · simp [List.filter_cons, h]; omega
  · simp [List.filter_cons, h]

/-- a rule that is no `type` rule does not bind the key `type` -/
theorem nkTop_type {name : Bytes} (h : RName.ofBytes name ≠ some .type) : CT.type ∉ nkTop name := by
  unfold nkTop
  cases hr : RName.ofBytes name with
  | none => simp
  | some r =>
    cases r <;> simp [RName.ct]
    exact h hr

theorem stepO_type_none {env : Env} {c : Ctx} {m m' : CMap} {r : Rule} (h : stepO (readRule env c) m r = some m')
    (hr : RName.ofBytes r.1 ≠ some .type) : m' .type = m .type := by
  unfold stepO at h
  cases hb : readRule env c r with
  | none => rw [hb] at h; cases h
  | some bs =>
    rw [hb] at h; simp only [Option.bind_some] at h
    split at h
    · cases h
      apply setAll_apply_not_mem
      rw [(keyFn_top env c).keys r bs hb]
      exact nkTop_type hr
    · cases h

theorem stepO_has_mono {rd : Rule → Option (List (CT × CV))} {nk : Bytes → List CT} (hK : KeyFn rd nk) {m m' : CMap} {r : Rule}
    (h : stepO rd m r = some m') {k : CT} (hk : m.has k = true) : m'.has k = true := by
  unfold stepO at h
  cases hb : rd r with
  | none => rw [hb] at h; cases h
  | some bs =>
    rw [hb] at h; simp only [Option.bind_some] at h
    split at h
    · cases h
      have hnd : (keysOf bs).Nodup := by rw [hK.keys r bs hb]; exact hK.nodup _
      rw [setAll_has m bs hnd, hk]; simp
    · cases h

/-- the annotation binds `or` / TypesList exactly when it has an `or` rule -/
theorem top_has_or_iff (env : Env) (c : Ctx) (rs : List Rule) (hall : ∀ r ∈ rs, (readRule env c r).isSome = true)
    (k : CT) (hk : k = .typesList ∨ k = .or) :
    (readSet (readRule env c) rs).has k = true ↔ ∃ e ∈ rs, RName.ofBytes e.1 = some .or := by
  constructor
  · intro h
    obtain ⟨v, hv⟩ := (has_iff _ _).1 h
    obtain ⟨e, he, bs, hs, hm⟩ := top_binding hv
    refine ⟨e, he, ?_⟩
    cases hs with
    | or h0 _ _ => exact h0
    | enum _ _ hb => subst hb; simp at hm; rcases hk with rfl | rfl <;> simp at hm
    | allOf _ _ hb => subst hb; simp at hm; rcases hk with rfl | rfl <;> simp at hm
    | lit r h0 h1 _ _ _ _ _ _ hb =>
      subst hb; simp at hm
      rcases hk with rfl | rfl
      · exact absurd hm.1.symm (ct_ne_typesList r)
      · have : r = .or := by cases r <;> simp [RName.ct] at hm <;> rfl
        exact absurd this h1
  · rintro ⟨e, he, h0⟩
    apply readSet_has (keyFn_top env c) hall he
    simp only [nkTop, h0]
    rcases hk with rfl | rfl <;> simp

theorem hasRule_iff (n : Node) (r : RName) : hasRule n r = true ↔ ∃ e ∈ n.rules, RName.ofBytes e.1 = some r := by
  unfold hasRule; simp [List.any_eq_true]

theorem ruleSet_eq (n : Node) : ruleSet n = overlay (readSet (readRule n.env n.ctx) n.rules) (initMap n.kind) := rfl

/-- a rule that is no `or` rule binds neither `or` nor the TypesList -/
theorem nkTop_or {name : Bytes} (h : RName.ofBytes name ≠ some .or) : CT.or ∉ nkTop name ∧ CT.typesList ∉ nkTop name := by
  unfold nkTop
  cases hr : RName.ofBytes name with
  | none => simp
  | some r =>
    cases r <;> simp [RName.ct]
    exact h hr

theorem nkTop_sub (name : Bytes) (k : CT) (h : k ∈ nkTop name) : k = .typesList ∨ ∃ r, RName.ofBytes name = some r ∧ k = r.ct := by
  unfold nkTop at h
  cases hr : RName.ofBytes name with
  | none => rw [hr] at h; simp at h
  | some r =>
    rw [hr] at h
    cases r <;> simp at h <;> first
      | (right; exact ⟨_, rfl, h⟩)
      | (rcases h with h | h; exact Or.inl h; right; exact ⟨_, rfl, h⟩)

/-- C08 on an or-shortcut node (`@a | @b`) whose annotation has at most one `type` rule -/
theorem check_iff_orShortcut (n : Node) (us : List Bool) (hk : n.kind = .orShortcut us) (hwf : 2 ≤ us.length)
    (hcnt : typeCount n.rules ≤ 1) : isOk (checkRules n) = specOK n := by
  have hcls : n.ctx.cls = .mixedValue := by simp [Node.ctx, hk, NKind.ctx]
  have hcwf : n.ctx.wf = true := ctx_wf _ _
  have hm0 : initMap n.kind = (CMap.empty.set .typesList (.types us)).set .or (.or true) := by rw [hk]; rfl
  unfold checkRules
  simp only [isOk_eq, toOpt_bind]
  have henv : ({ okRegex := n.okRegex, enumRules := n.enumRules } : Env) = n.env := rfl
  rw [henv]
  -- the fold: `AddConstraint` is the plain insertion as long as there is no type constraint yet
  let I : CMap → List Rule → Prop := fun m rs =>
    m.has .typesList = true ∧ (typeCount rs = 0 ∨ (m .type = none ∧ typeCount rs ≤ 1))
  have hfold : toOpt (n.rules.foldlM (loadRule n.env n.ctx) (initMap n.kind))
      = foldO (readRule n.env n.ctx) (initMap n.kind) n.rules := by
    rw [toOpt_foldlM (loadRule n.env n.ctx) (fun m r => toOpt (loadRule n.env n.ctx m r)) (fun _ _ => rfl), ← foldO_eq]
    apply foldlM_inv (I := I)
    · intro m r rest hI
      apply toOpt_loadRule_step
      · intro ht
        right
        rcases hI.2 with h | h
        · rw [typeCount_cons, if_pos ht] at h; omega
        · exact h.1
      · intro _; exact Or.inl hI.1
    · intro m r rest m' hI hg
      refine ⟨stepO_has_mono (keyFn_top _ _) hg hI.1, ?_⟩
      by_cases ht : RName.ofBytes r.1 = some .type
      · left
        rcases hI.2 with h | h
        · rw [typeCount_cons, if_pos ht] at h; omega
        · have := h.2; rw [typeCount_cons, if_pos ht] at this; omega
      · rcases hI.2 with h | h
        · left; rw [typeCount_cons, if_neg ht] at h; omega
        · right
          refine ⟨?_, ?_⟩
          · rw [stepO_type_none hg ht]; exact h.1
          · have := h.2; rw [typeCount_cons, if_neg ht] at this; omega
    · refine ⟨?_, Or.inr ⟨?_, hcnt⟩⟩
      · rw [hm0]; simp [CMap.has, CMap.set]
      · rw [hm0]; simp [CMap.set, CMap.empty]
  rw [hfold]
  have hRS : ruleSetW n = overlay (readSet (readRule n.env n.ctx) n.rules) (initMap n.kind) := by
    unfold ruleSetW; rw [hk]; simp only; rw [ruleSet_eq, hk]
  have hSN : ShortcutNotRepeated n = !hasRule n .or := by unfold ShortcutNotRepeated; rw [hk]
  by_cases hall : ∀ r ∈ n.rules, (readRule n.env n.ctx r).isSome = true
  · by_cases hnd : (namesOf n.rules).Nodup
    · by_cases hno : hasRule n .or = true
      · -- an `or` rule: its TypesList is already there
        obtain ⟨e, he, h0⟩ := (hasRule_iff n .or).1 hno
        rw [foldO_none_of (keyFn_top n.env n.ctx) _ _ (fun h => by
          have := h.2.2 e he .typesList (by simp [nkTop, h0])
          rw [hm0] at this; simp [CMap.has, CMap.set] at this)]
        simp [specOK, hSN, hno]
      · simp only [Bool.not_eq_true] at hno
        have hfresh : ∀ r ∈ n.rules, ∀ k ∈ nkTop r.1, (initMap n.kind).has k = false := by
          intro r hr k hkk
          have hne : RName.ofBytes r.1 ≠ some .or := by
            intro h0
            have := (hasRule_iff n .or).2 ⟨r, hr, h0⟩
            rw [hno] at this; cases this
          have := nkTop_or hne
          rw [hm0]
          have h1 : k ≠ .or := fun e => this.1 (e ▸ hkk)
          have h2 : k ≠ .typesList := fun e => this.2 (e ▸ hkk)
          simp [CMap.has, CMap.set, CMap.empty, h1, h2]
        have hf := (foldO_some (keyFn_top n.env n.ctx) (initMap n.kind) n.rules _).2 ⟨hall, hnd, hfresh, rfl⟩
        rw [hf]
        simp only [Option.bind_some]
        have hV : ValuesOK n = true := List.all_eq_true.2 hall
        have hO : Once n = true := by simp [Once, hnd]
        -- the shape of the rule set
        have hR := shape_top n.env n.ctx n.rules hall
        have hRor : ∀ k, (k = .typesList ∨ k = .or) → readSet (readRule n.env n.ctx) n.rules k = none := by
          intro k hk'
          apply (has_false_iff _ _).1
          cases hh : (readSet (readRule n.env n.ctx) n.rules).has k with
          | false => rfl
          | true =>
            obtain ⟨e, he, h0⟩ := (top_has_or_iff n.env n.ctx n.rules hall k hk').1 hh
            have := (hasRule_iff n .or).2 ⟨e, he, h0⟩
            rw [hno] at this; cases this
        have hov : ∀ k, k ≠ .typesList → k ≠ .or →
            overlay (readSet (readRule n.env n.ctx) n.rules) (initMap n.kind) k = readSet (readRule n.env n.ctx) n.rules k := by
          intro k h1 h2
          simp only [overlay, hm0, CMap.set, CMap.empty, h1, h2, if_false]
          cases readSet (readRule n.env n.ctx) n.rules k <;> rfl
        have hovT : overlay (readSet (readRule n.env n.ctx) n.rules) (initMap n.kind) .typesList = some (.types us) := by
          simp [overlay, hRor .typesList (Or.inl rfl), hm0, CMap.set]
        have hovO : overlay (readSet (readRule n.env n.ctx) n.rules) (initMap n.kind) .or = some (.or true) := by
          simp [overlay, hRor .or (Or.inr rfl), hm0, CMap.set]
        have hShape : Shape (overlay (readSet (readRule n.env n.ctx) n.rules) (initMap n.kind)) := {
          any := by rw [hov _ (by decide) (by decide)]; exact hR.any
          email := by rw [hov _ (by decide) (by decide)]; exact hR.email
          uri := by rw [hov _ (by decide) (by decide)]; exact hR.uri
          uuid := by rw [hov _ (by decide) (by decide)]; exact hR.uuid
          date := by rw [hov _ (by decide) (by decide)]; exact hR.date
          datetime := by rw [hov _ (by decide) (by decide)]; exact hR.datetime
          orT := by simp [CMap.has, hovT, hovO]
          orLen := by intro _; simp [typesLen, typesUsers, hovT, hwf]
          allOfV := by rw [hov _ (by decide) (by decide)]; exact hR.allOfV
          typeV := by rw [hov _ (by decide) (by decide)]; exact hR.typeV
          minV := by rw [hov _ (by decide) (by decide)]; exact hR.minV
          maxV := by rw [hov _ (by decide) (by decide)]; exact hR.maxV
        }
        have := compile_iff n.ctx _ hcwf hShape
        simp only [isOk_eq, toOpt_bind] at this
        rw [this]
        unfold specOK
        rw [known_of_values n hV, hO, hV, hSN, hno, hRS]
        simp
    · rw [foldO_none_of (keyFn_top n.env n.ctx) _ _ (fun h => hnd h.2.1)]
      have hO : Once n = false := by simp [Once, hnd]
      simp [specOK, hO]
  · rw [foldO_none_of (keyFn_top n.env n.ctx) _ _ (fun h => hall h.1)]
    have hV : ValuesOK n = false := by
      cases h : ValuesOK n with
      | false => rfl
      | true => exact absurd (List.all_eq_true.1 h) hall
    simp [specOK, hV]


def hasOrRule (rs : List Rule) : Bool := rs.any fun e => RName.ofBytes e.1 = some .or

theorem setAll_set_comm (m : CMap) (bs : List (CT × CV)) (k : CT) (v : CV) (hk : k ∉ keysOf bs) :
    setAll (m.set k v) bs = (setAll m bs).set k v := by
  induction bs generalizing m with
  | nil => rfl
  | cons b bs ih =>
    simp only [keysOf, List.map_cons, List.mem_cons, not_or] at hk
    simp only [setAll, List.foldl_cons]
    have : (m.set k v).set b.1 b.2 = (m.set b.1 b.2).set k v := by
      funext k'
      simp only [CMap.set]
      by_cases h1 : k' = b.1 <;> by_cases h2 : k' = k <;> simp [h1, h2]
      all_goals (intro e; first | exact absurd e hk.1 | exact absurd e.symm hk.1)
    rw [this]
    exact ih (m.set b.1 b.2) (by simpa [keysOf] using hk.2)

theorem fresh_set (m : CMap) (bs : List (CT × CV)) (k : CT) (v : CV) (hk : k ∉ keysOf bs) :
    fresh (m.set k v) bs = fresh m bs := by
  unfold fresh
  rw [Bool.eq_iff_iff, List.all_eq_true, List.all_eq_true]
  constructor
  · intro h b hb
    have hne : b.1 ≠ k := fun e => hk (by simp only [keysOf, List.mem_map]; exact ⟨b, hb, e⟩)
    have := h b hb; rwa [has_set_other _ _ hne] at this
  · intro h b hb
    have hne : b.1 ≠ k := fun e => hk (by simp only [keysOf, List.mem_map]; exact ⟨b, hb, e⟩)
    rw [has_set_other _ _ hne]; exact h b hb

/-- on a `@t` node: a rule other than `type` / `or` -/
theorem stepO_set_type {env : Env} {c : Ctx} (m : CMap) (tv : CV) (r : Rule) (hr : RName.ofBytes r.1 ≠ some .type) :
    stepO (readRule env c) (m.set .type tv) r = (stepO (readRule env c) m r).map (·.set .type tv) := by
  unfold stepO
  cases hb : readRule env c r with
  | none => rfl
  | some bs =>
    simp only [Option.bind_some]
    have hk : CT.type ∉ keysOf bs := by rw [(keyFn_top env c).keys r bs hb]; exact nkTop_type hr
    rw [fresh_set _ _ _ _ hk, setAll_set_comm _ _ _ _ hk]
    cases fresh m bs <;> rfl

theorem unq_mixed : Unquote.unquote q_mixed = t_mixed := by decide

/-- on a `@t` node: the `or` rule widens the reference — the type constraint becomes "mixed" -/
theorem loadRule_or_typeRef {env : Env} {c : Ctx} (hc : c.cls = .mixedValue) (m : CMap) (hm : m .type = none)
    (tok : Bytes) (r : Rule) (hr : RName.ofBytes r.1 = some .or) :
    toOpt (loadRule env c (m.set .type (.type tok true)) r)
      = (stepO (readRule env c) m r).map (·.set .type (.type q_mixed true)) := by
  have hn : r.1 = n_or := (ofBytes_or _).1 hr
  unfold loadRule stepO readRule
  rw [if_pos hn, hr]
  have e1 : ∀ v, addC c (m.set .type (.type tok true)) .typesList v = addBase (m.set .type (.type tok true)) .typesList v :=
    fun v => addC_plain c _ _ v (Or.inr (Or.inr ⟨by decide, by decide⟩))
  have e2 : ∀ a v, toOpt (addC c ((m.set .type (.type tok true)).set .typesList a) .or v)
      = if m.has .or then none else some ((((m.set .type (.type tok true)).set .typesList a).set .type (.type q_mixed true)).set .or v) := by
    intro a v
    unfold addC
    rw [if_pos hc]
    have : ((m.set .type (.type tok true)).set .typesList a) .type = some (.type tok true) := by simp [CMap.set]
    simp only [this, addTypeMV, unq_mixed, ne_eq, not_true_eq_false, and_false, if_false, toOpt_bind, toOpt_ok,
      Option.bind_some, toOpt_addBase]
    have : ((((m.set .type (.type tok true)).set .typesList a).set .type (.type q_mixed true))).has .or = m.has .or := by
      simp [CMap.has, CMap.set]
    rw [this]
  simp only [e1, toOpt_bind, toOpt_addBase, toOpt_loadOrValue]
  have h1 : (m.set .type (.type tok true)).has .typesList = m.has .typesList := has_set_other _ _ (by decide)
  rw [h1]
  by_cases ht : m.has .typesList = true
  · by_cases h3 : orValueOK env c r.2 = true <;> simp [ht, h3, fresh]
  · simp only [Bool.not_eq_true] at ht
    simp only [ht, Bool.false_eq_true, if_false, Option.bind_some, e2]
    by_cases ho : m.has .or = true
    · by_cases h3 : orValueOK env c r.2 = true <;> simp [ht, ho, h3, fresh]
    · simp only [Bool.not_eq_true] at ho
      by_cases h3 : orValueOK env c r.2 = true
      · simp only [ho, h3, Bool.false_eq_true, if_false, if_true, Option.bind_some, toOpt_ok, fresh, List.all_cons, ht,
          Bool.not_false, List.all_nil, Bool.and_self, Option.map_some]
        congr 1
        funext k
        simp only [setAll, List.foldl_cons, List.foldl_nil, CMap.set]
        by_cases k1 : k = .typesList <;> by_cases k2 : k = .or <;> by_cases k3 : k = .type <;> simp_all
      · simp [ho, h3]

theorem fold_typeRef {env : Env} {c : Ctx} (hc : c.cls = .mixedValue) :
    ∀ (rs : List Rule) (m : CMap) (tok : Bytes), (∀ r ∈ rs, RName.ofBytes r.1 ≠ some .type) → m .type = none →
      toOpt (rs.foldlM (loadRule env c) (m.set .type (.type tok true)))
        = (foldO (readRule env c) m rs).map fun m' => m'.set .type (.type (if hasOrRule rs then q_mixed else tok) true) := by
  intro rs
  induction rs with
  | nil => intro m tok _ _; simp [foldO, hasOrRule]; rfl
  | cons r rest ih =>
    intro m tok hnt hm
    have hr : RName.ofBytes r.1 ≠ some .type := hnt r (List.mem_cons_self ..)
    have hrest : ∀ r' ∈ rest, RName.ofBytes r'.1 ≠ some .type := fun r' h => hnt r' (List.mem_cons_of_mem _ h)
    simp only [List.foldlM_cons, toOpt_bind, foldO]
    by_cases hor : RName.ofBytes r.1 = some .or
    · rw [loadRule_or_typeRef hc m hm tok r hor]
      cases hs : stepO (readRule env c) m r with
      | none => simp
      | some m1 =>
        simp only [Option.map_some, Option.bind_some]
        have hm1 : m1 .type = none := by rw [stepO_type_none hs hr]; exact hm
        rw [ih m1 q_mixed hrest hm1]
        have : hasOrRule (r :: rest) = true := by simp [hasOrRule, hor]
        rw [this]
        simp
    · have e := toOpt_loadRule_step env c (m.set .type (.type tok true)) r (fun h => absurd h hr) (fun h => absurd h hor)
      rw [e, stepO_set_type m _ r hr]
      cases hs : stepO (readRule env c) m r with
      | none => simp
      | some m1 =>
        simp only [Option.map_some, Option.bind_some]
        have hm1 : m1 .type = none := by rw [stepO_type_none hs hr]; exact hm
        rw [ih m1 tok hrest hm1]
        have : hasOrRule (r :: rest) = hasOrRule rest := by simp [hasOrRule, hor]
        rw [this]

theorem shape_set_type {R : CMap} (hR : Shape R) (tok : Bytes) (gen : Bool) : Shape (R.set .type (.type tok gen)) where
  any := by rw [set_other _ _ (by decide)]; exact hR.any
  email := by rw [set_other _ _ (by decide)]; exact hR.email
  uri := by rw [set_other _ _ (by decide)]; exact hR.uri
  uuid := by rw [set_other _ _ (by decide)]; exact hR.uuid
  date := by rw [set_other _ _ (by decide)]; exact hR.date
  datetime := by rw [set_other _ _ (by decide)]; exact hR.datetime
  orT := by rw [has_set_other _ _ (by decide), has_set_other _ _ (by decide)]; exact hR.orT
  orLen := by
    intro h
    rw [has_set_other _ _ (by decide)] at h
    have := hR.orLen h
    unfold typesLen typesUsers at this ⊢
    rw [set_other _ _ (by decide)]; exact this
  allOfV := by rw [set_other _ _ (by decide)]; exact hR.allOfV
  typeV := by intro v hv; rw [set_same] at hv; exact ⟨tok, gen, (Option.some.inj hv).symm⟩
  minV := by rw [set_other _ _ (by decide)]; exact hR.minV
  maxV := by rw [set_other _ _ (by decide)]; exact hR.maxV

/-- C08 on a type-shortcut node (`@t`) whose annotation has no `type` rule -/
theorem check_iff_typeRef (n : Node) (name : Bytes) (hk : n.kind = .typeRef name) (hnt : hasRule n .type = false) :
    isOk (checkRules n) = specOK n := by
  have hcls : n.ctx.cls = .mixedValue := by simp [Node.ctx, hk, NKind.ctx]
  have hcwf : n.ctx.wf = true := ctx_wf _ _
  have hm0 : initMap n.kind = CMap.empty.set .type (.type name true) := by rw [hk]; rfl
  have hnt' : ∀ r ∈ n.rules, RName.ofBytes r.1 ≠ some .type := by
    intro r hr h0
    have := (hasRule_iff n .type).2 ⟨r, hr, h0⟩
    rw [hnt] at this; cases this
  unfold checkRules
  simp only [isOk_eq, toOpt_bind]
  have henv : ({ okRegex := n.okRegex, enumRules := n.enumRules } : Env) = n.env := rfl
  rw [henv, hm0, fold_typeRef hcls n.rules CMap.empty name hnt' rfl]
  have hSN : ShortcutNotRepeated n = true := by unfold ShortcutNotRepeated; rw [hk]; simp [hnt]
  have hOrEq : hasRule n .or = hasOrRule n.rules := rfl
  by_cases hall : ∀ r ∈ n.rules, (readRule n.env n.ctx r).isSome = true
  · by_cases hnd : (namesOf n.rules).Nodup
    · have hf := (foldO_some (keyFn_top n.env n.ctx) CMap.empty n.rules _).2 ⟨hall, hnd, fun _ _ _ _ => rfl, rfl⟩
      rw [hf, overlay_empty]
      simp only [Option.map_some, Option.bind_some]
      have hV : ValuesOK n = true := List.all_eq_true.2 hall
      have hO : Once n = true := by simp [Once, hnd]
      have hR := shape_top n.env n.ctx n.rules hall
      have hRt : readSet (readRule n.env n.ctx) n.rules .type = none := by
        apply none_of_not_some
        intro v hv
        obtain ⟨e, he, hkk⟩ := readSet_some_key (keyFn_top n.env n.ctx) hv
        exact nkTop_type (hnt' e he) hkk
      have hRS : ruleSetW n = (readSet (readRule n.env n.ctx) n.rules).set .type
          (.type (if hasOrRule n.rules then q_mixed else name) true) := by
        have hrs : ruleSet n = (readSet (readRule n.env n.ctx) n.rules).set .type (.type name true) := by
          rw [ruleSet_eq, hm0]
          funext k
          simp only [overlay, CMap.set, CMap.empty]
          by_cases hk' : k = .type
          · subst hk'; simp [hRt]
          · simp only [hk', if_false]; cases readSet (readRule n.env n.ctx) n.rules k <;> rfl
        unfold ruleSetW; rw [hk]; simp only
        rw [hOrEq, hrs]
        cases hasOrRule n.rules
        · simp
        · simp [set_set]
      have := compile_iff n.ctx _ hcwf (shape_set_type hR (if hasOrRule n.rules then q_mixed else name) true)
      simp only [isOk_eq, toOpt_bind] at this
      rw [this]
      unfold specOK
      rw [known_of_values n hV, hO, hV, hSN, hRS]
      simp
    · rw [foldO_none_of (keyFn_top n.env n.ctx) _ _ (fun h => hnd h.2.1)]
      have hO : Once n = false := by simp [Once, hnd]
      simp [specOK, hO]
  · rw [foldO_none_of (keyFn_top n.env n.ctx) _ _ (fun h => hall h.1)]
    have hV : ValuesOK n = false := by
      cases h : ValuesOK n with
      | false => rfl
      | true => exact absurd (List.all_eq_true.1 h) hall
    simp [specOK, hV]


theorem refTypeClass_orShortcut (n : Node) (us : List Bool) (hk : n.kind = .orShortcut us) :
    refTypeClass n = decide (2 ≤ typeCount n.rules) := by
  unfold refTypeClass typeCount; rw [hk]

/-- C08_check_iff outside the class around K-C08-ref-type-or -/
theorem check_iff_partial (n : Node) (hwf : n.kind.wf = true) (hK : refTypeClass n = false) :
    isOk (checkRules n) = specOK n := by
  cases hk : n.kind with
  | typeRef name =>
    apply check_iff_typeRef n name hk
    unfold refTypeClass at hK; rw [hk] at hK; exact hK
  | orShortcut us =>
    apply check_iff_orShortcut n us hk
    · rw [hk] at hwf; simpa [NKind.wf] using hwf
    · rw [refTypeClass_orShortcut n us hk] at hK
      simp only [decide_eq_false_iff_not] at hK; omega
  | integer => exact check_iff_base n (by rw [hk]; rfl)
  | float => exact check_iff_base n (by rw [hk]; rfl)
  | string => exact check_iff_base n (by rw [hk]; rfl)
  | boolean => exact check_iff_base n (by rw [hk]; rfl)
  | null => exact check_iff_base n (by rw [hk]; rfl)
  | object _ => exact check_iff_base n (by rw [hk]; rfl)
  | array _ => exact check_iff_base n (by rw [hk]; rfl)

/-! ### order independence -/

theorem lookup_of_mem_nodup (bs : List (CT × CV)) (hn : (keysOf bs).Nodup) (k : CT) (v : CV) (h : (k, v) ∈ bs) :
    bs.lookup k = some v := by
  induction bs with
  | nil => cases h
  | cons b bs ih =>
    obtain ⟨k', v'⟩ := b
    simp only [keysOf, List.map_cons, List.nodup_cons] at hn
    simp only [List.lookup]
    rcases List.mem_cons.1 h with e | e
    · cases e; simp
    · have hne : k ≠ k' := by
        intro e'; apply hn.1; subst e'
        simp only [List.mem_map]; exact ⟨(k, v), e, rfl⟩
      have : (k == k') = false := by simp [hne]
      rw [this]; exact ih (by simpa [keysOf] using hn.2) e

theorem readSet_eq_some_iff {rd : Rule → Option (List (CT × CV))} {nk : Bytes → List CT} (hK : KeyFn rd nk)
    {rs : List Rule} (hall : ∀ r ∈ rs, (rd r).isSome = true) (hnd : (namesOf rs).Nodup) (k : CT) (v : CV) :
    readSet rd rs k = some v ↔ ∃ r ∈ rs, ∃ bs, rd r = some bs ∧ (k, v) ∈ bs := by
  constructor
  · exact readSet_some_binding
  · induction rs with
    | nil => rintro ⟨r, hr, _⟩; cases hr
    | cons r0 rest ih =>
      rintro ⟨r, hr, bs, hbs, hm⟩
      simp only [namesOf, List.map_cons, List.nodup_cons] at hnd
      obtain ⟨bs0, hbs0⟩ := Option.isSome_iff_exists.1 (hall r0 (List.mem_cons_self ..))
      have hnd0 : (keysOf bs0).Nodup := by rw [hK.keys r0 bs0 hbs0]; exact hK.nodup _
      rw [readSet_cons, hbs0]
      simp only [Option.bind_some]
      rcases List.mem_cons.1 hr with e | e
      · subst e
        have e' : bs0 = bs := Option.some.inj (hbs0.symm.trans hbs)
        subst e'
        rw [lookup_of_mem_nodup bs0 hnd0 k v hm]
      · have hkr : k ∈ nk r.1 := by
          rw [← hK.keys r bs hbs]; simp only [keysOf, List.mem_map]; exact ⟨(k, v), hm, rfl⟩
        have hne : r.1 ≠ r0.1 := by
          intro e'; apply hnd.1; simp only [List.mem_map]; exact ⟨r, e, e'⟩
        have : k ∉ nk r0.1 := hK.disj r.1 r0.1 hne k hkr
        have hl : bs0.lookup k = none := by
          cases hl : bs0.lookup k with
          | none => rfl
          | some v' =>
            exfalso; apply this
            rw [← hK.keys r0 bs0 hbs0]; simp only [keysOf, List.mem_map]
            exact ⟨(k, v'), lookup_some_mem bs0 k v' hl, rfl⟩
        rw [hl]
        exact ih (fun r' hr' => hall r' (List.mem_cons_of_mem _ hr')) hnd.2 ⟨r, e, bs, hbs, hm⟩

theorem readSet_perm {rd : Rule → Option (List (CT × CV))} {nk : Bytes → List CT} (hK : KeyFn rd nk)
    {rs rs' : List Rule} (hp : rs.Perm rs') (hall : ∀ r ∈ rs, (rd r).isSome = true) (hnd : (namesOf rs).Nodup) :
    readSet rd rs = readSet rd rs' := by
  have hall' : ∀ r ∈ rs', (rd r).isSome = true := fun r hr => hall r (hp.mem_iff.2 hr)
  have hnd' : (namesOf rs').Nodup := (hp.map _).nodup_iff.1 hnd
  funext k
  apply Option.ext
  intro v
  rw [readSet_eq_some_iff hK hall hnd, readSet_eq_some_iff hK hall' hnd']
  constructor
  · rintro ⟨r, hr, h⟩; exact ⟨r, hp.mem_iff.1 hr, h⟩
  · rintro ⟨r, hr, h⟩; exact ⟨r, hp.mem_iff.2 hr, h⟩

theorem all_perm {α : Type} {l l' : List α} (hp : l.Perm l') (p : α → Bool) : l.all p = l'.all p := by
  rw [Bool.eq_iff_iff, List.all_eq_true, List.all_eq_true]
  exact ⟨fun h x hx => h x (hp.mem_iff.2 hx), fun h x hx => h x (hp.mem_iff.1 hx)⟩

theorem any_perm {α : Type} {l l' : List α} (hp : l.Perm l') (p : α → Bool) : l.any p = l'.any p := by
  rw [Bool.eq_iff_iff, List.any_eq_true, List.any_eq_true]
  exact ⟨fun ⟨x, hx, h⟩ => ⟨x, hp.mem_iff.1 hx, h⟩, fun ⟨x, hx, h⟩ => ⟨x, hp.mem_iff.2 hx, h⟩⟩

/-- the specification does not see the order of the rules -/
theorem specOK_perm (n : Node) (rs' : List Rule) (hp : n.rules.Perm rs') :
    specOK n = specOK { n with rules := rs' } := by
  let n' : Node := { n with rules := rs' }
  have hK : Known n = Known n' := all_perm hp _
  have hV : ValuesOK n = ValuesOK n' := all_perm hp _
  have hO : Once n = Once n' := by
    unfold Once
    have : (namesOf n.rules).Nodup ↔ (namesOf rs').Nodup := (hp.map _).nodup_iff
    simp only [this]; rfl
  have hH : ∀ r, hasRule n r = hasRule n' r := fun r => any_perm hp _
  have hSN : ShortcutNotRepeated n = ShortcutNotRepeated n' := by
    unfold ShortcutNotRepeated
    cases hk : n.kind <;> simp only [hk, hH] <;> rfl
  unfold specOK
  show (Known n && Once n && ValuesOK n && ShortcutNotRepeated n && Consistent n.ctx (ruleSetW n)) =
       (Known n' && Once n' && ValuesOK n' && ShortcutNotRepeated n' && Consistent n'.ctx (ruleSetW n'))
  rw [← hK, ← hO, ← hV, ← hSN]
  by_cases hv : ValuesOK n = true
  · by_cases ho : Once n = true
    · have hall : ∀ r ∈ n.rules, (readRule n.env n.ctx r).isSome = true := List.all_eq_true.1 hv
      have hnd : (namesOf n.rules).Nodup := by simpa [Once] using ho
      have hRS : ruleSet n = ruleSet n' := by
        funext k
        show (match readSet (readRule n.env n.ctx) n.rules k with | some v => some v | none => shortcutSet n.kind k)
           = (match readSet (readRule n.env n.ctx) rs' k with | some v => some v | none => shortcutSet n.kind k)
        rw [readSet_perm (keyFn_top n.env n.ctx) hp hall hnd]
      have hW : ruleSetW n = ruleSetW n' := by
        unfold ruleSetW
        show (match n.kind with | .typeRef _ => if hasRule n .or then (ruleSet n).set .type (.type q_mixed true) else ruleSet n | _ => ruleSet n)
           = (match n.kind with | .typeRef _ => if hasRule n' .or then (ruleSet n').set .type (.type q_mixed true) else ruleSet n' | _ => ruleSet n')
        rw [hRS, hH]
      rw [hW]; rfl
    · simp only [Bool.not_eq_true] at ho; simp [ho]
  · simp only [Bool.not_eq_true] at hv; simp [hv]

theorem refTypeClass_perm (n : Node) (rs' : List Rule) (hp : n.rules.Perm rs') :
    refTypeClass n = refTypeClass { n with rules := rs' } := by
  unfold refTypeClass
  cases hk : n.kind with
  | typeRef _ => simp only [hk]; exact any_perm hp _
  | orShortcut _ =>
    simp only [hk]
    rw [(hp.filter _).length_eq]
  | integer => simp [hk]
  | float => simp [hk]
  | string => simp [hk]
  | boolean => simp [hk]
  | null => simp [hk]
  | object _ => simp [hk]
  | array _ => simp [hk]

/-- the VERDICT of the checker does not depend on the order of the rules (outside the class) -/
theorem check_perm (n : Node) (rs' : List Rule) (hp : n.rules.Perm rs') (hwf : n.kind.wf = true) (hK : refTypeClass n = false) :
    isOk (checkRules n) = isOk (checkRules { n with rules := rs' }) := by
  rw [check_iff_partial n hwf hK, check_iff_partial { n with rules := rs' } hwf (by rw [← refTypeClass_perm n rs' hp]; exact hK)]
  exact specOK_perm n rs' hp


end CR
