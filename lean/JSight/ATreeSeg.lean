import JSight.ATreeDefs
import JSight.SchemaLenAnnScalar
/-!
C13 / C16, whole annotated trees: segments. `Seg c ts c' a a'`: from the token-level scanner state `c` the tokens `ts`
(followed by at least one more token) lead to `c'`, and the loader, fed with the events delivered meanwhile, goes from
the abstract state `a` to `a'` — whatever text holds the bytes of `ts` at offset `c.i`. Segments compose; one lemma per
token kind.
-/
namespace AT
open SchemaScan (Cls classify Ev LexT St Ctx CK VCtx PV wsLoop cmtLoop nlSt nlAl keySt keyAl closersOf)
open SchemaScan.Len (ATok Tok TC arun astep aslot slotStep closePV noML isObjKey nlStep mlSlot pendOfK annLoop cxA)
open Loader (XNode xfresh LS Fold)

/-! ### scanner side -/

def pre (e : List Ev) (r : TC × List Ev) : TC × List Ev := (r.1, e ++ r.2)

/-- `ts` leads from `c` to `c'` delivering `evs`, whatever follows -/
def ScansA (c : TC) (ts : List ATok) (evs : List Ev) (c' : TC) : Prop :=
  ∀ rest, arun c (ts ++ rest) = (arun c' rest).map (pre evs)

/-- the same when at least one token follows (the closing lexemes of a value are delivered with the next token) -/
def Scans (c : TC) (ts : List ATok) (evs : List Ev) (c' : TC) : Prop :=
  ∀ rest, rest ≠ [] → arun c (ts ++ rest) = (arun c' rest).map (pre evs)

theorem ScansA.weak {c c' : TC} {ts : List ATok} {evs : List Ev} (h : ScansA c ts evs c') : Scans c ts evs c' :=
  fun rest _ => h rest

theorem map_pre_pre (e1 e2 : List Ev) (o : Option (TC × List Ev)) :
    (o.map (pre e2)).map (pre e1) = o.map (pre (e1 ++ e2)) := by
  cases o <;> simp [pre]

theorem Scans.trans {c c1 c2 : TC} {t1 t2 : List ATok} {e1 e2 : List Ev} (h1 : Scans c t1 e1 c1)
    (h2 : Scans c1 t2 e2 c2) : Scans c (t1 ++ t2) (e1 ++ e2) c2 := by
  intro rest hr
  rw [List.append_assoc, h1 (t2 ++ rest) (by simp [hr]), h2 rest hr, map_pre_pre]

theorem ScansA.one {c c1 : TC} {t : ATok} {e : List Ev} (h : astep c t = some (c1, e)) : ScansA c [t] e c1 := by
  intro rest
  simp only [List.cons_append, List.nil_append, arun, h]
  rfl

theorem ScansA.nil (c : TC) : ScansA c [] [] c := by
  intro rest
  simp only [List.nil_append]
  cases arun c rest <;> simp [pre]

/-- behind a value: the closing lexemes, delivered with whatever token follows -/
theorem Scans.close {c c1 : TC} {e1 : List Ev} (hpv : PV c.st = true) (hg : c.g = false)
    (hc : closePV c = some (c1, e1)) (h1 : PV c1.st = false) : Scans c [] e1 c1 := by
  intro rest hr
  cases rest with
  | nil => exact absurd rfl hr
  | cons t ts =>
    have ha : astep c t = (aslot c1 t).map (fun r => (r.1, e1 ++ r.2)) := by
      unfold astep
      rw [if_pos hpv, hg]
      simp only [Bool.false_eq_true, if_false, hc]
    have hb : astep c1 t = aslot c1 t := by
      unfold astep
      rw [if_neg (by simp [h1])]
    simp only [List.nil_append, arun, ha, hb]
    cases aslot c1 t with
    | none => rfl
    | some r =>
      obtain ⟨c2, e2⟩ := r
      simp only [Option.map_some]
      cases arun c2 ts with
      | none => rfl
      | some r2 => simp [pre]

/-! ### loader side -/

/-- the part of the loader state the node loader reads, on the abstraction -/
structure AS where
  AL : List XNode
  leaf : Option Nat
  last : Option Nat
  pl : Nat
  root : Option Nat

def LSx (src : Array UInt8) (st : Loader.St) (a : AS) : Prop := LS src st a.AL a.leaf a.last a.pl a.root

def Loads (i : Nat) (bs : Bytes) (evs : List Ev) (a a' : AS) : Prop :=
  ∀ (src : Array UInt8) (st : Loader.St), Lay.AtB src i bs → LSx src st a →
    ∃ st', Fold src evs st st' ∧ LSx src st' a'

theorem Loads.trans {i : Nat} {b1 b2 : Bytes} {e1 e2 : List Ev} {a a1 a2 : AS} (h1 : Loads i b1 e1 a a1)
    (h2 : Loads (i + b1.length) b2 e2 a1 a2) : Loads i (b1 ++ b2) (e1 ++ e2) a a2 := by
  intro src st hat hl
  rw [Lay.AtB_append] at hat
  obtain ⟨s1, f1, l1⟩ := h1 src st hat.1 hl
  obtain ⟨s2, f2, l2⟩ := h2 src s1 hat.2 l1
  exact ⟨s2, Fold.trans f1 f2, l2⟩

theorem Loads.nil (i : Nat) (bs : Bytes) (a : AS) : Loads i bs [] a a :=
  fun _ st _ hl => ⟨st, Loader.Fold.nil _ _, hl⟩

/-! ### segments -/

structure Seg (c : TC) (ts : List BTok) (c' : TC) (a a' : AS) : Prop where
  ex : ∃ evs, Scans c (ts.map BTok.cls) evs c' ∧ Loads c.i (bytesOf ts) evs a a'
  idx : c'.i = c.i + (bytesOf ts).length

theorem bytesOf_append (t1 t2 : List BTok) : bytesOf (t1 ++ t2) = bytesOf t1 ++ bytesOf t2 := by
  induction t1 with
  | nil => rfl
  | cons t ts ih => simp [bytesOf, ih]

theorem Seg.trans {c c1 c2 : TC} {t1 t2 : List BTok} {a a1 a2 : AS} (h1 : Seg c t1 c1 a a1) (h2 : Seg c1 t2 c2 a1 a2) :
    Seg c (t1 ++ t2) c2 a a2 := by
  obtain ⟨⟨e1, s1, l1⟩, i1⟩ := h1
  obtain ⟨⟨e2, s2, l2⟩, i2⟩ := h2
  refine ⟨⟨e1 ++ e2, ?_, ?_⟩, ?_⟩
  · rw [List.map_append]; exact s1.trans s2
  · rw [bytesOf_append]; rw [i1] at l2; exact l1.trans l2
  · rw [i2, i1, bytesOf_append, List.length_append]; omega

theorem Seg.refl (c : TC) (a : AS) : Seg c [] c a a :=
  ⟨⟨[], (ScansA.nil c).weak, Loads.nil _ _ _⟩, rfl⟩

/-- one token, read at a place between tokens -/
theorem Seg.tok {c c1 : TC} {t : BTok} {e : List Ev} {a a1 : AS} (h : astep c t.cls = some (c1, e))
    (hl : Loads c.i t.bytes e a a1) (hi : c1.i = c.i + t.bytes.length) : Seg c [t] c1 a a1 :=
  ⟨⟨e, (ScansA.one h).weak, by simpa [bytesOf] using hl⟩, by simpa [bytesOf] using hi⟩

/-- the closing lexemes of a value -/
theorem Seg.close {c c1 : TC} {e1 : List Ev} {a a1 : AS} (hpv : PV c.st = true) (hg : c.g = false)
    (hc : closePV c = some (c1, e1)) (h1 : PV c1.st = false) (hl : Loads c.i [] e1 a a1) : Seg c [] c1 a a1 :=
  ⟨⟨e1, Scans.close hpv hg hc h1, hl⟩, by
    have := SchemaScan.Len.closePV_index hc
    simp [bytesOf, this]⟩

/-! ### layout -/

def LTok.fx (c : TC) : LTok → TC
  | .sp _ => { c with i := c.i + 1 }
  | .nl _ => { c with st := nlSt c.st, g := c.g && !isObjKey c.st, al := nlAl c.st c.al, i := c.i + 1 }
  | .cmt t _ =>
    { c with st := nlSt c.st, g := c.g && !isObjKey c.st, al := nlAl c.st c.al, i := c.i + 1 + t.length + 1 }

def gapTC (c : TC) : Gap → TC
  | [] => c
  | l :: g => gapTC (l.fx c) g

theorem step_sp (st : St) (h : wsLoop st = true) (g : Bool) (K : List (LexT × Nat)) (i : Nat) (CS : List Ctx) (cx : Ctx)
    (al : Bool) (x : Cls) :
    astep ⟨st, g, K, i, CS, cx, al⟩ (.base (.sp x)) = some (⟨st, g, K, i + 1, CS, cx, al⟩, []) := by
  cases st <;> simp [wsLoop] at h <;> rfl

theorem step_nl (st : St) (h : wsLoop st = true) (g : Bool) (K : List (LexT × Nat)) (i : Nat) (CS : List Ctx) (cx : Ctx)
    (al : Bool) :
    astep ⟨st, g, K, i, CS, cx, al⟩ (.base .nl)
      = some (⟨nlSt st, g && !isObjKey st, K, i + 1, CS, cx, nlAl st al⟩, [⟨.newLine, i, i⟩]) := by
  cases st <;> simp [wsLoop] at h <;> rfl

theorem step_cmt (st : St) (h : cmtLoop st = true) (g : Bool) (K : List (LexT × Nat)) (i : Nat) (CS : List Ctx)
    (cx : Ctx) (al : Bool) (t : List Cls) :
    astep ⟨st, g, K, i, CS, cx, al⟩ (.base (.cmt t))
      = some (⟨nlSt st, g && !isObjKey st, K, i + 1 + t.length + 1, CS, cx, nlAl st al⟩,
          [⟨.newLine, i + t.length, i + t.length⟩, ⟨.newLine, i + 1 + t.length, i + 1 + t.length⟩]) := by
  cases st <;> simp [cmtLoop] at h <;> rfl

theorem loads_nl (i : Nat) (bs : Bytes) (a : AS) (evs : List Ev) (he : ∀ e ∈ evs, e.ty = .newLine) (hne : evs ≠ []) :
    Loads i bs evs a { a with pl := 0 } := by
  intro src st _ hl
  obtain ⟨st', f, l⟩ := Loader.X_nls src evs hl he
  rw [if_neg hne] at l
  exact ⟨st', f, l⟩

theorem wsLoop_nlSt {st : St} (h : wsLoop st = true) : wsLoop (nlSt st) = true := by
  cases st <;> simp [wsLoop] at h <;> rfl

theorem ltok_seg (c : TC) (l : LTok) (hw : wsLoop c.st = true) (hc : l.isCmt = true → cmtLoop c.st = true) (a : AS) :
    Seg c [.lay l] (LTok.fx c l) a { a with pl := gapPl a.pl [l] } := by
  obtain ⟨st, g, K, i, CS, cx, al⟩ := c
  cases l with
  | sp b =>
    exact Seg.tok (step_sp st hw g K i CS cx al _) (by simpa [gapPl, Gap.hasNl, LTok.isNl] using Loads.nil _ _ _) rfl
  | nl b =>
    exact Seg.tok (step_nl st hw g K i CS cx al)
      (by simpa [gapPl, Gap.hasNl, LTok.isNl] using loads_nl i _ a _ (by simp) (by simp)) rfl
  | cmt t n =>
    have h := step_cmt st (hc rfl) g K i CS cx al (t.map classify)
    rw [List.length_map] at h
    refine Seg.tok h
      (by simpa [gapPl, Gap.hasNl, LTok.isNl] using loads_nl i _ a _ (by simp) (by simp)) ?_
    simp only [LTok.fx, BTok.bytes, LTok.bytes, List.length_cons, List.length_append, List.length_nil]; omega

theorem gapPl_cons (pl : Nat) (l : LTok) (g : Gap) : gapPl pl (l :: g) = gapPl (gapPl pl [l]) g := by
  simp only [gapPl, Gap.hasNl, List.any_cons, List.any_nil, Bool.or_false]
  cases l.isNl <;> cases g.any LTok.isNl <;> rfl

theorem cmtLoop_fx {c : TC} {l : LTok} (h : cmtLoop c.st = true) : cmtLoop (LTok.fx c l).st = true := by
  cases l <;> simp only [LTok.fx] <;> first | exact h | exact SchemaScan.cmtLoop_nlSt h

theorem wsLoop_fx {c : TC} {l : LTok} (h : wsLoop c.st = true) : wsLoop (LTok.fx c l).st = true := by
  cases l <;> simp only [LTok.fx] <;> first | exact h | exact wsLoop_nlSt h

theorem hasCmt_cons (l : LTok) (g : Gap) : Gap.hasCmt (l :: g) = (l.isCmt || Gap.hasCmt g) := rfl
theorem hasNl_cons (l : LTok) (g : Gap) : Gap.hasNl (l :: g) = (l.isNl || Gap.hasNl g) := rfl

/-- a layout, at a place where the scanner reads blanks (and comments, if it holds any) -/
theorem gap_seg : ∀ (g : Gap) (c : TC) (a : AS), wsLoop c.st = true → (Gap.hasCmt g = true → cmtLoop c.st = true) →
    Seg c (gapToks g) (gapTC c g) a { a with pl := gapPl a.pl g }
  | [], c, a, _, _ => Seg.refl c a
  | l :: g, c, a, hw, hc => by
    have h1 := ltok_seg c l hw (fun hl => hc (by rw [hasCmt_cons, hl]; rfl)) a
    have hc' : Gap.hasCmt g = true → cmtLoop (LTok.fx c l).st = true := fun hg =>
      cmtLoop_fx (hc (by rw [hasCmt_cons, hg]; simp))
    have h2 := gap_seg g (LTok.fx c l) { a with pl := gapPl a.pl [l] } (wsLoop_fx hw) hc'
    have := h1.trans h2
    rw [gapPl_cons]
    exact this

/-- what a layout leaves of the scanner state -/
structure GapFacts (c : TC) (g : Gap) (c' : TC) : Prop where
  K : c'.K = c.K
  CS : c'.CS = c.CS
  cx : c'.cx = c.cx
  st : c'.st = (bif Gap.hasNl g then nlSt c.st else c.st)
  gf : c.g = false → c'.g = false
  al : c.al = true → c'.al = true
  alSep : (c.st = .objKey ∨ c.st = .arrItem) → Gap.hasNl g = true → c'.al = true

theorem nlSt_nlSt (st : St) : nlSt (nlSt st) = nlSt st := by cases st <;> rfl

theorem nlAl_true (st : St) : nlAl st true = true := by cases st <;> rfl

theorem gap_facts : ∀ (g : Gap) (c : TC), GapFacts c g (gapTC c g)
  | [], c => ⟨rfl, rfl, rfl, rfl, id, id, fun _ h => by simp [Gap.hasNl] at h⟩
  | l :: g, c => by
    have ih := gap_facts g (LTok.fx c l)
    cases l with
    | sp b =>
      refine ⟨ih.K, ih.CS, ih.cx, ?_, ih.gf, ih.al, fun h1 h2 => ih.alSep h1 (by simpa [hasNl_cons, LTok.isNl] using h2)⟩
      have := ih.st
      simpa [hasNl_cons, LTok.isNl, LTok.fx, gapTC] using this
    | nl b =>
      refine ⟨ih.K, ih.CS, ih.cx, ?_, fun h => ih.gf (by simp [LTok.fx, h]), fun h => ih.al (by simp [LTok.fx, h, nlAl_true]),
        fun h1 _ => ih.al (by rcases h1 with h | h <;> simp [LTok.fx, h, nlAl])⟩
      have := ih.st
      simp only [LTok.fx] at this
      simp only [gapTC, LTok.fx, this, hasNl_cons, LTok.isNl, Bool.true_or, cond_true]
      cases Gap.hasNl g <;> simp [nlSt_nlSt]
    | cmt t n =>
      refine ⟨ih.K, ih.CS, ih.cx, ?_, fun h => ih.gf (by simp [LTok.fx, h]), fun h => ih.al (by simp [LTok.fx, h, nlAl_true]),
        fun h1 _ => ih.al (by rcases h1 with h | h <;> simp [LTok.fx, h, nlAl])⟩
      have := ih.st
      simp only [LTok.fx] at this
      simp only [gapTC, LTok.fx, this, hasNl_cons, LTok.isNl, Bool.true_or, cond_true]
      cases Gap.hasNl g <;> simp [nlSt_nlSt]

/-! ### annotations -/

theorem annBody_cls (s2 : Bytes) (ob : Lay.BObj) (s3 : Bytes) (nt : Option (Bytes × Bytes)) :
    (Lay.annBody s2 ob s3 nt).map classify = (Lay.mlOf s2 ob s3 nt).render := by
  cases nt with
  | none => simp [Lay.annBody, Lay.mlOf, SchemaScan.Len.MlBody.render, Lay.BObj.body_cls, Lay.clsNt, SchemaScan.Len.noteTail]; decide
  | some q =>
    obtain ⟨s4, txt⟩ := q
    simp [Lay.annBody, Lay.mlOf, SchemaScan.Len.MlBody.render, Lay.BObj.body_cls, Lay.clsNt, SchemaScan.Len.noteTail]; decide

theorem ml_inl_render (s2 : Bytes) (ob : Lay.BObj) (s3 : Bytes) (nt : Option (Bytes × Bytes)) :
    (Lay.inlOf s2 ob s3 nt).render = (Lay.mlOf s2 ob s3 nt).render := rfl

theorem annBody_len (s2 : Bytes) (ob : Lay.BObj) (s3 : Bytes) (nt : Option (Bytes × Bytes)) :
    (Lay.mlOf s2 ob s3 nt).render.length = (Lay.annBody s2 ob s3 nt).length := by
  rw [← annBody_cls, List.length_map]

theorem step_ml (st : St) (h : annLoop st = true) (K : List (LexT × Nat)) (i : Nat) (CS : List Ctx) (cx : Ctx)
    (b : SchemaScan.Len.MlBody) :
    astep ⟨st, false, K, i, CS, cx, true⟩ (.ml b)
      = some (⟨st, false, K, i + 2 + b.render.length + 2, CS, cxA st cx, true⟩, b.evs i) := by
  cases st <;> simp [annLoop] at h <;> rfl

theorem step_inl (st : St) (h : annLoop st = true) (K : List (LexT × Nat)) (hK : noML K = true) (i : Nat)
    (CS : List Ctx) (cx : Ctx) (b : SchemaScan.Len.InlBody) :
    astep ⟨st, false, K, i, CS, cx, true⟩ (.base (.ann b))
      = some (⟨st, b.hasNote, K, i + 2 + b.render.length + 1, CS, cxA st cx, true⟩, b.evs i) := by
  cases st <;> simp [annLoop] at h <;>
    simp [astep, PV, aslot, slotStep, annLoop, hK]

/-- the scanner state behind an annotation -/
def annTC (c : TC) (a : Annot) : TC :=
  { c with g := (bif a.multi then false else a.nt.isSome), cx := cxA c.st c.cx, i := c.i + a.bytes.length }

/-- **an annotation token**: scanner allowed (`al`, no guard), loader: exactly one node on the line, `n` the last -/
theorem ann_seg (c : TC) (an : Annot) (hw : an.WF) (hl : annLoop c.st = true) (hg : c.g = false) (hal : c.al = true)
    (hK : noML c.K = true) (a : AS) (n : Nat) (xn : XNode) (hlast : a.last = some n) (hpl : a.pl = 1)
    (hn : a.AL[n]? = some xn) :
    Seg c [.ann an] (annTC c an)
      a { a with AL := a.AL.set n (annX (some an) xn), pl := (bif an.multi then 1 else 0) } := by
  obtain ⟨st, g, K, i, CS, cx, al⟩ := c
  obtain ⟨AL, leaf, last, pl, root⟩ := a
  simp only at hl hg hal hK hlast hpl hn
  subst hg hal hlast hpl
  obtain ⟨multi, s2, ob, s3, nt, nlb⟩ := an
  obtain ⟨hcls, hnt, hnl⟩ := hw
  cases multi with
  | true =>
    have hv : (Lay.mlOf s2 ob s3 nt).Valid := hcls
    have hlen : i + 2 + (Lay.mlOf s2 ob s3 nt).render.length + 2 = i + (Annot.bytes ⟨true, s2, ob, s3, nt, nlb⟩).length := by
      simp only [Annot.bytes, cond_true, annBody_len, List.length_cons, List.length_append, List.length_nil]; omega
    refine Seg.tok (e := (Lay.mlOf s2 ob s3 nt).evs i)
      (c1 := annTC ⟨st, false, K, i, CS, cx, true⟩ ⟨true, s2, ob, s3, nt, nlb⟩) ?_ ?_ rfl
    · have := step_ml st hl K i CS cx (Lay.mlOf s2 ob s3 nt)
      simp only [BTok.cls, Annot.cls, cond_true]
      rw [this, hlen]
      rfl
    · intro src s hat hls
      have hat' : Lay.AtB src (i + 2) (Lay.annBody s2 ob s3 nt ++ [42, 47]) := by
        simp only [BTok.bytes, Annot.bytes, cond_true, Lay.AtB] at hat
        exact hat.2.2
      obtain ⟨s', f, l⟩ := Lay.ml_effect src hls xn hn s2 ob s3 nt i hv.2.1 hnt [42, 47] hat'
      exact ⟨s', f, l⟩
  | false =>
    have hv : (Lay.inlOf s2 ob s3 nt).Valid := hcls
    have hlen : i + 2 + (Lay.inlOf s2 ob s3 nt).render.length + 1 = i + (Annot.bytes ⟨false, s2, ob, s3, nt, nlb⟩).length := by
      simp only [Annot.bytes, cond_false, ml_inl_render, annBody_len, List.length_cons, List.length_append, List.length_nil]
      omega
    have hnote : (Lay.inlOf s2 ob s3 nt).hasNote = nt.isSome := by cases nt <;> rfl
    refine Seg.tok (e := (Lay.inlOf s2 ob s3 nt).evs i)
      (c1 := annTC ⟨st, false, K, i, CS, cx, true⟩ ⟨false, s2, ob, s3, nt, nlb⟩) ?_ ?_ rfl
    · have := step_inl st hl K hK i CS cx (Lay.inlOf s2 ob s3 nt)
      simp only [BTok.cls, Annot.cls, cond_false]
      rw [this, hlen, hnote]
      rfl
    · intro src s hat hls
      have hat' : Lay.AtB src (i + 2) (Lay.annBody s2 ob s3 nt ++ [nlb]) := by
        simp only [BTok.bytes, Annot.bytes, cond_false, Lay.AtB] at hat
        exact hat.2.2
      obtain ⟨s', f, l⟩ := Lay.inl_effect src hls xn hn s2 ob s3 nt i hv.2.1 hnt [nlb] hat'
      exact ⟨s', f, l⟩

end AT
