import JSight.SchemaObj
/-!
# Theorems about the orchestration model `SchemaObj` (C11, once-only load / compile / len with cached error)
-/
namespace SchemaObj
variable {W : World}

/-- what a filled load cell holds: the load stage applied to the object's own text and options and to a rule list `rs`
— the rules the object holds, unless the load failed before `inner` was set (then `AddRule` is still accepted afterwards,
without effect); and `rs = []` as long as the object holds no rule -/
def LoadSpec (o : Obj W) : Prop :=
  ∀ r, o.loadC = some r → ∃ rs, r = W.load o.text o.opt rs ∧ ((∀ e, r ≠ .failEarly e) → rs = o.rules) ∧
    (o.rules = [] → rs = [])

/-- `o'` is `o` later: same text and options, every filled cell keeps its value -/
structure Obj.le (o o' : Obj W) : Prop where
  text : o'.text = o.text
  opt : o'.opt = o.opt
  loadC : ∀ r, o.loadC = some r → o'.loadC = some r
  compC : ∀ r, o.compC = some r → o'.compC = some r
  lenC : ∀ r, o.lenC = some r → o'.lenC = some r
  wf : (o.compC.isSome → o.loadC.isSome) → (o'.compC.isSome → o'.loadC.isSome)
  lenSpec : (∀ r, o.lenC = some r → r = W.len o.text) → ∀ r, o'.lenC = some r → r = W.len o'.text
  loadSpec : LoadSpec o → LoadSpec o'

theorem Obj.le_refl (o : Obj W) : o.le o := ⟨rfl, rfl, fun _ h => h, fun _ h => h, fun _ h => h, fun h => h, fun h => h, fun h => h⟩

theorem Obj.le_trans {a b c : Obj W} (h1 : a.le b) (h2 : b.le c) : a.le c :=
  ⟨h2.text.trans h1.text, h2.opt.trans h1.opt, fun r h => h2.loadC r (h1.loadC r h),
   fun r h => h2.compC r (h1.compC r h), fun r h => h2.lenC r (h1.lenC r h), fun h => h2.wf (h1.wf h), fun h => h2.lenSpec (h1.lenSpec h), fun h => h2.loadSpec (h1.loadSpec h)⟩

/-- pool order: every object is still there, later -/
@[reducible] def PoolLe (p p' : Pool W) : Prop :=
  ∀ (i : Nat) (o : Obj W), p[i]? = some o → ∃ o' : Obj W, p'[i]? = some o' ∧ o.le o'

theorem poolLe_refl (p : Pool W) : PoolLe p p := fun _ o h => ⟨o, h, Obj.le_refl o⟩

theorem poolLe_trans {a b c : Pool W} (h1 : PoolLe a b) (h2 : PoolLe b c) : PoolLe a c := by
  intro i o h
  obtain ⟨o1, g1, l1⟩ := h1 i o h
  obtain ⟨o2, g2, l2⟩ := h2 i o1 g1
  exact ⟨o2, g2, Obj.le_trans l1 l2⟩

/-- replacing object `j` by a later one -/
theorem poolLe_set (p : Pool W) (j : Nat) (o o' : Obj W) (hj : p[j]? = some o) (hl : o.le o') :
    PoolLe p (p.set j o') := by
  intro i oi hi
  by_cases hij : j = i
  · subst hij
    have : j < p.length := by
      rcases Nat.lt_or_ge j p.length with h | h
      · exact h
      · simp [List.getElem?_eq_none h] at hj
    refine ⟨o', by simp [this], ?_⟩
    rw [hj] at hi; cases hi; exact hl
  · exact ⟨oi, by simp [List.getElem?_set, hij, hi], Obj.le_refl oi⟩

/-- potential of an event: 1 while its cell is empty -/
def phi (p : Pool W) : Ev → Nat
  | .load i => match p[i]? with | some o => if o.loadC.isSome then 0 else 1 | none => 1
  | .compile i => match p[i]? with | some o => if o.compC.isSome then 0 else 1 | none => 1
  | .len i => match p[i]? with | some o => if o.lenC.isSome then 0 else 1 | none => 1

theorem phi_le_one (p : Pool W) (e : Ev) : phi p e ≤ 1 := by
  cases e <;> simp only [phi] <;> split <;> try split
  all_goals omega

/-- the potential never grows along the pool order -/
theorem phi_mono {p p' : Pool W} (h : PoolLe p p') (e : Ev) : phi p' e ≤ phi p e := by
  cases e with
  | load i =>
    simp only [phi]
    cases hp : p[i]? with
    | none => have := phi_le_one p' (.load i); simpa [phi] using this
    | some o =>
      obtain ⟨o', g, l⟩ := h i o hp
      rw [g]; simp only
      cases hc : o.loadC with
      | none => simp; split <;> omega
      | some r => simp [l.loadC r hc]
  | compile i =>
    simp only [phi]
    cases hp : p[i]? with
    | none => have := phi_le_one p' (.compile i); simpa [phi] using this
    | some o =>
      obtain ⟨o', g, l⟩ := h i o hp
      rw [g]; simp only
      cases hc : o.compC with
      | none => simp; split <;> omega
      | some r => simp [l.compC r hc]
  | len i =>
    simp only [phi]
    cases hp : p[i]? with
    | none => have := phi_le_one p' (.len i); simpa [phi] using this
    | some o =>
      obtain ⟨o', g, l⟩ := h i o hp
      rw [g]; simp only
      cases hc : o.lenC with
      | none => simp; split <;> omega
      | some r => simp [l.lenC r hc]

theorem get_set_self {p : Pool W} {j : Nat} {o : Obj W} (o' : Obj W) (hj : p[j]? = some o) :
    (p.set j o')[j]? = some o' := by
  have : j < p.length := by
    rcases Nat.lt_or_ge j p.length with h | h
    · exact h
    · simp [List.getElem?_eq_none h] at hj
  simp [this]

theorem get_set_ne {p : Pool W} {i j : Nat} (o' : Obj W) (hij : j ≠ i) : (p.set j o')[i]? = p[i]? := by
  simp [List.getElem?_set, hij]

theorem pot_of_le {p p' : Pool W} (h : PoolLe p p') (evs : List Ev) (e : Ev) (hc : evs.count e = 0) :
    evs.count e + phi p' e ≤ phi p e := by
  have := phi_mono h e; omega

/-! ## the once cells -/

theorem ensureLoad_le (p : Pool W) (j : Nat) : PoolLe p (ensureLoad p j).1 := by
  unfold ensureLoad
  split
  · exact poolLe_refl p
  · rename_i o ho
    split
    · exact poolLe_refl p
    · rename_i hc
      exact poolLe_set p j o _ ho ⟨rfl, rfl, fun r h => by simp [hc] at h, fun r h => h, fun r h => h, fun _ _ => rfl, fun h => h,
        fun _ r h => by
          simp only [Option.some.injEq] at h; exact ⟨o.rules, h.symm, fun _ => rfl, fun h => h⟩⟩

theorem ensureLoad_pot (p : Pool W) (j : Nat) (e : Ev) :
    (ensureLoad p j).2.1.count e + phi (ensureLoad p j).1 e ≤ phi p e := by
  by_cases he : e = .load j
  · subst he
    unfold ensureLoad
    split
    · simp
    · rename_i o ho
      split
      · simp
      · rename_i hc
        simp only [phi, ho, hc, get_set_self _ ho]
        simp
  · apply pot_of_le (ensureLoad_le p j)
    unfold ensureLoad
    split
    · simp
    · split
      · simp
      · simp [List.count_cons]; intro h; exact he h.symm

/-- what `ensureLoad` answers is the cell afterwards -/
theorem ensureLoad_cell (p : Pool W) (j : Nat) (o : Obj W) (ho : p[j]? = some o) :
    ∃ o' r, (ensureLoad p j).1[j]? = some o' ∧ o'.loadC = some r ∧ (ensureLoad p j).2.2 = some r ∧
      o'.rules = o.rules ∧ o'.types = o.types ∧ o'.compC = o.compC ∧ o'.lenC = o.lenC ∧
      (o.loadC = none → r = W.load o.text o.opt o.rules) := by
  unfold ensureLoad
  simp only [ho]
  split
  · rename_i r hr
    exact ⟨o, r, ho, hr, rfl, rfl, rfl, rfl, rfl, fun h => by simp [h] at hr⟩
  · rename_i hc
    exact ⟨_, _, get_set_self _ ho, rfl, rfl, rfl, rfl, rfl, rfl, fun _ => rfl⟩

theorem ensureLen_le (p : Pool W) (j : Nat) : PoolLe p (ensureLen p j).1 := by
  unfold ensureLen
  split
  · exact poolLe_refl p
  · rename_i o ho
    split
    · exact poolLe_refl p
    · rename_i hc
      exact poolLe_set p j o _ ho ⟨rfl, rfl, fun r h => h, fun r h => h, fun r h => by simp [hc] at h, fun h => h,
        fun _ r h => by simp only [Option.some.injEq] at h; exact h.symm, fun h => h⟩

theorem ensureLen_pot (p : Pool W) (j : Nat) (e : Ev) :
    (ensureLen p j).2.1.count e + phi (ensureLen p j).1 e ≤ phi p e := by
  by_cases he : e = .len j
  · subst he
    unfold ensureLen
    split
    · simp
    · rename_i o ho
      split
      · simp
      · rename_i hc
        simp only [phi, ho, hc, get_set_self _ ho]
        simp
  · apply pot_of_le (ensureLen_le p j)
    unfold ensureLen
    split
    · simp
    · split
      · simp
      · simp [List.count_cons]; intro h; exact he h.symm

theorem ensureLoad_evs (p : Pool W) (j : Nat) :
    (ensureLoad p j).2.1 = [] ∨ (ensureLoad p j).2.1 = [.load j] := by
  unfold ensureLoad
  split
  · simp
  · split <;> simp

theorem ensureCompile_cached (p : Pool W) (i : Nat) (o : Obj W) (ho : p[i]? = some o) (r : Except W.Err W.Compiled)
    (hc : o.compC = some r) : ensureCompile p i = (p, [], some r) := by
  unfold ensureCompile
  simp only [ho, hc]

theorem ensureCompile_fresh (p : Pool W) (i : Nat) (o : Obj W) (ho : p[i]? = some o) (hc : o.compC = none) :
    ∃ p3 o3 r, ensureCompile p i = (p3, (ensureLoad p i).2.1 ++ [.compile i], some r) ∧
      PoolLe (ensureLoad p i).1 p3 ∧ p3[i]? = some o3 ∧ o3.compC = some r ∧
      o3.loadC = (ensureLoad p i).2.2 := by
  obtain ⟨o1, r1, h1, hl, hr, _, _, hc1, _, _⟩ := ensureLoad_cell p i o ho
  unfold ensureCompile
  simp only [ho, hc]
  rcases hE : ensureLoad p i with ⟨p1, ev1, lr⟩
  rw [hE] at h1 hr
  simp only at h1 hr
  subst hr
  simp only [h1]
  have hc1' : o1.compC = none := by rw [hc1, hc]
  cases r1 with
  | ok l =>
    simp only [compileBody, get_set_self _ h1]
    refine ⟨_, _, _, rfl, ?_, get_set_self _ (get_set_self _ h1), rfl, hl⟩
    refine poolLe_trans (poolLe_set p1 i o1 { o1 with types := hoisted p1 i o1.types } h1
      ⟨rfl, rfl, fun r h => h, fun r h => h, fun r h => h, fun h => h, fun h => h, fun h => h⟩) ?_
    exact poolLe_set _ i { o1 with types := hoisted p1 i o1.types } _ (get_set_self _ h1)
      ⟨rfl, rfl, fun r h => h, fun r h => by simp [hc1'] at h, fun r h => h, fun _ _ => by simp [hl], fun h => h, fun h => h⟩
  | failEarly e =>
    simp only
    exact ⟨_, _, _, rfl, poolLe_set p1 i o1 _ h1 ⟨rfl, rfl, fun r h => h, fun r h => by simp [hc1'] at h, fun r h => h, fun _ _ => by simp [hl], fun h => h, fun h => h⟩,
      get_set_self _ h1, rfl, hl⟩
  | failLate e =>
    simp only
    exact ⟨_, _, _, rfl, poolLe_set p1 i o1 _ h1 ⟨rfl, rfl, fun r h => h, fun r h => by simp [hc1'] at h, fun r h => h, fun _ _ => by simp [hl], fun h => h, fun h => h⟩,
      get_set_self _ h1, rfl, hl⟩

theorem ensureCompile_noobj (p : Pool W) (i : Nat) (ho : p[i]? = none) : ensureCompile p i = (p, [], none) := by
  unfold ensureCompile
  simp only [ho]

theorem ensureCompile_le (p : Pool W) (i : Nat) : PoolLe p (ensureCompile p i).1 := by
  cases ho : p[i]? with
  | none => rw [ensureCompile_noobj p i ho]; exact poolLe_refl p
  | some o =>
    cases hc : o.compC with
    | some r => rw [ensureCompile_cached p i o ho r hc]; exact poolLe_refl p
    | none =>
      obtain ⟨p3, o3, r, hE, hle, _, _, _⟩ := ensureCompile_fresh p i o ho hc
      rw [hE]; exact poolLe_trans (ensureLoad_le p i) hle

theorem ensureCompile_pot (p : Pool W) (i : Nat) (e : Ev) :
    (ensureCompile p i).2.1.count e + phi (ensureCompile p i).1 e ≤ phi p e := by
  cases ho : p[i]? with
  | none => rw [ensureCompile_noobj p i ho]; simp
  | some o =>
    cases hc : o.compC with
    | some r => rw [ensureCompile_cached p i o ho r hc]; simp
    | none =>
      obtain ⟨p3, o3, r, hE, hle, h3, hc3, _⟩ := ensureCompile_fresh p i o ho hc
      rw [hE]
      simp only [List.count_append]
      by_cases he : e = .compile i
      · subst he
        have h0 : (ensureLoad p i).2.1.count (.compile i) = 0 := by
          rcases ensureLoad_evs p i with h | h <;> rw [h] <;> simp [List.count_cons]
        simp only [phi, ho, hc, h3, hc3, h0]
        simp
      · have h1 : [Ev.compile i].count e = 0 := by
          simp [List.count_cons]; intro h; exact he h.symm
        have := ensureLoad_pot p i e
        have := phi_mono hle e
        omega

/-- the answer of `ensureCompile` is the cell afterwards -/
theorem ensureCompile_cell (p : Pool W) (i : Nat) (o : Obj W) (ho : p[i]? = some o) :
    ∃ o3 r, (ensureCompile p i).1[i]? = some o3 ∧ o3.compC = some r ∧ (ensureCompile p i).2.2 = some r := by
  cases hc : o.compC with
  | some r => rw [ensureCompile_cached p i o ho r hc]; exact ⟨o, r, ho, hc, rfl⟩
  | none =>
    obtain ⟨p3, o3, r, hE, _, h3, hc3, _⟩ := ensureCompile_fresh p i o ho hc
    rw [hE]; exact ⟨o3, r, h3, hc3, rfl⟩

/-! ## every public method: the pool only grows later, every stage event uses up its potential -/

def Good (p p' : Pool W) (evs : List Ev) : Prop :=
  PoolLe p p' ∧ ∀ e, evs.count e + phi p' e ≤ phi p e

theorem good_refl (p : Pool W) : Good p p [] := ⟨poolLe_refl p, fun e => by simp⟩

theorem good_of_le {p p' : Pool W} (h : PoolLe p p') : Good p p' [] :=
  ⟨h, fun e => pot_of_le h [] e (by simp)⟩

theorem good_trans {p p1 p2 : Pool W} {e1 e2 : List Ev} (h1 : Good p p1 e1) (h2 : Good p1 p2 e2) :
    Good p p2 (e1 ++ e2) :=
  ⟨poolLe_trans h1.1 h2.1, fun e => by
    have := h1.2 e; have := h2.2 e; simp only [List.count_append]; omega⟩

theorem good_trans_nil {p p1 p2 : Pool W} {e1 : List Ev} (h1 : Good p p1 e1) (h2 : Good p1 p2 []) :
    Good p p2 e1 := by
  have := good_trans h1 h2; simpa using this

theorem ensureLoad_good (p : Pool W) (j : Nat) : Good p (ensureLoad p j).1 (ensureLoad p j).2.1 :=
  ⟨ensureLoad_le p j, ensureLoad_pot p j⟩
theorem ensureLen_good (p : Pool W) (j : Nat) : Good p (ensureLen p j).1 (ensureLen p j).2.1 :=
  ⟨ensureLen_le p j, ensureLen_pot p j⟩
theorem ensureCompile_good (p : Pool W) (j : Nat) : Good p (ensureCompile p j).1 (ensureCompile p j).2.1 :=
  ⟨ensureCompile_le p j, ensureCompile_pot p j⟩

theorem addEntry_le (p : Pool W) (i : Nat) (n : String) (j : Nat) : PoolLe p (addEntry p i n j).1 := by
  unfold addEntry
  split
  · exact poolLe_refl p
  · rename_i o ho
    split
    · exact poolLe_refl p
    · split
      · exact poolLe_refl p
      · exact poolLe_set p i o _ ho ⟨rfl, rfl, fun r h => h, fun r h => h, fun r h => h, fun h => h, fun h => h, fun h => h⟩

theorem putRule_le (p : Pool W) (i : Nat) (n : String) (r : W.Rule) : PoolLe p (putRule p i n r) := by
  unfold putRule
  split
  · exact poolLe_refl p
  · rename_i o ho
    split
    · exact poolLe_refl p
    · exact poolLe_refl p
    · rename_i h1 h2
      refine poolLe_set p i o _ ho ⟨rfl, rfl, fun r h => h, fun r h => h, fun r h => h, fun h => h, fun h => h, ?_⟩
      intro hs r hr
      simp only at hr
      cases r with
      | ok l => exact absurd hr (h1 l)
      | failLate e => exact absurd hr (h2 e)
      | failEarly e =>
        obtain ⟨rs, e1, _, _⟩ := hs _ hr
        exact ⟨rs, e1, fun hne => absurd rfl (hne e), fun h => absurd h (by simp)⟩

theorem step_good (p : Pool W) (op : Op W) : Good p (step p op).1 (step p op).2.1 := by
  cases op with
  | len i =>
    simp only [step]; rcases h : ensureLen p i with ⟨a, b, c⟩
    have := ensureLen_good p i; rw [h] at this; exact this
  | used i =>
    simp only [step]; rcases h : ensureLoad p i with ⟨a, b, c⟩
    have := ensureLoad_good p i; rw [h] at this; exact this
  | check i =>
    simp only [step]; rcases h : ensureCompile p i with ⟨a, b, c⟩
    have := ensureCompile_good p i; rw [h] at this; exact this
  | build i =>
    simp only [step]; rcases h : ensureCompile p i with ⟨a, b, c⟩
    have := ensureCompile_good p i; rw [h] at this; exact this
  | getAST i =>
    simp only [step]; rcases h : ensureCompile p i with ⟨a, b, c⟩
    have := ensureCompile_good p i; rw [h] at this; exact this
  | «example» i =>
    simp only [step]; rcases h : ensureCompile p i with ⟨a, b, c⟩
    have := ensureCompile_good p i; rw [h] at this; exact this
  | validate i d =>
    simp only [step]; rcases h : ensureCompile p i with ⟨a, b, c⟩
    have := ensureCompile_good p i; rw [h] at this; exact this
  | addRule i n r =>
    simp only [step]
    split
    · exact good_refl p
    · split
      · exact good_refl p
      · exact good_refl p
      · split
        · exact good_refl p
        · split
          · exact good_refl p
          · exact good_of_le (putRule_le p i n _)
  | addType i n j =>
    simp only [step]
    rcases h1 : ensureLoad p i with ⟨p1, ev1, r1⟩
    have g1 := ensureLoad_good p i; rw [h1] at g1
    simp only at g1 ⊢
    cases r1 with
    | none => exact g1
    | some r1 =>
      cases r1 with
      | failEarly e => exact g1
      | failLate e => exact g1
      | ok l1 =>
        simp only
        rcases h2 : ensureLoad p1 j with ⟨p2, ev2, r2⟩
        have g2 := ensureLoad_good p1 j; rw [h2] at g2
        simp only at g2 ⊢
        cases r2 with
        | none => exact good_trans g1 g2
        | some r2 =>
          cases r2 with
          | failEarly e => exact good_trans g1 g2
          | failLate e => exact good_trans g1 g2
          | ok l =>
            simp only
            split
            · exact good_trans g1 g2
            · rcases h3 : addEntry p2 i n j with ⟨p3, o⟩
              have g3 := addEntry_le p2 i n j; rw [h3] at g3
              exact good_trans_nil (good_trans g1 g2) (good_of_le g3)

theorem run_good (p : Pool W) (h : List (Op W)) : Good p (run p h).1 (run p h).2.1 := by
  induction h generalizing p with
  | nil => exact good_refl p
  | cons op ops ih =>
    simp only [run]
    rcases h1 : step p op with ⟨p1, ev, o⟩
    have g1 := step_good p op; rw [h1] at g1
    rcases h2 : run p1 ops with ⟨p2, evs, os⟩
    have g2 := ih p1; rw [h2] at g2
    exact good_trans g1 g2

/-- **each stage runs at most once per object**, in every history from every pool -/
theorem stage_at_most_once (p : Pool W) (h : List (Op W)) (e : Ev) : (run p h).2.1.count e ≤ 1 := by
  have := (run_good p h).2 e
  have := phi_le_one p e
  omega

/-- cells never change once filled; text and options never change -/
theorem cells_stable (p : Pool W) (h : List (Op W)) : PoolLe p (run p h).1 := (run_good p h).1

theorem run_append (p : Pool W) (h1 h2 : List (Op W)) : (run p (h1 ++ h2)).1 = (run (run p h1).1 h2).1 := by
  induction h1 generalizing p with
  | nil => rfl
  | cons op ops ih =>
    simp only [List.cons_append, run]
    rcases step p op with ⟨p1, ev, o⟩
    simp only
    have := ih p1
    rcases hr : run p1 (ops ++ h2) with ⟨a, b, c⟩
    rw [hr] at this
    rcases hr2 : run p1 ops with ⟨a2, b2, c2⟩
    rw [hr2] at this
    simpa using this

/-! ## a repeated query answers what it answered the first time -/

def usedOut : LoadRes W.Err W.Loaded → Out W
  | .ok l => .val (W.used l)
  | .failEarly e => .err e
  | .failLate e => .err e

def checkOut : Except W.Err W.Compiled → Out W
  | .ok _ => .ok
  | .error e => .err e

def astOut (o : Obj W) : Except W.Err W.Compiled → Out W
  | .ok _ => (match o.loaded? with | some l => .val (W.ast l) | none => .noObj)
  | .error e => .err e

/-- receiver of a query answered from the receiver's once cells alone (`Validate` / `Example` also read the table) -/
def cellRecv : Op W → Option Nat
  | .len i => some i | .used i => some i | .check i => some i | .build i => some i | .getAST i => some i
  | _ => none

/-- the answer the cells of the receiver hold for a query, if they are filled -/
def cellOut (o : Obj W) : Op W → Option (Out W)
  | .len _ => o.lenC.map outOfVal
  | .used _ => o.loadC.map usedOut
  | .check _ => o.compC.map checkOut
  | .build _ => o.compC.map checkOut
  | .getAST _ => o.compC.map (astOut o)
  | _ => none

theorem loaded?_mono {o o' : Obj W} (h : o.le o') (hl : o.loadC.isSome) : o'.loaded? = o.loaded? := by
  cases hc : o.loadC with
  | none => simp [hc] at hl
  | some r => simp only [Obj.loaded?, hc, h.loadC r hc]

theorem cellOut_mono {o o' : Obj W} (h : o.le o') (q : Op W) (out : Out W) (hl : o.compC.isSome → o.loadC.isSome)
    (hq : cellOut o q = some out) : cellOut o' q = some out := by
  cases q with
  | len i => cases hc : o.lenC with
    | none => simp [cellOut, hc] at hq
    | some r => simpa [cellOut, hc, h.lenC r hc] using hq
  | used i => cases hc : o.loadC with
    | none => simp [cellOut, hc] at hq
    | some r => simpa [cellOut, hc, h.loadC r hc] using hq
  | check i => cases hc : o.compC with
    | none => simp [cellOut, hc] at hq
    | some r => simpa [cellOut, hc, h.compC r hc] using hq
  | build i => cases hc : o.compC with
    | none => simp [cellOut, hc] at hq
    | some r => simpa [cellOut, hc, h.compC r hc] using hq
  | getAST i => cases hc : o.compC with
    | none => simp [cellOut, hc] at hq
    | some r =>
      have hl' := loaded?_mono h (hl (by simp [hc]))
      simp only [cellOut, hc, h.compC r hc, Option.map_some] at hq ⊢
      cases r <;> simp_all [astOut]
  | _ => simp [cellOut] at hq

/-- a filled cell answers the query, whatever else the pool holds -/
theorem step_of_cells (p : Pool W) (q : Op W) (i : Nat) (o : Obj W) (out : Out W) (hr : cellRecv q = some i)
    (ho : p[i]? = some o) (hq : cellOut o q = some out) : (step p q).2.2 = out := by
  cases q with
  | len j =>
    simp only [cellRecv, Option.some.injEq] at hr; subst hr
    cases hc : o.lenC with
    | none => simp [cellOut, hc] at hq
    | some r =>
      simp only [cellOut, hc, Option.map_some, Option.some.injEq] at hq
      simp only [step, ensureLen, ho, hc]; exact hq
  | used j =>
    simp only [cellRecv, Option.some.injEq] at hr; subst hr
    cases hc : o.loadC with
    | none => simp [cellOut, hc] at hq
    | some r =>
      simp only [cellOut, hc, Option.map_some, Option.some.injEq] at hq
      simp only [step, ensureLoad, ho, hc]
      cases r <;> exact hq
  | check j =>
    simp only [cellRecv, Option.some.injEq] at hr; subst hr
    cases hc : o.compC with
    | none => simp [cellOut, hc] at hq
    | some r =>
      simp only [cellOut, hc, Option.map_some, Option.some.injEq] at hq
      simp only [step, ensureCompile_cached p j o ho r hc]
      cases r <;> exact hq
  | build j =>
    simp only [cellRecv, Option.some.injEq] at hr; subst hr
    cases hc : o.compC with
    | none => simp [cellOut, hc] at hq
    | some r =>
      simp only [cellOut, hc, Option.map_some, Option.some.injEq] at hq
      simp only [step, ensureCompile_cached p j o ho r hc]
      cases r <;> exact hq
  | getAST j =>
    simp only [cellRecv, Option.some.injEq] at hr; subst hr
    cases hc : o.compC with
    | none => simp [cellOut, hc] at hq
    | some r =>
      simp only [cellOut, hc, Option.map_some, Option.some.injEq] at hq
      simp only [step, ensureCompile_cached p j o ho r hc, ho]
      cases r <;> exact hq
  | _ => simp [cellRecv] at hr

theorem ensureLen_cell (p : Pool W) (j : Nat) (o : Obj W) (ho : p[j]? = some o) :
    ∃ o' r, (ensureLen p j).1[j]? = some o' ∧ o'.lenC = some r ∧ (ensureLen p j).2.2 = some r ∧
      (o.lenC = none → r = W.len o.text) := by
  unfold ensureLen
  simp only [ho]
  split
  · rename_i r hr
    exact ⟨o, r, ho, hr, rfl, fun h => by simp [h] at hr⟩
  · exact ⟨_, _, get_set_self _ ho, rfl, rfl, fun _ => rfl⟩

/-- after a cell query the receiver's cells hold its answer -/
theorem cells_after_step (p : Pool W) (q : Op W) (i : Nat) (o : Obj W) (hr : cellRecv q = some i)
    (ho : p[i]? = some o) : ∃ o', (step p q).1[i]? = some o' ∧ cellOut o' q = some (step p q).2.2 := by
  cases q with
  | len j =>
    simp only [cellRecv, Option.some.injEq] at hr; subst hr
    obtain ⟨o', r, h1, h2, h3, _⟩ := ensureLen_cell p j o ho
    simp only [step]
    rcases hE : ensureLen p j with ⟨a, b, c⟩
    rw [hE] at h1 h3; simp only at h1 h3; subst h3
    exact ⟨o', h1, by simp [cellOut, h2]⟩
  | used j =>
    simp only [cellRecv, Option.some.injEq] at hr; subst hr
    obtain ⟨o', r, h1, h2, h3, _⟩ := ensureLoad_cell p j o ho
    simp only [step]
    rcases hE : ensureLoad p j with ⟨a, b, c⟩
    rw [hE] at h1 h3; simp only at h1 h3; subst h3
    refine ⟨o', h1, ?_⟩
    simp only [cellOut, h2, Option.map_some]
    cases r <;> rfl
  | check j =>
    simp only [cellRecv, Option.some.injEq] at hr; subst hr
    obtain ⟨o', r, h1, h2, h3⟩ := ensureCompile_cell p j o ho
    simp only [step]
    rcases hE : ensureCompile p j with ⟨a, b, c⟩
    rw [hE] at h1 h3; simp only at h1 h3; subst h3
    refine ⟨o', h1, ?_⟩
    simp only [cellOut, h2, Option.map_some]
    cases r <;> rfl
  | build j =>
    simp only [cellRecv, Option.some.injEq] at hr; subst hr
    obtain ⟨o', r, h1, h2, h3⟩ := ensureCompile_cell p j o ho
    simp only [step]
    rcases hE : ensureCompile p j with ⟨a, b, c⟩
    rw [hE] at h1 h3; simp only at h1 h3; subst h3
    refine ⟨o', h1, ?_⟩
    simp only [cellOut, h2, Option.map_some]
    cases r <;> rfl
  | getAST j =>
    simp only [cellRecv, Option.some.injEq] at hr; subst hr
    obtain ⟨o', r, h1, h2, h3⟩ := ensureCompile_cell p j o ho
    simp only [step]
    rcases hE : ensureCompile p j with ⟨a, b, c⟩
    rw [hE] at h1 h3; simp only at h1 h3; subst h3
    refine ⟨o', h1, ?_⟩
    simp only [cellOut, h2, Option.map_some, h1]
    cases r <;> rfl
  | _ => simp [cellRecv] at hr

/-- objects whose compile cell is filled only after their load cell: true of fresh pools, kept by every call -/
def WF (p : Pool W) : Prop := ∀ (i : Nat) (o : Obj W), p[i]? = some o → o.compC.isSome → o.loadC.isSome

theorem wf_of_le {p p' : Pool W} (h : PoolLe p p') (hw : WF p) (i : Nat) (o o' : Obj W) (ho : p[i]? = some o)
    (ho' : p'[i]? = some o') : o'.compC.isSome → o'.loadC.isSome := by
  obtain ⟨o'', g, l⟩ := h i o ho
  rw [ho'] at g; cases g
  exact l.wf (hw i o ho)

/-- **a repeated query returns the first answer**: `q` (Len / UsedUserTypes / Check / Build / GetAST on an object of the
pool) asked after `h1`, then again after any further history `h2`, answers the same -/
theorem repeat_same (p : Pool W) (hw : WF p) (h1 h2 : List (Op W)) (q : Op W) (i : Nat) (o : Obj W)
    (hr : cellRecv q = some i) (ho : p[i]? = some o) :
    answer p (h1 ++ q :: h2) q = answer p h1 q := by
  unfold answer
  rw [run_append]
  obtain ⟨o1, g1, _⟩ := cells_stable p h1 i o ho
  generalize hP : (run p h1).1 = P at *
  have hwP : ∀ (o' : Obj W), P[i]? = some o' → o'.compC.isSome → o'.loadC.isSome := by
    intro o' ho'
    have := wf_of_le (cells_stable p h1) hw i o o' ho (by rw [hP]; exact ho')
    exact this
  simp only [run]
  obtain ⟨o2, g2, c2⟩ := cells_after_step P q i o1 hr g1
  rcases hS : step P q with ⟨P1, ev, out⟩
  rw [hS] at g2 c2; simp only at g2 c2
  rcases hR : run P1 h2 with ⟨P2, evs, outs⟩
  simp only
  obtain ⟨o3, g3, l3⟩ := cells_stable P1 h2 i o2 g2
  rw [hR] at g3; simp only at g3
  have hw2 : o2.compC.isSome → o2.loadC.isSome := by
    have hle : PoolLe P P1 := by have := (step_good P q).1; rw [hS] at this; exact this
    obtain ⟨o2', g2', l2'⟩ := hle i o1 g1
    rw [g2] at g2'; cases g2'
    exact l2'.wf (hwP o1 g1)
  exact step_of_cells P2 q i o3 out hr g3 (cellOut_mono l3 q out hw2 c2)

/-! ## the answers are functions of the object's own inputs -/

def mkPool (specs : List (W.Text × Bool)) : Pool W := specs.map fun s => Obj.new s.1 s.2

theorem mkPool_get (specs : List (W.Text × Bool)) (i : Nat) (s : W.Text × Bool) (hs : specs[i]? = some s) :
    (mkPool specs : Pool W)[i]? = some (Obj.new s.1 s.2) := by
  simp [mkPool, hs]

theorem mkPool_wf (specs : List (W.Text × Bool)) : WF (mkPool specs : Pool W) := by
  intro i o ho hc
  simp only [mkPool, List.getElem?_map] at ho
  cases hs : specs[i]? with
  | none => simp [hs] at ho
  | some s => simp [hs] at ho; subst ho; simp [Obj.new] at hc

/-- the receiver after `h` and then the query `q`: later than the fresh object -/
theorem after_query (specs : List (W.Text × Bool)) (h : List (Op W)) (q : Op W) (i : Nat) (s : W.Text × Bool)
    (hs : specs[i]? = some s) (hr : cellRecv q = some i) :
    ∃ o' : Obj W, (Obj.new s.1 s.2 : Obj W).le o' ∧ cellOut o' q = some (answer (mkPool specs) h q) := by
  obtain ⟨o1, g1, l1⟩ := cells_stable (mkPool specs) h i _ (mkPool_get specs i s hs)
  obtain ⟨o2, g2, c2⟩ := cells_after_step (run (mkPool specs) h).1 q i o1 hr g1
  obtain ⟨o2', g2', l2⟩ := (step_good (run (mkPool specs) h).1 q).1 i o1 g1
  rw [g2] at g2'; cases g2'
  exact ⟨o2, Obj.le_trans l1 l2, c2⟩

/-- **`Len` is history-free**: after any history, on any object of a pool of fresh objects, it answers the len stage
applied to the object's own text -/
theorem len_history_free (specs : List (W.Text × Bool)) (h : List (Op W)) (i : Nat) (s : W.Text × Bool)
    (hs : specs[i]? = some s) : answer (mkPool specs) h (.len i) = outOfVal (W.len s.1) := by
  obtain ⟨o', l, c⟩ := after_query specs h (.len i) i s hs rfl
  have hspec := l.lenSpec (by intro r hr; simp [Obj.new] at hr)
  cases hc : o'.lenC with
  | none => simp [cellOut, hc] at c
  | some r =>
    simp only [cellOut, hc, Option.map_some, Option.some.injEq] at c
    rw [← c, hspec r hc, l.text]; rfl

/-- **`UsedUserTypes` is a function of the object's own text, options and rules**: after any history it answers the load
stage applied to the object's own text and options and a rule list `rs` which is the list of rules the object holds
(`AddRule` is refused after a load that set `inner`), and is `[]` if the object holds no rule -/
theorem used_function_of_inputs (specs : List (W.Text × Bool)) (h : List (Op W)) (i : Nat) (s : W.Text × Bool)
    (hs : specs[i]? = some s) :
    ∃ (o' : Obj W) (rs : List (String × W.Rule)),
      answer (mkPool specs) h (.used i) = usedOut (W.load s.1 s.2 rs) ∧
      ((∀ e, W.load s.1 s.2 rs ≠ .failEarly e) → rs = o'.rules) ∧ (o'.rules = [] → rs = []) ∧
      (step (run (mkPool specs) h).1 (.used i)).1[i]? = some o' := by
  obtain ⟨o1, g1, l1⟩ := cells_stable (mkPool specs) h i _ (mkPool_get specs i s hs)
  obtain ⟨o2, g2, c2⟩ := cells_after_step (run (mkPool specs) h).1 (.used i) i o1 rfl g1
  obtain ⟨o2', g2', l2⟩ := (step_good (run (mkPool specs) h).1 (.used i)).1 i o1 g1
  rw [g2] at g2'; cases g2'
  have l := Obj.le_trans l1 l2
  have hspec : LoadSpec o2 := l.loadSpec (by intro r hr; simp [Obj.new] at hr)
  cases hc : o2.loadC with
  | none => simp [cellOut, hc] at c2
  | some r =>
    simp only [cellOut, hc, Option.map_some, Option.some.injEq] at c2
    obtain ⟨rs, e1, e2, e3⟩ := hspec r hc
    have ht : o2.text = s.1 := l.text
    have hp : o2.opt = s.2 := l.opt
    rw [ht, hp] at e1
    refine ⟨o2, rs, ?_, ?_, e3, g2⟩
    · unfold answer; rw [← c2, e1]
    · intro hne; exact e2 (by rw [e1]; exact hne)

/-! ## the compile-stage answers are fixed by the first compiling call -/

/-- receiver of a method that runs `compile()` -/
def compRecv : Op W → Option Nat
  | .check i => some i | .build i => some i | .getAST i => some i | .example i => some i | .validate i _ => some i
  | _ => none

theorem compiling_step_pool (P : Pool W) (c : Op W) (i : Nat) (hc : compRecv c = some i) :
    (step P c).1 = (ensureCompile P i).1 := by
  cases c with
  | check j | build j | getAST j | «example» j | validate j d =>
    simp only [compRecv, Option.some.injEq] at hc
    subst hc; simp only [step]
  | len j | used j | addType j n k | addRule j n r => simp [compRecv] at hc

theorem check_answer (P : Pool W) (i : Nat) :
    (step P (.check i)).2.2 = (match (ensureCompile P i).2.2 with | some r => checkOut r | none => .noObj) ∧
    (step P (.build i)).2.2 = (match (ensureCompile P i).2.2 with | some r => checkOut r | none => .noObj) := by
  simp only [step]
  rcases ensureCompile P i with ⟨a, b, d⟩
  cases d with
  | none => exact ⟨rfl, rfl⟩
  | some r => cases r <;> exact ⟨rfl, rfl⟩

/-- **the first compiling call fixes the verdict**: once ANY method that compiles (`Check`, `Build`, `GetAST`,
`Example`, `Validate`) was called on object `i` after the history `h1`, `Check` / `Build` on `i` answer — after every
further history `h2` — what they would have answered at that moment: the compile stage applied to the pool as it was
after `h1` (tables included), or the cached load error. Nothing called later (`AddType` on `i` or on its types, calls on
other objects) changes it. -/
theorem compile_fixes (p : Pool W) (h1 h2 : List (Op W)) (c q : Op W) (i : Nat) (o : Obj W)
    (hc : compRecv c = some i) (hq : q = .check i ∨ q = .build i) (ho : p[i]? = some o) :
    answer p (h1 ++ c :: h2) q = answer p h1 q := by
  unfold answer
  rw [run_append]
  obtain ⟨o1, g1, _⟩ := cells_stable p h1 i o ho
  generalize (run p h1).1 = P at *
  simp only [run]
  have hP := compiling_step_pool P c i hc
  obtain ⟨o3, r, h3, hc3, hr3⟩ := ensureCompile_cell P i o1 g1
  rcases hS : step P c with ⟨P1, ev, out⟩
  rw [hS] at hP; simp only at hP; subst hP
  rcases hR : run (ensureCompile P i).1 h2 with ⟨P2, evs, outs⟩
  simp only
  obtain ⟨o4, g4, l4⟩ := cells_stable (ensureCompile P i).1 h2 i o3 h3
  rw [hR] at g4; simp only at g4
  have hq' : cellRecv q = some i := by rcases hq with h | h <;> subst h <;> rfl
  have hout : (step P q).2.2 = checkOut r := by
    have := check_answer P i
    rw [hr3] at this
    rcases hq with h | h <;> subst h
    · exact this.1
    · exact this.2
  rw [hout]
  apply step_of_cells P2 q i o4 (checkOut r) hq' g4
  have : o4.compC = some r := l4.compC r hc3
  rcases hq with h | h <;> subst h <;> simp [cellOut, this]

/-- what the compile cell of `i` holds after its first compiling call on the pool `P`: the compile stage applied to the
view of the pool after `i`'s load, with `i`'s table hoisted — or the load error -/
def compileValue (P : Pool W) (i : Nat) : Option (Except W.Err W.Compiled) :=
  let P1 := (ensureLoad P i).1
  match P1[i]?, (ensureLoad P i).2.2 with
  | some o1, some (.ok _) => some (W.compile i (view (P1.set i { o1 with types := hoisted P1 i o1.types })))
  | some _, some (.failEarly e) => some (.error e)
  | some _, some (.failLate e) => some (.error e)
  | _, _ => none

theorem ensureCompile_value (P : Pool W) (i : Nat) (o : Obj W) (ho : P[i]? = some o) (hc : o.compC = none) :
    (ensureCompile P i).2.2 = compileValue P i := by
  obtain ⟨o1, r1, h1, hl, hr, _, _, hc1, _, _⟩ := ensureLoad_cell P i o ho
  unfold ensureCompile compileValue
  simp only [ho, hc]
  rcases hE : ensureLoad P i with ⟨p1, ev1, lr⟩
  rw [hE] at h1 hr
  simp only at h1 hr
  subst hr
  simp only [h1]
  cases r1 with
  | ok l => simp only [compileBody, get_set_self _ h1]
  | failEarly e => rfl
  | failLate e => rfl

/-! ## order of calls: the clean statement and its refutation -/

/-- receiver of a set-up call -/
def setupRecv : Op W → Option Nat
  | .addType i _ _ => some i | .addRule i _ _ => some i
  | _ => none

/-- the set-up calls on receiver `i`, in their order -/
def setupOf (h : List (Op W)) (i : Nat) : List (Op W) := h.filter (fun op => setupRecv op == some i)

/-- every set-up call comes before its receiver's first compiling call (`cs` = receivers compiled so far) -/
def setupFirst : List (Op W) → List Nat → Bool
  | [], _ => true
  | op :: ops, cs =>
    (match setupRecv op with | some i => !cs.contains i | none => true) &&
      setupFirst ops (match compRecv op with | some i => i :: cs | none => cs)

/-- the clean order-freedom statement: same set-up per receiver (same calls, same relative order, all before the
receiver's first compiling call), same query ⇒ same answer, whatever the interleaving -/
def OrderFree (W : World) : Prop :=
  ∀ (specs : List (W.Text × Bool)) (h1 h2 : List (Op W)) (q : Op W),
    (∀ i, setupOf h1 i = setupOf h2 i) → setupFirst h1 [] = true → setupFirst h2 [] = true → setupRecv q = none →
    answer (mkPool specs) h1 q = answer (mkPool specs) h2 q

/-- a world whose compile succeeds iff the receiver's table (after hoisting) has exactly two entries -/
@[reducible] def W2 : World where
  Text := Unit
  Err := Nat
  Loaded := Unit
  Compiled := Unit
  Rule := Unit
  Doc := Unit
  Val := Nat
  load := fun _ _ _ => .ok ()
  emptyRoot := fun _ => false
  validName := fun _ => true
  ruleCheck := fun _ => none
  compile := fun i v => match v[i]? with
    | some (_, t) => if t.length == 2 then .ok () else .error t.length
    | none => .error 99
  len := fun _ => .ok 0
  ast := fun _ => 1
  used := fun _ => 2
  exampleF := fun _ _ _ => .ok 3
  validate := fun _ _ _ _ => none

def specs3 : List (W2.Text × Bool) := [((), false), ((), false), ((), false)]
/-- root 0 gets the type `@t` = object 1, object 1 gets the type `@u` = object 2, then `Check` on the root -/
def hA : List (Op W2) := [.addType 0 "@t" 1, .addType 1 "@u" 2, .check 0]
/-- the same calls, the `AddType` on the TYPE object after the root's `Check` -/
def hB : List (Op W2) := [.addType 0 "@t" 1, .check 0, .addType 1 "@u" 2]

theorem hA_answer : answer (mkPool specs3) hA (.check 0) = .ok := by rfl
theorem hB_answer : answer (mkPool specs3) hB (.check 0) = .err 1 := by rfl

/-- the clean statement is false: the table a compile sees includes the tables of the added objects AS THEY ARE WHEN THE
ROOT COMPILES (hoisting, `loader.AddUnnamedTypes`), so an `AddType` on a type object counts only if it comes before the
first compile of every root that holds it -/
theorem not_orderFree : ¬ OrderFree W2 := by
  intro h
  have := h specs3 hA hB (.check 0)
    (by intro i; rcases i with _ | _ | i <;> rfl) (by rfl) (by rfl) (by rfl)
  rw [hA_answer, hB_answer] at this
  cases this

/-! ## which `AddType` calls are in the table of the first compile -/

def typesOf (p : Pool W) (i : Nat) : Table := match p[i]? with | some o => o.types | none => []

/-- the entry a call contributes to the table of `i`: an `AddType` on receiver `i` that answered nil -/
def addOf (i : Nat) : Op W → Out W → Table
  | .addType i' n j, .ok => if i' = i then [(n, j)] else []
  | _, _ => []

/-- closed form over a history and its answers -/
def tableAt (i : Nat) : List (Op W) → List (Out W) → Table
  | op :: ops, o :: os => addOf i op o ++ tableAt i ops os
  | _, _ => []

theorem typesOf_set_same {p : Pool W} {j : Nat} {o : Obj W} (o' : Obj W) (i : Nat) (ho : p[j]? = some o)
    (ht : o'.types = o.types) : typesOf (p.set j o') i = typesOf p i := by
  by_cases hij : j = i
  · subst hij; simp only [typesOf, get_set_self o' ho, ho, ht]
  · simp only [typesOf, get_set_ne o' hij]

theorem ensureLoad_types (p : Pool W) (j i : Nat) : typesOf (ensureLoad p j).1 i = typesOf p i := by
  unfold ensureLoad
  split
  · rfl
  · rename_i o ho
    split
    · rfl
    · exact typesOf_set_same _ i ho rfl

theorem ensureLen_types (p : Pool W) (j i : Nat) : typesOf (ensureLen p j).1 i = typesOf p i := by
  unfold ensureLen
  split
  · rfl
  · rename_i o ho
    split
    · rfl
    · exact typesOf_set_same _ i ho rfl

theorem putRule_types (p : Pool W) (j : Nat) (n : String) (r : W.Rule) (i : Nat) :
    typesOf (putRule p j n r) i = typesOf p i := by
  unfold putRule
  split
  · rfl
  · rename_i o ho
    split
    · rfl
    · rfl
    · exact typesOf_set_same _ i ho rfl

theorem ensureLoad_get_ne (p : Pool W) (k i : Nat) (hki : k ≠ i) : (ensureLoad p k).1[i]? = p[i]? := by
  unfold ensureLoad
  split
  · rfl
  · split
    · rfl
    · exact get_set_ne _ hki

theorem ensureCompile_get_ne (p : Pool W) (k i : Nat) (hki : k ≠ i) : (ensureCompile p k).1[i]? = p[i]? := by
  unfold ensureCompile
  split
  · rfl
  · split
    · rfl
    · rcases hE : ensureLoad p k with ⟨p1, ev1, lr⟩
      have h1 : p1[i]? = p[i]? := by have := ensureLoad_get_ne p k i hki; rw [hE] at this; exact this
      simp only
      split
      · simp only [compileBody]; split <;> simp [get_set_ne, hki, h1]
      · simp [get_set_ne, hki, h1]
      · simp [get_set_ne, hki, h1]
      · exact h1

theorem ensureCompile_types (p : Pool W) (k i : Nat) (hc : (ensureCompile p k).2.1.count (.compile i) = 0) :
    typesOf (ensureCompile p k).1 i = typesOf p i := by
  by_cases hki : k = i
  · subst hki
    cases ho : p[k]? with
    | none => rw [ensureCompile_noobj p k ho]
    | some o =>
      cases hcc : o.compC with
      | some r => rw [ensureCompile_cached p k o ho r hcc]
      | none =>
        obtain ⟨p3, o3, r, hE, _⟩ := ensureCompile_fresh p k o ho hcc
        rw [hE] at hc
        simp [List.count_append] at hc
  · simp only [typesOf, ensureCompile_get_ne p k i hki]

theorem addEntry_types (p : Pool W) (k : Nat) (n : String) (j i : Nat) :
    typesOf (addEntry p k n j).1 i = typesOf p i ++ addOf i (.addType k n j) (addEntry p k n j).2 := by
  unfold addEntry
  split
  · simp [addOf]
  · rename_i o ho
    split
    · simp [addOf]
    · split
      · simp [addOf]
      · simp only [addOf]
        by_cases hki : k = i
        · subst hki; simp [typesOf, get_set_self _ ho, ho]
        · simp [typesOf, get_set_ne _ hki, hki]

theorem step_types (p : Pool W) (op : Op W) (i : Nat) (hc : (step p op).2.1.count (.compile i) = 0) :
    typesOf (step p op).1 i = typesOf p i ++ addOf i op (step p op).2.2 := by
  cases op with
  | len k =>
    simp only [step, addOf, List.append_nil]
    have := ensureLen_types p k i
    rcases hE : ensureLen p k with ⟨a, b, c⟩; rw [hE] at this; exact this
  | used k =>
    simp only [step, addOf, List.append_nil]
    have := ensureLoad_types p k i
    rcases hE : ensureLoad p k with ⟨a, b, c⟩; rw [hE] at this; exact this
  | check k | build k | getAST k | «example» k | validate k d =>
    simp only [step] at hc ⊢
    have := ensureCompile_types p k i
    rcases hE : ensureCompile p k with ⟨a, b, c⟩
    rw [hE] at this hc
    simp only [addOf, List.append_nil] at *
    exact this hc
  | addRule k n r =>
    simp only [step]
    split
    · simp [addOf]
    · split
      · simp [addOf]
      · simp [addOf]
      · split
        · simp [addOf]
        · split
          · simp [addOf]
          · simp [addOf, putRule_types]
  | addType k n j =>
    simp only [step]
    have t1 := ensureLoad_types p k i
    rcases h1 : ensureLoad p k with ⟨p1, ev1, r1⟩
    rw [h1] at t1; simp only at t1 ⊢
    cases r1 with
    | none => simp [addOf, t1]
    | some r1 =>
      cases r1 with
      | failEarly e => simp [addOf, t1]
      | failLate e => simp [addOf, t1]
      | ok l1 =>
        simp only
        have t2 := ensureLoad_types p1 j i
        rcases h2 : ensureLoad p1 j with ⟨p2, ev2, r2⟩
        rw [h2] at t2; simp only at t2 ⊢
        cases r2 with
        | none => simp [addOf, t1, t2]
        | some r2 =>
          cases r2 with
          | failEarly e => simp [addOf, t1, t2]
          | failLate e => simp [addOf, t1, t2]
          | ok l =>
            simp only
            split
            · simp [addOf, t1, t2]
            · have t3 := addEntry_types p2 k n j i
              rcases h3 : addEntry p2 k n j with ⟨p3, o⟩
              rw [h3] at t3; simp only at t3 ⊢
              rw [t3, t2, t1]

/-- **the table of the first compile, in closed form**: as long as `i`'s compile body has not run, `i`'s table is its
initial table followed by exactly the `AddType` calls on receiver `i` that answered nil, in call order -/
theorem table_closed_form (p : Pool W) (h : List (Op W)) (i : Nat)
    (hc : (run p h).2.1.count (.compile i) = 0) :
    typesOf (run p h).1 i = typesOf p i ++ tableAt i h (run p h).2.2 := by
  induction h generalizing p with
  | nil => simp [run, tableAt]
  | cons op ops ih =>
    simp only [run] at hc ⊢
    have s1 := step_types p op i
    rcases h1 : step p op with ⟨p1, ev, o⟩
    rw [h1] at s1 hc; simp only at s1 hc ⊢
    have ih1 := ih p1
    rcases h2 : run p1 ops with ⟨p2, evs, os⟩
    rw [h2] at ih1 hc; simp only at ih1 hc ⊢
    simp only [List.count_append] at hc
    rw [ih1 (by omega), s1 (by omega)]
    simp [tableAt]

end SchemaObj
