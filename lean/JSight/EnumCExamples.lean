import JSight.EnumRouteEq
/-!
Non-vacuity witnesses for the C18 theorems on comments / exponents / named = inline: a concrete rule text with both
comment forms at every kind of place, and the same item list inline in both annotation forms.
-/
namespace EnumScan
open SchemaScan (Cls classify)

def bsOf (s : String) : List UInt8 := s.toUTF8.toList

/-- `␠[ // one⏎ 1 /* a*b */ , "a" //⏎ , true ] /* end */ ␠` -/
def xPre : List UInt8 := [32]
def xWs0 : LayB := [.blank 32, .inl [32] [111, 110, 101] 10, .blank 32]
def xItems : List ItemC :=
  [([], [49], [.blank 32, .ml [32] [97, 42, 98, 32], .blank 32]),
   ([.blank 32], [34, 97, 34], [.blank 32, .inl [] [] 10, .blank 32]),
   ([.blank 32], [116, 114, 117, 101], [.blank 32])]
def xPost : LayB := [.blank 32, .ml [32] [101, 110, 100, 32], .blank 32]

theorem xWs0_valid : xWs0.Valid := by
  intro p hp
  simp only [xWs0, List.mem_cons, List.not_mem_nil, or_false] at hp
  rcases hp with rfl | rfl | rfl
  · exact ⟨(by show (classify 32).isBlank = true; decide), trivial⟩
  · refine ⟨⟨by unfold IsSp; decide, ⟨by unfold NoNl; decide, by decide⟩⟩, by decide⟩
  · exact ⟨(by show (classify 32).isBlank = true; decide), trivial⟩

theorem blank32_valid : (PieceB.blank 32).Valid := ⟨(by show (classify 32).isBlank = true; decide), trivial⟩

theorem ml_valid (txt : List UInt8) (h1 : noClose (txt.map classify ++ [.star]) = true)
    (h2 : ∀ c, (txt.map classify).head? = some c → c.isBlank = false) : (PieceB.ml [32] txt).Valid :=
  ⟨⟨by unfold IsWs; decide, h1, h2⟩, trivial⟩

theorem xPost_valid : xPost.Valid := by
  intro p hp
  simp only [xPost, List.mem_cons, List.not_mem_nil, or_false] at hp
  rcases hp with rfl | rfl | rfl
  · exact blank32_valid
  · exact ml_valid _ (by decide) (by decide)
  · exact blank32_valid

theorem lay_nil_valid : LayB.Valid [] := by intro p hp; cases hp
theorem lay_sp_valid : LayB.Valid [.blank 32] := by
  intro p hp; simp only [List.mem_cons, List.not_mem_nil, or_false] at hp; subst hp; exact blank32_valid

theorem xItems_valid : GValidItemsC xItems := by
  have t1 : GTok (List.map classify [49]) := by
    have e : List.map classify [49] = (NumTok.mk false [.d19] none).render := by decide
    rw [e]
    exact GTok.num _ ⟨Or.inr ⟨[], rfl, by intro c hc; simp at hc⟩, by intro d ds h; cases h⟩
  have t2 : GTok (List.map classify [34, 97, 34]) := by
    have e : List.map classify [34, 97, 34] = .quote :: ([.la] ++ [.quote]) := by decide
    rw [e]
    exact GTok.str _ (.plain _ _ rfl .nil)
  have t3 : GTok (List.map classify [116, 114, 117, 101]) := by
    have e : List.map classify [116, 114, 117, 101] = [.lt, .lr, .lu, .le] := by decide
    rw [e]
    exact GTok.wtrue
  intro it hit
  simp only [xItems, List.mem_cons, List.not_mem_nil, or_false] at hit
  rcases hit with rfl | rfl | rfl
  · refine ⟨lay_nil_valid, t1, ?_⟩
    intro p hp
    simp only [List.mem_cons, List.not_mem_nil, or_false] at hp
    rcases hp with rfl | rfl | rfl
    · exact blank32_valid
    · exact ml_valid _ (by decide) (by decide)
    · exact blank32_valid
  · refine ⟨lay_sp_valid, t2, ?_⟩
    intro p hp
    simp only [List.mem_cons, List.not_mem_nil, or_false] at hp
    rcases hp with rfl | rfl | rfl
    · exact blank32_valid
    · refine ⟨⟨by unfold IsSp; decide, ⟨by unfold NoNl; decide, by decide⟩⟩, by decide⟩
    · exact blank32_valid
  · exact ⟨lay_sp_valid, t3, lay_sp_valid⟩

theorem xPre_ws : IsWsB xPre := by unfold IsWsB IsWs; decide

#eval String.fromUTF8! ⟨(renderEnumC xPre xWs0 xItems xPost).toArray⟩
#eval (match scanAll (renderEnumC xPre xWs0 xItems xPost) with
  | .ok evs => evs == enumEvsC xPre xWs0 xItems xPost
  | _ => false)
#eval length (renderEnumC xPre xWs0 xItems xPost)
#eval (rtrimB (renderEnumC xPre xWs0 xItems xPost)).length
#eval String.fromUTF8! ⟨(renderEnum xPre (LayB.blankOut xWs0) (xItems.map blankItem) (LayB.blankOut xPost)).toArray⟩

end EnumScan

namespace EnumRoute
open SchemaScan (Cls classify Ann)
open EnumScan (xPre xWs0 xItems xPost)

/-- `1 // { enum : [ 1, "a" ,true ] }` -/
def xObj : BEObj := ⟨[32], 1, [32], [32], [([], [49], []), ([32], [34, 97, 34], [32]), ([], [116, 114, 117, 101], [32])], [32]⟩

#eval String.fromUTF8! ⟨(inlineText .inline [49] [32] [32] xObj [] []).toArray⟩
#eval String.fromUTF8! ⟨(inlineText .multi [49] [32] [10] xObj [10] [42, 47, 10]).toArray⟩
#eval (match routeInline (inlineText .inline [49] [32] [32] xObj [] []),
        ruleValues (EnumScan.renderEnumC xPre xWs0 xItems xPost) with
  | .ok [cB], .ok vs => (match appendValues 0 { ruleName := [64, 69] } vs with
      | .ok cA => (proj cA == proj cB, cA.items.map CItem.src, cA.items.map CItem.comment)
      | _ => (false, [], []))
  | _, _ => (false, [], []))

theorem xItems_guessable : ∀ it ∈ xItems, Guessable it.2.1 := by
  intro it hit
  simp only [EnumScan.xItems, List.mem_cons, List.not_mem_nil, or_false] at hit
  rcases hit with rfl | rfl | rfl <;> exact ⟨by decide +kernel, by decide +kernel⟩

theorem xObj_valid (a : Ann) (ha : a.isAnn = true) : xObj.cls.Valid a := by
  have hb : ∀ (l : List Cls), (∀ c ∈ l, c.isSpTab = true) → SchemaScan.ABlank a l := by
    intro l h c hc
    simp [Ann.okBlank, h c hc]
  refine ⟨hb _ (by decide), enumName_isName, hb _ (by decide), hb _ (by decide), ?_, hb _ (by decide)⟩
  intro it hit
  simp only [xObj, BEObj.cls, List.map_cons, List.map_nil, clsItem, List.mem_cons, List.not_mem_nil, or_false] at hit
  rcases hit with rfl | rfl | rfl
  · exact ⟨hb _ (by decide), ⟨.d19, [], .d1, false, .d1, rfl, rfl, rfl, rfl⟩, hb _ (by decide)⟩
  · exact ⟨hb _ (by decide), gtok_isScalar (by
      show EnumScan.GTok (List.map classify [34, 97, 34])
      have e : List.map classify [34, 97, 34] = .quote :: ([.la] ++ [.quote]) := by decide
      rw [e]; exact EnumScan.GTok.str _ (.plain _ _ rfl .nil)), hb _ (by decide)⟩
  · exact ⟨hb _ (by decide), SchemaScan.true_isScalar, hb _ (by decide)⟩

theorem xInline_valid : InlineValid .inline [49] [32] [32] xObj [] [] :=
  ⟨⟨.d19, [], .d1, false, .d1, rfl, rfl, rfl, rfl⟩, by intro c hc; simp at hc; subst hc; rfl,
   by intro c hc; simp at hc; subst hc; rfl, xObj_valid .inline rfl, by intro c hc; simp at hc, .eof⟩

theorem xMulti_valid : InlineValid .multi [49] [32] [10] xObj [10] [42, 47, 10] :=
  ⟨⟨.d19, [], .d1, false, .d1, rfl, rfl, rfl, rfl⟩, by intro c hc; simp at hc; subst hc; rfl,
   by intro c hc; simp at hc; subst hc; rfl, xObj_valid .multi rfl, by intro c hc; simp at hc; subst hc; rfl,
   .close [.nl] (by intro c hc; simp at hc; subst hc; rfl)⟩

end EnumRoute
