import JSight.BridgeCR2Plain
/-!
Bridge (A)∩(B), second part: the end of `compileNode` on a node WITH a types list (a `type: "@t"` reference, an `or`
rule) or with `type: "any"` — the rule set is then restricted to `or` / `type` / `optional` / `nullable`, and the only
thing left to fail is `optional` outside an object (`core_restricted`, `tail_names`, `tail_any`).
-/
namespace BridgeCR
open Compile
open Loader (NK)

/-- (B) from the exclusive flags to the end -/
def restB (c : CR.Ctx) (m : CR.CMap) : Except CR.Code Unit :=
  CR.exclusiveMinimumConstraint m >>= fun m =>
  CR.exclusiveMaximumConstraint m >>= fun m => CR.checkPairConstraints m >>= fun m => CR.optionalConstraints c m >>= fun m =>
  CR.emptyArray c m >>= fun m => CR.allOfStep c m >>= fun m => CR.checkCompat c m

theorem tailB_eq (c : CR.Ctx) (m : CR.CMap) :
    tailB c m = CR.allowedConstraintCheck m >>= fun m => CR.anyConstraint c m >>= fun m => restB c m := rfl

theorem absent_of_others (frs : List Rule) (L : List String) (h : others frs L = 0) (s : String)
    (hs : (L.map sb).contains (sb s) = false) : hasRule frs s = false := by
  have h1 := others_ne frs L
  rw [h] at h1
  have h2 : (frs.any fun r => !(L.map sb).contains r.name) = false := by rw [← h1]; rfl
  unfold hasRule
  rw [List.any_eq_false] at h2 ⊢
  intro r hr hname
  have e : r.name = sb s := by simpa using hname
  have := h2 r hr
  rw [e, hs] at this
  simp at this

section
variable {frs : List Rule} {m : CR.CMap} {kind : NK} {jt : JT} {nch : Nat} {isProp : Bool} {c : CR.Ctx}

theorem core_restricted (G : Good frs) (hprop : c.isProp = isProp)
    (hres : others frs ["or", "optional", "nullable", "type"] = 0)
    (hopt : m.has .optional = hasRule frs "optional")
    (hrest : ∀ k, k ≠ .optional → k ≠ .nullable → k ≠ .typesList → k ≠ .any → m.has k = false)
    (any : Bool) (names : Option (List String)) (orShort : Bool) (hna : (names.isSome || any) = true) :
    Agree (outA (bPairs frs jt isProp any none names orShort)) (restB c m) := by
  have a1 := findRule_none frs "min" (absent_of_others frs _ hres "min" (by decide +kernel))
  have a3 := findRule_none frs "minLength" (absent_of_others frs _ hres "minLength" (by decide +kernel))
  have a5 := findRule_none frs "additionalProperties" (absent_of_others frs _ hres "additionalProperties" (by decide +kernel))
  have n1 : m .exclusiveMinimum = none := none_of_has (hrest _ (by decide) (by decide) (by decide) (by decide))
  have n2 : m .exclusiveMaximum = none := none_of_has (hrest _ (by decide) (by decide) (by decide) (by decide))
  have n3 : m .min = none := none_of_has (hrest _ (by decide) (by decide) (by decide) (by decide))
  have n5 : m .minLength = none := none_of_has (hrest _ (by decide) (by decide) (by decide) (by decide))
  have n7 : m .minItems = none := none_of_has (hrest _ (by decide) (by decide) (by decide) (by decide))
  have n8 : m .maxItems = none := none_of_has (hrest _ (by decide) (by decide) (by decide) (by decide))
  have n9 : m .allOf = none := none_of_has (hrest _ (by decide) (by decide) (by decide) (by decide))
  have hcompat : CR.checkCompat c m = .ok () := by
    unfold CR.checkCompat
    have : CR.CT.all.all (fun k => !m.has k || CR.compat k c.jt) = true := by
      rw [CR.all_iff]
      intro k
      by_cases k1 : k = .optional
      · subst k1; simp [CR.compat]
      · by_cases k2 : k = .nullable
        · subst k2; simp [CR.compat]
        · by_cases k3 : k = .typesList
          · subst k3; simp [CR.compat]
          · by_cases k4 : k = .any
            · subst k4; simp [CR.compat]
            · rw [hrest k k1 k2 k3 k4]; rfl
    rw [this]
    split <;> rfl
  have hB : restB c m = if hasRule frs "optional" && !isProp then .error 1101 else .ok () := by
    unfold restB CR.exclusiveMinimumConstraint CR.exclusiveMaximumConstraint
    simp only [n1, n2, bind_ok]
    unfold CR.checkPairConstraints CR.pairNum CR.pairNat
    simp only [n3, n5, n7, bind_ok_u, bind_ok]
    unfold CR.optionalConstraints
    rw [hopt, hprop]
    cases hc : (hasRule frs "optional" && !isProp)
    · simp only [Bool.false_eq_true, if_false, bind_ok]
      have e7 : CR.emptyArray c m = .ok m := by unfold CR.emptyArray; rw [n7, n8]; simp [CR.countNonZero]
      have e9 : CR.allOfStep c m = .ok m := by unfold CR.allOfStep; rw [n9]
      simp only [e7, e9, hcompat, bind_ok]
    · simp [bind_err]
  rw [hB]
  unfold bPairs bMinMax bLens bOptional
  simp only [a1, a3, a5, boolRule_optional G]
  cases hc : (hasRule frs "optional" && !isProp)
  · simp only [Bool.false_eq_true, if_false]
    cases hn : names with
    | none =>
      have : any = true := by simpa [hn] using hna
      subst this
      simp [bFinish, outA, pure, Except.pure, Agree]
    | some ns => simp [bFinish, outA, pure, Except.pure, Agree]
  · simp [outA, Agree, throw, throwThe, MonadExceptOf.throw]

/-- a node with a types list (`any = false`): `bAllowed` has nothing to object to -/
theorem tail_names (G : Good frs) (hprop : c.isProp = isProp)
    (hres : others frs ["or", "optional", "nullable", "type"] = 0)
    (hopt : m.has .optional = hasRule frs "optional")
    (hrest : ∀ k, k ≠ .optional → k ≠ .nullable → k ≠ .typesList → k ≠ .any → m.has k = false)
    (hany : m.has .any = false)
    (ns : List String) (orShort : Bool) :
    Agree (outA (bAllowed frs jt isProp nch false none (some ns) orShort)) (tailB c m) := by
  have e1 : CR.allowedConstraintCheck m = .ok m := by
    unfold CR.allowedConstraintCheck CR.hasFormat
    simp [hrest, hany]
  have e2 : CR.anyConstraint c m = .ok m := by
    unfold CR.anyConstraint
    simp [hany]
  rw [tailB_eq, e1, bind_ok, e2, bind_ok]
  unfold bAllowed
  have a1 := absent_of_others frs _ hres "exclusiveMinimum" (by decide +kernel)
  have a2 := absent_of_others frs _ hres "exclusiveMaximum" (by decide +kernel)
  simp only [Option.isSome_none, Bool.false_and, Bool.false_eq_true, if_false, a1, a2]
  exact core_restricted G hprop hres hopt hrest false (some ns) orShort rfl

end

end BridgeCR
