import JSight.CheckExample
/-!
C04, converse at the model level: with unique keys everywhere, `checked` holds *exactly* when the EXAMPLE
validates — the checker's conditions demand nothing beyond "the EXAMPLE obeys the rules".
-/
namespace VP
variable {L D : Type} (litOK : L → D → Bool) (ex : L → D)

mutual
/-- keys are unique in every object of the schema -/
def nodupAll : S L → Bool
  | .lit _ => true
  | .any => true
  | .arr items => nodupItems items
  | .obj props => keysNodup props && nodupProps props
def nodupItems : List (S L) → Bool
  | [] => true
  | s :: ss => nodupAll s && nodupItems ss
def nodupProps : List (String × Bool × S L) → Bool
  | [] => true
  | (_, _, s) :: ps => nodupAll s && nodupProps ps
end

mutual
theorem shape_checked (s : S L) (hn : nodupAll s = true) (h : shape litOK s (exampleOf ex s) = true) :
    checked litOK ex s = true := by
  cases s with
  | lit l => simpa [checked, exampleOf, shape] using h
  | any => simp [checked]
  | arr items =>
    simp only [nodupAll] at hn
    simp only [exampleOf, shape] at h
    simp only [checked]
    exact items_checked [] items hn (by simpa using h)
  | obj props =>
    simp only [nodupAll, Bool.and_eq_true] at hn
    simp only [exampleOf, shape, Bool.and_eq_true] at h
    simp only [checked, Bool.and_eq_true]
    exact ⟨props_checked props [] props rfl hn.1 hn.2 h.1, hn.1⟩
theorem items_checked (pre ss : List (S L)) (hn : nodupItems ss = true)
    (h : shapeItems litOK (pre ++ ss) pre.length (exampleItems ex ss) = true) : checkedItems litOK ex ss = true := by
  cases ss with
  | nil => simp [checkedItems]
  | cons s ss =>
    simp only [nodupItems, Bool.and_eq_true] at hn
    simp only [exampleItems, shapeItems, childAt_append, Bool.and_eq_true] at h
    simp only [checkedItems, Bool.and_eq_true]
    refine ⟨shape_checked s hn.1 h.1, items_checked (pre ++ [s]) ss hn.2 ?_⟩
    simpa [List.append_assoc] using h.2
theorem props_checked (props pre ps : List (String × Bool × S L)) (hp : props = pre ++ ps)
    (hk : keysNodup props = true) (hn : nodupProps ps = true)
    (h : shapeMembers litOK props (exampleProps ex ps) = true) : checkedProps litOK ex ps = true := by
  cases ps with
  | nil => simp [checkedProps]
  | cons p ps =>
    obtain ⟨k, r, s⟩ := p
    simp only [nodupProps, Bool.and_eq_true] at hn
    have hmem : (k, r, s) ∈ props := by rw [hp]; simp
    have hl := lookup_of_nodup props hk k r s hmem
    simp only [exampleProps, shapeMembers, hl, Bool.and_eq_true] at h
    simp only [checkedProps, Bool.and_eq_true]
    exact ⟨shape_checked s hn.1 h.1, props_checked props (pre ++ [(k, r, s)]) ps (by rw [hp]; simp) hk hn.2 h.2⟩
end

/-- C04 as an equivalence on the model: with unique keys, the checker's conditions hold iff the EXAMPLE validates -/
theorem C04_checked_iff (s : S L) (hn : nodupAll s = true) :
    checked litOK ex s = true ↔ validate litOK s (exampleOf ex s) = true := by
  constructor
  · exact C04_example_valid litOK ex s
  · intro h
    rw [C01_validate_iff_shape] at h
    exact shape_checked litOK ex s hn h

end VP
