import JSight.SchemaLenTokSim
/-!
C14: facts about the events `tstep` / `trun` deliver: none is `end-top`, and there are at most eight per byte.
-/
namespace SchemaScan
namespace Len

theorem noTop_cons (e : Ev) (l : List Ev) : noTop (e :: l) = (e.ty != .endTop && noTop l) := by
  simp [noTop]

theorem noTop_all {l : List Ev} : noTop l = true ↔ ∀ e ∈ l, e.ty ≠ .endTop := by
  simp [noTop]

theorem noTop_ruleEvs (r : CRule) (p : Nat) : noTop (r.evs p) = true := by
  simp only [CRule.evs, CRule.openEvs, CRule.closeEvs, noTop_append, noTop_cons, noTop_nlEvs]
  rfl

theorem noTop_rulesEvs : ∀ (rs : List CRule) (r : CRule) (p : Nat), noTop (rulesEvs p r rs) = true
  | [], r, p => noTop_ruleEvs r p
  | r' :: rs, r, p => by
    simp only [rulesEvs, noTop_append, noTop_ruleEvs, noTop_rulesEvs rs r']
    rfl

theorem noTop_objEvs (ob : CObj) (o : Nat) : noTop (ob.evs o) = true := by
  cases ob with
  | empty b0 => simp only [CObj.evs, noTop_append, noTop_nlEvs]; rfl
  | rules r rs tc =>
    cases tc <;> simp only [CObj.evs, tcEvs, noTop_append, noTop_rulesEvs, noTop_nlEvs] <;> rfl

theorem noTop_inlEvs (b : InlBody) (h : Nat) : noTop (b.evs h) = true := by
  cases b with
  | note s2 txt => rfl
  | obj s2 ob s3 nt =>
    cases nt with
    | none => simp only [InlBody.evs, noTop_cons, noTop_append, noTop_objEvs]; rfl
    | some p => obtain ⟨s4, txt⟩ := p; simp only [InlBody.evs, noTop_cons, noTop_append, noTop_objEvs]; rfl

theorem ruleEvs_length (r : CRule) (p : Nat) : (r.evs p).length ≤ 6 + r.render.length := by
  have h1 := nlEvs_length p r.b1
  have h2 := nlEvs_length (r.nameOff p + r.name.length + r.n2 + 1) r.b3
  have h3 := nlEvs_length (r.valOff p + r.val.length) r.b4
  simp only [CRule.evs, CRule.openEvs, CRule.closeEvs, List.length_append, List.length_cons, List.length_nil,
    CRule.render_length]
  omega

theorem rulesEvs_length : ∀ (rs : List CRule) (r : CRule) (p : Nat),
    (rulesEvs p r rs).length ≤ 7 * (renderRules r rs).length + 6
  | [], r, p => by have := ruleEvs_length r p; simp only [rulesEvs, renderRules]; omega
  | r' :: rs, r, p => by
    have h1 := ruleEvs_length r p
    have h2 := rulesEvs_length rs r' (p + r.render.length + 1)
    simp only [rulesEvs, renderRules, List.length_append, List.length_cons]
    omega

theorem objEvs_length (ob : CObj) (o : Nat) : (ob.evs o).length ≤ 7 * ob.body.length + 8 := by
  cases ob with
  | empty b0 =>
    have := nlEvs_length (o + 1) b0
    simp only [CObj.evs, CObj.body, List.length_append, List.length_cons, List.length_nil]; omega
  | rules r rs tc =>
    have h1 := rulesEvs_length rs r (o + 1)
    cases tc with
    | none => simp only [CObj.evs, CObj.body, tcEvs, renderTc, List.length_append, List.length_cons, List.length_nil]; omega
    | some b5 =>
      have h2 := nlEvs_length (o + 1 + (renderRules r rs).length + 1) b5
      simp only [CObj.evs, CObj.body, tcEvs, renderTc, List.length_append, List.length_cons, List.length_nil]; omega

theorem inlEvs_length (b : InlBody) (h : Nat) : (b.evs h).length ≤ 7 * b.render.length + 14 := by
  cases b with
  | note s2 txt => simp only [InlBody.evs, List.length_cons, List.length_nil]; omega
  | obj s2 ob s3 nt =>
    have h1 := objEvs_length ob (h + 2 + s2.length)
    cases nt with
    | none =>
      simp only [InlBody.evs, InlBody.render, noteTail, List.length_append, List.length_cons, List.length_nil]; omega
    | some p =>
      obtain ⟨s4, txt⟩ := p
      simp only [InlBody.evs, InlBody.render, noteTail, List.length_append, List.length_cons, List.length_nil]; omega

theorem nlStep_evs {c c' : TC} {evs : List Ev} (h : nlStep c = some (c', evs)) :
    noTop evs = true ∧ evs.length ≤ 1 := by
  unfold nlStep at h
  split at h <;> cases h
  exact ⟨rfl, Nat.le_refl _⟩

theorem preEvs_facts (ctx : VCtx) (o : Nat) : noTop (ctx.preEvs o) = true ∧ (ctx.preEvs o).length ≤ 1 := by
  cases ctx <;> exact ⟨rfl, by simp [VCtx.preEvs]⟩

theorem slotStep_evs {c c' : TC} {t : Tok} {evs : List Ev} (h : slotStep c t = some (c', evs)) (hw : t.WF) :
    noTop evs = true ∧ evs.length + 2 ≤ 8 * t.render.length := by
  cases t with
  | sp ch => simp only [slotStep] at h; split at h <;> cases h; exact ⟨rfl, by simp [Tok.render]⟩
  | nl => have := nlStep_evs h; exact ⟨this.1, by simp only [Tok.render, List.length_cons, List.length_nil]; omega⟩
  | cmt text =>
    simp only [slotStep] at h
    split at h
    · cases hn : nlStep { c with i := c.i + 1 + text.length } with
      | none => rw [hn] at h; cases h
      | some r =>
        rw [hn] at h
        simp only [Option.map_some, Option.some.injEq, Prod.mk.injEq] at h
        obtain ⟨_, rfl⟩ := h
        have := nlStep_evs hn
        refine ⟨by rw [noTop_cons, this.1]; rfl, ?_⟩
        simp only [Tok.render, List.length_cons, List.length_append, List.length_nil]; omega
    · cases h
  | ann b =>
    simp only [slotStep] at h
    split at h <;> cases h
    have := inlEvs_length b c.i
    refine ⟨noTop_inlEvs b c.i, ?_⟩
    simp only [Tok.render, List.length_cons, List.length_append, List.length_nil]; omega
  | scalar tok =>
    simp only [slotStep] at h
    cases hv : vctxOf c.st <;> rw [hv] at h <;> cases h
    rename_i ctx
    obtain ⟨c0, tl, _, _, _, rfl, _⟩ := hw
    have := preEvs_facts ctx c.i
    refine ⟨by rw [noTop_append, this.1]; rfl, ?_⟩
    simp only [Tok.render, List.length_cons, List.length_append, List.length_nil]; omega
  | key k =>
    simp only [slotStep] at h
    split at h <;> cases h
    obtain ⟨tl, rfl, _⟩ := hw
    exact ⟨rfl, by simp only [Tok.render, List.length_cons, List.length_nil]; omega⟩
  | lbrace =>
    simp only [slotStep] at h
    cases hv : vctxOf c.st <;> rw [hv] at h <;> cases h
    rename_i ctx
    have := preEvs_facts ctx c.i
    refine ⟨by rw [noTop_append, this.1]; rfl, ?_⟩
    simp only [Tok.render, List.length_cons, List.length_append, List.length_nil]; omega
  | lbrack =>
    simp only [slotStep] at h
    cases hv : vctxOf c.st <;> rw [hv] at h <;> cases h
    rename_i ctx
    have := preEvs_facts ctx c.i
    refine ⟨by rw [noTop_append, this.1]; rfl, ?_⟩
    simp only [Tok.render, List.length_cons, List.length_append, List.length_nil]; omega
  | rbrace => simp only [slotStep] at h; split at h <;> cases h <;> exact ⟨rfl, by simp [Tok.render]⟩
  | rbrack => simp only [slotStep] at h; split at h <;> cases h <;> exact ⟨rfl, by simp [Tok.render]⟩
  | comma => simp only [slotStep] at h; split at h <;> cases h <;> exact ⟨rfl, by simp [Tok.render]⟩
  | colon => simp only [slotStep] at h; split at h <;> cases h <;> exact ⟨rfl, by simp [Tok.render]⟩

theorem closePV_evs {c c' : TC} {evs : List Ev} (h : closePV c = some (c', evs)) :
    noTop evs = true ∧ evs.length ≤ 2 := by
  unfold closePV at h
  split at h
  · cases h
    rename_i lit b _
    cases lit <;> exact ⟨rfl, by simp [rootClosers]⟩
  · cases h
    rename_i lit b ck b2 R _
    cases lit <;> cases ck <;> exact ⟨rfl, by simp [closersOf]⟩
  · cases h

theorem tstep_evs {c c' : TC} {t : Tok} {evs : List Ev} (h : tstep c t = some (c', evs)) (hw : t.WF) :
    noTop evs = true ∧ evs.length ≤ 8 * t.render.length := by
  unfold tstep at h
  split at h
  · split at h
    · cases h
    · cases hc : closePV c with
      | none => rw [hc] at h; cases h
      | some r =>
        obtain ⟨c1, e1⟩ := r
        rw [hc] at h
        simp only at h
        cases hs : slotStep c1 t with
        | none => rw [hs] at h; cases h
        | some r2 =>
          rw [hs] at h
          simp only [Option.map_some, Option.some.injEq, Prod.mk.injEq] at h
          obtain ⟨_, rfl⟩ := h
          have h1 := closePV_evs hc
          have h2 := slotStep_evs hs hw
          refine ⟨by rw [noTop_append, h1.1, h2.1]; rfl, ?_⟩
          simp only [List.length_append]; omega
  · have := slotStep_evs h hw
    exact ⟨this.1, by omega⟩

theorem trun_evs : ∀ (toks : List Tok) (c c' : TC) (evs : List Ev), trun c toks = some (c', evs) →
    (∀ t ∈ toks, t.WF) → noTop evs = true ∧ evs.length ≤ 8 * (renderToks toks).length
  | [], c, c', evs, h, _ => by
    simp only [trun, Option.some.injEq, Prod.mk.injEq] at h
    obtain ⟨_, rfl⟩ := h
    exact ⟨rfl, Nat.zero_le _⟩
  | t :: ts, c, c', evs, h, hw => by
    simp only [trun] at h
    cases ht : tstep c t with
    | none => rw [ht] at h; cases h
    | some r =>
      obtain ⟨c1, e1⟩ := r
      rw [ht] at h
      simp only at h
      cases hr : trun c1 ts with
      | none => rw [hr] at h; cases h
      | some r2 =>
        obtain ⟨c2, e2⟩ := r2
        rw [hr] at h
        simp only [Option.map_some, Option.some.injEq, Prod.mk.injEq] at h
        obtain ⟨_, rfl⟩ := h
        have h1 := tstep_evs ht (hw t (by simp))
        have h2 := trun_evs ts c1 c2 e2 hr (fun x hx => hw x (by simp [hx]))
        refine ⟨by rw [noTop_append, h1.1, h2.1]; rfl, ?_⟩
        simp only [renderToks, List.length_append]; omega

end Len
end SchemaScan
