import JSight.BridgeCK3Lit
/-!
Bridge (A)∩(C), third part: **the reference-following loops**. (A) `Compile.allowed` against (C) `CK.collect` /
`CK.collectNames` (`collectAllowedJsonTypes`), (A) `Compile.exampleAlts` against (C) `CK.build` / `CK.buildNames`
(`buildList`): for ANY amounts of fuel on the two sides the outcomes are related (`RelE`) — either one of the two ran out
of fuel, or both stop with the same error code, or both return and the results correspond (the same set of allowed JSON
types; the same list of alternatives, each with the same verdict on the EXAMPLE token). Induction on (A)'s fuel; (C)'s
fuel is consumed per type entered, (A)'s per name read — no fuel bookkeeping is needed for the relation.
-/
namespace BridgeCK
open Compile

/-- outcomes of a reference-following loop, related up to fuel -/
inductive RelE {α β : Type} (R : α → β → Prop) : Except Err α → Except CK.Panic β → Prop
  | fuelA (w : String) (b : Except CK.Panic β) : RelE R (.error (.unsupported w)) b
  | fuelC (a : Except Err α) (w : String) : RelE R a (.error (.crash w))
  | ok (a : α) (b : β) (h : R a b) : RelE R (.ok a) (.ok b)
  | err (c : Nat) : RelE R (.error (.code c 0)) (.error (.raw c))

/-- a type name as it occurs in a types list: single-byte characters, not the name of an unnamed type (`#…`) -/
def nameOK (n : String) : Prop := byteChars n ∧ CK.isUnnamed (name n) = false

instance (n : String) : Decidable (nameOK n) := by unfold nameOK; infer_instance

/-- the two type tables answer alike on type names (the unnamed types `#…` of (C)'s table have no counterpart) -/
def EnvRelN (ts : Types) (env : CK.Env) : Prop :=
  ∀ n, nameOK n → env.lookup (name n) = (lookupT ts n).map fun cn => (dumpNode cn).hd

theorem envRelN_none {ts : Types} {env : CK.Env} (hE : EnvRelN ts env) (n : String) (hn : nameOK n) :
    (env.lookup (name n)).isNone = (lookupT ts n).isNone := by
  rw [hE n hn]; cases lookupT ts n <;> rfl

def joinC {σ : Type} (a : Except CK.Panic σ) (rest : σ → Except CK.Panic σ) : Except CK.Panic σ :=
  match a with
  | .error e => .error e
  | .ok s => rest s

/-- what the reference-following loops read of the root of a named type: a literal without the `email` validator, an
`any` node as `compileNode` builds it, an array, an object, or a node with a types list of single-byte names -/
def headOK : CN → Bool
  | .lit spec _ => noEmail spec
  | .any jt lit =>
    (match lit with
     | some l => jt == JT.ofKind l.kind && l.rules.isEmpty
     | none => jt == .obj || jt == .arr)
  | .arr _ _ _ => true
  | .obj _ _ _ _ => true
  | .ref names _ _ _ _ => names.all fun n => decide (nameOK n)

theorem contains_name : (l : List String) → (n : String) → (∀ x ∈ l, byteChars x) → byteChars n →
    (l.map name).contains (name n) = l.contains n
  | [], _, _, _ => rfl
  | x :: l, n, hl, hn => by
    have ih := contains_name l n (fun y hy => hl y (List.mem_cons_of_mem _ hy)) hn
    have hx : (name n == name x) = (n == x) := by
      by_cases e : n = x
      · subst e; rw [beq_self_eq_true, beq_self_eq_true]
      · have : name n ≠ name x := fun h => e (name_inj n x hn (hl x List.mem_cons_self) h)
        rw [beq_eq_false_iff_ne.2 this, beq_eq_false_iff_ne.2 e]
    simp only [List.map_cons, List.contains_cons, ih, hx]

theorem any_undefined {ts : Types} {env : CK.Env} (hE : EnvRelN ts env) : (names : List String) →
    (∀ n ∈ names, nameOK n) →
    ((names.map name).any fun n => (env.lookup n).isNone) = !(names.all fun n => (lookupT ts n).isSome)
  | [], _ => rfl
  | n :: ns, hb => by
    have := envRelN_none hE n (hb n List.mem_cons_self)
    have ih := any_undefined hE ns (fun x hx => hb x (List.mem_cons_of_mem _ hx))
    simp only [List.map_cons, List.any_cons, List.all_cons, this, ih]
    cases lookupT ts n <;> simp

/-! ### the dump of a type root, as the loops read it -/

theorem typesList_obj (nul : Bool) (add : Add) (m : List CK.Cn) (hm : CK.typesList? m = none) :
    CK.typesList? (nulCs nul ++ addCs add ++ m) = none := by
  rw [List.append_assoc, typesList_nul, typesList_add]
  exact hm

theorem head_plain : (t : CN) → headOK t = true → notRef t = true →
    ∃ j, t.jt = some j ∧ (dumpNode t).hd.info.jt = jtOf j ∧ ((dumpNode t).hd.info.nk == CK.NK.mixedValue) = false ∧
      CK.typesList? (dumpNode t).hd.info.cs = none
  | .lit spec bad, _, _ => ⟨JT.ofKind spec.kind, rfl, by simp only [dumpNode, CK.Node.hd], by simp only [dumpNode, CK.Node.hd]; rfl, by
      simp only [dumpNode, CK.Node.hd]
      rw [typesList_append_none _ _ (typesList_litCs spec)]
      cases bad <;> rfl⟩
  | .any jt lit, h, _ => by
    refine ⟨jt, rfl, by simp only [dumpNode, CK.Node.hd], ?_, ?_⟩
    · cases lit with
      | some l =>
        simp only [headOK, Bool.and_eq_true, beq_iff_eq] at h
        rw [h.1]
        simp only [dumpNode, CK.Node.hd]
        cases l.kind <;> rfl
      | none =>
        simp only [headOK, Bool.or_eq_true, beq_iff_eq] at h
        rcases h with h | h <;> subst h <;> rfl
    · simp only [dumpNode, CK.Node.hd]
      cases lit with
      | some l => simp only []; rw [typesList_nul]; rfl
      | none => rfl
  | .arr items nul bad, _, _ => ⟨.arr, rfl, by simp only [dumpNode, CK.Node.hd]; rfl, by simp only [dumpNode, CK.Node.hd]; rfl, by
      simp only [dumpNode, CK.Node.hd]
      rw [typesList_nul]
      cases bad <;> rfl⟩
  | .obj props add nul bad, _, _ => ⟨.obj, rfl, by simp only [dumpNode, CK.Node.hd]; rfl, by simp only [dumpNode, CK.Node.hd]; rfl, by
      simp only [dumpNode, CK.Node.hd]
      exact typesList_obj nul add _ (by cases bad <;> rfl)⟩
  | .ref _ _ _ _ _, _, h => by simp [notRef] at h

theorem collect_plain (env : CK.Env) (f : Nat) (fnd : List CK.Name) (i : CK.Info) (acc : List CK.JT)
    (hnk : (i.nk == CK.NK.mixedValue) = false) (htl : CK.typesList? i.cs = none) :
    CK.collect env (f + 1) fnd i acc = .ok (acc ++ [i.jt]) := by
  unfold CK.collect
  simp [hnk, htl]

/-! ### `collectAllowedJsonTypes` -/

def hereA (ts : Types) (fA : Nat) (found : List String) (name : String) (t : CN) : Except Err (Option (List JT)) :=
  match t with
  | .ref names _ jt _ _ =>
    if jt == .mixed then
      if names.all fun n => (lookupT ts n).isSome then .ok none else .error (.code 1302 0)
    else allowed ts fA (name :: found) names
  | t => .ok (some (t.jt.toList))

def joinA (a b : Except Err (Option (List JT))) : Except Err (Option (List JT)) :=
  match a with
  | .error e => .error e
  | .ok a =>
    match b with
    | .error e => .error e
    | .ok b =>
      .ok (match a, b with
        | some x, some y => some (x ++ y)
        | _, _ => none)

theorem allowed_cons (ts : Types) (fA : Nat) (found : List String) (n : String) (rest : List String) :
    allowed ts (fA + 1) found (n :: rest) =
      if found.contains n then .error (.code 1303 0)
      else match lookupT ts n with
        | none => .error (.code 1302 0)
        | some t => joinA (hereA ts fA found n t) (allowed ts fA found rest) := by
  rfl

theorem collectNames_cons (rec : List CK.Name → CK.Info → List CK.JT → Except CK.Panic (List CK.JT)) (env : CK.Env)
    (found : List CK.Name) (n : CK.Name) (ns : List CK.Name) (acc : List CK.JT) :
    CK.collectNames rec env found (n :: ns) acc =
      if found.contains n then .error (.raw 1303)
      else match env.lookup n with
        | none => .error (.raw 1302)
        | some t =>
          joinC (rec (n :: found) t.info acc) (fun acc' => CK.collectNames rec env found ns acc') := by
  rw [CK.collectNames]
  unfold joinC
  cases found.contains n
  · cases env.lookup n with
    | none => rfl
    | some t =>
      simp only [Bool.false_eq_true, if_false]
      cases rec (n :: found) t.info acc <;> rfl
  · rfl

/-- (A) returns the JSON types of this list (`none` = every type), (C) appends them to its accumulator -/
def RAllowed (acc : List CK.JT) : Option (List JT) → List CK.JT → Prop
  | some x, l => l = acc ++ x.map jtOf
  | none, l => ∃ l', l = acc ++ l' ∧ ∀ j ∈ CK.allTypes, j ∈ l'

theorem collect_step {acc : List CK.JT} {hA : Except Err (Option (List JT))} {hC : Except CK.Panic (List CK.JT)}
    (hrel : RelE (RAllowed acc) hA hC) {rA : Except Err (Option (List JT))}
    {rC : List CK.JT → Except CK.Panic (List CK.JT)} (hrest : ∀ acc', RelE (RAllowed acc') rA (rC acc')) :
    RelE (RAllowed acc) (joinA hA rA) (joinC hC rC) := by
  cases hrel with
  | fuelA w b => exact .fuelA _ _
  | fuelC a w => exact .fuelC _ _
  | err c => exact .err c
  | ok a l h =>
    have h2 := hrest l
    show RelE (RAllowed acc) (joinA (.ok a) rA) (rC l)
    generalize rC l = rc at h2
    cases h2 with
    | fuelA w b => exact .fuelA _ _
    | fuelC a' w => exact .fuelC _ _
    | err c => exact .err c
    | ok b l2 h2 =>
      refine .ok _ _ ?_
      cases a with
      | some x =>
        cases b with
        | some y =>
          simp only [RAllowed] at h h2 ⊢
          rw [h2, h]; simp
        | none =>
          simp only [RAllowed] at h h2 ⊢
          obtain ⟨l', e, hl'⟩ := h2
          exact ⟨x.map jtOf ++ l', by rw [e, h]; simp, fun j hj => List.mem_append_right _ (hl' j hj)⟩
      | none =>
        simp only [RAllowed] at h
        obtain ⟨l', e, hl'⟩ := h
        cases b with
        | some y =>
          simp only [RAllowed] at h2 ⊢
          exact ⟨l' ++ y.map jtOf, by rw [h2, e]; simp, fun j hj => List.mem_append_left _ (hl' j hj)⟩
        | none =>
          simp only [RAllowed] at h2 ⊢
          obtain ⟨l'', e2, _⟩ := h2
          exact ⟨l' ++ l'', by rw [e2, e]; simp, fun j hj => List.mem_append_left _ (hl' j hj)⟩

theorem hereA_plain (ts : Types) (fA : Nat) (found : List String) (n : String) (t : CN) (h : notRef t = true) :
    hereA ts fA found n t = .ok (some t.jt.toList) := by
  cases t <;> first | rfl | simp [notRef] at h

/-- **`Compile.allowed` and `CK.collectNames` are related, whatever the fuel** -/
theorem collect_rel (ts : Types) (env : CK.Env) (hE : EnvRelN ts env)
    (hT : ∀ n cn, lookupT ts n = some cn → headOK cn = true) :
    ∀ (fA fC : Nat) (found names : List String) (acc : List CK.JT), (∀ n ∈ names, nameOK n) →
      (∀ n ∈ found, nameOK n) →
      RelE (RAllowed acc) (allowed ts fA found names)
        (CK.collectNames (CK.collect env fC) env (found.map name) (names.map name) acc)
  | 0, _, _, _, _, _, _ => .fuelA _ _
  | fA + 1, _, found, [], acc, _, _ => .ok _ _ (by simp [RAllowed])
  | fA + 1, fC, found, n :: rest, acc, hn, hf => by
    have hnb : nameOK n := hn n List.mem_cons_self
    have hrestb : ∀ x ∈ rest, nameOK x := fun x hx => hn x (List.mem_cons_of_mem _ hx)
    rw [allowed_cons, List.map_cons, collectNames_cons, contains_name found n (fun x hx => (hf x hx).1) hnb.1, hE n hnb]
    cases hc : found.contains n
    · simp only [Bool.false_eq_true, if_false]
      cases hl : lookupT ts n with
      | none => exact .err 1302
      | some t =>
        have hh := hT n t hl
        simp only [Option.map_some]
        have hrest : ∀ acc', RelE (RAllowed acc') (allowed ts fA found rest)
            (CK.collectNames (CK.collect env fC) env (found.map name) (rest.map name) acc') :=
          fun acc' => collect_rel ts env hE hT fA fC found rest acc' hrestb hf
        cases fC with
        | zero => exact .fuelC _ _
        | succ fC' =>
          refine collect_step ?_ hrest
          by_cases hnr : notRef t = true
          · obtain ⟨j, hj, hjt, hnk, htl⟩ := head_plain t hh hnr
            rw [hereA_plain ts fA found n t hnr, collect_plain env fC' _ _ acc hnk htl, hj, hjt]
            exact .ok _ _ (by simp [RAllowed])
          · cases t with
            | ref names' nul jt ex os =>
              have hb' : ∀ x ∈ names', nameOK x := by
                simpa [headOK] using hh
              by_cases hm : jt = .mixed
              · subst hm
                have hC : CK.collect env (fC' + 1) (name n :: found.map name)
                    (dumpNode (.ref names' nul .mixed ex os)).hd.info acc =
                    if (names'.map name).any (fun x => (env.lookup x).isNone) then .error (.raw 1302)
                    else .ok (acc ++ CK.allTypes) := by
                  unfold CK.collect
                  simp only [dumpNode, CK.Node.hd, nkOfJT, beq_self_eq_true, if_true]
                  rfl
                rw [hC, any_undefined hE names' hb']
                simp only [hereA, beq_self_eq_true, if_true]
                cases names'.all fun x => (lookupT ts x).isSome
                · exact .err 1302
                · exact .ok _ _ ⟨CK.allTypes, rfl, fun j hj => hj⟩
              · have hmb : (jt == JT.mixed) = false := by simpa using hm
                have hC : CK.collect env (fC' + 1) (name n :: found.map name)
                    (dumpNode (.ref names' nul jt ex os)).hd.info acc =
                    CK.collectNames (CK.collect env fC') env ((n :: found).map name) (names'.map name) acc := by
                  unfold CK.collect
                  have : (nkOfJT jt == CK.NK.mixedValue) = false := by cases jt <;> first | rfl | exact absurd rfl hm
                  simp only [dumpNode, CK.Node.hd, this, Bool.false_eq_true, if_false]
                  rfl
                rw [hC]
                simp only [hereA, hmb, Bool.false_eq_true, if_false]
                exact collect_rel ts env hE hT fA fC' (n :: found) names' acc hb'
                  (fun x hx => by rcases List.mem_cons.1 hx with e | hx; exact e ▸ hnb; exact hf x hx)
            | lit _ _ => simp [notRef] at hnr
            | any _ _ => simp [notRef] at hnr
            | arr _ _ _ => simp [notRef] at hnr
            | obj _ _ _ _ => simp [notRef] at hnr
    · simp only [if_true]
      exact .err 1303

/-! ### `buildList` -/

def hereB (ts : Types) (tok : Bytes) (fA : Nat) (added : List String) (name : String) (t : CN) :
    Except Err (List String × List (Option Nat)) :=
  match t with
  | .ref names _ _ _ _ => exampleAlts ts tok fA (name :: added) names
  | .lit spec _ => .ok (name :: added, [litErr spec tok])
  | .any _ (some spec) => .ok (name :: added, [litErr spec tok])
  | _ => .ok (name :: added, [some 1201])

def joinB (a : Except Err (List String × List (Option Nat)))
    (rest : List String → Except Err (List String × List (Option Nat))) : Except Err (List String × List (Option Nat)) :=
  match a with
  | .error e => .error e
  | .ok (added', xs) =>
    match rest added' with
    | .error e => .error e
    | .ok (added'', ys) => .ok (added'', xs ++ ys)

theorem exampleAlts_cons (ts : Types) (tok : Bytes) (fA : Nat) (added : List String) (n : String) (rest : List String) :
    exampleAlts ts tok (fA + 1) added (n :: rest) =
      if added.contains n then exampleAlts ts tok fA added rest
      else match lookupT ts n with
        | none => .error (.code 1302 0)
        | some t => joinB (hereB ts tok fA added n t) (fun added' => exampleAlts ts tok fA added' rest) := by
  rfl

theorem buildNames_cons (rec : CK.Info → List CK.Name × List CK.Chk → Except CK.Panic (List CK.Name × List CK.Chk))
    (env : CK.Env) (n : CK.Name) (ns : List CK.Name) (added : List CK.Name) (l : List CK.Chk) :
    CK.buildNames rec env (n :: ns) (added, l) =
      if added.contains n then CK.buildNames rec env ns (added, l)
      else match env.lookup n with
        | none => .error (.raw 1302)
        | some t =>
          joinC (rec t.info (n :: added, l)) (fun st' => CK.buildNames rec env ns st') := by
  rw [CK.buildNames]
  unfold joinC
  cases added.contains n
  · cases env.lookup n with
    | none => rfl
    | some t =>
      simp only [Bool.false_eq_true, if_false]
      cases rec t.info (n :: added, l) <;> rfl
  · rfl

/-- (A) returns the names expanded so far and one verdict per alternative, (C) the same names and one checker per
alternative: each checker gives (A)'s verdict on the EXAMPLE token -/
def RAlts (tok : Bytes) (l : List CK.Chk) (a : List String × List (Option Nat)) (c : List CK.Name × List CK.Chk) : Prop :=
  c.1 = a.1.map name ∧ (∀ n ∈ a.1, nameOK n) ∧
    ∃ chks, c.2 = l ++ chks ∧ chks.map (CK.Chk.check noOracles (lexLit tok)) = a.2

theorem build_step {tok : Bytes} {l : List CK.Chk} {hA : Except Err (List String × List (Option Nat))}
    {hC : Except CK.Panic (List CK.Name × List CK.Chk)} (hrel : RelE (RAlts tok l) hA hC)
    {rA : List String → Except Err (List String × List (Option Nat))}
    {rC : List CK.Name × List CK.Chk → Except CK.Panic (List CK.Name × List CK.Chk)}
    (hrest : ∀ added' l', (∀ n ∈ added', nameOK n) → RelE (RAlts tok l') (rA added') (rC (added'.map name, l'))) :
    RelE (RAlts tok l) (joinB hA rA) (joinC hC rC) := by
  cases hrel with
  | fuelA w b => exact .fuelA _ _
  | fuelC a w => exact .fuelC _ _
  | err c => exact .err c
  | ok a c h =>
    obtain ⟨added', xs⟩ := a
    obtain ⟨c1, c2⟩ := c
    obtain ⟨h1, h2, chks, h3, h4⟩ := h
    simp only at h1 h2 h3 h4
    subst h1 h3
    have h5 := hrest added' (l ++ chks) h2
    show RelE (RAlts tok l) (joinB (.ok (added', xs)) rA) (rC (added'.map name, l ++ chks))
    generalize rC (added'.map name, l ++ chks) = rc at h5
    have hj : joinB (.ok (added', xs)) rA =
        (match rA added' with
         | .error e => .error e
         | .ok (added'', ys) => .ok (added'', xs ++ ys)) := rfl
    rw [hj]
    generalize rA added' = ra at h5
    cases h5 with
    | fuelA w b => exact .fuelA _ _
    | fuelC a' w => exact .fuelC _ _
    | err c => exact .err c
    | ok a2 c2 h6 =>
      obtain ⟨added'', ys⟩ := a2
      obtain ⟨g1, g2, chks2, g3, g4⟩ := h6
      refine .ok _ _ ⟨g1, g2, chks ++ chks2, by rw [g3]; simp, ?_⟩
      simp only at g4
      rw [List.map_append, h4, g4]

theorem build_plain (env : CK.Env) (f : Nat) (i : CK.Info) (st : List CK.Name × List CK.Chk) (c : CK.Chk)
    (htl : CK.typesList? i.cs = none) (hc : CK.newChecker i = some c) :
    CK.build env (f + 1) i st = .ok (st.1, st.2 ++ [c]) := by
  obtain ⟨a, l⟩ := st
  unfold CK.build
  simp [htl, hc]

theorem chk_branch (tok : Bytes) : CK.Chk.check noOracles (lexLit tok) .obj = some 1201 ∧
    CK.Chk.check noOracles (lexLit tok) .arr = some 1201 := ⟨rfl, rfl⟩

/-- the alternative a type root that is not a types list contributes: (C)'s checker gives (A)'s verdict -/
theorem alt_plain (ts : Types) (tok : Bytes) (d : Rules.Kind) (hd : RulesF.kindOfTok tok = some d)
    (hen : (RulesF.enumItem tok).isSome = true) (fA : Nat) (added : List String) (n : String) :
    (t : CN) → headOK t = true → notRef t = true →
    ∃ c v, CK.newChecker (dumpNode t).hd.info = some c ∧ CK.typesList? (dumpNode t).hd.info.cs = none ∧
      hereB ts tok fA added n t = .ok (n :: added, [v]) ∧ CK.Chk.check noOracles (lexLit tok) c = v
  | .lit spec bad, h, _ => by
    refine ⟨.lit (jtOf (JT.ofKind spec.kind)) (litCs spec ++ (if bad then [.allOf] else [])), litErr spec tok, ?_, ?_, rfl, ?_⟩
    · simp only [dumpNode, CK.Node.hd]; rfl
    · simp only [dumpNode, CK.Node.hd]
      rw [typesList_append_none _ _ (typesList_litCs spec)]
      cases bad <;> rfl
    · rw [chk_lit]
      exact lit_tok spec tok d hd hen h _ (by cases bad <;> simp [Marker])
  | .any jt (some l), h, _ => by
    simp only [headOK, Bool.and_eq_true, beq_iff_eq, List.isEmpty_iff] at h
    obtain ⟨hj, hr⟩ := h
    subst hj
    have hcs : nulCs l.nul ++ [CK.Cn.any] = litCs l ++ [CK.Cn.any] := by simp [litCs, hr]
    have hnk : nkOfJT (JT.ofKind l.kind) = .lit := by cases l.kind <;> rfl
    refine ⟨.lit (jtOf (JT.ofKind l.kind)) (litCs l ++ [.any]), litErr l tok, ?_, ?_, rfl, ?_⟩
    · simp only [dumpNode, CK.Node.hd, hnk, hcs]; rfl
    · simp only [dumpNode, CK.Node.hd]
      rw [typesList_nul]; rfl
    · rw [chk_lit]
      exact lit_tok l tok d hd hen (by simp [noEmail, hr]) _ (by simp [Marker])
  | .any jt none, h, _ => by
    simp only [headOK, Bool.or_eq_true, beq_iff_eq] at h
    rcases h with h | h <;> subst h
    · exact ⟨.obj, some 1201, rfl, rfl, rfl, rfl⟩
    · exact ⟨.arr, some 1201, rfl, rfl, rfl, rfl⟩
  | .arr items nul bad, _, _ => by
    refine ⟨.arr, some 1201, by simp only [dumpNode, CK.Node.hd]; rfl, ?_, rfl, rfl⟩
    simp only [dumpNode, CK.Node.hd]
    rw [typesList_nul]
    cases bad <;> rfl
  | .obj props add nul bad, _, _ => by
    refine ⟨.obj, some 1201, by simp only [dumpNode, CK.Node.hd]; rfl, ?_, rfl, rfl⟩
    simp only [dumpNode, CK.Node.hd]
    exact typesList_obj nul add _ (by cases bad <;> rfl)
  | .ref _ _ _ _ _, _, h => by simp [notRef] at h

/-- **`Compile.exampleAlts` and `CK.buildNames` are related, whatever the fuel** -/
theorem build_rel (ts : Types) (env : CK.Env) (hE : EnvRelN ts env)
    (hT : ∀ n cn, lookupT ts n = some cn → headOK cn = true) (tok : Bytes) (d : Rules.Kind)
    (hd : RulesF.kindOfTok tok = some d) (hen : (RulesF.enumItem tok).isSome = true) :
    ∀ (fA fC : Nat) (added names : List String) (l : List CK.Chk), (∀ n ∈ names, nameOK n) →
      (∀ n ∈ added, nameOK n) →
      RelE (RAlts tok l) (exampleAlts ts tok fA added names)
        (CK.buildNames (CK.build env fC) env (names.map name) (added.map name, l))
  | 0, _, _, _, _, _, _ => .fuelA _ _
  | fA + 1, _, added, [], l, _, ha => .ok _ _ ⟨rfl, ha, [], by simp, rfl⟩
  | fA + 1, fC, added, n :: rest, l, hn, ha => by
    have hnb : nameOK n := hn n List.mem_cons_self
    have hrestb : ∀ x ∈ rest, nameOK x := fun x hx => hn x (List.mem_cons_of_mem _ hx)
    rw [exampleAlts_cons, List.map_cons, buildNames_cons, contains_name added n (fun x hx => (ha x hx).1) hnb.1, hE n hnb]
    cases hc : added.contains n
    · simp only [Bool.false_eq_true, if_false]
      cases hl : lookupT ts n with
      | none => exact .err 1302
      | some t =>
        have hh := hT n t hl
        simp only [Option.map_some]
        have hrest : ∀ added' l', (∀ x ∈ added', nameOK x) →
            RelE (RAlts tok l') (exampleAlts ts tok fA added' rest)
              (CK.buildNames (CK.build env fC) env (rest.map name) (added'.map name, l')) :=
          fun added' l' h' => build_rel ts env hE hT tok d hd hen fA fC added' rest l' hrestb h'
        have hab : ∀ x ∈ n :: added, nameOK x := fun x hx => by
          rcases List.mem_cons.1 hx with e | hx
          · exact e ▸ hnb
          · exact ha x hx
        cases fC with
        | zero => exact .fuelC _ _
        | succ fC' =>
          refine build_step ?_ hrest
          by_cases hnr : notRef t = true
          · obtain ⟨c, v, hc', htl, hB, hv⟩ := alt_plain ts tok d hd hen fA added n t hh hnr
            rw [hB, build_plain env fC' _ _ c htl hc']
            exact .ok _ _ ⟨rfl, hab, [c], rfl, by simp [hv]⟩
          · cases t with
            | ref names' nul jt ex os =>
              have hb' : ∀ x ∈ names', nameOK x := by
                simpa [headOK] using hh
              have hC : CK.build env (fC' + 1) (dumpNode (.ref names' nul jt ex os)).hd.info (name n :: added.map name, l) =
                  CK.buildNames (CK.build env fC') env (names'.map name) ((n :: added).map name, l) := by
                unfold CK.build
                simp only [dumpNode, CK.Node.hd]
                rfl
              rw [hC]
              exact build_rel ts env hE hT tok d hd hen fA fC' (n :: added) names' l hb' hab
            | lit _ _ => simp [notRef] at hnr
            | any _ _ => simp [notRef] at hnr
            | arr _ _ _ => simp [notRef] at hnr
            | obj _ _ _ _ => simp [notRef] at hnr
    · simp only [if_true]
      exact build_rel ts env hE hT tok d hd hen fA fC added rest l hrestb ha

end BridgeCK
