import JSight.AnnTreeTok
import JSight.AnnTreeLoad
import JSight.AnnotThm
/-!
C13, annotated trees: scanner model + loader model on the text of an accepted token list (inline and multi-line
annotations anywhere the token-level scanner takes them): `loadText` is the loader folded over the token-level events.
-/
namespace Loader
open SchemaScan (Ev classify)
open SchemaScan.Len (ATok TC arun renderAToks Complete endClosers)

/-- **the text of any accepted token list loads as the fold of the loader over its token-level events** -/
theorem loadText_atoks (toks : List ATok) (hw : ∀ t ∈ toks, t.WF) (c' : TC) (evs : List Ev)
    (h : arun TC.init toks = some (c', evs)) (hend : Complete c')
    (bs : List UInt8) (hbs : bs.map classify = renderAToks toks) (st : St)
    (hl : load bs.toArray (evs ++ endClosers c') = .ok st) : loadText bs = .ok st := by
  obtain ⟨E, hlen⟩ := SchemaScan.emits_atoks_whole toks hw c' evs h hend bs hbs
  unfold loadText
  simp only
  exact loadLoop_of_emits bs.toArray E _ {} st (by omega) hl

#print axioms loadText_atoks

end Loader

/-! ### the effect of one annotation, in any tree context, read against the text -/
namespace Lay
open SchemaScan (Ev LexT Ann Cls classify CRule CObj nlEvs spansRules vspansRules IsScalar ValidRules)
open SchemaScan.Len (InlBody MlBody noteTail)
open Loader (XNode LS Fold addX X_ann X_nl slice nameOf)

def BObj.vals : BObj → List (List UInt8)
  | .empty _ => []
  | .rules r rs _ => r.val :: rs.map (·.val)

theorem val_rule (src : Array UInt8) (r : BRule) (hv : IsScalar (r.val.map classify)) (p : Nat)
    (hat : AtB src p r.render) : slice src (r.cls.vspan p).1 (r.cls.vspan p).2 = r.val := by
  simp only [BRule.render] at hat
  rw [AtB_append, AtB_append, AtB_append] at hat
  obtain ⟨_, _, _, hat⟩ := hat
  obtain ⟨_, hat⟩ := hat
  rw [AtB_append, AtB_append] at hat
  have hval : AtB src (p + r.b1.length + r.name.length + r.n2 + 1 + r.b3.length) r.val := by
    have := hat.2.1
    simpa [Nat.add_assoc, List.length_replicate] using this
  have hs := slice_tok src r.val _ hval (scalar_ne hv)
  simpa [CRule.vspan, CRule.valOff, BRule.cls, List.length_map] using hs

theorem vals_rules (src : Array UInt8) (a : Ann) : ∀ (rs : List BRule) (r : BRule), ValidRulesB a r rs → ∀ (p : Nat)
    (rest : List UInt8), AtB src p (renderRulesB r rs ++ rest) →
    (vspansRules p r.cls (rs.map BRule.cls)).map (fun sp => slice src sp.1 sp.2) = r.val :: rs.map (·.val)
  | [], r, hv, p, rest, hat => by
    simp only [renderRulesB] at hat
    rw [AtB_append] at hat
    simp [vspansRules, val_rule src r hv.1.2.2.2.1 p hat.1]
  | r' :: rs, r, hv, p, rest, hat => by
    simp only [renderRulesB, List.append_assoc, List.cons_append] at hat
    rw [AtB_append] at hat
    obtain ⟨h1, h2, h3⟩ := hat
    have ih := vals_rules src a rs r' ⟨hv.2 r'.cls (by simp), fun z hz => hv.2 z (by simp [hz])⟩
      (p + r.render.length + 1) rest h3
    simp only [List.map_cons, vspansRules, CRule_render_length, ih, val_rule src r hv.1.2.2.2.1 p h1]

/-- what the annotation adds to its node -/
def addAnn (xn : XNode) (ob : BObj) (note : Option (List UInt8)) : XNode :=
  { xn with
    rules := xn.rules ++ ob.names
    ruleVals := xn.ruleVals ++ ob.vals.map some
    note := match note with
      | none => xn.note
      | some t => some (Loader.trimSpaces t) }

/-- the bytes between the annotation mark (`//` resp. `/*`) and the end mark (line break resp. `*/`) -/
def annBody (s2 : List UInt8) (ob : BObj) (s3 : List UInt8) (nt : Option (List UInt8 × List UInt8)) : List UInt8 :=
  s2 ++ (123 :: (ob.body ++ (125 :: (s3 ++ (match nt with | none => [] | some (s4, txt) => 45 :: (s4 ++ txt))))))

theorem obj_names_vals (src : Array UInt8) (a : Ann) (ob : BObj) (hob : ob.cls.Valid a) (o : Nat) (rest : List UInt8)
    (hat : AtB src (o + 1) (ob.body ++ rest)) :
    (ob.cls.spans o).map (nameOf src) = ob.names ∧
      (ob.cls.vspans o).map (fun sp => slice src sp.1 sp.2) = ob.vals := by
  cases ob with
  | empty b0 => exact ⟨rfl, rfl⟩
  | rules r rs tc =>
    simp only [BObj.body, List.append_assoc] at hat
    exact ⟨names_rules src a rs r hob.1 _ _ hat, vals_rules src a rs r hob.1 _ _ hat⟩

def clsNt (nt : Option (List UInt8 × List UInt8)) : Option (List Cls × List Cls) :=
  nt.map (fun q => (q.1.map classify, q.2.map classify))

/-- the class-level bodies of the two forms -/
def mlOf (s2 : List UInt8) (ob : BObj) (s3 : List UInt8) (nt : Option (List UInt8 × List UInt8)) : MlBody :=
  ⟨s2.map classify, ob.cls, s3.map classify, clsNt nt⟩
def inlOf (s2 : List UInt8) (ob : BObj) (s3 : List UInt8) (nt : Option (List UInt8 × List UInt8)) : InlBody :=
  .obj (s2.map classify) ob.cls (s3.map classify) (clsNt nt)

theorem body_len (ob : BObj) : ob.cls.body.length = ob.body.length := by
  rw [← BObj.body_cls, List.length_map]

/-- the span of the note of an annotation whose first `/` stands at `p` -/
def noteSpan (p : Nat) (s2 : List UInt8) (ob : BObj) (s3 : List UInt8) : Option (List UInt8 × List UInt8) → Option (Nat × Nat)
  | none => none
  | some (s4, txt) =>
    some (p + 2 + s2.length + 1 + ob.body.length + 1 + s3.length + 1 + s4.length,
      p + 2 + s2.length + 1 + ob.body.length + 1 + s3.length + 1 + s4.length + txt.length - 1)

theorem addX_eq (src : Array UInt8) (a : Ann) (xn : XNode) (s2 : List UInt8) (ob : BObj) (s3 : List UInt8)
    (nt : Option (List UInt8 × List UInt8)) (p : Nat) (hob : ob.cls.Valid a)
    (hnt : ∀ s4 txt, nt = some (s4, txt) → txt ≠ []) (rest : List UInt8)
    (hat : AtB src (p + 2) (annBody s2 ob s3 nt ++ rest)) :
    addX src xn (ob.cls.spans (p + 2 + s2.length)) (ob.cls.vspans (p + 2 + s2.length)) (noteSpan p s2 ob s3 nt)
      = addAnn xn ob (nt.map (·.2)) := by
  simp only [annBody, List.append_assoc, List.cons_append] at hat
  rw [AtB_append] at hat
  obtain ⟨_, _, hat⟩ := hat
  obtain ⟨hn, hv⟩ := obj_names_vals src a ob hob (p + 2 + s2.length) _ hat
  rw [AtB_append] at hat
  obtain ⟨_, _, hat⟩ := hat
  rw [AtB_append] at hat
  obtain ⟨_, hat⟩ := hat
  cases nt with
  | none =>
    simp only [addX, addAnn, noteSpan, hn, Option.map_none]
    congr 1
    rw [← hv, List.map_map]; rfl
  | some q =>
    obtain ⟨s4, txt⟩ := q
    simp only [List.cons_append, List.append_assoc] at hat
    obtain ⟨_, hat⟩ := hat
    rw [AtB_append, AtB_append] at hat
    have htxt : AtB src (p + 2 + s2.length + 1 + ob.body.length + 1 + s3.length + 1 + s4.length) txt := by
      have := hat.2.1
      simpa [Nat.add_assoc] using this
    have hs := slice_tok src txt _ htxt (hnt s4 txt rfl)
    simp only [addX, addAnn, noteSpan, hn, Option.map_some, hs]
    congr 1
    rw [← hv, List.map_map]; rfl

theorem clsNt_len (nt : Option (List UInt8 × List UInt8)) :
    (noteTail (clsNt nt)).length = (match nt with | none => 0 | some (s4, txt) => 1 + s4.length + txt.length) := by
  cases nt with
  | none => rfl
  | some q => obtain ⟨s4, txt⟩ := q; simp [clsNt, noteTail]; omega

/-- **a multi-line annotation, in any tree context**: whatever the node table, if the loader is in default mode, node
`i` is the node created last and the only one created on the current line, the events of `/* {rules} [- note] */`
(`MlBody.evs`, as the scanner delivers them: `SchemaScan.Len.asim`) add the rule names and rule values of the object,
in written order, and the note to node `i`; nothing else the node loader reads changes -/
theorem ml_effect (src : Array UInt8) {st : Loader.St} {AL : List XNode} {leaf : Option Nat} {i : Nat} {root : Option Nat}
    (h : LS src st AL leaf (some i) 1 root) (xn : XNode) (hn : AL[i]? = some xn)
    (s2 : List UInt8) (ob : BObj) (s3 : List UInt8) (nt : Option (List UInt8 × List UInt8)) (p : Nat)
    (hob : ob.cls.Valid .multi) (hnt : ∀ s4 txt, nt = some (s4, txt) → txt ≠ []) (rest : List UInt8)
    (hat : AtB src (p + 2) (annBody s2 ob s3 nt ++ rest)) :
    ∃ st', Fold src ((mlOf s2 ob s3 nt).evs p) st st' ∧
      LS src st' (AL.set i (addAnn xn ob (nt.map (·.2)))) leaf (some i) 1 root := by
  have hx := addX_eq src .multi xn s2 ob s3 nt p hob hnt rest hat
  cases nt with
  | none =>
    obtain ⟨st', hf, hl⟩ := X_ann src .multi rfl h xn hn (nlEvs (p + 2) (s2.map classify))
      (nlEvs (p + 2 + s2.length + 1 + ob.body.length + 1) (s3.map classify)) (Loader.nlEvs_ty _ _) (Loader.nlEvs_ty _ _)
      ob.cls (p + 2 + s2.length) p (p + 1) p (p + 2 + s2.length + 1 + ob.body.length + 1 + s3.length + 1) none
    refine ⟨st', hf.cast ?_ rfl, by rw [← hx]; exact hl⟩
    simp [MlBody.evs, MlBody.o, MlBody.e1, MlBody.t, SchemaScan.Len.mlTail, mlOf, clsNt, Loader.noteEvs, body_len, Ann.B, Ann.E]
  | some q =>
    obtain ⟨s4, txt⟩ := q
    obtain ⟨st', hf, hl⟩ := X_ann src .multi rfl h xn hn (nlEvs (p + 2) (s2.map classify))
      (nlEvs (p + 2 + s2.length + 1 + ob.body.length + 1) (s3.map classify)) (Loader.nlEvs_ty _ _) (Loader.nlEvs_ty _ _)
      ob.cls (p + 2 + s2.length) p (p + 1) p
      (p + 2 + s2.length + 1 + ob.body.length + 1 + s3.length + 1 + s4.length + txt.length + 1)
      (noteSpan p s2 ob s3 (some (s4, txt)))
    refine ⟨st', hf.cast ?_ rfl, by rw [← hx]; exact hl⟩
    simp [MlBody.evs, MlBody.o, MlBody.e1, MlBody.t, SchemaScan.Len.mlTail, mlOf, clsNt, Loader.noteEvs, body_len, Ann.B, Ann.E,
      Ann.TB, Ann.TE, noteSpan]

/-- **an inline annotation, in any tree context** (the same, for `// {rules} [- note]` and its line break: the
`newLine` event behind the annotation resets the per-line counter) -/
theorem inl_effect (src : Array UInt8) {st : Loader.St} {AL : List XNode} {leaf : Option Nat} {i : Nat} {root : Option Nat}
    (h : LS src st AL leaf (some i) 1 root) (xn : XNode) (hn : AL[i]? = some xn)
    (s2 : List UInt8) (ob : BObj) (s3 : List UInt8) (nt : Option (List UInt8 × List UInt8)) (p : Nat)
    (hob : ob.cls.Valid .inline) (hnt : ∀ s4 txt, nt = some (s4, txt) → txt ≠ []) (rest : List UInt8)
    (hat : AtB src (p + 2) (annBody s2 ob s3 nt ++ rest)) :
    ∃ st', Fold src ((inlOf s2 ob s3 nt).evs p) st st' ∧
      LS src st' (AL.set i (addAnn xn ob (nt.map (·.2)))) leaf (some i) 0 root := by
  have hx := addX_eq src .inline xn s2 ob s3 nt p hob hnt rest hat
  cases nt with
  | none =>
    obtain ⟨st1, hf, hl⟩ := X_ann src .inline rfl h xn hn [] [] (by simp) (by simp)
      ob.cls (p + 2 + s2.length) p (p + 1) p (p + 2 + s2.length + 1 + ob.body.length + 1 + s3.length - 1) none
    obtain ⟨st', hs, hl'⟩ := X_nl src hl ⟨.newLine, p + 2 + s2.length + 1 + ob.body.length + 1 + s3.length,
      p + 2 + s2.length + 1 + ob.body.length + 1 + s3.length⟩ rfl
    refine ⟨st', (Loader.Fold.trans hf (Loader.Fold.one hs)).cast ?_ rfl, by rw [← hx]; exact hl'⟩
    simp [InlBody.evs, inlOf, clsNt, Loader.noteEvs, body_len, Ann.B, Ann.E]
  | some q =>
    obtain ⟨s4, txt⟩ := q
    obtain ⟨st1, hf, hl⟩ := X_ann src .inline rfl h xn hn [] [] (by simp) (by simp)
      ob.cls (p + 2 + s2.length) p (p + 1) p
      (p + 2 + s2.length + 1 + ob.body.length + 1 + s3.length + 1 + s4.length + txt.length - 1)
      (noteSpan p s2 ob s3 (some (s4, txt)))
    obtain ⟨st', hs, hl'⟩ := X_nl src hl ⟨.newLine, p + 2 + s2.length + 1 + ob.body.length + 1 + s3.length + 1 + s4.length + txt.length,
      p + 2 + s2.length + 1 + ob.body.length + 1 + s3.length + 1 + s4.length + txt.length⟩ rfl
    refine ⟨st', (Loader.Fold.trans hf (Loader.Fold.one hs)).cast ?_ rfl, by rw [← hx]; exact hl'⟩
    simp [InlBody.evs, inlOf, clsNt, Loader.noteEvs, body_len, Ann.B, Ann.E, Ann.TB, Ann.TE, noteSpan]

theorem vals_of_pairs (ob : BObj) : ob.vals = ob.pairs.map Prod.snd := by
  cases ob <;> simp [BObj.vals, BObj.pairs, Function.comp_def]

theorem node_inline_vs_multiline (src src' : Array UInt8) {st st2 : Loader.St} {AL : List XNode}
    {leaf : Option Nat} {i : Nat} {root : Option Nat} (h : LS src st AL leaf (some i) 1 root)
    (h' : LS src' st2 AL leaf (some i) 1 root) (xn : XNode) (hn : AL[i]? = some xn)
    (s2 s2' : List UInt8) (ob ob' : BObj) (s3 s3' : List UInt8) (s4 s4' : List UInt8) (note : Option (List UInt8))
    (p p' : Nat) (hob : ob.cls.Valid .inline) (hob' : ob'.cls.Valid .multi) (hsame : ob.pairs = ob'.pairs)
    (hnt : ∀ t, note = some t → t ≠ []) (rest rest' : List UInt8)
    (hat : AtB src (p + 2) (annBody s2 ob s3 (note.map (fun t => (s4, t))) ++ rest))
    (hat' : AtB src' (p' + 2) (annBody s2' ob' s3' (note.map (fun t => (s4', t))) ++ rest')) :
    ∃ st1 st1' T, Fold src ((inlOf s2 ob s3 (note.map (fun t => (s4, t)))).evs p) st st1 ∧
      Fold src' ((mlOf s2' ob' s3' (note.map (fun t => (s4', t)))).evs p') st2 st1' ∧
      LS src st1 T leaf (some i) 0 root ∧ LS src' st1' T leaf (some i) 1 root := by
  have hq : ∀ (z : List UInt8) (a b : List UInt8), note.map (fun t => (z, t)) = some (a, b) → b ≠ [] := by
    intro z a b e
    cases note with
    | none => cases e
    | some t => simp only [Option.map_some, Option.some.injEq, Prod.mk.injEq] at e; rw [← e.2]; exact hnt t rfl
  obtain ⟨st1, f1, l1⟩ := inl_effect src h xn hn s2 ob s3 _ p hob (hq s4) rest hat
  obtain ⟨st1', f2, l2⟩ := ml_effect src' h' xn hn s2' ob' s3' _ p' hob' (hq s4') rest' hat'
  have e : addAnn xn ob ((note.map (fun t => (s4, t))).map (·.2)) = addAnn xn ob' ((note.map (fun t => (s4', t))).map (·.2)) := by
    have hn' : ob.names = ob'.names := by rw [names_of_pairs, names_of_pairs, hsame]
    have hv' : ob.vals = ob'.vals := by rw [vals_of_pairs, vals_of_pairs, hsame]
    cases note <;> simp [addAnn, hn', hv']
  rw [e] at l1
  exact ⟨st1, st1', _, f1, f2, l1, l2⟩

#print axioms node_inline_vs_multiline

#print axioms ml_effect
#print axioms inl_effect

end Lay
