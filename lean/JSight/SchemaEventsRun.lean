import JSight.SchemaEventsStep
/-!
Runs of the schema scanner model over white space, tokens, and the closing phase after a value.
-/
namespace SchemaScan

variable {data : Array Cls}

/-! ### single bytes at value starts and container ends -/

theorem S_start_scalar {c : Cls} {st0 : St} {u0 : Bool} (h : litStart c = some (st0, u0)) (ctx : VCtx)
    (K : List (LexT × Nat)) (o : Nat) (CS : List Ctx) (cx : Ctx) (al : Bool) (hc : data[o]? = some c) :
    Steps data (cfg ctx.st [] K false o CS cx al) (ctx.preEvs o ++ [⟨.litB, o, o⟩])
      (cfg st0 [] ((.litB, o) :: (ctx.pre o ++ K)) u0 (o + 1) CS (ctx.cx' cx) al) := by
  refine cfg_byte hc (fun p1 p2 => start_scalar_d 7 c st0 u0 h ctx K (o + 1) CS cx al p1 p2) rfl ?_
  cases ctx <;> rfl

theorem S_start_array (ctx : VCtx)
    (K : List (LexT × Nat)) (o : Nat) (CS : List Ctx) (cx : Ctx) (al : Bool) (hc : data[o]? = some .lbrack) :
    Steps data (cfg ctx.st [] K false o CS cx al) (ctx.preEvs o ++ [⟨.arrB, o, o⟩])
      (cfg .arrItemOrEmpty [] ((.arrB, o) :: (ctx.pre o ++ K)) false (o + 1) (ctx.cx' cx :: CS) { ty := .array } al) := by
  refine cfg_byte hc (fun p1 p2 => start_array_d 7 ctx K (o + 1) CS cx al p1 p2) rfl ?_
  cases ctx <;> rfl

theorem S_start_object (ctx : VCtx)
    (K : List (LexT × Nat)) (o : Nat) (CS : List Ctx) (cx : Ctx) (al : Bool) (hc : data[o]? = some .lbrace) :
    Steps data (cfg ctx.st [] K false o CS cx al) (ctx.preEvs o ++ [⟨.objB, o, o⟩])
      (cfg .objKeyOrEmpty [] ((.objB, o) :: (ctx.pre o ++ K)) false (o + 1) (ctx.cx' cx :: CS) { ty := .object } al) := by
  refine cfg_byte hc (fun p1 p2 => start_object_d 7 ctx K (o + 1) CS cx al p1 p2) rfl ?_
  cases ctx <;> rfl

theorem S_key_start {st : St} (h : keySt st = true)
    (K : List (LexT × Nat)) (o : Nat) (CS : List Ctx) (cx : Ctx) (al : Bool) (hc : data[o]? = some .quote) :
    Steps data (cfg st [] K false o CS cx al) [⟨.keyB, o, o⟩]
      (cfg .inString [] ((.keyB, o) :: K) false (o + 1) CS cx (keyAl st al)) :=
  cfg_byte hc (fun p1 p2 => key_start_d 7 st h K (o + 1) CS cx al p1 p2) rfl rfl

theorem S_empty_arr (a : Nat)
    (K : List (LexT × Nat)) (j : Nat) (c0 : Ctx) (CS : List Ctx) (cx : Ctx) (al : Bool) (hc : data[j]? = some .rbrack) :
    Steps data (cfg .arrItemOrEmpty [] ((.arrB, a) :: K) false j (c0 :: CS) cx al) [⟨.arrE, a, j⟩]
      (cfg .endValue [] K false (j + 1) CS c0 (!cx.arrayHasItem)) :=
  cfg_byte hc (fun p1 p2 => empty_arr_d 7 (.arrB, a) K (j + 1) c0 CS cx al p1 p2) rfl rfl

theorem S_empty_obj (a : Nat)
    (K : List (LexT × Nat)) (j : Nat) (c0 : Ctx) (CS : List Ctx) (cx : Ctx) (al : Bool) (hc : data[j]? = some .rbrace) :
    Steps data (cfg .objKeyOrEmpty [] ((.objB, a) :: K) false j (c0 :: CS) cx al) [⟨.objE, a, j⟩]
      (cfg .endValue [] K false (j + 1) CS c0 true) :=
  cfg_byte hc (fun p1 p2 => empty_obj_d 7 ((.objB, a) :: K) (j + 1) c0 CS cx al p1 p2) rfl rfl

/-! ### single bytes after a value -/

def closersOf (lit : Bool) (ck : CK) (b b2 e : Nat) : List Ev :=
  (if lit then [⟨.litE, b, e⟩] else []) ++ [⟨ck.E, b2, e⟩]

/-- a byte read in a post-value state -/
theorem pv_byte {st : St} (hst : PV st = true) {c : Cls} (hd : c.isDelim = true)
    {K : List (LexT × Nat)} {i : Nat} {CS : List Ctx} {cx : Ctx} {al : Bool} {s1 s2 : Sc} {evs : List Ev}
    (hc : data[i]? = some c)
    (he : ∀ p1 p2, endValue 7 (cfg st [] K false (i + 1) CS cx al) c p1 p2 = .ok s1)
    (hi : s1.index = i + 1) (hdr : drainL data s1.finds s1 = .ok (s2, evs)) :
    Steps data (cfg st [] K false i CS cx al) evs s2 :=
  cfg_byte hc (fun p1 p2 => (pv_dispatch 7 st hst c hd _ p1 p2).trans (he p1 p2)) hi hdr

theorem S_close_sp {st : St} (hst : PV st = true) {c : Cls} (hs : c.isSpTab = true) (lit : Bool) (ck : CK) (b b2 : Nat)
    (R : List (LexT × Nat)) (i : Nat) (CS : List Ctx) (cx : Ctx) (al : Bool) (hc : data[i]? = some c) :
    Steps data (cfg st [] (pendOf lit b ++ (ck.B, b2) :: R) false i CS cx al) (closersOf lit ck b b2 (i - 1))
      (cfg ck.aft [] R false (i + 1) CS cx al) := by
  have haft : wsLoop ck.aft = true := by cases ck <;> rfl
  refine pv_byte hst (by cases c <;> simp [Cls.isSpTab] at hs <;> rfl) hc
    (fun p1 p2 => (ev_close 7 st lit ck b b2 R (i + 1) CS cx al c p1 p2).trans
      (loop_sp 6 ck.aft haft c hs _ (i + 1) CS cx al _ p1 p2)) rfl ?_
  cases lit <;> cases ck <;> rfl

theorem S_close_nl {st : St} (hst : PV st = true) (lit : Bool) (ck : CK) (b b2 : Nat)
    (R : List (LexT × Nat)) (i : Nat) (CS : List Ctx) (cx : Ctx) (al : Bool) (hc : data[i]? = some .nl) :
    Steps data (cfg st [] (pendOf lit b ++ (ck.B, b2) :: R) false i CS cx al)
      (closersOf lit ck b b2 (i - 1) ++ [⟨.newLine, i, i⟩])
      (cfg ck.aft [] R false (i + 1) CS cx al) := by
  have haft : wsLoop ck.aft = true := by cases ck <;> rfl
  refine pv_byte hst rfl hc
    (fun p1 p2 => (ev_close 7 st lit ck b b2 R (i + 1) CS cx al .nl p1 p2).trans
      (loop_nl 6 ck.aft haft _ (i + 1) CS cx al _ p1 p2)) rfl ?_
  cases lit <;> cases ck <;> rfl

theorem S_close_sep {st : St} (hst : PV st = true) (lit : Bool) (ck : CK) (b b2 : Nat)
    (R : List (LexT × Nat)) (i : Nat) (CS : List Ctx) (cx : Ctx) (al : Bool) (hc : data[i]? = some ck.sep) :
    Steps data (cfg st [] (pendOf lit b ++ (ck.B, b2) :: R) false i CS cx al) (closersOf lit ck b b2 (i - 1))
      (cfg ck.nxt [] R false (i + 1) CS cx al) := by
  refine pv_byte hst (by cases ck <;> rfl) hc
    (fun p1 p2 => (ev_close 7 st lit ck b b2 R (i + 1) CS cx al ck.sep p1 p2).trans
      (aft_sep 6 ck _ (i + 1) CS cx al _ p1 p2)) rfl ?_
  cases lit <;> cases ck <;> rfl

theorem S_close_rbrack {st : St} (hst : PV st = true) (lit : Bool) (b b2 a : Nat)
    (K : List (LexT × Nat)) (i : Nat) (c0 : Ctx) (CS : List Ctx) (cx : Ctx) (al : Bool) (hc : data[i]? = some .rbrack) :
    Steps data (cfg st [] (pendOf lit b ++ (.itemB, b2) :: (.arrB, a) :: K) false i (c0 :: CS) cx al)
      (closersOf lit .item b b2 (i - 1) ++ [⟨.arrE, a, i⟩])
      (cfg .endValue [] K false (i + 1) CS c0 (!cx.arrayHasItem)) := by
  cases lit
  · exact pv_byte hst rfl hc
      (fun p1 p2 => (ev_close 7 st false .item b b2 _ (i + 1) (c0 :: CS) cx al .rbrack p1 p2).trans
        (aft_rbrack 6 _ _ (i + 1) c0 CS cx al _ p1 p2)) rfl rfl
  · exact pv_byte hst rfl hc
      (fun p1 p2 => (ev_close 7 st true .item b b2 _ (i + 1) (c0 :: CS) cx al .rbrack p1 p2).trans
        (aft_rbrack 6 _ _ (i + 1) c0 CS cx al _ p1 p2)) rfl rfl

theorem S_close_rbrace {st : St} (hst : PV st = true) (lit : Bool) (b b2 a : Nat)
    (K : List (LexT × Nat)) (i : Nat) (c0 : Ctx) (CS : List Ctx) (cx : Ctx) (al : Bool) (hc : data[i]? = some .rbrace) :
    Steps data (cfg st [] (pendOf lit b ++ (.valB, b2) :: (.objB, a) :: K) false i (c0 :: CS) cx al)
      (closersOf lit .val b b2 (i - 1) ++ [⟨.objE, a, i⟩])
      (cfg .endValue [] K false (i + 1) CS c0 al) := by
  cases lit
  · exact pv_byte hst rfl hc
      (fun p1 p2 => (ev_close 7 st false .val b b2 _ (i + 1) (c0 :: CS) cx al .rbrace p1 p2).trans
        (aft_rbrace 6 _ (i + 1) c0 CS cx al _ p1 p2)) rfl rfl
  · exact pv_byte hst rfl hc
      (fun p1 p2 => (ev_close 7 st true .val b b2 _ (i + 1) (c0 :: CS) cx al .rbrace p1 p2).trans
        (aft_rbrace 6 _ (i + 1) c0 CS cx al _ p1 p2)) rfl rfl

theorem S_aft_sep (ck : CK)
    (R : List (LexT × Nat)) (i : Nat) (CS : List Ctx) (cx : Ctx) (al : Bool) (hc : data[i]? = some ck.sep) :
    Steps data (cfg ck.aft [] R false i CS cx al) [] (cfg ck.nxt [] R false (i + 1) CS cx al) :=
  cfg_byte hc (fun p1 p2 => aft_sep 7 ck R (i + 1) CS cx al [] p1 p2) rfl rfl

theorem S_aft_rbrack (a : Nat)
    (K : List (LexT × Nat)) (i : Nat) (c0 : Ctx) (CS : List Ctx) (cx : Ctx) (al : Bool) (hc : data[i]? = some .rbrack) :
    Steps data (cfg .afterItem [] ((.arrB, a) :: K) false i (c0 :: CS) cx al) [⟨.arrE, a, i⟩]
      (cfg .endValue [] K false (i + 1) CS c0 (!cx.arrayHasItem)) :=
  cfg_byte hc (fun p1 p2 => aft_rbrack 7 _ K (i + 1) c0 CS cx al [] p1 p2) rfl rfl

theorem S_aft_rbrace (a : Nat)
    (K : List (LexT × Nat)) (i : Nat) (c0 : Ctx) (CS : List Ctx) (cx : Ctx) (al : Bool) (hc : data[i]? = some .rbrace) :
    Steps data (cfg .afterValue [] ((.objB, a) :: K) false i (c0 :: CS) cx al) [⟨.objE, a, i⟩]
      (cfg .endValue [] K false (i + 1) CS c0 al) :=
  cfg_byte hc (fun p1 p2 => aft_rbrace 7 _ (i + 1) c0 CS cx al [] p1 p2) rfl rfl

/-- the literal end of a top-level scalar -/
def rootClosers (lit : Bool) (b e : Nat) : List Ev := if lit then [⟨.litE, b, e⟩] else []

theorem S_root_sp {st : St} (hst : PV st = true) {c : Cls} (hs : c.isSpTab = true) (lit : Bool) (b : Nat)
    (i : Nat) (CS : List Ctx) (cx : Ctx) (al : Bool) (hc : data[i]? = some c) :
    Steps data (cfg st [] (pendOf lit b) false i CS cx al) (rootClosers lit b (i - 1))
      (cfg .endTop [] [] false (i + 1) CS cx al) := by
  refine pv_byte hst (by cases c <;> simp [Cls.isSpTab] at hs <;> rfl) hc
    (fun p1 p2 => (ev_root 7 st lit b (i + 1) CS cx al c p1 p2).trans
      (loop_sp 6 .endTop rfl c hs _ (i + 1) CS cx al _ p1 p2)) rfl ?_
  cases lit <;> rfl

theorem S_root_nl {st : St} (hst : PV st = true) (lit : Bool) (b : Nat)
    (i : Nat) (CS : List Ctx) (cx : Ctx) (al : Bool) (hc : data[i]? = some .nl) :
    Steps data (cfg st [] (pendOf lit b) false i CS cx al) (rootClosers lit b (i - 1) ++ [⟨.newLine, i, i⟩])
      (cfg .endTop [] [] false (i + 1) CS cx al) := by
  refine pv_byte hst rfl hc
    (fun p1 p2 => (ev_root 7 st lit b (i + 1) CS cx al .nl p1 p2).trans
      (loop_nl 6 .endTop rfl _ (i + 1) CS cx al _ p1 p2)) rfl ?_
  cases lit <;> rfl

/-! ### white space -/

def IsWs (ws : List Cls) : Prop := ∀ c ∈ ws, c.isBlank = true

theorem IsWs.head {c : Cls} {ws : List Cls} (h : IsWs (c :: ws)) : c.isBlank = true := h c (by simp)
theorem IsWs.tail {c : Cls} {ws : List Cls} (h : IsWs (c :: ws)) : IsWs ws := fun x hx => h x (by simp [hx])

/-- one `newLine` event per line break -/
def nlEvs : Nat → List Cls → List Ev
  | _, [] => []
  | o, c :: cs => (if c = .nl then [⟨.newLine, o, o⟩] else []) ++ nlEvs (o + 1) cs

/-- the state after white space -/
def wsSt : St → List Cls → St
  | st, [] => st
  | st, c :: cs => wsSt (if c = .nl then nlSt st else st) cs

theorem blank_cases {c : Cls} (h : c.isBlank = true) : c.isSpTab = true ∨ c = .nl := by
  cases c <;> simp [Cls.isBlank, Cls.isSpace, Cls.isNewLine] at h <;> simp [Cls.isSpTab]

theorem sptab_ne_nl {c : Cls} (h : c.isSpTab = true) : c ≠ .nl := by
  cases c <;> simp [Cls.isSpTab] at h <;> simp

theorem wsLoop_nlSt {st : St} (h : wsLoop st = true) : wsLoop (nlSt st) = true := by
  cases st <;> simp [wsLoop] at h <;> rfl

theorem ws_run : ∀ (ws : List Cls), IsWs ws → ∀ (st : St), wsLoop st = true →
    ∀ (K : List (LexT × Nat)) (i : Nat) (CS : List Ctx) (cx : Ctx) (al : Bool), At data i ws →
    ∃ al', Steps data (cfg st [] K false i CS cx al) (nlEvs i ws) (cfg (wsSt st ws) [] K false (i + ws.length) CS cx al')
  | [], _, st, _, K, i, CS, cx, al, _ => ⟨al, Steps.refl _ _⟩
  | c :: ws, hw, st, hl, K, i, CS, cx, al, hat => by
    obtain ⟨hc, hat'⟩ := hat
    rcases blank_cases hw.head with hs | rfl
    · obtain ⟨al', ih⟩ := ws_run ws hw.tail st hl K (i + 1) CS cx al hat'
      refine ⟨al', ?_⟩
      have h1 := S_sp hl hs K i CS cx al hc
      have := Steps.trans h1 ih
      simp only [nlEvs, wsSt, if_neg (sptab_ne_nl hs), List.nil_append, List.length_cons]
      rw [show i + (ws.length + 1) = i + 1 + ws.length by omega]
      exact this
    · obtain ⟨al', ih⟩ := ws_run ws hw.tail (nlSt st) (wsLoop_nlSt hl) K (i + 1) CS cx (nlAl st al) hat'
      refine ⟨al', ?_⟩
      have h1 := S_nl hl K i CS cx al hc
      have := Steps.trans h1 ih
      simp only [nlEvs, wsSt, if_true, List.length_cons]
      rw [show i + (ws.length + 1) = i + 1 + ws.length by omega]
      exact this

theorem wsSt_eq {st : St} (h : st ≠ .objKey) : ∀ (ws : List Cls), wsSt st ws = st
  | [] => rfl
  | c :: ws => by
    have : nlSt st = st := by cases st <;> first | rfl | exact absurd rfl h
    simp only [wsSt, this, ite_self]
    exact wsSt_eq h ws

theorem keySt_wsSt {st : St} (h : keySt st = true) : ∀ (ws : List Cls), keySt (wsSt st ws) = true
  | [] => h
  | c :: ws => by
    simp only [wsSt]
    split
    · exact keySt_wsSt (by cases st <;> simp [keySt] at h <;> rfl) ws
    · exact keySt_wsSt h ws

/-! ### tokens -/

def silentRun : St → List St → Bool → List Cls → Option (St × List St × Bool)
  | st, r, unf, [] => some (st, r, unf)
  | st, r, unf, c :: cs => match silent st r unf c with
    | some (st', r', unf') => silentRun st' r' unf' cs
    | none => none

theorem tok_run : ∀ (tok : List Cls) (st : St) (r : List St) (u : Bool) (st' : St) (r' : List St) (u' : Bool),
    silentRun st r u tok = some (st', r', u') →
    ∀ (K : List (LexT × Nat)) (i : Nat) (CS : List Ctx) (cx : Ctx) (al : Bool), At data i tok →
    Steps data (cfg st r K u i CS cx al) [] (cfg st' r' K u' (i + tok.length) CS cx al)
  | [], st, r, u, st', r', u', h, K, i, CS, cx, al, _ => by
    simp only [silentRun, Option.some.injEq, Prod.mk.injEq] at h
    obtain ⟨rfl, rfl, rfl⟩ := h
    exact Steps.refl _ _
  | c :: cs, st, r, u, st', r', u', h, K, i, CS, cx, al, hat => by
    obtain ⟨hc, hat'⟩ := hat
    simp only [silentRun] at h
    cases hs : silent st r u c with
    | none => rw [hs] at h; cases h
    | some p =>
      obtain ⟨s1, r1, u1⟩ := p
      rw [hs] at h
      have h1 := S_silent hs K i CS cx al hc
      have h2 := tok_run cs s1 r1 u1 st' r' u' h K (i + 1) CS cx al hat'
      have := Steps.trans h1 h2
      simp only [List.length_cons]
      rw [show i + (cs.length + 1) = i + 1 + cs.length by omega]
      exact this

/-! ### the closing phase after a value -/

theorem aft_ne_objKey (ck : CK) : ck.aft ≠ .objKey := by cases ck <;> simp [CK.aft]

/-- non-empty white space after a value: the pending pairs are closed by its first byte -/
theorem close_ws {st : St} (hst : PV st = true) (lit : Bool) (ck : CK) (b b2 : Nat) (R : List (LexT × Nat))
    (c : Cls) (w : List Cls) (hw : IsWs (c :: w)) (i : Nat) (CS : List Ctx) (cx : Ctx) (al : Bool)
    (hat : At data i (c :: w)) :
    ∃ al', Steps data (cfg st [] (pendOf lit b ++ (ck.B, b2) :: R) false i CS cx al)
      (closersOf lit ck b b2 (i - 1) ++ nlEvs i (c :: w)) (cfg ck.aft [] R false (i + (w.length + 1)) CS cx al') := by
  obtain ⟨hc, hat'⟩ := hat
  have haft : wsLoop ck.aft = true := by cases ck <;> rfl
  obtain ⟨al', h2⟩ := ws_run w hw.tail ck.aft haft R (i + 1) CS cx al hat'
  rw [wsSt_eq (aft_ne_objKey ck)] at h2
  refine ⟨al', ?_⟩
  rw [show i + (w.length + 1) = i + 1 + w.length by omega]
  rcases blank_cases hw.head with hs | rfl
  · have h1 := S_close_sp hst hs lit ck b b2 R i CS cx al hc
    simp only [nlEvs, if_neg (sptab_ne_nl hs), List.nil_append]
    exact Steps.trans h1 h2
  · have h1 := S_close_nl hst lit ck b b2 R i CS cx al hc
    simp only [nlEvs, if_true]
    rw [← List.append_assoc]
    exact Steps.trans h1 h2

/-- white space, then the separator (`,` after an item or a member, `:` after a key) -/
theorem close_sep {st : St} (hst : PV st = true) (lit : Bool) (ck : CK) (b b2 : Nat) (R : List (LexT × Nat))
    (w : List Cls) (hw : IsWs w) (i : Nat) (CS : List Ctx) (cx : Ctx) (al : Bool)
    (hat : At data i (w ++ [ck.sep])) :
    ∃ al', Steps data (cfg st [] (pendOf lit b ++ (ck.B, b2) :: R) false i CS cx al)
      (closersOf lit ck b b2 (i - 1) ++ nlEvs i w) (cfg ck.nxt [] R false (i + w.length + 1) CS cx al') := by
  cases w with
  | nil =>
    refine ⟨al, ?_⟩
    simp only [nlEvs, List.append_nil, List.length_nil, Nat.add_zero]
    exact S_close_sep hst lit ck b b2 R i CS cx al hat.1
  | cons c w =>
    rw [At_append] at hat
    obtain ⟨al', h1⟩ := close_ws hst lit ck b b2 R c w hw i CS cx al hat.1
    have h2 := S_aft_sep ck R (i + (w.length + 1)) CS cx al' hat.2.1
    refine ⟨al', ?_⟩
    have := Steps.trans h1 h2
    rw [List.append_nil] at this
    exact this

/-- white space, then `]` -/
theorem close_rbrack {st : St} (hst : PV st = true) (lit : Bool) (b b2 a : Nat) (K : List (LexT × Nat))
    (w : List Cls) (hw : IsWs w) (i : Nat) (c0 : Ctx) (CS : List Ctx) (cx : Ctx) (al : Bool)
    (hat : At data i (w ++ [.rbrack])) :
    ∃ al', Steps data (cfg st [] (pendOf lit b ++ (.itemB, b2) :: (.arrB, a) :: K) false i (c0 :: CS) cx al)
      (closersOf lit .item b b2 (i - 1) ++ (nlEvs i w ++ [⟨.arrE, a, i + w.length⟩]))
      (cfg .endValue [] K false (i + w.length + 1) CS c0 al') := by
  cases w with
  | nil =>
    refine ⟨!cx.arrayHasItem, ?_⟩
    simp only [nlEvs, List.nil_append, List.length_nil, Nat.add_zero]
    exact S_close_rbrack hst lit b b2 a K i c0 CS cx al hat.1
  | cons c w =>
    rw [At_append] at hat
    obtain ⟨al', h1⟩ := close_ws hst lit .item b b2 ((.arrB, a) :: K) c w hw i (c0 :: CS) cx al hat.1
    have h2 := S_aft_rbrack a K (i + (w.length + 1)) c0 CS cx al' hat.2.1
    refine ⟨!cx.arrayHasItem, ?_⟩
    have := Steps.trans h1 h2
    rw [List.append_assoc] at this
    exact this

/-- white space, then `}` -/
theorem close_rbrace {st : St} (hst : PV st = true) (lit : Bool) (b b2 a : Nat) (K : List (LexT × Nat))
    (w : List Cls) (hw : IsWs w) (i : Nat) (c0 : Ctx) (CS : List Ctx) (cx : Ctx) (al : Bool)
    (hat : At data i (w ++ [.rbrace])) :
    ∃ al', Steps data (cfg st [] (pendOf lit b ++ (.valB, b2) :: (.objB, a) :: K) false i (c0 :: CS) cx al)
      (closersOf lit .val b b2 (i - 1) ++ (nlEvs i w ++ [⟨.objE, a, i + w.length⟩]))
      (cfg .endValue [] K false (i + w.length + 1) CS c0 al') := by
  cases w with
  | nil =>
    refine ⟨al, ?_⟩
    simp only [nlEvs, List.nil_append, List.length_nil, Nat.add_zero]
    exact S_close_rbrace hst lit b b2 a K i c0 CS cx al hat.1
  | cons c w =>
    rw [At_append] at hat
    obtain ⟨al', h1⟩ := close_ws hst lit .val b b2 ((.objB, a) :: K) c w hw i (c0 :: CS) cx al hat.1
    have h2 := S_aft_rbrace a K (i + (w.length + 1)) c0 CS cx al' hat.2.1
    refine ⟨al', ?_⟩
    have := Steps.trans h1 h2
    rw [List.append_assoc] at this
    exact this

/-- trailing white space up to the end of input after the top-level value -/
theorem close_root {st : St} (hst : PV st = true) (lit : Bool) (b : Nat)
    (w : List Cls) (hw : IsWs w) (i : Nat) (CS : List Ctx) (cx : Ctx) (al : Bool)
    (hat : At data i w) (hn : data.size = i + w.length) :
    Emits data (cfg st [] (pendOf lit b) false i CS cx al) (rootClosers lit b (i - 1) ++ nlEvs i w) := by
  cases w with
  | nil =>
    simp only [List.length_nil, Nat.add_zero] at hn
    cases lit
    · exact Emits.done rfl (by simp only [cfg]; omega) rfl
    · exact Emits.eofLit (s := cfg st [] (pendOf true b) false i CS cx al) rfl (by simp only [cfg]; omega) rfl rfl
  | cons c w =>
    obtain ⟨hc, hat'⟩ := hat
    obtain ⟨al', h2⟩ := ws_run w hw.tail .endTop rfl [] (i + 1) CS cx al hat'
    rw [wsSt_eq (by simp)] at h2
    have hend : Emits data (cfg .endTop [] [] false (i + 1 + w.length) CS cx al') [] :=
      Emits.done rfl (by simp only [cfg, List.length_cons] at hn ⊢; omega) rfl
    rcases blank_cases hw.head with hs | rfl
    · have h1 := S_root_sp hst hs lit b i CS cx al hc
      simp only [nlEvs, if_neg (sptab_ne_nl hs), List.nil_append]
      have := (Steps.trans h1 h2).emits hend
      rw [List.append_nil] at this
      exact this
    · have h1 := S_root_nl hst lit b i CS cx al hc
      simp only [nlEvs, if_true]
      have := (Steps.trans h1 h2).emits hend
      rw [List.append_nil, List.append_assoc] at this
      exact this

end SchemaScan
