import JSight.SchemaLenRun
/-!
The run of the schema scanner model over a plain-JSON value tree, for an arbitrary `lengthComputing` flag, as a `Path`
(`value_run` of `SchemaEventsTree` restated; same proof).
-/
namespace SchemaScan

/-- the scanner state right after the last byte of a value (containers: `endValue`; scalars: where the token
automaton stops — `d0`/`d1`/`dot0` for numbers, `endValue` for strings and `true`/`false`/`null`) -/
def Tree.endSt : Tree → St
  | .scalar (c :: tl) =>
    match litStart c with
    | some (st0, u0) =>
      match silentRun st0 [] u0 tl with
      | some (stE, _, _) => stE
      | none => .endValue
    | none => .endValue
  | _ => .endValue

namespace Len

variable {lc : Bool} {data : Array Cls}

theorem key_run {st : St} (hst : keySt st = true) (k : List Cls) (hk : IsKey k) (R : List (LexT × Nat))
    (w2 : List Cls) (hw : IsWs w2) (o : Nat) (CS : List Ctx) (cx : Ctx) (al : Bool)
    (hat : At data o (k ++ (w2 ++ [.colon]))) :
    ∃ al', Path data (cfgL lc st [] R false o CS cx al)
      ([⟨.keyB, o, o⟩, ⟨.keyE, o, o + k.length - 1⟩] ++ nlEvs (o + k.length) w2)
      (cfgL lc .objValue [] R false (o + k.length + w2.length + 1) CS cx al') := by
  obtain ⟨tl, rfl, hr⟩ := hk
  rw [At_append] at hat
  obtain ⟨⟨hq, htl⟩, hrest⟩ := hat
  have h1 := S_key_start (lc := lc) hst R o CS cx al hq
  have h2 := tok_run (lc := lc) tl _ _ _ _ _ _ hr ((.keyB, o) :: R) (o + 1) CS cx (keyAl st al) htl
  simp only [List.length_cons] at hrest ⊢
  rw [show o + 1 + tl.length = o + (tl.length + 1) by omega] at h2
  obtain ⟨al', h3⟩ := close_sep (lc := lc) (st := .endValue) rfl false .key 0 o R w2 hw (o + (tl.length + 1)) CS cx (keyAl st al) hrest
  refine ⟨al', ?_⟩
  have := Path.trans (Path.trans h1 h2) h3
  simpa [closersOf, CK.E, CK.nxt] using this

theorem cfg_congr {st : St} {r : List St} {K K' : List (LexT × Nat)} {u : Bool} {i i' : Nat} {CS : List Ctx} {cx : Ctx}
    {al : Bool} (hK : K = K') (hi : i = i') : cfgL lc st r K u i CS cx al = cfgL lc st r K' u i' CS cx al := by
  subst hK hi; rfl

mutual
theorem value_run : (v : Tree) → v.Valid → (ctx : VCtx) → (K : List (LexT × Nat)) → (o : Nat) →
    At data o v.render → (CS : List Ctx) → (cx : Ctx) → (al : Bool) →
    ∃ st cx' al', PV st = true ∧ st = v.endSt ∧
      Path data (cfgL lc ctx.st [] K false o CS cx al) (ctx.preEvs o ++ evsOpen o v)
        (cfgL lc st [] (pendOf v.isLit o ++ (ctx.pre o ++ K)) false (o + v.render.length) CS cx' al')
  | .scalar tok, hv, ctx, K, o, hat, CS, cx, al => by
    obtain ⟨c, tl, st0, unf0, stE, rfl, hs, hr, hp⟩ : IsScalar tok := by simpa [Tree.Valid] using hv
    simp only [Tree.render] at hat
    obtain ⟨hc, htl⟩ := hat
    have h1 := S_start_scalar (lc := lc) hs ctx K o CS cx al hc
    have h2 := tok_run (lc := lc) tl _ _ _ _ _ _ hr ((.litB, o) :: (ctx.pre o ++ K)) (o + 1) CS (ctx.cx' cx) al htl
    refine ⟨stE, ctx.cx' cx, al, hp, by simp [Tree.endSt, hs, hr], (Path.trans h1 h2).cast ?_ (cfg_congr ?_ ?_)⟩
    · simp [evsOpen]
    · simp [pendOf, Tree.isLit]
    · simp only [Tree.render, List.length_cons]; omega
  | .arr ws0 items, hv, ctx, K, o, hat, CS, cx, al => by
    obtain ⟨hw0, hi⟩ : IsWs ws0 ∧ ValidItems items := by simpa [Tree.Valid] using hv
    simp only [Tree.render] at hat
    obtain ⟨hc, hat⟩ := hat
    rw [At_append] at hat
    obtain ⟨hat0, hatI⟩ := hat
    have h1 := S_start_array (lc := lc) ctx K o CS cx al hc
    obtain ⟨al1, h2⟩ := ws_run (lc := lc) ws0 hw0 .arrItemOrEmpty rfl ((.arrB, o) :: (ctx.pre o ++ K)) (o + 1)
      (ctx.cx' cx :: CS) { ty := .array } al hat0
    rw [wsSt_eq (by simp)] at h2
    obtain ⟨al2, h3⟩ := items_run items hi true (fun _ => rfl) o (ctx.pre o ++ K) (o + 1 + ws0.length) hatI
      (ctx.cx' cx) CS { ty := .array } al1
    have h3' : Path data (cfgL lc .arrItemOrEmpty [] ((.arrB, o) :: (ctx.pre o ++ K)) false (o + 1 + ws0.length)
        (ctx.cx' cx :: CS) { ty := .array } al1) _ _ := h3
    refine ⟨.endValue, ctx.cx' cx, al2, rfl, rfl, (Path.trans (Path.trans h1 h2) h3').cast ?_ (cfg_congr ?_ ?_)⟩
    · simp [evsOpen, schemaEvsAt]
    · simp [pendOf, Tree.isLit]
    · simp only [Tree.render, List.length_cons, List.length_append]; omega
  | .obj ws0 members, hv, ctx, K, o, hat, CS, cx, al => by
    obtain ⟨hw0, hi⟩ : IsWs ws0 ∧ ValidMembers members := by simpa [Tree.Valid] using hv
    simp only [Tree.render] at hat
    obtain ⟨hc, hat⟩ := hat
    rw [At_append] at hat
    obtain ⟨hat0, hatI⟩ := hat
    have h1 := S_start_object (lc := lc) ctx K o CS cx al hc
    obtain ⟨al1, h2⟩ := ws_run (lc := lc) ws0 hw0 .objKeyOrEmpty rfl ((.objB, o) :: (ctx.pre o ++ K)) (o + 1)
      (ctx.cx' cx :: CS) { ty := .object } al hat0
    rw [wsSt_eq (by simp)] at h2
    obtain ⟨al2, h3⟩ := members_run members hi true (fun _ => rfl) o (ctx.pre o ++ K) (o + 1 + ws0.length) hatI
      (ctx.cx' cx) CS { ty := .object } al1
    have h3' : Path data (cfgL lc .objKeyOrEmpty [] ((.objB, o) :: (ctx.pre o ++ K)) false (o + 1 + ws0.length)
        (ctx.cx' cx :: CS) { ty := .object } al1) _ _ := h3
    refine ⟨.endValue, ctx.cx' cx, al2, rfl, rfl, (Path.trans (Path.trans h1 h2) h3').cast ?_ (cfg_congr ?_ ?_)⟩
    · simp [evsOpen, schemaEvsAt]
    · simp [pendOf, Tree.isLit]
    · simp only [Tree.render, List.length_cons, List.length_append]; omega
theorem items_run : (its : List (List Cls × Tree × List Cls)) → ValidItems its →
    (first : Bool) → (its = [] → first = true) → (a : Nat) → (K : List (LexT × Nat)) → (o : Nat) →
    At data o (renderItems its) → (c0 : Ctx) → (CS : List Ctx) → (cx : Ctx) → (al : Bool) →
    ∃ al', Path data (cfgL lc (itemCtx first).st [] ((.arrB, a) :: K) false o (c0 :: CS) cx al) (evsItems a o its)
      (cfgL lc .endValue [] K false (o + (renderItems its).length) CS c0 al')
  | [], _, first, hf, a, K, o, hat, c0, CS, cx, al => by
    rw [hf rfl]
    simp only [renderItems] at hat
    exact ⟨_, S_empty_arr a K o c0 CS cx al hat.1⟩
  | (w1, v, w2) :: its, hv, first, _, a, K, o, hat, c0, CS, cx, al => by
    obtain ⟨hw1, hvv, hw2, hits⟩ : IsWs w1 ∧ v.Valid ∧ IsWs w2 ∧ ValidItems its := by simpa [ValidItems] using hv
    simp only [renderItems] at hat
    rw [At_append, At_append] at hat
    obtain ⟨hat1, hatv, hat2⟩ := hat
    obtain ⟨al1, h1⟩ := ws_run (lc := lc) w1 hw1 _ (itemCtx_loop first) ((.arrB, a) :: K) o (c0 :: CS) cx al hat1
    rw [wsSt_eq (itemCtx_ne first)] at h1
    obtain ⟨st, cx2, al2, hp, -, h2⟩ := value_run v hvv (itemCtx first) ((.arrB, a) :: K) (o + w1.length) hatv
      (c0 :: CS) cx al1
    have hpre : (itemCtx first).pre (o + w1.length) ++ (.arrB, a) :: K
        = (.itemB, o + w1.length) :: (.arrB, a) :: K := by cases first <;> rfl
    have hpe : (itemCtx first).preEvs (o + w1.length) = [⟨.itemB, o + w1.length, o + w1.length⟩] := by
      cases first <;> rfl
    rw [hpre, hpe] at h2
    cases its with
    | nil =>
      simp only [List.isEmpty_nil, if_true, List.nil_append, renderItems] at hat2
      obtain ⟨al3, h3⟩ := close_rbrack (lc := lc) hp v.isLit (o + w1.length) (o + w1.length) a K w2 hw2
        (o + w1.length + v.render.length) c0 CS cx2 al2 hat2
      refine ⟨al3, (Path.trans (Path.trans h1 h2) h3).cast ?_ (cfg_congr rfl ?_)⟩
      · cases v <;> simp [evsItems, evsOpen, schemaEvsAt, closersOf, Tree.isLit, Tree.render, CK.E]
      · simp only [renderItems, List.isEmpty_nil, if_true, List.length_append, List.length_cons, List.length_nil]
        omega
    | cons it its' =>
      simp only [List.isEmpty_cons, Bool.false_eq_true, if_false] at hat2
      rw [← List.append_assoc, At_append] at hat2
      obtain ⟨hat2, hat3⟩ := hat2
      obtain ⟨al3, h3⟩ := close_sep (lc := lc) hp v.isLit .item (o + w1.length) (o + w1.length) ((.arrB, a) :: K) w2 hw2
        (o + w1.length + v.render.length) (c0 :: CS) cx2 al2 hat2
      simp only [List.length_append, List.length_cons, List.length_nil] at hat3
      obtain ⟨al4, h4⟩ := items_run (it :: its') hits false (by simp) a K
        (o + w1.length + v.render.length + w2.length + 1) (by
          rw [show o + w1.length + v.render.length + w2.length + 1
            = o + w1.length + v.render.length + (w2.length + (0 + 1)) by omega]; exact hat3) c0 CS cx2 al3
      have h4' : Path data (cfgL lc .arrItem [] ((.arrB, a) :: K) false (o + w1.length + v.render.length + w2.length + 1)
          (c0 :: CS) cx2 al3) _ _ := h4
      refine ⟨al4, (Path.trans (Path.trans (Path.trans h1 h2) h3) h4').cast ?_ (cfg_congr rfl ?_)⟩
      · cases v <;> simp [evsItems, evsOpen, schemaEvsAt, closersOf, Tree.isLit, Tree.render, CK.E]
      · simp only [renderItems, List.isEmpty_cons, Bool.false_eq_true, if_false, List.length_append, List.length_cons,
          List.length_nil]
        omega
theorem members_run : (ms : List (List Cls × List Cls × List Cls × List Cls × Tree × List Cls)) → ValidMembers ms →
    (first : Bool) → (ms = [] → first = true) → (a : Nat) → (K : List (LexT × Nat)) → (o : Nat) →
    At data o (renderMembers ms) → (c0 : Ctx) → (CS : List Ctx) → (cx : Ctx) → (al : Bool) →
    ∃ al', Path data (cfgL lc (keyCtxSt first) [] ((.objB, a) :: K) false o (c0 :: CS) cx al) (evsMembers a o ms)
      (cfgL lc .endValue [] K false (o + (renderMembers ms).length) CS c0 al')
  | [], _, first, hf, a, K, o, hat, c0, CS, cx, al => by
    rw [hf rfl]
    simp only [renderMembers] at hat
    exact ⟨_, S_empty_obj a K o c0 CS cx al hat.1⟩
  | (w1, k, w2, w3, v, w4) :: ms, hv, first, _, a, K, o, hat, c0, CS, cx, al => by
    obtain ⟨hw1, hk, hw2, hw3, hvv, hw4, hms⟩ :
        IsWs w1 ∧ IsKey k ∧ IsWs w2 ∧ IsWs w3 ∧ v.Valid ∧ IsWs w4 ∧ ValidMembers ms := by
      simpa [ValidMembers] using hv
    simp only [renderMembers] at hat
    rw [At_append, At_append, At_append] at hat
    obtain ⟨hat1, hatk, hat2, hatc⟩ := hat
    obtain ⟨hcolon, hat⟩ := hatc
    rw [At_append, At_append] at hat
    obtain ⟨hat3, hatv, hat4⟩ := hat
    obtain ⟨al1, h1⟩ := ws_run (lc := lc) w1 hw1 _ (keySt_loop (keyCtx_key first)) ((.objB, a) :: K) o (c0 :: CS) cx al hat1
    have hkat : At data (o + w1.length) (k ++ (w2 ++ [.colon])) := by
      rw [At_append, At_append]
      exact ⟨hatk, hat2, hcolon, trivial⟩
    obtain ⟨al2, h2⟩ := key_run (lc := lc) (keySt_wsSt (keyCtx_key first) w1) k hk ((.objB, a) :: K) w2 hw2 (o + w1.length)
      (c0 :: CS) cx al1 hkat
    obtain ⟨al3, h3⟩ := ws_run (lc := lc) w3 hw3 .objValue rfl ((.objB, a) :: K) (o + w1.length + k.length + w2.length + 1)
      (c0 :: CS) cx al2 hat3
    rw [wsSt_eq (by simp)] at h3
    obtain ⟨st, cx4, al4, hp, -, h4⟩ := value_run v hvv .objv ((.objB, a) :: K)
      (o + w1.length + k.length + w2.length + 1 + w3.length) hatv (c0 :: CS) cx al3
    have h4' : Path data (cfgL lc .objValue [] ((.objB, a) :: K) false (o + w1.length + k.length + w2.length + 1 + w3.length)
        (c0 :: CS) cx al3)
        ([⟨.valB, o + w1.length + k.length + w2.length + 1 + w3.length,
            o + w1.length + k.length + w2.length + 1 + w3.length⟩]
          ++ evsOpen (o + w1.length + k.length + w2.length + 1 + w3.length) v)
        (cfgL lc st [] (pendOf v.isLit (o + w1.length + k.length + w2.length + 1 + w3.length) ++
          (.valB, o + w1.length + k.length + w2.length + 1 + w3.length) :: (.objB, a) :: K) false
          (o + w1.length + k.length + w2.length + 1 + w3.length + v.render.length) (c0 :: CS) cx4 al4) := h4
    cases ms with
    | nil =>
      simp only [List.isEmpty_nil, if_true, List.nil_append, renderMembers] at hat4
      obtain ⟨al5, h5⟩ := close_rbrace (lc := lc) hp v.isLit _ _ a K w4 hw4 _ c0 CS cx4 al4 hat4
      refine ⟨al5, (Path.trans (Path.trans (Path.trans (Path.trans h1 h2) h3) h4') h5).cast ?_ (cfg_congr rfl ?_)⟩
      · cases v <;> simp [evsMembers, evsOpen, schemaEvsAt, closersOf, Tree.isLit, Tree.render, CK.E]
      · simp only [renderMembers, List.isEmpty_nil, if_true, List.length_append, List.length_cons, List.length_nil]
        omega
    | cons m ms' =>
      simp only [List.isEmpty_cons, Bool.false_eq_true, if_false] at hat4
      rw [← List.append_assoc, At_append] at hat4
      obtain ⟨hat4, hat5⟩ := hat4
      obtain ⟨al5, h5⟩ := close_sep (lc := lc) hp v.isLit .val _ _ ((.objB, a) :: K) w4 hw4 _ (c0 :: CS) cx4 al4 hat4
      simp only [List.length_append, List.length_cons, List.length_nil] at hat5
      obtain ⟨al6, h6⟩ := members_run (m :: ms') hms false (by simp) a K
        (o + w1.length + k.length + w2.length + 1 + w3.length + v.render.length + w4.length + 1) (by
          rw [show o + w1.length + k.length + w2.length + 1 + w3.length + v.render.length + w4.length + 1
            = o + w1.length + k.length + w2.length + 1 + w3.length + v.render.length + (w4.length + (0 + 1)) by omega]
          exact hat5) c0 CS cx4 al5
      have h6' : Path data (cfgL lc .objKey [] ((.objB, a) :: K) false
          (o + w1.length + k.length + w2.length + 1 + w3.length + v.render.length + w4.length + 1)
          (c0 :: CS) cx4 al5) _ _ := h6
      refine ⟨al6, (Path.trans (Path.trans (Path.trans (Path.trans (Path.trans h1 h2) h3) h4') h5) h6').cast ?_
        (cfg_congr rfl ?_)⟩
      · cases v <;> simp [evsMembers, evsOpen, schemaEvsAt, closersOf, Tree.isLit, Tree.render, CK.E]
      · simp only [renderMembers, List.isEmpty_cons, Bool.false_eq_true, if_false, List.length_append, List.length_cons,
          List.length_nil]
        omega
end

end Len
end SchemaScan
