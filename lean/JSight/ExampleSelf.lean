import JSight.Example
import JSight.CheckExample
/-!
C15, second half, for reference-free schemas: what `Example()` emits for a schema that `Check` accepts is
the (compact) text of the schema's EXAMPLE document, and that document validates against the schema.

`tok d` is the source token of the literal value `d`, `keyTok k` the source token of key `k`.
-/
namespace EX
open JsonScan
variable {L D : Type} (tok : D → List Cls) (keyTok : String → List Cls) (ex : L → D)

mutual
/-- the example builder's view of a reference-free schema -/
def ofS : VP.S L → N
  | .lit l => .lit (tok (ex l))
  | .any => .arr []
  | .arr items => .arr (ofItems items)
  | .obj props => .obj (ofProps props)
def ofItems : List (VP.S L) → List N
  | [] => []
  | s :: ss => ofS s :: ofItems ss
def ofProps : List (String × Bool × VP.S L) → List (List Cls × N)
  | [] => []
  | (k, _, s) :: ps => (keyTok k, ofS s) :: ofProps ps
end

mutual
/-- a document as a JSON tree in compact layout -/
def jaOf : VP.J D → JA
  | .lit d => .scalar (tok d)
  | .arr xs => .arr [] ((jaItems xs).map fun v => ([], v, []))
  | .obj ms => .obj [] ((jaMembers ms).map fun m => ([], m.1, [], [], m.2, []))
def jaItems : List (VP.J D) → List JA
  | [] => []
  | x :: xs => jaOf x :: jaItems xs
def jaMembers : List (String × VP.J D) → List (List Cls × JA)
  | [] => []
  | (k, v) :: ms => (keyTok k, jaOf v) :: jaMembers ms
end

mutual
theorem tree_ofS (ts : Types) (fuel : Nat) (proc : String → Nat) : (s : VP.S L) →
    tree ts fuel proc (ofS tok keyTok ex s) = some (some (jaOf tok keyTok (VP.exampleOf ex s)))
  | .lit l => by simp [ofS, tree, VP.exampleOf, jaOf]
  | .any => by simp [ofS, tree, treeKids, VP.exampleOf, jaOf, jaItems]
  | .arr items => by
    simp only [ofS, tree, VP.exampleOf, jaOf]
    rw [treeKids_ofItems ts fuel proc items]
  | .obj props => by
    simp only [ofS, tree, VP.exampleOf, jaOf]
    rw [treeProps_ofProps ts fuel proc props]
theorem treeKids_ofItems (ts : Types) (fuel : Nat) (proc : String → Nat) : (ss : List (VP.S L)) →
    treeKids ts fuel proc (ofItems tok keyTok ex ss) = some (jaItems tok keyTok (VP.exampleItems ex ss))
  | [] => by simp [ofItems, treeKids, VP.exampleItems, jaItems]
  | s :: ss => by
    simp only [ofItems, treeKids, VP.exampleItems, jaItems]
    rw [tree_ofS ts fuel proc s, treeKids_ofItems ts fuel proc ss]
theorem treeProps_ofProps (ts : Types) (fuel : Nat) (proc : String → Nat) : (ps : List (String × Bool × VP.S L)) →
    treeProps ts fuel proc (ofProps tok keyTok ex ps) = some (jaMembers tok keyTok (VP.exampleProps ex ps))
  | [] => by simp [ofProps, treeProps, VP.exampleProps, jaMembers]
  | (k, r, s) :: ps => by
    simp only [ofProps, treeProps, VP.exampleProps, jaMembers]
    rw [tree_ofS ts fuel proc s, treeProps_ofProps ts fuel proc ps]
end

/-- **C15 (reference-free schemas)**: for a schema `Check` accepts, `Example()` emits exactly the compact
text of the EXAMPLE document — nothing is omitted — and that document is accepted by `Validate`. -/
theorem C15_self_valid (litOK : L → D → Bool) (ts : Types) (fuel : Nat) (proc : String → Nat) (s : VP.S L)
    (h : VP.checked litOK ex s = true) :
    build ts fuel proc (ofS tok keyTok ex s) = some (some (jaOf tok keyTok (VP.exampleOf ex s)).render) ∧
    VP.validate litOK s (VP.exampleOf ex s) = true := by
  refine ⟨?_, VP.C04_example_valid litOK ex s h⟩
  rw [build_eq, tree_ofS]
  rfl

end EX
