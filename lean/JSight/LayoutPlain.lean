import JSight.LayoutAbs
/-!
C13, schema side, layouts without comments: the text of a plain-JSON tree, whatever its blanks and line ends, is
loaded (scanner model + loader model, `Loader.loadText`) into the table of its value.
Consequences: line-end style (`line_end_style`) and indentation (`indentation`) are invisible.
-/
namespace Lay
open SchemaScan (Cls classify Tree IsWs)

theorem classify_blank {b : UInt8} (h : isBlankB b = true) : (classify b).isBlank = true := by
  simp only [isBlankB, Bool.or_eq_true, beq_iff_eq] at h
  rcases h with ((rfl | rfl) | rfl) | rfl <;> rfl

theorem isWs_clsL {w : List LI} (hv : ValidL w) (hp : PlainL w) : IsWs (clsL w) := by
  induction w with
  | nil => intro c hc; simp [clsL, renderL] at hc
  | cons it w ih =>
    have hit := hv it (by simp)
    have hpl := hp it (by simp)
    have ih' := ih (fun x hx => hv x (by simp [hx])) (fun x hx => hp x (by simp [hx]))
    cases it with
    | blank b =>
      intro c hc
      simp only [clsL, renderL, LI.render, List.cons_append, List.nil_append, List.map_cons, List.mem_cons] at hc
      rcases hc with rfl | hc
      · exact classify_blank hit
      · exact ih' c hc
    | line _ _ => simp [LI.isBlank] at hpl
    | block _ => simp [LI.isBlank] at hpl

mutual
theorem plain_valid : (t : BTree) → t.Valid → t.Plain → t.toTree.Valid
  | .scalar tok, hv, _ => by simpa [BTree.toTree, Tree.Valid, BTree.Valid] using hv
  | .arr w0 its, hv, hp => by
    obtain ⟨h0, hi⟩ : ValidL w0 ∧ ValidItems its := by simpa [BTree.Valid] using hv
    obtain ⟨p0, pi⟩ : PlainL w0 ∧ PlainItems its := by simpa [BTree.Plain] using hp
    simpa [BTree.toTree, Tree.Valid] using And.intro (isWs_clsL h0 p0) (plain_items its hi pi)
  | .obj w0 ms, hv, hp => by
    obtain ⟨h0, hi⟩ : ValidL w0 ∧ ValidMembers ms := by simpa [BTree.Valid] using hv
    obtain ⟨p0, pi⟩ : PlainL w0 ∧ PlainMembers ms := by simpa [BTree.Plain] using hp
    simpa [BTree.toTree, Tree.Valid] using And.intro (isWs_clsL h0 p0) (plain_members ms hi pi)
theorem plain_items : (its : List BItem) → ValidItems its → PlainItems its → SchemaScan.ValidItems (toItems its)
  | [], _, _ => by simp [toItems, SchemaScan.ValidItems]
  | (w1, v, w2) :: its, hv, hp => by
    obtain ⟨h1, hvv, h2, hits⟩ : ValidL w1 ∧ v.Valid ∧ ValidL w2 ∧ ValidItems its := by simpa [ValidItems] using hv
    obtain ⟨p1, pv, p2, pits⟩ : PlainL w1 ∧ v.Plain ∧ PlainL w2 ∧ PlainItems its := by simpa [PlainItems] using hp
    simpa [toItems, SchemaScan.ValidItems] using And.intro (isWs_clsL h1 p1)
      (And.intro (plain_valid v hvv pv) (And.intro (isWs_clsL h2 p2) (plain_items its hits pits)))
theorem plain_members : (ms : List BMember) → ValidMembers ms → PlainMembers ms →
    SchemaScan.ValidMembers (toMembers ms)
  | [], _, _ => by simp [toMembers, SchemaScan.ValidMembers]
  | (w1, k, w2, w3, v, w4) :: ms, hv, hp => by
    obtain ⟨h1, hk, ⟨h2, p2⟩, ⟨h3, p3⟩, hvv, h4, hms⟩ :
        ValidL w1 ∧ SchemaScan.IsKey (k.map classify) ∧ (ValidL w2 ∧ PlainL w2) ∧ (ValidL w3 ∧ PlainL w3) ∧ v.Valid ∧
          ValidL w4 ∧ ValidMembers ms := by
      simpa [ValidMembers] using hv
    obtain ⟨p1, pv, p4, pms⟩ : PlainL w1 ∧ v.Plain ∧ PlainL w4 ∧ PlainMembers ms := by
      simpa [PlainMembers] using hp
    simpa [toMembers, SchemaScan.ValidMembers] using And.intro (isWs_clsL h1 p1) (And.intro hk
      (And.intro (isWs_clsL h2 p2) (And.intro (isWs_clsL h3 p3) (And.intro (plain_valid v hvv pv)
        (And.intro (isWs_clsL h4 p4) (plain_members ms hms pms))))))
end

/-- the whole schema text: leading layout, the value, trailing layout -/
def docText (w0 : List LI) (t : BTree) (w1 : List LI) : List UInt8 := renderL w0 ++ (t.render ++ renderL w1)

/-- **the text of a plain-JSON tree loads into the table of its value**: scanner model and loader model interleaved
as in `doLoad`; the result, read against the text, keeps nothing of the layout. -/
theorem load_plain (t : BTree) (hv : t.Valid) (hp : t.Plain) (hk : t.value.KeysNodup) (w0 w1 : List LI)
    (h0 : ValidL w0) (p0 : PlainL w0) (h1 : ValidL w1) (p1 : PlainL w1) :
    ∃ st, Loader.loadText (docText w0 t w1) = .ok st ∧ st.root = some 0 ∧
      absTable (docText w0 t w1).toArray st = tableOf none 0 t.value := by
  have hbs : (docText w0 t w1).map classify = clsL w0 ++ (t.toTree.render ++ clsL w1) := by
    simp only [docText, List.map_append, render_cls, clsL]
  have hat : AtB (docText w0 t w1).toArray (renderL w0).length t.render := by
    have := AtB_toArray (docText w0 t w1) (renderL w0) (t.render ++ renderL w1) rfl
    rw [AtB_append] at this
    exact this.1
  have hd := distinct_of_value (docText w0 t w1).toArray t hv hk (renderL w0).length hat
  rw [← clsL_length] at hd
  obtain ⟨st, hl, hr, hn⟩ := Loader.C16_loadText_mirrors_tree t.toTree (plain_valid t hv hp) (clsL w0) (clsL w1)
    (isWs_clsL h0 p0) (isWs_clsL h1 p1) (docText w0 t w1) hbs hd
  refine ⟨st, hl, hr, ?_⟩
  unfold absTable
  rw [hn, clsL_length]
  exact abs_nodesOf _ t hv none 0 _ hat

/-- two layouts of one value: the same table -/
theorem indentation (t t' : BTree) (hv : t.Valid) (hv' : t'.Valid) (hp : t.Plain) (hp' : t'.Plain)
    (hs : t.value = t'.value) (hk : t.value.KeysNodup) (w0 w1 w0' w1' : List LI)
    (h0 : ValidL w0) (p0 : PlainL w0) (h1 : ValidL w1) (p1 : PlainL w1)
    (h0' : ValidL w0') (p0' : PlainL w0') (h1' : ValidL w1') (p1' : PlainL w1') :
    ∃ st st', Loader.loadText (docText w0 t w1) = .ok st ∧ Loader.loadText (docText w0' t' w1') = .ok st' ∧
      st.root = st'.root ∧
      absTable (docText w0 t w1).toArray st = absTable (docText w0' t' w1').toArray st' := by
  obtain ⟨st, a, b, c⟩ := load_plain t hv hp hk w0 w1 h0 p0 h1 p1
  obtain ⟨st', a', b', c'⟩ := load_plain t' hv' hp' (hs ▸ hk) w0' w1' h0' p0' h1' p1'
  exact ⟨st, st', a, a', by rw [b, b'], by rw [c, c', hs]⟩

/-! ### line ends -/

/-- a line break: LF, CR or CR LF -/
def IsLB (x : List LI) : Prop := x = [.blank 10] ∨ x = [.blank 13] ∨ x = [.blank 13, .blank 10]

/-- `w'` is `w` with every line break re-spelled (each one on its own) -/
inductive LEVar : List LI → List LI → Prop
  | nil : LEVar [] []
  | same (b : UInt8) {w w' : List LI} : isBlankB b = true → isNlB b = false → LEVar w w' →
      LEVar (.blank b :: w) (.blank b :: w')
  | lb (x y : List LI) {w w' : List LI} : IsLB x → IsLB y → LEVar w w' → LEVar (x ++ w) (y ++ w')

mutual
/-- `t'` is `t` with every layout replaced by a related one -/
def BTree.Rel (R : List LI → List LI → Prop) : BTree → BTree → Prop
  | .scalar a, .scalar b => a = b
  | .arr w its, .arr w' its' => R w w' ∧ RelItems R its its'
  | .obj w ms, .obj w' ms' => R w w' ∧ RelMembers R ms ms'
  | .scalar _, .arr _ _ => False
  | .scalar _, .obj _ _ => False
  | .arr _ _, .scalar _ => False
  | .arr _ _, .obj _ _ => False
  | .obj _ _, .scalar _ => False
  | .obj _ _, .arr _ _ => False
def RelItems (R : List LI → List LI → Prop) : List BItem → List BItem → Prop
  | [], [] => True
  | (w1, v, w2) :: its, (w1', v', w2') :: its' => R w1 w1' ∧ v.Rel R v' ∧ R w2 w2' ∧ RelItems R its its'
  | [], _ :: _ => False
  | _ :: _, [] => False
def RelMembers (R : List LI → List LI → Prop) : List BMember → List BMember → Prop
  | [], [] => True
  | (w1, k, w2, w3, v, w4) :: ms, (w1', k', w2', w3', v', w4') :: ms' =>
    R w1 w1' ∧ k = k' ∧ R w2 w2' ∧ R w3 w3' ∧ v.Rel R v' ∧ R w4 w4' ∧ RelMembers R ms ms'
  | [], _ :: _ => False
  | _ :: _, [] => False
end

mutual
theorem rel_value (R : List LI → List LI → Prop) : (t t' : BTree) → t.Rel R t' → t.value = t'.value
  | .scalar a, .scalar b, h => by simp only [BTree.Rel] at h; simp [BTree.value, h]
  | .arr w its, .arr w' its', h => by
    simp only [BTree.Rel] at h
    simp only [BTree.value, rel_valueItems R its its' h.2]
  | .obj w ms, .obj w' ms', h => by
    simp only [BTree.Rel] at h
    simp only [BTree.value, rel_valueMembers R ms ms' h.2]
  | .scalar _, .arr _ _, h => by simp [BTree.Rel] at h
  | .scalar _, .obj _ _, h => by simp [BTree.Rel] at h
  | .arr _ _, .scalar _, h => by simp [BTree.Rel] at h
  | .arr _ _, .obj _ _, h => by simp [BTree.Rel] at h
  | .obj _ _, .scalar _, h => by simp [BTree.Rel] at h
  | .obj _ _, .arr _ _, h => by simp [BTree.Rel] at h
theorem rel_valueItems (R : List LI → List LI → Prop) : (its its' : List BItem) → RelItems R its its' →
    valueItems its = valueItems its'
  | [], [], _ => rfl
  | (w1, v, w2) :: its, (w1', v', w2') :: its', h => by
    simp only [RelItems] at h
    simp only [valueItems, rel_value R v v' h.2.1, rel_valueItems R its its' h.2.2.2]
  | [], _ :: _, h => by simp [RelItems] at h
  | _ :: _, [], h => by simp [RelItems] at h
theorem rel_valueMembers (R : List LI → List LI → Prop) : (ms ms' : List BMember) → RelMembers R ms ms' →
    valueMembers ms = valueMembers ms'
  | [], [], _ => rfl
  | (w1, k, w2, w3, v, w4) :: ms, (w1', k', w2', w3', v', w4') :: ms', h => by
    simp only [RelMembers] at h
    simp only [valueMembers, h.2.1, rel_value R v v' h.2.2.2.2.1, rel_valueMembers R ms ms' h.2.2.2.2.2.2]
  | [], _ :: _, h => by simp [RelMembers] at h
  | _ :: _, [], h => by simp [RelMembers] at h
end

/-- blank layouts -/
def BlankL (w : List LI) : Prop := ValidL w ∧ PlainL w

mutual
theorem rel_valid (R : List LI → List LI → Prop) (hR : ∀ w w', R w w' → BlankL w → BlankL w') :
    (t t' : BTree) → t.Rel R t' → t.Valid → t.Plain → t'.Valid ∧ t'.Plain
  | .scalar a, .scalar b, h, hv, _ => by
    simp only [BTree.Rel] at h
    subst h
    exact ⟨hv, by simp [BTree.Plain]⟩
  | .arr w its, .arr w' its', h, hv, hp => by
    simp only [BTree.Rel] at h
    obtain ⟨h0, hi⟩ : ValidL w ∧ ValidItems its := by simpa [BTree.Valid] using hv
    obtain ⟨p0, pi⟩ : PlainL w ∧ PlainItems its := by simpa [BTree.Plain] using hp
    obtain ⟨a, b⟩ := hR w w' h.1 ⟨h0, p0⟩
    obtain ⟨c, d⟩ := rel_validItems R hR its its' h.2 hi pi
    exact ⟨by simpa [BTree.Valid] using And.intro a c, by simpa [BTree.Plain] using And.intro b d⟩
  | .obj w ms, .obj w' ms', h, hv, hp => by
    simp only [BTree.Rel] at h
    obtain ⟨h0, hi⟩ : ValidL w ∧ ValidMembers ms := by simpa [BTree.Valid] using hv
    obtain ⟨p0, pi⟩ : PlainL w ∧ PlainMembers ms := by simpa [BTree.Plain] using hp
    obtain ⟨a, b⟩ := hR w w' h.1 ⟨h0, p0⟩
    obtain ⟨c, d⟩ := rel_validMembers R hR ms ms' h.2 hi pi
    exact ⟨by simpa [BTree.Valid] using And.intro a c, by simpa [BTree.Plain] using And.intro b d⟩
  | .scalar _, .arr _ _, h, _, _ => by simp [BTree.Rel] at h
  | .scalar _, .obj _ _, h, _, _ => by simp [BTree.Rel] at h
  | .arr _ _, .scalar _, h, _, _ => by simp [BTree.Rel] at h
  | .arr _ _, .obj _ _, h, _, _ => by simp [BTree.Rel] at h
  | .obj _ _, .scalar _, h, _, _ => by simp [BTree.Rel] at h
  | .obj _ _, .arr _ _, h, _, _ => by simp [BTree.Rel] at h
theorem rel_validItems (R : List LI → List LI → Prop) (hR : ∀ w w', R w w' → BlankL w → BlankL w') :
    (its its' : List BItem) → RelItems R its its' → ValidItems its → PlainItems its →
    ValidItems its' ∧ PlainItems its'
  | [], [], _, _, _ => ⟨by simp [ValidItems], by simp [PlainItems]⟩
  | (w1, v, w2) :: its, (w1', v', w2') :: its', h, hv, hp => by
    simp only [RelItems] at h
    obtain ⟨h1, hvv, h2, hits⟩ : ValidL w1 ∧ v.Valid ∧ ValidL w2 ∧ ValidItems its := by simpa [ValidItems] using hv
    obtain ⟨p1, pv, p2, pits⟩ : PlainL w1 ∧ v.Plain ∧ PlainL w2 ∧ PlainItems its := by simpa [PlainItems] using hp
    obtain ⟨a1, b1⟩ := hR w1 w1' h.1 ⟨h1, p1⟩
    obtain ⟨a2, b2⟩ := hR w2 w2' h.2.2.1 ⟨h2, p2⟩
    obtain ⟨c, d⟩ := rel_valid R hR v v' h.2.1 hvv pv
    obtain ⟨e, f⟩ := rel_validItems R hR its its' h.2.2.2 hits pits
    exact ⟨by simpa [ValidItems] using And.intro a1 (And.intro c (And.intro a2 e)),
      by simpa [PlainItems] using And.intro b1 (And.intro d (And.intro b2 f))⟩
  | [], _ :: _, h, _, _ => by simp [RelItems] at h
  | _ :: _, [], h, _, _ => by simp [RelItems] at h
theorem rel_validMembers (R : List LI → List LI → Prop) (hR : ∀ w w', R w w' → BlankL w → BlankL w') :
    (ms ms' : List BMember) → RelMembers R ms ms' → ValidMembers ms → PlainMembers ms →
    ValidMembers ms' ∧ PlainMembers ms'
  | [], [], _, _, _ => ⟨by simp [ValidMembers], by simp [PlainMembers]⟩
  | (w1, k, w2, w3, v, w4) :: ms, (w1', k', w2', w3', v', w4') :: ms', h, hv, hp => by
    simp only [RelMembers] at h
    obtain ⟨h1, hk, hb2, hb3, hvv, h4, hms⟩ :
        ValidL w1 ∧ SchemaScan.IsKey (k.map classify) ∧ (ValidL w2 ∧ PlainL w2) ∧ (ValidL w3 ∧ PlainL w3) ∧ v.Valid ∧
          ValidL w4 ∧ ValidMembers ms := by
      simpa [ValidMembers] using hv
    obtain ⟨p1, pv, p4, pms⟩ : PlainL w1 ∧ v.Plain ∧ PlainL w4 ∧ PlainMembers ms := by
      simpa [PlainMembers] using hp
    obtain ⟨hr1, hkk, hr2, hr3, hrv, hr4, hrm⟩ := h
    subst hkk
    obtain ⟨a1, b1⟩ := hR w1 w1' hr1 ⟨h1, p1⟩
    have c2 : ValidL w2' ∧ PlainL w2' := hR w2 w2' hr2 hb2
    have c3 : ValidL w3' ∧ PlainL w3' := hR w3 w3' hr3 hb3
    obtain ⟨a4, b4⟩ := hR w4 w4' hr4 ⟨h4, p4⟩
    obtain ⟨c, d⟩ := rel_valid R hR v v' hrv hvv pv
    obtain ⟨e, f⟩ := rel_validMembers R hR ms ms' hrm hms pms
    exact ⟨by simpa [ValidMembers] using And.intro a1 (And.intro hk (And.intro c2 (And.intro c3
        (And.intro c (And.intro a4 e))))),
      by simpa [PlainMembers] using And.intro b1 (And.intro d (And.intro b4 f))⟩
  | [], _ :: _, h, _, _ => by simp [RelMembers] at h
  | _ :: _, [], h, _, _ => by simp [RelMembers] at h
end

theorem blankL_cons {it : LI} {w : List LI} : BlankL (it :: w) ↔ (it.Valid ∧ it.isBlank = true) ∧ BlankL w := by
  simp only [BlankL, ValidL, PlainL, List.mem_cons, forall_eq_or_imp]
  constructor
  · rintro ⟨⟨a, b⟩, c, d⟩; exact ⟨⟨a, c⟩, b, d⟩
  · rintro ⟨⟨a, c⟩, b, d⟩; exact ⟨⟨a, b⟩, c, d⟩

theorem blankL_lb {y : List LI} (hy : IsLB y) {w : List LI} (hw : BlankL w) : BlankL (y ++ w) := by
  rcases hy with rfl | rfl | rfl
  · exact blankL_cons.2 ⟨⟨rfl, rfl⟩, hw⟩
  · exact blankL_cons.2 ⟨⟨rfl, rfl⟩, hw⟩
  · exact blankL_cons.2 ⟨⟨rfl, rfl⟩, blankL_cons.2 ⟨⟨rfl, rfl⟩, hw⟩⟩

theorem blankL_drop_lb {x : List LI} (hx : IsLB x) {w : List LI} (h : BlankL (x ++ w)) : BlankL w := by
  rcases hx with rfl | rfl | rfl
  · exact (blankL_cons.1 h).2
  · exact (blankL_cons.1 h).2
  · exact (blankL_cons.1 (blankL_cons.1 h).2).2

theorem leVar_blank {w w' : List LI} (h : LEVar w w') : BlankL w → BlankL w' := by
  induction h with
  | nil => exact id
  | same b hb _ _ ih => intro hw; exact blankL_cons.2 ⟨⟨hb, rfl⟩, ih (blankL_cons.1 hw).2⟩
  | lb x y hx hy _ ih => intro hw; exact blankL_lb hy (ih (blankL_drop_lb hx hw))

/-- **line ends**: every line break of the layout re-spelled as LF, CR or CR LF, each on its own: the same table -/
theorem line_end_style (t t' : BTree) (hv : t.Valid) (hp : t.Plain) (hr : t.Rel LEVar t')
    (hk : t.value.KeysNodup) (w0 w1 w0' w1' : List LI) (b0 : BlankL w0) (b1 : BlankL w1)
    (r0 : LEVar w0 w0') (r1 : LEVar w1 w1') :
    ∃ st st', Loader.loadText (docText w0 t w1) = .ok st ∧ Loader.loadText (docText w0' t' w1') = .ok st' ∧
      st.root = st'.root ∧
      absTable (docText w0 t w1).toArray st = absTable (docText w0' t' w1').toArray st' := by
  obtain ⟨hv', hp'⟩ := rel_valid LEVar (fun _ _ h => leVar_blank h) t t' hr hv hp
  obtain ⟨h0', p0'⟩ := leVar_blank r0 b0
  obtain ⟨h1', p1'⟩ := leVar_blank r1 b1
  exact indentation t t' hv hv' hp hp' (rel_value LEVar t t' hr) hk w0 w1 w0' w1' b0.1 b0.2 b1.1 b1.2 h0' p0' h1' p1'

end Lay
