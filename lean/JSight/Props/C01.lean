import JSight.Validate
import JSight.ValidateP
import JSight.ValidateNProofs
import JSight.E2EThm
import JSight.E2EKinds
import JSight.CommentExamples
import JSight.LoaderTreeExamples
/-!
# C01 — Validate accepts exactly the documents shaped like the schema's EXAMPLE

Model: the validator of the rule-free fragment as the code runs it — a stack of validator frames
(`lit`, `any depth`, `arr items count`, `obj props required lastKey`) fed with the lexical events of
the document (`evs`; C06 shows the scanner emits them). Spec: `shape` — same kind at every position
(an integer where the example is a float; `null` where the example is null / nullable / any), every
member key is an example key, every required key occurs, i-th element against example element
`min i (n-1)`, an empty example array admits only `[]`. Documents are member *lists*: repeated and
reordered keys are inputs. No bound on depth or width.
Nullable containers (fix F-14) are alternatives `{…} | null`: they are covered by the union theorem
`VN.C03_validate_iff_union` (see C03), of which the chain machine here is the one-alternative case.
-/
namespace Props.C01

/-- the event machine accepts exactly the documents of the example's shape (concrete kinds) -/
theorem C01_validate_iff_shape (s : V.S) (d : V.J) : V.validate s d = V.shape s d :=
  V.C01_validate_iff_shape s d

/-- the same for any scalar-rule semantics `litOK` (C02's rules compose with nesting) -/
theorem C01_validate_iff_shape_param {L D : Type} (litOK : L → D → Bool) (s : VP.S L) (d : VP.J D) :
    VP.validate litOK s d = VP.shape litOK s d :=
  VP.C01_validate_iff_shape litOK s d

/-- with alternatives (nullable containers after F-14 are `alt [container, null-literal]`) -/
theorem C01_with_alternatives {L D : Type} (litOK : L → D → Bool) (s : VN.S L) (d : VN.J D) :
    VN.validate litOK s d = VN.shape litOK s d :=
  VN.C03_validate_iff_union litOK s d

section order
variable {L D : Type} (litOK : L → D → Bool)

theorem shapeMembers_eq_all (props : List (String × Bool × VP.S L)) (ms : List (String × VP.J D)) :
    VP.shapeMembers litOK props ms =
      ms.all (fun m => match VP.lookup props m.1 with | some s => VP.shape litOK s m.2 | none => false) := by
  induction ms with
  | nil => simp [VP.shapeMembers]
  | cons m ms ih => obtain ⟨k, v⟩ := m; simp only [VP.shapeMembers, ih, List.all_cons]; cases VP.lookup props k <;> rfl

/-- the verdict does not depend on property order in the document -/
theorem C01_order_indep (props : List (String × Bool × VP.S L)) (ms ms' : List (String × VP.J D)) (h : ms.Perm ms') :
    VP.shape litOK (.obj props) (.obj ms) = VP.shape litOK (.obj props) (.obj ms') := by
  simp only [VP.shape, shapeMembers_eq_all]
  rw [h.all_eq]
  congr 1
  apply List.all_congr rfl
  intro k
  exact h.any_eq

end order

/-! ### KeysAreOptionalByDefault only makes unmarked keys optional -/
/-- schema before compilation: a property is marked `optional: true`, `optional: false` or unmarked -/
inductive RS
  | lit (k : V.Kind) (nullable : Bool)
  | any
  | arr (items : List RS)
  | obj (props : List (String × Option Bool × RS))

mutual
/-- `optionalConstraints` of the compiler: required = not optional; unmarked keys follow the option -/
def compile (optByDefault : Bool) : RS → V.S
  | .lit k n => .lit k n
  | .any => .any
  | .arr items => .arr (compileItems optByDefault items)
  | .obj props => .obj (compileProps optByDefault props)
def compileItems (optByDefault : Bool) : List RS → List V.S
  | [] => []
  | s :: ss => compile optByDefault s :: compileItems optByDefault ss
def compileProps (optByDefault : Bool) : List (String × Option Bool × RS) → List (String × Bool × V.S)
  | [] => []
  | (k, mark, s) :: ps =>
    (k, (match mark with | some o => !o | none => !optByDefault), compile optByDefault s) :: compileProps optByDefault ps
end

mutual
/-- mark every unmarked key `optional: true` -/
def markOptional : RS → RS
  | .lit k n => .lit k n
  | .any => .any
  | .arr items => .arr (markItems items)
  | .obj props => .obj (markProps props)
def markItems : List RS → List RS
  | [] => []
  | s :: ss => markOptional s :: markItems ss
def markProps : List (String × Option Bool × RS) → List (String × Option Bool × RS)
  | [] => []
  | (k, mark, s) :: ps => (k, (match mark with | some o => some o | none => some true), markOptional s) :: markProps ps
end

mutual
theorem compile_true_eq : (s : RS) → compile true s = compile false (markOptional s)
  | .lit k n => by simp [compile, markOptional]
  | .any => by simp [compile, markOptional]
  | .arr items => by simp [compile, markOptional, compileItems_true_eq items]
  | .obj props => by simp [compile, markOptional, compileProps_true_eq props]
theorem compileItems_true_eq : (ss : List RS) → compileItems true ss = compileItems false (markItems ss)
  | [] => by simp [compileItems, markItems]
  | s :: ss => by simp [compileItems, markItems, compile_true_eq s, compileItems_true_eq ss]
theorem compileProps_true_eq : (ps : List (String × Option Bool × RS)) →
    compileProps true ps = compileProps false (markProps ps)
  | [] => by simp [compileProps, markProps]
  | (k, mark, s) :: ps => by
    cases mark <;> simp [compileProps, markProps, compile_true_eq s, compileProps_true_eq ps]
end

/-- the option changes the verdict only by making unmarked keys optional -/
theorem C01_cfg_only_optional (s : RS) (d : V.J) :
    V.validate (compile true s) d = V.validate (compile false (markOptional s)) d := by
  rw [compile_true_eq]

/-! Non-vacuity -/
example : V.validate (.obj [("a", true, .lit .flt false), ("b", false, .arr [.lit .str true])])
    (.obj [("b", .arr [.lit .null, .lit .str]), ("a", .lit .int)]) = true := by decide +kernel
example : V.validate (.obj [("a", true, .lit .flt false)]) (.obj []) = false := by decide +kernel
example : V.validate (.arr []) (.arr [.lit .int]) = false := by decide +kernel

/-! ## C01 on TEXTS: schema text + document text ↦ verdict, with no abstract schema in the trusted base

`E2E.validateText root types doc opt` is the whole pipeline as models of the code: schema scanner model → loader model
(`Loader`, rule values kept) → `Compile` (constraint constructors, `CompileBasic`, `CheckRootSchema`, `CheckRecursion`,
validator schema) → JSON scanner model → the validator machine `VK` fed with the lexical events; tied to the real
`AddType` / `Check` / `Validate` by the harness command `e2e-text`, which sends the TEXTS only.

The theorem: the schema text is the text of a plain-JSON value `t` (`Lay.BTree`: every token a token of the schema
scanner, any white-space layout incl. LF / CR / CRLF, user comments `#` / `###` wherever the scanner takes them, an
unterminated last comment `fin`), keys of one object pairwise distinct after decoding, every scalar token of a
guessable kind; the document text is the text of a JSON value `d` (`VPos.T UInt8`: tokens of the JSON scanner, any
white space around every token, `ws0` / `ws1` around the document). Then the pipeline answers `acc` exactly when the
document (layout removed, keys decoded: `E2E.docOf d`) has the SHAPE of the schema's value (`E2E.schemaOf opt t.value`:
every scalar a literal of its kind, keys decoded, every key required unless the option is set) — `VN.shape`, the
specification of `C01_with_alternatives`, with the kind matrix on document tokens (`E2E.kindOKTok`: the token's kind is
the example's, or an integer where the example is a float) — and `rej` otherwise: never a schema error, a document
error or `unsupported`.
Composition of `C13_text_with_comments_loads_value` (C06 / C16 on the schema side), `E2E.loadSchema_plain`
(`Compile` on rule-free tables), `C06_events_of_tree` and `E2E.docEvs_tree` (document side), `C03_key_shortcuts`
(the validator machine = its specification) and `E2E.shape_plain`. -/

theorem C01_text_level (opt : Bool) (t : Lay.BTree) (hv : t.Valid) (hk : t.value.KeysNodup)
    (hg : E2E.guessable t.value = true) (w0 w1 : List Lay.LI) (h0 : Lay.ValidL w0) (h1 : Lay.ValidL w1)
    (fin : List UInt8) (hf : Lay.IsFin fin)
    (d : VPos.T UInt8) (hd : (VPos.toJA JsonScan.classify d).Valid) (ws0 ws1 : List UInt8)
    (hw0 : JsonScan.IsWs (ws0.map JsonScan.classify)) (hw1 : JsonScan.IsWs (ws1.map JsonScan.classify)) :
    E2E.validateText (Lay.docTextF w0 t w1 fin) [] (ws0 ++ (d.render VPos.byteSym ++ ws1)) opt
      = if VN.shape E2E.kindOKTok (E2E.schemaOf opt t.value) (E2E.docOf d) then .acc else .rej :=
  E2E.text_level opt t hv hk hg w0 w1 h0 h1 fin hf d hd ws0 ws1 hw0 hw1

/-- the same with the specification of `C01_validate_iff_shape` itself (`V.shape` on concrete kinds), for documents
whose scalar tokens all have a kind (every RFC 8259 token but the numerals `0e1`, `-0E5`, …: known finding
K-C10-zeroexp, `C10_total`) -/
theorem C01_text_level_kinds (opt : Bool) (t : Lay.BTree) (hv : t.Valid) (hk : t.value.KeysNodup)
    (hg : E2E.guessable t.value = true) (w0 w1 : List Lay.LI) (h0 : Lay.ValidL w0) (h1 : Lay.ValidL w1)
    (fin : List UInt8) (hf : Lay.IsFin fin)
    (d : VPos.T UInt8) (hd : (VPos.toJA JsonScan.classify d).Valid) (hdg : E2E.docGuessable (E2E.docOf d) = true)
    (ws0 ws1 : List UInt8)
    (hw0 : JsonScan.IsWs (ws0.map JsonScan.classify)) (hw1 : JsonScan.IsWs (ws1.map JsonScan.classify)) :
    E2E.validateText (Lay.docTextF w0 t w1 fin) [] (ws0 ++ (d.render VPos.byteSym ++ ws1)) opt
      = if V.shape (E2E.schemaV opt t.value) (E2E.toVJ (E2E.docOf d)) then .acc else .rej := by
  rw [E2E.text_level opt t hv hk hg w0 w1 h0 h1 fin hf d hd ws0 ws1 hw0 hw1,
    E2E.kinds_value opt (E2E.docOf d) hdg t.value]

/-- consequence (C13 at the level of verdicts): the outcome depends on the schema text only through its VALUE and on
the document text only through the document it denotes — two spellings of the schema (layout, line ends, user
comments) and two spellings of the document (white space) give the same outcome -/
theorem C01_text_level_surface_invariant (opt : Bool) (t t' : Lay.BTree) (hv : t.Valid) (hv' : t'.Valid)
    (hs : t.value = t'.value) (hk : t.value.KeysNodup) (hg : E2E.guessable t.value = true)
    (w0 w1 w0' w1' : List Lay.LI) (h0 : Lay.ValidL w0) (h1 : Lay.ValidL w1) (h0' : Lay.ValidL w0') (h1' : Lay.ValidL w1')
    (fin fin' : List UInt8) (hf : Lay.IsFin fin) (hf' : Lay.IsFin fin')
    (d d' : VPos.T UInt8) (hd : (VPos.toJA JsonScan.classify d).Valid) (hd' : (VPos.toJA JsonScan.classify d').Valid)
    (hdd : E2E.docOf d = E2E.docOf d') (ws0 ws1 ws0' ws1' : List UInt8)
    (hw0 : JsonScan.IsWs (ws0.map JsonScan.classify)) (hw1 : JsonScan.IsWs (ws1.map JsonScan.classify))
    (hw0' : JsonScan.IsWs (ws0'.map JsonScan.classify)) (hw1' : JsonScan.IsWs (ws1'.map JsonScan.classify)) :
    E2E.validateText (Lay.docTextF w0 t w1 fin) [] (ws0 ++ (d.render VPos.byteSym ++ ws1)) opt
      = E2E.validateText (Lay.docTextF w0' t' w1' fin') [] (ws0' ++ (d'.render VPos.byteSym ++ ws1')) opt := by
  rw [C01_text_level opt t hv hk hg w0 w1 h0 h1 fin hf d hd ws0 ws1 hw0 hw1,
    C01_text_level opt t' hv' (hs ▸ hk) (hs ▸ hg) w0' w1' h0' h1' fin' hf' d' hd' ws0' ws1' hw0' hw1', hs, hdd]

/-- the two halves, separately. Schema side: scanner model + loader model + `Compile` on the text of a plain-JSON
value yield the compiled tree of the value, whose validator schema is `E2E.vkOf` — a function of the VALUE only -/
theorem C01_text_schema_half (opt : Bool) (t : Lay.BTree) (hv : t.Valid) (hk : t.value.KeysNodup)
    (hg : E2E.guessable t.value = true) (w0 w1 : List Lay.LI) (h0 : Lay.ValidL w0) (h1 : Lay.ValidL w1)
    (fin : List UInt8) (hf : Lay.IsFin fin) :
    E2E.loadSchema (Lay.docTextF w0 t w1 fin) opt = .ok (some (E2E.cnOf opt t.value)) ∧
    Compile.check (E2E.cnOf opt t.value) [] = .ok () ∧
    Compile.toVK "root" (E2E.cnOf opt t.value) = E2E.vkOf opt t.value ∧
    Compile.envOf (E2E.cnOf opt t.value) [] = [] := by
  obtain ⟨st, hl, hr, ht⟩ := Lay.load_comments t hv hk w0 w1 h0 h1 fin hf
  exact ⟨E2E.loadSchema_plain _ opt st t.value hl hr ht hg, E2E.check_plain opt t.value hg,
    E2E.toVK_plain opt t.value "root", E2E.envOf_plain opt t.value⟩

/-- document side: the JSON scanner model on the text of a document tree delivers — read as the validator reads
lexemes — the event stream of the document without layout, and no error -/
theorem C01_text_document_half (d : VPos.T UInt8) (hd : (VPos.toJA JsonScan.classify d).Valid) (ws0 ws1 : List UInt8)
    (hw0 : JsonScan.IsWs (ws0.map JsonScan.classify)) (hw1 : JsonScan.IsWs (ws1.map JsonScan.classify)) :
    ∃ evs, E2E.eventsP (ws0 ++ (d.render VPos.byteSym ++ ws1)) = (evs, none) ∧
      E2E.docEvs (ws0 ++ (d.render VPos.byteSym ++ ws1)) evs = VN.evs (E2E.docOf d) :=
  E2E.doc_events d hd ws0 ws1 hw0 hw1

/-- validator side: on such schemas the specification of the validator machine is the C01 shape -/
theorem C01_text_validator_half (opt : Bool) (kOK : String → String → Bool) (v : Lay.JV) (dd : VN.J (List UInt8)) :
    VK.validateT ([] : VK.Env Compile.Lit) Compile.litOK kOK (E2E.vkOf opt v) dd
      = VN.shape E2E.kindOKTok (E2E.schemaOf opt v) dd := by
  rw [VK.C03_key_shortcuts, E2E.shape_plain]

/-! Non-vacuity: the schema text `{ # first⏎#####"a": [1,#␍⏎true ### x⏎ y ###⏎]#c⏎}⏎# end` (user comments, CR LF, an
unterminated last comment; its value is `{"a": [1, true]}`) against the documents ` {"a" : [7, false , true]}⏎`
(accepted: the last example element repeats) and `{"a":["x"]}` (rejected). -/
section nonvacuity
open JsonScan

def exDocAcc : VPos.T UInt8 :=
  .obj [] [([], [34, 97, 34], [32], [32],
    .arr [] [([], .scalar [55], []), ([32], .scalar [102, 97, 108, 115, 101], [32]), ([32], .scalar [116, 114, 117, 101], [])],
    [])]
def exDocRej : VPos.T UInt8 := .obj [] [([], [34, 97, 34], [], [], .arr [] [([], .scalar [34, 120, 34], [])], [])]

theorem exDocAcc_valid : (VPos.toJA classify exDocAcc).Valid := by
  have e : VPos.toJA classify exDocAcc = .obj [] [([], [.quote, .la, .quote], [.sp], [.sp],
      .arr [] [([], .scalar [.d19], []), ([.sp], .scalar [.lf, .la, .ll, .ls, .le], [.sp]),
        ([.sp], .scalar [.lt, .lr, .lu, .le], [])], [])] := by
    simp [exDocAcc, VPos.toJA, VPos.toJAItems, VPos.toJAMembers]; decide
  rw [e]
  have k1 : IsKey [.quote, .la, .quote] := string_isKey [.la] (.plain _ _ rfl .nil)
  have n1 : IsScalar [.d19] := ⟨.d19, [], .d1, false, .d1, rfl, rfl, rfl, rfl⟩
  simp [JA.Valid, ValidMembers, ValidItems, IsWs, Cls.isWs, k1, n1, true_isScalar, false_isScalar]

theorem exDocRej_valid : (VPos.toJA classify exDocRej).Valid := by
  have e : VPos.toJA classify exDocRej = .obj [] [([], [.quote, .la, .quote], [], [],
      .arr [] [([], .scalar [.quote, .other, .quote], [])], [])] := by
    simp [exDocRej, VPos.toJA, VPos.toJAItems, VPos.toJAMembers]; decide
  rw [e]
  have k1 : IsKey [.quote, .la, .quote] := string_isKey [.la] (.plain _ _ rfl .nil)
  have s1 : IsScalar [.quote, .other, .quote] := string_isScalar [.other] (.plain _ _ rfl .nil)
  simp [JA.Valid, ValidMembers, ValidItems, IsWs, k1, s1]

example : E2E.validateText (Lay.docTextF [] Lay.Ex.tC [.blank 10] Lay.Ex.cFin) []
    ([32] ++ (exDocAcc.render VPos.byteSym ++ [10])) false = .acc := by
  rw [C01_text_level_kinds false Lay.Ex.tC Lay.Ex.tC_valid (Lay.Ex.tC_value ▸ Lay.Ex.keys_ok) (by decide +kernel) []
    [.blank 10] (by simp [Lay.ValidL]) (by simp [Lay.ValidL, Lay.LI.Valid, Lay.isBlankB]) Lay.Ex.cFin Lay.Ex.cFin_ok
    exDocAcc exDocAcc_valid (by decide +kernel) [32] [10] (by simp [IsWs, classify, Cls.isWs])
    (by simp [IsWs, classify, Cls.isWs])]
  have h : V.shape (E2E.schemaV false Lay.Ex.tC.value) (E2E.toVJ (E2E.docOf exDocAcc)) = true := by decide +kernel
  rw [if_pos h]

example : E2E.validateText (Lay.docTextF [] Lay.Ex.tC [.blank 10] Lay.Ex.cFin) []
    ([] ++ (exDocRej.render VPos.byteSym ++ [])) false = .rej := by
  rw [C01_text_level_kinds false Lay.Ex.tC Lay.Ex.tC_valid (Lay.Ex.tC_value ▸ Lay.Ex.keys_ok) (by decide +kernel) []
    [.blank 10] (by simp [Lay.ValidL]) (by simp [Lay.ValidL, Lay.LI.Valid, Lay.isBlankB]) Lay.Ex.cFin Lay.Ex.cFin_ok
    exDocRej exDocRej_valid (by decide +kernel) [] [] (by simp [IsWs]) (by simp [IsWs])]
  have h : V.shape (E2E.schemaV false Lay.Ex.tC.value) (E2E.toVJ (E2E.docOf exDocRej)) = false := by decide +kernel
  rw [h]
  rfl

example : exDocAcc.render VPos.byteSym
    = [123, 34, 97, 34, 32, 58, 32, 91, 55, 44, 32, 102, 97, 108, 115, 101, 32, 44, 32, 116, 114, 117, 101, 93, 125] := by
  decide +kernel
example : E2E.docGuessable (E2E.docOf exDocAcc) = true := by decide +kernel

/-! The hypothesis "keys pairwise distinct after decoding" cannot be dropped: without it the statement is false.
Witness `{"a":1,"\u0061":2}` (`Loader.dupBytes`): the loader refuses it with error 402 (`C16_text_duplicate_key`), so
`validateText` answers a schema error for every document, never `acc` / `rej`. -/

/-- `C01_text_level` without the two side conditions on the schema value -/
def C01_text_level_unrestricted : Prop :=
  ∀ (opt : Bool) (t : Lay.BTree), t.Valid → ∀ (w0 w1 : List Lay.LI), Lay.ValidL w0 → Lay.ValidL w1 →
    ∀ (fin : List UInt8), Lay.IsFin fin → ∀ (d : VPos.T UInt8), (VPos.toJA JsonScan.classify d).Valid →
    ∀ (ws0 ws1 : List UInt8), JsonScan.IsWs (ws0.map JsonScan.classify) → JsonScan.IsWs (ws1.map JsonScan.classify) →
    E2E.validateText (Lay.docTextF w0 t w1 fin) [] (ws0 ++ (d.render VPos.byteSym ++ ws1)) opt
      = if VN.shape E2E.kindOKTok (E2E.schemaOf opt t.value) (E2E.docOf d) then .acc else .rej

def tDup : Lay.BTree :=
  .obj [] [([], [34, 97, 34], [], [], .scalar [49], []),
           ([], [34, 92, 117, 48, 48, 54, 49, 34], [], [], .scalar [50], [])]

theorem tDup_text : Lay.docTextF [] tDup [] [] = Loader.dupBytes := by decide

theorem tDup_valid : tDup.Valid := by
  have k2 : SchemaScan.IsKey (([34, 92, 117, 48, 48, 54, 49, 34] : List UInt8).map SchemaScan.classify) :=
    SchemaScan.string_isKey [.bslash, .lu, .zero, .zero, .d19, .d19] (.uni _ _ _ _ _ rfl rfl rfl rfl .nil)
  have n2 : SchemaScan.IsScalar (([50] : List UInt8).map SchemaScan.classify) := ⟨.d19, [], .d1, false, .d1, rfl, rfl, rfl, rfl⟩
  refine ⟨by simp [Lay.ValidL], by simp [Lay.ValidL], Lay.Ex.key_ok, ⟨by simp [Lay.ValidL], by simp [Lay.PlainL]⟩,
    ⟨by simp [Lay.ValidL], by simp [Lay.PlainL]⟩, Lay.Ex.one_ok, by simp [Lay.ValidL], by simp [Lay.ValidL], k2,
    ⟨by simp [Lay.ValidL], by simp [Lay.PlainL]⟩, ⟨by simp [Lay.ValidL], by simp [Lay.PlainL]⟩, n2, by simp [Lay.ValidL],
    trivial⟩

theorem C01_text_level_unrestricted_false : ¬ C01_text_level_unrestricted := by
  intro h
  have e := h false tDup tDup_valid [] [] (by simp [Lay.ValidL]) (by simp [Lay.ValidL]) [] (Or.inl rfl) exDocRej
    exDocRej_valid [] [] (by simp [IsWs]) (by simp [IsWs])
  rw [tDup_text] at e
  obtain ⟨h1, h2⟩ := E2E.validateText_of_load_error Loader.dupBytes [] ([] ++ (exDocRej.render VPos.byteSym ++ [])) false _
    Loader.dup_reported
  split at e
  · exact h1 e
  · exact h2 e

end nonvacuity

end Props.C01
