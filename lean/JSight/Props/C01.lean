import JSight.Validate
import JSight.ValidateP
import JSight.ValidateNProofs
/-!
# C01 — Validate accepts exactly the documents shaped like the schema's EXAMPLE

Model: the validator of the rule-free fragment as the code runs it — a stack of validator frames
(`lit`, `any depth`, `arr items count`, `obj props required lastKey`) fed with the lexical events of
the document (`evs`; C06 shows the scanner emits them). Spec: `shape` — same kind at every position
(an integer where the example is a float; `null` where the example is null / nullable / any), every
member key is an example key, every required key occurs, i-th element against example element
`min i (n-1)`, an empty example array admits only `[]`. Documents are member *lists*: repeated and
reordered keys are inputs. No bound on depth or width.
Nullable containers (fix F-14) are alternatives `{…} | null`: they are covered by the union theorem
`VN.C03_validate_iff_union` (see C03), of which the chain machine here is the one-alternative case.
-/
namespace Props.C01

/-- the event machine accepts exactly the documents of the example's shape (concrete kinds) -/
theorem C01_validate_iff_shape (s : V.S) (d : V.J) : V.validate s d = V.shape s d :=
  V.C01_validate_iff_shape s d

/-- the same for any scalar-rule semantics `litOK` (C02's rules compose with nesting) -/
theorem C01_validate_iff_shape_param {L D : Type} (litOK : L → D → Bool) (s : VP.S L) (d : VP.J D) :
    VP.validate litOK s d = VP.shape litOK s d :=
  VP.C01_validate_iff_shape litOK s d

/-- with alternatives (nullable containers after F-14 are `alt [container, null-literal]`) -/
theorem C01_with_alternatives {L D : Type} (litOK : L → D → Bool) (s : VN.S L) (d : VN.J D) :
    VN.validate litOK s d = VN.shape litOK s d :=
  VN.C03_validate_iff_union litOK s d

section order
variable {L D : Type} (litOK : L → D → Bool)

theorem shapeMembers_eq_all (props : List (String × Bool × VP.S L)) (ms : List (String × VP.J D)) :
    VP.shapeMembers litOK props ms =
      ms.all (fun m => match VP.lookup props m.1 with | some s => VP.shape litOK s m.2 | none => false) := by
  induction ms with
  | nil => simp [VP.shapeMembers]
  | cons m ms ih => obtain ⟨k, v⟩ := m; simp only [VP.shapeMembers, ih, List.all_cons]; cases VP.lookup props k <;> rfl

/-- the verdict does not depend on property order in the document -/
theorem C01_order_indep (props : List (String × Bool × VP.S L)) (ms ms' : List (String × VP.J D)) (h : ms.Perm ms') :
    VP.shape litOK (.obj props) (.obj ms) = VP.shape litOK (.obj props) (.obj ms') := by
  simp only [VP.shape, shapeMembers_eq_all]
  rw [h.all_eq]
  congr 1
  apply List.all_congr rfl
  intro k
  exact h.any_eq

end order

/-! ### KeysAreOptionalByDefault only makes unmarked keys optional -/
/-- schema before compilation: a property is marked `optional: true`, `optional: false` or unmarked -/
inductive RS
  | lit (k : V.Kind) (nullable : Bool)
  | any
  | arr (items : List RS)
  | obj (props : List (String × Option Bool × RS))

mutual
/-- `optionalConstraints` of the compiler: required = not optional; unmarked keys follow the option -/
def compile (optByDefault : Bool) : RS → V.S
  | .lit k n => .lit k n
  | .any => .any
  | .arr items => .arr (compileItems optByDefault items)
  | .obj props => .obj (compileProps optByDefault props)
def compileItems (optByDefault : Bool) : List RS → List V.S
  | [] => []
  | s :: ss => compile optByDefault s :: compileItems optByDefault ss
def compileProps (optByDefault : Bool) : List (String × Option Bool × RS) → List (String × Bool × V.S)
  | [] => []
  | (k, mark, s) :: ps =>
    (k, (match mark with | some o => !o | none => !optByDefault), compile optByDefault s) :: compileProps optByDefault ps
end

mutual
/-- mark every unmarked key `optional: true` -/
def markOptional : RS → RS
  | .lit k n => .lit k n
  | .any => .any
  | .arr items => .arr (markItems items)
  | .obj props => .obj (markProps props)
def markItems : List RS → List RS
  | [] => []
  | s :: ss => markOptional s :: markItems ss
def markProps : List (String × Option Bool × RS) → List (String × Option Bool × RS)
  | [] => []
  | (k, mark, s) :: ps => (k, (match mark with | some o => some o | none => some true), markOptional s) :: markProps ps
end

mutual
theorem compile_true_eq : (s : RS) → compile true s = compile false (markOptional s)
  | .lit k n => by simp [compile, markOptional]
  | .any => by simp [compile, markOptional]
  | .arr items => by simp [compile, markOptional, compileItems_true_eq items]
  | .obj props => by simp [compile, markOptional, compileProps_true_eq props]
theorem compileItems_true_eq : (ss : List RS) → compileItems true ss = compileItems false (markItems ss)
  | [] => by simp [compileItems, markItems]
  | s :: ss => by simp [compileItems, markItems, compile_true_eq s, compileItems_true_eq ss]
theorem compileProps_true_eq : (ps : List (String × Option Bool × RS)) →
    compileProps true ps = compileProps false (markProps ps)
  | [] => by simp [compileProps, markProps]
  | (k, mark, s) :: ps => by
    cases mark <;> simp [compileProps, markProps, compile_true_eq s, compileProps_true_eq ps]
end

/-- the option changes the verdict only by making unmarked keys optional -/
theorem C01_cfg_only_optional (s : RS) (d : V.J) :
    V.validate (compile true s) d = V.validate (compile false (markOptional s)) d := by
  rw [compile_true_eq]

/-! Non-vacuity -/
example : V.validate (.obj [("a", true, .lit .flt false), ("b", false, .arr [.lit .str true])])
    (.obj [("b", .arr [.lit .null, .lit .str]), ("a", .lit .int)]) = true := by decide +kernel
example : V.validate (.obj [("a", true, .lit .flt false)]) (.obj []) = false := by decide +kernel
example : V.validate (.arr []) (.arr [.lit .int]) = false := by decide +kernel

end Props.C01
