import JSight.TypeGraphProofs
import JSight.Dfs
import JSight.LinksHoist
import JSight.FuelVR
import JSight.FuelEX
import JSight.CompileLinksText
import JSight.E2EThm
import JSight.CommentExamples
import JSight.ShortE2EExamples
import JSight.ShortE2ESide
/-!
# C09 — User-type references are resolved completely and recursion is decided correctly

Model `TG.check`: the recursion DFS of `check_recusrion.go` as coded — references met at the root level
are expanded through the type table; inside a type body only the path test remains (the callee's own
table holds no named types). Spec `TG.Inhabited`: least fixpoint — a position is inhabited iff it has a
finite inhabitant (literal ✓, array ✓ (empty), object iff all required properties, reference / or-list
iff some member).
* `C09_never_rejects_legal`: every graph whose root is inhabited passes the check (all graphs, any
  number of types) — "accepts every graph in which each cycle passes through an optional property, an
  array or a terminating or-alternative".
* `C09_full_false`: the converse is false of the code (known finding K-C09-cycle): the required 2-cycle
  `@r = {"s": @s}`, `@s = {"r": @r}` passes the check and is uninhabited.
* `C09_resolved_completely`: the type expansion used by the validator reaches exactly the alternatives
  reachable through chains of references (`VR.alts_iff_reach`).
Missing-type errors, UsedUserTypes and termination are checked against the code (harness
`c09-typegraph`) — and, below `C09_resolved_completely`, PROVED about models tied to the code by `c09-links`:

**Links.** Model `LK.linkCheck` / `LK.linkCheckO` (`JSight/Links.lean`): the reference-resolving part of
`Schema.compile()` as coded — `CompileAllOf` (allOf parents are looked up first; in-progress set 703, memo,
copy-down of keys / children / additionalProperties with 704, 705, 402) and `CheckRootSchema` (root first, then the
hoisted unnamed types of or-shortcuts in heap-address order = parameter `ord`, then EVERY added type in
`sort.Strings` order, referenced or not; per node `collectAllowedJsonTypes` with its path set 1303 and the 1301 test,
`buildList` of `checkLiteralNode`, key shortcuts 1302 / 1304, additionalProperties). Spec `LK.Refs` / `LK.Resolved`
(`JSight/LinksSpec.lean`): an inductive "the text references `n`" over the eight reference forms, and "every name
referenced by the root or by a type of the table is in the table".
* `C09_links_names_missing`: a reported `Type "n" not found` names a type that IS referenced and IS NOT in the table.
* `C09_links_ok_resolved`: if the check passes, every referenced type was added.
* `C09_links_iff_partial`: with no other error of the pipeline in the way (decidable hypothesis `LK.OnlyMissing`), the
  check passes iff every referenced type was added, and fails naming a missing type iff some was not
  (`C09_links_fails_iff_partial`). `C09_links_iff_full` is the statement without the hypothesis; it is false of the
  code for an innocuous reason — another error may come first — `C09_links_iff_full_false` (witness: an allOf
  recursion 703 in front of a missing `@M`; replayed by `c09-links`).
* Ownership (`A.AddType("@b", B)`: type objects added to other type objects). Model `LK.linkCheckO` on `LK.OG`
  (every type object with its owner): `LK.flatten` = `loader.AddUnnamedTypes` as coded (rounds of copying the tables
  of the types that are in the root table), then the same pipeline — since commit 8f3890e the hoisting runs BEFORE
  `CompileAllOf`. `C09_links_own_eq_flat` (the check with ownership IS the flat check of the hoisted table, every
  ownership structure), `C09_links_own_hoisted_iff` (the hoisted table holds exactly the objects that reach the root
  through an `AddType` chain of any length; `|types|` rounds suffice), hence `C09_links_own_sound`,
  `C09_links_own_complete`, `C09_links_own_iff_partial`. Regression witnesses about the order BEFORE the fix (model
  `LK.pinnedLinkCheckO`, `JSight/LinksOwnPinned.lean`): `C09_links_own_pinned_unnoticed` (a missing allOf parent
  inside a nested type passed Check) and `C09_links_own_pinned_parent_not_found` (an allOf parent added to another
  type was reported as not found); `C09_links_own_fixed` shows both witnesses on the current order. All replayed on
  the real library by the corpus of `c09-links`.
* Not proved: that the named type is the FIRST unresolved one in traversal order (the tie compares the exact name).

**UsedUserTypes.** Model `LK.used` = `userTypesCollector.collect` on the root schema as loaded. `C09_used_nodup`,
`C09_used_mem_iff` (exactly the names the text references, `LK.RefsN`), `C09_used_order` (first-occurrence order of
`LK.mentions`: pre-order; at an object allOf parents, then additionalProperties, then each property's key shortcut and
value in source order — the code's order is deterministic, no map is ranged over; it is source order except that the
rules of one annotation are visited allOf-first whatever order they are written in).

**Termination.** Lean functions are total, so the content is in the recursion structure:
* `TG.check` (recursion DFS) is structural recursion on the schema tree — as coded, a reference met inside a type
  body is not expanded at all (callee's own table), so there is nothing to bound; its acceptance by Lean is the proof.
* `LK.linkCheck` has four descents through the type table, each with a fuel argument and the code's own set of
  names (in-progress / path / added set): `C09_links_never_out_of_fuel`, `C09_links_fuel_stable`: `|types| + 1` units
  suffice on EVERY graph and more fuel never changes the verdict.
* the validator's type expansion `VR.build` (one `addedTypeNames` set): `C09_validate_fuel_stable`, every type table.
* the example builder `EX.build` cuts every type at its third nested expansion (`proc n > 1`), as the code does:
  `C09_example_fuel_stable`, `2·|types| + 1` units suffice on every type table.
**Bridge to the text level.** `Compile.check` (`JSight/Compile.lean`) is the check stage of the text-level pipeline
`E2E.validateText` (schema TEXTS → scanner model → loader model → compiled tree `Compile.CN`); its errors carry a code
only. `CL.checkN` (`JSight/CompileLinks.lean`) is the same traversal with the names kept, `CL.lkOf` the abstraction
from the compiled tree to the IR of `LK`, `CL.ordOf` the order of the unnamed types since fix F-34.
* `C09_compile_check_names`: forgetting the names in `CL.checkN` gives `Compile.check` (every tree, every table).
* `C09_models_agree_links`: on the class both models express without another error in the way (`CL.clsAll`: plain
  objects / arrays / scalars whose EXAMPLE obeys its rules, `any`, type shortcuts `@A`, or-shortcuts `@A | @B`, key
  shortcuts whose type is not itself a shortcut, `additionalProperties: "@T"`) the link verdict of `Compile.check`
  and `LK.linkCheck` on the abstraction are THE SAME: both pass, both `Type "n" not found` with the same `n`, both
  1304 with the same key. (`{type: "@A"}` / `{or: […]}` on a literal EXAMPLE are compared at run time only:
  `c09-bridge`, 0 disagreements.) `C09_ord_ok`: `CL.ordOf` meets the hypothesis `LK.OrdOK` of the `C09_links_*`.
* `C09_first_missing`: with every key type a string (`CL.clsSAll`) the link check IS "look up every name of
  `CL.visitAll` in order" — it names the FIRST missing reference in the code's visiting order (root pre-order: at an
  object the key shortcuts, then additionalProperties, then the values; then the or-shortcuts of the added types by
  type name; then the added types by name). This was the open item "not proved: that the named type is the first
  unresolved one" above, now proved for the text-level model.
* `C09_text_level_links_partial`: `C09_links_iff_partial` as a statement about TEXTS. For any schema texts that the
  model's load stage turns into compiled trees of the class, the check stage of `E2E` succeeds iff every referenced
  name (`LK.Refs`, the spec) is among the added types and the recursion check passes; when one is missing the whole
  pipeline answers `schemaErr 1302`, whatever the document, and the name is the first missing one of `CL.visitAll`,
  referenced and not in the table. The step text → compiled tree is a HYPOTHESIS here (`E2E.loadSchema … = .ok …`):
  proved for plain-JSON texts (`C01_text_schema_half`), tied for texts with shortcuts (`e2e-text`, `c09-bridge`); the
  scanner-level theorem for trees whose leaves are shortcuts is NOT proved (`Lay.load_comments` covers scalar leaves).
  `C09_text_level_1302_iff`: the same as one equivalence on the outcome of the whole pipeline.
  The byte offset of the 1302 error (first byte of the node / key holding the reference, in the file of its schema)
  is modelled in the driver (`Drv` `c09b`, part `P`) and tied by `c09-bridge:position`, not proved.
* `C09_text_level_links` / `C09_text_level_1302` (fifth wave): the two statements above with the load hypotheses
  DISCHARGED for schema texts whose values are scalars or type shortcuts `@A` / `@A | @B` (root, member values, array
  items, any nesting and blank layout; added types given as texts of the same class): `C09_text_loads` /
  `C09_types_load` prove text → compiled tree through the scanner model (`C16_shortcut_events_of_tree`: the exact
  events of a shortcut in every value position), the loader model (`C16_shortcut_tree_loads`) and `Compile`
  (`SE.compileNode_nodes`); the class hypothesis `clsSAll` is proved for these trees; the byte-level side conditions of
  a shortcut are derived from its grammar (`C09_text_ok`). Still hypotheses there: `CL.typeNamesOK` (distinct user
  type names, decidable) — and texts with annotations / comments / key shortcuts are outside this class.

None of these needs the graph to be ACCEPTED by the recursion check: the code carries a visited set / counter in
every descent, so termination holds for rejected graphs too (`c09-typegraph` runs Check / Validate / Example under a
deadline on them; the one historical exception, the key-shortcut type resolution, was fix F-7g).
-/
namespace Props.C09

theorem C09_never_rejects_legal (g : TG.G) (hroot : TG.lookup g g.rootName = none)
    (h : TG.Inhabited g g.root) : TG.check g = true := TG.C09_never_rejects_legal g hroot h

theorem C09_full_false : TG.check TG.cycle2 = true ∧ ¬ TG.Inhabited TG.cycle2 TG.cycle2.root := TG.C09_full_false

theorem C09_resolved_completely {L : Type} (env : VR.Env L) (s a : VR.S L) :
    a ∈ VR.alts env s ↔ VR.ReachS env s a := VR.alts_iff_reach env s a

/-! ### links -/

theorem C09_links_names_missing (g : LK.G) (ord : List (List String)) (hord : LK.OrdOK g ord) (n : String)
    (h : LK.linkCheck g ord = .error (.missing n)) : LK.Refs g n ∧ ¬ LK.InTable g n :=
  LK.links_names_missing g ord hord n h

theorem C09_links_ok_resolved (g : LK.G) (ord : List (List String)) (h : LK.linkCheck g ord = .ok ()) :
    LK.Resolved g := LK.links_ok_resolved g ord h

def C09_links_iff_full : Prop :=
  ∀ (g : LK.G) (ord : List (List String)), LK.OrdOK g ord →
    ((∃ n, LK.linkCheck g ord = .error (.missing n)) ↔ ¬ LK.Resolved g)

theorem C09_links_iff_partial (g : LK.G) (ord : List (List String)) (hord : LK.OrdOK g ord)
    (hno : LK.OnlyMissing g ord) : LK.linkCheck g ord = .ok () ↔ LK.Resolved g := LK.links_iff g ord hord hno

theorem C09_links_fails_iff_partial (g : LK.G) (ord : List (List String)) (hord : LK.OrdOK g ord)
    (hno : LK.OnlyMissing g ord) : (∃ n, LK.linkCheck g ord = .error (.missing n)) ↔ ¬ LK.Resolved g :=
  LK.links_fails_iff g ord hord hno

theorem C09_links_iff_full_false : ¬ C09_links_iff_full := LK.links_full_false

/-- every reference form, resolved: `{ // {allOf: "@P", additionalProperties: "@I"} "a": @A, @S: 1 // {type: "@I"},
"c": [@A | @B] }`, `@P = {"p": 1 // {or: ["@I", "integer"]}}`, `@A = {"x": @B}`, `@B = {}`, `@I = 1`, `@S = "s"` -/
def demo : LK.G :=
  { root := .obj ["@P"] (some "@I") [("a", false, .ref ["@A"]), ("@S", true, .lit .int (.typ "@I") none),
      ("c", false, .arr [.ref ["@A", "@B"]])],
    types := [("@P", .obj [] none [("p", false, .lit .int (.orr [.user "@I", .builtin .int]) none)]),
      ("@A", .obj [] none [("x", false, .ref ["@B"])]), ("@B", .obj [] none []),
      ("@I", .lit .int .none none), ("@S", .lit .str .none none)] }

/-- the same without `@B`, which only `@A` (and an or-shortcut) reference -/
def demoMissing : LK.G := { demo with types := demo.types.filter (fun p => p.1 != "@B") }

example : LK.linkCheck demo (LK.orNodes demo) = .ok () := by decide
example : LK.OnlyMissing demo (LK.orNodes demo) := by decide
example : LK.linkCheck demoMissing (LK.orNodes demoMissing) = .error (.missing "@B") := by decide
example : LK.OnlyMissing demoMissing (LK.orNodes demoMissing) := by decide
example : LK.Refs demoMissing "@B" ∧ ¬ LK.InTable demoMissing "@B" :=
  C09_links_names_missing demoMissing _ (LK.orNodes_ordOK _) "@B" (by decide)
example : LK.Resolved demo := C09_links_ok_resolved demo (LK.orNodes demo) (by decide)

/-! ### links with ownership (`A.AddType("@b", B)`) -/

theorem C09_links_own_eq_flat (og : LK.OG) (ord : List (List String)) :
    LK.linkCheckO og ord = LK.linkCheck (LK.flatten og) ord := LK.linkCheckO_eq_flat og ord

theorem C09_links_own_hoisted_iff (og : LK.OG) (n : String) :
    LK.InTable (LK.flatten og) n ↔ LK.Reach og.types n := LK.inTable_flatten_iff og n

theorem C09_links_own_sound (og : LK.OG) (ord : List (List String)) (hord : LK.OrdOK (LK.flatten og) ord) (n : String)
    (h : LK.linkCheckO og ord = .error (.missing n)) : LK.Refs (LK.flatten og) n ∧ ¬ LK.Reach og.types n :=
  LK.linkCheckO_sound og ord hord n h

theorem C09_links_own_complete (og : LK.OG) (ord : List (List String)) (h : LK.linkCheckO og ord = .ok ()) :
    ∀ n, LK.Refs (LK.flatten og) n → LK.Reach og.types n := LK.linkCheckO_complete og ord h

theorem C09_links_own_iff_partial (og : LK.OG) (ord : List (List String)) (hord : LK.OrdOK (LK.flatten og) ord)
    (hno : LK.OnlyMissing (LK.flatten og) ord) :
    LK.linkCheckO og ord = .ok () ↔ ∀ n, LK.Refs (LK.flatten og) n → LK.Reach og.types n :=
  LK.linkCheckO_iff og ord hord hno

/-- the order of `Schema.compile()` before commit 8f3890e: Check passed although `@m` was never added -/
theorem C09_links_own_pinned_unnoticed :
    LK.pinnedLinkCheckO LK.witnessNestedAllOf ["@a"] (LK.orNodes LK.witnessNestedAllOf) = .ok () ∧
    ¬ LK.Resolved LK.witnessNestedAllOf := LK.nested_allOf_unnoticed

/-- … and an allOf parent that was added to another type was reported as not found -/
theorem C09_links_own_pinned_parent_not_found :
    LK.pinnedLinkCheckO LK.witnessNestedParent ["@a"] (LK.orNodes LK.witnessNestedParent) = .error (.missing "@b") ∧
    LK.InTable LK.witnessNestedParent "@b" := LK.nested_parent_not_found

/-- the same two inputs on the current order -/
theorem C09_links_own_fixed :
    LK.linkCheckO LK.ownedNestedAllOf [] = .error (.missing "@m") ∧ LK.linkCheckO LK.ownedNestedParent [] = .ok () :=
  ⟨LK.ownedNestedAllOf_now, LK.ownedNestedParent_now⟩

/-- `demo` as the chain `root ← @P, @A`; `@B`, `@I` added to `@A`, `@S` to `@B`; `@Z` added to nothing and `@Y` to `@Z` -/
def demoOwned : LK.OG :=
  { root := demo.root,
    types := [⟨"@P", .root, .obj [] none [("p", false, .lit .int (.orr [.user "@I", .builtin .int]) none)]⟩,
      ⟨"@A", .root, .obj [] none [("x", false, .ref ["@B"])]⟩, ⟨"@B", .type "@A", .obj [] none []⟩,
      ⟨"@I", .type "@A", .lit .int .none none⟩, ⟨"@S", .type "@B", .lit .str .none none⟩,
      ⟨"@Z", .nobody, .obj [] none []⟩, ⟨"@Y", .type "@Z", .ref ["@nowhere"]⟩] }

example : LK.hoisted demoOwned = ["@P", "@A", "@B", "@I", "@S"] := by decide
example : LK.linkCheckO demoOwned [] = .ok () := by decide
example : LK.OnlyMissing (LK.flatten demoOwned) [] := by decide
example : LK.Reach demoOwned.types "@S" := (LK.mem_hoisted_iff demoOwned "@S").1 (by decide)
example : ¬ LK.Reach demoOwned.types "@Y" := fun h =>
  absurd ((LK.mem_hoisted_iff demoOwned "@Y").2 h) (by decide)

/-! ### UsedUserTypes -/

theorem C09_used_nodup (s : LK.N) : (LK.used s).Nodup := LK.used_nodup s

theorem C09_used_mem_iff (s : LK.N) (n : String) : n ∈ LK.used s ↔ LK.RefsN s n := LK.used_mem_iff s n

theorem C09_used_order (s : LK.N) : LK.used s = LK.dedupFirst (LK.mentions s) := LK.used_eq s

example : LK.used demo.root = ["@P", "@I", "@A", "@S", "@B"] := by decide
example : LK.mentions demo.root = ["@P", "@I", "@A", "@S", "@I", "@A", "@B"] := by decide

/-! ### termination (fuel sufficiency) -/

theorem C09_links_never_out_of_fuel (g : LK.G) (fuel : Nat) (h : g.types.length + 1 ≤ fuel) (ord : List (List String)) :
    LK.linkCheckF g fuel ord ≠ .error .fuel := LK.linkCheckF_noFuel g fuel h ord

theorem C09_links_fuel_stable (g : LK.G) (fuel : Nat) (h : g.types.length + 1 ≤ fuel) (ord : List (List String)) :
    LK.linkCheckF g fuel ord = LK.linkCheck g ord := LK.linkCheckF_stable g fuel h ord

theorem C09_validate_fuel_stable {L : Type} (env : VR.Env L) (s : VR.S L) (fuel : Nat) (h : env.length + 1 ≤ fuel) :
    (VR.build env fuel s ([], [])).2 = VR.alts env s := VR.alts_fuel_stable env s fuel h

theorem C09_example_fuel_stable (ts : EX.Types) (n : EX.N) (fuel : Nat) (h : 2 * ts.length + 1 ≤ fuel) :
    EX.build ts fuel (fun _ => 0) n = EX.build ts (2 * ts.length + 1) (fun _ => 0) n :=
  EX.build_fuel_stable ts n fuel h

/-- `@t = {"k": @t}` (a required self-reference: the recursion check rejects it; the builder still stops) -/
example : EX.build [("@t", .obj [([.quote, .lf, .quote], .ref "@t")])] 64 (fun _ => 0) (.ref "@t") =
    EX.build [("@t", .obj [([.quote, .lf, .quote], .ref "@t")])] 3 (fun _ => 0) (.ref "@t") :=
  C09_example_fuel_stable _ _ 64 (by decide)

example : VR.alts (L := Nat) [("@t", .ref ["@t", "@u"] none), ("@u", .lit 0)] (.ref ["@t"] none) =
    (VR.build [("@t", .ref ["@t", "@u"] none), ("@u", .lit 0)] 1000 (.ref ["@t"] none) ([], [])).2 :=
  (C09_validate_fuel_stable _ _ 1000 (by decide)).symm

/-- an alias cycle with a self-referential or-rule: rejected (1303), never out of fuel, with 3 units or with 1000 -/
def demoCyclic : LK.G :=
  { root := .lit .int (.typ "@A") none,
    types := [("@A", .lit .int (.orr [.user "@B", .builtin .int]) none), ("@B", .lit .int (.typ "@A") none)] }

example : LK.linkCheck demoCyclic [] = .error (.jsonTypeRecursion "@A") := by decide
example : LK.linkCheckF demoCyclic 1000 [] = .error (.jsonTypeRecursion "@A") := by
  rw [C09_links_fuel_stable demoCyclic 1000 (by decide) []]; decide
example : LK.linkCheckF demoCyclic 1 [] = .error .fuel := by decide

/-! ### the two models of the link check agree; C09 at text level -/

theorem C09_compile_check_names (root : Compile.CN) (ts : Compile.Types) (hn : (ts.map (·.1)).Nodup) :
    CL.eraseR (CL.checkN root ts) = Compile.check root ts := CL.checkN_erase root ts hn

theorem C09_models_agree_links (root : Compile.CN) (ts : Compile.Types) (hn : (ts.map (·.1)).Nodup)
    (hc : CL.clsAll root ts = true) :
    CL.vA (CL.checkRootN root ts) = CL.vL (LK.linkCheck (CL.lkOf root ts) (CL.ordOf ts)) :=
  CL.models_agree root ts hn hc

theorem C09_ord_ok (root : Compile.CN) (ts : Compile.Types) (hc : CL.clsAll root ts = true) :
    LK.OrdOK (CL.lkOf root ts) (CL.ordOf ts) :=
  CL.ordOf_ordOK root ts (by
    simp only [CL.clsAll, Bool.and_eq_true, List.all_eq_true] at hc
    exact fun n t h => hc.2 (n, t) (CL.lookupT_mem ts n t h))

theorem C09_first_missing (root : Compile.CN) (ts : Compile.Types) (hc : CL.clsSAll root ts = true) :
    CL.checkRootN root ts =
      (match CL.firstMissing ts (CL.visitAll root ts) with
       | some n => .error (.missing n)
       | none => .ok ()) := by
  rw [CL.checkRootN_first root ts hc]; exact CL.mustAllN_eq_firstMissing ts _

theorem C09_text_level_links_partial (root : List UInt8) (types : List (String × List UInt8)) (doc : List UInt8)
    (opt : Bool) (cn : Compile.CN) (ts : Compile.Types) (hroot : E2E.loadSchema root opt = .ok (some cn))
    (hn : CL.typeNamesOK types = true) (htypes : E2E.loadTypes types = .ok ts) (hc : CL.clsSAll cn ts = true) :
    (Compile.check cn ts = .ok () ↔ LK.Resolved (CL.lkOf cn ts) ∧ TG.check (Compile.tgOf cn ts) = true) ∧
    (¬ LK.Resolved (CL.lkOf cn ts) →
      ∃ n, CL.firstMissing ts (CL.visitAll cn ts) = some n ∧ LK.Refs (CL.lkOf cn ts) n ∧
        ¬ LK.InTable (CL.lkOf cn ts) n ∧ CL.checkN cn ts = .error (.missing n) ∧
        E2E.validateText root types doc opt = .schemaErr 1302 0) :=
  CL.text_level_links root types doc opt cn ts hroot hn htypes hc

/-- the same as one equivalence about the outcome of the WHOLE pipeline: `schemaErr 1302` iff some referenced name is
not among the added types (no later stage reports 1302; a failing recursion check is 104) -/
theorem C09_text_level_1302_iff (root : List UInt8) (types : List (String × List UInt8)) (doc : List UInt8)
    (opt : Bool) (cn : Compile.CN) (ts : Compile.Types) (hroot : E2E.loadSchema root opt = .ok (some cn))
    (hn : CL.typeNamesOK types = true) (htypes : E2E.loadTypes types = .ok ts) (hc : CL.clsSAll cn ts = true) :
    E2E.validateText root types doc opt = .schemaErr 1302 0 ↔ ¬ LK.Resolved (CL.lkOf cn ts) :=
  CL.text_level_1302_iff root types doc opt cn ts hroot hn htypes hc

/-- `{ // {additionalProperties: "@S"} "a": @A, @K: 1, "c": [@A | @B] }` with `@S = "s"`, `@A = {"x": @B | @C}`,
`@K = "k"`: `@B` and `@C` were never added -/
def bridgeRoot : Compile.CN :=
  .obj [("a", false, true, false, .ref ["@A"] false .mixed none false),
        ("K", true, true, false, .lit { kind := .i, ex := [49], nul := false, rules := [] } false),
        ("c", false, true, false, .arr [.ref ["@A", "@B"] false .mixed none true] false false)] (.type "@S") false false

def bridgeTypes : Compile.Types :=
  [("@S", .lit { kind := .s, ex := [34, 115, 34], nul := false, rules := [] } false),
   ("@A", .obj [("x", false, true, false, .ref ["@B", "@C"] false .mixed none true)] .absent false false),
   ("@K", .lit { kind := .s, ex := [34, 107, 34], nul := false, rules := [] } false)]

example : CL.clsSAll bridgeRoot bridgeTypes = true := by decide +kernel
example : CL.clsAll bridgeRoot bridgeTypes = true := CL.clsSAll_clsAll _ _ (by decide +kernel)
example : CL.visitAll bridgeRoot bridgeTypes = ["@K", "@S", "@A", "@A", "@B", "@B", "@C", "@B", "@C"] := by
  decide +kernel
example : CL.vA (CL.checkRootN bridgeRoot bridgeTypes) = .missing "@B" := by decide +kernel
example : CL.vL (LK.linkCheck (CL.lkOf bridgeRoot bridgeTypes) (CL.ordOf bridgeTypes)) = .missing "@B" := by
  rw [← C09_models_agree_links bridgeRoot bridgeTypes (by decide +kernel) (CL.clsSAll_clsAll _ _ (by decide +kernel))]
  decide +kernel
/-- a key type that is not a string: both models answer 1304 with the same key (`clsAll`, not `clsSAll`) -/
example : CL.clsAll bridgeRoot (("@K", .arr [] false false) :: bridgeTypes.dropLast) = true ∧
    CL.vA (CL.checkRootN bridgeRoot (("@K", .arr [] false false) :: bridgeTypes.dropLast)) = .e1304 "@K" := by
  decide +kernel

/-- the text-level statement on a real TEXT (`Lay.Ex.tC`: a plain-JSON object with comments; no references, so
every name is resolved): the hypotheses are jointly satisfiable through the PROVED load stage -/
example (doc : List UInt8) :
    Compile.check (E2E.cnOf false Lay.Ex.tC.value) [] = .ok () ↔
      LK.Resolved (CL.lkOf (E2E.cnOf false Lay.Ex.tC.value) []) ∧
        TG.check (Compile.tgOf (E2E.cnOf false Lay.Ex.tC.value) []) = true :=
  (C09_text_level_links_partial (Lay.docTextF [] Lay.Ex.tC [.blank 10] Lay.Ex.cFin) [] doc false
    (E2E.cnOf false Lay.Ex.tC.value) []
    (by
      obtain ⟨st, hl, hr, ht⟩ := Lay.load_comments Lay.Ex.tC Lay.Ex.tC_valid (Lay.Ex.tC_value ▸ Lay.Ex.keys_ok) []
        [.blank 10] (by simp [Lay.ValidL]) (by simp [Lay.ValidL, Lay.LI.Valid, Lay.isBlankB]) Lay.Ex.cFin Lay.Ex.cFin_ok
      exact E2E.loadSchema_plain _ false st Lay.Ex.tC.value hl hr ht (by decide +kernel))
    (by decide) rfl (by decide +kernel)).1

/-! ### C09 at text level, the load hypothesis discharged (schema texts whose values are type shortcuts)

`SE.BST`: byte-level JSON trees with layout (blank bytes wherever JSON allows them) whose LEAVES are scalars or type
shortcuts `@name` / `@a | @b …` (root, member value or array item, any nesting); `SE.docText w0 t w1` the text; `SE.cnOf`
the compiled tree (a shortcut leaf = the `mixed` reference node with the names of its synthesised `type` / `or` rule).
`SE.TextOK`: blanks around a tree that is valid on byte classes (`SchemaScan.STree.Valid`: scalar / key tokens of the
scanner's automaton, the shortcut grammar, behind a shortcut leaf a line break, `,`, `]`, `}` or the end of input),
pairwise distinct keys per object, and the byte-level side conditions `BST.sideOK`: the kind of every scalar can be guessed
(`BST.guessable`, the decidable hypothesis of `C01_text_level` too) and, for a shortcut, `|` occurs exactly when it has
alternatives, a single name is a user type name, alternatives give ≥ 2 names — these three FOLLOW from the shortcut
grammar (`C09_text_ok`). The added types are texts of the same class (plain JSON, shortcuts, or both). -/

/-- a text is of the class as soon as: blanks around, a tree valid on byte classes, behind a root shortcut a line break
or nothing, every scalar's kind can be guessed, distinct keys -/
theorem C09_text_ok (w0 : SE.Bytes) (t : SE.BST) (w1 : SE.Bytes) (h0 : SchemaScan.IsWs (SE.clsB w0))
    (h1 : SchemaScan.IsWs (SE.clsB w1)) (hv : t.cls.Valid) (hf : SchemaScan.Follow t.cls (SE.clsB w1))
    (hg : t.guessable = true) (hk : t.KeysNodup) : SE.TextOK w0 t w1 :=
  SE.TextOK.of_guessable w0 t w1 h0 h1 hv hf hg hk

/-- the names a shortcut leaf of `SE.cnOf` refers to are read from the shortcut AS WRITTEN: `[@A]` for `@A`, the names in
written order for `@A | @B …` (`Compile.shortNames`) -/
theorem C09_shortcut_names (f : SE.Bytes) (as : List SE.Alt) (sps : SE.Bytes) (hv : (SE.clsSc f as).Valid)
    (hs : SchemaScan.Len.IsSpTabs (SE.clsB sps)) :
    SE.namesOf f as sps = Compile.shortNames (!as.isEmpty) (SE.scBytes f as) :=
  SE.namesOf_eq f as sps hv hs

/-- **text → compiled tree** (scanner model → loader model → constraint constructors → `CompileBasic`) for texts of the
class: this is the hypothesis `hroot` / `htypes` of `C09_text_level_links_partial`, now a theorem -/
theorem C09_text_loads (w0 : SE.Bytes) (t : SE.BST) (w1 : SE.Bytes) (h : SE.TextOK w0 t w1) (opt : Bool) :
    E2E.loadSchema (SE.docText w0 t w1) opt = .ok (some (SE.cnOf opt t)) :=
  SE.loadSchema_stree w0 t w1 h opt

theorem C09_types_load (tys : List SE.TypeText) (h : SE.TypesOK tys) :
    E2E.loadTypes (SE.typeTexts tys) = .ok (SE.typesOf tys) :=
  SE.loadTypes_stree tys h

/-- **C09 at text level**: `C09_text_level_links_partial` with the load hypotheses and the class hypothesis discharged
for schema TEXTS whose values are scalars or type shortcuts (root and added types): the check stage of the text-level
pipeline passes iff every referenced name was added and the recursion check passes; otherwise — when a name is
missing — the WHOLE pipeline answers 1302 whatever the document, and the name `checkN` reports is the first missing
one in the code's visiting order, referenced and not in the table -/
theorem C09_text_level_links (w0 : SE.Bytes) (t : SE.BST) (w1 : SE.Bytes) (ht : SE.TextOK w0 t w1)
    (tys : List SE.TypeText) (htys : SE.TypesOK tys) (hn : CL.typeNamesOK (SE.typeTexts tys) = true)
    (doc : List UInt8) (opt : Bool) :
    (Compile.check (SE.cnOf opt t) (SE.typesOf tys) = .ok () ↔
      LK.Resolved (CL.lkOf (SE.cnOf opt t) (SE.typesOf tys)) ∧
        TG.check (Compile.tgOf (SE.cnOf opt t) (SE.typesOf tys)) = true) ∧
    (¬ LK.Resolved (CL.lkOf (SE.cnOf opt t) (SE.typesOf tys)) →
      ∃ n, CL.firstMissing (SE.typesOf tys) (CL.visitAll (SE.cnOf opt t) (SE.typesOf tys)) = some n ∧
        LK.Refs (CL.lkOf (SE.cnOf opt t) (SE.typesOf tys)) n ∧ ¬ LK.InTable (CL.lkOf (SE.cnOf opt t) (SE.typesOf tys)) n ∧
        CL.checkN (SE.cnOf opt t) (SE.typesOf tys) = .error (.missing n) ∧
        E2E.validateText (SE.docText w0 t w1) (SE.typeTexts tys) doc opt = .schemaErr 1302 0) :=
  SE.text_level_links_stree w0 t w1 ht tys htys hn doc opt

/-- the same as one equivalence about the outcome of the whole pipeline on TEXTS -/
theorem C09_text_level_1302 (w0 : SE.Bytes) (t : SE.BST) (w1 : SE.Bytes) (ht : SE.TextOK w0 t w1)
    (tys : List SE.TypeText) (htys : SE.TypesOK tys) (hn : CL.typeNamesOK (SE.typeTexts tys) = true)
    (doc : List UInt8) (opt : Bool) :
    E2E.validateText (SE.docText w0 t w1) (SE.typeTexts tys) doc opt = .schemaErr 1302 0 ↔
      ¬ LK.Resolved (CL.lkOf (SE.cnOf opt t) (SE.typesOf tys)) :=
  SE.text_level_1302_iff_stree w0 t w1 ht tys htys hn doc opt

/-! Non-vacuity: root `{"a": @A | @B ,⏎ "b": [@C⏎], "c": 1}`, types `@A` = `1⏎`, `@B` = ` @C` (`SE.Ex`): the compiled
root is the expected tree (`rfl`), and `@C` is the first missing name. -/
example (doc : List UInt8) :=
  C09_text_level_links [] SE.Ex.root [] SE.Ex.root_ok SE.Ex.tys SE.Ex.tys_ok SE.Ex.names_ok doc false
example (doc : List UInt8) :=
  C09_text_level_1302 [] SE.Ex.root [] SE.Ex.root_ok SE.Ex.tys SE.Ex.tys_ok SE.Ex.names_ok doc false
example := C09_text_loads [] SE.Ex.root [] SE.Ex.root_ok false
example := C09_text_ok [] SE.Ex.root [] (SE.Ex.ws_ok [] rfl) (SE.Ex.ws_ok [] rfl) SE.Ex.root_valid
  (by intro h; cases h) (by decide +kernel) SE.Ex.root_ok.keys
example : SE.namesOf [65] [([32], [32], [66])] [32] = ["@A", "@B"] := by
  have h : (SE.clsSc [65] [([32], [32], [66])]).Valid ∧ SchemaScan.Len.IsSpTabs (SE.clsB [32]) := by
    simpa [SE.Ex.sAB, SE.BST.cls, SchemaScan.STree.Valid] using SE.Ex.sAB_valid
  rw [C09_shortcut_names _ _ _ h.1 h.2]
  rfl
example := C09_types_load SE.Ex.tys SE.Ex.tys_ok
example : CL.firstMissing (SE.typesOf SE.Ex.tys) (CL.visitAll (SE.cnOf false SE.Ex.root) (SE.typesOf SE.Ex.tys))
    = some "@C" := by decide +kernel

end Props.C09
