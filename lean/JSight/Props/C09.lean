import JSight.TypeGraphProofs
import JSight.Dfs
/-!
# C09 — User-type references are resolved completely and recursion is decided correctly

Model `TG.check`: the recursion DFS of `check_recusrion.go` as coded — references met at the root level
are expanded through the type table; inside a type body only the path test remains (the callee's own
table holds no named types). Spec `TG.Inhabited`: least fixpoint — a position is inhabited iff it has a
finite inhabitant (literal ✓, array ✓ (empty), object iff all required properties, reference / or-list
iff some member).
* `C09_never_rejects_legal`: every graph whose root is inhabited passes the check (all graphs, any
  number of types) — "accepts every graph in which each cycle passes through an optional property, an
  array or a terminating or-alternative".
* `C09_full_false`: the converse is false of the code (known finding K-C09-cycle): the required 2-cycle
  `@r = {"s": @s}`, `@s = {"r": @r}` passes the check and is uninhabited.
* `C09_resolved_completely`: the type expansion used by the validator reaches exactly the alternatives
  reachable through chains of references (`VR.alts_iff_reach`).
Missing-type errors, UsedUserTypes and termination are checked against the code (harness
`c09-typegraph`).
-/
namespace Props.C09

theorem C09_never_rejects_legal (g : TG.G) (hroot : TG.lookup g g.rootName = none)
    (h : TG.Inhabited g g.root) : TG.check g = true := TG.C09_never_rejects_legal g hroot h

theorem C09_full_false : TG.check TG.cycle2 = true ∧ ¬ TG.Inhabited TG.cycle2 TG.cycle2.root := TG.C09_full_false

theorem C09_resolved_completely {L : Type} (env : VR.Env L) (s a : VR.S L) :
    a ∈ VR.alts env s ↔ VR.ReachS env s a := VR.alts_iff_reach env s a

end Props.C09
