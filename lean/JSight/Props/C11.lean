import JSight.ProtocolProofs
import JSight.ValidateNProofs
import JSight.ValidateTProofs
import JSight.DocCursorThm
import JSight.DocCursorFuel
import JSight.DocCursorLink
import JSight.DocCursorSafe
/-!
# C11 — Results are deterministic, history-independent and stable: what a theorem can carry

* `C11_once_stable`: a `sync.Once`-wrapped computation returns its first result forever, whatever is
  asked later (load / compile / len / enum compile / regex compile all lean on this contract).
* `C11_handed_out_stable`: with the copy-out of fix F-5a a byte slice returned by `Example()` keeps its
  content under every later sequence of `Example()` calls; `C11_pinned_overwrites` is the two-call
  witness against the pinned variant that returned the pooled buffer.
* `C11_leaf_order_free`: the order in which the validator visits the alternatives of a position (Go map
  iteration over `Tree.leaves`) does not change the verdict: the verdict of the tree machine equals the
  union semantics, which is invariant under permutation of the alternatives.
Go's runtime map order, GC and the real API histories are exercised by the harness (`c11-history`), not
modelled.
* `C11_doc_*` (end of the file): the json `Document` object as a state machine (`JSight/DocCursor.lean`: text, option
  bit, incremental scanner, `checkOnce` / `lenOnce` cells; `NextLexeme` / `Check` / `Len` with the rewinds of
  json.go:64-113,142-145): after EVERY history `Check` and `Len` answer what they answer on a fresh document, the cursor
  is a closed form of the history, the option bit survives.  Tie: driver `doccur` / harness `c11-doc`.
-/
namespace Props.C11
open Protocol

theorem C11_once_stable {α : Type} (f : Unit → α) (fs : List (Unit → α)) :
    (Once.runAll ({} : Once α) (f :: fs)).2 = (f :: fs).map (fun _ => f ()) := once_stable f fs

theorem C11_handed_out_stable (cs : List (List Nat)) (h : Heap) (hi : h.Inv) (id : Nat) (hid : id ∈ h.handed) :
    (h.examples cs).read id = h.read id := examples_preserve cs h hi id hid

theorem C11_pinned_overwrites :
    let h1 := (Heap.init.examplePinned [1]);
    let h2 := (h1.1.examplePinned [2]);
    h1.1.read h1.2 = some [1] ∧ h2.1.read h1.2 = some [2] := pinned_overwrites

section order
variable {L D : Type} (litOK : L → D → Bool)

theorem shapeAlts_eq_any (alts : List (VN.S L)) (d : VN.J D) :
    VN.shapeAlts litOK alts d = alts.any (fun a => VN.shape litOK a d) := by
  induction alts with
  | nil => simp [VN.shapeAlts]
  | cons a as ih => simp [VN.shapeAlts, ih]

/-- the verdict of the validator tree does not depend on the order of the alternatives -/
theorem C11_leaf_order_free (alts alts' : List (VN.S L)) (h : alts.Perm alts') (d : VN.J D) :
    VN.validateT litOK (.alt alts) d = VN.validateT litOK (.alt alts') d := by
  rw [VN.C03_shared_tree, VN.C03_shared_tree]
  simp only [VN.shape, shapeAlts_eq_any]
  exact h.any_eq
end order

/-! Non-vacuity: a heap with a handed-out value -/
example : (Heap.init.example [7]).1.Inv ∧ (Heap.init.example [7]).2 ∈ (Heap.init.example [7]).1.handed := by
  refine ⟨(example_spec Heap.init inv_init [7]).1, ?_⟩
  decide

/-! ## The json `Document`: rewinds around `Check` / `Len` (formats/json/json.go:64-113,142-145)

`DocCursor.Doc` is the object (text, option bit, scanner between two `Next` calls, the two once cells), `Doc.run` applies
a history of `NextLexeme` / `Check` / `Len` calls to it and collects what each call hands to the caller.
`checkText t o` / `lenText t o` / `lexAt t o k` are functions of text and option alone: `Check` and `Len` of a document
to which nothing was done, and the delivery of the `k`-th `NextLexeme` of a document on which only `NextLexeme` was
called.  `CheckRes.cached` is what the once cell keeps: the answer itself, except that a non-error panic inside the first
call (passed on to the caller) leaves the cell done with `nil`. -/
section doc
open DocCursor

/-- `Check` after ANY history, exactly: the answer of a fresh document; if the history already contains a `Check`, what the
once cell kept of it. -/
theorem C11_doc_check_history_exact (t : List UInt8) (o : Bool) (ops : List Op) :
    (((Doc.new t o).run ops).2.step .check).1 =
      .check (if hasCheck ops then (checkText t o).cached else checkText t o) := check_after t o ops

/-- `Check` is history-free: whatever was done to the document before, `Check` answers what it answers on a fresh
document (`checkText_no_crash`: that answer is never a panic, so the once cell keeps it as it is). -/
theorem C11_doc_check_history_free (t : List UInt8) (o : Bool) (ops : List Op) :
    (((Doc.new t o).run ops).2.step .check).1 = .check (checkText t o) := by
  rw [check_after, cached_of_not_crash (fun w => checkText_no_crash t o w)]; simp

theorem C11_doc_len_history_exact (t : List UInt8) (o : Bool) (ops : List Op) :
    (((Doc.new t o).run ops).2.step .len).1 =
      .len (if hasLen ops then (lenText t o).cached else lenText t o) := len_after t o ops

theorem C11_doc_len_history_free (t : List UInt8) (o : Bool) (ops : List Op) :
    (((Doc.new t o).run ops).2.step .len).1 = .len (lenText t o) := by
  rw [len_after, lcached_of_not_crash (fun w => lenText_no_crash t o w)]; simp

/-- `Check` / `Len` of a fresh document never end in a non-error panic -/
theorem C11_doc_check_len_never_panic (t : List UInt8) (o : Bool) (w : String) :
    checkText t o ≠ .crash w ∧ lenText t o ≠ .crash w := ⟨checkText_no_crash t o w, lenText_no_crash t o w⟩

/-- the loops of `check` / `Length()` end by themselves: the fuel of the model is never used up -/
theorem C11_doc_fuel_suffices (t : List UInt8) (o : Bool) :
    checkText t o ≠ .crash "fuel" ∧ lenText t o ≠ .crash "fuel" := ⟨checkText_fuel t o, lenText_fuel t o⟩

/-- the whole document after a history in closed form: scanner and `lexErr` are the ones of a fresh document after
`cursorOf ops` `NextLexeme` calls, and `cursorOf` is: 0 at the start, +1 by `NextLexeme`, back to 0 by the FIRST `Check` and by the FIRST
`Len`, untouched by later ones. -/
theorem C11_doc_cursor_after (t : List UInt8) (o : Bool) (ops : List Op) :
    ((Doc.new t o).run ops).2 = stateOf t o (hasCheck ops) (hasLen ops) (cursorOf ops) ∧
    (((Doc.new t o).run ops).2.sc, ((Doc.new t o).run ops).2.lexErr) = scanAt t o (cursorOf ops) ∧
    cursorOf [] = 0 ∧
    cursorOf (ops ++ [.next]) = cursorOf ops + 1 ∧
    cursorOf (ops ++ [.check]) = (if hasCheck ops then cursorOf ops else 0) ∧
    cursorOf (ops ++ [.len]) = (if hasLen ops then cursorOf ops else 0) := by
  refine ⟨by rw [run_new], by rw [run_new]; rfl, rfl, ?_, ?_, ?_⟩ <;> rw [cursorOf_snoc] <;> rfl

/-- what the calls of a history hand out, in closed form (`outsFrom`); in particular a `NextLexeme` issued after the
history `ops` delivers lexeme number `cursorOf ops` of the text: consecutive lexemes, starting again from 0 after each
first `Check` / first `Len`; and the lexeme sequence of a text ENDS with its first error: `lexAt` after an error is that
error forever (fix 8464556, `lexErr`). -/
theorem C11_doc_next_spec (t : List UInt8) (o : Bool) (ops : List Op) :
    ((Doc.new t o).run ops).1 = outsFrom t o false false 0 ops ∧
    (((Doc.new t o).run ops).2.step .next).1 = .next (lexAt t o (cursorOf ops)) ∧
    (∀ k c q, lexAt t o k = .err c q → ∀ j, lexAt t o (k + j) = .err c q) := by
  rw [run_new]; exact ⟨rfl, rfl, fun k c q h j => (lexAt_sticky t o k c q h j).1⟩

/-- once a `NextLexeme` answered the error `c` at `q`, every later `NextLexeme` answers the same error, whatever is called
in between, as long as that is not the first `Check` or the first `Len` of the document (the two calls that rewind) -/
theorem C11_doc_error_sticky (t : List UInt8) (o : Bool) (pre mid : List Op) (c q : Nat)
    (h : (((Doc.new t o).run pre).2.step .next).1 = .next (.err c q))
    (hm : noRewind (hasCheck pre) (hasLen pre) mid = true) :
    (((Doc.new t o).run (pre ++ .next :: mid)).2.step .next).1 = .next (.err c q) :=
  error_sticky t o pre mid c q h hm

/-- no `NextLexeme` of any history on any text ends in a non-error panic (C07 for the document cursor): the scanner
follows the whole-text model (`JsonScan.events`, which never crashes: `Sim.C07_json_no_crash`) until its first error, and
after an error it is not stepped again before a rewind. -/
theorem C11_doc_next_never_panics (t : List UInt8) (o : Bool) (ops : List Op) (w : String) :
    (((Doc.new t o).run ops).2.step .next).1 ≠ .next (.crash w) := by
  rw [next_after]
  intro e
  injection e with e
  exact lexAt_never_crash t o _ w e

/-- equal text, equal option, equal history: equal outputs -/
theorem C11_doc_equal_inputs (t : List UInt8) (o : Bool) (d₁ d₂ : Doc) (h₁ : d₁ = Doc.new t o) (h₂ : d₂ = Doc.new t o)
    (ops : List Op) : (d₁.run ops).1 = (d₂.run ops).1 := by rw [h₁, h₂]

/-- the option bit survives every operation: in the document and in the scanner it currently works with -/
theorem C11_doc_rewind_keeps_option (t : List UInt8) (o : Bool) (ops : List Op) :
    ((Doc.new t o).run ops).2.opt = o ∧ ((Doc.new t o).run ops).2.sc.allow = o := option_after t o ops

/-! Non-vacuity and witnesses.  `1 x` = `[49, 32, 120]`. -/

/-- trailing non-space bytes, option given: three deliveries, `Check`, the cursor is back at 0, `Len`, cached `Check` -/
example : ((Doc.new [49, 32, 120] true).run [.next, .next, .next, .check, .next, .len, .check]).1 =
    [.next (.lex ⟨.litB, 0, 0⟩), .next (.lex ⟨.litE, 0, 0⟩), .next (.eofLex ⟨.endTop, 2, 2⟩), .check .ok,
     .next (.lex ⟨.litB, 0, 0⟩), .len (.ok 1), .check .ok] := by decide
/-- the same text without the option: the error appears at the THIRD lexeme; `Check` and `Len` report it from any cursor -/
example : ((Doc.new [49, 32, 120] false).run [.next, .next, .next, .check, .next, .len]).1 =
    [.next (.lex ⟨.litB, 0, 0⟩), .next (.lex ⟨.litE, 0, 0⟩), .next (.err 301 2), .check (.err 301 2),
     .next (.lex ⟨.litB, 0, 0⟩), .len (.err 301 2)] := by decide
/-- the empty text -/
example : ((Doc.new [] false).run [.next, .check, .len, .next]).1 =
    [.next .eof, .check (.err 203 0), .len (.ok 0), .next .eof] := by decide
/-- cursor values: the first history ends with the cursor at 0 (first `Len`); later `Check` / `Len` calls leave the cursor
where the `NextLexeme` calls put it -/
example : cursorOf [.next, .next, .next, .check, .next, .len, .check] = 0 ∧
    cursorOf [.next, .check, .next, .len, .next, .next, .check, .len] = 2 := by decide
/-- `{x}` = `[123, 120, 125]`: the error of the second call is kept until the rewind of the first `Check`; after it the
cursor is at 0 and the error is gone -/
example : ((Doc.new [123, 120, 125] false).run [.next, .next, .next, .len, .next, .check, .next]).1 =
    [.next (.lex ⟨.objB, 0, 0⟩), .next (.err 301 1), .next (.err 301 1), .len (.err 301 1), .next (.lex ⟨.objB, 0, 0⟩),
     .check (.err 301 1), .next (.lex ⟨.objB, 0, 0⟩)] := by decide
/-- hypotheses of `C11_doc_error_sticky` on that text: `Len` then `Check` in between, both cells done before -/
example : (((Doc.new [123, 120, 125] false).run [.check, .len, .next]).2.step .next).1 = .next (.err 301 1) ∧
    noRewind (hasCheck [.check, .len, .next]) (hasLen [.check, .len, .next]) [.len, .check, .next] = true := by decide
/-- regression witness for `{x}`: a `nextLexeme` that does not keep the error (`nextNotSticky`, the code before the fix)
goes on from what the panic left behind - `found(ObjectKeyBegin)` was already called - and its fourth call ends in the
string panic; the sticky one answers the error again -/
example :
    let cls := clsOf [123, 120, 125]
    let r1 := nextNotSticky cls ({}, none)
    let r2 := nextNotSticky cls r1.2
    let r3 := nextNotSticky cls r2.2
    let r4 := nextNotSticky cls r3.2
    [r1.1, r2.1, r3.1, r4.1] =
      [.lex ⟨.objB, 0, 0⟩, .err 301 1, .lex ⟨.keyB, 1, 1⟩, .crash "Incorrect ending of the lexical event"] ∧
    (List.range 4).map (lexAt [123, 120, 125] false) =
      [.lex ⟨.objB, 0, 0⟩, .err 301 1, .err 301 1, .err 301 1] := by decide
/-- regression witness: with a `rewind` that forgets the option (`Doc.checkDropping`), `Check` after one `NextLexeme`
answers "invalid character at 2" where `Check` of a fresh document answers OK -/
example : (((Doc.new [49, 32, 120] true).step .next).2.checkDropping).1 = .err 301 2 ∧
    checkText [49, 32, 120] true = .ok ∧
    (((Doc.new [49, 32, 120] true).step .next).2.step .check).1 = .check .ok := by decide

/-- On every text the whole-text JSON scanner model (`JsonScan.events`, the model of the C05 / C06 / C07 / C14 / C17
theorems) ACCEPTS, the `Document` machine is that model: `Check` of a fresh document is `OK` / `Empty JSON` as `checkS`
says, `Len` is `lengthS`, and the `NextLexeme` deliveries are exactly its events (the `EndTop` one together with EOF,
plain EOF behind the last one otherwise). -/
theorem C11_doc_accepted_is_whole_text_model (t : List UInt8) (o : Bool) (evs : List JsonScan.Ev)
    (h : JsonScan.events o t = .ok evs) :
    checkText t o = (if (JsonScan.nonTop evs).isEmpty then .err 203 0 else .ok) ∧
    (∀ n, JsonScan.lengthS o t = .ok n → lenText t o = .ok n) ∧
    scanAll t o (conv evs).length = conv evs :=
  ⟨checkText_of_events t o evs h, fun n hn => lenText_of_lengthS t o n hn, scanAll_of_events t o evs h⟩

/-- non-vacuity: `1 x` with the option is accepted with three events, the last one `EndTop` -/
example : JsonScan.events true [49, 32, 120] = .ok [⟨.litB, 0, 0⟩, ⟨.litE, 0, 0⟩, ⟨.endTop, 2, 2⟩] ∧
    conv [⟨.litB, 0, 0⟩, ⟨.litE, 0, 0⟩, ⟨.endTop, 2, 2⟩] =
      [.lex ⟨.litB, 0, 0⟩, .lex ⟨.litE, 0, 0⟩, .eofLex ⟨.endTop, 2, 2⟩] := ⟨by rfl, by decide⟩

end doc

end Props.C11

#print axioms Props.C11.C11_doc_check_history_exact
#print axioms Props.C11.C11_doc_check_history_free
#print axioms Props.C11.C11_doc_len_history_exact
#print axioms Props.C11.C11_doc_len_history_free
#print axioms Props.C11.C11_doc_fuel_suffices
#print axioms Props.C11.C11_doc_cursor_after
#print axioms Props.C11.C11_doc_next_spec
#print axioms Props.C11.C11_doc_error_sticky
#print axioms Props.C11.C11_doc_next_never_panics
#print axioms Props.C11.C11_doc_check_len_never_panic
#print axioms Props.C11.C11_doc_equal_inputs
#print axioms Props.C11.C11_doc_rewind_keeps_option
#print axioms Props.C11.C11_doc_accepted_is_whole_text_model
