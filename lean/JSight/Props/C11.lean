import JSight.ProtocolProofs
import JSight.ValidateNProofs
import JSight.ValidateTProofs
/-!
# C11 — Results are deterministic, history-independent and stable: what a theorem can carry

* `C11_once_stable`: a `sync.Once`-wrapped computation returns its first result forever, whatever is
  asked later (load / compile / len / enum compile / regex compile all lean on this contract).
* `C11_handed_out_stable`: with the copy-out of fix F-5a a byte slice returned by `Example()` keeps its
  content under every later sequence of `Example()` calls; `C11_pinned_overwrites` is the two-call
  witness against the pinned variant that returned the pooled buffer.
* `C11_leaf_order_free`: the order in which the validator visits the alternatives of a position (Go map
  iteration over `Tree.leaves`) does not change the verdict: the verdict of the tree machine equals the
  union semantics, which is invariant under permutation of the alternatives.
Go's runtime map order, GC and the real API histories are exercised by the harness (`c11-history`), not
modelled.
-/
namespace Props.C11
open Protocol

theorem C11_once_stable {α : Type} (f : Unit → α) (fs : List (Unit → α)) :
    (Once.runAll ({} : Once α) (f :: fs)).2 = (f :: fs).map (fun _ => f ()) := once_stable f fs

theorem C11_handed_out_stable (cs : List (List Nat)) (h : Heap) (hi : h.Inv) (id : Nat) (hid : id ∈ h.handed) :
    (h.examples cs).read id = h.read id := examples_preserve cs h hi id hid

theorem C11_pinned_overwrites :
    let h1 := (Heap.init.examplePinned [1]);
    let h2 := (h1.1.examplePinned [2]);
    h1.1.read h1.2 = some [1] ∧ h2.1.read h1.2 = some [2] := pinned_overwrites

section order
variable {L D : Type} (litOK : L → D → Bool)

theorem shapeAlts_eq_any (alts : List (VN.S L)) (d : VN.J D) :
    VN.shapeAlts litOK alts d = alts.any (fun a => VN.shape litOK a d) := by
  induction alts with
  | nil => simp [VN.shapeAlts]
  | cons a as ih => simp [VN.shapeAlts, ih]

/-- the verdict of the validator tree does not depend on the order of the alternatives -/
theorem C11_leaf_order_free (alts alts' : List (VN.S L)) (h : alts.Perm alts') (d : VN.J D) :
    VN.validateT litOK (.alt alts) d = VN.validateT litOK (.alt alts') d := by
  rw [VN.C03_shared_tree, VN.C03_shared_tree]
  simp only [VN.shape, shapeAlts_eq_any]
  exact h.any_eq
end order

/-! Non-vacuity: a heap with a handed-out value -/
example : (Heap.init.example [7]).1.Inv ∧ (Heap.init.example [7]).2 ∈ (Heap.init.example [7]).1.handed := by
  refine ⟨(example_spec Heap.init inv_init [7]).1, ?_⟩
  decide

end Props.C11
