import JSight.ProtocolProofs
import JSight.ValidateNProofs
import JSight.ValidateTProofs
import JSight.DocCursorThm
import JSight.DocCursorFuel
import JSight.DocCursorLink
import JSight.DocCursorSafe
import JSight.DocCursorRej
import JSight.SchemaObjProofs
import JSight.SchemaObjHoist
/-!
# C11 — Results are deterministic, history-independent and stable: what a theorem can carry

* `C11_once_stable`: a `sync.Once`-wrapped computation returns its first result forever, whatever is
  asked later (load / compile / len / enum compile / regex compile all lean on this contract).
* `C11_handed_out_stable`: with the copy-out of fix F-5a a byte slice returned by `Example()` keeps its
  content under every later sequence of `Example()` calls; `C11_pinned_overwrites` is the two-call
  witness against the pinned variant that returned the pooled buffer.
* `C11_leaf_order_free`: the order in which the validator visits the alternatives of a position (Go map
  iteration over `Tree.leaves`) does not change the verdict: the verdict of the tree machine equals the
  union semantics, which is invariant under permutation of the alternatives.
Go's runtime map order, GC and the real API histories are exercised by the harness (`c11-history`), not
modelled.
* `C11_doc_*` (end of the file): the json `Document` object as a state machine (`JSight/DocCursor.lean`: text, option
  bit, incremental scanner, `checkOnce` / `lenOnce` cells; `NextLexeme` / `Check` / `Len` with the rewinds of
  json.go:64-113,142-145): after EVERY history `Check` and `Len` answer what they answer on a fresh document, the cursor
  is a closed form of the history, the option bit survives.  Tie: driver `doccur` / harness `c11-doc`.
-/
namespace Props.C11
open Protocol

theorem C11_once_stable {α : Type} (f : Unit → α) (fs : List (Unit → α)) :
    (Once.runAll ({} : Once α) (f :: fs)).2 = (f :: fs).map (fun _ => f ()) := once_stable f fs

theorem C11_handed_out_stable (cs : List (List Nat)) (h : Heap) (hi : h.Inv) (id : Nat) (hid : id ∈ h.handed) :
    (h.examples cs).read id = h.read id := examples_preserve cs h hi id hid

theorem C11_pinned_overwrites :
    let h1 := (Heap.init.examplePinned [1]);
    let h2 := (h1.1.examplePinned [2]);
    h1.1.read h1.2 = some [1] ∧ h2.1.read h1.2 = some [2] := pinned_overwrites

section order
variable {L D : Type} (litOK : L → D → Bool)

theorem shapeAlts_eq_any (alts : List (VN.S L)) (d : VN.J D) :
    VN.shapeAlts litOK alts d = alts.any (fun a => VN.shape litOK a d) := by
  induction alts with
  | nil => simp [VN.shapeAlts]
  | cons a as ih => simp [VN.shapeAlts, ih]

/-- the verdict of the validator tree does not depend on the order of the alternatives -/
theorem C11_leaf_order_free (alts alts' : List (VN.S L)) (h : alts.Perm alts') (d : VN.J D) :
    VN.validateT litOK (.alt alts) d = VN.validateT litOK (.alt alts') d := by
  rw [VN.C03_shared_tree, VN.C03_shared_tree]
  simp only [VN.shape, shapeAlts_eq_any]
  exact h.any_eq
end order

/-! Non-vacuity: a heap with a handed-out value -/
example : (Heap.init.example [7]).1.Inv ∧ (Heap.init.example [7]).2 ∈ (Heap.init.example [7]).1.handed := by
  refine ⟨(example_spec Heap.init inv_init [7]).1, ?_⟩
  decide

/-! ## The json `Document`: rewinds around `Check` / `Len` (formats/json/json.go:64-113,142-145)

`DocCursor.Doc` is the object (text, option bit, scanner between two `Next` calls, the two once cells), `Doc.run` applies
a history of `NextLexeme` / `Check` / `Len` calls to it and collects what each call hands to the caller.
`checkText t o` / `lenText t o` / `lexAt t o k` are functions of text and option alone: `Check` and `Len` of a document
to which nothing was done, and the delivery of the `k`-th `NextLexeme` of a document on which only `NextLexeme` was
called.  `CheckRes.cached` is what the once cell keeps: the answer itself, except that a non-error panic inside the first
call (passed on to the caller) leaves the cell done with `nil`. -/
section doc
open DocCursor

/-- `Check` after ANY history, exactly: the answer of a fresh document; if the history already contains a `Check`, what the
once cell kept of it. -/
theorem C11_doc_check_history_exact (t : List UInt8) (o : Bool) (ops : List Op) :
    (((Doc.new t o).run ops).2.step .check).1 =
      .check (if hasCheck ops then (checkText t o).cached else checkText t o) := check_after t o ops

/-- `Check` is history-free: whatever was done to the document before, `Check` answers what it answers on a fresh
document (`checkText_no_crash`: that answer is never a panic, so the once cell keeps it as it is). -/
theorem C11_doc_check_history_free (t : List UInt8) (o : Bool) (ops : List Op) :
    (((Doc.new t o).run ops).2.step .check).1 = .check (checkText t o) := by
  rw [check_after, cached_of_not_crash (fun w => checkText_no_crash t o w)]; simp

theorem C11_doc_len_history_exact (t : List UInt8) (o : Bool) (ops : List Op) :
    (((Doc.new t o).run ops).2.step .len).1 =
      .len (if hasLen ops then (lenText t o).cached else lenText t o) := len_after t o ops

theorem C11_doc_len_history_free (t : List UInt8) (o : Bool) (ops : List Op) :
    (((Doc.new t o).run ops).2.step .len).1 = .len (lenText t o) := by
  rw [len_after, lcached_of_not_crash (fun w => lenText_no_crash t o w)]; simp

/-- `Check` / `Len` of a fresh document never end in a non-error panic -/
theorem C11_doc_check_len_never_panic (t : List UInt8) (o : Bool) (w : String) :
    checkText t o ≠ .crash w ∧ lenText t o ≠ .crash w := ⟨checkText_no_crash t o w, lenText_no_crash t o w⟩

/-- the loops of `check` / `Length()` end by themselves: the fuel of the model is never used up -/
theorem C11_doc_fuel_suffices (t : List UInt8) (o : Bool) :
    checkText t o ≠ .crash "fuel" ∧ lenText t o ≠ .crash "fuel" := ⟨checkText_fuel t o, lenText_fuel t o⟩

/-- the whole document after a history in closed form: scanner and `lexErr` are the ones of a fresh document after
`cursorOf ops` `NextLexeme` calls, and `cursorOf` is: 0 at the start, +1 by `NextLexeme`, back to 0 by the FIRST `Check` and by the FIRST
`Len`, untouched by later ones. -/
theorem C11_doc_cursor_after (t : List UInt8) (o : Bool) (ops : List Op) :
    ((Doc.new t o).run ops).2 = stateOf t o (hasCheck ops) (hasLen ops) (cursorOf ops) ∧
    (((Doc.new t o).run ops).2.sc, ((Doc.new t o).run ops).2.lexErr) = scanAt t o (cursorOf ops) ∧
    cursorOf [] = 0 ∧
    cursorOf (ops ++ [.next]) = cursorOf ops + 1 ∧
    cursorOf (ops ++ [.check]) = (if hasCheck ops then cursorOf ops else 0) ∧
    cursorOf (ops ++ [.len]) = (if hasLen ops then cursorOf ops else 0) := by
  refine ⟨by rw [run_new], by rw [run_new]; rfl, rfl, ?_, ?_, ?_⟩ <;> rw [cursorOf_snoc] <;> rfl

/-- what the calls of a history hand out, in closed form (`outsFrom`); in particular a `NextLexeme` issued after the
history `ops` delivers lexeme number `cursorOf ops` of the text: consecutive lexemes, starting again from 0 after each
first `Check` / first `Len`; and the lexeme sequence of a text ENDS with its first error: `lexAt` after an error is that
error forever (fix 8464556, `lexErr`). -/
theorem C11_doc_next_spec (t : List UInt8) (o : Bool) (ops : List Op) :
    ((Doc.new t o).run ops).1 = outsFrom t o false false 0 ops ∧
    (((Doc.new t o).run ops).2.step .next).1 = .next (lexAt t o (cursorOf ops)) ∧
    (∀ k c q, lexAt t o k = .err c q → ∀ j, lexAt t o (k + j) = .err c q) := by
  rw [run_new]; exact ⟨rfl, rfl, fun k c q h j => (lexAt_sticky t o k c q h j).1⟩

/-- once a `NextLexeme` answered the error `c` at `q`, every later `NextLexeme` answers the same error, whatever is called
in between, as long as that is not the first `Check` or the first `Len` of the document (the two calls that rewind) -/
theorem C11_doc_error_sticky (t : List UInt8) (o : Bool) (pre mid : List Op) (c q : Nat)
    (h : (((Doc.new t o).run pre).2.step .next).1 = .next (.err c q))
    (hm : noRewind (hasCheck pre) (hasLen pre) mid = true) :
    (((Doc.new t o).run (pre ++ .next :: mid)).2.step .next).1 = .next (.err c q) :=
  error_sticky t o pre mid c q h hm

/-- no `NextLexeme` of any history on any text ends in a non-error panic (C07 for the document cursor): the scanner
follows the whole-text model (`JsonScan.events`, which never crashes: `Sim.C07_json_no_crash`) until its first error, and
after an error it is not stepped again before a rewind. -/
theorem C11_doc_next_never_panics (t : List UInt8) (o : Bool) (ops : List Op) (w : String) :
    (((Doc.new t o).run ops).2.step .next).1 ≠ .next (.crash w) := by
  rw [next_after]
  intro e
  injection e with e
  exact lexAt_never_crash t o _ w e

/-- equal text, equal option, equal history: equal outputs -/
theorem C11_doc_equal_inputs (t : List UInt8) (o : Bool) (d₁ d₂ : Doc) (h₁ : d₁ = Doc.new t o) (h₂ : d₂ = Doc.new t o)
    (ops : List Op) : (d₁.run ops).1 = (d₂.run ops).1 := by rw [h₁, h₂]

/-- the option bit survives every operation: in the document and in the scanner it currently works with -/
theorem C11_doc_rewind_keeps_option (t : List UInt8) (o : Bool) (ops : List Op) :
    ((Doc.new t o).run ops).2.opt = o ∧ ((Doc.new t o).run ops).2.sc.allow = o := option_after t o ops

/-! Non-vacuity and witnesses.  `1 x` = `[49, 32, 120]`. -/

/-- trailing non-space bytes, option given: three deliveries, `Check`, the cursor is back at 0, `Len`, cached `Check` -/
example : ((Doc.new [49, 32, 120] true).run [.next, .next, .next, .check, .next, .len, .check]).1 =
    [.next (.lex ⟨.litB, 0, 0⟩), .next (.lex ⟨.litE, 0, 0⟩), .next (.eofLex ⟨.endTop, 2, 2⟩), .check .ok,
     .next (.lex ⟨.litB, 0, 0⟩), .len (.ok 1), .check .ok] := by decide
/-- the same text without the option: the error appears at the THIRD lexeme; `Check` and `Len` report it from any cursor -/
example : ((Doc.new [49, 32, 120] false).run [.next, .next, .next, .check, .next, .len]).1 =
    [.next (.lex ⟨.litB, 0, 0⟩), .next (.lex ⟨.litE, 0, 0⟩), .next (.err 301 2), .check (.err 301 2),
     .next (.lex ⟨.litB, 0, 0⟩), .len (.err 301 2)] := by decide
/-- the empty text -/
example : ((Doc.new [] false).run [.next, .check, .len, .next]).1 =
    [.next .eof, .check (.err 203 0), .len (.ok 0), .next .eof] := by decide
/-- cursor values: the first history ends with the cursor at 0 (first `Len`); later `Check` / `Len` calls leave the cursor
where the `NextLexeme` calls put it -/
example : cursorOf [.next, .next, .next, .check, .next, .len, .check] = 0 ∧
    cursorOf [.next, .check, .next, .len, .next, .next, .check, .len] = 2 := by decide
/-- `{x}` = `[123, 120, 125]`: the error of the second call is kept until the rewind of the first `Check`; after it the
cursor is at 0 and the error is gone -/
example : ((Doc.new [123, 120, 125] false).run [.next, .next, .next, .len, .next, .check, .next]).1 =
    [.next (.lex ⟨.objB, 0, 0⟩), .next (.err 301 1), .next (.err 301 1), .len (.err 301 1), .next (.lex ⟨.objB, 0, 0⟩),
     .check (.err 301 1), .next (.lex ⟨.objB, 0, 0⟩)] := by decide
/-- hypotheses of `C11_doc_error_sticky` on that text: `Len` then `Check` in between, both cells done before -/
example : (((Doc.new [123, 120, 125] false).run [.check, .len, .next]).2.step .next).1 = .next (.err 301 1) ∧
    noRewind (hasCheck [.check, .len, .next]) (hasLen [.check, .len, .next]) [.len, .check, .next] = true := by decide
/-- regression witness for `{x}`: a `nextLexeme` that does not keep the error (`nextNotSticky`, the code before the fix)
goes on from what the panic left behind - `found(ObjectKeyBegin)` was already called - and its fourth call ends in the
string panic; the sticky one answers the error again -/
example :
    let cls := clsOf [123, 120, 125]
    let r1 := nextNotSticky cls ({}, none)
    let r2 := nextNotSticky cls r1.2
    let r3 := nextNotSticky cls r2.2
    let r4 := nextNotSticky cls r3.2
    [r1.1, r2.1, r3.1, r4.1] =
      [.lex ⟨.objB, 0, 0⟩, .err 301 1, .lex ⟨.keyB, 1, 1⟩, .crash "Incorrect ending of the lexical event"] ∧
    (List.range 4).map (lexAt [123, 120, 125] false) =
      [.lex ⟨.objB, 0, 0⟩, .err 301 1, .err 301 1, .err 301 1] := by decide
/-- regression witness: with a `rewind` that forgets the option (`Doc.checkDropping`), `Check` after one `NextLexeme`
answers "invalid character at 2" where `Check` of a fresh document answers OK -/
example : (((Doc.new [49, 32, 120] true).step .next).2.checkDropping).1 = .err 301 2 ∧
    checkText [49, 32, 120] true = .ok ∧
    (((Doc.new [49, 32, 120] true).step .next).2.step .check).1 = .check .ok := by decide

/-- On every text the whole-text JSON scanner model (`JsonScan.events`, the model of the C05 / C06 / C07 / C14 / C17
theorems) ACCEPTS, the `Document` machine is that model: `Check` of a fresh document is `OK` / `Empty JSON` as `checkS`
says, `Len` is `lengthS`, and the `NextLexeme` deliveries are exactly its events (the `EndTop` one together with EOF,
plain EOF behind the last one otherwise). -/
theorem C11_doc_accepted_is_whole_text_model (t : List UInt8) (o : Bool) (evs : List JsonScan.Ev)
    (h : JsonScan.events o t = .ok evs) :
    checkText t o = (if (JsonScan.nonTop evs).isEmpty then .err 203 0 else .ok) ∧
    (∀ n, JsonScan.lengthS o t = .ok n → lenText t o = .ok n) ∧
    scanAll t o (conv evs).length = conv evs :=
  ⟨checkText_of_events t o evs h, fun n hn => lenText_of_lengthS t o n hn, scanAll_of_events t o evs h⟩

/-- non-vacuity: `1 x` with the option is accepted with three events, the last one `EndTop` -/
example : JsonScan.events true [49, 32, 120] = .ok [⟨.litB, 0, 0⟩, ⟨.litE, 0, 0⟩, ⟨.endTop, 2, 2⟩] ∧
    conv [⟨.litB, 0, 0⟩, ⟨.litE, 0, 0⟩, ⟨.endTop, 2, 2⟩] =
      [.lex ⟨.litB, 0, 0⟩, .lex ⟨.litE, 0, 0⟩, .eofLex ⟨.endTop, 2, 2⟩] := ⟨by rfl, by decide⟩

end doc

end Props.C11

#print axioms Props.C11.C11_doc_check_history_exact
#print axioms Props.C11.C11_doc_check_history_free
#print axioms Props.C11.C11_doc_len_history_exact
#print axioms Props.C11.C11_doc_len_history_free
#print axioms Props.C11.C11_doc_fuel_suffices
#print axioms Props.C11.C11_doc_cursor_after
#print axioms Props.C11.C11_doc_next_spec
#print axioms Props.C11.C11_doc_error_sticky
#print axioms Props.C11.C11_doc_next_never_panics
#print axioms Props.C11.C11_doc_check_len_never_panic
#print axioms Props.C11.C11_doc_equal_inputs
#print axioms Props.C11.C11_doc_rewind_keeps_option
#print axioms Props.C11.C11_doc_accepted_is_whole_text_model
/-! ## C11 at orchestration level: the public `jschema.Schema` object (model `JSight/SchemaObj.lean`)

The glue of notations/jschema/jschema.go over abstract stage functions (`SchemaObj.World`): which public method runs which
stage on which object, what the once cells cache (internal/sync/erronce.go), what `AddType` / `AddRule` do before and after
the first load / compile, which table a compile sees. Tie: `vh c11-schema` (driver `sobj`). -/
namespace Props.C11
section schemaObj
open SchemaObj
variable {W : World}

/-- in every history from every pool each stage (load / compile body / len of an object) runs at most once; no filled cell,
text or option ever changes (`PoolLe`); and — for pools in which no compile cell is filled before the load cell, e.g. fresh
ones — `Len` / `UsedUserTypes` / `Check` / `Build` / `GetAST` asked again after ANY further history answer what they
answered the first time -/
theorem C11_schema_stage_once (p : Pool W) (h : List (Op W)) :
    (∀ e : Ev, (run p h).2.1.count e ≤ 1) ∧ PoolLe p (run p h).1 ∧
    (WF p → ∀ (h2 : List (Op W)) (q : Op W) (i : Nat) (o : Obj W), cellRecv q = some i → p[i]? = some o →
      answer p (h ++ q :: h2) q = answer p h q) :=
  ⟨stage_at_most_once p h, cells_stable p h, fun hw h2 q i o hr ho => repeat_same p hw h h2 q i o hr ho⟩

/-- load-stage methods, history-free: on a pool of fresh objects `Len` after ANY history answers the len stage of the
object's own text; `UsedUserTypes` answers the load stage of the object's own text, options and a rule list `rs` = the
rules the object holds (those accepted by `AddRule` before its load; `[]` if it holds none) — unless that load failed
before `inner` was set, when later `AddRule`s are still accepted without effect. (`GetAST` is NOT a load-stage method as
coded: it runs `compile()`, see `C11_schema_result_fixed_at_first_compile`.) -/
theorem C11_schema_result_function_of_inputs (specs : List (W.Text × Bool)) (h : List (Op W)) (i : Nat)
    (s : W.Text × Bool) (hs : specs[i]? = some s) :
    answer (mkPool specs) h (.len i) = outOfVal (W.len s.1) ∧
    ∃ (o' : Obj W) (rs : List (String × W.Rule)),
      answer (mkPool specs) h (.used i) = usedOut (W.load s.1 s.2 rs) ∧
      ((∀ e, W.load s.1 s.2 rs ≠ .failEarly e) → rs = o'.rules) ∧ (o'.rules = [] → rs = []) ∧
      (step (run (mkPool specs) h).1 (.used i)).1[i]? = some o' :=
  ⟨len_history_free specs h i s hs, used_function_of_inputs specs h i s hs⟩

/-- compile-stage methods: once ANY compiling method (`Check`, `Build`, `GetAST`, `Example`, `Validate`) ran on `i` after
`h1`, `Check` / `Build` on `i` answer after every further history what they would have answered right after `h1` — and
that value is `compileValue`: the compile stage on the view of the pool as it was then (every table as it was then, the
receiver's one hoisted), or the cached load error -/
theorem C11_schema_result_fixed_at_first_compile (p : Pool W) (h1 h2 : List (Op W)) (c q : Op W) (i : Nat) (o : Obj W)
    (hc : compRecv c = some i) (hq : q = .check i ∨ q = .build i) (ho : p[i]? = some o) :
    answer p (h1 ++ c :: h2) q = answer p h1 q ∧
    (∀ o1 : Obj W, (run p h1).1[i]? = some o1 → o1.compC = none →
      (ensureCompile (run p h1).1 i).2.2 = compileValue (run p h1).1 i) :=
  ⟨compile_fixes p h1 h2 c q i o hc hq ho, fun o1 g1 hn => ensureCompile_value _ i o1 g1 hn⟩

/-- which `AddType` calls are in the table of the first compile, as a closed form over the history and its answers
(`tableAt`): as long as `i`'s compile body has not run, `i`'s table is its initial table followed by exactly the
`AddType(name, j)` calls on receiver `i` that answered nil, in call order (refused ones — load error of either object,
empty root, invalid or duplicate name — are not in it). The compile then sees this table hoisted over the tables of
the `j`s as they are at that moment (`compileValue`). -/
theorem C11_schema_table_at_first_compile (p : Pool W) (h : List (Op W)) (i : Nat)
    (hc : (run p h).2.1.count (.compile i) = 0) :
    typesOf (run p h).1 i = typesOf p i ++ tableAt i h (run p h).2.2 := table_closed_form p h i hc

/-- the clean order-freedom statement (same set-up calls per receiver in the same relative order, all before the
receiver's first compiling call; same query; any interleaving) — FALSE for the code as it is -/
def C11_schema_order_free_full : Prop := ∀ W : World, OrderFree W

/-- refuted: root.AddType(@t, T); T.AddType(@u, U); root.Check()  vs  root.AddType(@t, T); root.Check(); T.AddType(@u, U) —
the root's compile hoists the tables of its types as they are at that moment (replayed on the real library) -/
theorem C11_schema_order_free_refuted : ¬ C11_schema_order_free_full := fun h => not_orderFree (h W2)

/-- what holds instead: `Len` does not depend on the history at all, and the compile verdict does not depend on anything
that comes after the receiver's first compiling call -/
theorem C11_schema_order_free_partial (specs : List (W.Text × Bool)) (h1 h2 h3 : List (Op W)) (c q : Op W) (i : Nat)
    (s : W.Text × Bool) (hs : specs[i]? = some s) (hc : compRecv c = some i) (hq : q = .check i ∨ q = .build i) :
    answer (mkPool specs) h1 (.len i) = answer (mkPool specs) h2 (.len i) ∧
    answer (mkPool specs) (h1 ++ c :: h2) q = answer (mkPool specs) (h1 ++ c :: h3) q := by
  refine ⟨by rw [len_history_free specs h1 i s hs, len_history_free specs h2 i s hs], ?_⟩
  rw [compile_fixes _ h1 h2 c q i _ hc hq (mkPool_get specs i s hs),
    compile_fixes _ h1 h3 c q i _ hc hq (mkPool_get specs i s hs)]

/-! Non-vacuity: four objects — roots 0 and 1, the type 2 shared by both roots, the type 3 added to the type 2 -/
def specs4 : List (W2.Text × Bool) := [((), false), ((), false), ((), false), ((), false)]
def hist4 : List (Op W2) :=
  [.addType 2 "@u" 3, .addType 0 "@t" 2, .addType 1 "@t" 2, .check 0, .getAST 1, .addType 2 "@v" 3, .check 0,
   .addType 0 "@u" 3, .addType 0 "@w" 3, .used 2, .len 3, .len 3]

/-- every stage once: the loads of 2, 3 (first `AddType`), 0, 1, the two compile bodies, one len; the late `AddType` on
the shared type is accepted and changes nothing for the compiled roots; `@u` was hoisted into root 0 (duplicate), `@w` is
accepted after the compile -/
example : (run (mkPool specs4) hist4).2.1 = [.load 2, .load 3, .load 0, .load 1, .compile 0, .compile 1, .len 3] ∧
    (run (mkPool specs4) hist4).2.2 =
      [.ok, .ok, .ok, .ok, .val 1, .ok, .ok, .dup "@u", .ok, .val 2, .val 0, .val 0] := ⟨by rfl, by rfl⟩

example : answer (mkPool specs4) (hist4 ++ [.check 0]) (.check 0) = answer (mkPool specs4) (hist4.take 3) (.check 0) :=
  by rfl

/-- the table of root 0 before its compile: the one accepted `AddType`; after the compile it also holds the hoisted `@u` -/
example : (run (mkPool specs4) (hist4.take 3)).2.1.count (.compile 0) = 0 ∧
    tableAt 0 (hist4.take 3) (run (mkPool specs4) (hist4.take 3)).2.2 = [("@t", 2)] ∧
    typesOf (run (mkPool specs4) (hist4.take 4)).1 0 = [("@t", 2), ("@u", 3)] := ⟨by rfl, by rfl, by rfl⟩

example : WF (mkPool specs4) := mkPool_wf specs4
example : specs4[2]? = some ((), false) := rfl
/-- the two histories of the refutation meet the hypotheses of the clean statement and answer differently -/
example : setupFirst hA [] = true ∧ setupFirst hB [] = true ∧
    answer (mkPool specs3) hA (.check 0) = .ok ∧ answer (mkPool specs3) hB (.check 0) = .err 1 :=
  ⟨by rfl, by rfl, hA_answer, hB_answer⟩

end schemaObj
end Props.C11

/-! ## The json `Document` on REJECTED texts: the incremental machine is the whole-text scanner model there too

`C11_doc_accepted_is_whole_text_model` covers the texts `JsonScan.events` accepts. Here: the texts it rejects. The
whole-text model drops its accumulated events when it answers an error; `DocCursor.eventsSeen` is that model with the
events KEPT (`seenFrom`: the accumulator of `eventsLoop` at the failing byte; at the end of input additionally the
literal-end of a FINISHED literal, which `Next` delivers before it reports "unexpected end" for the container around it,
e.g. `[1`). Proofs: `JSight/DocCursorRej.lean` (stack-shape invariant `InvA` / `InvB`, `R_top`: no literal-begin below
the top). -/
namespace Props.C11
section docRejected
open DocCursor

/-- On every text the whole-text JSON scanner model REJECTS (`events o t = .error e`; `e` is never a crash:
`events_no_crash`), the `Document` machine answers the same error: `e` is "invalid character" (301) or "unexpected end"
(303) at an index `p`; `Check` of a fresh document is that error as `checkS` says, `Len` is that error as `lengthS` says,
and the `NextLexeme` deliveries are exactly the events the whole-text model had delivered (`eventsSeen`), each as a
lexeme without error, followed by that error (which then stays: `C11_doc_error_sticky`). -/
theorem C11_doc_rejected_is_whole_text_model (t : List UInt8) (o : Bool) (e : JsonScan.ErrS)
    (h : JsonScan.events o t = .error e) :
    ∃ c p, ((e = .invalidChar p ∧ c = 301) ∨ (e = .unexpectedEOF p ∧ c = 303)) ∧
      JsonScan.checkS o t = .error e ∧ checkText t o = .err c p ∧
      JsonScan.lengthS o t = .error e ∧ lenText t o = .err c p ∧
      scanAll t o ((eventsSeen o t).length + 1) = (eventsSeen o t).map .lex ++ [.err c p] := by
  obtain ⟨c, p, hc, h1, h2, h3⟩ := rejected_main t o e h
  exact ⟨c, p, hc, by unfold JsonScan.checkS; rw [h], h1, by unfold JsonScan.lengthS; rw [h], h2, h3⟩

/-- the same as a closed form for EVERY `NextLexeme` of a fresh document on a rejected text: the `k`-th delivery is the
`k`-th event the whole-text model had delivered, as a lexeme without error; from the first index behind them on, the
error of the whole-text model, for ever -/
theorem C11_doc_rejected_all_deliveries (t : List UInt8) (o : Bool) (e : JsonScan.ErrS)
    (h : JsonScan.events o t = .error e) :
    ∃ c p, ((e = .invalidChar p ∧ c = 301) ∨ (e = .unexpectedEOF p ∧ c = 303)) ∧
      ∀ k, lexAt t o k = match (eventsSeen o t)[k]? with
        | some ev => .lex ev
        | none => .err c p := rejected_all t o e h

/-- `eventsSeen` loses nothing: on an accepted text it is the list of events -/
theorem C11_doc_seen_is_events_on_accepted (t : List UInt8) (o : Bool) (evs : List JsonScan.Ev)
    (h : JsonScan.events o t = .ok evs) : eventsSeen o t = evs := eventsSeen_of_ok o t evs h

/-- `Check` of a fresh strict document (no `AllowTrailingNonSpaceCharacters`) answers OK iff the text is one RFC 8259
JSON text (through `C05_check_iff_rfc` and `C05_machines_agree`; the empty-document rule is part of both sides: a text
without a lexeme is not a JSON text); and, in both modes, the answer is `ErrEmptyJson` exactly when the whole-text model
accepts without delivering a lexeme. -/
theorem C11_doc_check_is_rfc (t : List UInt8) :
    (checkText t false = .ok ↔ Rfc.accepts t = true) ∧
    (∀ o, checkText t o = .err 203 0 ↔ ∃ evs, JsonScan.events o t = .ok evs ∧ JsonScan.nonTop evs = []) :=
  ⟨checkText_ok_iff_rfc t, fun o => checkText_empty_iff t o⟩

/-- after ANY history of `NextLexeme` / `Check` / `Len` calls, `Check()` of a strict document answers OK iff its text is
one RFC 8259 JSON text -/
theorem C11_doc_check_history_free_rfc (t : List UInt8) (ops : List Op) :
    (((Doc.new t false).run ops).2.step .check).1 = .check .ok ↔ Rfc.accepts t = true :=
  check_after_ok_iff_rfc t ops

/-! Non-vacuity: the four texts of the brief, and `[1` where `Next` closes the finished number before the error -/

/-- `{x}`: invalid character at 1 after the object-begin -/
example : JsonScan.events false [123, 120, 125] = .error (.invalidChar 1) ∧
    eventsSeen false [123, 120, 125] = [⟨.objB, 0, 0⟩] ∧
    scanAll [123, 120, 125] false 2 = [.lex ⟨.objB, 0, 0⟩, .err 301 1] ∧
    checkText [123, 120, 125] false = .err 301 1 ∧ lenText [123, 120, 125] false = .err 301 1 :=
  ⟨by rfl, by decide, by decide, by decide, by decide⟩
/-- `[1,]` = `[91, 49, 44, 93]`: five lexemes, then invalid character at 3 -/
example : JsonScan.events false [91, 49, 44, 93] = .error (.invalidChar 3) ∧
    eventsSeen false [91, 49, 44, 93] = [⟨.arrB, 0, 0⟩, ⟨.itemB, 1, 1⟩, ⟨.litB, 1, 1⟩, ⟨.litE, 1, 1⟩, ⟨.itemE, 1, 1⟩] ∧
    scanAll [91, 49, 44, 93] false 6 =
      [.lex ⟨.arrB, 0, 0⟩, .lex ⟨.itemB, 1, 1⟩, .lex ⟨.litB, 1, 1⟩, .lex ⟨.litE, 1, 1⟩, .lex ⟨.itemE, 1, 1⟩, .err 301 3] ∧
    checkText [91, 49, 44, 93] false = .err 301 3 :=
  ⟨by rfl, by decide, by decide, by decide⟩
/-- `"a` = `[34, 97]`: unexpected end inside the string -/
example : JsonScan.events false [34, 97] = .error (.unexpectedEOF 1) ∧
    eventsSeen false [34, 97] = [⟨.litB, 0, 0⟩] ∧
    scanAll [34, 97] false 2 = [.lex ⟨.litB, 0, 0⟩, .err 303 1] ∧
    checkText [34, 97] false = .err 303 1 ∧ lenText [34, 97] false = .err 303 1 :=
  ⟨by rfl, by decide, by decide, by decide, by decide⟩
/-- `1 x` without the option: the literal, then invalid character at 2 -/
example : JsonScan.events false [49, 32, 120] = .error (.invalidChar 2) ∧
    eventsSeen false [49, 32, 120] = [⟨.litB, 0, 0⟩, ⟨.litE, 0, 0⟩] ∧
    scanAll [49, 32, 120] false 3 = [.lex ⟨.litB, 0, 0⟩, .lex ⟨.litE, 0, 0⟩, .err 301 2] ∧
    checkText [49, 32, 120] false = .err 301 2 :=
  ⟨by rfl, by decide, by decide, by decide⟩
/-- `[1` = `[91, 49]`: the finished number is closed (literal-end) before "unexpected end" is reported for the array -/
example : JsonScan.events false [91, 49] = .error (.unexpectedEOF 1) ∧
    eventsSeen false [91, 49] = [⟨.arrB, 0, 0⟩, ⟨.itemB, 1, 1⟩, ⟨.litB, 1, 1⟩, ⟨.litE, 1, 1⟩] ∧
    scanAll [91, 49] false 5 =
      [.lex ⟨.arrB, 0, 0⟩, .lex ⟨.itemB, 1, 1⟩, .lex ⟨.litB, 1, 1⟩, .lex ⟨.litE, 1, 1⟩, .err 303 1] :=
  ⟨by rfl, by decide, by decide⟩
/-- closed form on `{x}`: delivery 0 is the object-begin, deliveries 1, 2, 7 are the error -/
example : [0, 1, 2, 7].map (lexAt [123, 120, 125] false) = [.lex ⟨.objB, 0, 0⟩, .err 301 1, .err 301 1, .err 301 1] := by
  decide
/-- RFC side: `1` is a JSON text and `Check` answers OK after a history; `{x}` is not; the blank text is "empty" -/
example : Rfc.accepts [49] = true ∧ checkText [49] false = .ok ∧
    (((Doc.new [49] false).run [.next, .len, .next]).2.step .check).1 = .check .ok ∧
    Rfc.accepts [123, 120, 125] = false ∧ checkText [32] false = .err 203 0 ∧
    JsonScan.events false [32] = .ok [] := ⟨by decide, by decide, by decide, by decide, by decide, by rfl⟩

end docRejected
end Props.C11

#print axioms Props.C11.C11_doc_rejected_is_whole_text_model
#print axioms Props.C11.C11_doc_rejected_all_deliveries
#print axioms Props.C11.C11_doc_seen_is_events_on_accepted
#print axioms Props.C11.C11_doc_check_is_rfc
#print axioms Props.C11.C11_doc_check_history_free_rfc

/-! ## The hoisting loop of the Schema-object model: fuel, reachability, the overwrite rule

`SchemaObj.hoistLoop` / `hoistRound` = `loader.AddUnnamedTypes` as run by the receiver's first `compile()`. Proofs:
`JSight/SchemaObjHoist.lean`. "Name `n` stands for object `j` in table `t`" is `t.lookup n = some j` (a Go map read). -/
namespace Props.C11
section schemaObjHoist
open SchemaObj SchemaObj.Hoist
variable {W : World}

/-- for every pool and every receiver of the pool — no hypothesis on the ownership graph, so `a.AddType("@t", a)` and two
objects adding each other are included — the hoisting loop on the fuel `fuelOf` leaves through its `len(names) == 0`
exit (`hoistLoopO` is the loop that answers `none` when the fuel runs out), and any larger fuel computes the same table -/
theorem C11_schema_hoist_fuel_suffices (p : Pool W) (i : Nat) (o : Obj W) (ho : p[i]? = some o) :
    hoistLoopO (tysOf p) i (fuelOf p) [] o.types = some (hoisted p i o.types) ∧
    ∀ k, hoistLoop (tysOf p) i (fuelOf p + k) [] o.types = hoisted p i o.types :=
  ⟨hoistLoopO_fuelOf p i o ho, hoistLoop_more_fuel p i o ho⟩

/-- THE OVERWRITE RULE of the code. A round processes its names one after the other (`hoistName`, names sorted); processing
`n` while it stands for `j ≠ i` makes every name `u` of `j`'s table stand for what it stands for in `j`'s table —
whatever the root table held for `u`, the receiver's own `AddType(u, …)` included — and leaves all other names alone; the
receiver itself (`j = i`) contributes nothing. So of two objects registered under one name on different chains the one
copied LAST wins, and a name is expanded once, with the object it stands for at the moment it is processed. -/
theorem C11_schema_hoist_overwrite_rule (tys : Nat → Table) (i : Nat) (ns : List String) (root : Table) :
    hoistRound tys i ns root = ns.foldl (hoistName tys i) root ∧
    ∀ (n : String) (j : Nat), root.lookup n = some j → ∀ m,
      (hoistName tys i root n).lookup m =
        match (if j == i then [] else tys j).lookup m with
        | some k => some k
        | none => root.lookup m :=
  ⟨hoistRound_eq tys i ns root, fun n j h m => lookup_hoistName tys i root n j h m⟩

/-- the clean reading: the names of the hoisted table are exactly the names registered on some `AddType` chain from the
receiver — FALSE for the code as it is -/
def C11_schema_hoist_reachable_full : Prop :=
  ∀ (W : World) (p : Pool W) (i : Nat) (o : Obj W), p[i]? = some o → ∀ n,
    ((hoisted p i o.types).lookup n).isSome ↔ ∃ j, Reach (tysOf p) i o.types n j

def mkObj (t : Table) : Obj W2 := ⟨(), false, [], none, none, none, t⟩
/-- root 0 = {@a: 1, @b: 2}; 1 = {@b: 3} (a private `@b`); 2 = {@x: 4}; 3 = {@y: 5} -/
def poolA : Pool W2 :=
  [mkObj [("@a", 1), ("@b", 2)], mkObj [("@b", 3)], mkObj [("@x", 4)], mkObj [("@y", 5)], mkObj [], mkObj []]
/-- the same with the parent called `@c` -/
def poolC : Pool W2 :=
  [mkObj [("@c", 1), ("@b", 2)], mkObj [("@b", 3)], mkObj [("@x", 4)], mkObj [("@y", 5)], mkObj [], mkObj []]

/-- refuted on `poolA`: `@x` is registered on the chain root -@b-> 2 -@x-> 4, but `@a` is processed before `@b` and
replaces the root's `@b` by object 3, so object 2 is never expanded (replayed on the real library) -/
theorem C11_schema_hoist_reachable_refuted : ¬ C11_schema_hoist_reachable_full := by
  intro h
  have h1 := (h W2 poolA 0 (mkObj [("@a", 1), ("@b", 2)]) rfl "@x").2
    ⟨4, .step (j := 2) (n := "@b") (.base (by rfl)) (by decide) (by rfl)⟩
  have h2 : (hoisted poolA 0 (mkObj [("@a", 1), ("@b", 2)]).types).lookup "@x" = none := by rfl
  rw [h2] at h1; cases h1

/-- what holds for every pool and receiver: (1) every entry of the hoisted table is a registration on a chain from the
receiver; (2) every name of the receiver's table is still a name of the hoisted table; (3) for every name `n` of the
hoisted table some object `j` registered under `n` on a chain had its whole table copied (all its names are names of the
hoisted table) — `j` is the object `n` stood for when it was processed, not necessarily the final one; (4) if no name is
registered for two different objects on chains from the receiver (`Functional`), the hoisted table IS the reachability
relation: `n` stands for `j` iff `j` is registered under `n` on a chain. -/
theorem C11_schema_hoist_reachable_partial (p : Pool W) (i : Nat) (o : Obj W) (ho : p[i]? = some o) :
    (∀ n j, (hoisted p i o.types).lookup n = some j → Reach (tysOf p) i o.types n j) ∧
    (∀ n, (o.types.lookup n).isSome → ((hoisted p i o.types).lookup n).isSome) ∧
    (∀ n, ((hoisted p i o.types).lookup n).isSome →
      ∃ j, Reach (tysOf p) i o.types n j ∧
        (j ≠ i → ∀ u, (((tysOf p) j).lookup u).isSome → ((hoisted p i o.types).lookup u).isSome)) ∧
    (Functional (tysOf p) i o.types →
      ∀ n j, (hoisted p i o.types).lookup n = some j ↔ Reach (tysOf p) i o.types n j) :=
  ⟨(hoisted_spec p i o ho).1, (hoisted_spec p i o ho).2.1, (hoisted_spec p i o ho).2.2,
    fun hf n j => hoisted_iff_of_functional p i o ho hf n j⟩

/-! Non-vacuity. -/

/-- cycles: 0 adds itself; 1 and 2 add each other. The loop ends (2 rounds for receiver 1) and the receiver's own name
comes back through the cycle -/
def poolCyc : Pool W2 := [mkObj [("@t", 0)], mkObj [("@f", 2)], mkObj [("@e", 1)]]
example : fuelOf poolCyc = 4 ∧ hoisted poolCyc 0 [("@t", 0)] = [("@t", 0)] ∧
    hoisted poolCyc 1 [("@f", 2)] = [("@f", 2), ("@e", 1)] ∧
    hoistLoopO (tysOf poolCyc) 1 3 [] [("@f", 2)] = some [("@f", 2), ("@e", 1)] ∧
    hoistLoopO (tysOf poolCyc) 1 2 [] [("@f", 2)] = none := ⟨by rfl, by rfl, by rfl, by rfl, by rfl⟩
example : hoistLoopO (tysOf poolCyc) 1 (fuelOf poolCyc) [] [("@f", 2)] = some (hoisted poolCyc 1 [("@f", 2)]) :=
  (C11_schema_hoist_fuel_suffices poolCyc 1 (mkObj [("@f", 2)]) rfl).1

/-- a collision-free pool (a diamond: 3 is registered as `@u` by both 1 and 2): the hypothesis of (4) holds -/
def poolD : Pool W2 := [mkObj [("@s", 1), ("@t", 2)], mkObj [("@u", 3)], mkObj [("@u", 3)], mkObj []]
theorem poolD_functional : Functional (tysOf poolD) 0 [("@s", 1), ("@t", 2)] := by
  have key : ∀ n j, Reach (tysOf poolD) 0 [("@s", 1), ("@t", 2)] n j →
      (n = "@s" ∧ j = 1) ∨ (n = "@t" ∧ j = 2) ∨ (n = "@u" ∧ j = 3) := by
    intro n j h
    induction h with
    | @base n j h =>
      by_cases h1 : n = "@s"
      · subst h1; exact .inl ⟨rfl, (Option.some.inj h).symm⟩
      · by_cases h2 : n = "@t"
        · subst h2; exact .inr (.inl ⟨rfl, (Option.some.inj h).symm⟩)
        · rw [lookup_cons_ne _ _ _ _ h1, lookup_cons_ne _ _ _ _ h2] at h; cases h
    | @step n j u k _ hji hk ih =>
      have hu : ∀ (t : Table), t = [("@u", 3)] → t.lookup u = some k → u = "@u" ∧ k = 3 := by
        intro t ht h
        subst ht
        by_cases h1 : u = "@u"
        · subst h1; exact ⟨rfl, (Option.some.inj h).symm⟩
        · rw [lookup_cons_ne _ _ _ _ h1] at h; cases h
      rcases ih with ⟨_, rfl⟩ | ⟨_, rfl⟩ | ⟨_, rfl⟩
      · exact .inr (.inr (hu _ rfl hk))
      · exact .inr (.inr (hu _ rfl hk))
      · cases hk
  intro n j j' h h'
  rcases key n j h with ⟨rfl, rfl⟩ | ⟨rfl, rfl⟩ | ⟨rfl, rfl⟩ <;>
    rcases key _ j' h' with ⟨e, rfl⟩ | ⟨e, rfl⟩ | ⟨e, rfl⟩ <;> first | rfl | (exact absurd e (by decide))
example : hoisted poolD 0 [("@s", 1), ("@t", 2)] = [("@s", 1), ("@t", 2), ("@u", 3)] := by rfl
example : Reach (tysOf poolD) 0 [("@s", 1), ("@t", 2)] "@u" 3 :=
  ((C11_schema_hoist_reachable_partial poolD 0 (mkObj [("@s", 1), ("@t", 2)]) rfl).2.2.2 poolD_functional "@u" 3).1
    (by rfl)

/-- name collision, and the ORDER of the names decides (observation; both replayed on the real library): the root's own
`@b` (object 2) loses against the private `@b` (object 3) of the object added as `@a` / `@c` in both pools. With the parent
called `@a` the replacement happens BEFORE `@b` is processed: object 3 is expanded (`@y`), object 2 never (`@x` is not in
the table). With the parent called `@c` it happens AFTER: object 2 was expanded (`@x`), `@b` now stands for object 3 whose
`@y` is never hoisted (the library then answers `Type "@y" not found`). -/
example : hoisted poolA 0 [("@a", 1), ("@b", 2)] = [("@a", 1), ("@b", 3), ("@y", 5)] ∧
    hoisted poolC 0 [("@c", 1), ("@b", 2)] = [("@c", 1), ("@b", 3), ("@x", 4)] := ⟨by rfl, by rfl⟩
/-- the rule on one step: processing `@a` (object 1) replaces the root's `@b` -/
example : (hoistName (tysOf poolA) 0 [("@a", 1), ("@b", 2)] "@a").lookup "@b" = some 3 := by
  rw [(C11_schema_hoist_overwrite_rule (tysOf poolA) 0 [] _).2 "@a" 1 (by rfl)]; rfl

end schemaObjHoist
end Props.C11

#print axioms Props.C11.C11_schema_hoist_fuel_suffices
#print axioms Props.C11.C11_schema_hoist_overwrite_rule
#print axioms Props.C11.C11_schema_hoist_reachable_refuted
#print axioms Props.C11.C11_schema_hoist_reachable_partial
