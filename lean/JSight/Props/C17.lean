import JSight.ErrPos
import JSight.RenderProofs
import JSight.ByteLemmas
import JSight.RenderLine
/-!
# C17 — Errors point at the offending byte and render correctly

* `C17_json_errpos`: the index at which the JSON scanner reports "invalid character" is the first byte
  after which no continuation can be a JSON text, and the text before it can still be completed to one
  (viable-prefix property of the RFC recogniser, transported through the C05 simulation) — for every
  byte string.
* `C17_render_total`: for every file content and every position inside it the renderer
  (`errors/document.go`: line number, line text, caret) produces a result — no index out of range,
  no negative repeat count.
* `C17_line_number`, `C17_line_lf / _cr / _crlf`: the line number shown is 1 + the number of new-line
  symbols before the position; the symbol is LF for LF and CRLF files and CR for CR files.
Validation-error positions and the exact line/caret text are checked against the code (harness
`c17-positions`, `render-diff`), see DESIGN.md §4 C17.
-/
namespace Props.C17
open JsonScan

/-- a byte for every class -/
def repr : Cls → UInt8
  | .sp => 32 | .wsctl => 10 | .lbrace => 123 | .rbrace => 125 | .lbrack => 91 | .rbrack => 93 | .colon => 58
  | .comma => 44 | .quote => 34 | .bslash => 92 | .slash => 47 | .minus => 45 | .plus => 43 | .zero => 48 | .d19 => 49
  | .dot => 46 | .le => 101 | .uE => 69 | .lt => 116 | .lr => 114 | .lu => 117 | .lf => 102 | .la => 97 | .ll => 108
  | .ls => 115 | .ln => 110 | .lb => 98 | .hexo => 99 | .ctrl => 1 | .other => 120

theorem classify_repr (c : Cls) : classify (repr c) = c := by cases c <;> decide

theorem map_classify_repr (cs : List Cls) : (cs.map repr).map classify = cs := by
  induction cs with
  | nil => rfl
  | cons c cs ih => simp [classify_repr, ih]

/-- error position = first dead byte, on bytes -/
theorem C17_json_errpos (bs : List UInt8) (j : Nat) (he : Sim.errPos Cfg.init (bs.map classify) 0 = some j) :
    (∃ suffix : List UInt8, check false (bs.take j ++ suffix) = true) ∧
    (∀ suffix : List UInt8, check false (bs.take (j + 1) ++ suffix) = false) := by
  obtain ⟨⟨sfx, h1⟩, h2⟩ := Sim.C17_json_errpos (bs.map classify) j he
  constructor
  · refine ⟨sfx.map repr, ?_⟩
    unfold check
    rw [List.map_append, map_classify_repr, List.map_take]
    exact h1
  · intro suffix
    unfold check
    rw [List.map_append, List.map_take]
    exact h2 _

/-- the renderer is total inside the content -/
theorem C17_render_total (content : Array UInt8) (idx : Nat) (h : idx < content.size) :
    (Render.render content idx).isSome = true :=
  Render.render_total content idx h

/-- the rendered line number is 1 + the number of new-line symbols strictly before the position -/
theorem C17_line_number (content : Array UInt8) (idx : Nat) (h : idx < content.size) :
    Render.line content idx = some (1 + Render.countNl content (Render.detectNl content.toList) idx) :=
  Render.line_eq content idx h

/-- LF files (no CR anywhere): lines are counted by LF -/
theorem C17_line_lf (content : Array UInt8) (idx : Nat) (h : idx < content.size) (hlf : ∀ c ∈ content.toList, c ≠ 13) :
    Render.line content idx = some (1 + Render.countNl content 10 idx) := by
  rw [C17_line_number content idx h, Render.detectNl_lf _ hlf]

/-- CR files (no LF, at least one CR): lines are counted by CR -/
theorem C17_line_cr (content : Array UInt8) (idx : Nat) (h : idx < content.size) (hcr : ∀ c ∈ content.toList, c ≠ 10)
    (hex : ∃ c ∈ content.toList, c = 13) : Render.line content idx = some (1 + Render.countNl content 13 idx) := by
  rw [C17_line_number content idx h, Render.detectNl_cr _ hcr hex]

/-- CRLF files (every CR immediately followed by LF): lines are counted by LF, one per CRLF pair -/
theorem C17_line_crlf (content : Array UInt8) (idx : Nat) (h : idx < content.size) (hw : Render.CRLF content.toList) :
    Render.line content idx = some (1 + Render.countNl content 10 idx) := by
  rw [C17_line_number content idx h, Render.detectNl_crlf _ hw]

/-! Non-vacuity -/
def s (x : String) : List UInt8 := x.toList.map (fun c => UInt8.ofNat c.toNat)
example : Sim.errPos Cfg.init ((s "[1, x]").map classify) 0 = some 4 := by decide +kernel
example : Sim.errPos Cfg.init ((s "{\"a\" 1}").map classify) 0 = some 5 := by decide +kernel
example : (Render.render (s "ab\n  cd").toArray 5).isSome = true := by decide +kernel

end Props.C17
