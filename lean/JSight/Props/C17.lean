import JSight.ErrPos
import JSight.RenderProofs
import JSight.ByteLemmas
import JSight.RenderLine
import JSight.ValidatePosBytes
import JSight.ValidatePosShape
import JSight.SchemaErrExamples
import JSight.SchemaViableFalse
import JSight.SchemaTokViableExamples
import JSight.SchemaErrWindowNext
import JSight.SchemaViable
import JSight.DocCorollaries
/-!
# C17 — Errors point at the offending byte and render correctly

* `C17_json_errpos`: the index at which the JSON scanner reports "invalid character" is the first byte
  after which no continuation can be a JSON text, and the text before it can still be completed to one
  (viable-prefix property of the RFC recogniser, transported through the C05 simulation) — for every
  byte string.
* `C17_render_total`: for every file content and every position inside it the renderer
  (`errors/document.go`: line number, line text, caret) produces a result — no index out of range,
  no negative repeat count.
* `C17_line_number`, `C17_line_lf / _cr / _crlf`: the line number shown is 1 + the number of new-line
  symbols before the position; the symbol is LF for LF and CRLF files and CR for CR files.
* `C17_validation_errpos` (and `_bytes`, `_pos_inside`, `_pos_is_token_start`, `_accepts_iff_shape`, at the end of
  the file): the VALIDATION error of the rule-free fragment — code and byte position as the validator computes
  them — is the first offending value or key of the document in document order, positioned at its first byte.
The exact line/caret text and the positions of the rest of the schema language are checked against the code
(harness `c17-positions`, `c17-valpos`, `render-diff`), see DESIGN.md §4 C17.
-/
namespace Props.C17
open JsonScan

/-- a byte for every class -/
def repr : Cls → UInt8
  | .sp => 32 | .wsctl => 10 | .lbrace => 123 | .rbrace => 125 | .lbrack => 91 | .rbrack => 93 | .colon => 58
  | .comma => 44 | .quote => 34 | .bslash => 92 | .slash => 47 | .minus => 45 | .plus => 43 | .zero => 48 | .d19 => 49
  | .dot => 46 | .le => 101 | .uE => 69 | .lt => 116 | .lr => 114 | .lu => 117 | .lf => 102 | .la => 97 | .ll => 108
  | .ls => 115 | .ln => 110 | .lb => 98 | .hexo => 99 | .ctrl => 1 | .other => 120

theorem classify_repr (c : Cls) : classify (repr c) = c := by cases c <;> decide

theorem map_classify_repr (cs : List Cls) : (cs.map repr).map classify = cs := by
  induction cs with
  | nil => rfl
  | cons c cs ih => simp [classify_repr, ih]

/-- error position = first dead byte, on bytes -/
theorem C17_json_errpos (bs : List UInt8) (j : Nat) (he : Sim.errPos Cfg.init (bs.map classify) 0 = some j) :
    (∃ suffix : List UInt8, check false (bs.take j ++ suffix) = true) ∧
    (∀ suffix : List UInt8, check false (bs.take (j + 1) ++ suffix) = false) := by
  obtain ⟨⟨sfx, h1⟩, h2⟩ := Sim.C17_json_errpos (bs.map classify) j he
  constructor
  · refine ⟨sfx.map repr, ?_⟩
    unfold check
    rw [List.map_append, map_classify_repr, List.map_take]
    exact h1
  · intro suffix
    unfold check
    rw [List.map_append, List.map_take]
    exact h2 _

/-- the renderer is total inside the content -/
theorem C17_render_total (content : Array UInt8) (idx : Nat) (h : idx < content.size) :
    (Render.render content idx).isSome = true :=
  Render.render_total content idx h

/-- the rendered line number is 1 + the number of new-line symbols strictly before the position -/
theorem C17_line_number (content : Array UInt8) (idx : Nat) (h : idx < content.size) :
    Render.line content idx = some (1 + Render.countNl content (Render.detectNl content.toList) idx) :=
  Render.line_eq content idx h

/-- LF files (no CR anywhere): lines are counted by LF -/
theorem C17_line_lf (content : Array UInt8) (idx : Nat) (h : idx < content.size) (hlf : ∀ c ∈ content.toList, c ≠ 13) :
    Render.line content idx = some (1 + Render.countNl content 10 idx) := by
  rw [C17_line_number content idx h, Render.detectNl_lf _ hlf]

/-- CR files (no LF, at least one CR): lines are counted by CR -/
theorem C17_line_cr (content : Array UInt8) (idx : Nat) (h : idx < content.size) (hcr : ∀ c ∈ content.toList, c ≠ 10)
    (hex : ∃ c ∈ content.toList, c = 13) : Render.line content idx = some (1 + Render.countNl content 13 idx) := by
  rw [C17_line_number content idx h, Render.detectNl_cr _ hcr hex]

/-- CRLF files (every CR immediately followed by LF): lines are counted by LF, one per CRLF pair -/
theorem C17_line_crlf (content : Array UInt8) (idx : Nat) (h : idx < content.size) (hw : Render.CRLF content.toList) :
    Render.line content idx = some (1 + Render.countNl content 10 idx) := by
  rw [C17_line_number content idx h, Render.detectNl_crlf _ hw]

/-! Non-vacuity -/
def s (x : String) : List UInt8 := x.toList.map (fun c => UInt8.ofNat c.toNat)
example : Sim.errPos Cfg.init ((s "[1, x]").map classify) 0 = some 4 := by decide +kernel
example : Sim.errPos Cfg.init ((s "{\"a\" 1}").map classify) 0 = some 5 := by decide +kernel
example : (Render.render (s "ab\n  cd").toArray 5).isSome = true := by decide +kernel

/-! ## Validation errors: the reported position is the start of the offending value or key

Model `VPos.validatePos` (`JSight/ValidatePos.lean`): the validator tree of the rule-free fragment (scalars with an
arbitrary literal validator, `any`, arrays with the last-element rule, objects with optional keys) WITH
alternatives per position — any number of scalar alternatives next to at most one container: nullable containers,
`or` / type lists of scalars, `@obj | @str` — fed with the scanner's lexical events and their spans; every error
carries the code and the index the Go code gives it (`lex.Begin()` of the lexeme being fed, the remembered key
lexeme for an unknown key). As coded in `Tree.FeedLeaves`, a failing alternative is dropped silently while another
one survives; when all live alternatives fail on one lexeme the error is the alternative's own if exactly one was
alive and `ErrOrRuleSetValidation` (204) at that lexeme otherwise — so the alternative that got furthest is reported.
Spec `VPos.firstOffence`: a function of schema × document TREE (with layout) — the first value or key, in document
order, that has no counterpart / the wrong kind / is rejected by every literal validator of its position, and the
byte offset of its first byte. A missing required key has no offending token: the spec (as the code) reports it when
the object closes, at the first byte of the object that lacks the key; the property text does not define that case. -/
section validation
open VPos

/-- **C17, validation error position (any alphabet).** For every schema of the fragment, every document tree —
any depth, width and layout — embedded anywhere in a source text, and any literal-validator semantics, the validator
fed with the tree's lexical events returns exactly the spec's first offence: same code, and the offset of the first
byte of the offending value or key (or acceptance when there is none; never `stuck`). -/
theorem C17_validation_errpos {α L : Type} (p : P α L) (sy : Sym α) (s : S L) (d : T α) (hd : d.TokNE)
    (pre post : List α) :
    validatePos p s (pre ++ (d.render sy ++ post)) (evsAt pre.length d)
      = Res.ofSpec (firstOffence p s pre.length d) :=
  VPos.validatePos_render p sy s d hd pre post

/-- **C17, validation error position on bytes, scanner included.** For every JSON document — a tree of scanner
tokens rendered with arbitrary blanks, blanks before and after — the scanner model followed by the validator
(`Schema.validate`) returns the spec's first offence at its byte offset in the document. -/
theorem C17_validation_errpos_bytes {L : Type} (p : P UInt8 L) (s : S L) (d : T UInt8)
    (hv : (toJA classify d).Valid) (ws0 ws1 : List UInt8) (h0 : IsWs (ws0.map classify)) (h1 : IsWs (ws1.map classify)) :
    validateBytes p s (ws0 ++ (d.render byteSym ++ ws1)) = .ok (Res.ofSpec (firstOffence p s ws0.length d)) :=
  VPos.validateBytes_tree p s d hv ws0 ws1 h0 h1

/-- the reported position lies inside the document -/
theorem C17_validation_pos_inside {α L : Type} (p : P α L) (sy : Sym α) (s : S L) (d : T α) (hd : d.TokNE)
    (pre post : List α) (c q : Nat)
    (h : validatePos p s (pre ++ (d.render sy ++ post)) (evsAt pre.length d) = .rej c q) :
    pre.length ≤ q ∧ q < pre.length + (d.render sy).length := by
  rw [C17_validation_errpos p sy s d hd, VPos.ofSpec_rej] at h
  rw [VPos.render_length]
  exact VPos.starts_inside d hd _ q (VPos.offence_starts p s d _ c q h)

/-- the reported position is the begin offset of a lexeme that opens a value (literal, array, object) or a key
of the document: it is one of the tree's token starts, and these are exactly the begin offsets of the
literal-begin / array-begin / object-begin / key-begin events -/
theorem C17_validation_pos_is_token_start {α L : Type} (p : P α L) (sy : Sym α) (s : S L) (d : T α) (hd : d.TokNE)
    (pre post : List α) (c q : Nat)
    (h : validatePos p s (pre ++ (d.render sy ++ post)) (evsAt pre.length d) = .rej c q) :
    q ∈ starts pre.length d ∧ starts pre.length d = (evsAt pre.length d).filterMap tokStart := by
  rw [C17_validation_errpos p sy s d hd, VPos.ofSpec_rej] at h
  exact ⟨VPos.offence_starts p s d _ c q h, VPos.starts_eq d _⟩

/-- consistency with C01: the position-carrying validator accepts exactly the documents that have the schema's
shape (`VN.shape`, the spec of `C01_with_alternatives`; layout stripped, keys decoded) -/
theorem C17_validation_accepts_iff_shape {α L : Type} (p : P α L) (sy : Sym α) (s : S L) (d : T α) (hd : d.TokNE)
    (pre post : List α) :
    validatePos p s (pre ++ (d.render sy ++ post)) (evsAt pre.length d) = .acc
      ↔ VN.shape (litOKof p) (toVN s) (strip p.unq d) = true := by
  rw [C17_validation_errpos p sy s d hd, VPos.ofSpec_acc, ← VPos.shape_value p s d pre.length]
  cases firstOffence p s pre.length d <;> simp

/-! Non-vacuity: schema `{"a": @one | @str, "b": [true]}` with `b` optional and nullable; literal validator =
"same first byte" (code 210 otherwise; `110` = `n` stands for the null literal of the nullable array). Document ` {"a": 1, "b" : [true, "x"]}`: the second element `"x"` (offset 23) is the
first offence. -/
def exP : P UInt8 UInt8 :=
  { litErr := fun l tok => if tok.head? == some l then none else some 210
    unq := fun k => String.ofList ((k.drop 1).dropLast.map fun b => Char.ofNat b.toNat) }
def exS : S UInt8 := .obj [] [("a", true, .lits [49, 34]), ("b", false, .arr [110] [.lits [116]])]
def exD : T UInt8 :=
  .obj [] [([], [34, 97, 34], [], [32], .scalar [49], []),
           ([32], [34, 98, 34], [32], [32], .arr [] [([], .scalar [116, 114, 117, 101], []), ([32], .scalar [34, 120, 34], [])], [])]

example : exD.render byteSym = s "{\"a\": 1, \"b\" : [true, \"x\"]}" := by decide +kernel
def okIs (x : Except ErrS Res) (r : Res) : Bool := match x with | .ok r' => r' == r | .error _ => false
example : okIs (validateBytes exP exS (s " {\"a\": 1, \"b\" : [true, \"x\"]}")) (.rej 210 23) = true := by decide +kernel
example : firstOffence exP exS 1 exD = some (210, 23) := by decide +kernel
example : okIs (validateBytes exP exS (s "{\"b\":null}")) (.rej 205 0) = true := by decide +kernel
example : okIs (validateBytes exP exS (s "{\"a\":1,\"b\":{}}")) (.rej 204 11) = true := by decide +kernel
example : okIs (validateBytes exP exS (s "{\"a\":1,\"c\":{}}")) (.rej 206 7) = true := by decide +kernel
example : okIs (validateBytes exP exS (s "{\"a\":1,\"b\":[ true,true ]}")) .acc = true := by decide +kernel
example : okIs (validateBytes exP exS (s "{\"a\":\"s\",\"b\":null}")) .acc = true := by decide +kernel
example : okIs (validateBytes exP exS (s "{\"a\":true}")) (.rej 204 5) = true := by decide +kernel
example : okIs (validateBytes exP exS (s "{\"a\":[]}")) (.rej 204 5) = true := by decide +kernel
example : okIs (validateBytes exP exS (s "{\"a\":1,\"b\":7}")) (.rej 210 11) = true := by decide +kernel

/-- the hypotheses of `C17_validation_errpos_bytes` are met by a concrete document -/
example : (toJA classify exD).Valid := by
  have e : toJA classify exD = .obj [] [([], [.quote, .la, .quote], [], [.sp], .scalar [.d19], []),
      ([.sp], [.quote, .lb, .quote], [.sp], [.sp],
        .arr [] [([], .scalar [.lt, .lr, .lu, .le], []), ([.sp], .scalar [.quote, .other, .quote], [])], [])] := by
    simp [exD, toJA, toJAItems, toJAMembers]; decide
  rw [e]
  have k1 : IsKey [.quote, .la, .quote] := string_isKey [.la] (.plain _ _ rfl .nil)
  have k2 : IsKey [.quote, .lb, .quote] := string_isKey [.lb] (.plain _ _ rfl .nil)
  have n1 : IsScalar [.d19] := ⟨.d19, [], .d1, false, .d1, rfl, rfl, rfl, rfl⟩
  have s1 : IsScalar [.quote, .other, .quote] := string_isScalar [.other] (.plain _ _ rfl .nil)
  simp [JA.Valid, ValidMembers, ValidItems, IsWs, Cls.isWs, k1, k2, n1, s1, true_isScalar]

end validation

/-! ## Schema scanner: a parsing error points at the first byte that cannot continue the text

Model `SchemaScan.scanAll` (the JSight SCHEMA scanner as `Next()` drains it; tied to the real scanner's `ERR code idx` by
`schema-diff` / `schema-tprod`, and to the statements below by `c17-schema-viable`). `SchemaScan.Err.idx` is the offset an
error carries, `Err.isEOF` singles out "unexpected end of file" (303); the other structured errors are 301 / 302 / 304. -/
section schema

/-- **C17 (1), schema scanner: the error is determined by the prefix up to the offending byte and a bounded look-ahead
window.** If the scanner rejects `bs` with error `e` at offset `i = e.idx`, then `i` is an offset of the text; and if `e` is
not "unexpected end of file", every byte string that has the same bytes and the same end of input at the offsets
`0 … i + 2` (the scanner looks at most two bytes ahead: one for `*/` and `##`, two for the closing `###`) is rejected
with exactly the same error (same code, same offset, same message): nothing behind the window can repair the text. -/
theorem C17_schema_error_is_prefix_determined (bs : List UInt8) (e : SchemaScan.Err)
    (h : SchemaScan.scanAll bs = .error e) :
    e.idx < max 1 bs.length ∧
    (e.isEOF = false →
      e.idx < bs.length ∧
      ∀ bs' : List UInt8, (∀ k, k < e.idx + 3 → bs'[k]? = bs[k]?) → SchemaScan.scanAll bs' = .error e) :=
  ⟨SchemaScan.scanAll_error_idx_lt bs e h, fun he => SchemaScan.scanAll_error_prefix bs e h he⟩

/-- the same in the form "cut the text behind the window and continue it by anything" (window `w = 2`) -/
theorem C17_schema_error_window (bs : List UInt8) (e : SchemaScan.Err) (h : SchemaScan.scanAll bs = .error e)
    (he : e.isEOF = false) (hw : e.idx + 1 + 2 ≤ bs.length) (ext : List UInt8) :
    SchemaScan.scanAll (bs.take (e.idx + 1 + 2) ++ ext) = .error e :=
  SchemaScan.scanAll_error_window bs e h he hw ext

/-- The EXACT window (PROVED at the end of this file: `C17_schema_error_exact_window`; also checked operationally by
`c17-schema-viable`): `w = 1` for the error "after first #"
(`##` must be followed by a third `#`), `w = 0` for every other error — the bytes up to the offending one decide, plus,
for `##`, the fact that the next byte is not `#`. -/
def C17_schema_error_exact_window_full : Prop :=
  ∀ (bs : List UInt8) (e : SchemaScan.Err), SchemaScan.scanAll bs = .error e → e.isEOF = false →
    ∀ bs' : List UInt8, (∀ k, k ≤ e.idx → bs'[k]? = bs[k]?) → (e.window = 1 → bs'[e.idx + 1]? ≠ some 35) →
      SchemaScan.scanAll bs' = .error e

/-- non-vacuity: `x` (offset 0) and `##xy` (offset 1, the error that needs the look-ahead byte) -/
example : SchemaScan.scanAll [120] = .error (.invalidChar 0 "looking for beginning of value") := SchemaScan.ErrEx.ex_x
example : SchemaScan.scanAll [35, 35, 120, 121] = .error (.invalidChar 1 "after first #") := SchemaScan.ErrEx.ex_hash
example (ext : List UInt8) : SchemaScan.scanAll ([35, 35, 120, 121] ++ ext) = .error (.invalidChar 1 "after first #") :=
  C17_schema_error_window [35, 35, 120, 121] _ SchemaScan.ErrEx.ex_hash rfl (by decide) ext

/-- **C17 (2), full statement (NOT a theorem).** The prefix before the offending byte can be completed to an accepted text.
It is false as it stands: after a user comment inside the object of an INLINE annotation the scanner forgets the
annotation (`[1 //{#c\n}` followed by any byte is rejected at that byte, although no byte could be accepted from the
`#` on; real library: 301 at offset 10 for `[1 //{#c\\n}]`, 303 for the bare prefix, while at root level `1 //{#c\\n}` IS
accepted) — known-finding class `K-C17-comment-in-inline-annotation` of `c17-schema-viable`. The Lean refutation on the
witness (`C17_schema_error_prefix_viable_full_false`) and the proved part (`C17_schema_error_prefix_viable_partial`,
`C17_token_level_viable`: errors at token boundaries) are at the end of this file; the witness is also replayed on the
model (driver `sviable`) and on the real scanner. Outside that class the
completion `SchemaScan.completion` (close the open token, then the lexeme stack from the top, following the return
stack through annotations and comments) is accepted by the model and by the real scanner on every generated case. -/
def C17_schema_error_prefix_viable_full : Prop :=
  ∀ (bs : List UInt8) (e : SchemaScan.Err), SchemaScan.scanAll bs = .error e → e.isEOF = false →
    ∃ ext : List UInt8, ∃ evs, SchemaScan.scanAll (bs.take e.idx ++ ext) = .ok evs

/-- **C17 (3), the end-of-file error is reported at the last byte** — for every input on which the scanner reports it. -/
theorem C17_schema_eof_error_position (bs : List UInt8) (e : SchemaScan.Err) (h : SchemaScan.scanAll bs = .error e)
    (he : e.isEOF = true) : e = .unexpectedEOF (bs.length - 1) :=
  SchemaScan.scanAll_eof_idx bs e h he

/-- **C17 (3), input ends early at a token boundary** (ordinary mode; `C14_schema_len_error` is the length-mode twin):
the input is the text of a token list accepted from the initial state that leaves an object, an array, a key, a member
value or an array item open: "unexpected end of file" (303) at the last byte. -/
theorem C17_schema_eof_error_tokens (toks : List SchemaScan.Len.Tok) (hw : ∀ t ∈ toks, t.WF) (c' : SchemaScan.Len.TC)
    (evs : List SchemaScan.Ev) (h : SchemaScan.Len.trun SchemaScan.Len.TC.init toks = some (c', evs))
    (hopen : SchemaScan.Len.eofErrK c'.K = true) (bs : List UInt8)
    (hbs : bs.map SchemaScan.classify = SchemaScan.Len.renderToks toks) :
    SchemaScan.scanAll bs = .error (.unexpectedEOF (bs.length - 1)) :=
  SchemaScan.scanAll_eof_tokens toks hw c' evs h hopen bs hbs

/-- … and inside a string (a cut inside a token): where a value may start, `"` and string characters up to the end -/
theorem C17_schema_eof_error_string (toks : List SchemaScan.Len.Tok) (hw : ∀ t ∈ toks, t.WF) (c' : SchemaScan.Len.TC)
    (evs : List SchemaScan.Ev) (h : SchemaScan.Len.trun SchemaScan.Len.TC.init toks = some (c', evs))
    (ctx : SchemaScan.VCtx) (hctx : SchemaScan.Len.vctxOf c'.st = some ctx) (body : List SchemaScan.Cls)
    (hb : SchemaScan.StrBody body) (bs : List UInt8)
    (hbs : bs.map SchemaScan.classify = SchemaScan.Len.renderToks toks ++ (.quote :: body)) :
    SchemaScan.scanAll bs = .error (.unexpectedEOF (bs.length - 1)) :=
  SchemaScan.scanAll_eof_string toks hw c' evs h ctx hctx body hb bs hbs

/-- **C17 (3), any cut of an accepted text** (cuts inside tokens, annotations, comments included): a prefix of an accepted
text is accepted, or rejected with "unexpected end of file" at its last byte, or rejected with an invalid-character
error whose look-ahead window reaches the end of the prefix (one of its last two bytes; with the exact window: the last
byte, and only for a prefix ending in `##`). -/
theorem C17_schema_prefix_of_accepted_partial (t : List UInt8) (evs : List SchemaScan.Ev)
    (ht : SchemaScan.scanAll t = .ok evs) (n : Nat) (e : SchemaScan.Err)
    (h : SchemaScan.scanAll (t.take n) = .error e) :
    e = .unexpectedEOF ((t.take n).length - 1) ∨
    (e.isEOF = false ∧ (t.take n).length < e.idx + 3 ∧ e.idx < (t.take n).length) :=
  SchemaScan.scanAll_prefix_of_accepted t evs ht n e h

/-- full statement of (3) for any cut (follows from the exact window; PROVED at the end of this file:
`C17_schema_prefix_of_accepted`): the position is the last byte -/
def C17_schema_prefix_of_accepted_full : Prop :=
  ∀ (t : List UInt8) (evs : List SchemaScan.Ev), SchemaScan.scanAll t = .ok evs → ∀ (n : Nat) (e : SchemaScan.Err),
    SchemaScan.scanAll (t.take n) = .error e → e.idx = (t.take n).length - 1

/-- non-vacuity: `[1, {"a":` and `[1, {"a":"x\n` -/
example := SchemaScan.ErrEx.ex_eof
example := SchemaScan.ErrEx.ex_eof_str

end schema

end Props.C17

#print axioms Props.C17.C17_schema_error_is_prefix_determined
#print axioms Props.C17.C17_schema_error_window
#print axioms Props.C17.C17_schema_eof_error_position
#print axioms Props.C17.C17_schema_eof_error_tokens
#print axioms Props.C17.C17_schema_eof_error_string
#print axioms Props.C17.C17_schema_prefix_of_accepted_partial

/-! ## Schema scanner, second part: the refuted viability statement, viability on the token level, the exact window -/
namespace Props.C17
section schema2

/-- **C17 (2) is FALSE as it stands** (known-finding class K-C17-comment-in-inline-annotation; regression witness
`[1 //{#c\n}]`, replayed on the real library by `c17-schema-viable`): the model reports the witness at offset 10 ("at the
end of value"), but no continuation of the ten bytes before it is accepted — a user comment inside the object of an
INLINE annotation resets the annotation mode, the object is closed as an ordinary value and the scanner is left in
`stateEndValue` over the inline-annotation marker, where every byte is rejected and the end of input is "unexpected". -/
theorem C17_schema_error_prefix_viable_full_false : ¬ C17_schema_error_prefix_viable_full := fun h =>
  let ⟨ext, evs, hok⟩ := h SchemaScan.ViableFalse.witness _ SchemaScan.ViableFalse.witness_error rfl
  SchemaScan.ViableFalse.prefix_dead ext evs hok

/-- the two halves of the refutation: the witness is reported at offset 10, and `[1 //{#c\n}` ++ anything is rejected -/
theorem C17_schema_witness_reported_at_10 :
    SchemaScan.scanAll [91, 49, 32, 47, 47, 123, 35, 99, 10, 125, 93] = .error (.invalidChar 10 "at the end of value") :=
  SchemaScan.ViableFalse.witness_error
theorem C17_schema_witness_prefix_dead (ext : List UInt8) (evs : List SchemaScan.Ev) :
    SchemaScan.scanAll ([91, 49, 32, 47, 47, 123, 35, 99, 10, 125] ++ ext) ≠ .ok evs :=
  SchemaScan.ViableFalse.prefix_dead ext evs

/-- **C17 (2) on the token level — "whatever has been accepted so far can be completed".** Token grammar of the schema
text (`ATok`: blanks, line breaks, `#` comments, inline `// {…} - note` and multi-line `/* {…} - note */` annotations,
scalars, keys, brackets, separators) and its scanner `arun` (which the byte-level model follows: `asim_run`): for every
token list accepted from the initial state, the closing tokens `closers c'` of the state reached — `1` / `"a":1` / `:1` for
what the step function waits for, then `}` / `]` (and `:1` behind an open key) for what is on the lexeme stack, from the
top — are well-formed, are accepted behind it, and leave the scanner in a complete state. -/
theorem C17_token_level_viable (toks : List SchemaScan.Len.ATok) (hw : ∀ t ∈ toks, t.WF) (c' : SchemaScan.Len.TC)
    (evs : List SchemaScan.Ev) (h : SchemaScan.Len.arun SchemaScan.Len.TC.init toks = some (c', evs)) :
    (∀ t ∈ SchemaScan.Len.closers c', t.WF) ∧
    ∃ c'' evs', SchemaScan.Len.arun SchemaScan.Len.TC.init (toks ++ (SchemaScan.Len.closers c').map .base)
        = some (c'', evs ++ evs') ∧ SchemaScan.Len.Complete c'' :=
  SchemaScan.Len.arun_viable toks hw c' evs h

/-- the same for the token grammar without multi-line annotations (`trun`) -/
theorem C17_token_level_viable_trun (toks : List SchemaScan.Len.Tok) (hw : ∀ t ∈ toks, t.WF) (c' : SchemaScan.Len.TC)
    (evs : List SchemaScan.Ev) (h : SchemaScan.Len.trun SchemaScan.Len.TC.init toks = some (c', evs)) :
    (∀ t ∈ SchemaScan.Len.closers c', t.WF) ∧
    ∃ c'' evs', SchemaScan.Len.trun SchemaScan.Len.TC.init (toks ++ SchemaScan.Len.closers c') = some (c'', evs ++ evs') ∧
      SchemaScan.Len.Complete c'' :=
  SchemaScan.Len.trun_viable toks hw c' evs h

/-- **lifted through the simulation: the byte text of an accepted token list is a viable prefix** — the scanner model
accepts it followed by the closing text `closerBytes c'` (`1`, `"a":1`, `:1`, `}`, `]`) -/
theorem C17_schema_token_prefix_viable (toks : List SchemaScan.Len.ATok) (hw : ∀ t ∈ toks, t.WF) (c' : SchemaScan.Len.TC)
    (evs : List SchemaScan.Ev) (h : SchemaScan.Len.arun SchemaScan.Len.TC.init toks = some (c', evs))
    (bs : List UInt8) (hbs : bs.map SchemaScan.classify = SchemaScan.Len.renderAToks toks) :
    ∃ evs', SchemaScan.scanAll (bs ++ SchemaScan.Len.closerBytes c') = .ok evs' :=
  SchemaScan.bytes_viable toks hw c' evs h bs hbs

/-- **C17 (2), proved part**: an error whose offending byte stands at a TOKEN BOUNDARY — the text before it is the text of
a token list accepted by the token-level scanner (this excludes the class K-C17-comment-in-inline-annotation, whose
texts are not token lists: a comment inside an annotation object is not a token) — has a completable prefix. The
general statement `C17_schema_error_prefix_viable_full` is false (`C17_schema_error_prefix_viable_full_false`). -/
theorem C17_schema_error_prefix_viable_partial (bs : List UInt8) (e : SchemaScan.Err)
    (_h : SchemaScan.scanAll bs = .error e) (toks : List SchemaScan.Len.ATok) (hw : ∀ t ∈ toks, t.WF)
    (c' : SchemaScan.Len.TC) (evs : List SchemaScan.Ev)
    (hrun : SchemaScan.Len.arun SchemaScan.Len.TC.init toks = some (c', evs))
    (hbs : (bs.take e.idx).map SchemaScan.classify = SchemaScan.Len.renderAToks toks) :
    ∃ ext : List UInt8, ∃ evs', SchemaScan.scanAll (bs.take e.idx ++ ext) = .ok evs' :=
  ⟨SchemaScan.Len.closerBytes c', SchemaScan.bytes_viable toks hw c' evs hrun _ hbs⟩

/-- non-vacuity: behind `[1, {"a":` the closing text is `1}]` and `[1, {"a":1}]` is accepted; `[x` is rejected at offset 1
behind the accepted token `[`, and `[` ++ `]` is accepted -/
example := SchemaScan.ErrEx.ex_closers3
example := SchemaScan.ErrEx.ex_viable3
example : ∃ ext : List UInt8, ∃ evs', SchemaScan.scanAll (([91, 120] : List UInt8).take 1 ++ ext) = .ok evs' :=
  C17_schema_error_prefix_viable_partial [91, 120] _ SchemaScan.ErrEx.ex_brack_x [.base .lbrack] (by simp [SchemaScan.Len.ATok.WF, SchemaScan.Len.Tok.WF])
    _ _ rfl rfl

/-- **C17 (1), the EXACT look-ahead window** (the statement `C17_schema_error_exact_window_full` of the first part, now a
theorem): a structured error other than "unexpected end of file" at offset `i` is reproduced on every input that has
the same bytes (and the same end of input) at the offsets `0 … i` — window 0 — except that the error "after first #"
(`##` not followed by a third `#`) also needs the byte behind `i` not to be `#` — window 1. Behind it stands the
per-state look-ahead lemma (`SchemaLookAhead`: only `anyCommentStart` on `#`, `multiLineComment` on `#` and `mlTxt` on `*`
consult `data[index]` / `data[index+1]`; `dispatch_la_plain / _star1 / _star2 / _hash1 / _hash2`). -/
theorem C17_schema_error_exact_window : C17_schema_error_exact_window_full :=
  fun bs e h he bs' hA hW => SchemaScan.scanAll_error_exact bs e h he bs' hA hW

/-- the same in the form "cut the text behind the exact window and continue it by anything" -/
theorem C17_schema_error_window_exact (bs : List UInt8) (e : SchemaScan.Err) (h : SchemaScan.scanAll bs = .error e)
    (he : e.isEOF = false) (hw : e.idx + 1 + e.window ≤ bs.length) (ext : List UInt8) :
    SchemaScan.scanAll (bs.take (e.idx + 1 + e.window) ++ ext) = .error e :=
  SchemaScan.scanAll_error_window_exact bs e h he hw ext

/-- non-vacuity: `x` (window 0: `x` ++ anything) and `##xy` (window 1: `##x` ++ anything) -/
example (ext : List UInt8) : SchemaScan.scanAll ([120] ++ ext) = .error (.invalidChar 0 "looking for beginning of value") :=
  C17_schema_error_window_exact [120] _ SchemaScan.ErrEx.ex_x rfl (by decide) ext
example (ext : List UInt8) : SchemaScan.scanAll ([35, 35, 120] ++ ext) = .error (.invalidChar 1 "after first #") :=
  C17_schema_error_window_exact [35, 35, 120, 121] _ SchemaScan.ErrEx.ex_hash rfl (by decide) ext

/-- the error with window 1 ("after first #") stands in front of a byte other than `#`, or of the end of input -/
theorem C17_schema_window_next (bs : List UInt8) (e : SchemaScan.Err) (h : SchemaScan.scanAll bs = .error e)
    (hw : e.window = 1) : bs[e.idx + 1]? ≠ some 35 :=
  SchemaScan.scanAll_window_next bs e h hw

/-- **C17 (3), any cut of an accepted text, exactly** (the statement `C17_schema_prefix_of_accepted_full` of the first part,
now a theorem; corollary of the exact window): a prefix of an accepted text is accepted, or rejected AT ITS LAST BYTE —
"unexpected end of file", or an invalid-character error there (a prefix ending in `##`). -/
theorem C17_schema_prefix_of_accepted : C17_schema_prefix_of_accepted_full :=
  fun t evs ht n e h => SchemaScan.scanAll_prefix_of_accepted_exact t evs ht n e h

/-- non-vacuity: `[1, {"a":1}]` is accepted (`ex_viable3`), its cut `[1, {"a":` of length 9 is rejected (`ex_eof`) — at
offset 8; and the window-1 error at the last byte of a text: `##` -/
example : ∀ e, SchemaScan.scanAll ((SchemaScan.Len.Ex.b "[1, {\"a\":" ++ SchemaScan.Len.Ex.b "1}]").take 9) = .error e →
    e.idx = 8 := by
  obtain ⟨evs, h⟩ := SchemaScan.ErrEx.ex_viable3
  intro e he
  exact C17_schema_prefix_of_accepted _ evs h 9 e he
example : (SchemaScan.Len.Ex.b "[1, {\"a\":" ++ SchemaScan.Len.Ex.b "1}]").take 9 = SchemaScan.Len.Ex.b "[1, {\"a\":" := by
  decide
example : SchemaScan.scanAll [35, 35] = .error (.invalidChar 1 "after first #") :=
  C17_schema_error_exact_window [35, 35, 120, 121] _ SchemaScan.ErrEx.ex_hash rfl [35, 35]
    (fun k hk => by
      have : k = 0 ∨ k = 1 := by simp [SchemaScan.Err.idx] at hk; omega
      rcases this with rfl | rfl <;> rfl)
    (fun _ => by simp [SchemaScan.Err.idx])

end schema2
end Props.C17

#print axioms Props.C17.C17_schema_error_prefix_viable_full_false
#print axioms Props.C17.C17_schema_witness_prefix_dead
#print axioms Props.C17.C17_token_level_viable
#print axioms Props.C17.C17_token_level_viable_trun
#print axioms Props.C17.C17_schema_token_prefix_viable
#print axioms Props.C17.C17_schema_error_prefix_viable_partial
#print axioms Props.C17.C17_schema_error_exact_window
#print axioms Props.C17.C17_schema_error_window_exact
#print axioms Props.C17.C17_schema_window_next
#print axioms Props.C17.C17_schema_prefix_of_accepted

/-! ## Error positions of the json `Document` OBJECT after any history (carry-over of `C17_json_errpos` through the C11
bridge `C11_doc_rejected_is_whole_text_model` / `C11_doc_rejected_all_deliveries`)

`Sim.errPos Cfg.init (t.map classify) 0` is the index `C17_json_errpos` speaks about (the first byte the strict scanner
rejects). `DocCorollaries.events_errPos`: the span-carrying whole-text model `JsonScan.events false` reports "invalid
character" exactly there, and "unexpected end" exactly when no byte is rejected, at the last byte. -/
namespace Props.C17
section document
open JsonScan DocCursor

/-- `Check()` after ANY history answers what the whole-text model `checkS` answers on the text (both modes):
OK, or the error with code 301 / 303 / 203 and the same index -/
theorem C17_document_check_is_whole_text_model (t : List UInt8) (o : Bool) (ops : List Op) :
    (((Doc.new t o).run ops).2.step .check).1 = .check (DocCorollaries.checkOfS (checkS o t)) :=
  DocCorollaries.check_after_checkS t o ops

/-- strict document, ANY history: if `Check()` reports the error `c` at index `p`, then either
* `c = 301` "invalid character": `p` is an index of the text, it is the byte of `C17_json_errpos` - the text before it can
  be continued to a JSON text and no text that has the bytes up to and including `p` is a JSON text; or
* `c = 303` "unexpected end": `p` is the last byte, the text is not a JSON text, no byte of it is rejected and it can be
  continued to a JSON text (the input ended early); or
* `c = 203` "empty JSON" at 0: the whole-text model accepts the text without delivering a lexeme;
and for 301 / 303 the same error is the one the `NextLexeme` sequence of the document ENDS with: every delivery before
index `|eventsSeen|` is a lexeme without error, the delivery at that index is the error `c` at `p` (and stays:
`C11_doc_next_spec`, `C11_doc_error_sticky`) -/
theorem C17_document_error_position (t : List UInt8) (ops : List Op) (c p : Nat)
    (h : (((Doc.new t false).run ops).2.step .check).1 = .check (.err c p)) :
    ((c = 301 ∧ p < t.length ∧ (∃ suffix : List UInt8, check false (t.take p ++ suffix) = true) ∧
        (∀ suffix : List UInt8, check false (t.take (p + 1) ++ suffix) = false)) ∨
     (c = 303 ∧ p = t.length - 1 ∧ check false t = false ∧ Sim.errPos Cfg.init (t.map classify) 0 = none ∧
        (∃ suffix : List UInt8, check false (t ++ suffix) = true)) ∨
     (c = 203 ∧ p = 0 ∧ ∃ evs, events false t = .ok evs ∧ nonTop evs = [])) ∧
    (c ≠ 203 → lexAt t false (eventsSeen false t).length = .err c p ∧
      ∀ k, k < (eventsSeen false t).length → ∃ ev, lexAt t false k = .lex ev) := by
  obtain ⟨h1, h2⟩ := DocCorollaries.doc_error_position t ops c p h
  refine ⟨?_, h2⟩
  rcases h1 with ⟨hc, he, hp⟩ | ⟨hc, he, hp, hf⟩ | h3
  · exact Or.inl ⟨hc, hp, C17_json_errpos t p he⟩
  · obtain ⟨sfx, hs⟩ := DocCorollaries.eof_viable _ he
    refine Or.inr (Or.inl ⟨hc, hp, hf, he, sfx.map repr, ?_⟩)
    unfold check
    rw [List.map_append, map_classify_repr]
    exact hs
  · exact Or.inr (Or.inr h3)

/-- the other direction for "invalid character": if the strict scanner rejects byte `j` (hypothesis of `C17_json_errpos`),
`Check()` after ANY history reports 301 at `j` -/
theorem C17_document_reports_first_dead_byte (t : List UInt8) (ops : List Op) (j : Nat)
    (he : Sim.errPos Cfg.init (t.map classify) 0 = some j) :
    (((Doc.new t false).run ops).2.step .check).1 = .check (.err 301 j) :=
  DocCorollaries.doc_check_of_errPos t ops j he

/-! Non-vacuity: `[1, x]` (invalid character at 4) and `[1,` (input ends early) with histories -/
example : (((Doc.new (s "[1, x]") false).run [.next, .len, .next, .next]).2.step .check).1 = .check (.err 301 4) ∧
    eventsSeen false (s "[1, x]") = [⟨.arrB, 0, 0⟩, ⟨.itemB, 1, 1⟩, ⟨.litB, 1, 1⟩, ⟨.litE, 1, 1⟩, ⟨.itemE, 1, 1⟩] ∧
    lexAt (s "[1, x]") false 5 = .err 301 4 := ⟨by decide, by decide, by decide⟩
example : (((Doc.new (s "[1,") false).run [.check, .next, .len]).2.step .check).1 = .check (.err 303 2) ∧
    Sim.errPos Cfg.init ((s "[1,").map classify) 0 = none ∧ check false (s "[1," ++ s "0]") = true :=
  ⟨by decide, by decide, by decide⟩
example : (((Doc.new (s "[1, x]") false).run [.next, .len, .next, .next]).2.step .check).1 = .check (.err 301 4) :=
  C17_document_reports_first_dead_byte _ _ 4 (by decide +kernel)
example : (((Doc.new (s "  ") false).run [.next]).2.step .check).1 = .check (.err 203 0) := by decide

end document
end Props.C17

#print axioms Props.C17.C17_document_check_is_whole_text_model
#print axioms Props.C17.C17_document_error_position
#print axioms Props.C17.C17_document_reports_first_dead_byte
