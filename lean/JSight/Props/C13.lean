import JSight.Props.C06
import JSight.TreeStrip
import JSight.LoaderProofs
import JSight.RuleNameSpelling
/-!
# C13 — Meaning is invariant under surface syntax: the part that is a theorem

Document side, whitespace: the JSON value of a text is its tree without layout (`strip`). The event
sequence the scanner delivers for a valid text — which is all the validator ever sees, together with
the token slices — depends on the stripped tree only: two texts that differ in inter-token blanks
yield the same sequence of event types (spans move with the tokens). Property order is `C01_order_indep`
/ the union semantics of C03 (the spec is a function of the member *set* per key); rule order is C08.
Schema side, line ends: in the loader model (`Loader`, compared with the real `GetAST()` by `loader-diff`)
a new-line event directly after another one changes nothing, so LF / CR / CRLF line ends and blank lines
load identically (`C13_newline_idempotent`, `C13_newline_run_absorbed`).
Quoted versus bare rule names: the name the loader dispatches on (`Loader.nameOf` = `TrimSpaces().Unquote()` of
the name token) is the same for `name` and `"name"` with any blanks around (`C13_rule_name_spelling`).
String escapes, comments, annotation spelling go through unquoting, the schema scanner and the loader:
validated against the code (harness `c13-metamorphic`, `schema-diff`, `unquote-diff`, `loader-diff`).
-/
namespace Props.C13
open JsonScan

/-- re-spelling a document's whitespace does not change the event sequence the validator is fed -/
theorem C13_whitespace_invariant (allow : Bool) (v v' : JA) (hv : v.Valid) (hv' : v'.Valid) (hs : strip v = strip v')
    (ws0 ws1 ws0' ws1' : List Cls) (h0 : IsWs ws0) (h1 : IsWs ws1) (h0' : IsWs ws0') (h1' : IsWs ws1')
    (bs bs' : List UInt8) (hbs : bs.map classify = ws0 ++ (v.render ++ ws1))
    (hbs' : bs'.map classify = ws0' ++ (v'.render ++ ws1')) :
    ∃ evs evs', events allow bs = .ok evs ∧ events allow bs' = .ok evs' ∧ evs.map (·.ty) = evs'.map (·.ty) := by
  refine ⟨_, _, Props.C06.C06_events_of_tree allow v hv ws0 ws1 h0 h1 bs hbs,
    Props.C06.C06_events_of_tree allow v' hv' ws0' ws1' h0' h1' bs' hbs', ?_⟩
  rw [evs_types, evs_types, hs]

/-- schema side: a second new-line event directly after a first one does not change the loader's state
(CRLF = two new-line events; blank lines = more) -/
theorem C13_newline_idempotent (src : Array UInt8) (st st' : Loader.St) (e1 e2 : SchemaScan.Ev)
    (h1 : e1.ty = .newLine) (h2 : e2.ty = .newLine) (h : Loader.step src st e1 = .ok st') :
    Loader.step src st' e2 = .ok st' := Loader.C13_newline_idempotent src st st' e1 e2 h1 h2 h

/-- quoted versus bare rule names: both spellings, with any surrounding blanks, give the loader the same name -/
theorem C13_rule_name_spelling (n w1 w2 : List UInt8) (hn : Loader.plainName n)
    (h1 : ∀ c ∈ w1, Loader.isBlank c = true) (h2 : ∀ c ∈ w2, Loader.isBlank c = true) :
    Unquote.unquote (Loader.trimSpaces (w1 ++ n ++ w2)) = n ∧
    Unquote.unquote (Loader.trimSpaces (w1 ++ (34 :: (n ++ [34])) ++ w2)) = n :=
  Loader.C13_rule_name_spelling n w1 w2 hn h1 h2

theorem C13_newline_run_absorbed (src : Array UInt8) (st st' : Loader.St) (e1 : SchemaScan.Ev) (es : List SchemaScan.Ev)
    (h1 : e1.ty = .newLine) (hes : ∀ e ∈ es, e.ty = .newLine) (h : Loader.step src st e1 = .ok st') :
    es.foldlM (Loader.step src) st' = .ok st' := Loader.C13_newline_run_absorbed src st st' e1 es h1 hes h

end Props.C13
