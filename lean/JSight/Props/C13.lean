import JSight.Props.C06
/-!
# C13 — Meaning is invariant under surface syntax: the part that is a theorem

Document side, whitespace: the JSON value of a text is its tree without layout (`strip`). The event
sequence the scanner delivers for a valid text — which is all the validator ever sees, together with
the token slices — depends on the stripped tree only: two texts that differ in inter-token blanks
yield the same sequence of event types (spans move with the tokens). Property order is `C01_order_indep`
/ the union semantics of C03 (the spec is a function of the member *set* per key); rule order is C08.
String escapes, line ends, comments, annotation spelling go through unquoting and the schema
scanner / loader: validated against the code (harness `c13-metamorphic`, `schema-diff`, `unquote-diff`).
-/
namespace Props.C13
open JsonScan

/-- JSON values without layout -/
inductive JT
  | scalar (tok : List Cls)
  | arr (items : List JT)
  | obj (members : List (List Cls × JT))

mutual
def strip : JA → JT
  | .scalar tok => .scalar tok
  | .arr _ items => .arr (stripItems items)
  | .obj _ members => .obj (stripMembers members)
def stripItems : List (List Cls × JA × List Cls) → List JT
  | [] => []
  | (_, v, _) :: its => strip v :: stripItems its
def stripMembers : List (List Cls × List Cls × List Cls × List Cls × JA × List Cls) → List (List Cls × JT)
  | [] => []
  | (_, k, _, _, v, _) :: ms => (k, strip v) :: stripMembers ms
end

mutual
/-- the event types a value denotes -/
def tys : JT → List LexT
  | .scalar _ => [.litB, .litE]
  | .arr its => .arrB :: tysItems its
  | .obj ms => .objB :: tysMembers ms
def tysItems : List JT → List LexT
  | [] => [.arrE]
  | v :: its => .itemB :: (tys v ++ .itemE :: tysItems its)
def tysMembers : List (List Cls × JT) → List LexT
  | [] => [.objE]
  | (_, v) :: ms => .keyB :: .keyE :: .valB :: (tys v ++ .valE :: tysMembers ms)
end

mutual
theorem evs_types : (o : Nat) → (v : JA) → (evsAt o v).map (·.ty) = tys (strip v)
  | o, .scalar tok => by simp [evsAt, strip, tys]
  | o, .arr ws0 items => by simp [evsAt, strip, tys, evsItems_types o (o + 1 + ws0.length) items]
  | o, .obj ws0 members => by simp [evsAt, strip, tys, evsMembers_types o (o + 1 + ws0.length) members]
theorem evsItems_types : (a o : Nat) → (its : List (List Cls × JA × List Cls)) →
    (evsItems a o its).map (·.ty) = tysItems (stripItems its)
  | a, o, [] => by simp [evsItems, stripItems, tysItems]
  | a, o, (w1, v, w2) :: its => by
    simp only [evsItems, stripItems, tysItems, List.map_cons, List.map_append, evs_types (o + w1.length) v]
    rw [evsItems_types a _ its]
theorem evsMembers_types : (a o : Nat) → (ms : List (List Cls × List Cls × List Cls × List Cls × JA × List Cls)) →
    (evsMembers a o ms).map (·.ty) = tysMembers (stripMembers ms)
  | a, o, [] => by simp [evsMembers, stripMembers, tysMembers]
  | a, o, (w1, k, w2, w3, v, w4) :: ms => by
    simp only [evsMembers, stripMembers, tysMembers, List.map_cons, List.map_append,
      evs_types (o + w1.length + k.length + w2.length + 1 + w3.length) v]
    rw [evsMembers_types a _ ms]
end

/-- re-spelling a document's whitespace does not change the event sequence the validator is fed -/
theorem C13_whitespace_invariant (allow : Bool) (v v' : JA) (hv : v.Valid) (hv' : v'.Valid) (hs : strip v = strip v')
    (ws0 ws1 ws0' ws1' : List Cls) (h0 : IsWs ws0) (h1 : IsWs ws1) (h0' : IsWs ws0') (h1' : IsWs ws1')
    (bs bs' : List UInt8) (hbs : bs.map classify = ws0 ++ (v.render ++ ws1))
    (hbs' : bs'.map classify = ws0' ++ (v'.render ++ ws1')) :
    ∃ evs evs', events allow bs = .ok evs ∧ events allow bs' = .ok evs' ∧ evs.map (·.ty) = evs'.map (·.ty) := by
  refine ⟨_, _, Props.C06.C06_events_of_tree allow v hv ws0 ws1 h0 h1 bs hbs,
    Props.C06.C06_events_of_tree allow v' hv' ws0' ws1' h0' h1' bs' hbs', ?_⟩
  rw [evs_types, evs_types, hs]

end Props.C13
