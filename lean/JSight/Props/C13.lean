import JSight.Props.C06
import JSight.TreeStrip
import JSight.LoaderProofs
import JSight.RuleNameSpelling
import JSight.LayoutExamples
import JSight.CommentExamples
import JSight.AnnotExamples
import JSight.AnnTreeExamples
import JSight.ATreeStrip
import JSight.ATreeExamples
import JSight.AnnotQExamples
import JSight.KeyOrderExamples
/-!
# C13 — Meaning is invariant under surface syntax: the part that is a theorem

Document side, whitespace: the JSON value of a text is its tree without layout (`strip`). The event
sequence the scanner delivers for a valid text — which is all the validator ever sees, together with
the token slices — depends on the stripped tree only: two texts that differ in inter-token blanks
yield the same sequence of event types (spans move with the tokens). Property order is `C01_order_indep`
/ the union semantics of C03 (the spec is a function of the member *set* per key); rule order is C08.
Schema side, line ends: in the loader model (`Loader`, compared with the real `GetAST()` by `loader-diff`)
a new-line event directly after another one changes nothing, so LF / CR / CRLF line ends and blank lines
load identically (`C13_newline_idempotent`, `C13_newline_run_absorbed`).
Quoted versus bare rule names: the name the loader dispatches on (`Loader.nameOf` = `TrimSpaces().Unquote()` of
the name token) is the same for `name` and `"name"` with any blanks around (`C13_rule_name_spelling`).
Schema side, on the scanner model + loader model (`Loader.loadText`), for schemas that are plain JSON with layout
(`Lay.BTree`, any nesting / width): line-end style (`C13_line_end_style`), indentation and blanks (`C13_indentation`),
user comments `#` / `###` wherever the scanner accepts them (`C13_events_with_comments`: the exact event stream;
`C13_user_comments_invisible`, `C13_comments_any_spelling`: same events up to new-line events and spans, same node
table) — the loaded table, read against the text, is a function of the VALUE only (`C13_text_with_comments_loads_value`).
For a top-level scalar with a rule object of bare names and literal values: inline `// {…}` versus multi-line
`/* {…} */` annotation (`C13_inline_vs_multiline`, `C13_inline_vs_multiline_events`) and the trailing comma
(`C13_trailing_comma`). All of these are tied to the real scanner / `GetAST` by the harness command `c13-layout`.
String escapes, notes, quoted names inside rule objects, non-literal rule values, annotations on nested values go
through unquoting, the schema scanner and the loader: validated against the code (harness `c13-metamorphic`,
`schema-diff`, `unquote-diff`, `loader-diff`).
-/
namespace Props.C13
open JsonScan

/-- re-spelling a document's whitespace does not change the event sequence the validator is fed -/
theorem C13_whitespace_invariant (allow : Bool) (v v' : JA) (hv : v.Valid) (hv' : v'.Valid) (hs : strip v = strip v')
    (ws0 ws1 ws0' ws1' : List Cls) (h0 : IsWs ws0) (h1 : IsWs ws1) (h0' : IsWs ws0') (h1' : IsWs ws1')
    (bs bs' : List UInt8) (hbs : bs.map classify = ws0 ++ (v.render ++ ws1))
    (hbs' : bs'.map classify = ws0' ++ (v'.render ++ ws1')) :
    ∃ evs evs', events allow bs = .ok evs ∧ events allow bs' = .ok evs' ∧ evs.map (·.ty) = evs'.map (·.ty) := by
  refine ⟨_, _, Props.C06.C06_events_of_tree allow v hv ws0 ws1 h0 h1 bs hbs,
    Props.C06.C06_events_of_tree allow v' hv' ws0' ws1' h0' h1' bs' hbs', ?_⟩
  rw [evs_types, evs_types, hs]

/-- schema side: a second new-line event directly after a first one does not change the loader's state
(CRLF = two new-line events; blank lines = more) -/
theorem C13_newline_idempotent (src : Array UInt8) (st st' : Loader.St) (e1 e2 : SchemaScan.Ev)
    (h1 : e1.ty = .newLine) (h2 : e2.ty = .newLine) (h : Loader.step src st e1 = .ok st') :
    Loader.step src st' e2 = .ok st' := Loader.C13_newline_idempotent src st st' e1 e2 h1 h2 h

/-- quoted versus bare rule names: both spellings, with any surrounding blanks, give the loader the same name -/
theorem C13_rule_name_spelling (n w1 w2 : List UInt8) (hn : Loader.plainName n)
    (h1 : ∀ c ∈ w1, Loader.isBlank c = true) (h2 : ∀ c ∈ w2, Loader.isBlank c = true) :
    Unquote.unquote (Loader.trimSpaces (w1 ++ n ++ w2)) = n ∧
    Unquote.unquote (Loader.trimSpaces (w1 ++ (34 :: (n ++ [34])) ++ w2)) = n :=
  Loader.C13_rule_name_spelling n w1 w2 hn h1 h2

theorem C13_newline_run_absorbed (src : Array UInt8) (st st' : Loader.St) (e1 : SchemaScan.Ev) (es : List SchemaScan.Ev)
    (h1 : e1.ty = .newLine) (hes : ∀ e ∈ es, e.ty = .newLine) (h : Loader.step src st e1 = .ok st') :
    es.foldlM (Loader.step src) st' = .ok st' := Loader.C13_newline_run_absorbed src st st' e1 es h1 hes h

/-! ## Schema side: line ends and indentation (theorems on the scanner model + loader model)

`Lay.BTree` is a JSON value with its layout, byte by byte (`render` = the schema text); `value` removes the layout.
`Loader.loadText` is the scanner model and the loader model interleaved as `doLoad` runs them (tied to the real
`GetAST` by `loader-diff` / `c13-layout`); `Lay.absTable` reads its node table against the text: every span replaced
by the bytes it denotes — kinds, parents, children in order, decoded keys, literal tokens, rule names, note.
The scanner maps LF and CR to one new-line event each, so CR LF is two events: -/

example : SchemaScan.scanAll [49, 13, 10] = .ok [⟨.litB, 0, 0⟩, ⟨.litE, 0, 0⟩, ⟨.newLine, 1, 1⟩, ⟨.newLine, 2, 2⟩] :=
  SchemaScan.C06_schema_events_of_tree (.scalar [.d19]) ⟨.d19, [], .d1, false, .d1, rfl, rfl, rfl, rfl⟩ [] [.nl, .nl]
    (by simp [SchemaScan.IsWs]) (by simp [SchemaScan.IsWs, SchemaScan.Cls.isBlank, SchemaScan.Cls.isNewLine])
    [49, 13, 10] (by decide)

open Lay in
/-- the text of a plain-JSON tree (distinct keys per object), whatever its blanks and line ends, loads into the
table of its VALUE: nothing of the layout is left in the result -/
theorem C13_plain_text_loads_value (t : BTree) (hv : t.Valid) (hp : t.Plain) (hk : t.value.KeysNodup)
    (w0 w1 : List LI) (b0 : BlankL w0) (b1 : BlankL w1) :
    ∃ st, Loader.loadText (docText w0 t w1) = .ok st ∧ st.root = some 0 ∧
      absTable (docText w0 t w1).toArray st = tableOf none 0 t.value :=
  Lay.load_plain t hv hp hk w0 w1 b0.1 b0.2 b1.1 b1.2

open Lay in
/-- **line ends**: `t'` is `t` with every line break of the layout (LF, CR or CR LF) re-spelled as LF, CR or CR LF,
independently per position (`LEVar`), nothing else changed: both texts load, into the same node table -/
theorem C13_line_end_style (t t' : BTree) (hv : t.Valid) (hp : t.Plain) (hr : t.Rel LEVar t')
    (hk : t.value.KeysNodup) (w0 w1 w0' w1' : List LI) (b0 : BlankL w0) (b1 : BlankL w1)
    (r0 : LEVar w0 w0') (r1 : LEVar w1 w1') :
    ∃ st st', Loader.loadText (docText w0 t w1) = .ok st ∧ Loader.loadText (docText w0' t' w1') = .ok st' ∧
      st.root = st'.root ∧
      absTable (docText w0 t w1).toArray st = absTable (docText w0' t' w1').toArray st' :=
  Lay.line_end_style t t' hv hp hr hk w0 w1 w0' w1' b0 b1 r0 r1

/-- non-vacuity: `{⏎  "a": [1, true]⏎}⏎` in LF and in CR LF spelling -/
example := C13_line_end_style Lay.Ex.tLF Lay.Ex.tLF' Lay.Ex.tLF_valid Lay.Ex.tLF_plain Lay.Ex.tLF_rel Lay.Ex.keys_ok
  [] [.blank 10] [] [.blank 13, .blank 10] ⟨by simp [Lay.ValidL], by simp [Lay.PlainL]⟩
  ⟨by simp [Lay.ValidL, Lay.LI.Valid, Lay.isBlankB], by simp [Lay.PlainL, Lay.LI.isBlank]⟩ .nil Lay.Ex.lf_crlf

open Lay in
/-- **indentation / blanks**: two layouts (any spaces, tabs, line breaks wherever JSON allows white space) of one
value: both texts load, into the same node table -/
theorem C13_indentation (t t' : BTree) (hv : t.Valid) (hv' : t'.Valid) (hp : t.Plain) (hp' : t'.Plain)
    (hs : t.value = t'.value) (hk : t.value.KeysNodup) (w0 w1 w0' w1' : List LI)
    (b0 : BlankL w0) (b1 : BlankL w1) (b0' : BlankL w0') (b1' : BlankL w1') :
    ∃ st st', Loader.loadText (docText w0 t w1) = .ok st ∧ Loader.loadText (docText w0' t' w1') = .ok st' ∧
      st.root = st'.root ∧
      absTable (docText w0 t w1).toArray st = absTable (docText w0' t' w1').toArray st' :=
  Lay.indentation t t' hv hv' hp hp' hs hk w0 w1 w0' w1' b0.1 b0.2 b1.1 b1.2 b0'.1 b0'.2 b1'.1 b1'.2

/-- non-vacuity: two-space indentation with LF against tabs, CR LF and blanks around `:` and `,` -/
example := C13_indentation Lay.Ex.tLF Lay.Ex.tCRLF Lay.Ex.tLF_valid Lay.Ex.tCRLF_valid Lay.Ex.tLF_plain
  Lay.Ex.tCRLF_plain Lay.Ex.same_value Lay.Ex.keys_ok [] [.blank 10] [] []
  ⟨by simp [Lay.ValidL], by simp [Lay.PlainL]⟩
  ⟨by simp [Lay.ValidL, Lay.LI.Valid, Lay.isBlankB], by simp [Lay.PlainL, Lay.LI.isBlank]⟩
  ⟨by simp [Lay.ValidL], by simp [Lay.PlainL]⟩ ⟨by simp [Lay.ValidL], by simp [Lay.PlainL]⟩

/-! ## Schema side: user comments

A layout (`List Lay.LI`) may hold, besides blanks, `#` line comments (`LI.line text nl`: `#`, a text without line
break that does not start with `#`, the line break) and block comments (`LI.block body`: `##`, a body, `###`, where
the byte behind `##` is `#` and the first `###` behind `##` is the closing one; `### text ###` is `body = # text`) —
wherever the scanner looks for a value, a key, a separator or the end of the text (`SchemaScan.cmtLoop`), i.e. not
between a key and its colon nor between the colon and the value (`BTree.Valid` wants those two layouts blank).
`docTextF w0 t w1 fin` is the whole text, `fin` an optional last line comment that no line break ends. -/

open Lay in
/-- the scanner model's event stream for a text with user comments, exactly (`docEvs`: the events of the tree with
`LI.evs` for each layout item — nothing for a block comment whatever line breaks it holds, two `newLine` events for a
line comment: its own, at its last byte, and the one of the line break, which is read again; F-18's empty comment
`#⏎` is the case `text = []`) -/
theorem C13_events_with_comments (t : BTree) (hv : t.Valid) (w0 w1 : List LI) (h0 : ValidL w0) (h1 : ValidL w1)
    (fin : List UInt8) (hf : IsFin fin) :
    SchemaScan.scanAll (docTextF w0 t w1 fin) = .ok (docEvs w0 t w1) :=
  Lay.C13_events_with_comments t hv w0 w1 h0 h1 fin hf

open Lay in
/-- a text with user comments (distinct keys per object) loads into the table of its VALUE -/
theorem C13_text_with_comments_loads_value (t : BTree) (hv : t.Valid) (hk : t.value.KeysNodup) (w0 w1 : List LI)
    (h0 : ValidL w0) (h1 : ValidL w1) (fin : List UInt8) (hf : IsFin fin) :
    ∃ st, Loader.loadText (docTextF w0 t w1 fin) = .ok st ∧ st.root = some 0 ∧
      absTable (docTextF w0 t w1 fin).toArray st = tableOf none 0 t.value :=
  Lay.load_comments t hv hk w0 w1 h0 h1 fin hf

open Lay in
/-- **user comments are invisible**: against the text in which every comment is replaced by what remains of it
(`erase`: the terminating line break of a `#` comment, nothing for a block comment, nothing for an unterminated last
comment), the scanner model delivers the same events once `newLine` events are dropped and spans forgotten
(`strip`), and scanner + loader build the same node table -/
theorem C13_user_comments_invisible (t : BTree) (hv : t.Valid) (hk : t.value.KeysNodup) (w0 w1 : List LI)
    (h0 : ValidL w0) (h1 : ValidL w1) (fin : List UInt8) (hf : IsFin fin) :
    ∃ evs evs' st st',
      SchemaScan.scanAll (docTextF w0 t w1 fin) = .ok evs ∧
      SchemaScan.scanAll (docText (eraseL w0) t.erase (eraseL w1)) = .ok evs' ∧ strip evs = strip evs' ∧
      Loader.loadText (docTextF w0 t w1 fin) = .ok st ∧
      Loader.loadText (docText (eraseL w0) t.erase (eraseL w1)) = .ok st' ∧ st.root = st'.root ∧
      absTable (docTextF w0 t w1 fin).toArray st = absTable (docText (eraseL w0) t.erase (eraseL w1)).toArray st' :=
  let ⟨evs, evs', a, b, c⟩ := Lay.comments_events t hv w0 w1 h0 h1 fin hf
  let ⟨st, st', d, e, f, g⟩ := Lay.comments_erased t hv hk w0 w1 h0 h1 fin hf
  ⟨evs, evs', st, st', a, b, c, d, e, f, g⟩

/-- non-vacuity: `{ # first⏎#####"a": [1,#␍⏎true ### x⏎ y ###⏎]#c⏎}⏎# end` — an empty comment, a comment directly
before a closing brace, a block comment with a line break inside, `#####`, a last comment without line break -/
example := C13_user_comments_invisible Lay.Ex.tC Lay.Ex.tC_valid (Lay.Ex.tC_value ▸ Lay.Ex.keys_ok) [] [.blank 10]
  (by simp [Lay.ValidL]) (by simp [Lay.ValidL, Lay.LI.Valid, Lay.isBlankB]) Lay.Ex.cFin Lay.Ex.cFin_ok

open Lay in
/-- the symmetric form: two spellings of one value, any valid layouts with or without comments: the same table -/
theorem C13_comments_any_spelling (t t' : BTree) (hv : t.Valid) (hv' : t'.Valid) (hs : t.value = t'.value)
    (hk : t.value.KeysNodup) (w0 w1 w0' w1' : List LI) (h0 : ValidL w0) (h1 : ValidL w1)
    (h0' : ValidL w0') (h1' : ValidL w1') (fin fin' : List UInt8) (hf : IsFin fin) (hf' : IsFin fin') :
    ∃ st st', Loader.loadText (docTextF w0 t w1 fin) = .ok st ∧ Loader.loadText (docTextF w0' t' w1' fin') = .ok st' ∧
      st.root = st'.root ∧
      absTable (docTextF w0 t w1 fin).toArray st = absTable (docTextF w0' t' w1' fin').toArray st' :=
  Lay.comments_invisible t t' hv hv' hs hk w0 w1 w0' w1' h0 h1 h0' h1' fin fin' hf hf'

/-- non-vacuity: the commented text against the CR LF / tab spelling without comments -/
example := C13_comments_any_spelling Lay.Ex.tC Lay.Ex.tCRLF Lay.Ex.tC_valid Lay.Ex.tCRLF_valid
  (Lay.Ex.tC_value.trans Lay.Ex.same_value) (Lay.Ex.tC_value ▸ Lay.Ex.keys_ok) [] [.blank 10] [] []
  (by simp [Lay.ValidL]) (by simp [Lay.ValidL, Lay.LI.Valid, Lay.isBlankB]) (by simp [Lay.ValidL]) (by simp [Lay.ValidL])
  Lay.Ex.cFin [] Lay.Ex.cFin_ok (Or.inl rfl)

/-! ## Schema side: inline versus multi-line annotation, trailing comma

`annTextB a tok s1 s2 ob s3 tl` is the text of a top-level scalar `tok` annotated with a rule object:
`tok s1 // s2 {ob} s3 tl` for `a = .inline` and `tok s1 /* s2 {ob} s3 tl` for `a = .multi` (`tl` = end of input or a line
break and white space, resp. `*/` and white space). `AnnValid` is the grammar: `tok` a scalar token, `s1` spaces / tabs,
the other blanks spaces / tabs and — in the multi-line form only — line breaks, the object (`BObj`) a list of rules
`blanks name spaces : blanks value blanks` with bare names (letters, digits, `-`, `_`) and literal values, separated
by commas, optionally a trailing comma with blanks behind it, or empty. (Quoted names — for those see `C13_rule_name_spelling` — non-literal rule values and annotations on values inside
containers are not covered; they are validated by `loader-diff` / `c13-metamorphic`.) With a note: `annTextNB`, `AnnValidN`
(`… } blanks - spaces note tail`, the note a text without line break, `#` and `*` that starts with a non-blank byte). The scanner model's events for either form are `SchemaScan.annEvs` (`SchemaScan.annot_emits`). -/

open Lay SchemaScan in
/-- an annotated top-level scalar, in either form, with or without a trailing comma, loads into ONE literal node:
the scalar's token as value, one rule per rule of the object, named by the rule names in written order -/
theorem C13_annotated_scalar_loads (a : Ann) (ha : a.isAnn = true) (tok s1 s2 : List UInt8) (ob : BObj)
    (s3 tl : List UInt8) (hv : AnnValid a tok s1 s2 ob s3 tl) :
    ∃ st, Loader.loadText (annTextB a tok s1 s2 ob s3 tl) = .ok st ∧ st.root = some 0 ∧
      absTable (annTextB a tok s1 s2 ob s3 tl).toArray st = [annNode tok ob.names] :=
  Lay.load_annot a ha tok s1 s2 ob s3 tl hv

open Lay SchemaScan in
/-- **inline versus multi-line**: `tok // {rules}` and `tok /* {rules} */` with the same rules (names and values in
the same order), whatever blanks, line breaks and trailing comma each spelling uses: both load, into the same table -/
theorem C13_inline_vs_multiline (tok s1 s2 : List UInt8) (ob : BObj) (s3 tl : List UInt8)
    (s1' s2' : List UInt8) (ob' : BObj) (s3' tl' : List UInt8)
    (hv : AnnValid .inline tok s1 s2 ob s3 tl) (hv' : AnnValid .multi tok s1' s2' ob' s3' tl')
    (hsame : ob.pairs = ob'.pairs) :
    ∃ st st', Loader.loadText (annTextB .inline tok s1 s2 ob s3 tl) = .ok st ∧
      Loader.loadText (annTextB .multi tok s1' s2' ob' s3' tl') = .ok st' ∧ st.root = st'.root ∧
      absTable (annTextB .inline tok s1 s2 ob s3 tl).toArray st
        = absTable (annTextB .multi tok s1' s2' ob' s3' tl').toArray st' :=
  Lay.inline_vs_multiline tok s1 s2 ob s3 tl s1' s2' ob' s3' tl' hv hv' hsame

/-- non-vacuity: `1 // {min: 0, max :5, }` against `1 /*⏎ {min: 0,⏎ max: 5⏎}⏎*/⏎` -/
example := C13_inline_vs_multiline Lay.Ex.one [32] [32] Lay.Ex.obInl [] [] [32] [10, 32] Lay.Ex.obMl [10] [42, 47, 10]
  Lay.Ex.annInl_valid Lay.Ex.annMl_valid Lay.Ex.same_pairs

open Lay SchemaScan in
/-- the scanner model's event stream of an annotated scalar in either form, exactly -/
theorem C13_annotation_events (a : Ann) (ha : a.isAnn = true) (tok s1 s2 : List UInt8) (ob : BObj)
    (s3 tl : List UInt8) (hv : AnnValid a tok s1 s2 ob s3 tl) :
    scanAll (annTextB a tok s1 s2 ob s3 tl)
      = .ok (annEvs a (tok.map classify) (s1.map classify) (s2.map classify) ob.cls (s3.map classify)
          (tl.map classify)) :=
  Lay.annot_events a ha tok s1 s2 ob s3 tl hv

open Lay SchemaScan in
/-- **same rule events**: the inline and the multi-line form deliver the same event types (`newLine` events aside)
once multi-line-annotation-begin / -end are read as inline-annotation-begin / -end (`inlKind`) -/
theorem C13_inline_vs_multiline_events (tok s1 s2 : List UInt8) (ob : BObj) (s3 tl : List UInt8)
    (s1' s2' : List UInt8) (ob' : BObj) (s3' tl' : List UInt8)
    (hv : AnnValid .inline tok s1 s2 ob s3 tl) (hv' : AnnValid .multi tok s1' s2' ob' s3' tl')
    (hsame : ob.pairs = ob'.pairs) :
    ∃ evs evs', scanAll (annTextB .inline tok s1 s2 ob s3 tl) = .ok evs ∧
      scanAll (annTextB .multi tok s1' s2' ob' s3' tl') = .ok evs' ∧
      (strip evs).map inlKind = (strip evs').map inlKind :=
  Lay.inline_vs_multiline_events tok s1 s2 ob s3 tl s1' s2' ob' s3' tl' hv hv' hsame

example := C13_inline_vs_multiline_events Lay.Ex.one [32] [32] Lay.Ex.obInl [] [] [32] [10, 32] Lay.Ex.obMl [10]
  [42, 47, 10] Lay.Ex.annInl_valid Lay.Ex.annMl_valid Lay.Ex.same_pairs

open Lay SchemaScan in
/-- **trailing comma**: a comma (and blanks) between the last rule and `}` changes nothing -/
theorem C13_trailing_comma (a : Ann) (ha : a.isAnn = true) (tok s1 s2 : List UInt8) (r : BRule) (rs : List BRule)
    (b5 : List UInt8) (s3 tl : List UInt8)
    (hv : AnnValid a tok s1 s2 (.rules r rs none) s3 tl) (hv' : AnnValid a tok s1 s2 (.rules r rs (some b5)) s3 tl) :
    ∃ st st', Loader.loadText (annTextB a tok s1 s2 (.rules r rs none) s3 tl) = .ok st ∧
      Loader.loadText (annTextB a tok s1 s2 (.rules r rs (some b5)) s3 tl) = .ok st' ∧ st.root = st'.root ∧
      absTable (annTextB a tok s1 s2 (.rules r rs none) s3 tl).toArray st
        = absTable (annTextB a tok s1 s2 (.rules r rs (some b5)) s3 tl).toArray st' :=
  let ⟨st, h1, h2, h3⟩ := Lay.load_annot a ha tok s1 s2 (.rules r rs none) s3 tl hv
  let ⟨st', h1', h2', h3'⟩ := Lay.load_annot a ha tok s1 s2 (.rules r rs (some b5)) s3 tl hv'
  ⟨st, st', h1, h1', by rw [h2, h2'], by rw [h3, h3']; rfl⟩

/-- non-vacuity: `1 // {min: 0, max :5}` against `1 // {min: 0, max :5, }` -/
example := C13_trailing_comma .inline rfl Lay.Ex.one [32] [32] ⟨[], Lay.Ex.nMin, 0, [32], Lay.Ex.v0, []⟩
  [⟨[32], Lay.Ex.nMax, 1, [], Lay.Ex.v5, []⟩] [32] [] [] Lay.Ex.annInl0_valid Lay.Ex.annInl_valid
example := C13_annotated_scalar_loads .multi rfl Lay.Ex.one [32] [10, 32] Lay.Ex.obMl [10] [42, 47, 10] Lay.Ex.annMl_valid

open Lay SchemaScan in
/-- with a note: value, rules in written order, the note text (trimmed, as `GetAST` shows it) -/
theorem C13_annotated_scalar_note_loads (a : Ann) (ha : a.isAnn = true) (tok s1 s2 : List UInt8) (ob : BObj)
    (s3 n1 note tl : List UInt8) (hv : AnnValidN a tok s1 s2 ob s3 n1 note tl) :
    ∃ st, Loader.loadText (annTextNB a tok s1 s2 ob s3 n1 note tl) = .ok st ∧ st.root = some 0 ∧
      absTable (annTextNB a tok s1 s2 ob s3 n1 note tl).toArray st = [annNodeN tok ob.names note] :=
  Lay.load_annot_note a ha tok s1 s2 ob s3 n1 note tl hv

open Lay SchemaScan in
/-- **inline versus multi-line, with a note**: `tok // {rules} - note` and `tok /* {rules} - note */` with the same
rules and the same note text: both load, into the same table -/
theorem C13_inline_vs_multiline_note (tok s1 s2 : List UInt8) (ob : BObj) (s3 n1 note tl : List UInt8)
    (s1' s2' : List UInt8) (ob' : BObj) (s3' n1' tl' : List UInt8)
    (hv : AnnValidN .inline tok s1 s2 ob s3 n1 note tl) (hv' : AnnValidN .multi tok s1' s2' ob' s3' n1' note tl')
    (hsame : ob.pairs = ob'.pairs) :
    ∃ st st', Loader.loadText (annTextNB .inline tok s1 s2 ob s3 n1 note tl) = .ok st ∧
      Loader.loadText (annTextNB .multi tok s1' s2' ob' s3' n1' note tl') = .ok st' ∧ st.root = st'.root ∧
      absTable (annTextNB .inline tok s1 s2 ob s3 n1 note tl).toArray st
        = absTable (annTextNB .multi tok s1' s2' ob' s3' n1' note tl').toArray st' :=
  Lay.inline_vs_multiline_note tok s1 s2 ob s3 n1 note tl s1' s2' ob' s3' n1' tl' hv hv' hsame

/-- non-vacuity: `1 // {min: 0, max :5, } - first id` against `1 /*⏎ {min: 0,⏎ max: 5⏎}⏎-  first id*/⏎` -/
example := C13_inline_vs_multiline_note Lay.Ex.one [32] [32] Lay.Ex.obInl [32] [32] Lay.Ex.noteTxt [] [32] [10, 32]
  Lay.Ex.obMl [10] [32, 32] [42, 47, 10] Lay.Ex.annInlN_valid Lay.Ex.annMlN_valid Lay.Ex.same_pairs

end Props.C13

namespace Props.C13

/-! ## Schema side: annotations INSIDE trees (work package c13o; modules `AnnTreeTok`, `AnnTreeLoad`, `AnnTree`)

What is proved for all inputs: (a) the token grammar of C14 (`SchemaScan.Len.Tok`: blanks, line breaks, `#` comments, inline
annotations, scalars, keys, brackets, separators, anywhere in a tree) extended with the MULTI-LINE annotation token
`/* blanks {rules} blanks [- note] */` (`ATok.ml`, blanks with line breaks): the byte-level scanner model follows the
token-level scanner (`SchemaScan.Len.asim`), hence `C13_multiline_annotation_scanned`: the exact event stream of any accepted
token text; (b) `C13_annotated_text_loads_as_token_events`: scanner model + loader model interleaved (`loadText`) on such a
text is the loader folded over the token-level events; (c) `C13_annotation_binds_in_any_tree_multiline / _inline`:
`C16_annotation_binds_last_node` lifted from a one-node table to ARBITRARY node tables and read against the text: wherever
in a tree the annotation stands, if node `i` is the node created last and the only one created on the line, its events add
the rule NAMES and rule VALUE texts (written order) and the note to node `i` and change nothing else the node loader reads
(`Loader.LS`: every node read against the text, leaf, last node, per-line counter, root, mode); (d)
`C13_annotated_node_inline_vs_multiline`: the two forms with the same rules and note have the same effect, in any context.
NOT proved (validated by the tie `c13-tree` only): the induction over whole annotated trees that composes (c) with the
node events of the tree (`C13_annotated_tree_loads`, `…_inline_vs_multiline`, `…_layout_invariant` of the brief). -/

open SchemaScan SchemaScan.Len in
/-- the scanner model's event stream for the text of ANY token list the token-level scanner accepts (`arun`; tokens as in
C14 plus the multi-line annotation) and that ends behind its top-level value: the token-level events, and the end of a
top-level scalar -/
theorem C13_multiline_annotation_scanned (toks : List ATok) (hw : ∀ t ∈ toks, t.WF) (c' : TC) (evs : List Ev)
    (h : arun TC.init toks = some (c', evs)) (hend : Complete c') (bs : List UInt8)
    (hbs : bs.map classify = renderAToks toks) : scanAll bs = .ok (evs ++ endClosers c') :=
  SchemaScan.scan_atoks_whole toks hw c' evs h hend bs hbs

/-- non-vacuity: `{⏎"a": 1 /* {min: 0} */,⏎"aa": [ // {min: 0} - note⏎1⏎]⏎}` -/
example := C13_multiline_annotation_scanned SchemaScan.Len.Ex.toksA SchemaScan.Len.Ex.toksA_wf SchemaScan.Len.Ex.resA.1
  SchemaScan.Len.Ex.resA.2 SchemaScan.Len.Ex.runA SchemaScan.Len.Ex.completeA SchemaScan.Len.Ex.bsA SchemaScan.Len.Ex.bsA_cls

open SchemaScan SchemaScan.Len in
/-- scanner model + loader model on such a text = the loader model folded over the token-level events -/
theorem C13_annotated_text_loads_as_token_events (toks : List ATok) (hw : ∀ t ∈ toks, t.WF) (c' : TC) (evs : List Ev)
    (h : arun TC.init toks = some (c', evs)) (hend : Complete c') (bs : List UInt8)
    (hbs : bs.map classify = renderAToks toks) (st : Loader.St)
    (hl : Loader.load bs.toArray (evs ++ endClosers c') = .ok st) : Loader.loadText bs = .ok st :=
  Loader.loadText_atoks toks hw c' evs h hend bs hbs st hl

open Lay Loader in
/-- **a multi-line annotation binds to its node in any tree context** (`p`: offset of its first `/`; `annBody`: the bytes
between `/*` and `*/`: blanks, `{`, the rule object, `}`, blanks, optionally `-`, blanks, the note) -/
theorem C13_annotation_binds_in_any_tree_multiline (src : Array UInt8) {st : Loader.St} {AL : List XNode}
    {leaf : Option Nat} {i : Nat} {root : Option Nat} (h : LS src st AL leaf (some i) 1 root) (xn : XNode)
    (hn : AL[i]? = some xn) (s2 : List UInt8) (ob : BObj) (s3 : List UInt8) (nt : Option (List UInt8 × List UInt8))
    (p : Nat) (hob : ob.cls.Valid .multi) (hnt : ∀ s4 txt, nt = some (s4, txt) → txt ≠ []) (rest : List UInt8)
    (hat : AtB src (p + 2) (annBody s2 ob s3 nt ++ rest)) :
    ∃ st', Fold src ((mlOf s2 ob s3 nt).evs p) st st' ∧
      LS src st' (AL.set i (addAnn xn ob (nt.map (·.2)))) leaf (some i) 1 root :=
  Lay.ml_effect src h xn hn s2 ob s3 nt p hob hnt rest hat

/-- non-vacuity: `1 /* {min: 0} */`, from the empty loader state -/
example := SchemaScan.Len.Ex.effectB

open Lay Loader in
/-- **an inline annotation binds to its node in any tree context**; its line break resets the per-line counter -/
theorem C13_annotation_binds_in_any_tree_inline (src : Array UInt8) {st : Loader.St} {AL : List XNode}
    {leaf : Option Nat} {i : Nat} {root : Option Nat} (h : LS src st AL leaf (some i) 1 root) (xn : XNode)
    (hn : AL[i]? = some xn) (s2 : List UInt8) (ob : BObj) (s3 : List UInt8) (nt : Option (List UInt8 × List UInt8))
    (p : Nat) (hob : ob.cls.Valid .inline) (hnt : ∀ s4 txt, nt = some (s4, txt) → txt ≠ []) (rest : List UInt8)
    (hat : AtB src (p + 2) (annBody s2 ob s3 nt ++ rest)) :
    ∃ st', Fold src ((inlOf s2 ob s3 nt).evs p) st st' ∧
      LS src st' (AL.set i (addAnn xn ob (nt.map (·.2)))) leaf (some i) 0 root :=
  Lay.inl_effect src h xn hn s2 ob s3 nt p hob hnt rest hat

open Lay Loader in
/-- **inline versus multi-line, one annotation in any tree context**: `// {R} [- note]` at offset `p` of one text and
`/* {R'} [- note] */` at offset `p'` of another, same rules (names and values in the same order) and the same note, whatever
blanks, line breaks and trailing commas: from loader states with the same table (read against the respective text) both
add the same names, values and note to the same node -/
theorem C13_annotated_node_inline_vs_multiline (src src' : Array UInt8) {st st2 : Loader.St} {AL : List XNode}
    {leaf : Option Nat} {i : Nat} {root : Option Nat} (h : LS src st AL leaf (some i) 1 root)
    (h' : LS src' st2 AL leaf (some i) 1 root) (xn : XNode) (hn : AL[i]? = some xn)
    (s2 s2' : List UInt8) (ob ob' : BObj) (s3 s3' : List UInt8) (s4 s4' : List UInt8) (note : Option (List UInt8))
    (p p' : Nat) (hob : ob.cls.Valid .inline) (hob' : ob'.cls.Valid .multi) (hsame : ob.pairs = ob'.pairs)
    (hnt : ∀ t, note = some t → t ≠ []) (rest rest' : List UInt8)
    (hat : AtB src (p + 2) (annBody s2 ob s3 (note.map (fun t => (s4, t))) ++ rest))
    (hat' : AtB src' (p' + 2) (annBody s2' ob' s3' (note.map (fun t => (s4', t))) ++ rest')) :
    ∃ st1 st1' T, Fold src ((inlOf s2 ob s3 (note.map (fun t => (s4, t)))).evs p) st st1 ∧
      Fold src' ((mlOf s2' ob' s3' (note.map (fun t => (s4', t)))).evs p') st2 st1' ∧
      LS src st1 T leaf (some i) 0 root ∧ LS src' st1' T leaf (some i) 1 root :=
  Lay.node_inline_vs_multiline src src' h h' xn hn s2 s2' ob ob' s3 s3' s4 s4' note p p' hob hob' hsame hnt rest rest' hat hat'

/-- non-vacuity: `1 // {min: 0} ⏎` against `1 /* {min: 0} */`, each from the empty loader state (also an instance of
`C13_annotation_binds_in_any_tree_inline`) -/
example := SchemaScan.Len.Ex.effectBC

end Props.C13

namespace Props.C13

/-! ## Schema side: WHOLE annotated trees (work package c13tree; modules `ATreeDefs`, `ATreeSeg`, `ATreeTok`, `ATreeLoad*`,
`ATreeThm`, `ATreeStrip`, `ATreeExamples`)

`AT.ATree`: annotated trees with layout — scalars / arrays / objects of any nesting and width; every item and member value may
carry ONE annotation `{rules} [- note]` (rule objects of `Lay.BObj`: bare names, literal values, optional trailing comma):
scalars before or behind the comma that follows them, containers behind their opening bracket, each in the inline form
(`// … ⏎`) or the multi-line form (`/* … */`, line breaks inside); blanks, line breaks (LF / CR) and `#` line comments
(`AT.Gap`) wherever the token grammar of C14 takes them. `ATree.toks` is the rendering as tokens (`AT.BTok`, byte level, with the
class-level token `BTok.cls` of `AnnTreeTok`), `AT.docText w0 t w1` the schema text (layout, tree, layout).
`ATree.table` is the SPEC: one node per value in source order (pre-order) with kind, parent, children, the decoded keys of an
object, the literal token of a scalar, and the annotation of THAT node: rule names and rule value texts in written order, the
note. `AT.lineOK w0 t` is the decidable line discipline: walking the tree with the number of nodes created on the current line
(`pl`) and whether the scanner's `allowAnnotation` is known to be on (`ak`: on at the start, after a key that follows `{`, after a
line break behind a comma; treated as unknown behind a closing bracket), every annotation is met with `ak` and `pl = 1` — i.e.
it follows exactly ONE node creation on its line, which is then the node the tree attaches it to; also: commas separate, keys of
one object are distinct after decoding, no comment around a colon. `AT.TokOK` is the token grammar (the scanner's token automata
for scalars and keys, `InlBody.Valid` / `MlBody.Valid` for annotations, non-empty notes). The proof is an induction on the tree
(`AT.value_all` / `items_all` / `members_all`) that composes, per token, the token-level scanner step (`astep`), the loader
lemmas `X_*` and the two `C13_annotation_binds_in_any_tree_*` theorems as segments (`AT.Seg`).
Restriction of the statement: the top-level value is a container (a top-level annotated scalar is `C13_annotated_scalar_loads`).
Not in the class: `###` block comments, quoted rule names and non-literal rule values inside trees, the note-only annotation. -/

open AT in
/-- **the text of a well-formed annotated tree loads into the table the tree denotes**: scanner model + loader model
(`Loader.loadText`) accept the text, the root is node 0, and the loader's table read against the text
(`AT.abstractOf`: every span replaced by the bytes it denotes) is `t.table` — every annotation bound to ITS node -/
theorem C13_annotated_tree_loads (w0 : Gap) (t : ATree) (w1 : Gap) (hc : t.isContainer = true)
    (hl : lineOK w0 t = true) (hw : TokOK (docToks w0 t w1)) :
    ∃ st, Loader.loadText (docText w0 t w1) = .ok st ∧ st.root = some 0 ∧
      abstractOf (docText w0 t w1).toArray st = t.table :=
  AT.tree_loads w0 t w1 hc hl hw

/-- non-vacuity: an ordinary pretty-printed schema meets the hypotheses:
`{ // {min: 0} - note⏎"a": 1 /* {min: 0} */,⏎"aa": [⏎1, // {min: 0} - note⏎2⏎]⏎}` (`lineOK` by `decide`) -/
example := C13_annotated_tree_loads [] AT.Ex.t1 [] rfl AT.Ex.t1_line AT.Ex.t1_tok
/-- its table: the object (rule `min`, note), `1` (rule `min`), the array, `1` (rule `min`, note), `2` -/
example : AT.Ex.t1.table.map (fun x => (x.kind, x.parent, x.children, x.rules.length, x.note.isSome)) =
    [(.obj, none, [1, 2], 1, true), (.lit, some 0, [], 1, false), (.arr, some 0, [3, 4], 0, false),
      (.lit, some 2, [], 1, true), (.lit, some 2, [], 0, false)] := by decide

open AT in
/-- **layout invariance / inline versus multi-line, whole trees**: two annotated trees with the same `strip` — the
annotations' form (inline / multi-line, before / behind the comma, blanks, line breaks inside, trailing comma), blanks, line
ends and `#` comments erased; what is left: kinds, decoded keys, scalar tokens, per node the (name, value text) pairs in
written order and the trimmed note — have the same table -/
theorem C13_annotated_tree_table_of_strip (t t' : ATree) (hs : t.strip = t'.strip) : t.table = t'.table :=
  AT.table_of_strip t t' hs

open AT in
/-- **… and their texts load into the same table**: whatever surface form each uses (both well formed) -/
theorem C13_annotated_tree_layout_invariant (w0 w0' : Gap) (t t' : ATree) (w1 w1' : Gap) (hs : t.strip = t'.strip)
    (hc : t.isContainer = true) (hl : lineOK w0 t = true) (hl' : lineOK w0' t' = true)
    (hw : TokOK (docToks w0 t w1)) (hw' : TokOK (docToks w0' t' w1')) :
    ∃ st st', Loader.loadText (docText w0 t w1) = .ok st ∧ Loader.loadText (docText w0' t' w1') = .ok st' ∧
      st.root = st'.root ∧
      abstractOf (docText w0 t w1).toArray st = abstractOf (docText w0' t' w1').toArray st' :=
  AT.layout_invariant w0 w0' t t' w1 w1' hs hc hl hl' hw hw'

open AT in
/-- **inline versus multi-line, whole trees**: the instance of the previous theorem the property text names — `t'` is `t`
with any of its annotations re-spelled in the other form (same pairs, same note: same `strip`) -/
theorem C13_annotated_tree_inline_vs_multiline (w0 w0' : Gap) (t t' : ATree) (w1 w1' : Gap) (hs : t.strip = t'.strip)
    (hc : t.isContainer = true) (hl : lineOK w0 t = true) (hl' : lineOK w0' t' = true)
    (hw : TokOK (docToks w0 t w1)) (hw' : TokOK (docToks w0' t' w1')) :
    ∃ st st', Loader.loadText (docText w0 t w1) = .ok st ∧ Loader.loadText (docText w0' t' w1') = .ok st' ∧
      abstractOf (docText w0 t w1).toArray st = abstractOf (docText w0' t' w1').toArray st' :=
  let ⟨st, st', h1, h2, _, h4⟩ := AT.layout_invariant w0 w0' t t' w1 w1' hs hc hl hl' hw hw'
  ⟨st, st', h1, h2, h4⟩

/-- non-vacuity: the schema above against its re-spelling with CR LF line ends, a `#` comment, tabs and more blanks, the
annotation of the first array item in the MULTI-LINE form (line break inside) BEFORE the comma instead of the inline form
behind it -/
example := C13_annotated_tree_layout_invariant [] [.nl 10] AT.Ex.t1 AT.Ex.t2 [] [.nl 10] AT.Ex.same_strip rfl AT.Ex.t1_line
  AT.Ex.t2_line AT.Ex.t1_tok AT.Ex.t2_tok
example := C13_annotated_tree_inline_vs_multiline [] [.nl 10] AT.Ex.t1 AT.Ex.t2 [] [.nl 10] AT.Ex.same_strip rfl AT.Ex.t1_line
  AT.Ex.t2_line AT.Ex.t1_tok AT.Ex.t2_tok

end Props.C13

namespace Props.C13
open Lay SchemaScan

/-! ## Schema side: QUOTED rule names and LIST values in an annotation, on texts (work package c02text3; modules `AnnotQStep`,
`AnnotQRun`, `AnnotQList`, `AnnotQObj`, `AnnotQLoad`, `QNameBytes`, `AnnotQThm`, `AnnotQExamples`)

The grammar `Lay.GObj` (`C02TextGrammar2`): a rule is `blanks NAME spaces ":" blanks VALUE blanks`, NAME bare or QUOTED — `"` + any
characters of the JSON string grammar (`RulesF.SCh`: raw UTF-8, two-character escapes, `\uXXXX`) + `"` —, VALUE a literal token or a
LIST `[ item, … ]` of literal tokens with blanks (line breaks in the multi-line form) around the items.
What the scanner model does with a quoted name (`annot_eventsQ`, proved from `dispatch` at configurations that carry the scanner's
`boundaryQuote` flag as a parameter — a quoted name sets it and only the next BARE name clears it, so everything behind a quoted
name, the tail of the annotation and the white space behind it included, runs with the flag set): key-begin at the OPENING quote,
key-end with the span from the opening to the CLOSING quote — the quotes are INSIDE the span, the spaces before the colon are not
(a bare name's key-end span runs to the byte before the colon, spaces included). The loader (`Loader.step`) binds
`TrimSpaces().Unquote()` of that span: the DECODED name (`RulesF.text`, by `C02_unquote_is_decode`). A list value is passed
through the rule loader's `embContainer` state — when the decoded name is `or` / `enum` / `allOf`; under any other name the loader
answers error 802 at the bracket (`Loader.st_value_list_plain`) — and recorded as the span from `[` to `]`. -/

/-- the resolved node table with the source positions of the rules erased -/
def noPos (n : Compile.RNode) : Compile.RNode := { n with rules := n.rules.map C02T.erase }

/-- **an annotated scalar of the extended grammar loads into one literal node** whose rules are the pairs (decoded name, value
text) in written order; `pairsEmb`: list values sit under `or` / `enum` / `allOf` -/
theorem C13_annotated_scalar_loads_extended (a : Ann) (ha : a.isAnn = true) (tok s1 s2 : List UInt8) (ob : GObj)
    (s3 tl : List UInt8) (hv : GAnnValid a tok s1 s2 ob s3 tl) (he : pairsEmb ob.pairs) :
    ∃ st, Loader.loadText (gannText a tok s1 s2 ob s3 tl) = .ok st ∧ st.root = some 0 ∧
      absTable (gannText a tok s1 s2 ob s3 tl).toArray st = [annNode tok (ob.pairs.map Prod.fst)] ∧
      (st.nodes.toList.map (Compile.resolve (gannText a tok s1 s2 ob s3 tl).toArray)).map noPos
        = [C02T.node tok (C02T.mk ob.pairs)] := by
  obtain ⟨st, rs, h1, h2, h3, h4, h5⟩ := load_gannot a ha tok s1 s2 ob s3 tl hv (listsEmb_of_pairs ob he)
  exact ⟨st, h1, h2, h5, by rw [h3]; simp [noPos, C02T.node, h4]⟩

/-- **quoted versus bare rule names, on texts**: two annotations on the same EXAMPLE whose rule objects have the same pairs
(DECODED name, value text) — i.e. that differ only in quoting / escaping their rule names (`"min"`, `"m\u0069n"`, `min`), in the
form of the annotation (inline / multi-line), in layout and trailing comma — are both accepted by scanner model + loader model
and load into the same table: same root, same node table read against the text (`absTable`: kinds, values, rule names), same
resolved rules (names AND value texts, in written order) up to source positions -/
theorem C13_quoted_vs_bare_rule_names (a a' : Ann) (ha : a.isAnn = true) (ha' : a'.isAnn = true)
    (tok s1 s2 s1' s2' : List UInt8) (ob ob' : GObj) (s3 tl s3' tl' : List UInt8)
    (hv : GAnnValid a tok s1 s2 ob s3 tl) (hv' : GAnnValid a' tok s1' s2' ob' s3' tl')
    (hsame : ob.pairs = ob'.pairs) (he : pairsEmb ob.pairs) :
    ∃ st st', Loader.loadText (gannText a tok s1 s2 ob s3 tl) = .ok st ∧
      Loader.loadText (gannText a' tok s1' s2' ob' s3' tl') = .ok st' ∧ st.root = st'.root ∧
      absTable (gannText a tok s1 s2 ob s3 tl).toArray st = absTable (gannText a' tok s1' s2' ob' s3' tl').toArray st' ∧
      (st.nodes.toList.map (Compile.resolve (gannText a tok s1 s2 ob s3 tl).toArray)).map noPos
        = (st'.nodes.toList.map (Compile.resolve (gannText a' tok s1' s2' ob' s3' tl').toArray)).map noPos := by
  obtain ⟨st, h1, h2, h3, h4⟩ := C13_annotated_scalar_loads_extended a ha tok s1 s2 ob s3 tl hv he
  obtain ⟨st', h1', h2', h3', h4'⟩ := C13_annotated_scalar_loads_extended a' ha' tok s1' s2' ob' s3' tl' hv' (hsame ▸ he)
  exact ⟨st, st', h1, h1', by rw [h2, h2'], by rw [h3, h3', hsame], by rw [h4, h4', hsame]⟩

/-- **the events of the extended grammar**, exactly (`annEvsQ`): quoted names with the span from quote to quote, list values with
their item events between array-begin and array-end -/
theorem C13_annotation_events_extended (a : Ann) (ha : a.isAnn = true) (tok s1 s2 : List UInt8) (ob : GObj)
    (s3 tl : List UInt8) (hv : GAnnValid a tok s1 s2 ob s3 tl) :
    scanAll (gannText a tok s1 s2 ob s3 tl)
      = .ok (annEvsQ a (tok.map classify) (s1.map classify) (s2.map classify) ob.cls (s3.map classify) (tl.map classify)) :=
  annot_eventsQ a ha tok s1 s2 ob s3 tl hv

/-- every JSON string token can be a rule name: the scanner's key automaton accepts it -/
theorem C13_any_json_string_is_a_rule_name (cs : List RulesF.SCh) (hok : ∀ c ∈ cs, c.ok) :
    IsKey ((34 :: (cs.flatMap RulesF.SCh.render ++ [34])).map classify) := isKey_of_str cs hok

/-! Non-vacuity: `1 // {"min": 0, "max" :5, }` (inline, quoted, one name escaped, trailing comma) and
`1 /*⏎ {min: 0,⏎ max: 5⏎}⏎*/⏎` (multi-line, bare): same table. The events of the first text: the key spans [6:10] and [16:25]
include the quotes. -/
example := C13_quoted_vs_bare_rule_names .inline .multi rfl rfl Lay.Ex.one [32] [32] [32] [10, 32] Lay.Ex.gobQ Lay.Ex.gobB
  [] [] [10] [42, 47, 10] Lay.Ex.gannQ_valid Lay.Ex.gannB_valid Lay.Ex.gsame_pairs Lay.Ex.gobQ_emb

example : annEvsQ .inline (Lay.Ex.one.map classify) [.sp] [.sp] Lay.Ex.gobQ.cls [] [] =
    [⟨.litB, 0, 0⟩, ⟨.litE, 0, 0⟩, ⟨.inlAnnB, 2, 3⟩, ⟨.objB, 5, 5⟩,
      ⟨.keyB, 6, 6⟩, ⟨.keyE, 6, 10⟩, ⟨.valB, 13, 13⟩, ⟨.litB, 13, 13⟩, ⟨.litE, 13, 13⟩, ⟨.valE, 13, 13⟩,
      ⟨.keyB, 16, 16⟩, ⟨.keyE, 16, 25⟩, ⟨.valB, 28, 28⟩, ⟨.litB, 28, 28⟩, ⟨.litE, 28, 28⟩, ⟨.valE, 28, 28⟩,
      ⟨.objE, 5, 31⟩, ⟨.inlAnnE, 2, 31⟩] := by decide

/-- `"b" // {"enum": ["a", "b"], const: false}`: the list is recorded from bracket to bracket ([21:30]) -/
example : annEvsQ .inline (Lay.Ex.sB.map classify) [.sp] [.sp] Lay.Ex.gobE.cls [] [] =
    [⟨.litB, 0, 0⟩, ⟨.litE, 0, 2⟩, ⟨.inlAnnB, 4, 5⟩, ⟨.objB, 7, 7⟩,
      ⟨.keyB, 8, 8⟩, ⟨.keyE, 8, 18⟩, ⟨.valB, 21, 21⟩, ⟨.arrB, 21, 21⟩,
      ⟨.itemB, 22, 22⟩, ⟨.litB, 22, 22⟩, ⟨.litE, 22, 24⟩, ⟨.itemE, 22, 24⟩,
      ⟨.itemB, 27, 27⟩, ⟨.litB, 27, 27⟩, ⟨.litE, 27, 29⟩, ⟨.itemE, 27, 29⟩, ⟨.arrE, 21, 30⟩, ⟨.valE, 21, 30⟩,
      ⟨.keyB, 33, 33⟩, ⟨.keyE, 33, 37⟩, ⟨.valB, 40, 40⟩, ⟨.litB, 40, 40⟩, ⟨.litE, 40, 44⟩, ⟨.valE, 40, 44⟩,
      ⟨.objE, 7, 45⟩, ⟨.inlAnnE, 4, 45⟩] := by decide

/-! ## Property order in objects WITH key shortcuts (known finding K-C13-keyorder)

The validator (`VK.validateT` = its specification `VK.shape`, `VK.C03_key_shortcuts`) gives a document key that is no
literal key of the schema object to the first UNUSED shortcut whose key type admits it, in declaration order, and to
`additionalProperties` when none is left (fix F-15, no backtracking). So when two of the document's non-literal keys
are admitted by one shortcut, the one that comes first in the text takes it and the verdict may depend on the order of
the properties: the clause "property order leaves the verdict unchanged" is FALSE for such documents
(`C13_property_order_keys_full_false`). It holds for *key-unambiguous* pairs (schema object, key list):
`KeyOrder.unamb keyOK props shorts keys` — no two positions of `keys` hold keys that are both absent from `props` and
both admitted (`keyOK`) by one shortcut of `shorts`. The predicate reads `props`, `shorts`, `keyOK` and the keys only.
"Every non-literal key is admitted by at most one shortcut" (`KeyOrder.atMostOneShort`) is NOT enough
(`C13_property_order_keys_atmostone_false`: one shortcut, two keys it admits, `additionalProperties: "string"`), and
not needed either (a key admitted by two shortcuts always takes the first, when no other key competes).
The hypothesis "keys pairwise distinct" is not needed: a repeated non-literal key that a shortcut admits collides with
itself, and for a repeated literal key the verdicts of the members do not depend on the position. -/
section keyorder
open VN (J)
variable {L D : Type}

/-- **one object level, arbitrary fixed verdicts** (`pv s v`: value `v` under the schema `s` of a literal key or a
shortcut, `av v`: under `additionalProperties`; neither depends on the position of the member): the members loop gives
the same verdict on every permutation of the members of a key-unambiguous object; `KeyOrder.loop` is the loop of the
specification (`C13_members_loop`) -/
theorem C13_property_order_keys_level (keyOK : String → String → Bool) (pv : VK.S L → J D → Bool) (av : J D → Bool)
    (props shorts : List (String × Bool × VK.S L)) (req : List String) (ms ms' : List (String × J D)) (h : ms.Perm ms')
    (hU : KeyOrder.unamb keyOK props shorts (ms.map (·.1)) = true) :
    KeyOrder.loop keyOK pv av props shorts req [] ms = KeyOrder.loop keyOK pv av props shorts req [] ms' :=
  KeyOrder.loop_perm keyOK pv av props shorts req h hU

theorem C13_members_loop (env : VK.Env L) (litOK : L → D → Bool) (keyOK : String → String → Bool)
    (props shorts : List (String × Bool × VK.S L)) (add : VK.AddMode L) (req used : List String) (ms : List (String × J D)) :
    VK.shapeMembers env litOK keyOK props shorts add req used ms
      = KeyOrder.loop keyOK (fun s v => (VK.alts env s).any (fun a => VK.shapeA env litOK keyOK a v))
          (fun v => VK.addDecide litOK add v (fun n => (VK.alts env (.ref [n] none)).any (fun a => VK.shapeA env litOK keyOK a v)))
          props shorts req used ms :=
  KeyOrder.shapeMembers_eq_loop env litOK keyOK props shorts add req used ms

/-- **C13, property order, objects with key shortcuts** (one object level; the member values are whole documents
validated as the validator does): permuting the members of a document object does not change the verdict — of the
specification and of the validator model — when the schema object is key-unambiguous for the document's keys -/
theorem C13_property_order_keys_partial (env : VK.Env L) (litOK : L → D → Bool) (keyOK : String → String → Bool)
    (props shorts : List (String × Bool × VK.S L)) (add : VK.AddMode L) (ms ms' : List (String × J D)) (h : ms.Perm ms')
    (hU : KeyOrder.unamb keyOK props shorts (ms.map (·.1)) = true) :
    VK.shape env litOK keyOK (.obj props shorts add) (.obj ms) = VK.shape env litOK keyOK (.obj props shorts add) (.obj ms') ∧
    VK.validateT env litOK keyOK (.obj props shorts add) (.obj ms)
      = VK.validateT env litOK keyOK (.obj props shorts add) (.obj ms') :=
  ⟨KeyOrder.shape_obj_perm env litOK keyOK props shorts add h hU, KeyOrder.validateT_obj_perm env litOK keyOK props shorts add h hU⟩

/-- **whole documents**: two documents that are the same JSON value up to the order of the properties at every depth
(`VN.J.PermEq`) get the same verdict from any schema (named types, or-lists, arrays, `additionalProperties` included)
that is key-unambiguous at every object the validator visits on the first one (`KeyOrder.unambDeep`: decided from
the schema, `keyOK` and the keys of the document's objects) -/
theorem C13_property_order_keys_deep (env : VK.Env L) (litOK : L → D → Bool) (keyOK : String → String → Bool)
    (s : VK.S L) (d d' : J D) (h : d.PermEq d') (hu : KeyOrder.unambDeep env keyOK s d = true) :
    VK.shape env litOK keyOK s d = VK.shape env litOK keyOK s d' ∧
    VK.validateT env litOK keyOK s d = VK.validateT env litOK keyOK s d' :=
  ⟨KeyOrder.shape_permEq env litOK keyOK s d d' h hu, KeyOrder.validateT_permEq env litOK keyOK s d d' h hu⟩

/-- the predicate is itself invariant under the permutation (so it may be checked on either spelling) -/
theorem C13_unamb_perm (keyOK : String → String → Bool) (props shorts : List (String × Bool × VK.S L))
    (ks ks' : List String) (h : ks.Perm ks') : KeyOrder.unamb keyOK props shorts ks = KeyOrder.unamb keyOK props shorts ks' :=
  KeyOrder.unamb_perm keyOK props shorts h

/-- the clause as its text reads, for objects with key shortcuts: no unambiguity hypothesis, distinct keys -/
def C13_property_order_keys_full : Prop :=
  ∀ (L D : Type) (env : VK.Env L) (litOK : L → D → Bool) (keyOK : String → String → Bool)
    (props shorts : List (String × Bool × VK.S L)) (add : VK.AddMode L) (ms ms' : List (String × J D)),
    ms.Perm ms' → (ms.map (·.1)).Nodup →
    VK.validateT env litOK keyOK (.obj props shorts add) (.obj ms)
      = VK.validateT env litOK keyOK (.obj props shorts add) (.obj ms')

/-- … with the hypothesis "every non-literal key is admitted by at most one shortcut" -/
def C13_property_order_keys_atmostone : Prop :=
  ∀ (L D : Type) (env : VK.Env L) (litOK : L → D → Bool) (keyOK : String → String → Bool)
    (props shorts : List (String × Bool × VK.S L)) (add : VK.AddMode L) (ms ms' : List (String × J D)),
    ms.Perm ms' → (ms.map (·.1)).Nodup → KeyOrder.atMostOneShort keyOK props shorts (ms.map (·.1)) = true →
    VK.validateT env litOK keyOK (.obj props shorts add) (.obj ms)
      = VK.validateT env litOK keyOK (.obj props shorts add) (.obj ms')

open KeyOrder.Ex in
/-- K-C13-keyorder in the model: `{@k1: 1, @k2: "s"}`, `@k1` = keys `^a`, `@k2` = keys `b$`:
`{"a": 1, "ab": "s"}` is accepted, `{"ab": "s", "a": 1}` is rejected -/
theorem C13_property_order_keys_full_false : ¬ C13_property_order_keys_full := by
  intro h
  have e := h Nat Nat [] litOK wKey [] wShorts .none wMs wMs' (List.Perm.swap _ _ _) (by decide +kernel)
  have h1 : VK.validateT [] litOK wKey (.obj [] wShorts .none) (.obj wMs) = true := by decide +kernel
  have h2 : VK.validateT [] litOK wKey (.obj [] wShorts .none) (.obj wMs') = false := by decide +kernel
  rw [h1, h2] at e
  exact Bool.noConfusion e

open KeyOrder.Ex in
/-- `{@k: 1} // {additionalProperties: "string"}`, `@k` = keys `^a`: `{"a": 1, "ab": "s"}` is accepted (`a` takes `@k`,
`ab` is an additional property), `{"ab": "s", "a": 1}` is rejected (`ab` takes `@k`) -/
theorem C13_property_order_keys_atmostone_false : ¬ C13_property_order_keys_atmostone := by
  intro h
  have e := h Nat Nat [] litOK uKey [] uShorts (.lit 1) wMs wMs' (List.Perm.swap _ _ _) (by decide +kernel) (by decide +kernel)
  have h1 : VK.validateT [] litOK uKey (.obj [] uShorts (.lit 1)) (.obj wMs) = true := by decide +kernel
  have h2 : VK.validateT [] litOK uKey (.obj [] uShorts (.lit 1)) (.obj wMs') = false := by decide +kernel
  rw [h1, h2] at e
  exact Bool.noConfusion e

section examples
open KeyOrder.Ex

/-- the witness violates exactly the unambiguity predicate: the keys are distinct, the lists are permutations of each
other, and `a`, `ab` are both admitted by `@k1` -/
example : KeyOrder.unamb wKey [] wShorts (wMs.map (·.1)) = false ∧ (wMs.map (·.1)).Nodup ∧ wMs.Perm wMs' ∧
    KeyOrder.collide wKey [] wShorts "a" "ab" = true :=
  ⟨by decide +kernel, by decide +kernel, List.Perm.swap _ _ _, by decide +kernel⟩
/-- it also violates the at-most-one predicate (`ab` is admitted by both); the second witness does not -/
example : KeyOrder.atMostOneShort wKey [] wShorts (wMs.map (·.1)) = false := by decide +kernel
example : KeyOrder.atMostOneShort uKey [] uShorts (wMs.map (·.1)) = true ∧
    KeyOrder.unamb uKey [] uShorts (wMs.map (·.1)) = false := ⟨by decide +kernel, by decide +kernel⟩
/-- a key admitted by two shortcuts with no competitor is unambiguous: `{"ab": "s"}` alone takes `@k1` in every order -/
example : KeyOrder.unamb wKey [] wShorts ["ab", "zz"] = true ∧ KeyOrder.atMostOneShort wKey [] wShorts ["ab", "zz"] = false :=
  ⟨by decide +kernel, by decide +kernel⟩

/-! Non-vacuity: `{"id": 1, @ka: 2, @kb: "x"} // {additionalProperties: "string"}` (`@kb` optional; `@ka` = keys `^a`,
`@kb` = keys `^b`, disjoint). `{"id": 7, "a1": 8, "zz": "s"}` — literal key, shortcut, additional property — meets the
hypothesis and is accepted in all 6 orders; with `"a1": "no"` it is rejected in all 6 orders. -/
example : KeyOrder.unamb nKey nProps nShorts (nMs3.map (·.1)) = true := by decide +kernel
example : KeyOrder.unamb nKey nProps nShorts (nBad3.map (·.1)) = true := by decide +kernel
example : [[("id", J.lit 0), ("a1", .lit 0), ("zz", .lit 1)], [("id", .lit 0), ("zz", .lit 1), ("a1", .lit 0)],
      [("a1", .lit 0), ("id", .lit 0), ("zz", .lit 1)], [("a1", .lit 0), ("zz", .lit 1), ("id", .lit 0)],
      [("zz", .lit 1), ("id", .lit 0), ("a1", .lit 0)], [("zz", .lit 1), ("a1", .lit 0), ("id", .lit 0)]].all
    (fun ms => VK.validateT [] litOK nKey nSchema (.obj ms)) = true := by decide +kernel
example : [[("id", J.lit 0), ("a1", .lit 1), ("zz", .lit 1)], [("id", .lit 0), ("zz", .lit 1), ("a1", .lit 1)],
      [("a1", .lit 1), ("id", .lit 0), ("zz", .lit 1)], [("a1", .lit 1), ("zz", .lit 1), ("id", .lit 0)],
      [("zz", .lit 1), ("id", .lit 0), ("a1", .lit 1)], [("zz", .lit 1), ("a1", .lit 1), ("id", .lit 0)]].all
    (fun ms => !VK.validateT [] litOK nKey nSchema (.obj ms)) = true := by decide +kernel
/-- through the theorem: EVERY reordering of the four-member document (both shortcuts used) is accepted, every
reordering of the bad one rejected -/
example (ms' : List (String × J Nat)) (h : nMs4.Perm ms') : VK.validateT [] litOK nKey nSchema (.obj ms') = true := by
  unfold nSchema
  rw [← (C13_property_order_keys_partial [] litOK nKey nProps nShorts (.lit 1) nMs4 ms' h (by decide +kernel)).2]
  decide +kernel
example (ms' : List (String × J Nat)) (h : nBad3.Perm ms') : VK.validateT [] litOK nKey nSchema (.obj ms') = false := by
  unfold nSchema
  rw [← (C13_property_order_keys_partial [] litOK nKey nProps nShorts (.lit 1) nBad3 ms' h (by decide +kernel)).2]
  decide +kernel
/-- whole documents: `{"o": {@ka: 2, @kb: "x"}, "l": [{@ka: 2} // {additionalProperties: true}]}`, the document reordered
at both depths (inside `o`, inside the array element, at the top) -/
example : KeyOrder.unambDeep [] nKey dSchema dDoc = true := by decide +kernel
example : VK.validateT [] litOK nKey dSchema dDoc' = true := by
  rw [← (C13_property_order_keys_deep [] litOK nKey dSchema dDoc dDoc' dDoc_permEq (by decide +kernel)).2]
  decide +kernel

end examples
end keyorder

end Props.C13

#print axioms Props.C13.C13_property_order_keys_level
#print axioms Props.C13.C13_members_loop
#print axioms Props.C13.C13_property_order_keys_partial
#print axioms Props.C13.C13_property_order_keys_deep
#print axioms Props.C13.C13_unamb_perm
#print axioms Props.C13.C13_property_order_keys_full_false
#print axioms Props.C13.C13_property_order_keys_atmostone_false
