import JSight.Example
import JSight.ExampleSelf
import JSight.ExampleRefs
/-!
# C15 — Example() emits well-formed JSON

Model `EX.build`: `exampleBuilder.Build` with fix F-5 (literal ↦ its token; array / object ↦ brackets
around the emitted children joined by commas; reference ↦ the root of the first named type, omitted when
that type is already being built twice). `EX.tree` is the same recursion producing a JSON tree in compact
layout. Whatever `Example()` emits is the rendering of a valid JSON tree, and the JSON scanner reads
back exactly that tree (with C06). Self-validation (`Validate(Example()) == nil`) is proved for
reference-free schemas (`C15_self_valid`: what is emitted is the whole EXAMPLE document and `Validate`
accepts it, by C04/C01) and, with user-type references over arbitrary (also recursive) type tables, for every
run of the builder in which no recursion cut-off happens (`C15_self_valid_refs`, through C03's
`alts_iff_reach`). The cut-off cases (K-C15-reqcut, K-C15-arraycut), `or` inside containers (K-C15-or,
K-C15-orcontainer) and key shortcuts (K-C15-keyalias) are outside the theorem and checked against the code
outside the known-finding classes (harness `c15-example`).
-/
namespace Props.C15
open JsonScan

theorem C15_wellformed (ts : EX.Types) (hts : EX.WFTypes ts) (fuel : Nat) (n : EX.N) (hn : EX.WFN n) (bs : List Cls)
    (h : EX.build ts fuel (fun _ => 0) n = some (some bs)) :
    ∃ v : JA, v.Valid ∧ bs = v.render ∧ eventsLoop false bs.length bs 0 {} [] = .ok (evsAt 0 v) :=
  EX.C15_wellformed ts hts fuel n hn bs h

theorem C15_build_is_render (ts : EX.Types) (fuel : Nat) (proc : String → Nat) (n : EX.N) :
    EX.build ts fuel proc n = (EX.tree ts fuel proc n).map (Option.map JA.render) := EX.build_eq ts fuel proc n

/-- reference-free schemas that `Check` accepts: the emitted bytes are the compact text of the EXAMPLE document
(no child is omitted), and `Validate` accepts that document — for any literal rule semantics `litOK` -/
theorem C15_self_valid {L D : Type} (tok : D → List Cls) (keyTok : String → List Cls) (ex : L → D)
    (litOK : L → D → Bool) (ts : EX.Types) (fuel : Nat) (proc : String → Nat) (s : VP.S L)
    (h : VP.checked litOK ex s = true) :
    EX.build ts fuel proc (EX.ofS tok keyTok ex s) = some (some (EX.jaOf tok keyTok (VP.exampleOf ex s)).render) ∧
    VP.validate litOK s (VP.exampleOf ex s) = true :=
  EX.C15_self_valid tok keyTok ex litOK ts fuel proc s h

/-- with user-type references (any type table, recursive or not): if the builder completes without a recursion
cut-off (`exDoc … = some d`: no child omitted anywhere), the emitted bytes are the compact text of `d` and
`Validate` accepts `d` — the reference is followed through its first name, the validator accepts through any
alternative -/
theorem C15_self_valid_refs {L D : Type} (env : VR.Env L) (litOK : L → D → Bool) (ex : L → D)
    (henv : VR.CheckedEnv env litOK ex) (tok : D → List Cls) (keyTok : String → List Cls)
    (fuel : Nat) (proc : String → Nat) (s : VR.S L) (hc : VR.checkedS litOK ex s = true)
    (d : VN.J D) (h : VR.exDoc env ex fuel proc s = some d) :
    EX.build (VR.tsOf tok keyTok ex env) fuel proc (VR.ofR tok keyTok ex s) = some (some (VR.jaOfN tok keyTok d).render) ∧
    VR.validateT env litOK s d = true :=
  ⟨VR.build_ofR tok keyTok env ex fuel proc s d h, VR.C15_self_valid_refs env litOK ex henv fuel proc s hc d h⟩

/-- non-vacuity: a schema with a reference for which the builder completes -/
example : VR.exDoc (L := Nat) (D := Nat) [("a", .lit 1)] id 5 (fun _ => 0) (.obj [("x", true, .ref ["a"] none)])
    = some (.obj [("x", .lit 1)]) := by
  simp [VR.exDoc, VR.exProps, VR.lookupT]

/-- non-vacuity: a nested schema satisfying the hypothesis, and what is emitted for it -/
example : VP.checked (fun (l : Nat) (d : Nat) => l == d) id
    (.obj [("a", true, .lit 1), ("b", false, .arr [.lit 2, .obj [("c", true, .lit 3)]])]) = true := by decide +kernel

end Props.C15
