import JSight.Example
/-!
# C15 — Example() emits well-formed JSON

Model `EX.build`: `exampleBuilder.Build` with fix F-5 (literal ↦ its token; array / object ↦ brackets
around the emitted children joined by commas; reference ↦ the root of the first named type, omitted when
that type is already being built twice). `EX.tree` is the same recursion producing a JSON tree in compact
layout. Whatever `Example()` emits is the rendering of a valid JSON tree, and the JSON scanner reads
back exactly that tree (with C06). Self-validation (`Validate(Example()) == nil`) is checked against the
code outside the known-finding classes (harness `c15-example`), not proved.
-/
namespace Props.C15
open JsonScan

theorem C15_wellformed (ts : EX.Types) (hts : EX.WFTypes ts) (fuel : Nat) (n : EX.N) (hn : EX.WFN n) (bs : List Cls)
    (h : EX.build ts fuel (fun _ => 0) n = some (some bs)) :
    ∃ v : JA, v.Valid ∧ bs = v.render ∧ eventsLoop false bs.length bs 0 {} [] = .ok (evsAt 0 v) :=
  EX.C15_wellformed ts hts fuel n hn bs h

theorem C15_build_is_render (ts : EX.Types) (fuel : Nat) (proc : String → Nat) (n : EX.N) :
    EX.build ts fuel proc n = (EX.tree ts fuel proc n).map (Option.map JA.render) := EX.build_eq ts fuel proc n

end Props.C15
