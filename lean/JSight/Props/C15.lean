import JSight.Example
import JSight.ExampleSelf
/-!
# C15 — Example() emits well-formed JSON

Model `EX.build`: `exampleBuilder.Build` with fix F-5 (literal ↦ its token; array / object ↦ brackets
around the emitted children joined by commas; reference ↦ the root of the first named type, omitted when
that type is already being built twice). `EX.tree` is the same recursion producing a JSON tree in compact
layout. Whatever `Example()` emits is the rendering of a valid JSON tree, and the JSON scanner reads
back exactly that tree (with C06). Self-validation (`Validate(Example()) == nil`) is proved for
reference-free schemas (`C15_self_valid`: what is emitted is the whole EXAMPLE document and `Validate`
accepts it, by C04/C01); with type references, `or` and recursion cut-offs it is checked against the code
outside the known-finding classes (harness `c15-example`).
-/
namespace Props.C15
open JsonScan

theorem C15_wellformed (ts : EX.Types) (hts : EX.WFTypes ts) (fuel : Nat) (n : EX.N) (hn : EX.WFN n) (bs : List Cls)
    (h : EX.build ts fuel (fun _ => 0) n = some (some bs)) :
    ∃ v : JA, v.Valid ∧ bs = v.render ∧ eventsLoop false bs.length bs 0 {} [] = .ok (evsAt 0 v) :=
  EX.C15_wellformed ts hts fuel n hn bs h

theorem C15_build_is_render (ts : EX.Types) (fuel : Nat) (proc : String → Nat) (n : EX.N) :
    EX.build ts fuel proc n = (EX.tree ts fuel proc n).map (Option.map JA.render) := EX.build_eq ts fuel proc n

/-- reference-free schemas that `Check` accepts: the emitted bytes are the compact text of the EXAMPLE document
(no child is omitted), and `Validate` accepts that document — for any literal rule semantics `litOK` -/
theorem C15_self_valid {L D : Type} (tok : D → List Cls) (keyTok : String → List Cls) (ex : L → D)
    (litOK : L → D → Bool) (ts : EX.Types) (fuel : Nat) (proc : String → Nat) (s : VP.S L)
    (h : VP.checked litOK ex s = true) :
    EX.build ts fuel proc (EX.ofS tok keyTok ex s) = some (some (EX.jaOf tok keyTok (VP.exampleOf ex s)).render) ∧
    VP.validate litOK s (VP.exampleOf ex s) = true :=
  EX.C15_self_valid tok keyTok ex litOK ts fuel proc s h

/-- non-vacuity: a nested schema satisfying the hypothesis, and what is emitted for it -/
example : VP.checked (fun (l : Nat) (d : Nat) => l == d) id
    (.obj [("a", true, .lit 1), ("b", false, .arr [.lit 2, .obj [("c", true, .lit 3)]])]) = true := by decide +kernel

end Props.C15
