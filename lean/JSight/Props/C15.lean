import JSight.Example
import JSight.ExampleSelf
import JSight.ExampleRefs
import JSight.ExampleTextProofs
import JSight.ExampleKProofs
import JSight.ExampleKWitness
import JSight.ExampleAllOf
import JSight.ExampleTextRProofs
import JSight.KeysRawProofs
import JSight.E2E
import JSight.ExampleShortCut
import JSight.ExampleShortAgree
import JSight.ExampleShortBytes
/-!
# C15 — Example() emits well-formed JSON

Model `EX.build`: `exampleBuilder.Build` with fix F-5 (literal ↦ its token; array / object ↦ brackets
around the emitted children joined by commas; reference ↦ the root of the first named type, omitted when
that type is already being built twice). `EX.tree` is the same recursion producing a JSON tree in compact
layout. Whatever `Example()` emits is the rendering of a valid JSON tree, and the JSON scanner reads
back exactly that tree (with C06). Self-validation (`Validate(Example()) == nil`) is proved for
reference-free schemas (`C15_self_valid`: what is emitted is the whole EXAMPLE document and `Validate`
accepts it, by C04/C01) and, with user-type references over arbitrary (also recursive) type tables, for every
run of the builder in which no recursion cut-off happens (`C15_self_valid_refs`, through C03's
`alts_iff_reach`). The cut-off cases (K-C15-reqcut, K-C15-arraycut), `or` inside containers (K-C15-or,
K-C15-orcontainer) and key shortcuts (K-C15-keyalias) are outside THESE theorems and checked against the code
outside the known-finding classes (harness `c15-example`).

Added at the end of the file: the text-level theorem for the second sentence of the property
(`C15_plain_text_roundtrip`, `C15_plain_result_is_json`, glue `C15_text_builder_is_model`; tie `c15-text`), the
extended builder model `EXK.build` (key shortcuts, typed containers; `C15_build_extends`), self-validation with key
shortcuts and with cut-offs at optional properties / array suffixes (`C15_self_valid_ext_partial`,
`C15_self_valid_optional_cut`, `C15_self_valid_allOf`), and the negation of the full statement on the recorded
witnesses of K-C15-reqcut, K-C15-arraycut and K-C15-keyclash (`C15_self_valid_full_false*`); ties `c15-exk`
(builder text; inside the proved class the real `Validate` must accept the real `Example()`).
-/
namespace Props.C15
open JsonScan

theorem C15_wellformed (ts : EX.Types) (hts : EX.WFTypes ts) (fuel : Nat) (n : EX.N) (hn : EX.WFN n) (bs : List Cls)
    (h : EX.build ts fuel (fun _ => 0) n = some (some bs)) :
    ∃ v : JA, v.Valid ∧ bs = v.render ∧ eventsLoop false bs.length bs 0 {} [] = .ok (evsAt 0 v) :=
  EX.C15_wellformed ts hts fuel n hn bs h

theorem C15_build_is_render (ts : EX.Types) (fuel : Nat) (proc : String → Nat) (n : EX.N) :
    EX.build ts fuel proc n = (EX.tree ts fuel proc n).map (Option.map JA.render) := EX.build_eq ts fuel proc n

/-- reference-free schemas that `Check` accepts: the emitted bytes are the compact text of the EXAMPLE document
(no child is omitted), and `Validate` accepts that document — for any literal rule semantics `litOK` -/
theorem C15_self_valid {L D : Type} (tok : D → List Cls) (keyTok : String → List Cls) (ex : L → D)
    (litOK : L → D → Bool) (ts : EX.Types) (fuel : Nat) (proc : String → Nat) (s : VP.S L)
    (h : VP.checked litOK ex s = true) :
    EX.build ts fuel proc (EX.ofS tok keyTok ex s) = some (some (EX.jaOf tok keyTok (VP.exampleOf ex s)).render) ∧
    VP.validate litOK s (VP.exampleOf ex s) = true :=
  EX.C15_self_valid tok keyTok ex litOK ts fuel proc s h

/-- with user-type references (any type table, recursive or not): if the builder completes without a recursion
cut-off (`exDoc … = some d`: no child omitted anywhere), the emitted bytes are the compact text of `d` and
`Validate` accepts `d` — the reference is followed through its first name, the validator accepts through any
alternative -/
theorem C15_self_valid_refs {L D : Type} (env : VR.Env L) (litOK : L → D → Bool) (ex : L → D)
    (henv : VR.CheckedEnv env litOK ex) (tok : D → List Cls) (keyTok : String → List Cls)
    (fuel : Nat) (proc : String → Nat) (s : VR.S L) (hc : VR.checkedS litOK ex s = true)
    (d : VN.J D) (h : VR.exDoc env ex fuel proc s = some d) :
    EX.build (VR.tsOf tok keyTok ex env) fuel proc (VR.ofR tok keyTok ex s) = some (some (VR.jaOfN tok keyTok d).render) ∧
    VR.validateT env litOK s d = true :=
  ⟨VR.build_ofR tok keyTok env ex fuel proc s d h, VR.C15_self_valid_refs env litOK ex henv fuel proc s hc d h⟩

/-- non-vacuity: a schema with a reference for which the builder completes -/
example : VR.exDoc (L := Nat) (D := Nat) [("a", .lit 1)] id 5 (fun _ => 0) (.obj [("x", true, .ref ["a"] none)])
    = some (.obj [("x", .lit 1)]) := by
  simp [VR.exDoc, VR.exProps, VR.lookupT]

/-- non-vacuity: a nested schema satisfying the hypothesis, and what is emitted for it -/
example : VP.checked (fun (l : Nat) (d : Nat) => l == d) id
    (.obj [("a", true, .lit 1), ("b", false, .arr [.lit 2, .obj [("c", true, .lit 3)]])]) = true := by decide +kernel

/-! ## Second sentence of the property, end to end on TEXT

"For a schema whose example is plain JSON the result is that example with annotations and insignificant whitespace
removed." `Loader.exampleText` is the composition schema scanner model (`SchemaScan`, tied by `schema-diff`) → loader
model (`Loader.loadText`, tied by `loader-diff`) → `exampleBuilder.Build` on the loader's node table
(`Loader.exBuild`; the whole composition is tied to the real `Example()` byte for byte by `c15-text`).
`Example()` RE-EMITS the source tokens (literal: `BasisLexEventOfSchemaForNode().Value()`, key: `k.Lex.Value()`),
it never re-encodes them; the theorem says so: `BT.compact` keeps every scalar and key token byte for byte.
Layout = white space only (blank, tab, LF / CR in any mix, wherever the grammar allows it and around the value): the
events-of-a-tree theorems (`SchemaEvents*`, `LoaderTree*`) do not cover user comments `# …` and annotations; those
layouts are exercised by `c15-text` (streams B, D) on the same model function. Keys of one object pairwise
distinct after decoding (otherwise error 402 in model and code: `C16_text_duplicate_key`, `c15-text` stream C). -/

open Loader in
theorem C15_plain_text_roundtrip (t : BT) (hv : t.cls.Valid) (ws0 ws1 : List UInt8)
    (h0 : SchemaScan.IsWs (ws0.map SchemaScan.classify)) (h1 : SchemaScan.IsWs (ws1.map SchemaScan.classify))
    (hd : t.KeysDistinct) :
    exampleText (ws0 ++ (t.render ++ ws1)) = .ok t.compact :=
  Loader.plain_text_roundtrip t hv ws0 ws1 h0 h1 hd

/-- with C05 / C06: the JSON scanner model reads the result as exactly the events of the value without layout —
in particular it is accepted (`t.cls.Json`: tokens by the JSON grammar, which implies `t.cls.Valid`) -/
theorem C15_plain_result_is_json (allow : Bool) (t : Loader.BT) (hj : t.cls.Json) :
    JsonScan.events allow t.compact = .ok (JsonScan.evsAt 0 t.strip.cls.toJA) :=
  Loader.plain_result_is_json allow t hj

/-- the glue to the abstract builder model: `Loader.toEX` reads the loader's node table as a schema of `EX`, and on it
`EX.build` (the model of `C15_wellformed` / `C15_build_is_render`) emits the byte classes of what the text-level
builder emits — for every node table, not only those of plain JSON -/
theorem C15_text_builder_is_model (src : Array UInt8) (nodes : Array Loader.Node) (ts : EX.Types) (f : Nat)
    (proc : String → Nat) (fuel i : Nat) (out : List UInt8) (h : Loader.exBuild src nodes fuel i = some out) :
    ∃ n, Loader.toEX src nodes fuel i = some n ∧ EX.build ts f proc n = some (some (out.map JsonScan.classify)) :=
  Loader.exBuild_glue src nodes ts f proc fuel i out h

/-- non-vacuity: ` {⏎"a\n" :⏎ [1, true,␍⏎⇥-0.50 ] ,⏎⏎ "\u00e9": { }⏎}⏎ ` ↦ `{"a\n":[1,true,-0.50],"\u00e9":{}}` -/
example : Loader.exampleText SchemaScan.sampleBytes
    = .ok [123, 34, 97, 92, 110, 34, 58, 91, 49, 44, 116, 114, 117, 101, 44, 45, 48, 46, 53, 48, 93, 44,
           34, 92, 117, 48, 48, 101, 57, 34, 58, 123, 125, 125] := Loader.sample_roundtrip

/-! ## Self-validation beyond references

`EXK.build` extends the builder model as `example.go` dictates: key shortcuts (`buildObjectKey`), the error for an
object / array node that carries a types list (K-C15-orcontainer); `EX.build` is its restriction
(`C15_build_extends`). Scalar positions need no extension: a literal node emits its own token whatever rules it carries
(`or` rule-sets, `enum`, `const`, `{type: "@t"}`), and `Check` has validated that token against those rules — in the
theorems this is `litOK l (ex l)` for an ARBITRARY literal-rule semantics `litOK`; an or-shortcut `@a | @b` and a
nullable reference are `.ref names nul`: the builder follows the first name.

`VK.exDoc strict …` replays the builder and answers `none` as soon as the run leaves the class the theorem covers:
a cut-off at a REQUIRED property (K-C15-reqcut, K-C15-or), at an array element that is followed by an emitted one
(K-C15-arraycut; with `strict` at any array element), at a key-shortcut property; a key shortcut whose type is not
directly a literal (K-C15-keyalias) or whose example key is also a literal key of the object (K-C15-keyclash, found
while this theorem was being stated; `C15_self_valid_full_false_keyclash`). K-C15-uninhabited lies in the first three classes (nothing is emitted below an
uninhabited type without a cut-off). -/

theorem C15_build_extends (ts : EX.Types) (fuel : Nat) (proc : String → Nat) (n : EX.N) :
    EXK.build (EXK.embedTypes ts) fuel proc (EXK.embed n) = EX.build ts fuel proc n := EXK.build_embed ts fuel proc n

/-- **extended self-validation** (`strict = false`): scalars with any rules, or-shortcuts, nullable, key shortcuts on
directly-literal string types, additionalProperties, any type table; cut-offs tolerated at optional properties and at a
suffix of an array's elements. The emitted bytes are the compact text of `d`, and `Validate` accepts `d`. -/
theorem C15_self_valid_ext_partial {L D : Type} (env : VK.Env L) (litOK : L → D → Bool) (keyOK : String → String → Bool)
    (ex : L → D) (keyStr : D → String) (tok : D → List Cls) (keyTok : String → List Cls)
    (henv : VK.CheckedEnv env litOK ex) (hkey : VK.KeyLink env litOK keyOK ex keyStr)
    (hkt : VK.KeyTokLink tok keyTok env ex keyStr)
    (fuel : Nat) (proc : String → Nat) (s : VK.S L) (hc : VK.checkedS litOK ex s = true)
    (d : VN.J D) (h : VK.exDoc env ex keyStr false fuel proc s = some (some d)) :
    EXK.build (VK.tsOfK tok keyTok ex env) fuel proc (VK.ofK tok keyTok ex s) = some (some (VR.jaOfN tok keyTok d).render) ∧
    VK.validateT env litOK keyOK s d = true :=
  ⟨VK.build_ofK tok keyTok env ex keyStr false hkt fuel proc s _ h,
   VK.self_valid_ext env litOK keyOK ex keyStr false henv hkey fuel proc s hc d h⟩

/-- **optional recursion** (`strict = true`): if every child the recursion cut-off omits is the value of an OPTIONAL
object property, what `Example()` emits is accepted by `Validate` -/
theorem C15_self_valid_optional_cut {L D : Type} (env : VK.Env L) (litOK : L → D → Bool) (keyOK : String → String → Bool)
    (ex : L → D) (keyStr : D → String) (tok : D → List Cls) (keyTok : String → List Cls)
    (henv : VK.CheckedEnv env litOK ex) (hkey : VK.KeyLink env litOK keyOK ex keyStr)
    (hkt : VK.KeyTokLink tok keyTok env ex keyStr)
    (fuel : Nat) (proc : String → Nat) (s : VK.S L) (hc : VK.checkedS litOK ex s = true)
    (d : VN.J D) (h : VK.exDoc env ex keyStr true fuel proc s = some (some d)) :
    EXK.build (VK.tsOfK tok keyTok ex env) fuel proc (VK.ofK tok keyTok ex s) = some (some (VR.jaOfN tok keyTok d).render) ∧
    VK.validateT env litOK keyOK s d = true :=
  ⟨VK.build_ofK tok keyTok env ex keyStr true hkt fuel proc s _ h,
   VK.self_valid_ext env litOK keyOK ex keyStr true henv hkey fuel proc s hc d h⟩

/-- allOf: `CompileAllOf` (`AO.compileAll`, characterised by `C03_allOf_expand`) expands the schema before `Example()`
and `Validate` see it; on the expansion (read as a `ValidateK` schema without key shortcuts, `VK.embA`) the extended
theorem applies -/
theorem C15_self_valid_allOf {L D : Type} [DecidableEq L] (penv : AO.PEnv L) (root : AO.PS L)
    (env' : VA.Env L) (s : VA.S L) (_ : AO.compileAll penv root = .ok (env', s))
    (litOK : L → D → Bool) (keyOK : String → String → Bool)
    (ex : L → D) (keyStr : D → String) (tok : D → List Cls) (keyTok : String → List Cls)
    (henv : VK.CheckedEnv (VK.embAEnv env') litOK ex) (hkey : VK.KeyLink (VK.embAEnv env') litOK keyOK ex keyStr)
    (hkt : VK.KeyTokLink tok keyTok (VK.embAEnv env') ex keyStr)
    (fuel : Nat) (proc : String → Nat) (hc : VK.checkedS litOK ex (VK.embA s) = true)
    (d : VN.J D) (h : VK.exDoc (VK.embAEnv env') ex keyStr false fuel proc (VK.embA s) = some (some d)) :
    EXK.build (VK.tsOfK tok keyTok ex (VK.embAEnv env')) fuel proc (VK.ofK tok keyTok ex (VK.embA s))
      = some (some (VR.jaOfN tok keyTok d).render) ∧
    VK.validateT (VK.embAEnv env') litOK keyOK (VK.embA s) d = true :=
  C15_self_valid_ext_partial (VK.embAEnv env') litOK keyOK ex keyStr tok keyTok henv hkey hkt fuel proc (VK.embA s) hc d h

/-- the statement at full strength: whatever the builder emits for a checked schema, its validator accepts -/
def C15_self_valid_full : Prop := VK.Witness.SelfValidFull

/-- K-C15-reqcut, on the model as on the library: `@t = {"a": @u // {optional: true}}`, `@u = {"b": @t}`, root `@t`:
the builder emits `{"a":{"b":{"a":{}}}}`, the validator rejects it -/
theorem C15_self_valid_full_false : ¬ C15_self_valid_full := VK.Witness.selfValidFull_false_reqcut

/-- K-C15-arraycut: `@t = [@t // {nullable: true}, 1]`, root `[@t]`: `[[[1],1]]` is emitted and rejected -/
theorem C15_self_valid_full_false_arraycut : ¬ C15_self_valid_full := VK.Witness.selfValidFull_false_arraycut

/-- K-C15-keyclash: `{"a": 1, @K: null}` with `@K = "a"`: `{"a":1,"a":null}` is emitted and rejected -/
theorem C15_self_valid_full_false_keyclash : ¬ C15_self_valid_full := VK.Witness.selfValidFull_false_keyclash

/-- non-vacuity (optional recursion): `@t = {"a": 1, "t": @t // {optional: true}}`, root `@t`, the cut-off falls on the
optional property; the hypotheses of `C15_self_valid_optional_cut` hold -/
example : VK.exDoc VK.Witness.envOpt id id true 8 (fun _ => 0) (.ref ["t"] none)
      = some (some (.obj [("a", .lit "1"), ("t", .obj [("a", .lit "1")])])) ∧
    VK.CheckedEnv VK.Witness.envOpt VK.Witness.litOK id :=
  ⟨VK.Witness.optcut_inside, VK.Witness.envOpt_checked⟩

/-- non-vacuity (key shortcut + omitted array suffix): `{"b": 1, @K: [@t]}`, `@K = "a"`, `@t = [@t]` -/
example : VK.exDoc VK.Witness.envMix id id false 8 (fun _ => 0) VK.Witness.schemaMix
      = some (some (.obj [("b", .lit "1"), ("a", .arr [.arr [.arr []]])])) ∧
    VK.CheckedEnv VK.Witness.envMix VK.Witness.litOK id ∧
    VK.KeyLink VK.Witness.envMix VK.Witness.litOK (fun _ _ => true) id id :=
  ⟨VK.Witness.mix_inside, VK.Witness.envMix_checked, VK.Witness.keyLink _⟩

/-- and the replay puts the K-C15-reqcut witness outside the class -/
example : VK.exDoc VK.Witness.envReq id id false 8 (fun _ => 0) (.ref ["t"] none) = none :=
  VK.Witness.reqcut_outside false

/-! ## Text level for ANNOTATED trees (work package c15text; modules `ExampleTextR`, `ATreeExample`, `ExampleTextRProofs`)

`Loader.exampleTextR` is `Loader.exampleText` with the rules inside the fragment, as `example.go` reads them: a literal
node emits its token WHATEVER rules it carries (`min`, `max`, `minLength`, `maxLength`, `regex`, `const`, `nullable`,
`optional`, `type` — also `"any"` and `"@t"` —, `precision`, `exclusiveMinimum`, `enum`, `or`: none is consulted); an
array / object node emits brackets around its children unless it carries `or` (→ `TypesListConstraint` →
`ErrUserTypeFound`) or `allOf` (`CompileAllOf` adds properties) — every other container rule (`minItems`, `maxItems`,
`additionalProperties`, `nullable`, `optional`, `type`) is not consulted. Type shortcuts and key shortcuts stay outside
(answer `UNSUPPORTED`; modelled on the abstract schema by `EXK.build`). `Example()` first compiles and checks the
schema: the text-level model has the scanner's and the loader's errors, not the checker's, so its answer reads "the
bytes `Example()` returns whenever `Check` accepts the text" (tie `c15-text`, stream T).

`AT.ATree.compact` is the compact JSON text of the VALUE of an annotated tree (scalar and key tokens byte for byte: the
builder re-emits source tokens; `AT.compact_value`: it is `BT.compact` of the plain byte tree `ATree.value`),
`AT.ATree.exClass` the decidable class "no container carries `or` / `allOf`" (the rule-object grammar of `AT.ATree` has
bare names and literal values, so these are the only rules of the grammar the builder reacts to).

`C13_annotated_tree_loads` speaks about the ABSTRACT table (`XNode`: DECODED keys); `Example()` emits the key TOKENS
(`k.Lex.Value()`). `AT.KeysRaw w0 t w1` is exactly the missing link (the key spans of the loaded table are the key tokens
of the tree): `C15_annotated_text_roundtrip_of_keys` proves the roundtrip for every annotated tree from it;
`C15_annotated_text_roundtrip_partial` discharges it for the trees whose objects are all empty (`ATree.keyless`:
arrays of any nesting, annotated scalars, `{}`), where it is vacuous. For trees with keys the link is checked on the code
and on the model by `c15-text` (stream T: `ATree.compact` = model = real `Example()`); the statement at full strength is
`C15_annotated_text_roundtrip_full` — PROVED further down (`C15_annotated_keys_raw`,
`C15_annotated_text_roundtrip_full_holds`; work package c15keys). -/

open AT in
theorem C15_text_builder_extends (bs out : List UInt8) (h : Loader.exampleText bs = .ok out) :
    Loader.exampleTextR bs = .ok out := Loader.exampleTextR_extends bs out h

/-- on EVERY loader table the rule-aware text-level builder is the builder on the abstract table (kinds, children,
decoded keys, literal tokens, rule NAMES — what `GetAST` shows) plus the raw key tokens: nothing else of a node is read -/
theorem C15_text_builder_reads (src : Array UInt8) (nodes : Array Loader.Node) (fuel i : Nat) :
    Loader.exBuildR src nodes fuel i
      = Loader.exBuildX (nodes.map (Loader.absX src)) (nodes.map (Loader.rawKeysN src)) fuel i :=
  Loader.exBuildR_eq_X src nodes fuel i

/-- the statement at full strength -/
def C15_annotated_text_roundtrip_full : Prop :=
  ∀ (w0 : AT.Gap) (t : AT.ATree) (w1 : AT.Gap), t.isContainer = true → AT.lineOK w0 t = true →
    AT.TokOK (AT.docToks w0 t w1) → t.exClass = true →
    Loader.exampleTextR (AT.docText w0 t w1) = .ok t.compact

/-- every annotated tree of the class, any layout, comments, annotations (inline / multi-line, before / behind the
comma, notes): IF the loaded table's key spans are the tree's key tokens, the example is the compact text of the VALUE -/
theorem C15_annotated_text_roundtrip_of_keys (w0 : AT.Gap) (t : AT.ATree) (w1 : AT.Gap) (hc : t.isContainer = true)
    (hl : AT.lineOK w0 t = true) (hw : AT.TokOK (AT.docToks w0 t w1)) (hx : t.exClass = true)
    (hk : AT.KeysRaw w0 t w1) :
    Loader.exampleTextR (AT.docText w0 t w1) = .ok t.compact :=
  AT.annotated_roundtrip_of_keys w0 t w1 hc hl hw hx hk

/-- **annotated trees without object members** (arrays of any nesting, annotated scalars, empty objects): whatever
annotations, layout and comments the schema text carries, `Example` is the compact JSON text of the tree's value -/
theorem C15_annotated_text_roundtrip_partial (w0 : AT.Gap) (t : AT.ATree) (w1 : AT.Gap) (hc : t.isContainer = true)
    (hl : AT.lineOK w0 t = true) (hw : AT.TokOK (AT.docToks w0 t w1)) (hx : t.exClass = true)
    (hkl : t.keyless = true) :
    Loader.exampleTextR (AT.docText w0 t w1) = .ok t.compact :=
  AT.annotated_roundtrip_keyless w0 t w1 hc hl hw hx hkl

/-- the full statement is equivalent to the raw-key link on the class -/
theorem C15_annotated_text_roundtrip_full_of_keys
    (h : ∀ (w0 : AT.Gap) (t : AT.ATree) (w1 : AT.Gap), t.isContainer = true → AT.lineOK w0 t = true →
      AT.TokOK (AT.docToks w0 t w1) → AT.KeysRaw w0 t w1) : C15_annotated_text_roundtrip_full :=
  fun w0 t w1 hc hl hw hx => AT.annotated_roundtrip_of_keys w0 t w1 hc hl hw hx (h w0 t w1 hc hl hw)

/-- the result is JSON (with C05 / C06): the JSON scanner model reads the compact text of the value as exactly the
events of the value without layout — for EVERY annotated tree whose tokens are JSON tokens -/
theorem C15_annotated_result_is_json (allow : Bool) (t : AT.ATree) (hj : t.value.cls.Json) :
    JsonScan.events allow t.compact = .ok (JsonScan.evsAt 0 t.value.strip.cls.toJA) :=
  AT.annotated_result_is_json allow t hj

/-- non-vacuity (`…_partial`): `[⏎1, // {min: 0} - note⏎2⏎]` ↦ `[1,2]` -/
example : Loader.exampleTextR (AT.docText [] (AT.Ex.inner AT.Ex.aInl) []) = .ok [91, 49, 44, 50, 93] :=
  C15_annotated_text_roundtrip_partial [] (AT.Ex.inner AT.Ex.aInl) [] rfl (by decide) AT.ExC15.inner_tok rfl rfl

/-- non-vacuity (`…_of_keys`): the hypothesis `KeysRaw` is met (here through `AT.keysRaw_of_keyless`) -/
example : AT.KeysRaw [] (AT.Ex.inner AT.Ex.aInl) [] :=
  AT.keysRaw_of_keyless [] (AT.Ex.inner AT.Ex.aInl) [] rfl (by decide) AT.ExC15.inner_tok rfl

/-- non-vacuity (`C15_annotated_result_is_json`), a tree WITH keys (`AT.Ex.t1`): its compact text is
`{"a":1,"aa":[1,2]}` -/
example : AT.Ex.t1.compact = [123, 34, 97, 34, 58, 49, 44, 34, 97, 97, 34, 58, 91, 49, 44, 50, 93, 125] := by decide

/-- (3) `C15_annotated_self_valid`, the STATEMENT (not proved in this package: `E2E.loadSchema` / `Compile` on the table
of an annotated tree — `C02_text_level` has it for one scalar, `C01_text_level` for plain trees — is not composed over
whole annotated trees yet): for every annotated tree of the class, when the model's checker accepts the schema text
(`E2E.validateText` does not answer a schema error / `unsupported`), the model's validator ACCEPTS the example the
builder emits. Tied on both sides by `c15-text` (stream T): real `Validate(Example()) == nil` whenever real `Check`
accepts, and `E2E.validateText text [] (Example()) = ACC` (or `UNSUP`) on the model. -/
def C15_annotated_self_valid_full : Prop :=
  ∀ (w0 : AT.Gap) (t : AT.ATree) (w1 : AT.Gap), t.isContainer = true → AT.lineOK w0 t = true →
    AT.TokOK (AT.docToks w0 t w1) → t.exClass = true →
    E2E.validateText (AT.docText w0 t w1) [] t.compact ≠ .rej ∧
    ∀ c p, E2E.validateText (AT.docText w0 t w1) [] t.compact ≠ .docErr c p

/-! ## The missing link `AT.KeysRaw` (work package c15keys; modules `KeysLoad`, `KeysAnn`, `KeysDefs`, `KeysSeg`, `KeysTok`,
`KeysInd1` … `KeysInd5`, `KeysThm`, `KeysRawProofs`)

`C13_annotated_tree_loads` reads the loaded table through `Loader.absX` (DECODED keys: what `GetAST` shows). The builder
emits the key TOKENS. `Loader.K.absK` is `absX` with the key token `src[b..e]` of every recorded key span `(b, e)` in the
`keys` slot (`Loader.K.dec` maps it to what `absX` shows); `AT.ATree.tableK` is `ATree.table` with the key tokens of the
tree as written (`AMembers.rkeys`, quotes and escapes included). The `ATreeLoad*` induction is run once more over this
abstraction (scanner side shared; the loader lemmas `X_*`, `Loads`, `Seg`, the three statements and the root theorems
again; `loads_key` records the TOKEN and keeps the loader's duplicate test on the decoded keys):
`C15_annotated_tree_loads_keys`. `C15_annotated_keys_raw` is `AT.KeysRaw` for every well-formed annotated tree, and with
`C15_annotated_text_roundtrip_of_keys` the round trip holds for ALL annotated trees of the class. -/

/-- **the text of a well-formed annotated tree loads into the table the tree denotes, key TOKENS included**: node by
node the key spans the loader records are the key tokens of the corresponding members, in source order, as written -/
theorem C15_annotated_tree_loads_keys (w0 : AT.Gap) (t : AT.ATree) (w1 : AT.Gap) (hc : t.isContainer = true)
    (hl : AT.lineOK w0 t = true) (hw : AT.TokOK (AT.docToks w0 t w1)) :
    ∃ st, Loader.loadText (AT.docText w0 t w1) = .ok st ∧ st.root = some 0 ∧
      st.nodes.toList.map (Loader.K.absK (AT.docText w0 t w1).toArray) = t.tableK :=
  AT.K.tree_loads_keys w0 t w1 hc hl hw

/-- the two tables agree: decoding the key tokens of `tableK` gives `table` (so `C15_annotated_tree_loads_keys` refines
`C13_annotated_tree_loads`) -/
theorem C15_tableK_decodes (t : AT.ATree) :
    t.tableK.map (fun x => { x with keys := x.keys.map Loader.K.dec }) = t.table := AT.tableK_dec t

/-- **the missing link**: for every well-formed annotated tree (container root, line discipline, token grammar) the
loaded key spans, read against the text, are the tree's key tokens — `AT.KeysRaw` holds -/
theorem C15_annotated_keys_raw (w0 : AT.Gap) (t : AT.ATree) (w1 : AT.Gap) (hc : t.isContainer = true)
    (hl : AT.lineOK w0 t = true) (hw : AT.TokOK (AT.docToks w0 t w1)) : AT.KeysRaw w0 t w1 :=
  AT.keysRaw w0 t w1 hc hl hw

/-- **every annotated tree of the class** (container root, line discipline, token grammar, no container carries `or` /
`allOf`), any layout, comments, annotations (inline / multi-line, before / behind the comma, notes), any keys (escapes
included): scanner model → loader model → builder emits the compact JSON text of the tree's VALUE, scalar and key tokens
byte for byte -/
theorem C15_annotated_text_roundtrip (w0 : AT.Gap) (t : AT.ATree) (w1 : AT.Gap) (hc : t.isContainer = true)
    (hl : AT.lineOK w0 t = true) (hw : AT.TokOK (AT.docToks w0 t w1)) (hx : t.exClass = true) :
    Loader.exampleTextR (AT.docText w0 t w1) = .ok t.compact :=
  AT.annotated_roundtrip w0 t w1 hc hl hw hx

/-- the statement at full strength holds -/
theorem C15_annotated_text_roundtrip_full_holds : C15_annotated_text_roundtrip_full :=
  fun w0 t w1 hc hl hw hx => AT.annotated_roundtrip w0 t w1 hc hl hw hx

/-- non-vacuity, a pretty-printed tree WITH keys and annotations (`AT.Ex.t1`):
`{ // {min: 0} - note⏎"a": 1 /* {min: 0} */,⏎"aa": [⏎1, // {min: 0} - note⏎2⏎]⏎}` ↦ `{"a":1,"aa":[1,2]}` -/
example : Loader.exampleTextR (AT.docText [] AT.Ex.t1 [])
    = .ok [123, 34, 97, 34, 58, 49, 44, 34, 97, 97, 34, 58, 91, 49, 44, 50, 93, 125] :=
  C15_annotated_text_roundtrip [] AT.Ex.t1 [] rfl AT.Ex.t1_line AT.Ex.t1_tok rfl

/-- non-vacuity, a key with an escape: `{"\u0061": 1, "aa": [ ] }` ↦ `{"\u0061":1,"aa":[]}` — the TOKEN, not the
decoded key `a` -/
example : Loader.exampleTextR (AT.docText [] AT.ExKeys.tEsc [])
    = .ok [123, 34, 92, 117, 48, 48, 54, 49, 34, 58, 49, 44, 34, 97, 97, 34, 58, 91, 93, 125] :=
  C15_annotated_text_roundtrip [] AT.ExKeys.tEsc [] rfl AT.ExKeys.tEsc_line AT.ExKeys.tEsc_tok rfl

/-- non-vacuity (`C15_annotated_keys_raw`): the raw keys of `tEsc`, node by node -/
example : AT.ExKeys.tEsc.rawKeys = [[[34, 92, 117, 48, 48, 54, 49, 34], [34, 97, 97, 34]], [], []] := by decide

example := C15_annotated_keys_raw [] AT.ExKeys.tEsc [] rfl AT.ExKeys.tEsc_line AT.ExKeys.tEsc_tok

end Props.C15

#print axioms Props.C15.C15_text_builder_extends
#print axioms Props.C15.C15_text_builder_reads
#print axioms Props.C15.C15_annotated_text_roundtrip_of_keys
#print axioms Props.C15.C15_annotated_text_roundtrip_partial
#print axioms Props.C15.C15_annotated_text_roundtrip_full_of_keys
#print axioms Props.C15.C15_annotated_result_is_json
#print axioms Props.C15.C15_annotated_tree_loads_keys
#print axioms Props.C15.C15_tableK_decodes
#print axioms Props.C15.C15_annotated_keys_raw
#print axioms Props.C15.C15_annotated_text_roundtrip
#print axioms Props.C15.C15_annotated_text_roundtrip_full_holds

/-! ## C15 at TEXT level for schema texts with SHORTCUT leaves (work package c15short; modules `ExampleShort`,
`ExampleShortClass`, `ExampleShortText`, `ExampleShortCut`)

Specification level (part (2) of the package; the builder MODEL on loader nodes, `Loader.exBuildR`, still answers `none`
at a `mixed` node, so `C15_shortcut_example_closed` — model's builder = rendering of `exampleOf` — is NOT delivered).
`RE.exampleOf tys fuel : BST → Option Doc` is the closed form of `exampleBuilder.Build` on a tree with shortcut leaves
WITHOUT the recursion cut-off: a scalar leaf is its token, a container the examples of its children in order, a shortcut
leaf `@A | @B | …` the example of the tree added under its FIRST name (`GetTypes()[0]`; the other names are never
consulted); `none` = fuel exhausted (every fuel, when a type is reachable from itself through first names) or first name
not added. `RE.exampleCut` is the transliteration WITH the cut-off (`processedTypes[name] > 1` ↦ `nil`, dropped by the
enclosing container). -/

namespace Props.C15
open SE (BST TypeText TextOK TypesOK docText typeTexts typesOf cnOf)

/-- **whatever the closed form answers is admitted** by the tree it was built from (shortcut leaves read as the union of
the trees of their names, `C03_text_level_refs`) — any table, recursive ones included (there `exampleOf` answers `none`
where the real builder starts dropping members); class: scalars whose kind can be guessed, decoded keys of every object
pairwise distinct (`RE.exOK`, `RE.tysOK`: decidable; both follow from `TextOK` / `TypesOK`) -/
theorem C15_shortcut_example_admitted (tys : List TypeText) (htys : RE.tysOK tys = true) (fuel : Nat) (opt : Bool)
    (t : BST) (d : RE.Doc) (hok : RE.exOK t = true) (he : RE.exampleOf tys fuel t = some d) : RE.Admits tys opt t d :=
  RE.exampleOf_admitted tys htys fuel opt t d hok he

/-- the same for the texts of the class -/
theorem C15_shortcut_example_admitted_text (w0 : SE.Bytes) (t : BST) (w1 : SE.Bytes) (ht : TextOK w0 t w1)
    (tys : List TypeText) (htys : TypesOK tys) (fuel : Nat) (opt : Bool) (d : RE.Doc)
    (he : RE.exampleOf tys fuel t = some d) : RE.Admits tys opt t d :=
  RE.example_admitted_text w0 t w1 ht tys htys fuel opt d he

/-- the answer does not depend on the fuel -/
theorem C15_shortcut_example_fuel (tys : List TypeText) (f g : Nat) (hle : f ≤ g) (t : BST) (d : RE.Doc)
    (h : RE.exampleOf tys f t = some d) : RE.exampleOf tys g t = some d := RE.exampleOf_le tys f g hle t d h

/-- **round trip at text level**: root text and added type texts of the class, distinct user type names, the check stage
passes; when the closed form answers `e` (explicit decidable hypothesis: it does for some fuel exactly when no type is
reachable from itself through the first names met from the root), the pipeline scanner → loader → compile → check → JSON
scanner → validator machine ACCEPTS every document text (one JSON value in any white space) that denotes `e` -/
theorem C15_shortcut_text_roundtrip (w0 : SE.Bytes) (t : BST) (w1 : SE.Bytes) (ht : TextOK w0 t w1) (tys : List TypeText)
    (htys : TypesOK tys) (hn : CL.typeNamesOK (typeTexts tys) = true) (opt : Bool)
    (hc : Compile.check (cnOf opt t) (typesOf tys) = .ok ())
    (fuel : Nat) (e : RE.Doc) (he : RE.exampleOf tys fuel t = some e)
    (d : VPos.T UInt8) (hd : (VPos.toJA JsonScan.classify d).Valid) (hde : E2E.docOf d = e) (ws0 ws1 : List UInt8)
    (hw0 : JsonScan.IsWs (ws0.map JsonScan.classify)) (hw1 : JsonScan.IsWs (ws1.map JsonScan.classify)) :
    E2E.validateText (docText w0 t w1) (typeTexts tys) (ws0 ++ (d.render VPos.byteSym ++ ws1)) opt = .acc :=
  RE.shortcut_text_roundtrip w0 t w1 ht tys htys hn opt hc fuel e he d hd hde ws0 ws1 hw0 hw1

/-- the example as a token tree without layout, key TOKENS of the schema text kept (`RE.exampleT`; its rendering
`RE.exampleBytes` is the compact JSON text the builder emits), denotes the closed form -/
theorem C15_shortcut_example_tokens (tys : List TypeText) (fuel : Nat) (t : BST) :
    (RE.exampleT tys fuel t).map E2E.docOf = RE.exampleOf tys fuel t := RE.exampleT_doc tys fuel t

/-- **round trip on the example BYTES**: the pipeline accepts the compact JSON text of the example (in any white space)
against the schema text it was built from; `hd`: the token tree is JSON (scalar / key tokens of the SCHEMA grammar read
by the JSON scanner — not derived from `TextOK` here) -/
theorem C15_shortcut_bytes_roundtrip (w0 : SE.Bytes) (t : BST) (w1 : SE.Bytes) (ht : TextOK w0 t w1)
    (tys : List TypeText) (htys : TypesOK tys) (hn : CL.typeNamesOK (typeTexts tys) = true) (opt : Bool)
    (hc : Compile.check (cnOf opt t) (typesOf tys) = .ok ())
    (fuel : Nat) (d : VPos.T UInt8) (he : RE.exampleT tys fuel t = some d)
    (hd : (VPos.toJA JsonScan.classify d).Valid) (ws0 ws1 : List UInt8)
    (hw0 : JsonScan.IsWs (ws0.map JsonScan.classify)) (hw1 : JsonScan.IsWs (ws1.map JsonScan.classify)) :
    E2E.validateText (docText w0 t w1) (typeTexts tys) (ws0 ++ (d.render VPos.byteSym ++ ws1)) opt = .acc :=
  RE.shortcut_bytes_roundtrip w0 t w1 ht tys htys hn opt hc fuel d he hd ws0 ws1 hw0 hw1

/-- the statement at full strength, the builder's recursion cut-off included (`RE.exampleCut`): whatever the builder
answers on a table that passes the check stage is admitted -/
def C15_shortcut_example_cut_full : Prop := RE.cut_admitted_full

/-- it is FALSE: `@R` = `[@R, 1]` passes the check stage (the array may be empty); the builder with the cut-off answers
`[[1],1]`, not admitted (`1` at the position of `@R`): the class of the known findings K-C15-arraycut / K-C15-reqcut -/
theorem C15_shortcut_example_cut_full_false : ¬ C15_shortcut_example_cut_full := RE.cut_admitted_full_false

/-- **where the closed form answers, the cut-off does not fire**: the transliteration of the builder WITH its cut-off
answers the same document (any table; so on the tables where `exampleOf` answers, the two closed forms are one) -/
theorem C15_shortcut_example_cut_agrees (tys : List TypeText) (f : Nat) (t : BST) (d : RE.Doc)
    (he : RE.exampleOf tys f t = some d) : ∃ g, RE.exampleCut tys g [] t = some (some d) :=
  RE.exampleCut_of_exampleOf tys f t d he

/-- non-vacuity: `SE.Ex.root` = `{"a": @A | @B ,⏎ "b": [@C⏎], "c": 1}` with `@A` = `1`, `@B` = `"s"`, `@C` = `{"k": true}`:
the example is `{"a":1,"b":[{"k":true}],"c":1}` (first name `@A` at `a`) -/
example : RE.exampleOf RE.Ex.tys 5 SE.Ex.root
    = some (.obj [("a", .lit [49]), ("b", .arr [.obj [("k", .lit [116, 114, 117, 101])]]), ("c", .lit [49])]) :=
  RE.Ex.exDoc_eq

/-- … it is admitted … -/
example : RE.Admits RE.Ex.tys false SE.Ex.root RE.Ex.exDoc :=
  C15_shortcut_example_admitted_text [] SE.Ex.root [] SE.Ex.root_ok RE.Ex.tys RE.Ex.tys_ok 5 false _ RE.Ex.exDoc_eq

/-- … and the text-level pipeline accepts the text ` {"a":1,"b":[{"k":true}],"c":1}⏎` against its own schema -/
example : E2E.validateText (docText [] SE.Ex.root []) (typeTexts RE.Ex.tys)
    ([32] ++ (RE.Ex.dEx.render VPos.byteSym ++ [10])) false = .acc :=
  C15_shortcut_text_roundtrip [] SE.Ex.root [] SE.Ex.root_ok RE.Ex.tys RE.Ex.tys_ok RE.Ex.names_ok false RE.Ex.check_ok
    5 RE.Ex.exDoc RE.Ex.exDoc_eq RE.Ex.dEx RE.Ex.dEx_valid RE.Ex.dEx_doc [32] [10] RE.Ex.sp_ws RE.Ex.lf_ws

/-- the bytes: `{"a":1,"b":[{"k":true}],"c":1}` (what the real `Example()` returns on these texts), accepted -/
example : (RE.exampleBytes RE.Ex.tys 5 SE.Ex.root).map (fun b => String.fromUTF8! b.toByteArray)
    = some "{\"a\":1,\"b\":[{\"k\":true}],\"c\":1}" := by decide +kernel
example : E2E.validateText (docText [] SE.Ex.root []) (typeTexts RE.Ex.tys)
    ([32] ++ (RE.Ex.dEx.render VPos.byteSym ++ [10])) false = .acc :=
  C15_shortcut_bytes_roundtrip [] SE.Ex.root [] SE.Ex.root_ok RE.Ex.tys RE.Ex.tys_ok RE.Ex.names_ok false RE.Ex.check_ok
    5 RE.Ex.dEx RE.Ex.exT_eq RE.Ex.dEx_valid [32] [10] RE.Ex.sp_ws RE.Ex.lf_ws

/-- the witness of the cut-off: builder `[[1],1]`, closed form silent -/
example : RE.exampleCut RE.CutEx.tysR 6 [] RE.CutEx.rootR = some (some (.arr [.arr [.lit [49]], .lit [49]])) :=
  RE.CutEx.cut_eq

end Props.C15

#print axioms Props.C15.C15_shortcut_example_admitted
#print axioms Props.C15.C15_shortcut_example_admitted_text
#print axioms Props.C15.C15_shortcut_example_fuel
#print axioms Props.C15.C15_shortcut_text_roundtrip
#print axioms Props.C15.C15_shortcut_example_cut_full_false
#print axioms Props.C15.C15_shortcut_example_cut_agrees
#print axioms Props.C15.C15_shortcut_example_tokens
#print axioms Props.C15.C15_shortcut_bytes_roundtrip
