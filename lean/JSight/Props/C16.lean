import JSight.Ast
import JSight.LoaderProofs
import JSight.LoaderTreeMirrors
import JSight.LoaderTreeDup
import JSight.AstTextThm
import JSight.AstTextTree
import JSight.AnnotExamples
import JSight.ATreeStrip
import JSight.ATreeExamples
import JSight.AstTextQ
import JSight.AnnotQExamples
import JSight.AstTextShort
import JSight.ShortE2EExamples
import JSight.AstTextShort2Tree
/-!
# C16 — GetAST mirrors the schema text: the decision logic that is a theorem

* `C16_type_precedence`: the schema type shown for a node is decided by `enum`, then `or`, then an
  explicit `type` rule, then `precision` (decimal), then the JSON kind of the example.
* `C16_rules_order`: the AST lists the rules in the order of the constraint map (insertion order = the
  order written, C19), with `or` in place and the synthetic `types` entry hidden.
* `C16_text_mirrors_tree`: text → node tree for schemas that are plain JSON (no annotations): scanner model +
  loader model (`loadText`, tied by `loader-diff` against the real `GetAST`) build exactly one node per value
  of the text, numbered in source order (`nodesOf`): kind of the value, parent, children in source order,
  object keys in source order with the key tokens' spans, literal values with the literal tokens' spans, no
  rules, no comment — for every value tree, any depth / width / layout incl. line breaks, provided the keys of
  each object are pairwise distinct after decoding. `C16_text_duplicate_key`: otherwise error 402 at the first
  key (in source order) that repeats an earlier key of its object. `C16_text_total`: one of the two.
With annotations, the whole `GetAST()` output is compared with the AST computed from the generator's abstract
schema (harness `c16-ast`) and with the loader model (`loader-diff`).
-/
namespace Props.C16
open Ast OMap

theorem C16_enum_first (cs : List CK) (k : String) (h : .enum ∈ cs) : schemaType cs k = "enum" := by
  simp [schemaType, h]

theorem C16_or_second (cs : List CK) (k : String) (h1 : .enum ∉ cs) (h2 : .or ∈ cs) : schemaType cs k = "mixed" := by
  simp [schemaType, h1, h2]

theorem C16_type_third (cs : List CK) (k n : String) (h1 : .enum ∉ cs) (h2 : .or ∉ cs)
    (h3 : cs.find? CK.isType = some (.type n)) : schemaType cs k = n := by
  simp [schemaType, h1, h2, h3]

theorem C16_precision_fourth (cs : List CK) (k : String) (h1 : .enum ∉ cs) (h2 : .or ∉ cs)
    (h3 : cs.find? CK.isType = none) (h4 : .precision ∈ cs) :
    schemaType cs k = "decimal" := by
  simp [schemaType, h1, h2, h3, h4]

theorem C16_kind_last (cs : List CK) (k : String) (h1 : .enum ∉ cs) (h2 : .or ∉ cs)
    (h3 : cs.find? CK.isType = none) (h4 : .precision ∉ cs) :
    schemaType cs k = k := by
  simp [schemaType, h1, h2, h3, h4]

/-- names of the collected rules: the constraint names in map order, `types` hidden -/
theorem collect_names_aux (cs : List CK) (acc : Ref String CK)
    (hn : ((acc.map (·.1)) ++ ((cs.filter (· ≠ .typesList)).map CK.name)).Nodup) :
    (cs.foldl addRule acc).map (·.1) = acc.map (·.1) ++ (cs.filter (· ≠ .typesList)).map CK.name := by
  induction cs generalizing acc with
  | nil => simp
  | cons c cs ih =>
    have key : ∀ (nm : String) (v : CK), nm ∉ acc.map (·.1) → (Ref.set acc nm v).map (·.1) = acc.map (·.1) ++ [nm] := by
      intro nm v hnm
      have : Ref.has acc nm = false := by
        simp only [Ref.has, Bool.eq_false_iff, ne_eq, List.any_eq_true, not_exists, not_and]
        intro e he heq
        exact hnm (List.mem_map.2 ⟨e, he, by simpa using heq⟩)
      simp [Ref.set, this]
    by_cases hc : c = .typesList
    · subst hc
      simp only [List.foldl_cons]
      have : (CK.typesList :: cs).filter (· ≠ .typesList) = cs.filter (· ≠ .typesList) := by simp
      rw [this] at hn ⊢
      exact ih acc hn
    · have hf : (c :: cs).filter (· ≠ .typesList) = c :: cs.filter (· ≠ .typesList) := by simp [hc]
      rw [hf] at hn ⊢
      simp only [List.map_cons] at hn ⊢
      have hnm : c.name ∉ acc.map (·.1) := by
        intro hmem
        have := List.nodup_append.1 hn
        exact this.2.2 _ hmem _ (List.mem_cons_self) rfl
      have step : (addRule acc c).map (·.1) = acc.map (·.1) ++ [c.name] := by
        cases c with
        | typesList => exact absurd rfl hc
        | or => exact key "or" _ hnm
        | enum => exact key _ _ hnm
        | type n => exact key _ _ hnm
        | precision => exact key _ _ hnm
        | other n => exact key _ _ hnm
      simp only [List.foldl_cons]
      rw [ih _ (by rw [step]; simpa [List.append_assoc] using hn), step]
      simp [List.append_assoc]

theorem C16_rules_order (cs : List CK) (hn : ((cs.filter (· ≠ .typesList)).map CK.name).Nodup) :
    (collectRules cs).map (·.1) = (cs.filter (· ≠ .typesList)).map CK.name := by
  have := collect_names_aux cs [] (by simpa using hn)
  simpa [collectRules] using this

/-- loader model (text → node tree, compared with the real `GetAST()` by `loader-diff`): an annotation is bound
to the node created last, together with the number of nodes created on its line -/
theorem C16_annotation_binds_last_node (src : Array UInt8) (st : Loader.St) (e : SchemaScan.Ev) (hm : st.mode = .default)
    (he : e.ty = .inlAnnB ∨ e.ty = .mlAnnB) :
    ∃ st', Loader.step src st e = .ok st' ∧ st'.rsNode = st.last ∧ st'.rsCount = st.perLine ∧ st'.nodes = st.nodes :=
  Loader.annotation_binds_last_node src st e hm he

/-- and its rules are accepted only when exactly one node was created on that line (errors 803 / 804) -/
theorem C16_rule_needs_exactly_one_node (src : Array UInt8) (st : Loader.St) (e : SchemaScan.Ev) (hrs : st.rs = .value) :
    (st.rsCount = 0 → Loader.ruleLoad src st e = .error (.ruleWithoutExample e.b)) ∧
    (st.rsCount ≥ 2 → Loader.ruleLoad src st e = .error (.ruleForSeveralNode e.b)) :=
  Loader.rule_needs_exactly_one_node src st e hrs

/-! Non-vacuity -/
example : schemaType [.other "min", .type "decimal", .precision] "float" = "decimal" := by decide
example : schemaType [.other "min", .or, .typesList, .type "mixed"] "integer" = "mixed" := by decide
example : (collectRules [.other "min", .or, .typesList, .other "nullable"]).map (·.1) = ["min", "or", "nullable"] := by decide

/-! ### text → node tree for plain-JSON schemas -/
open SchemaScan in
theorem C16_text_mirrors_tree (v : Tree) (hv : v.Valid) (ws0 ws1 : List Cls)
    (h0 : SchemaScan.IsWs ws0) (h1 : SchemaScan.IsWs ws1)
    (bs : List UInt8) (hbs : bs.map SchemaScan.classify = ws0 ++ (v.render ++ ws1))
    (hd : Loader.KeysDistinct bs.toArray ws0.length v) :
    ∃ st, Loader.loadText bs = .ok st ∧ st.root = some 0 ∧ st.nodes.toList = Loader.nodesOf none 0 ws0.length v :=
  Loader.C16_loadText_mirrors_tree v hv ws0 ws1 h0 h1 bs hbs hd

open SchemaScan in
theorem C16_text_duplicate_key (v : Tree) (hv : v.Valid) (ws0 ws1 : List Cls)
    (h0 : SchemaScan.IsWs ws0) (h1 : SchemaScan.IsWs ws1)
    (bs : List UInt8) (hbs : bs.map SchemaScan.classify = ws0 ++ (v.render ++ ws1)) (p : Nat)
    (hd : Loader.DupAt bs.toArray p ws0.length v) :
    Loader.loadText bs = .error (Loader.showLErr (.duplicateKey p)) :=
  Loader.C16_loadText_duplicate_key v hv ws0 ws1 h0 h1 bs hbs p hd

/-- every plain-JSON text either loads into the mirror of its tree or has a duplicate key -/
theorem C16_text_total (src : Array UInt8) (v : SchemaScan.Tree) (o : Nat) :
    Loader.KeysDistinct src o v ∨ ∃ p, Loader.DupAt src p o v := Loader.keys_dichotomy src v o

/-! ### text → AST with rules, values, sources and notes (`AstText.astOfText`, tied by `c16-text`)

`astOfText` = scanner model → loader model → the AST builders of the library (`ASTNode()` of the nodes and of the
constraints, with what the constraint constructors keep of a rule value). `astOfScalar tok pairs note` is the spec on
the TREE of an annotated scalar: one literal node, token kind and (unquoted) literal value of the example, schema type
by `Ast.schemaType`, one rule node per (name, value) pair as written, in written order, the note trimmed. -/

open Lay SchemaScan in
/-- **annotated scalar, text → AST** (partial: top-level scalar; rule objects with bare names and scalar values; the
class excluded is explicit and decidable: no rule is named `enum` / `allOf` / `or`, whose values are lists). For
every layout the grammar allows — `//` or `/* */` form, blanks, line breaks inside `/* */`, trailing comma, blanks
around the note — the model's AST of the TEXT is the AST of the TREE (value token, (name, value) pairs in written
order, note). -/
theorem C16_ast_of_annotated_tree_partial (a : Ann) (ha : a.isAnn = true) (tok s1 s2 : List UInt8) (ob : BObj)
    (s3 n1 note tl : List UInt8) (hv : AnnValidN a tok s1 s2 ob s3 n1 note tl)
    (he : ∀ p ∈ ob.pairs, p.1 ∉ AstText.embNames) :
    AstText.astOfText (annTextNB a tok s1 s2 ob s3 n1 note tl) = AstText.astOfScalar tok ob.pairs note :=
  AstText.ast_annot_note a ha tok s1 s2 ob s3 n1 note tl hv he

open Lay SchemaScan in
/-- the same without a note: `tok // {rules}` / `tok /* {rules} */` -/
theorem C16_ast_of_annotated_tree_partial_no_note (a : Ann) (ha : a.isAnn = true) (tok s1 s2 : List UInt8) (ob : BObj)
    (s3 tl : List UInt8) (hv : AnnValid a tok s1 s2 ob s3 tl) (he : ∀ p ∈ ob.pairs, p.1 ∉ AstText.embNames) :
    AstText.astOfText (annTextB a tok s1 s2 ob s3 tl) = AstText.astOfScalar tok ob.pairs [] :=
  AstText.ast_annot a ha tok s1 s2 ob s3 tl hv he

/-- the value of every scalar rule node is the value text as written (quotes and escapes of a string resolved);
no comment, no properties, no items; source manual -/
theorem C16_rule_value_as_written (name v : AstText.Bytes) (t : String) (val c : AstText.Bytes) (s : AstText.Src)
    (p : List (AstText.Bytes × AstText.RNode)) (i : List AstText.RNode)
    (h : AstText.scalarRule name v = .ok (.mk t val c s p i)) :
    (val = v ∨ val = Unquote.unquote v) ∧ c = [] ∧ s = .manual ∧ p = [] ∧ i = [] :=
  AstText.scalarRule_as_written name v t val c s p i h

/-- **`@A`** gives a reference node carrying the name, the synthesised `type` rule marked generated (the loader
model adds that rule when the shortcut ends: `AstText.shortcut_step`) -/
theorem C16_shortcut_reference_nodes (src : Array UInt8) (evs : List SchemaScan.Ev) (n : Loader.Node) (vb ve b e : Nat)
    (hk : n.kind = .mixed) (hv : n.value = some (vb, ve)) (hr : n.rules = [.inr "type"])
    (hrv : n.ruleVals = [some (b, e)]) (hp : AstText.hasPipe (Loader.trimSpaces (Loader.slice src vb ve)) = false) :
    AstText.ownOf src evs n = .ok ⟨"reference", Loader.trimSpaces (Loader.slice src vb ve),
      Loader.trimSpaces (Loader.slice src vb ve), AstText.noteOf src n,
      [(AstText.sb "type", AstText.leaf
        (if AstText.isUserTypeName (AstText.unq (Loader.trimSpaces (Loader.slice src b e))) then "reference" else "string")
        (AstText.unq (Loader.trimSpaces (Loader.slice src b e))) .generated)]⟩ :=
  AstText.ownOf_shortcut_type src evs n vb ve b e hk hv hr hrv hp

/-- **`@A | @B`** gives a reference node carrying the names as written, SchemaType `mixed`, and the synthesised `or`
rule — one item per name in written order — marked generated throughout -/
theorem C16_shortcut_reference_nodes_or (src : Array UInt8) (evs : List SchemaScan.Ev) (n : Loader.Node)
    (vb ve b e : Nat) (hk : n.kind = .mixed) (hv : n.value = some (vb, ve)) (hr : n.rules = [.inr "or"])
    (hrv : n.ruleVals = [some (b, e)]) (hp : AstText.hasPipe (Loader.trimSpaces (Loader.slice src vb ve)) = true) :
    AstText.ownOf src evs n = .ok ⟨"reference", AstText.sb "mixed", Loader.trimSpaces (Loader.slice src vb ve),
      AstText.noteOf src n,
      [(AstText.sb "or", .mk "array" [] [] .generated []
        ((AstText.splitPipe (Loader.slice src b e)).map fun nm => AstText.leaf "string" nm .generated))]⟩ :=
  AstText.ownOf_shortcut_or src evs n vb ve b e hk hv hr hrv hp

/-- the loader model's step that synthesises the rule of a shortcut -/
theorem C16_shortcut_rule_synthesised (src : Array UInt8) (st : Loader.St) (i b e : Nat) (hm : st.mode = .default)
    (hl : st.last = some i) :
    Loader.step src st ⟨.tsE, b, e⟩ = .ok (Loader.updNode st i (fun n =>
      { n with rules := n.rules ++ [.inr (if Loader.hasPipe (Loader.slice src b e) then "or" else "type")],
               ruleVals := n.ruleVals ++ [some (b, e)] })) :=
  AstText.shortcut_step src st i b e hm hl

open Lay SchemaScan in
/-- **two layouts of one annotated tree give the same AST**: same value token, same (name, value) pairs in the same
order, same note text — whatever form (`//` or `/* */`), blanks, line breaks and trailing comma each layout uses -/
theorem C16_ast_ignores_layout (a a' : Ann) (ha : a.isAnn = true) (ha' : a'.isAnn = true) (tok : List UInt8)
    (s1 s2 : List UInt8) (ob : BObj) (s3 n1 note tl : List UInt8)
    (s1' s2' : List UInt8) (ob' : BObj) (s3' n1' tl' : List UInt8)
    (hv : AnnValidN a tok s1 s2 ob s3 n1 note tl) (hv' : AnnValidN a' tok s1' s2' ob' s3' n1' note tl')
    (hsame : ob.pairs = ob'.pairs) (he : ∀ p ∈ ob.pairs, p.1 ∉ AstText.embNames) :
    AstText.astOfText (annTextNB a tok s1 s2 ob s3 n1 note tl)
      = AstText.astOfText (annTextNB a' tok s1' s2' ob' s3' n1' note tl') :=
  AstText.ast_layout_note a a' ha ha' tok s1 s2 ob s3 n1 note tl s1' s2' ob' s3' n1' tl' hv hv' hsame he

/-! Non-vacuity: `1 // {min: 0, max :5, } - first id` and `1 /*⏎ {min: 0,⏎ max: 5⏎}⏎-  first id*/⏎` -/
theorem exPairs_not_emb : ∀ p ∈ Lay.Ex.obInl.pairs, p.1 ∉ AstText.embNames := by decide +kernel

example := C16_ast_of_annotated_tree_partial .inline rfl Lay.Ex.one [32] [32] Lay.Ex.obInl [32] [32] Lay.Ex.noteTxt []
  Lay.Ex.annInlN_valid exPairs_not_emb
example := C16_ast_of_annotated_tree_partial_no_note .multi rfl Lay.Ex.one [32] [10, 32] Lay.Ex.obMl [10] [42, 47, 10]
  Lay.Ex.annMl_valid (Lay.Ex.same_pairs ▸ exPairs_not_emb)
example := C16_ast_ignores_layout .inline .multi rfl rfl Lay.Ex.one [32] [32] Lay.Ex.obInl [32] [32] Lay.Ex.noteTxt []
  [32] [10, 32] Lay.Ex.obMl [10] [32, 32] [42, 47, 10] Lay.Ex.annInlN_valid Lay.Ex.annMlN_valid Lay.Ex.same_pairs
  exPairs_not_emb
/-- and the AST of that tree is not an error: a `number` node with value `1`, the note and the two rules in order -/
example : (match AstText.astOfScalar Lay.Ex.one Lay.Ex.obInl.pairs Lay.Ex.noteTxt with
    | .ok (.mk _ _ tok _ v c rules _) =>
      tok == "number" && v == [49] && c == Lay.Ex.noteTxt && rules.map (·.1) == [Lay.Ex.nMin, Lay.Ex.nMax]
    | .error _ => false) = true := by decide +kernel
/-- the shortcut step on a fresh mixed node -/
example := C16_shortcut_rule_synthesised #[64, 65] { nodes := #[{ kind := .mixed, parent := none }], last := some 0 } 0 0 1 rfl rfl

/-! ### plain-JSON schema texts of any depth: text → AST -/

open Loader in
/-- **one node per example value in source order, any depth** (no annotations): for every byte-level value tree with
any white-space layout (blanks, tabs, LF / CR / CRLF wherever JSON allows white space) and pairwise distinct keys
per object, the model's AST of the TEXT is the AST of the TREE (`AstText.astB`): token kind and unquoted literal
value per scalar, `array` / `object` nodes with their children in source order, the decoded key of each member,
schema type = JSON kind, no rules, no note. -/
theorem C16_ast_of_plain_tree (t : BT) (hv : t.cls.Valid) (ws0 ws1 : List UInt8)
    (h0 : SchemaScan.IsWs (ws0.map SchemaScan.classify)) (h1 : SchemaScan.IsWs (ws1.map SchemaScan.classify))
    (hd : t.KeysDistinct) :
    AstText.astOfText (ws0 ++ (t.render ++ ws1)) = AstText.astB t ([], false) :=
  AstText.ast_plain_tree t hv ws0 ws1 h0 h1 hd

open Loader in
/-- two layouts of one plain tree (same tokens, same structure: equal tree ASTs) give the same AST -/
theorem C16_ast_ignores_layout_plain (t t' : BT) (hv : t.cls.Valid) (hv' : t'.cls.Valid)
    (ws0 ws1 ws0' ws1' : List UInt8)
    (h0 : SchemaScan.IsWs (ws0.map SchemaScan.classify)) (h1 : SchemaScan.IsWs (ws1.map SchemaScan.classify))
    (h0' : SchemaScan.IsWs (ws0'.map SchemaScan.classify)) (h1' : SchemaScan.IsWs (ws1'.map SchemaScan.classify))
    (hd : t.KeysDistinct) (hd' : t'.KeysDistinct) (hs : AstText.astB t ([], false) = AstText.astB t' ([], false)) :
    AstText.astOfText (ws0 ++ (t.render ++ ws1)) = AstText.astOfText (ws0' ++ (t'.render ++ ws1')) :=
  AstText.ast_plain_tree_layout t t' hv hv' ws0 ws1 ws0' ws1' h0 h1 h0' h1' hd hd' hs

/-- non-vacuity: ` {⏎"a\n" :⏎ [1, true,␍⏎⇥-0.50 ] ,⏎⏎ "\u00e9": { }⏎}⏎ ` -/
example := C16_ast_of_plain_tree Loader.sampleBT (by rw [Loader.sampleBT_cls]; exact SchemaScan.sampleTree_valid) [32] [10, 32]
  (by intro c h; simp at h; subst h; decide) (by intro c h; simp at h; rcases h with h | h <;> subst h <;> decide)
  Loader.sampleBT_distinct
/-- its tree AST: an object with the members `a⏎` (an array of three scalars) and `é` (an empty object) -/
example : (match AstText.astB Loader.sampleBT ([], false) with
    | .ok (.mk _ _ tok _ _ _ _ [.mk k1 _ t1 _ _ _ _ [_, _, .mk _ _ t13 _ v13 _ _ _], .mk k2 _ t2 _ _ _ _ []]) =>
      tok == "object" && k1 == [97, 10] && t1 == "array" && t13 == "number" && v13 == [45, 48, 46, 53, 48]
        && k2 == [195, 169] && t2 == "object"
    | _ => false) = true := by decide +kernel

end Props.C16

namespace Props.C16

/-! ## the AST of an annotated tree (work package c13tree)

`AstText.astOfText` builds the AST from the loader's state: the node table AND, for rule values, the source spans the table
points to and the event list (`astOfTable src (eventsOf bs) st`). The full statement — the AST is a function of `t.strip` — is
`C16_ast_of_annotated_tree_full`; what is proved: the AST of the text of a well-formed annotated tree is `astOfTable` of a
loader state whose table, read against the text, is `t.table` (the annotation of every node bound to that node). -/

open AT in
/-- the full statement (NOT proved): two surface forms of one annotated tree have the same AST -/
def C16_ast_of_annotated_tree_full : Prop :=
  ∀ (w0 w0' : Gap) (t t' : ATree) (w1 w1' : Gap), t.strip = t'.strip → t.isContainer = true → lineOK w0 t = true →
    lineOK w0' t' = true → TokOK (docToks w0 t w1) → TokOK (docToks w0' t' w1') →
    AstText.astOfText (docText w0 t w1) = AstText.astOfText (docText w0' t' w1')

open AT in
/-- as far as it goes: the AST of an annotated tree's text is built from a loader state with the tree's table -/
theorem C16_ast_of_annotated_tree (w0 : Gap) (t : ATree) (w1 : Gap) (hc : t.isContainer = true)
    (hl : lineOK w0 t = true) (hw : TokOK (docToks w0 t w1)) :
    ∃ st, AstText.astOfText (docText w0 t w1)
        = AstText.astOfTable (docText w0 t w1).toArray (AstText.eventsOf (docText w0 t w1)) st ∧
      st.root = some 0 ∧ abstractOf (docText w0 t w1).toArray st = t.table := by
  obtain ⟨st, h1, h2, h3⟩ := AT.tree_loads w0 t w1 hc hl hw
  exact ⟨st, by simp only [AstText.astOfText, h1], h2, h3⟩

example := C16_ast_of_annotated_tree [] AT.Ex.t1 [] rfl AT.Ex.t1_line AT.Ex.t1_tok

end Props.C16

namespace Props.C16
open Lay SchemaScan

/-! ## annotated scalar with QUOTED rule names, text → AST (work package c02text3; module `AstTextQ`)

The bare-name restriction of `C16_ast_of_annotated_tree_partial` is gone: the rule object is of the extended grammar
`Lay.GObj` — names bare or quoted (any JSON string, `\uXXXX` included), here with literal values —, and the AST shows the
DECODED names. Still excluded (explicit, decidable): rules named `enum` / `allOf` / `or` (their list values go through the
AST builder's item reader, which is tied by `c16-text`, not proved), and the note together with quoted names. -/

/-- **annotated scalar with quoted / bare rule names, text → AST**: the model's AST of the TEXT is the AST of the TREE
(value token, (decoded name, value) pairs in written order) -/
theorem C16_ast_of_annotated_tree_quoted_partial (a : Ann) (ha : a.isAnn = true) (tok s1 s2 : List UInt8) (ob : GObj)
    (s3 tl : List UInt8) (hv : GAnnValid a tok s1 s2 ob s3 tl) (hl : ob.literalValues)
    (he : ∀ p ∈ ob.pairs, p.1 ∉ AstText.embNames) :
    AstText.astOfText (gannText a tok s1 s2 ob s3 tl) = AstText.astOfScalar tok ob.pairs [] :=
  AstText.ast_gannot a ha tok s1 s2 ob s3 tl hv hl he

/-- **GetAST does not show how a rule name was spelled**: quoted, escaped or bare, in either annotation form and any
layout — the same AST -/
theorem C16_ast_ignores_name_quoting (a a' : Ann) (ha : a.isAnn = true) (ha' : a'.isAnn = true) (tok : List UInt8)
    (s1 s2 : List UInt8) (ob : GObj) (s3 tl : List UInt8) (s1' s2' : List UInt8) (ob' : GObj) (s3' tl' : List UInt8)
    (hv : GAnnValid a tok s1 s2 ob s3 tl) (hv' : GAnnValid a' tok s1' s2' ob' s3' tl')
    (hl : ob.literalValues) (hl' : ob'.literalValues)
    (hsame : ob.pairs = ob'.pairs) (he : ∀ p ∈ ob.pairs, p.1 ∉ AstText.embNames) :
    AstText.astOfText (gannText a tok s1 s2 ob s3 tl) = AstText.astOfText (gannText a' tok s1' s2' ob' s3' tl') :=
  AstText.ast_quoting a a' ha ha' tok s1 s2 ob s3 tl s1' s2' ob' s3' tl' hv hv' hl hl' hsame he

/-! Non-vacuity: `1 // {"min": 0, "max" :5, }` and `1 /*⏎ {min: 0,⏎ max: 5⏎}⏎*/⏎` -/
theorem exQPairs_not_emb : ∀ p ∈ Lay.Ex.gobQ.pairs, p.1 ∉ AstText.embNames := by
  rw [Lay.Ex.gsame_pairs]; decide +kernel

theorem gobB_lits : Lay.Ex.gobB.literalValues := by
  intro r hr
  simp only [Lay.Ex.gobB, GObj.allRules, List.mem_cons, List.not_mem_nil, or_false] at hr
  rcases hr with rfl | rfl <;> exact ⟨_, rfl⟩

example := C16_ast_of_annotated_tree_quoted_partial .inline rfl Lay.Ex.one [32] [32] Lay.Ex.gobQ [] [] Lay.Ex.gannQ_valid
  Lay.Ex.gobQ_lits exQPairs_not_emb
example := C16_ast_ignores_name_quoting .inline .multi rfl rfl Lay.Ex.one [32] [32] Lay.Ex.gobQ [] [] [32] [10, 32]
  Lay.Ex.gobB [10] [42, 47, 10] Lay.Ex.gannQ_valid Lay.Ex.gannB_valid Lay.Ex.gobQ_lits gobB_lits Lay.Ex.gsame_pairs
  exQPairs_not_emb

/-! ### schema texts whose values are TYPE SHORTCUTS: events, node table, AST

`SE.BST` / `SchemaScan.STree`: JSON trees with layout whose leaves are scalars or type shortcuts `@name` / `@a | @b …`
(root, member value, array item; any nesting; see `Props.C09` for `SE.TextOK`). -/

/-- **the events of a type shortcut in ordinary mode, in every value position** (class level): the text of a tree whose
leaves are scalars or shortcuts is scanned into exactly `sEvsAt` of the tree; for a shortcut that starts at `o` and
whose last byte — the blanks behind the last name included — is at `e`:
`mixed-value-begin[o:o] types-shortcut-begin[o:o] types-shortcut-end[o:e] mixed-value-end[o:e']`, `e' = e - 1` when the
byte at `e` is a SPACE and `e' = e` otherwise, inside `item` / `value` events ending at `e`; behind it a line break, `,`,
`]`, `}` or the end of input -/
theorem C16_shortcut_events_of_tree (v : SchemaScan.STree) (hv : v.Valid) (ws0 ws1 : List SchemaScan.Cls)
    (h0 : SchemaScan.IsWs ws0) (h1 : SchemaScan.IsWs ws1) (hf : SchemaScan.Follow v ws1) (bs : List UInt8)
    (hbs : bs.map SchemaScan.classify = ws0 ++ (v.render ++ ws1)) :
    SchemaScan.scanAll bs
      = .ok (SchemaScan.nlEvs 0 ws0 ++ (SchemaScan.sEvsAt ws0.length v ++
          SchemaScan.nlEvs (ws0.length + v.render.length) ws1)) :=
  SchemaScan.C06_schema_events_of_shortcut_tree v hv ws0 ws1 h0 h1 hf bs hbs

/-- **the node table of such a text** (scanner model and loader model interleaved as in `doLoad`): one node per value in
pre-order; a shortcut leaf is a `mixed` node whose value span is the `mixed-value-end` lexeme and whose only rule is the
synthesised `type` (`@A`) / `or` (`@A | @B`) with the shortcut's span as its value (`Loader.shortNode`) -/
theorem C16_shortcut_tree_loads (v : SchemaScan.STree) (hv : v.Valid) (ws0 ws1 : List SchemaScan.Cls)
    (h0 : SchemaScan.IsWs ws0) (h1 : SchemaScan.IsWs ws1) (hf : SchemaScan.Follow v ws1)
    (bs : List UInt8) (hbs : bs.map SchemaScan.classify = ws0 ++ (v.render ++ ws1))
    (hd : LoaderS.KeysDistinct bs.toArray ws0.length v) :
    ∃ st, Loader.loadText bs = .ok st ∧ st.root = some 0 ∧ st.nodes.toList = LoaderS.nodesOf none 0 ws0.length v :=
  LoaderS.loadText_mirrors_stree v hv ws0 ws1 h0 h1 hf bs hbs hd

/-- **C16 at text level for shortcut values**: `astOfText` of the text of a tree whose leaves are scalars or type
shortcuts (any depth and layout) is the AST of the TREE, by offsets into the text (`AstText.S.astOff`): one node per
value in source order; a shortcut leaf is what `ownOf` makes of the loader's shortcut node — a REFERENCE node
(`C16_shortcut_leaf_type` / `_or`) -/
theorem C16_shortcut_reference_nodes_text (w0 : SE.Bytes) (t : SE.BST) (w1 : SE.Bytes) (h : SE.TextOK w0 t w1) :
    AstText.astOfText (SE.docText w0 t w1)
      = AstText.S.astOff (SE.docText w0 t w1).toArray (AstText.eventsOf (SE.docText w0 t w1)) w0.length t.cls
          ([], false) :=
  AstText.S.ast_of_stree_text w0 t w1 h

/-- a leaf **`@A`** of that AST: TokenType `reference`, Value and SchemaType the name, the rule `type` marked generated -/
theorem C16_shortcut_leaf_type (src : Array UInt8) (evs : List SchemaScan.Ev) (o : Nat)
    (sc : SchemaScan.Len.Shortcut) (sps : List SchemaScan.Cls) (key : AstText.Bytes × Bool) (ha : sc.alts = [])
    (hp : AstText.hasPipe (Loader.trimSpaces (Loader.slice src o (AstText.S.mixEnd o sc sps))) = false) :
    AstText.S.astOff src evs o (.short sc sps) key
      = .ok (.mk key.1 key.2 "reference" (Loader.trimSpaces (Loader.slice src o (AstText.S.mixEnd o sc sps)))
          (Loader.trimSpaces (Loader.slice src o (AstText.S.mixEnd o sc sps))) []
          [(AstText.sb "type", AstText.leaf
            (if AstText.isUserTypeName (AstText.unq (Loader.trimSpaces (Loader.slice src o (AstText.S.tsEnd o sc sps))))
              then "reference" else "string")
            (AstText.unq (Loader.trimSpaces (Loader.slice src o (AstText.S.tsEnd o sc sps)))) .generated)] []) :=
  AstText.S.astOff_short_type src evs o sc sps key ha hp

/-- a leaf **`@A | @B`**: TokenType `reference`, SchemaType `mixed`, Value the names as written, the rule `or` — one item
per name in written order — marked generated throughout -/
theorem C16_shortcut_leaf_or (src : Array UInt8) (evs : List SchemaScan.Ev) (o : Nat)
    (sc : SchemaScan.Len.Shortcut) (sps : List SchemaScan.Cls) (key : AstText.Bytes × Bool) (ha : sc.alts ≠ [])
    (hp : AstText.hasPipe (Loader.trimSpaces (Loader.slice src o (AstText.S.mixEnd o sc sps))) = true) :
    AstText.S.astOff src evs o (.short sc sps) key
      = .ok (.mk key.1 key.2 "reference" (AstText.sb "mixed")
          (Loader.trimSpaces (Loader.slice src o (AstText.S.mixEnd o sc sps))) []
          [(AstText.sb "or", .mk "array" [] [] .generated []
            ((AstText.splitPipe (Loader.slice src o (AstText.S.tsEnd o sc sps))).map
              fun nm => AstText.leaf "string" nm .generated))] []) :=
  AstText.S.astOff_short_or src evs o sc sps key ha hp

/-! Non-vacuity: root `{"a": @A | @B ,⏎ "b": [@C⏎], "c": 1}` (`SE.Ex.root`); the leaf `@A | @B ` at offset 6 of that
text; the leaf `@C` of the text ` @C`. -/
example := C16_shortcut_reference_nodes_text [] SE.Ex.root [] SE.Ex.root_ok
example := C16_shortcut_events_of_tree SE.Ex.root.cls SE.Ex.root_valid [] [] (SE.Ex.ws_ok [] rfl) (SE.Ex.ws_ok [] rfl)
  (by intro h; cases h) (SE.docText [] SE.Ex.root []) (by simp only [SE.docText, List.map_append, SE.render_cls]; rfl)
example (evs : List SchemaScan.Ev) (key : AstText.Bytes × Bool) :=
  C16_shortcut_leaf_or (SE.docText [] SE.Ex.root []).toArray evs 6 (SE.clsSc [65] [([32], [32], [66])]) (SE.clsB [32]) key
    (by simp [SE.clsSc, SE.clsAlts]) (by decide +kernel)
example (evs : List SchemaScan.Ev) (key : AstText.Bytes × Bool) :=
  C16_shortcut_leaf_type #[32, 64, 67] evs 1 (SE.clsSc [67] []) (SE.clsB []) key rfl (by decide +kernel)

end Props.C16

namespace Props.C16

/-! ### shortcut leaves without the hypothesis `hp`; the AST of the class on TOKENS (work package c16hp)

`C16_shortcut_leaf_type` / `_or` describe the node of a shortcut leaf by slices of the text and keep a hypothesis `hp`
about `|` in the trimmed value slice.  For a shortcut `@first (s1 | s2 @name)* sps` of the grammar that stands in the text at
offset `o` (`Lay.AtB`), `hp` is a theorem (`C16_shortcut_leaf_slices`): both trimmed slices are the shortcut as written.
Stage 2 (`C16_shortcut_tree_ast`): the AST of a text of the class is `AstText.S2.astS` of its TREE — a structural function on
tokens (names as byte lists, no offsets). -/

/-- **the two lexemes of a shortcut leaf, trimmed**: `TrimSpaces` of the `mixed-value-end` slice (one trailing space less)
equals `TrimSpaces` of the `types-shortcut-end` slice; both are the shortcut as written without the blanks behind it; and
the `|` test on it (the hypothesis `hp` of `C16_shortcut_leaf_type` / `_or`) says whether there are alternatives -/
theorem C16_shortcut_leaf_slices (src : Array UInt8) (o : Nat) (f : SE.Bytes) (as : List SE.Alt) (sps : SE.Bytes)
    (hv : (SE.clsSc f as).Valid) (hs : SchemaScan.Len.IsSpTabs (SE.clsB sps))
    (hat : Lay.AtB src o (SE.scBytes f as ++ sps)) :
    Loader.trimSpaces (Loader.slice src o (AstText.S.mixEnd o (SE.clsSc f as) (SE.clsB sps)))
        = Loader.trimSpaces (Loader.slice src o (AstText.S.tsEnd o (SE.clsSc f as) (SE.clsB sps))) ∧
      Loader.trimSpaces (Loader.slice src o (AstText.S.mixEnd o (SE.clsSc f as) (SE.clsB sps))) = SE.scBytes f as ∧
      AstText.hasPipe (Loader.trimSpaces (Loader.slice src o (AstText.S.mixEnd o (SE.clsSc f as) (SE.clsB sps))))
        = !as.isEmpty :=
  ⟨AstText.S2.trim_mix_eq_trim_ts src o f as sps hv hs hat, AstText.S2.trim_mix src o f as sps hv hs hat,
    AstText.S2.hasPipe_mix src o f as sps hv hs hat⟩

/-- the items of the synthesised `or` rule are the names as written (`@first`, then each `@name`), in written order -/
theorem C16_shortcut_or_items (f : SE.Bytes) (as : List SE.Alt) (sps : SE.Bytes) (hv : (SE.clsSc f as).Valid)
    (hs : SchemaScan.Len.IsSpTabs (SE.clsB sps)) :
    AstText.splitPipe (SE.scBytes f as ++ sps) = (64 :: f) :: AstText.S2.altNames as :=
  AstText.S2.splitPipe_sc f as sps hv hs

/-- a shortcut leaf of the text by offsets, no hypothesis about `|`: the node on tokens (`AstText.S2.shortLeaf`) -/
theorem C16_shortcut_leaf_at_offset (src : Array UInt8) (evs : List SchemaScan.Ev) (o : Nat) (f : SE.Bytes)
    (as : List SE.Alt) (sps : SE.Bytes) (key : AstText.Bytes × Bool) (hv : (SE.clsSc f as).Valid)
    (hs : SchemaScan.Len.IsSpTabs (SE.clsB sps)) (hat : Lay.AtB src o (SE.scBytes f as ++ sps)) :
    AstText.S.astOff src evs o (.short (SE.clsSc f as) (SE.clsB sps)) key = .ok (AstText.S2.shortLeaf key f as) :=
  AstText.S2.astOff_short_leaf src evs o f as sps key hv hs hat

/-- **a leaf `@A` at ANY position of a text of the class**: `p` is the path of the leaf (child indices from the root),
`key` the key of that position (`AstText.S2.valueAt`: the decoded member key; none for the root and for items).  The AST
of the text has at `p` the node: TokenType `reference`, SchemaType and Value the name `@A`, the only rule `type` with the
name, marked generated.  No hypothesis about `|`. -/
theorem C16_shortcut_leaf_type_text (w0 : SE.Bytes) (t : SE.BST) (w1 : SE.Bytes) (h : SE.TextOK w0 t w1)
    (p : List Nat) (key : AstText.Bytes × Bool) (f sps : SE.Bytes)
    (hl : AstText.S2.valueAt (([], false), t) p = some (key, .short f [] sps)) :
    ∃ root, AstText.astOfText (SE.docText w0 t w1) = .ok root ∧
      AstText.S2.nodeAt root p = some (.mk key.1 key.2 "reference" (64 :: f) (64 :: f) []
        [(AstText.sb "type", AstText.leaf "reference" (64 :: f) .generated)] []) :=
  AstText.S2.leaf_at w0 t w1 h p key f [] sps hl

/-- **a leaf `@A | @B …` at ANY position of a text of the class**: TokenType `reference`, SchemaType `mixed`, Value the
shortcut as written (without the blanks behind it), the only rule `or` — one `string` item per name, in written order —
marked generated throughout.  No hypothesis about `|`. -/
theorem C16_shortcut_leaf_or_text (w0 : SE.Bytes) (t : SE.BST) (w1 : SE.Bytes) (h : SE.TextOK w0 t w1)
    (p : List Nat) (key : AstText.Bytes × Bool) (f : SE.Bytes) (a : SE.Alt) (r : List SE.Alt) (sps : SE.Bytes)
    (hl : AstText.S2.valueAt (([], false), t) p = some (key, .short f (a :: r) sps)) :
    ∃ root, AstText.astOfText (SE.docText w0 t w1) = .ok root ∧
      AstText.S2.nodeAt root p = some (.mk key.1 key.2 "reference" (AstText.sb "mixed") (SE.scBytes f (a :: r)) []
        [(AstText.sb "or", .mk "array" [] [] .generated []
          (((64 :: f) :: AstText.S2.altNames (a :: r)).map fun nm => AstText.leaf "string" nm .generated))] []) :=
  AstText.S2.leaf_at w0 t w1 h p key f (a :: r) sps hl

/-- **C16 at text level for shortcut values, stage 2 (on tokens)**: `astOfText` of every text of the class is
`AstText.S2.astS` of the TREE alone — `object` / `array` nodes with their children in written order and the decoded keys,
scalar leaves (token kind, unquoted value, schema type = JSON kind), shortcut leaves `AstText.S2.shortLeaf` (names as byte
lists in written order, rules `type` / `or` marked generated) -/
theorem C16_shortcut_tree_ast (w0 : SE.Bytes) (t : SE.BST) (w1 : SE.Bytes) (h : SE.TextOK w0 t w1) :
    AstText.astOfText (SE.docText w0 t w1) = AstText.S2.astS t ([], false) :=
  AstText.S2.ast_of_stree w0 t w1 h

/-- and that AST is not an error -/
theorem C16_shortcut_tree_ast_ok (w0 : SE.Bytes) (t : SE.BST) (w1 : SE.Bytes) (h : SE.TextOK w0 t w1) :
    ∃ root, AstText.astOfText (SE.docText w0 t w1) = .ok root := by
  obtain ⟨root, hr⟩ := AstText.S2.astS_ok t h.side ([], false)
  exact ⟨root, by rw [AstText.S2.ast_of_stree w0 t w1 h, hr]⟩

/-- two layouts (blanks, line breaks, blanks inside and behind the shortcuts that leave the tree AST unchanged) of one
tree give the same AST -/
theorem C16_shortcut_ast_ignores_layout (w0 w0' : SE.Bytes) (t t' : SE.BST) (w1 w1' : SE.Bytes)
    (h : SE.TextOK w0 t w1) (h' : SE.TextOK w0' t' w1')
    (hs : AstText.S2.astS t ([], false) = AstText.S2.astS t' ([], false)) :
    AstText.astOfText (SE.docText w0 t w1) = AstText.astOfText (SE.docText w0' t' w1') := by
  rw [AstText.S2.ast_of_stree w0 t w1 h, AstText.S2.ast_of_stree w0' t' w1' h', hs]

/-! Non-vacuity: root `{"a": @A | @B ,⏎ "b": [@C⏎], "c": 1}` (`SE.Ex.root`, `SE.Ex.root_ok`) -/
example := C16_shortcut_tree_ast [] SE.Ex.root [] SE.Ex.root_ok
/-- the leaf `@A | @B ` is the member `a` (path `[0]`), the leaf `@C` the only item of the member `b` (path `[1, 0]`) -/
example := C16_shortcut_leaf_or_text [] SE.Ex.root [] SE.Ex.root_ok [0] ([97], false) [65] ([32], [32], [66]) [] [32]
  (by rfl)
example := C16_shortcut_leaf_type_text [] SE.Ex.root [] SE.Ex.root_ok [1, 0] ([], false) [67] [] (by rfl)
/-- the shortcut `@A | @B ` at offset 6 of the root text: both trimmed lexemes are `@A | @B` -/
example := C16_shortcut_leaf_slices (SE.docText [] SE.Ex.root []).toArray 6 [65] [([32], [32], [66])] [32]
  (by simpa [SE.Ex.sAB, SE.BST.cls, SchemaScan.STree.Valid] using SE.Ex.sAB_valid.1)
  (by simpa [SE.Ex.sAB, SE.BST.cls, SchemaScan.STree.Valid] using SE.Ex.sAB_valid.2)
  (by refine ⟨?_, ?_, ?_, ?_, ?_, ?_, ?_, ?_, trivial⟩ <;> decide +kernel)
/-- the tree AST of the root, spelled out: an object; `a` — reference / mixed / `@A | @B` with the generated `or` rule whose
generated string items are `@A`, `@B`; `b` — an array with the reference `@C` (generated `type` rule `@C`); `c` — the number
`1` of schema type `integer` -/
example : (match AstText.S2.astS SE.Ex.root ([], false) with
    | .ok (.mk _ _ tok _ _ _ _
        [.mk ka _ ta sa va _ [(ra, .mk rt _ _ rs _ [.mk i1t i1 _ i1s _ _, .mk _ i2 _ i2s _ _])] [],
         .mk kb _ tb _ _ _ _ [.mk _ _ tc sc vc _ [(rc, .mk rct rcv _ rcs _ _)] []],
         .mk kc _ t1 s1 v1 _ [] []]) =>
      tok == "object" && ka == [97] && ta == "reference" && sa == AstText.sb "mixed"
        && va == [64, 65, 32, 124, 32, 64, 66] && ra == AstText.sb "or" && rt == "array" && rs == .generated
        && i1t == "string" && i1 == [64, 65] && i1s == .generated && i2 == [64, 66] && i2s == .generated
        && kb == [98] && tb == "array" && tc == "reference" && sc == [64, 67] && vc == [64, 67]
        && rc == AstText.sb "type" && rct == "reference" && rcv == [64, 67] && rcs == .generated
        && kc == [99] && t1 == "number" && s1 == AstText.sb "integer" && v1 == [49]
    | _ => false) = true := by decide +kernel

/-- the names of `@A | @B ` -/
example : AstText.splitPipe (SE.scBytes [65] [([32], [32], [66])] ++ [32]) = [[64, 65], [64, 66]] :=
  C16_shortcut_or_items [65] [([32], [32], [66])] [32]
    (by simpa [SE.Ex.sAB, SE.BST.cls, SchemaScan.STree.Valid] using SE.Ex.sAB_valid.1)
    (by simpa [SE.Ex.sAB, SE.BST.cls, SchemaScan.STree.Valid] using SE.Ex.sAB_valid.2)
/-- the leaf `@A | @B ` at offset 6 of the root text, by offsets, without `hp` -/
example (evs : List SchemaScan.Ev) (key : AstText.Bytes × Bool) :=
  C16_shortcut_leaf_at_offset (SE.docText [] SE.Ex.root []).toArray evs 6 [65] [([32], [32], [66])] [32] key
    (by simpa [SE.Ex.sAB, SE.BST.cls, SchemaScan.STree.Valid] using SE.Ex.sAB_valid.1)
    (by simpa [SE.Ex.sAB, SE.BST.cls, SchemaScan.STree.Valid] using SE.Ex.sAB_valid.2)
    (by refine ⟨?_, ?_, ?_, ?_, ?_, ?_, ?_, ?_, trivial⟩ <;> decide +kernel)
example := C16_shortcut_tree_ast_ok [] SE.Ex.root [] SE.Ex.root_ok

/-- a second layout of the root text `@C`: ` @C ⇥⏎` (a space in front, a space and a TAB behind the name, a line break) -/
theorem sC'_ok : SE.TextOK [32] (.short [67] [] [32, 9]) [10] :=
  SE.TextOK.of_guessable _ _ _ (SE.Ex.ws_ok _ rfl) (SE.Ex.ws_ok _ rfl)
    (by
      simp only [SE.BST.cls, SchemaScan.STree.Valid, SE.clsSc, SE.clsAlts, SE.clsB, SchemaScan.Len.Shortcut.Valid,
        SchemaScan.Len.ValidAlts, SchemaScan.Len.IsTypeName, SchemaScan.Len.IsSpTabs]
      decide)
    (fun _ => Or.inr ⟨[], rfl⟩) rfl trivial

theorem sC_ok : SE.TextOK [] SE.Ex.sC [] :=
  SE.TextOK.of_guessable _ _ _ (SE.Ex.ws_ok _ rfl) (SE.Ex.ws_ok _ rfl) SE.Ex.sC_valid (fun _ => Or.inl rfl) rfl trivial

example : AstText.astOfText (SE.docText [] SE.Ex.sC []) = AstText.astOfText (SE.docText [32] (.short [67] [] [32, 9]) [10]) :=
  C16_shortcut_ast_ignores_layout [] [32] SE.Ex.sC (.short [67] [] [32, 9]) [] [10] sC_ok sC'_ok rfl
/-- a ROOT shortcut is the path `[]` -/
example := C16_shortcut_leaf_type_text [32] (.short [67] [] [32, 9]) [10] sC'_ok [] ([], false) [67] [32, 9] rfl

end Props.C16
