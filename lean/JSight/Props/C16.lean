import JSight.Ast
import JSight.LoaderProofs
import JSight.LoaderTreeMirrors
import JSight.LoaderTreeDup
/-!
# C16 — GetAST mirrors the schema text: the decision logic that is a theorem

* `C16_type_precedence`: the schema type shown for a node is decided by `enum`, then `or`, then an
  explicit `type` rule, then `precision` (decimal), then the JSON kind of the example.
* `C16_rules_order`: the AST lists the rules in the order of the constraint map (insertion order = the
  order written, C19), with `or` in place and the synthetic `types` entry hidden.
* `C16_text_mirrors_tree`: text → node tree for schemas that are plain JSON (no annotations): scanner model +
  loader model (`loadText`, tied by `loader-diff` against the real `GetAST`) build exactly one node per value
  of the text, numbered in source order (`nodesOf`): kind of the value, parent, children in source order,
  object keys in source order with the key tokens' spans, literal values with the literal tokens' spans, no
  rules, no comment — for every value tree, any depth / width / layout incl. line breaks, provided the keys of
  each object are pairwise distinct after decoding. `C16_text_duplicate_key`: otherwise error 402 at the first
  key (in source order) that repeats an earlier key of its object. `C16_text_total`: one of the two.
With annotations, the whole `GetAST()` output is compared with the AST computed from the generator's abstract
schema (harness `c16-ast`) and with the loader model (`loader-diff`).
-/
namespace Props.C16
open Ast OMap

theorem C16_enum_first (cs : List CK) (k : String) (h : .enum ∈ cs) : schemaType cs k = "enum" := by
  simp [schemaType, h]

theorem C16_or_second (cs : List CK) (k : String) (h1 : .enum ∉ cs) (h2 : .or ∈ cs) : schemaType cs k = "mixed" := by
  simp [schemaType, h1, h2]

theorem C16_type_third (cs : List CK) (k n : String) (h1 : .enum ∉ cs) (h2 : .or ∉ cs)
    (h3 : cs.find? CK.isType = some (.type n)) : schemaType cs k = n := by
  simp [schemaType, h1, h2, h3]

theorem C16_precision_fourth (cs : List CK) (k : String) (h1 : .enum ∉ cs) (h2 : .or ∉ cs)
    (h3 : cs.find? CK.isType = none) (h4 : .precision ∈ cs) :
    schemaType cs k = "decimal" := by
  simp [schemaType, h1, h2, h3, h4]

theorem C16_kind_last (cs : List CK) (k : String) (h1 : .enum ∉ cs) (h2 : .or ∉ cs)
    (h3 : cs.find? CK.isType = none) (h4 : .precision ∉ cs) :
    schemaType cs k = k := by
  simp [schemaType, h1, h2, h3, h4]

/-- names of the collected rules: the constraint names in map order, `types` hidden -/
theorem collect_names_aux (cs : List CK) (acc : Ref String CK)
    (hn : ((acc.map (·.1)) ++ ((cs.filter (· ≠ .typesList)).map CK.name)).Nodup) :
    (cs.foldl addRule acc).map (·.1) = acc.map (·.1) ++ (cs.filter (· ≠ .typesList)).map CK.name := by
  induction cs generalizing acc with
  | nil => simp
  | cons c cs ih =>
    have key : ∀ (nm : String) (v : CK), nm ∉ acc.map (·.1) → (Ref.set acc nm v).map (·.1) = acc.map (·.1) ++ [nm] := by
      intro nm v hnm
      have : Ref.has acc nm = false := by
        simp only [Ref.has, Bool.eq_false_iff, ne_eq, List.any_eq_true, not_exists, not_and]
        intro e he heq
        exact hnm (List.mem_map.2 ⟨e, he, by simpa using heq⟩)
      simp [Ref.set, this]
    by_cases hc : c = .typesList
    · subst hc
      simp only [List.foldl_cons]
      have : (CK.typesList :: cs).filter (· ≠ .typesList) = cs.filter (· ≠ .typesList) := by simp
      rw [this] at hn ⊢
      exact ih acc hn
    · have hf : (c :: cs).filter (· ≠ .typesList) = c :: cs.filter (· ≠ .typesList) := by simp [hc]
      rw [hf] at hn ⊢
      simp only [List.map_cons] at hn ⊢
      have hnm : c.name ∉ acc.map (·.1) := by
        intro hmem
        have := List.nodup_append.1 hn
        exact this.2.2 _ hmem _ (List.mem_cons_self) rfl
      have step : (addRule acc c).map (·.1) = acc.map (·.1) ++ [c.name] := by
        cases c with
        | typesList => exact absurd rfl hc
        | or => exact key "or" _ hnm
        | enum => exact key _ _ hnm
        | type n => exact key _ _ hnm
        | precision => exact key _ _ hnm
        | other n => exact key _ _ hnm
      simp only [List.foldl_cons]
      rw [ih _ (by rw [step]; simpa [List.append_assoc] using hn), step]
      simp [List.append_assoc]

theorem C16_rules_order (cs : List CK) (hn : ((cs.filter (· ≠ .typesList)).map CK.name).Nodup) :
    (collectRules cs).map (·.1) = (cs.filter (· ≠ .typesList)).map CK.name := by
  have := collect_names_aux cs [] (by simpa using hn)
  simpa [collectRules] using this

/-- loader model (text → node tree, compared with the real `GetAST()` by `loader-diff`): an annotation is bound
to the node created last, together with the number of nodes created on its line -/
theorem C16_annotation_binds_last_node (src : Array UInt8) (st : Loader.St) (e : SchemaScan.Ev) (hm : st.mode = .default)
    (he : e.ty = .inlAnnB ∨ e.ty = .mlAnnB) :
    ∃ st', Loader.step src st e = .ok st' ∧ st'.rsNode = st.last ∧ st'.rsCount = st.perLine ∧ st'.nodes = st.nodes :=
  Loader.annotation_binds_last_node src st e hm he

/-- and its rules are accepted only when exactly one node was created on that line (errors 803 / 804) -/
theorem C16_rule_needs_exactly_one_node (src : Array UInt8) (st : Loader.St) (e : SchemaScan.Ev) (hrs : st.rs = .value) :
    (st.rsCount = 0 → Loader.ruleLoad src st e = .error (.ruleWithoutExample e.b)) ∧
    (st.rsCount ≥ 2 → Loader.ruleLoad src st e = .error (.ruleForSeveralNode e.b)) :=
  Loader.rule_needs_exactly_one_node src st e hrs

/-! Non-vacuity -/
example : schemaType [.other "min", .type "decimal", .precision] "float" = "decimal" := by decide
example : schemaType [.other "min", .or, .typesList, .type "mixed"] "integer" = "mixed" := by decide
example : (collectRules [.other "min", .or, .typesList, .other "nullable"]).map (·.1) = ["min", "or", "nullable"] := by decide

/-! ### text → node tree for plain-JSON schemas -/
open SchemaScan in
theorem C16_text_mirrors_tree (v : Tree) (hv : v.Valid) (ws0 ws1 : List Cls)
    (h0 : SchemaScan.IsWs ws0) (h1 : SchemaScan.IsWs ws1)
    (bs : List UInt8) (hbs : bs.map SchemaScan.classify = ws0 ++ (v.render ++ ws1))
    (hd : Loader.KeysDistinct bs.toArray ws0.length v) :
    ∃ st, Loader.loadText bs = .ok st ∧ st.root = some 0 ∧ st.nodes.toList = Loader.nodesOf none 0 ws0.length v :=
  Loader.C16_loadText_mirrors_tree v hv ws0 ws1 h0 h1 bs hbs hd

open SchemaScan in
theorem C16_text_duplicate_key (v : Tree) (hv : v.Valid) (ws0 ws1 : List Cls)
    (h0 : SchemaScan.IsWs ws0) (h1 : SchemaScan.IsWs ws1)
    (bs : List UInt8) (hbs : bs.map SchemaScan.classify = ws0 ++ (v.render ++ ws1)) (p : Nat)
    (hd : Loader.DupAt bs.toArray p ws0.length v) :
    Loader.loadText bs = .error (Loader.showLErr (.duplicateKey p)) :=
  Loader.C16_loadText_duplicate_key v hv ws0 ws1 h0 h1 bs hbs p hd

/-- every plain-JSON text either loads into the mirror of its tree or has a duplicate key -/
theorem C16_text_total (src : Array UInt8) (v : SchemaScan.Tree) (o : Nat) :
    Loader.KeysDistinct src o v ∨ ∃ p, Loader.DupAt src p o v := Loader.keys_dichotomy src v o

end Props.C16
