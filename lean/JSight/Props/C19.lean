import JSight.OMapOpsProofs
import JSight.PinnedOMap
/-!
# C19 — Ordered maps behave as insertion-ordered maps under any operation sequence

Model `OMap.M`: the generated container as coded (a Go map = finite partial function + its
cardinality, the `order` slice as a list; `delete`, `Filter` with the fix F-1; `Update`, `Map`, `Find`,
`Each`, `Get`, `Has`, `Len`). Spec `OMap.Ref`: an insertion-ordered association list.
The theorems quantify over *all* operation sequences of any length, arbitrary key and value types and
arbitrary predicates / update / map functions.
-/
namespace Props.C19
open OMap
variable {κ ν : Type} [DecidableEq κ]

/-- refinement: after any operation sequence from the empty map the invariant holds, the iteration
state equals the reference list, and every observation (Filter / Map / Each visit traces, Find, Get,
Has, Len) equals the reference's -/
theorem C19_refines (ops : List (Op κ ν)) :
    WF ((M.empty : M κ ν).run ops).1 ∧
    ((M.empty : M κ ν).run ops).1.entries = (Ref.run ([] : Ref κ ν) ops).1 ∧
    ((M.empty : M κ ν).run ops).2 = (Ref.run ([] : Ref κ ν) ops).2 := by
  have := run_refines ops (M.empty : M κ ν) wf_empty
  simpa [M.entries, M.empty] using this

/-- `Len` equals the number of iterated keys -/
theorem C19_len (m : M κ ν) (h : WF m) : m.len = m.entries.length := len_eq m h

/-- deleting an absent key changes nothing -/
theorem C19_delete_absent (m : M κ ν) (h : WF m) (k : κ) (hk : m.has k = false) :
    (m.delete k).entries = m.entries ∧ (m.delete k).len = m.len := delete_absent m h k hk

/-- `Filter` visits every entry exactly once, in order, and keeps exactly the entries satisfying the predicate -/
theorem C19_filter (m : M κ ν) (h : WF m) (p : κ → ν → Bool) :
    WF (m.filter p).1 ∧ (m.filter p).1.entries = Ref.filter m.entries p ∧ (m.filter p).2 = m.order :=
  filter_refines m h p

/-- on the pinned (pre-fix) `delete` the property is false: `Set a; Set b; Set c; Delete z` -/
theorem C19_pinned_false : PinnedOMap.witness_len ≠ PinnedOMap.witness_iterated := by decide

/-! Non-vacuity: a concrete history -/
example : ((M.empty : M Nat Nat).run [.set 0 5, .set 1 6, .set 0 7, .delete 2, .delete 0, .set 0 1, .len]).1.entries
    = [(1, 6), (0, 1)] := by decide +kernel

end Props.C19
