import JSight.Sim
import JSight.SimTrailing
import JSight.RfcGrammar
import JSight.RfcGrammarConv
import JSight.JsonBridge
/-!
# C05 — A document is accepted iff it is one RFC 8259 JSON text

Model: `JsonScan.check` (`formats/json/scanner.go` + `Document.Check`), on bytes.
Spec: `Rfc.accepts` — an independently structured recogniser for the RFC 8259 grammar
(lexical state + stack of open containers), and `Sim.runP` — "run the recogniser until it
cannot continue, accept iff a complete top-level value has been read" for the trailing mode.
Both theorems hold for every byte string, of any length and nesting depth.
`C05_grammar_accepted`: the recogniser (hence the scanner model) accepts every text the RFC 8259 grammar
generates — value trees of grammar tokens with layout wherever the grammar allows `ws` (`RfcG.GValid`).
`C05_check_iff_grammar`: and conversely every accepted text is such a text — `Document.Check() == nil` iff the
bytes are `ws value ws` of the RFC 8259 grammar (`RfcG.accepts_iff_grammar`), so the recogniser is no longer a
trusted reading of the RFC: the grammar (`RfcG.GTok`, `RfcG.GValid`, `TreeEvents.StrBody`, `NumTok.WF`) is.
`Rfc.accepts` is in addition validated against `encoding/json.Valid` bounded-exhaustively (`json-exh`).
-/
namespace Props.C05
open JsonScan

/-- strict mode: `Document.Check() == nil` iff the bytes are exactly one JSON text -/
theorem C05_check_iff_rfc (bs : List UInt8) : check false bs = Rfc.accepts bs :=
  Sim.C05_check_iff_rfc bs

/-- `AllowTrailingNonSpaceCharacters`: accepted iff the text begins with one complete JSON value,
numbers taken maximally, whatever follows -/
theorem C05_trailing (bs : List UInt8) : check true bs = Sim.runP Rfc.RCfg.init (bs.map classify) :=
  Sim.C05_trailing bs

/-- every RFC 8259 text is accepted: bytes whose classes are the rendering of a grammar tree, with optional
leading and trailing white space -/
theorem C05_grammar_accepted (bs : List UInt8) (v : JA) (hv : RfcG.GValid v) (ws0 ws1 : List Cls)
    (h0 : IsWs ws0) (h1 : IsWs ws1) (hbs : bs.map classify = ws0 ++ (v.render ++ ws1)) : check false bs = true := by
  rw [C05_check_iff_rfc]
  unfold Rfc.accepts
  rw [hbs]
  exact RfcG.grammar_accepted v hv ws0 ws1 h0 h1

/-- **C05 against the grammar itself**: strict `Check` accepts exactly the byte strings whose classes are
`ws value ws` for a value tree of the RFC 8259 grammar — both directions, any length and depth -/
theorem C05_check_iff_grammar (bs : List UInt8) :
    check false bs = true ↔
      ∃ (v : JA) (ws0 ws1 : List Cls), RfcG.GValid v ∧ IsWs ws0 ∧ IsWs ws1 ∧ bs.map classify = ws0 ++ (v.render ++ ws1) := by
  rw [C05_check_iff_rfc]
  exact RfcG.accepts_bytes_iff_grammar bs

/-- the span-carrying machine (`Next()` with positions, `Document.Check` as "some lexeme was delivered", used for
C06 / C14 / C17) accepts exactly what the span-free machine accepts, in both modes: the two models of the one Go
scanner cannot drift apart -/
theorem C05_machines_agree (allow : Bool) (bs : List UInt8) : (checkS allow bs).isOk = check allow bs :=
  checkS_iff_check allow bs

/-- hence `Document.Check` as modelled with positions is the RFC recogniser too -/
theorem C05_checkS_iff_rfc (bs : List UInt8) : (checkS false bs).isOk = Rfc.accepts bs := by
  rw [C05_machines_agree, C05_check_iff_rfc]

/-! Non-vacuity / sanity: the spec accepts and rejects what the property names. -/
def s (x : String) : List UInt8 := x.toList.map (fun c => UInt8.ofNat c.toNat)   -- ASCII literals

-- ` [true ]` is the rendering of a grammar tree
example : check false (s " [true ]") = true :=
  C05_grammar_accepted _ (.arr [] [([], .scalar [.lt, .lr, .lu, .le], [.sp])])
    (by simp [RfcG.GValid, RfcG.GItems, IsWs, Cls.isWs]; exact RfcG.GTok.wtrue) [.sp] [] (by simp [IsWs, Cls.isWs]) (by simp [IsWs]) (by decide)

example : Rfc.accepts (s " {\"a\": [1, 2.5e-3, \"x\\n\"], \"b\": null}\n") = true := by decide
example : Rfc.accepts (s "1.") = false := by decide
example : Rfc.accepts (s "1e") = false := by decide
example : Rfc.accepts (s "01") = false := by decide
example : Rfc.accepts (s "") = false := by decide
example : Rfc.accepts (s "{} x") = false := by decide
example : Rfc.accepts (s "\"\\x\"") = false := by decide
example : Sim.runP Rfc.RCfg.init ((s "{} x").map classify) = true := by decide
example : Sim.runP Rfc.RCfg.init ((s "1.x").map classify) = false := by decide
example : Sim.runP Rfc.RCfg.init ((s "12 3").map classify) = true := by decide
example : check false (s "[1.]") = false := by decide

end Props.C05
