import JSight.Sim
import JSight.SimTrailing
import JSight.RfcGrammar
/-!
# C05 — A document is accepted iff it is one RFC 8259 JSON text

Model: `JsonScan.check` (`formats/json/scanner.go` + `Document.Check`), on bytes.
Spec: `Rfc.accepts` — an independently structured recogniser for the RFC 8259 grammar
(lexical state + stack of open containers), and `Sim.runP` — "run the recogniser until it
cannot continue, accept iff a complete top-level value has been read" for the trailing mode.
Both theorems hold for every byte string, of any length and nesting depth.
`C05_grammar_accepted`: the recogniser (hence the scanner model) accepts every text the RFC 8259 grammar
generates — value trees of grammar tokens with layout wherever the grammar allows `ws` (`RfcG.GValid`).
The converse against the grammar (accepted ⟹ derivable) is not proved; `Rfc.accepts` is validated against
`encoding/json.Valid` bounded-exhaustively by the harness (`json-exh`).
-/
namespace Props.C05
open JsonScan

/-- strict mode: `Document.Check() == nil` iff the bytes are exactly one JSON text -/
theorem C05_check_iff_rfc (bs : List UInt8) : check false bs = Rfc.accepts bs :=
  Sim.C05_check_iff_rfc bs

/-- `AllowTrailingNonSpaceCharacters`: accepted iff the text begins with one complete JSON value,
numbers taken maximally, whatever follows -/
theorem C05_trailing (bs : List UInt8) : check true bs = Sim.runP Rfc.RCfg.init (bs.map classify) :=
  Sim.C05_trailing bs

/-- every RFC 8259 text is accepted: bytes whose classes are the rendering of a grammar tree, with optional
leading and trailing white space -/
theorem C05_grammar_accepted (bs : List UInt8) (v : JA) (hv : RfcG.GValid v) (ws0 ws1 : List Cls)
    (h0 : IsWs ws0) (h1 : IsWs ws1) (hbs : bs.map classify = ws0 ++ (v.render ++ ws1)) : check false bs = true := by
  rw [C05_check_iff_rfc]
  unfold Rfc.accepts
  rw [hbs]
  exact RfcG.grammar_accepted v hv ws0 ws1 h0 h1

/-! Non-vacuity / sanity: the spec accepts and rejects what the property names. -/
def s (x : String) : List UInt8 := x.toList.map (fun c => UInt8.ofNat c.toNat)   -- ASCII literals

-- ` [true ]` is the rendering of a grammar tree
example : check false (s " [true ]") = true :=
  C05_grammar_accepted _ (.arr [] [([], .scalar [.lt, .lr, .lu, .le], [.sp])])
    (by simp [RfcG.GValid, RfcG.GItems, IsWs, Cls.isWs]; exact RfcG.GTok.wtrue) [.sp] [] (by simp [IsWs, Cls.isWs]) (by simp [IsWs]) (by decide)

example : Rfc.accepts (s " {\"a\": [1, 2.5e-3, \"x\\n\"], \"b\": null}\n") = true := by decide
example : Rfc.accepts (s "1.") = false := by decide
example : Rfc.accepts (s "1e") = false := by decide
example : Rfc.accepts (s "01") = false := by decide
example : Rfc.accepts (s "") = false := by decide
example : Rfc.accepts (s "{} x") = false := by decide
example : Rfc.accepts (s "\"\\x\"") = false := by decide
example : Sim.runP Rfc.RCfg.init ((s "{} x").map classify) = true := by decide
example : Sim.runP Rfc.RCfg.init ((s "1.x").map classify) = false := by decide
example : Sim.runP Rfc.RCfg.init ((s "12 3").map classify) = true := by decide
example : check false (s "[1.]") = false := by decide

end Props.C05
