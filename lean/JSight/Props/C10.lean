import JSight.NumberDen
import JSight.NumberTotal
/-!
# C10 — Numeric rules use exact decimal arithmetic on every JSON numeral

Model: `Num.scan` (`internal/json/scanner.go` + `NewNumber`: numeral → sign, digit string, fractional
length, exponent folded in, zeros trimmed; F-3: zero has no sign), `N.cmp` (`Number.Cmp`, digit-wise).
Spec: `Num.den` — the *positional denotation* of the numeral text (sign, mantissa digits, how many
follow the point, signed exponent digits; it validates nothing, so it shares no logic with the
scanner); the denoted value is `mant · 10^(-t)`; `cmpDen` compares two denotations by integer
cross-scaling. Unbounded digits and exponents, every sign, every spelling of zero.
-/
namespace Props.C10
open Num

def s' (x : String) : List UInt8 := x.toList.map (fun c => UInt8.ofNat c.toNat)

/-- bytes → the scanner's character classes -/
def ofBytes (bs : List UInt8) : List Ch := bs.map fun c =>
  if c == 45 then .minus else if c == 43 then .plus else if c == 46 then .dot
  else if c == 101 || c == 69 then .e
  else if 48 ≤ c && c ≤ 57 then .d (c.toNat - 48) else .other

theorem ofBytes_valid (bs : List UInt8) : ∀ c ∈ ofBytes bs, ValidCh c := by
  intro c hc
  simp only [ofBytes, List.mem_map] at hc
  obtain ⟨b, _, rfl⟩ := hc
  repeat' split
  all_goals first | trivial | skip
  rename_i h
  simp only [Bool.and_eq_true, decide_eq_true_eq] at h
  show b.toNat - 48 < 10
  have : b.toNat ≤ 57 := by simpa using (UInt8.le_iff_toNat_le.1 h.2)
  omega

/-- the normal form denotes the value of the text -/
theorem C10_scan_spec (bs : List UInt8) (n : N) (h : scan (ofBytes bs) = some n) :
    WFN n ∧ n.mant * 10 ^ (den (ofBytes bs)).t.toNat
              = (den (ofBytes bs)).mant * 10 ^ (-(den (ofBytes bs)).t).toNat * 10 ^ n.exp ∧
    (0 < n.exp → ∀ d, n.nat.getLast? = some d → d ≠ 0) :=
  scan_spec _ (ofBytes_valid bs) n h

/-- `Cmp` is the exact comparison of the two denoted values: min / max / exclusive bounds depend on
the mathematical value only -/
theorem C10_cmp_exact (a b : List UInt8) (na nb : N)
    (sa : scan (ofBytes a) = some na) (sb : scan (ofBytes b) = some nb) :
    na.cmp nb = cmpDen (den (ofBytes a)) (den (ofBytes b)) :=
  Num.C10_cmp_exact _ _ (ofBytes_valid a) (ofBytes_valid b) na nb sa sb

/-- `LengthOfFractionalPart ≤ p` iff the value times `10^p` is an integer (the `precision` rule; also
"counts as integer" for p = 0) -/
theorem C10_fracLen (bs : List UInt8) (n : N) (h : scan (ofBytes bs) = some n) (p : Nat) :
    n.exp ≤ p ↔ ∃ z : Int, n.mant * 10 ^ p = z * 10 ^ n.exp :=
  Num.C10_fracLen _ (ofBytes_valid bs) n h p

/-- comparison of normal forms is comparison of values -/
theorem C10_cmp_normal_forms (a b : N) (ha : WFN a) (hb : WFN b) : a.cmp b = cmpVal a b := cmp_correct a b ha hb

/-! ### every RFC 8259 numeral is in the domain of these theorems -/

/-- the text of a numeral character (`e` in lower case; `ofBytes` maps 'E' to the same class) -/
def chByte : Ch → UInt8
  | .minus => 45 | .plus => 43 | .dot => 46 | .e => 101 | .d n => UInt8.ofNat (48 + n) | .other => 0

theorem ofBytes_chByte (cs : List Ch) (h : ∀ c ∈ cs, ValidCh c ∧ c ≠ .other) : ofBytes (cs.map chByte) = cs := by
  induction cs with
  | nil => rfl
  | cons c cs ih =>
    have hc := h c (by simp)
    have := ih (fun c' hc' => h c' (by simp [hc']))
    simp only [ofBytes, List.map_cons, List.map_map] at this ⊢
    rw [this]
    congr 1
    cases c with
    | minus => rfl
    | plus => rfl
    | dot => rfl
    | e => rfl
    | other => exact absurd rfl hc.2
    | d n =>
      have hn : n < 10 := hc.1
      have : ∀ n < 10, (fun c : UInt8 => if c == 45 then Ch.minus else if c == 43 then .plus else if c == 46 then .dot
          else if c == 101 || c == 69 then .e else if 48 ≤ c && c ≤ 57 then .d (c.toNat - 48) else .other)
          (chByte (.d n)) = .d n := by decide
      exact this n hn

/-- all digits of the numeral are decimal digits -/
def digitsOK (t : Numeral) : Prop := ∀ c ∈ t.render, ValidCh c ∧ c ≠ .other

/-- **totality**: the bytes of every RFC 8259 numeral — optional minus, integer part without leading zeros,
optional fraction, optional exponent with optional sign, any number of digits anywhere — are recognised,
except integer part `0` directly followed by an exponent (K-C10-zeroexp). So `C10_scan_spec`,
`C10_cmp_exact` and `C10_fracLen` apply to every numeral the property quantifies over. -/
theorem C10_total (t : Numeral) (hd : digitsOK t) (hw : t.wf) (hz : ¬ t.zeroExp) :
    (scan (ofBytes (t.render.map chByte))).isSome = true := by
  rw [ofBytes_chByte _ hd]
  exact scan_total t hw hz

/-! Non-vacuity / the cases the property names -/
example : (Numeral.render ⟨true, 1, [2], some (5, [0]), some (some true, 3, [])⟩).map chByte = s' "-12.50e-3" := by decide +kernel
def s (x : String) : List UInt8 := x.toList.map (fun c => UInt8.ofNat c.toNat)
def nf (x : String) : Option N := scan (ofBytes (s x))
-- equal values have equal normal forms, whatever the spelling
example : nf "-0" = some ⟨false, [], 0⟩ ∧ nf "0" = some ⟨false, [], 0⟩ ∧ nf "-0.0" = some ⟨false, [], 0⟩ := by decide +kernel
example : nf "1.50" = some ⟨false, [1, 5], 1⟩ ∧ nf "15e-1" = some ⟨false, [1, 5], 1⟩ ∧ nf "0.15E1" = some ⟨false, [1, 5], 1⟩ := by
  decide +kernel
example : nf "2.3e+1" = some ⟨false, [2, 3], 0⟩ ∧ nf "1e3" = some ⟨false, [1, 0, 0, 0], 0⟩ := by decide +kernel
example : nf "-1.5" = some ⟨true, [1, 5], 1⟩ ∧ nf "-1.50001" = some ⟨true, [1, 5, 0, 0, 0, 1], 5⟩ := by decide +kernel
example : (⟨true, [1, 5], 1⟩ : N).cmp ⟨true, [1, 5, 0, 0, 0, 1], 5⟩ = .gt := by
  simp [N.cmp, cmpAbs, cmpInt, cmpDigits, cmpFra, N.int, N.fra, Ordering.swap]
example : (⟨false, [], 0⟩ : N).cmp ⟨false, [], 0⟩ = .eq := by
  simp [N.cmp, cmpAbs, cmpInt, cmpDigits, cmpFra, N.int, N.fra]
/-- the known finding K-C10-zeroexp: the code (and hence the model) does not recognise `0e1` -/
theorem C10_zeroexp_not_recognised : scan (ofBytes (s "0e1")) = none := by decide +kernel

end Props.C10
