import JSight.TreeLen
import JSight.ByteLemmas
import JSight.EnumEvents
import JSight.SchemaLen
/-!
# C14 — Len reports exactly where an embedded JSON document ends

`lengthS true` is the model of `Document.Len()` (documents with trailing characters allowed): raw
length from the event stream (`end-top` at the first foreign byte), then trailing blanks trimmed.
For every valid JSON tree `v` with any layout, leading blanks `ws0`, separator blanks `w`, a foreign
byte `x` that cannot continue the value and any `rest`: `Len = |ws0| + |render v|` — the length of the
document as the grammar generates it, without trailing blanks. No bound on sizes.
`C14_enum_len`: the enum-rule scanner's `Length` (model `EnumScan.length`) of `ws [ items ] ws` is the offset
just after the closing bracket, for every list of grammar tokens and any layout incl. line breaks.
`C14_schema_len_whole`, `C14_schema_len_embedded`: the schema scanner's `Length` (model `SchemaScan.length`) of
a plain-JSON schema, alone in the input or followed by foreign text, is the offset just after the value, for
every value tree and layout. "Foreign" is every class except blanks, `/` and `#` (which may start an annotation
or a comment that belongs to the schema); a byte glued directly to a number must not be able to continue it
(`adjOk`, exact: after `0` only `.`/`e`/`E` are excluded, after an integer also digits, after a fraction digits
and `e`/`E`). Annotated schemas: validated against the code (`c14-len`), not proved.
-/
namespace Props.C14
open JsonScan

theorem isBlank_classify : ∀ c : UInt8, (isBlankB c == (classify c).isWs) = true :=
  Bytes.forall_uint8 _ (by decide +kernel)

theorem trimBlank_eq_trimC (bs : List UInt8) : ∀ n, trimBlank bs.toArray n = trimC (bs.map classify) n
  | 0 => rfl
  | n + 1 => by
    unfold trimBlank trimC
    rw [trimBlank_eq_trimC bs n]
    have : (bs.toArray[n]?.map isBlankB) = ((bs.map classify)[n]?.map Cls.isWs) := by
      simp only [List.getElem?_toArray, List.getElem?_map, Option.map_map]
      cases bs[n]? with
      | none => rfl
      | some c => simp only [Option.map_some, Function.comp]; congr 1; simpa using isBlank_classify c
    rw [this]

/-- `Len()` of an embedded document, on bytes -/
theorem C14_json_len (v : JA) (hv : v.Valid) (ws0 w : List Cls) (h0 : IsWs ws0) (hw : IsWs w)
    (x : Cls) (rest : List Cls) (hx : ∀ st, PV st = true → CannotContinue st x)
    (bs : List UInt8) (hbs : bs.map classify = ws0 ++ (v.render ++ (w ++ x :: rest))) :
    lengthS true bs = .ok (ws0.length + v.render.length) := by
  obtain ⟨evs, he, hl⟩ := JsonScan.C14_json_len v hv ws0 w h0 hw x rest hx bs.length
  unfold lengthS events
  rw [hbs, he]
  simp only
  rw [trimBlank_eq_trimC, hbs]
  exact congrArg _ hl

/-- the event stream of an embedded document: the document's events, then `end-top` at the foreign byte -/
theorem C14_events_embedded (v : JA) (hv : v.Valid) (ws0 w : List Cls) (h0 : IsWs ws0) (hw : IsWs w)
    (x : Cls) (rest : List Cls) (hx : ∀ st, PV st = true → CannotContinue st x)
    (bs : List UInt8) (hbs : bs.map classify = ws0 ++ (v.render ++ (w ++ x :: rest))) :
    events true bs = .ok (evsAt ws0.length v ++
      [⟨.endTop, ws0.length + v.render.length + w.length, ws0.length + v.render.length + w.length⟩]) := by
  unfold events
  rw [hbs]
  exact events_embedded v hv ws0 w h0 hw x rest hx bs.length

/-- an error of the scanner is the error of `Len` -/
theorem C14_len_error (bs : List UInt8) (e : ErrS) (h : events true bs = .error e) : lengthS true bs = .error e := by
  unfold lengthS; rw [h]

/-! Non-vacuity: foreign bytes that satisfy the side condition, and a concrete instance. -/
theorem foreign_lbrace : ∀ st, PV st = true → CannotContinue st Cls.lbrace := by
  intro st h; cases st <;> simp [PV] at h <;> exact ⟨rfl, fun _ _ _ => rfl⟩
theorem foreign_letter_t : ∀ st, PV st = true → CannotContinue st Cls.lt := by
  intro st h; cases st <;> simp [PV] at h <;> exact ⟨rfl, fun _ _ _ => rfl⟩
theorem foreign_other : ∀ st, PV st = true → CannotContinue st Cls.other := by
  intro st h; cases st <;> simp [PV] at h <;> exact ⟨rfl, fun _ _ _ => rfl⟩

def s (x : String) : List UInt8 := x.toList.map (fun c => UInt8.ofNat c.toNat)
def lenOf (x : String) : Option Nat := match lengthS true (s x) with | .ok n => some n | .error _ => none
example : lenOf " {\"a\": [1, true]}  \n GET /x" = some 17 := by decide +kernel
example : lenOf "12x" = some 2 := by decide +kernel
example : lenOf "{}x" = some 2 := by decide +kernel
example : lenOf "{\"a\": x" = none := by decide +kernel

open EnumScan in
/-- `Len()` of an enum rule text: just after the closing bracket, trailing layout not counted -/
theorem C14_enum_len (pre ws0 post : List UInt8) (items : List Item)
    (hpre : IsWsB pre) (hws0 : IsWsB ws0) (hpost : IsWsB post) (hv : GValidItems items)
    (hnd : (items.map itemKey).Nodup) :
    EnumScan.length (renderEnum pre ws0 items post) = .ok (pre.length + 1 + ws0.length + (renderItems items).length) :=
  enum_length pre ws0 post items hpre hws0 hpost hv hnd

/-- `Len()` of a plain-JSON schema that fills the input (trailing layout not counted) -/
theorem C14_schema_len_whole (v : SchemaScan.Tree) (hv : v.Valid) (ws0 ws1 : List SchemaScan.Cls)
    (h0 : SchemaScan.IsWs ws0) (h1 : SchemaScan.IsWs ws1)
    (bs : List UInt8) (hbs : bs.map SchemaScan.classify = ws0 ++ (v.render ++ ws1)) :
    SchemaScan.length bs = .ok (ws0.length + v.render.length) :=
  SchemaScan.C14_schema_len_whole v hv ws0 ws1 h0 h1 bs hbs

/-- `Len()` of a plain-JSON schema embedded in other text -/
theorem C14_schema_len_embedded (v : SchemaScan.Tree) (hv : v.Valid) (ws0 w : List SchemaScan.Cls)
    (h0 : SchemaScan.IsWs ws0) (hw : SchemaScan.IsWs w)
    (x : SchemaScan.Cls) (rest : List SchemaScan.Cls) (hx : x.isForeign = true)
    (hadj : w = [] → SchemaScan.adjOk v.endSt x = true)
    (bs : List UInt8) (hbs : bs.map SchemaScan.classify = ws0 ++ (v.render ++ (w ++ x :: rest))) :
    SchemaScan.length bs = .ok (ws0.length + v.render.length) :=
  SchemaScan.C14_schema_len_embedded v hv ws0 w h0 hw x rest hx hadj bs hbs

end Props.C14
