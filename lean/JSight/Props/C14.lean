import JSight.EnumC2
import JSight.EnumCExamples
import JSight.TreeLen
import JSight.ByteLemmas
import JSight.EnumEvents
import JSight.SchemaLen
import JSight.SchemaLenExamples
import JSight.SchemaLenTokEof
import JSight.SchemaLenAnnShortcut
import JSight.DocCorollaries
/-!
# C14 — Len reports exactly where an embedded JSON document ends

`lengthS true` is the model of `Document.Len()` (documents with trailing characters allowed): raw
length from the event stream (`end-top` at the first foreign byte), then trailing blanks trimmed.
For every valid JSON tree `v` with any layout, leading blanks `ws0`, separator blanks `w`, a foreign
byte `x` that cannot continue the value and any `rest`: `Len = |ws0| + |render v|` — the length of the
document as the grammar generates it, without trailing blanks. No bound on sizes.
`C14_enum_len`: the enum-rule scanner's `Length` (model `EnumScan.length`) of `ws [ items ] ws` is the offset
just after the closing bracket, for every list of grammar tokens and any layout incl. line breaks.
`C14_schema_len_whole`, `C14_schema_len_embedded`: the schema scanner's `Length` (model `SchemaScan.length`) of
a plain-JSON schema, alone in the input or followed by foreign text, is the offset just after the value, for
every value tree and layout. "Foreign" is every class except blanks, `/` and `#` (which may start an annotation
or a comment that belongs to the schema); a byte glued directly to a number must not be able to continue it
(`adjOk`, exact: after `0` only `.`/`e`/`E` are excluded, after an integer also digits, after a fraction digits
and `e`/`E`).
Extension (root type shortcuts, inline annotations, user comments):
`C14_schema_len_shortcut` — root `@name` / `@a | @b` (token grammar of scanner.go's shortcut states): `Len` = offset just
after the last name byte. `C14_schema_len_annotated_scalar` — a scalar root followed on its line by `// note` or
`// {rules} [- note]`: `Len` COUNTS the annotation (up to its last non-blank byte). `C14_schema_len_annotated` — the
general form: the schema text is a list of tokens (`Len.Tok`: blanks, line breaks, `#` line comments, inline
annotations, scalars, keys, brackets, separators) that the token-level scanner `Len.trun` accepts (a description of the
places where each token may stand, incl. the `allowAnnotation` flag and the closure installed behind a note); the
byte-level model follows it (`Len.sim_run`), and `Len` is the text length without trailing blanks (`Len.rtrimLen`).
Multi-line annotations, `###` block comments, key shortcuts and shortcuts inside containers: validated only
(`schema-diff`, `c14-len`, `c14-model`).
-/
namespace Props.C14
open JsonScan

theorem isBlank_classify : ∀ c : UInt8, (isBlankB c == (classify c).isWs) = true :=
  Bytes.forall_uint8 _ (by decide +kernel)

theorem trimBlank_eq_trimC (bs : List UInt8) : ∀ n, trimBlank bs.toArray n = trimC (bs.map classify) n
  | 0 => rfl
  | n + 1 => by
    unfold trimBlank trimC
    rw [trimBlank_eq_trimC bs n]
    have : (bs.toArray[n]?.map isBlankB) = ((bs.map classify)[n]?.map Cls.isWs) := by
      simp only [List.getElem?_toArray, List.getElem?_map, Option.map_map]
      cases bs[n]? with
      | none => rfl
      | some c => simp only [Option.map_some, Function.comp]; congr 1; simpa using isBlank_classify c
    rw [this]

/-- `Len()` of an embedded document, on bytes -/
theorem C14_json_len (v : JA) (hv : v.Valid) (ws0 w : List Cls) (h0 : IsWs ws0) (hw : IsWs w)
    (x : Cls) (rest : List Cls) (hx : ∀ st, PV st = true → CannotContinue st x)
    (bs : List UInt8) (hbs : bs.map classify = ws0 ++ (v.render ++ (w ++ x :: rest))) :
    lengthS true bs = .ok (ws0.length + v.render.length) := by
  obtain ⟨evs, he, hl⟩ := JsonScan.C14_json_len v hv ws0 w h0 hw x rest hx bs.length
  unfold lengthS events
  rw [hbs, he]
  simp only
  rw [trimBlank_eq_trimC, hbs]
  exact congrArg _ hl

/-- the event stream of an embedded document: the document's events, then `end-top` at the foreign byte -/
theorem C14_events_embedded (v : JA) (hv : v.Valid) (ws0 w : List Cls) (h0 : IsWs ws0) (hw : IsWs w)
    (x : Cls) (rest : List Cls) (hx : ∀ st, PV st = true → CannotContinue st x)
    (bs : List UInt8) (hbs : bs.map classify = ws0 ++ (v.render ++ (w ++ x :: rest))) :
    events true bs = .ok (evsAt ws0.length v ++
      [⟨.endTop, ws0.length + v.render.length + w.length, ws0.length + v.render.length + w.length⟩]) := by
  unfold events
  rw [hbs]
  exact events_embedded v hv ws0 w h0 hw x rest hx bs.length

/-- an error of the scanner is the error of `Len` -/
theorem C14_len_error (bs : List UInt8) (e : ErrS) (h : events true bs = .error e) : lengthS true bs = .error e := by
  unfold lengthS; rw [h]

/-! Non-vacuity: foreign bytes that satisfy the side condition, and a concrete instance. -/
theorem foreign_lbrace : ∀ st, PV st = true → CannotContinue st Cls.lbrace := by
  intro st h; cases st <;> simp [PV] at h <;> exact ⟨rfl, fun _ _ _ => rfl⟩
theorem foreign_letter_t : ∀ st, PV st = true → CannotContinue st Cls.lt := by
  intro st h; cases st <;> simp [PV] at h <;> exact ⟨rfl, fun _ _ _ => rfl⟩
theorem foreign_other : ∀ st, PV st = true → CannotContinue st Cls.other := by
  intro st h; cases st <;> simp [PV] at h <;> exact ⟨rfl, fun _ _ _ => rfl⟩

def s (x : String) : List UInt8 := x.toList.map (fun c => UInt8.ofNat c.toNat)
def lenOf (x : String) : Option Nat := match lengthS true (s x) with | .ok n => some n | .error _ => none
example : lenOf " {\"a\": [1, true]}  \n GET /x" = some 17 := by decide +kernel
example : lenOf "12x" = some 2 := by decide +kernel
example : lenOf "{}x" = some 2 := by decide +kernel
example : lenOf "{\"a\": x" = none := by decide +kernel

open EnumScan in
/-- `Len()` of an enum rule text: just after the closing bracket, trailing layout not counted -/
theorem C14_enum_len (pre ws0 post : List UInt8) (items : List Item)
    (hpre : IsWsB pre) (hws0 : IsWsB ws0) (hpost : IsWsB post) (hv : GValidItems items)
    (hnd : (items.map itemKey).Nodup) :
    EnumScan.length (renderEnum pre ws0 items post) = .ok (pre.length + 1 + ws0.length + (renderItems items).length) :=
  enum_length pre ws0 post items hpre hws0 hpost hv hnd

/-- `Len()` of a plain-JSON schema that fills the input (trailing layout not counted) -/
theorem C14_schema_len_whole (v : SchemaScan.Tree) (hv : v.Valid) (ws0 ws1 : List SchemaScan.Cls)
    (h0 : SchemaScan.IsWs ws0) (h1 : SchemaScan.IsWs ws1)
    (bs : List UInt8) (hbs : bs.map SchemaScan.classify = ws0 ++ (v.render ++ ws1)) :
    SchemaScan.length bs = .ok (ws0.length + v.render.length) :=
  SchemaScan.C14_schema_len_whole v hv ws0 ws1 h0 h1 bs hbs

/-- `Len()` of a plain-JSON schema embedded in other text -/
theorem C14_schema_len_embedded (v : SchemaScan.Tree) (hv : v.Valid) (ws0 w : List SchemaScan.Cls)
    (h0 : SchemaScan.IsWs ws0) (hw : SchemaScan.IsWs w)
    (x : SchemaScan.Cls) (rest : List SchemaScan.Cls) (hx : x.isForeign = true)
    (hadj : w = [] → SchemaScan.adjOk v.endSt x = true)
    (bs : List UInt8) (hbs : bs.map SchemaScan.classify = ws0 ++ (v.render ++ (w ++ x :: rest))) :
    SchemaScan.length bs = .ok (ws0.length + v.render.length) :=
  SchemaScan.C14_schema_len_embedded v hv ws0 w h0 hw x rest hx hadj bs hbs

/-- `Len()` of a schema whose root is a type shortcut `@name` or `@a | @b | …` -/
theorem C14_schema_len_shortcut (sc : SchemaScan.Len.Shortcut) (hv : sc.Valid) (ws0 w tail : List SchemaScan.Cls)
    (h0 : SchemaScan.IsWs ws0) (hw : SchemaScan.IsWs w) (ht : SchemaScan.Len.scTailOk w tail = true)
    (bs : List UInt8) (hbs : bs.map SchemaScan.classify = ws0 ++ (sc.render ++ (w ++ tail))) :
    SchemaScan.length bs = .ok (ws0.length + sc.render.length) :=
  SchemaScan.C14_schema_len_shortcut sc hv ws0 w tail h0 hw ht bs hbs

/-- non-vacuity: `  @cat | @dog-1 ⏎ GET /x` → 15 -/
example : SchemaScan.length (SchemaScan.Len.Ex.b "  @cat | @dog-1 \n GET /x") = .ok 15 := SchemaScan.Len.Ex.sc1_len

/-- `Len()` of a top-level scalar with an inline annotation on its line: the annotation is part of the schema -/
theorem C14_schema_len_annotated_scalar (ws0 tok s1 : List SchemaScan.Cls) (b : SchemaScan.Len.InlBody)
    (w : List SchemaScan.Cls) (x : SchemaScan.Cls) (rest : List SchemaScan.Cls)
    (h0 : SchemaScan.IsWs ws0) (hs : SchemaScan.IsScalar tok) (h1 : SchemaScan.Len.IsSpTabs s1) (hb : b.Valid)
    (hw : SchemaScan.IsWs w) (hx : x.isForeign = true) (bs : List UInt8)
    (hbs : bs.map SchemaScan.classify
      = ws0 ++ (tok ++ (s1 ++ (.slash :: .slash :: (b.render ++ (.nl :: (w ++ x :: rest))))))) :
    SchemaScan.length bs
      = .ok (SchemaScan.Len.rtrimLen (ws0 ++ (tok ++ (s1 ++ (.slash :: .slash :: b.render))))) :=
  SchemaScan.C14_schema_len_annotated_scalar ws0 tok s1 b w x rest h0 hs h1 hb hw hx bs hbs

/-- non-vacuity: `12 // {min: 0} - note⏎⏎GET` → 21 -/
example : SchemaScan.length (SchemaScan.Len.Ex.b "12 // {min: 0} - note\n\nGET") = .ok 21 := SchemaScan.Len.Ex.ann1_len

/-- the same for a top-level type shortcut: `@cat | @dog // {…} - note` -/
theorem C14_schema_len_annotated_shortcut (ws0 : List SchemaScan.Cls) (sc : SchemaScan.Len.Shortcut)
    (s1 : List SchemaScan.Cls) (b : SchemaScan.Len.InlBody) (w : List SchemaScan.Cls) (x : SchemaScan.Cls)
    (rest : List SchemaScan.Cls) (h0 : SchemaScan.IsWs ws0) (hv : sc.Valid) (h1 : SchemaScan.Len.IsSpTabs s1)
    (hb : b.Valid) (hw : SchemaScan.IsWs w) (hx : x.isForeign = true) (bs : List UInt8)
    (hbs : bs.map SchemaScan.classify
      = ws0 ++ (sc.render ++ (s1 ++ (.slash :: .slash :: (b.render ++ (.nl :: (w ++ x :: rest))))))) :
    SchemaScan.length bs
      = .ok (SchemaScan.Len.rtrimLen (ws0 ++ (sc.render ++ (s1 ++ (.slash :: .slash :: b.render))))) :=
  SchemaScan.C14_schema_len_annotated_shortcut ws0 sc s1 b w x rest h0 hv h1 hb hw hx bs hbs

/-- non-vacuity: `@cat | @dog-1 // {min: 0} - note⏎GET` -/
example := C14_schema_len_annotated_shortcut [] SchemaScan.Len.Ex.sc1 [.sp] SchemaScan.Len.Ex.body1 [] .nameo [.uE, .nameo]
  (by simp [SchemaScan.IsWs]) SchemaScan.Len.Ex.sc1_valid (by simp [SchemaScan.Len.IsSpTabs, SchemaScan.Cls.isSpTab])
  SchemaScan.Len.Ex.body1_valid (by simp [SchemaScan.IsWs]) rfl
  (SchemaScan.Len.Ex.b "@cat | @dog-1 // {min: 0} - note\nGET") (by decide)

/-- `rtrimLen` is the length without trailing blanks: behind a last non-blank byte `d` only layout is dropped -/
theorem rtrimLen_spec (pre : List SchemaScan.Cls) (d : SchemaScan.Cls) (w : List SchemaScan.Cls)
    (hd : d.isBlank = false) (hw : SchemaScan.IsWs w) : SchemaScan.Len.rtrimLen (pre ++ [d] ++ w) = pre.length + 1 :=
  SchemaScan.Len.rtrimLen_snoc pre d w hd hw

/-- `Len()` of a schema with inline annotations and `#` comments wherever the scanner accepts them (token list
accepted by `Len.trun` from the initial state and ending behind the complete top-level value), followed by a foreign byte -/
theorem C14_schema_len_annotated (toks : List SchemaScan.Len.Tok) (hw : ∀ t ∈ toks, t.WF) (c' : SchemaScan.Len.TC)
    (evs : List SchemaScan.Ev) (h : SchemaScan.Len.trun SchemaScan.Len.TC.init toks = some (c', evs))
    (x : SchemaScan.Cls) (rest : List SchemaScan.Cls) (hx : x.isForeign = true) (hend : SchemaScan.Len.EndsAt c' x)
    (bs : List UInt8) (hbs : bs.map SchemaScan.classify = SchemaScan.Len.renderToks toks ++ x :: rest) :
    SchemaScan.length bs = .ok (SchemaScan.Len.rtrimLen (SchemaScan.Len.renderToks toks)) :=
  SchemaScan.C14_schema_len_tokens toks hw c' evs h x rest hx hend bs hbs

/-- the same when the schema fills the input: `Len` = the text length without trailing blanks -/
theorem C14_schema_len_annotated_whole (toks : List SchemaScan.Len.Tok) (hw : ∀ t ∈ toks, t.WF) (c' : SchemaScan.Len.TC)
    (evs : List SchemaScan.Ev) (h : SchemaScan.Len.trun SchemaScan.Len.TC.init toks = some (c', evs))
    (hend : SchemaScan.Len.Complete c') (bs : List UInt8)
    (hbs : bs.map SchemaScan.classify = SchemaScan.Len.renderToks toks) :
    SchemaScan.length bs = .ok (SchemaScan.Len.rtrimLen (SchemaScan.Len.renderToks toks)) :=
  SchemaScan.C14_schema_len_tokens_whole toks hw c' evs h hend bs hbs

/-- non-vacuity: `{⏎"a": 1 // x⏎} #x⏎` alone -/
example := C14_schema_len_annotated_whole SchemaScan.Len.Ex.toks1 SchemaScan.Len.Ex.toks1_wf SchemaScan.Len.Ex.res1.1
  SchemaScan.Len.Ex.res1.2 SchemaScan.Len.Ex.run1 (Or.inl ⟨rfl, rfl⟩) (SchemaScan.Len.Ex.b "{\n\"a\": 1 // x\n} #x\n")
  (by decide)

/-- non-vacuity: `{⏎"a": 1 // x⏎} #x⏎GET` → 18 (annotation with a note inside the object, comment behind it) -/
example : SchemaScan.length (SchemaScan.Len.Ex.b "{\n\"a\": 1 // x\n} #x\nGET") = .ok 18 := SchemaScan.Len.Ex.toks1_len

/-- **the prefix of length `Len` is accepted with the same meaning**: `S` (a token list ending right behind its
top-level value) followed by layout `w`, a foreign byte and anything: `Len = |S|`, `S` alone scans (ordinary mode) into
the events of the token list plus the end of a top-level scalar, and those are the events `Length()` reads inside the
longer text before `end-top` (`SchemaScan.lengthEvents`), followed only by the `newLine` events of `w` -/
theorem C14_schema_prefix_same_events (toks : List SchemaScan.Len.Tok) (hw : ∀ t ∈ toks, t.WF) (st : SchemaScan.St)
    (lit : Bool) (b : Nat) (CS : List SchemaScan.Ctx) (cx : SchemaScan.Ctx) (al : Bool) (evs : List SchemaScan.Ev)
    (hpv : SchemaScan.PV st = true)
    (h : SchemaScan.Len.trun SchemaScan.Len.TC.init toks
      = some (⟨st, false, SchemaScan.pendOf lit b, (SchemaScan.Len.renderToks toks).length, CS, cx, al⟩, evs))
    (w : List SchemaScan.Cls) (hws : SchemaScan.IsWs w) (x : SchemaScan.Cls) (rest : List SchemaScan.Cls)
    (hx : x.isForeign = true) (hadj : w = [] → SchemaScan.adjOk st x = true) (bs : List UInt8)
    (hbs : bs.map SchemaScan.classify = SchemaScan.Len.renderToks toks ++ (w ++ x :: rest)) :
    SchemaScan.length bs = .ok (SchemaScan.Len.renderToks toks).length ∧
    SchemaScan.scanAll (bs.take (SchemaScan.Len.renderToks toks).length)
      = .ok (evs ++ SchemaScan.rootClosers lit b ((SchemaScan.Len.renderToks toks).length - 1)) ∧
    SchemaScan.lengthEvents bs
      = .ok (evs ++ SchemaScan.rootClosers lit b ((SchemaScan.Len.renderToks toks).length - 1)
          ++ SchemaScan.nlEvs (SchemaScan.Len.renderToks toks).length w) :=
  SchemaScan.C14_schema_prefix_same_events toks hw st lit b CS cx al evs hpv h w hws x rest hx hadj bs hbs

/-- non-vacuity: `[1, {"a": "x"}] ⏎GET` -/
example := C14_schema_prefix_same_events SchemaScan.Len.Ex.toks2 SchemaScan.Len.Ex.toks2_wf .endValue false 0 []
  { ty := .initial } false SchemaScan.Len.Ex.res2.2 rfl SchemaScan.Len.Ex.run2 [.sp, .nl]
  (by simp [SchemaScan.IsWs, SchemaScan.Cls.isBlank, SchemaScan.Cls.isSpace, SchemaScan.Cls.isNewLine]) .nameo
  [.uE, .nameo] rfl (fun h => by cases h) (SchemaScan.Len.Ex.b "[1, {\"a\": \"x\"}] \nGET") (by decide)

/-- **`Len` errs on an incomplete schema**: the input ends behind a token list (accepted from the initial state) that
leaves an object, an array, a key, a member value or an array item open: error 303 at the last byte -/
theorem C14_schema_len_error (toks : List SchemaScan.Len.Tok) (hw : ∀ t ∈ toks, t.WF) (c' : SchemaScan.Len.TC)
    (evs : List SchemaScan.Ev) (h : SchemaScan.Len.trun SchemaScan.Len.TC.init toks = some (c', evs))
    (hopen : SchemaScan.Len.eofErrK c'.K = true) (bs : List UInt8)
    (hbs : bs.map SchemaScan.classify = SchemaScan.Len.renderToks toks) :
    SchemaScan.length bs = .error (.unexpectedEOF (bs.length - 1)) :=
  SchemaScan.C14_schema_len_error_tokens toks hw c' evs h hopen bs hbs

/-- … and on an open string: where a value may start, `"` and string characters up to the end of input -/
theorem C14_schema_len_error_string (toks : List SchemaScan.Len.Tok) (hw : ∀ t ∈ toks, t.WF) (c' : SchemaScan.Len.TC)
    (evs : List SchemaScan.Ev) (h : SchemaScan.Len.trun SchemaScan.Len.TC.init toks = some (c', evs))
    (ctx : SchemaScan.VCtx) (hctx : SchemaScan.Len.vctxOf c'.st = some ctx) (body : List SchemaScan.Cls)
    (hb : SchemaScan.StrBody body) (bs : List UInt8)
    (hbs : bs.map SchemaScan.classify = SchemaScan.Len.renderToks toks ++ (.quote :: body)) :
    SchemaScan.length bs = .error (.unexpectedEOF (bs.length - 1)) :=
  SchemaScan.C14_schema_len_error_string toks hw c' evs h ctx hctx body hb bs hbs

/-- non-vacuity: `[1, {"a":` and `[1, {"a":"x\n` -/
example := SchemaScan.Len.Ex.toks3_err
example := SchemaScan.Len.Ex.toks3_str_err

end Props.C14

/-! ### enum rules with comments (from the C18 development `JSight/EnumC*.lean`) -/
namespace Props.C14
open EnumScan

/-- Enum rule text `pre [ lay item , … ] lay` whose layouts may hold `// …` and `/* … */` comments wherever the enum scanner
accepts them: `Len` is the length of the text without its trailing blanks — a comment behind the closing bracket is INSIDE
`Len` (it belongs to the rule). -/
theorem C14_enum_len_with_comments (pre : List UInt8) (ws0 post : LayB) (items : List ItemC)
    (hpre : IsWsB pre) (hws0 : ws0.Valid) (hpost : post.Valid) (hv : GValidItemsC items)
    (hnd : (items.map itemKeyC).Nodup) :
    length (renderEnumC pre ws0 items post) = .ok (rtrimB (renderEnumC pre ws0 items post)).length :=
  enumC_length pre ws0 post items hpre hws0 hpost hv hnd

-- non-vacuity: ` [ // one⏎ 1 /* a*b */ , "a" //⏎ , true ] /* end */ `
example : length (renderEnumC xPre xWs0 xItems xPost) = .ok (rtrimB (renderEnumC xPre xWs0 xItems xPost)).length :=
  C14_enum_len_with_comments xPre xWs0 xPost xItems xPre_ws xWs0_valid xPost_valid xItems_valid (by decide)

end Props.C14

/-! ## `Len()` of the json `Document` OBJECT after any history (carry-over through the C11 bridge) -/
namespace Props.C14
section document
open JsonScan DocCursor

/-- after ANY history of `NextLexeme` / `Check` / `Len` calls, `Len()` of the document answers what the whole-text model
`lengthS` answers on its text (`lenOfS`: the value, or the error with code 301 / 303 and the same index) - both modes -/
theorem C14_document_len_is_whole_text_model (t : List UInt8) (o : Bool) (ops : List Op) :
    (((Doc.new t o).run ops).2.step .len).1 = .len (DocCorollaries.lenOfS (lengthS o t)) :=
  DocCorollaries.len_after_lengthS t o ops

/-- `C14_json_len` on the object: a document (trailing characters allowed) whose text is blanks, a valid JSON tree with any
layout, blanks, a foreign byte that cannot continue the value, anything - after ANY history `Len()` answers
`|ws0| + |render v|` -/
theorem C14_document_len_history_free (v : JA) (hv : v.Valid) (ws0 w : List Cls) (h0 : IsWs ws0) (hw : IsWs w)
    (x : Cls) (rest : List Cls) (hx : ∀ st, PV st = true → CannotContinue st x)
    (bs : List UInt8) (hbs : bs.map classify = ws0 ++ (v.render ++ (w ++ x :: rest))) (ops : List Op) :
    (((Doc.new bs true).run ops).2.step .len).1 = .len (.ok (ws0.length + v.render.length)) := by
  rw [C14_document_len_is_whole_text_model, C14_json_len v hv ws0 w h0 hw x rest hx bs hbs]; rfl

/-- `C14_len_error` on the object: an error of the scanner is the error of `Len()` after any history -/
theorem C14_document_len_error (bs : List UInt8) (e : ErrS) (h : events true bs = .error e) (ops : List Op) :
    (((Doc.new bs true).run ops).2.step .len).1 = .len (DocCorollaries.lenOfS (.error e)) := by
  rw [C14_document_len_is_whole_text_model, C14_len_error bs e h]

/-- non-vacuity: ` [1] x` = blank, the array `[1]`, blank, foreign `x`; hypotheses met, and the concrete history -/
example : (((Doc.new [32, 91, 49, 93, 32, 120] true).run [.next, .next, .check, .next]).2.step .len).1 = .len (.ok 4) :=
  C14_document_len_history_free (.arr [] [([], .scalar [.d19], [])])
    (by
      have n1 : IsScalar [.d19] := ⟨.d19, [], .d1, false, .d1, rfl, rfl, rfl, rfl⟩
      simp [JA.Valid, ValidItems, IsWs, n1])
    [.sp] [.sp] (by simp [IsWs, Cls.isWs]) (by simp [IsWs, Cls.isWs]) .other [] foreign_other
    [32, 91, 49, 93, 32, 120] (by decide) [.next, .next, .check, .next]
example : ((Doc.new [32, 91, 49, 93, 32, 120] true).run [.next, .next, .check, .next, .len, .len]).1 =
    [.next (.lex ⟨.arrB, 1, 1⟩), .next (.lex ⟨.itemB, 2, 2⟩), .check .ok, .next (.lex ⟨.arrB, 1, 1⟩),
     .len (.ok 4), .len (.ok 4)] := by decide
/-- the error side: `{"a": x` -/
example : (((Doc.new (s "{\"a\": x") true).run [.next, .check]).2.step .len).1 = .len (.err 301 6) := by decide

end document
end Props.C14

#print axioms Props.C14.C14_document_len_is_whole_text_model
#print axioms Props.C14.C14_document_len_history_free
#print axioms Props.C14.C14_document_len_error
