import JSight.TreeEvents
import JSight.TreeSpans
import JSight.TreeNested
import JSight.TreeRebuild
/-!
# C06 — Lexical events faithfully describe the scanned text

Spec: JSON trees *with layout* (`JA`: every inter-token blank run explicit), `JA.render` (the text the
RFC grammar generates for the tree) and `evsAt o v` (the events the tree denotes at offset `o`, spans
computed from rendered lengths only). Model: `JsonScan.events` (`NextLexeme` of `formats/json`).
The theorems hold for every valid tree — no bound on depth, width or token length — every layout and
both scanner modes.
-/
namespace Props.C06
open JsonScan

/-- the events delivered for a valid JSON text are exactly the events its tree denotes
(begin/end pairs, literal and key spans = the source tokens, containers from bracket to bracket) -/
theorem C06_events_of_tree (allow : Bool) (v : JA) (hv : v.Valid) (ws0 ws1 : List Cls) (h0 : IsWs ws0) (h1 : IsWs ws1)
    (bs : List UInt8) (hbs : bs.map classify = ws0 ++ (v.render ++ ws1)) :
    events allow bs = .ok (evsAt ws0.length v) := by
  have hl : bs.length = (ws0 ++ (v.render ++ ws1)).length := by rw [← hbs, List.length_map]
  unfold events
  rw [hbs, hl]
  exact JsonScan.C06_events_of_tree allow v hv ws0 ws1 h0 h1

/-- every span lies inside the input and is well ordered -/
theorem C06_spans (allow : Bool) (v : JA) (hv : v.Valid) (ws0 ws1 : List Cls) (h0 : IsWs ws0) (h1 : IsWs ws1)
    (bs : List UInt8) (hbs : bs.map classify = ws0 ++ (v.render ++ ws1)) :
    ∃ evs, events allow bs = .ok evs ∧ ∀ e ∈ evs, e.b ≤ e.e ∧ e.e < bs.length := by
  have hl : bs.length = (ws0 ++ (v.render ++ ws1)).length := by rw [← hbs, List.length_map]
  obtain ⟨evs, he, hs⟩ := JsonScan.C06_spans allow v hv ws0 ws1 h0 h1
  refine ⟨evs, ?_, fun e h => by rw [hl]; exact hs e h⟩
  unfold events
  rw [hbs, hl]
  exact he

/-- the delivered events form a properly nested begin/end sequence; every closing event pairs with the
innermost open one and carries its begin offset -/
theorem C06_nested (allow : Bool) (v : JA) (hv : v.Valid) (ws0 ws1 : List Cls) (h0 : IsWs ws0) (h1 : IsWs ws1)
    (bs : List UInt8) (hbs : bs.map classify = ws0 ++ (v.render ++ ws1)) :
    ∃ evs, events allow bs = .ok evs ∧ wn evs [] = true :=
  ⟨_, C06_events_of_tree allow v hv ws0 ws1 h0 h1 bs hbs, evsAt_wellNested _ v⟩

/-- the JSON value (the tree without layout) can be rebuilt from the delivered events and the token slices
their spans cut out of the input, without looking at the input for structure -/
theorem C06_rebuild (allow : Bool) (v : JA) (hv : v.Valid) (ws0 ws1 : List Cls) (h0 : IsWs ws0) (h1 : IsWs ws1)
    (bs : List UInt8) (hbs : bs.map classify = ws0 ++ (v.render ++ ws1)) :
    ∃ evs f, events allow bs = .ok evs ∧ rebV (bs.map classify) f evs = some (strip v, []) := by
  obtain ⟨f, hf⟩ := rebuild_tree v hv ws0 ws1
  exact ⟨_, f, C06_events_of_tree allow v hv ws0 ws1 h0 h1 bs hbs, by rw [hbs]; exact hf⟩

/-- RFC 8259 scalar tokens are what the tree's leaves may be: strings, numbers, the three words -/
theorem C06_string_token (b : List Cls) (hb : StrBody b) : IsScalar (.quote :: (b ++ [.quote])) := string_isScalar b hb
theorem C06_number_token (t : NumTok) (wf : t.WF) : IsScalar t.render := number_isScalar t wf
theorem C06_key_token (b : List Cls) (hb : StrBody b) : IsKey (.quote :: (b ++ [.quote])) := string_isKey b hb

end Props.C06
