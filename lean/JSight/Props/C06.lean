import JSight.TreeEvents
import JSight.TreeSpans
import JSight.TreeNested
import JSight.TreeRebuild
import JSight.SchemaEvents
import JSight.EnumEvents
import JSight.DocCorollaries
/-!
# C06 — Lexical events faithfully describe the scanned text

Spec: JSON trees *with layout* (`JA`: every inter-token blank run explicit), `JA.render` (the text the
RFC grammar generates for the tree) and `evsAt o v` (the events the tree denotes at offset `o`, spans
computed from rendered lengths only). Model: `JsonScan.events` (`NextLexeme` of `formats/json`).
The theorems hold for every valid tree — no bound on depth, width or token length — every layout and
both scanner modes.
Second sentence of the property (the clones): `C06_schema_events_of_tree` — the schema scanner model
(`SchemaScan`, tied by `schema-diff`) scans every plain-JSON value tree (numbers without exponent, any layout
incl. LF / CR line breaks) into exactly the events the tree denotes plus one `newLine` per line break;
`C06_schema_is_json_plus_newlines` — on the same bytes the JSON scanner model delivers exactly the schema
scanner's stream without the `newLine` events; `C06_enum_events` (= `C18_enum_events`) — the enum-rule scanner on
`ws [ items ] ws`.
-/
namespace Props.C06
open JsonScan

/-- the events delivered for a valid JSON text are exactly the events its tree denotes
(begin/end pairs, literal and key spans = the source tokens, containers from bracket to bracket) -/
theorem C06_events_of_tree (allow : Bool) (v : JA) (hv : v.Valid) (ws0 ws1 : List Cls) (h0 : IsWs ws0) (h1 : IsWs ws1)
    (bs : List UInt8) (hbs : bs.map classify = ws0 ++ (v.render ++ ws1)) :
    events allow bs = .ok (evsAt ws0.length v) := by
  have hl : bs.length = (ws0 ++ (v.render ++ ws1)).length := by rw [← hbs, List.length_map]
  unfold events
  rw [hbs, hl]
  exact JsonScan.C06_events_of_tree allow v hv ws0 ws1 h0 h1

/-- every span lies inside the input and is well ordered -/
theorem C06_spans (allow : Bool) (v : JA) (hv : v.Valid) (ws0 ws1 : List Cls) (h0 : IsWs ws0) (h1 : IsWs ws1)
    (bs : List UInt8) (hbs : bs.map classify = ws0 ++ (v.render ++ ws1)) :
    ∃ evs, events allow bs = .ok evs ∧ ∀ e ∈ evs, e.b ≤ e.e ∧ e.e < bs.length := by
  have hl : bs.length = (ws0 ++ (v.render ++ ws1)).length := by rw [← hbs, List.length_map]
  obtain ⟨evs, he, hs⟩ := JsonScan.C06_spans allow v hv ws0 ws1 h0 h1
  refine ⟨evs, ?_, fun e h => by rw [hl]; exact hs e h⟩
  unfold events
  rw [hbs, hl]
  exact he

/-- the delivered events form a properly nested begin/end sequence; every closing event pairs with the
innermost open one and carries its begin offset -/
theorem C06_nested (allow : Bool) (v : JA) (hv : v.Valid) (ws0 ws1 : List Cls) (h0 : IsWs ws0) (h1 : IsWs ws1)
    (bs : List UInt8) (hbs : bs.map classify = ws0 ++ (v.render ++ ws1)) :
    ∃ evs, events allow bs = .ok evs ∧ wn evs [] = true :=
  ⟨_, C06_events_of_tree allow v hv ws0 ws1 h0 h1 bs hbs, evsAt_wellNested _ v⟩

/-- the JSON value (the tree without layout) can be rebuilt from the delivered events and the token slices
their spans cut out of the input, without looking at the input for structure -/
theorem C06_rebuild (allow : Bool) (v : JA) (hv : v.Valid) (ws0 ws1 : List Cls) (h0 : IsWs ws0) (h1 : IsWs ws1)
    (bs : List UInt8) (hbs : bs.map classify = ws0 ++ (v.render ++ ws1)) :
    ∃ evs f, events allow bs = .ok evs ∧ rebV (bs.map classify) f evs = some (strip v, []) := by
  obtain ⟨f, hf⟩ := rebuild_tree v hv ws0 ws1
  exact ⟨_, f, C06_events_of_tree allow v hv ws0 ws1 h0 h1 bs hbs, by rw [hbs]; exact hf⟩

/-- RFC 8259 scalar tokens are what the tree's leaves may be: strings, numbers, the three words -/
theorem C06_string_token (b : List Cls) (hb : StrBody b) : IsScalar (.quote :: (b ++ [.quote])) := string_isScalar b hb
theorem C06_number_token (t : NumTok) (wf : t.WF) : IsScalar t.render := number_isScalar t wf
theorem C06_key_token (b : List Cls) (hb : StrBody b) : IsKey (.quote :: (b ++ [.quote])) := string_isKey b hb

/-! ### the clones -/

/-- the schema scanner on plain JSON: exactly the tree's events, plus one `newLine` per line break -/
theorem C06_schema_events_of_tree (v : SchemaScan.Tree) (hv : v.Json) (ws0 ws1 : List SchemaScan.Cls)
    (h0 : SchemaScan.IsWs ws0) (h1 : SchemaScan.IsWs ws1)
    (bs : List UInt8) (hbs : bs.map SchemaScan.classify = ws0 ++ (v.render ++ ws1)) :
    SchemaScan.scanAll bs
      = .ok (SchemaScan.nlEvs 0 ws0 ++ (SchemaScan.schemaEvsAt ws0.length v ++
          SchemaScan.nlEvs (ws0.length + v.render.length) ws1)) :=
  SchemaScan.C06_schema_events_of_json_text v hv ws0 ws1 h0 h1 bs hbs

/-- clone agreement: on the bytes of a plain-JSON text the JSON scanner delivers the schema scanner's stream
with the `newLine` events removed, and the schema scanner adds nothing but `newLine` events -/
theorem C06_schema_is_json_plus_newlines (allow : Bool) (v : SchemaScan.Tree) (hv : v.Json)
    (ws0 ws1 : List SchemaScan.Cls) (h0 : SchemaScan.IsWs ws0) (h1 : SchemaScan.IsWs ws1)
    (bs : List UInt8) (hbs : bs.map SchemaScan.classify = ws0 ++ (v.render ++ ws1)) :
    ∃ sevs, SchemaScan.scanAll bs = .ok sevs ∧ JsonScan.events allow bs = .ok (SchemaScan.jsonPart sevs) ∧
      sevs.all SchemaScan.jsonOrNl = true :=
  let ⟨sevs, a, b, c, _⟩ := SchemaScan.C13_schema_scan_is_json_scan_plus_newlines allow v hv ws0 ws1 h0 h1 bs hbs
  ⟨sevs, a, b, c⟩

open EnumScan in
/-- the enum-rule scanner on a list of scalar literals -/
theorem C06_enum_events (pre ws0 post : List UInt8) (items : List Item)
    (hpre : IsWsB pre) (hws0 : IsWsB ws0) (hpost : IsWsB post) (hv : GValidItems items)
    (hnd : (items.map itemKey).Nodup) :
    scanAll (renderEnum pre ws0 items post) = .ok (enumEvsOf pre ws0 items post) :=
  enum_events pre ws0 post items hpre hws0 hpost hv hnd

end Props.C06

/-! ## The lexemes of the json `Document` OBJECT (carry-over of `C06_events_of_tree` through the C11 bridge) -/
namespace Props.C06
section document
open JsonScan DocCursor

/-- for a valid JSON tree with layout (the hypotheses of `C06_events_of_tree`), both modes: the deliveries of `NextLexeme`
on a fresh document are exactly the events the tree denotes, in order, each without error, then EOF; and after ANY history
of `NextLexeme` / `Check` / `Len` calls a `NextLexeme` delivers the element of that sequence the cursor stands at -
`cursorOf ops` (`C11_doc_cursor_after`: 0 at the start and after the first `Check` / first `Len`, +1 per `NextLexeme`) -/
theorem C06_document_lexemes (allow : Bool) (v : JA) (hv : v.Valid) (ws0 ws1 : List Cls) (h0 : IsWs ws0) (h1 : IsWs ws1)
    (bs : List UInt8) (hbs : bs.map classify = ws0 ++ (v.render ++ ws1)) :
    scanAll bs allow ((evsAt ws0.length v).length + 1) = (evsAt ws0.length v).map .lex ++ [.eof] ∧
    ∀ ops : List Op, cursorOf ops ≤ (evsAt ws0.length v).length →
      (((Doc.new bs allow).run ops).2.step .next).1 =
        .next (((evsAt ws0.length v).map NextRes.lex ++ [.eof])[cursorOf ops]?.getD .eof) :=
  DocCorollaries.doc_lexemes bs allow _ (C06_events_of_tree allow v hv ws0 ws1 h0 h1 bs hbs)
    (DocCorollaries.wn_noTop _ [] (evsAt_wellNested _ v))

/-- non-vacuity: ` [1]` = `[32, 91, 49, 93]`: six events then EOF; after `NextLexeme, Check, NextLexeme` the cursor is 1 -/
example :
    scanAll [32, 91, 49, 93] false 7 =
      [.lex ⟨.arrB, 1, 1⟩, .lex ⟨.itemB, 2, 2⟩, .lex ⟨.litB, 2, 2⟩, .lex ⟨.litE, 2, 2⟩, .lex ⟨.itemE, 2, 2⟩,
       .lex ⟨.arrE, 1, 3⟩, .eof] ∧
    (((Doc.new [32, 91, 49, 93] false).run [.next, .check, .next]).2.step .next).1 = .next (.lex ⟨.itemB, 2, 2⟩) := by
  have hv : (JA.arr [] [([], .scalar [.d19], [])]).Valid := by
    have n1 : IsScalar [.d19] := ⟨.d19, [], .d1, false, .d1, rfl, rfl, rfl, rfl⟩
    simp [JA.Valid, ValidItems, IsWs, n1]
  obtain ⟨a, b⟩ := C06_document_lexemes false (.arr [] [([], .scalar [.d19], [])]) hv [.sp] [] (by simp [IsWs, Cls.isWs])
    (by simp [IsWs]) [32, 91, 49, 93] (by decide)
  exact ⟨a, b [.next, .check, .next] (by decide)⟩

end document
end Props.C06

#print axioms Props.C06.C06_document_lexemes
