import JSight.CheckExample
import JSight.CheckExampleConv
/-!
# C04 — Check accepts a schema only if its own EXAMPLE obeys its rules

Parametric in the literal validation function `litOK` (the same `ValidateLiteralValue` is used by the
checker on the example token and by the validator on document tokens) and in `ex : L → D` (the example
token of a literal node). `checked` = what the checker establishes on a plain-JSON schema: every
literal passes `litOK` on its own example, object keys are unique. Then validating the example document
succeeds — for every nesting, any literal rule semantics.
`C04_checked_iff`: with unique keys the checker's conditions hold *exactly* when the EXAMPLE validates, so
on the model a violated rule anywhere in the EXAMPLE makes `checked` false. That the real `Check` reports it
at the position of the value is checked against the code (harness `c04-check-example`), see DESIGN.md §4 C04.
-/
namespace Props.C04

theorem C04_example_valid {L D : Type} (litOK : L → D → Bool) (ex : L → D) (s : VP.S L)
    (h : VP.checked litOK ex s = true) : VP.validate litOK s (VP.exampleOf ex s) = true :=
  VP.C04_example_valid litOK ex s h

/-- the checker's conditions demand nothing beyond "the EXAMPLE obeys its rules" (keys unique in every object) -/
theorem C04_checked_iff {L D : Type} (litOK : L → D → Bool) (ex : L → D) (s : VP.S L) (hn : VP.nodupAll s = true) :
    VP.checked litOK ex s = true ↔ VP.validate litOK s (VP.exampleOf ex s) = true :=
  VP.C04_checked_iff litOK ex s hn

/-- a violated rule in the EXAMPLE (here: the nested literal 3 against the rule "= 4") makes the conditions fail -/
example : VP.checked (fun (l : Nat) (d : Nat) => l == d) (fun l => if l == 4 then 3 else l)
    (.obj [("a", true, .lit 1), ("b", false, .arr [.lit 2, .obj [("c", true, .lit 4)]])]) = false := by decide +kernel

/-! Non-vacuity: a schema that satisfies the hypothesis -/
example : VP.checked (fun (l : Nat) (d : Nat) => l == d) id
    (.obj [("a", true, .lit 1), ("b", false, .arr [.lit 2, .obj [("c", true, .lit 3)]])]) = true := by decide +kernel

end Props.C04
