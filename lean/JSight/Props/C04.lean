import JSight.CheckExample
import JSight.CheckExampleConv
import JSight.CheckerComplete
import JSight.CheckerLayout
import JSight.CheckerLit
import JSight.BridgeCK
import JSight.BridgeCK2Types
import JSight.BridgeCK2
import JSight.BridgeCK3Fuel
import JSight.BridgeCK3False
import JSight.BridgeCK4Tree
/-!
# C04 — Check accepts a schema only if its own EXAMPLE obeys its rules

Parametric in the literal validation function `litOK` (the same `ValidateLiteralValue` is used by the
checker on the example token and by the validator on document tokens) and in `ex : L → D` (the example
token of a literal node). `checked` = what the checker establishes on a plain-JSON schema: every
literal passes `litOK` on its own example, object keys are unique. Then validating the example document
succeeds — for every nesting, any literal rule semantics.
`C04_checked_iff`: with unique keys the checker's conditions hold *exactly* when the EXAMPLE validates, so
on the model a violated rule anywhere in the EXAMPLE makes `checked` false. That the real `Check` reports it
at the position of the value is checked against the code (harness `c04-check-example`), see DESIGN.md §4 C04.
-/
namespace Props.C04

theorem C04_example_valid {L D : Type} (litOK : L → D → Bool) (ex : L → D) (s : VP.S L)
    (h : VP.checked litOK ex s = true) : VP.validate litOK s (VP.exampleOf ex s) = true :=
  VP.C04_example_valid litOK ex s h

/-- the checker's conditions demand nothing beyond "the EXAMPLE obeys its rules" (keys unique in every object) -/
theorem C04_checked_iff {L D : Type} (litOK : L → D → Bool) (ex : L → D) (s : VP.S L) (hn : VP.nodupAll s = true) :
    VP.checked litOK ex s = true ↔ VP.validate litOK s (VP.exampleOf ex s) = true :=
  VP.C04_checked_iff litOK ex s hn

/-- a violated rule in the EXAMPLE (here: the nested literal 3 against the rule "= 4") makes the conditions fail -/
example : VP.checked (fun (l : Nat) (d : Nat) => l == d) (fun l => if l == 4 then 3 else l)
    (.obj [("a", true, .lit 1), ("b", false, .arr [.lit 2, .obj [("c", true, .lit 4)]])]) = false := by decide +kernel

/-! Non-vacuity: a schema that satisfies the hypothesis -/
example : VP.checked (fun (l : Nat) (d : Nat) => l == d) id
    (.obj [("a", true, .lit 1), ("b", false, .arr [.lit 2, .obj [("c", true, .lit 3)]])]) = true := by decide +kernel

/-! ## The checker itself (`CK.checkSchema`, `JSight/Checker.lean`): traversal, first error, positions, item counts

`CK.checkSchema` transliterates `checker.CheckRootSchema` over the compiled schema (every node with its basis lexeme: file
and byte offset) and returns `ok` or `err code file pos type`. It is tied to the real checker by `vh c04-model` (the hook
prints what the real checker reads and runs it; 0 differences in code, file, offset and named type, also with several
simultaneous corruptions). `o : RulesF.Oracles` are Go's `regexp`, `net/mail`, `net/url`, `time` (parameters). -/

open CK in
/-- SOUND: whenever the checker accepts a schema whose EXAMPLE is plain JSON (no type shortcut in value or key position, no
allOf; keys unique), the validator model accepts the EXAMPLE — literal nodes with ALL their rules, `{type: "@t"}` and `or`
sets included: a token is admitted when `ValidateLiteralValue` of one alternative of the node returns -/
theorem C04_checker_sound (o : RulesF.Oracles) (s : Schema) (r : Node) (hr : s.root = some r) (hp : plain r = true)
    (hn : VP.nodupAll (toVP r) = true) (h : checkSchema o s = .ok) :
    VP.validate (literalAccepts o s.env) (toVP r) (VP.exampleOf (fun i => i.lex.value) (toVP r)) = true :=
  CK.checker_sound o s r hr hp hn h

open CK in
/-- FIRST (traversal order): `CheckRootSchema` reports the own error of the first offending node in the order "nodes of the
root in source (pre-)order, then the nodes of every type in table order, each in source order" (`firstErr`: a
`findSome?` over that list); `ok` when no node offends. Source order and traversal order differ only in that: the root
comes before the types whatever was added first, and the types come in the order of `typeGoesFirst` (`Schema.visit`): by
name, the unnamed ones (or-shortcut nodes, or rule-set members) first and among themselves by file name and position. -/
theorem C04_checker_first (o : RulesF.Oracles) (s : Schema) : checkSchema o s = firstErr o s :=
  CK.checkSchema_eq_firstErr o s

open CK in
/-- POSITION: the own error of a node is a DocumentError at the node's basis lexeme — file and `Begin()`: the first byte of a
literal, the `[` / `{` of a container — except the two key-shortcut errors of an object (1302 / 1304), which sit at the
key's lexeme; (`crash` = the model ran out of fuel, excluded by `C04_checker_no_crash`) -/
theorem C04_checker_position (o : RulesF.Oracles) (env : Env) (hd : Hd) (p : Panic) (h : nodeErr o env hd = some p) :
    (∃ c, p = .doc c hd.info.lex.file hd.info.lex.begin) ∨
    (hd.info.nk = .obj ∧ ∃ k ∈ hd.info.keys, k.shortcut = true ∧ ∃ c, (c = 1302 ∨ c = 1304) ∧ p = .doc c k.lex.file k.lex.begin) ∨
    (∃ w, p = .crash w) :=
  CK.nodeErr_pos o env hd p h

open CK in
/-- a violated rule — no alternative of a literal admits its own token; the EXAMPLE's item count below `minItems` / above
`maxItems` — makes the node's own check fail; and when the node's structural checks pass, a failing own check of a literal
or an array IS a violated rule -/
theorem C04_violation_iff_own_check (o : RulesF.Oracles) (env : Env) (h : Hd)
    (hl : h.info.nk = .lit → h.info.lex.ty = .litEnd) (hs : structOK env h = true)
    (hnk : h.info.nk = .lit ∨ h.info.nk = .arr) :
    violates o env h = true ↔ nodeErr o env h ≠ none := by
  constructor
  · exact CK.nodeErr_of_violates o env h hl
  · intro he
    unfold structOK at hs
    simp only [Bool.and_eq_true, Option.isNone_iff_eq_none] at hs
    refine CK.violates_of_nodeErr o env h hl hs.1.1 hs.1.2 ?_ hnk he
    intro ha
    have := hs.2
    rw [ha] at this
    simpa using this

open CK in
/-- COMPLETE (anywhere): a value of the root or of a type that violates one of its own rules makes `Check` fail -/
theorem C04_checker_complete_any (o : RulesF.Oracles) (s : Schema) (x : Occ) (hx : x ∈ s.occs)
    (hl : x.hd.info.nk = .lit → x.hd.info.lex.ty = .litEnd) (hv : violates o s.env x.hd = true) :
    checkSchema o s ≠ .ok :=
  CK.checker_complete_any o s x hx hl hv

open CK in
/-- … in particular inside ANY type of the table, wherever the visiting order (`Schema.visit`) puts it -/
theorem C04_checker_complete_type (o : RulesF.Oracles) (s : Schema) (t : TypeEntry) (ht : t ∈ s.types) (h : Hd)
    (hh : h ∈ preorder t.root) (hl : h.info.nk = .lit → h.info.lex.ty = .litEnd) (hv : violates o s.env h = true) :
    checkSchema o s ≠ .ok :=
  CK.checker_complete_any o s ⟨h, t.begin, some t.name⟩ (CK.mem_occs_of_type s t ht h hh) hl hv

open CK in
/-- COMPLETE + FIRST, with the reported position: when the structural checks of the root's nodes pass (rule / kind
compatibility, references) and the offsets of the nodes increase in source order (they do in every text:
`C04_offsets_increase`), a value of the root that violates one of its own rules — a bound, a length, a pattern, enum
membership, a format, const, the kind, an item count — makes the checker return `err code file pos` where `pos` is the start
offset of a value that violates one of its own rules, namely the FIRST such value in the text -/
theorem C04_checker_complete (o : RulesF.Oracles) (s : Schema) (r : Node) (hr : s.root = some r)
    (hlit : ∀ h ∈ preorder r, h.info.nk = .lit → h.info.lex.ty = .litEnd)
    (hst : ∀ h ∈ preorder r, structOK s.env h = true)
    (hsorted : ((preorder r).map fun h => h.info.lex.begin).Pairwise (· < ·))
    (hv : ∃ h ∈ preorder r, violates o s.env h = true) :
    ∃ h₀ ∈ preorder r, violates o s.env h₀ = true ∧
      (∀ h ∈ preorder r, violates o s.env h = true → h₀.info.lex.begin ≤ h.info.lex.begin) ∧
      ∃ code, checkSchema o s = .err code h₀.info.lex.file h₀.info.lex.begin none :=
  CK.checker_complete_offset o s r hr hlit hst hsorted hv

open CK in
/-- without the structural hypothesis: some node of the root offends ⇒ the reported error is the own error of the offending
node with the smallest offset -/
theorem C04_checker_first_offset (o : RulesF.Oracles) (s : Schema) (r : Node) (hr : s.root = some r)
    (hsorted : ((preorder r).map fun h => h.info.lex.begin).Pairwise (· < ·))
    (hv : ∃ h ∈ preorder r, nodeErr o s.env h ≠ none) :
    ∃ h₀ ∈ preorder r, ∃ p, nodeErr o s.env h₀ = some p ∧ checkSchema o s = panicRes none 0 p ∧
      ∀ h ∈ preorder r, nodeErr o s.env h ≠ none → h₀.info.lex.begin ≤ h.info.lex.begin :=
  CK.checker_first_offset o s r hr hsorted hv

open CK in
/-- in a text — whatever the gaps (blanks, line breaks, commas, keys, annotations) between the values — the offsets of the
nodes strictly increase in pre-order: the hypothesis `hsorted` above -/
theorem C04_offsets_increase (t : LT) (o : Nat) :
    ((preorder (t.place o)).map fun h => h.info.lex.begin).Pairwise (· < ·) :=
  CK.place_sorted t o

open CK in
/-- NO CRASH: the recursions of the node-local checks through the type table (`buildList`, `collectAllowedJsonTypes`,
`actualRootTypeVisiting`) never exhaust the model's fuel `|table| + 2`, for every table, cyclic ones included;
`checkArrayItems` has no visited set in the code: it is total when the arrays of the table carry no types list -/
theorem C04_checker_no_crash (o : RulesF.Oracles) (env : Env) (hT : ArraysFlat env) (h : Hd) (w : String) :
    nodeErr o env h ≠ some (.crash w) :=
  CK.nodeErr_no_crash o env hT h w

open CK in
/-- LITERAL = C02: `ValidateLiteralValue` as the checker runs it (with the error it raises) accepts exactly when the C02
model `RulesF.litOKFull` accepts the token on the rule list read off the constraint map: "violates one of its rules" is
the C02 meaning of the rules (`C02_accept_iff_full`) -/
theorem C04_literal_is_C02 (o : RulesF.Oracles) (k : Rules.Kind) (cs : List Cn) (tok : RulesF.Bytes)
    (hn : NullableTrue cs) (hc : ConstUnique cs) :
    validateLiteralValue o (jtOfKind k) cs tok = none ↔ RulesF.litOKFull o (specOf k cs) tok = true :=
  CK.validate_iff_litOKFull o k cs tok hn hc

open CK in
/-- … and for a literal node without a types list "some alternative admits the token" (the `litOK` of `C04_checker_sound`, the
negation of `violates`) IS that C02 predicate on the node's own rule list -/
theorem C04_literal_accepts_is_C02 (o : RulesF.Oracles) (env : Env) (i : Info) (k : Rules.Kind) (tok : RulesF.Bytes)
    (ht : typesList? i.cs = none) (hk : i.nk = .lit) (hj : i.jt = jtOfKind k)
    (hn : NullableTrue i.cs) (hc : ConstUnique i.cs) :
    literalAccepts o env i tok = RulesF.litOKFull o (specOf k i.cs) tok :=
  CK.literalAccepts_plain o env i k tok ht hk hj hn hc

/-! ### non-vacuity: one schema through all the statements

`[ 5, // {min: 1, max: 3}` / `"ab", // {maxLength: 1}` / `[] // {minItems: 0}` / `7 // {type: "@t"}` `]` with
`@t = 9 // {min: 8}`; offsets 0, 2, 24, 50, 70. -/
namespace Ex
open CK

def o0 : RulesF.Oracles := ⟨fun _ _ => true, fun _ => true, fun _ => true, fun _ => true⟩

def lit (jt : JT) (off : Nat) (tok : RulesF.Bytes) (cs : List Cn) : Node :=
  .mk { nk := .lit, jt := jt, lex := ⟨.litEnd, 0, off, tok⟩, cs := cs } []

def tT : TypeEntry := ⟨[64, 116], 1, 0, [102, 49], .mk { nk := .lit, jt := .integer, lex := ⟨.litEnd, 1, 0, [57]⟩, cs := [.min [56] false] } [], []⟩

/-- two violated rules (`5` against `max: 3` at offset 2, `"ab"` against `maxLength: 1` at offset 24) and a reference that
fails (`7` against `min: 8` of `@t` at offset 70) -/
def bad : Schema :=
  ⟨some (.mk { nk := .arr, jt := .array, lex := ⟨.other, 0, 0, []⟩, cs := [] }
    [lit .integer 2 [53] [.min [49] false, .max [51] false],
     lit .string 24 [34, 97, 98, 34] [.maxLength 1],
     .mk { nk := .arr, jt := .array, lex := ⟨.other, 0, 50, []⟩, cs := [.minItems 0] } [],
     lit .integer 70 [55] [.typesList [[64, 116]]]]), [tT]⟩

/-- the same with the rules obeyed -/
def good : Schema :=
  ⟨some (.mk { nk := .arr, jt := .array, lex := ⟨.other, 0, 0, []⟩, cs := [] }
    [lit .integer 2 [53] [.min [49] false, .max [55] false],
     lit .string 24 [34, 97, 98, 34] [.maxLength 2],
     .mk { nk := .arr, jt := .array, lex := ⟨.other, 0, 50, []⟩, cs := [.minItems 0] } [],
     lit .integer 70 [57] [.typesList [[64, 116]]]]), [tT]⟩

/-- the first of the three violations is reported, at its offset -/
example : checkSchema o0 bad = .err 602 0 2 none := by decide +kernel
example : checkSchema o0 good = .ok := by decide +kernel
/-- hypotheses of `C04_checker_sound` on `good` -/
example : good.root.isSome = true ∧ (good.root.map plain) = some true ∧ (good.root.map fun r => VP.nodupAll (toVP r)) = some true := by
  decide +kernel
/-- hypotheses of `C04_checker_complete` on `bad`: literals are literal-end lexemes, structural checks pass, offsets increase,
three nodes violate -/
example : (bad.root.map fun r => (preorder r).all fun h => structOK bad.env h && (h.info.nk != .lit || h.info.lex.ty == .litEnd)) = some true
    ∧ (bad.root.map fun r => ((preorder r).filter (violates o0 bad.env)).map fun h => h.info.lex.begin) = some [2, 24, 70] := by
  decide +kernel
/-- an item-count violation is reported at the `[` : `[1, 2] // {maxItems: 1}` -/
example : checkSchema o0 ⟨some (.mk { nk := .arr, jt := .array, lex := ⟨.other, 0, 4, []⟩, cs := [.maxItems 1] }
    [lit .integer 5 [49] [], lit .integer 8 [50] []]), []⟩ = .err 609 0 4 none := by decide +kernel
/-- two offending unnamed types (or-shortcut nodes of the files "f2" and "f1", both naming an undefined type): the one of "f1"
is reported, whatever their order in the table and whatever their names (addresses) -/
example : checkSchema o0 ⟨none,
    [⟨[35, 49], 2, 0, [102, 50], .mk { nk := .mixedValue, jt := .mixed, lex := ⟨.other, 2, 5, []⟩, cs := [.typesList [[64, 120]]] } [], []⟩,
     ⟨[35, 50], 1, 0, [102, 49], .mk { nk := .mixedValue, jt := .mixed, lex := ⟨.other, 1, 9, []⟩, cs := [.typesList [[64, 121]]] } [], []⟩]⟩
    = .err 1302 1 9 (some [35, 50]) := by decide +kernel
/-- an error inside a type names the type and its file: `@t = 9 // {min: 10}` -/
example : checkSchema o0 ⟨some (lit .integer 0 [55] []),
    [⟨[64, 116], 1, 0, [102, 49], .mk { nk := .lit, jt := .integer, lex := ⟨.litEnd, 1, 3, [57]⟩, cs := [.min [49, 48] false] } [], []⟩]⟩
    = .err 602 1 3 (some [64, 116]) := by decide +kernel
/-- fix F-38: two or-shortcuts at the same offset of two objects created with the SAME file name (`f`) and different
texts (`@m1 | @n`, `@m2 | @n`): the text of the file decides which is visited (and reported) first, whatever their names
(addresses) are -/
example :
    let a : TypeEntry := ⟨[35, 57], 1, 0, [102], .mk { nk := .mixedValue, jt := .mixed, lex := ⟨.other, 1, 0, []⟩, cs := [.typesList [[64, 109, 49]]] } [], [64, 109, 49]⟩
    let b : TypeEntry := ⟨[35, 49], 2, 0, [102], .mk { nk := .mixedValue, jt := .mixed, lex := ⟨.other, 2, 0, []⟩, cs := [.typesList [[64, 109, 50]]] } [], [64, 109, 50]⟩
    typeGoesFirst a b = true ∧ typeGoesFirst b a = false ∧
    (checkSchema o0 ⟨none, [a, b]⟩ = checkSchema o0 ⟨none, [b, a]⟩) := by decide +kernel
/-- `ArraysFlat` holds for the table of `bad` (hypothesis of `C04_checker_no_crash`) -/
example : ArraysFlat bad.env := by
  intro n t hl hk
  have : bad.env.types = [([64, 116], tT.root.hd)] := rfl
  unfold Env.lookup at hl
  rw [this] at hl
  simp only [List.find?] at hl
  split at hl
  · simp only [Option.map_some, Option.some.injEq] at hl
    subst hl
    simp [tT, Node.hd] at hk
  · simp at hl
/-- `C04_literal_is_C02`: the hypotheses hold for `[min 1, max 3]` and the two sides reject `5` -/
example : NullableTrue [Cn.min [49] false, .max [51] false] ∧ ConstUnique [Cn.min [49] false, .max [51] false]
    ∧ validateLiteralValue o0 (jtOfKind .i) [Cn.min [49] false, .max [51] false] [53] = some (.raw 602)
    ∧ RulesF.litOKFull o0 (specOf .i [Cn.min [49] false, .max [51] false]) [53] = false := by
  refine ⟨?_, ?_, by decide +kernel, by decide +kernel⟩
  · intro b hb; simp at hb
  · intro v hv; simp at hv
/-- a layout: `[ 5 , "ab" ]` with gaps 1 and 2 -/
example : ((preorder ((LT.branch { nk := .arr, jt := .array, lex := ⟨.other, 0, 0, []⟩, cs := [] }
    (.cons 1 (.leaf { nk := .lit, jt := .integer, lex := ⟨.litEnd, 0, 0, [53]⟩, cs := [] } 0)
      (.cons 2 (.leaf { nk := .lit, jt := .string, lex := ⟨.litEnd, 0, 0, [34, 97, 98, 34]⟩, cs := [] } 3) .nil)) 2).place 10)).map
      fun h => h.info.lex.begin) = [10, 12, 15] := by decide +kernel
end Ex

/-! ### Bridge (A)∩(C): `Compile.check` (text-level pipeline of C01) and `CK.checkSchema` model ONE piece of code

`BridgeCK.dumpOf` is the dump of the compiled tree `Compile.CN` (+ type table) that the hook `VerifCheckerDump` would
print, as far as `CN` keeps it (positions 0, a marker constraint for `bad`, one unnamed type per or-shortcut inside a
named type); `BridgeCK.checkA` is `Compile.check` without `CheckRecursion`; `BridgeCK.checkC` is `CK.checkSchema` on
the dump with the oracles (A) uses. -/

open BridgeCK in
/-- the FULL statement: whenever neither side runs out of fuel ((C): `crash`, (A): `unsupported`), the two checkers
give the same verdict and the same error code. NOT PROVED in this session (the (A)∩(B) bridge came first); validated at
run time by `vh bridge-models` on every schema that reaches the checker (component `C`: no disagreement after the repair
of (A)'s key-shortcut order). -/
def C04_models_agree_full : Prop :=
  ∀ (root : Option Compile.CN) (ts : Compile.Types),
    match resOf (checkC root ts) with
    | none => True
    | some c => isUnsupported (checkA root ts) = false → codeOfA (checkA root ts) = codeOfA c

open BridgeCK in
/-- `Compile.check` = `checkA` (CheckRootSchema, what (C) models), then `CheckRecursion` -/
theorem C04_check_splits (root : Compile.CN) (ts : Compile.Types) :
    Compile.check root ts =
      (match checkA (some root) ts with
       | .error e => .error e
       | .ok () => if TG.check (Compile.tgOf root ts) then .ok () else .error (.code 104 0)) := by
  unfold Compile.check checkA
  simp only []
  cases h1 : Compile.checkNode ts (Compile.checkFuel (some root) ts) root with
  | error e => rfl
  | ok u =>
    cases u
    simp only []
    by_cases h2 : (!List.all ts fun t => Compile.orShortsOK ts t.snd) = true
    · simp only [h2, if_true]
    · simp only [h2, if_false]
      cases h3 : Compile.checkTypes ts (Compile.checkFuel (some root) ts) (Compile.sortNames (List.map (fun x => x.fst) ts)) with
      | error e => rfl
      | ok u => cases u; rfl

namespace BridgeEx
open BridgeCK Compile
def litI (tok : String) (rules : List RulesF.Rule) : CN := .lit { kind := .i, ex := sb tok, nul := false, rules := rules } false
/-- `{ @k: 1, @z: 2 }` with `@k = 5`: the first shortcut key names a non-string type (1304), the second an undefined
one (1302) — the order the bridge repaired in (A): both models answer 1304 -/
def keysRoot : CN := .obj [("k", true, true, false, litI "1" []), ("z", true, true, false, litI "2" [])] .absent false false
def keysTypes : Types := [("@k", litI "5" [])]
example : codeOfA (checkA (some keysRoot) keysTypes) = some 1304 ∧ checkC (some keysRoot) keysTypes = .err 1304 0 0 none := by
  decide +kernel
/-- `[ 5 // {min: 7} ]`: the EXAMPLE violates its own rule, 602 in both -/
def badEx : CN := .arr [litI "5" [.min (sb "7") false]] false false
example : codeOfA (checkA (some badEx) []) = some 602 ∧ checkC (some badEx) [] = .err 602 0 0 none := by decide +kernel
/-- `1 // {type: "@a"}` with `@a = "s"`: 1301 in both; with `@a = 2 // {min: 3}`: the EXAMPLE 1 fails the type's rule, 602 in both -/
def refRoot : CN := .ref ["@a"] false .int (some (sb "1")) false
example : codeOfA (checkA (some refRoot) [("@a", .lit { kind := .s, ex := sb "\"s\"", nul := false, rules := [] } false)]) = some 1301
    ∧ checkC (some refRoot) [("@a", .lit { kind := .s, ex := sb "\"s\"", nul := false, rules := [] } false)] = .err 1301 0 0 none := by
  decide +kernel
example : codeOfA (checkA (some refRoot) [("@a", litI "2" [.min (sb "3") false])]) = some 602
    ∧ checkC (some refRoot) [("@a", litI "2" [.min (sb "3") false])] = .err 602 0 0 none := by decide +kernel
/-- an accepted schema: `[ 5 // {min: 1} ]` -/
def goodEx : CN := .arr [litI "5" [.min (sb "1") false]] false false
example : codeOfA (checkA (some goodEx) []) = none ∧ isUnsupported (checkA (some goodEx) []) = false
    ∧ checkC (some goodEx) [] = .ok := by decide +kernel
end BridgeEx


/-! ### Bridge (A)∩(C), second part

`BridgeCK2Order.lean` (the visiting order), `BridgeCK2NoRef.lean` / `BridgeCK2Types.lean` (the reference-free,
validator-free class, any type table), `BridgeCK2.lean` (the class of `C01_text_level`; the text-level pipeline with
(C)'s checker). -/

open BridgeCK in
/-- **the unrestricted statement of the first part is false** — on a `CN` tree that `compileNode` never builds: a literal
node `5` with a `minLength` validator whose compatibility flag says "compatible". (A) trusts the flag and reports the
validator (603), (C) recomputes the compatibility from the dumped constraints (1117). `compileNode` computes the flag
from the constraints (`bFinish`), so the statement has to be about COMPILED trees: `C04_models_agree_compiled_full`. -/
theorem C04_models_agree_full_false : ¬ C04_models_agree_full := by
  intro hfull
  have h := hfull (some wBad) []
  rw [wBad_facts.1] at h
  have h2 := h wBad_facts.2.2
  rw [wBad_facts.2.1] at h2
  exact absurd h2 (by decide)

open BridgeCK in
/-- a second family outside which the unrestricted statement fails (also never built by `compileNode`): a named type
whose root is an `any` node of JSON type `mixed`, referenced by a node with an EXAMPLE — 1301 in (A), code 1 in (C) -/
theorem C04_models_agree_full_false_any :
    checkC (some wAnyRoot) wAnyTs = .err 1 0 0 none ∧ codeOfA (checkA (some wAnyRoot) wAnyTs) = some 1301 ∧
      isUnsupported (checkA (some wAnyRoot) wAnyTs) = false := wAny_facts

open BridgeCK in
/-- what remains to be proved — exactly what `vh bridge-models` (component `C`) samples: the agreement on every tree
that `Compile.compileNode` BUILDS (root and every named type the compiled tree of some node table), whenever neither
side runs out of fuel. PROVED for the class of `C04_models_agree` (which is stated on trees, compiled or not); open for
nodes with an EXAMPLE and a types list, or-shortcuts and type aliases (the reference-following loops).
Third part: as stated (over every node TABLE, loader-produced or not) it is FALSE — `C04_models_agree_compiled_full_false`;
on the decidable class `xr` (EXAMPLE + types list, aliases, or-shortcuts) it is proved: `C04_models_agree_compiled`,
`C04_models_agree_compiled_partial`. -/
def C04_models_agree_compiled_full : Prop :=
  ∀ (root : Option Compile.CN) (ts : Compile.Types),
    (∀ r, root = some r → ∃ tbl opt fuel i p o, Compile.compileNode tbl opt fuel i p = .ok (r, o)) →
    (∀ t ∈ ts, ∃ tbl opt fuel i p o, Compile.compileNode tbl opt fuel i p = .ok (t.2, o)) →
    match resOf (checkC root ts) with
    | none => True
    | some c => isUnsupported (checkA root ts) = false → codeOfA (checkA root ts) = codeOfA c

open BridgeCK in
/-- **C04_sort_names_is_typeGoesFirst**: (A) visits the named types in the order of Lean's `String <`
(`Compile.sortNames` = `sort.Strings`), (C) in the order of `CK.typeGoesFirst` (bytewise `<`, fix F-34). On type names
that occur — pairwise different, named (`@…`), every character one byte (ASCII type names are) — the comparison is
the same function and the two visits are the same list of entries. -/
theorem C04_sort_names_is_typeGoesFirst :
    (∀ a b : String, byteChars a → byteChars b → Compile.strLt a b = CK.bytesLt (name a) (name b)) ∧
    (∀ ts : Compile.Types, (ts.map (·.1)).Nodup → (∀ t ∈ ts, byteChars t.1 ∧ CK.isUnnamed (name t.1) = false) →
      CK.sortTypes (ts.map typeEntry) = (sortTs ts).map typeEntry ∧
      (sortTs ts).map (·.1) = Compile.sortNames (ts.map (·.1)) ∧
      (CK.sortTypes (ts.map typeEntry)).map (·.name) = (Compile.sortNames (ts.map (·.1))).map name) :=
  ⟨strLt_bytesLt, fun ts hn hb => ⟨sort_entries ts hn hb, sortTs_names ts, sort_agree ts hn hb⟩⟩

open BridgeCK in
/-- **C04_models_agree** (the reference-free class: literal nodes WITH their validators — the EXAMPLE against its own
rules: min / max / exclusive, precision, minLength / maxLength, enum, regex, const, the formats but `email`; of a
guessable kind, flag exact — or flagged incompatible; `any` nodes; TYPE SHORTCUTS `@t` (a node whose types list is its
whole content: every name defined, else 1302); arrays; objects with KEY SHORTCUTS (`@k : …`: the key
type defined — 1302 — and a string — 1304 —, key by key) and every `additionalProperties` mode incl. `"@T"`; nullable;
the compatibility flags; ANY type table of such trees under pairwise different, named,
single-byte names; with or without root): `checkA root ts` (`Compile`'s CheckRootSchema) = `CK.checkSchema noOracles
(dumpOf root ts)` read back by `resOf` — the same verdict and the same first error CODE (1117, 1302, 1304, and the validator
codes 602, 603, 610 … 616, 0: (A) keeps the failing validator of least `constraint.Type`, (C) sorts by it and stops at the
first), found at the same node of the same tree in the same visiting order; on this class neither side runs out of
fuel (the equation excludes `crash` and `unsupported`); the root of a named type is not itself a type shortcut
(`notRef`). Outside: a node WITH an example and a types list (`1 // {type: "@t"}`, `or` rules), or-shortcuts `@a | @b`
(their unnamed types), a type that is an alias of another — the reference-following loops `collectAllowedJsonTypes` /
`buildList` / `actualRootType` —, see `C04_models_agree_compiled_full`. -/
theorem C04_models_agree (root : Option Compile.CN) (ts : Compile.Types) (hroot : ∀ r, root = some r → nr r = true)
    (hts : ∀ t ∈ ts, nr t.2 = true ∧ byteChars t.1 ∧ CK.isUnnamed (name t.1) = false ∧ notRef t.2 = true)
    (hnd : (ts.map (·.1)).Nodup) :
    resOf (checkC root ts) = some (checkA root ts) :=
  agree_noref root ts hroot hts hnd

open BridgeCK in
/-- one node, any (C)-table whose entries are the dumps of (A)'s (`EnvRel`), any fuel ≥ 1: (C)'s `checkNode` on the dump
of the tree is (A)'s `checkNode` (first error in the same traversal order) -/
theorem C04_models_agree_node (ts : Compile.Types) (env : CK.Env) (fuel : Nat) (hE : EnvRel ts env)
    (hT : ∀ n cn, Compile.lookupT ts n = some cn → nr cn = true ∧ notRef cn = true) (hf : ∃ f, fuel = f + 1) (cn : Compile.CN)
    (h : nr cn = true) :
    CK.checkNode Compile.noOracles env (dumpNode cn) = panicOf (Compile.checkNode ts fuel cn) :=
  node_agree ts env fuel hE hT hf cn h

open BridgeCK in
/-- the class of `C01_text_level` (the compiled tree of a plain-JSON value, no types): both checkers accept -/
theorem C04_models_agree_plain (opt : Bool) (v : Lay.JV) (hg : E2E.guessable v = true) :
    resOf (checkC (some (E2E.cnOf opt v)) []) = some (checkA (some (E2E.cnOf opt v)) []) :=
  agree_plain opt v hg

/-- **the pipeline may use (C)'s checker**: `E2E.validateTextCK` is `E2E.validateText` with `Compile.check` replaced by
`CK.checkSchema ∘ dumpOf` (then `CheckRecursion`); wherever the two checkers agree on the compiled schema (the
hypothesis is `C04_models_agree` / `C04_models_agree_plain` on their classes) the two pipelines give the same outcome,
so `C04_checker_sound / _complete` speak about the checker stage of the text-level pipeline -/
theorem C04_pipeline_with_checker_model (root : List UInt8) (types : List (String × List UInt8)) (doc : List UInt8)
    (opt : Bool)
    (hagree : ∀ r ts, E2E.loadSchema root opt = .ok r → E2E.loadTypes types = .ok ts →
      E2E.checkCK r ts = some (BridgeCK.checkA r ts)) :
    E2E.validateTextCK root types doc opt = E2E.validateText root types doc opt :=
  E2E.validateTextCK_eq root types doc opt hagree

/-- **C01_text_level_with_checker_model**: the text-level theorem of C01, word for word, for the pipeline whose checker
stage is the checker model of C04 -/
theorem C01_text_level_with_checker_model (opt : Bool) (t : Lay.BTree) (hv : t.Valid) (hk : t.value.KeysNodup)
    (hg : E2E.guessable t.value = true) (w0 w1 : List Lay.LI) (h0 : Lay.ValidL w0) (h1 : Lay.ValidL w1)
    (fin : List UInt8) (hf : Lay.IsFin fin)
    (d : VPos.T UInt8) (hd : (VPos.toJA JsonScan.classify d).Valid) (ws0 ws1 : List UInt8)
    (hw0 : JsonScan.IsWs (ws0.map JsonScan.classify)) (hw1 : JsonScan.IsWs (ws1.map JsonScan.classify)) :
    E2E.validateTextCK (Lay.docTextF w0 t w1 fin) [] (ws0 ++ (d.render VPos.byteSym ++ ws1)) opt
      = if VN.shape E2E.kindOKTok (E2E.schemaOf opt t.value) (E2E.docOf d) then .acc else .rej :=
  E2E.text_level_ck opt t hv hk hg w0 w1 h0 h1 fin hf d hd ws0 ws1 hw0 hw1

namespace BridgeEx2
open BridgeCK Compile
def litS (tok : String) (k : Rules.Kind) : CN := .lit { kind := k, ex := sb tok, nul := false, rules := [] } false
/-- root `{ "a": 1, "b": [true] } // {additionalProperties: "@zz"}` with the types `@b = {} (flagged incompatible)`,
`@a = "x"`: (A) and (C) both stop at the root (1302: `@zz` is not defined); without the rule both visit `@a` first and
then stop at `@b` (1117) -/
def tsEx : Types := [("@b", .obj [] .absent false true), ("@a", litS "\"x\"" .s)]
def rootEx (add : Add) : CN :=
  .obj [("a", false, true, false, litS "1" .i), ("b", false, true, false, .arr [litS "true" .b] true false)] add false false
/-- non-vacuity of `C04_models_agree` / `C04_sort_names_is_typeGoesFirst`: the hypotheses hold, errors on both sides -/
example : nr (rootEx (.type "@zz")) = true ∧
    (∀ t ∈ tsEx, nr t.2 = true ∧ byteChars t.1 ∧ CK.isUnnamed (name t.1) = false ∧ notRef t.2 = true) ∧
    (tsEx.map (·.1)).Nodup := by decide +kernel
example : checkC (some (rootEx (.type "@zz"))) tsEx = .err 1302 0 0 none ∧
    codeOfA (checkA (some (rootEx (.type "@zz"))) tsEx) = some 1302 := by decide +kernel
example : checkC (some (rootEx .absent)) tsEx = .err 1117 0 0 (some (name "@b")) ∧
    codeOfA (checkA (some (rootEx .absent)) tsEx) = some 1117 ∧ (sortTs tsEx).map (·.1) = ["@a", "@b"] := by decide +kernel
example : checkC (some (rootEx (.type "@a"))) [("@a", litS "\"x\"" .s)] = .ok ∧
    codeOfA (checkA (some (rootEx (.type "@a"))) [("@a", litS "\"x\"" .s)]) = none ∧
    isUnsupported (checkA (some (rootEx (.type "@a"))) [("@a", litS "\"x\"" .s)]) = false := by decide +kernel
/-- the instance of the theorem -/
example : resOf (checkC (some (rootEx .absent)) tsEx) = some (checkA (some (rootEx .absent)) tsEx) :=
  C04_models_agree _ _ (fun r h => by cases h; decide +kernel) (by decide +kernel) (by decide +kernel)
/-- `[ 5 // {min: 7, max: 3} ]` and `"ab" // {minLength: 3, enum: ["x"]}`: the EXAMPLE fails its validators — the one of
least constraint type wins on both sides (602 before 602; 603 before 610) -/
def badMin : CN := .arr [.lit { kind := .i, ex := sb "5", nul := false, rules := [.max (sb "3") false, .min (sb "7") false] } false] false false
def badLen : CN := .lit { kind := .s, ex := sb "\"ab\"", nul := true, rules := [.enum [sb "\"x\""], .minLength 3] } false
example : nr badMin = true ∧ nr badLen = true := by decide +kernel
example : checkC (some badMin) [] = .err 602 0 0 none ∧ codeOfA (checkA (some badMin) []) = some 602 ∧
    checkC (some badLen) [] = .err 603 0 0 none ∧ codeOfA (checkA (some badLen) []) = some 603 := by decide +kernel
example : resOf (checkC (some badLen) tsEx) = some (checkA (some badLen) tsEx) :=
  C04_models_agree _ _ (fun r h => by cases h; decide +kernel) (by decide +kernel) (by decide +kernel)
/-- `{ @a: 1, @b: 2 }` with `@a = "x"`, `@b = {}`: the second key type is not a string — 1304 on both sides; with an
undefined `@zz` first: 1302 -/
def keysObj (k1 k2 : String) : CN := .obj [(k1, true, true, false, litS "1" .i), (k2, true, true, false, litS "2" .i)] .absent false false
example : nr (keysObj "a" "b") = true ∧ nr (keysObj "zz" "b") = true := by decide +kernel
example : checkC (some (keysObj "a" "b")) tsEx = .err 1304 0 0 none ∧ codeOfA (checkA (some (keysObj "a" "b")) tsEx) = some 1304 ∧
    checkC (some (keysObj "zz" "b")) tsEx = .err 1302 0 0 none ∧ codeOfA (checkA (some (keysObj "zz" "b")) tsEx) = some 1302 := by
  decide +kernel
/-- `[ @a, @nope ]`: the second item names an undefined type — 1302 on both sides; `[ @a, @b ]` is accepted -/
def refsArr (n : String) : CN := .arr [.ref ["@a"] false .mixed none false, .ref [n] true .mixed none false] false false
example : nr (refsArr "@nope") = true ∧ checkC (some (refsArr "@nope")) tsEx = .err 1302 0 0 none ∧
    codeOfA (checkA (some (refsArr "@nope")) tsEx) = some 1302 := by decide +kernel
example : nr (refsArr "@a") = true ∧ checkC (some (refsArr "@a")) [("@a", litS "\"x\"" .s)] = .ok ∧
    codeOfA (checkA (some (refsArr "@a")) [("@a", litS "\"x\"" .s)]) = none := by decide +kernel
/-- non-vacuity of `C04_models_agree_plain`: `[1, "a"]` -/
example : E2E.guessable (.arr [.lit (sb "1"), .lit (sb "\"a\"")]) = true := by decide +kernel
end BridgeEx2

/-! ### Bridge (A)∩(C), third part: nodes that carry an EXAMPLE together with a types list

`BridgeCK3Lit.lean` (a token against the validator of ANOTHER node), `BridgeCK3Loops.lean` (the reference-following
loops `collectAllowedJsonTypes` / `buildList` of the two models, related for any amounts of fuel), `BridgeCK3Node.lean`
(the node), `BridgeCK3Tree.lean` (tree and type table on the class `xr`), `BridgeCK3Fuel.lean` ((A) never runs out of
`Compile.checkFuel` — after its repair, see there). -/

open BridgeCK in
/-- **C04_text_checker_never_out_of_fuel**: the checker of the text-level pipeline never answers "out of fuel" — on
every compiled tree and every type table (cyclic ones included) `Compile.checkFuel` units are enough for the
reference-following loops `allowed` (collectAllowedJsonTypes) and `exampleAlts` (buildList): the counterpart of
`C04_checker_no_crash` for model (A). (The proof attempt exposed that the previous amount `|types| + 2 + names` was NOT
enough — `@T = 1 // {or: ["@x" × 7, "@a"]}`, `@a = 2 // {type: "@T"}`: the library answers 1303, (A) answered
`unsupported "fuel"`; `checkFuel` now counts the names twice.) -/
theorem C04_text_checker_never_out_of_fuel :
    (∀ (root : Option Compile.CN) (ts : Compile.Types) (w : String), checkA root ts ≠ .error (.unsupported w)) ∧
    (∀ (root : Compile.CN) (ts : Compile.Types) (w : String), Compile.check root ts ≠ .error (.unsupported w)) :=
  ⟨checkA_no_fuel, check_no_fuel⟩

open BridgeCK in
/-- **C04_allowed_json_types_agree** (`collectAllowedJsonTypes`): for ANY amounts of fuel on the two sides, any path set
and any list of names, (A)'s `Compile.allowed` and (C)'s `CK.collectNames ∘ CK.collect` either stop with the same error
code (1302 undefined, 1303 recursion) or return the same set of allowed JSON types ((A): the list, `none` = every type;
(C): appended to its accumulator) — unless one of them ran out of fuel (`RelE.fuelA` / `fuelC`). Chains of references of
any length, type shortcuts and cycles included; the table: any types whose roots are literals without `email`, `any`
nodes, arrays, objects or nodes with a types list of type names (`headOK`; `nameOK`: single-byte characters, not a `#…` name; (C)'s table the
dump of (A)'s on such names: `EnvRelN`). -/
theorem C04_allowed_json_types_agree (ts : Compile.Types) (env : CK.Env) (hE : EnvRelN ts env)
    (hT : ∀ n cn, Compile.lookupT ts n = some cn → headOK cn = true)
    (fA fC : Nat) (found names : List String) (acc : List CK.JT) (hn : ∀ n ∈ names, nameOK n)
    (hf : ∀ n ∈ found, nameOK n) :
    RelE (RAllowed acc) (Compile.allowed ts fA found names)
      (CK.collectNames (CK.collect env fC) env (found.map name) (names.map name) acc) :=
  collect_rel ts env hE hT fA fC found names acc hn hf

open BridgeCK in
/-- **C04_example_alternatives_agree** (`buildList`): for ANY amounts of fuel, (A)'s `Compile.exampleAlts` and (C)'s
`CK.buildNames ∘ CK.build` either stop with the same error code or expand the same names in the same order and produce
one alternative per type root reached, each with the same verdict on the EXAMPLE token (`RAlts`: (C)'s checker applied
to the token's lexeme = (A)'s `litErr` / 1201) — unless one of them ran out of fuel. -/
theorem C04_example_alternatives_agree (ts : Compile.Types) (env : CK.Env) (hE : EnvRelN ts env)
    (hT : ∀ n cn, Compile.lookupT ts n = some cn → headOK cn = true) (tok : List UInt8) (d : Rules.Kind)
    (hd : RulesF.kindOfTok tok = some d) (hen : (RulesF.enumItem tok).isSome = true)
    (fA fC : Nat) (added names : List String) (l : List CK.Chk) (hn : ∀ n ∈ names, nameOK n)
    (ha : ∀ n ∈ added, nameOK n) :
    RelE (RAlts tok l) (Compile.exampleAlts ts tok fA added names)
      (CK.buildNames (CK.build env fC) env (names.map name) (added.map name, l)) :=
  build_rel ts env hE hT tok d hd hen fA fC added names l hn ha

open BridgeCK in
/-- **C04_models_agree_or_list** — step (2), which contains step (1): a literal node with an EXAMPLE `tok` and a types
list `names` (`{type: "@t"}`: one name; `{or: ["@a", "@b", …]}`: several, repetitions allowed), against ANY type table whose
roots the loops can read (`headOK`; (C)'s table the dump of (A)'s: `EnvRelN`), with any fuel that covers the list in hand
and the root lists of the table (`budget`; `Compile.checkFuel` does): (C)'s `checkNode` on the dump of the node is (A)'s
`checkNode` — `checkLinksOfNode` (1302 / 1303 / 1301: the same set of allowed JSON types) and `checkLiteralNode` (one
alternative: its first failing validator's code, 210 for a wrong kind; several alternatives all failing: 204; an
undefined name met by `buildList`: 1302), through chains of references of any length. (A)'s error carries position 0
(`Pos`). -/
theorem C04_models_agree_or_list (ts : Compile.Types) (env : CK.Env) (fuel : Nat) (hE : EnvRelN ts env)
    (hT : ∀ n cn, Compile.lookupT ts n = some cn → headOK cn = true)
    (names : List String) (nul : Bool) (jt : Compile.JT) (tok : List UInt8) (os : Bool)
    (hj : (jt == Compile.JT.mixed) = false) (htok : tokOK jt tok = true) (hb : ∀ n ∈ names, nameOK n)
    (hfuel : names.length + 1 + budget [] ts ≤ fuel) :
    CK.checkNode Compile.noOracles env (dumpNode (.ref names nul jt (some tok) os)) =
        panicOf (Compile.checkNode ts fuel (.ref names nul jt (some tok) os)) ∧
      Pos (Compile.checkNode ts fuel (.ref names nul jt (some tok) os)) :=
  refex_agree ts env fuel hE hT ⟨fuel - 1, by omega⟩ names nul jt tok os hj htok hb
    (node_fuel ts fuel _ (by simp only [Compile.namesCount]; omega))

open BridgeCK in
/-- **C04_models_agree_typed_literal** — step (1): `tok // {type: "@t"}`, where `@t` resolves through a chain of
`{type}` references of any length (or does not: 1302, 1303) -/
theorem C04_models_agree_typed_literal (ts : Compile.Types) (env : CK.Env) (fuel : Nat) (hE : EnvRelN ts env)
    (hT : ∀ n cn, Compile.lookupT ts n = some cn → headOK cn = true)
    (t : String) (nul : Bool) (jt : Compile.JT) (tok : List UInt8)
    (hj : (jt == Compile.JT.mixed) = false) (htok : tokOK jt tok = true) (hb : nameOK t)
    (hfuel : 2 + budget [] ts ≤ fuel) :
    CK.checkNode Compile.noOracles env (dumpNode (.ref [t] nul jt (some tok) false)) =
        panicOf (Compile.checkNode ts fuel (.ref [t] nul jt (some tok) false)) ∧
      Pos (Compile.checkNode ts fuel (.ref [t] nul jt (some tok) false)) :=
  C04_models_agree_or_list ts env fuel hE hT [t] nul jt tok false hj htok
    (fun n hn => by simp only [List.mem_singleton] at hn; exact hn ▸ hb) (by simpa using hfuel)

open BridgeCK in
/-- **C04_models_agree_compiled** — the largest class reached (`xr`): everything of `C04_models_agree` (literal nodes
with validators, `any` nodes, type shortcuts, arrays, objects with key shortcuts and every additionalProperties mode)
PLUS (1, 2) nodes that carry an EXAMPLE together with a types list (`type`, `or`; the token guessable and an enum item),
PLUS named types whose root is such a node or a type shortcut (aliases: chains and cycles of any length) — the hypothesis
`notRef` of `C04_models_agree` is gone; only the type a KEY shortcut names must not be a type shortcut / or-shortcut
(`keyDirect`: a literal, also a typed one `"ab" // {type: "@s"}`, an object, an array) —, PLUS (3) OR-SHORTCUTS
`@a | @b` anywhere, with the unnamed types `#…` they own inside named types: (C) visits them before every named type
(`typeGoesFirst`: `#` < `@`), each fails with 1302 or not at all, which is (A)'s `orShortsOK` stage. Type names start with
`@`, single-byte, pairwise different. On this class `checkA root ts` = `CK.checkSchema noOracles (dumpOf root ts)` read
back: the same verdict, the same first error code; the equation excludes "out of fuel" on both sides. Outside: key
shortcuts whose type is an alias `@k = @s` / `@k = @a | @b` (`actualRootType` through references), the `email` validator,
`any` on a type shortcut. -/
theorem C04_models_agree_compiled (root : Option Compile.CN) (ts : Compile.Types)
    (hroot : ∀ r, root = some r → xr ts r = true)
    (hts : ∀ t ∈ ts, xr ts t.2 = true ∧ byteChars t.1 ∧ (name t.1).head? = some 64)
    (hnd : (ts.map (·.1)).Nodup) :
    resOf (checkC root ts) = some (checkA root ts) :=
  agree_typed root ts hroot hts hnd

open BridgeCK in
/-- the statement `C04_models_agree_compiled_full` restricted to the decidable class `xr` -/
theorem C04_models_agree_compiled_partial (root : Option Compile.CN) (ts : Compile.Types)
    (hroot : ∀ r, root = some r → xr ts r = true)
    (hts : ∀ t ∈ ts, xr ts t.2 = true ∧ byteChars t.1 ∧ (name t.1).head? = some 64)
    (hnd : (ts.map (·.1)).Nodup) :
    match resOf (checkC root ts) with
    | none => True
    | some c => isUnsupported (checkA root ts) = false → codeOfA (checkA root ts) = codeOfA c := by
  rw [agree_typed root ts hroot hts hnd]
  exact fun _ => rfl

open BridgeCK in
/-- **the statement over ALL trees `compileNode` builds is false too** — `Compile.compileNode` accepts node tables no
loader produces: a type-shortcut node carrying nothing but a hand-written `type: "any"` compiles to `.any .mixed none`
(`wAny_type_compiled`), `1 // {type: "@t"}` to `wAnyRoot` (`wAny_root_compiled`), and on that pair the models disagree
(`C04_models_agree_full_false_any`: 1301 in (A), code 1 in (C)). The real library cannot reach it: `@x // {type: "any"}`
is refused with 501 (duplicate "type" rule) while the text is loaded — a shortcut always carries its synthesised rule.
The statement has to be about a decidable CLASS of trees: `C04_models_agree_compiled` (`xr`, which excludes `any` on a
type shortcut). -/
theorem C04_models_agree_compiled_full_false : ¬ C04_models_agree_compiled_full := by
  intro hfull
  have h := hfull (some wAnyRoot) wAnyTs
    (fun r hr => by
      cases hr
      obtain ⟨o, ho⟩ := wAny_root_compiled
      exact ⟨_, _, _, _, _, o, ho⟩)
    (fun t ht => by
      simp only [wAnyTs, List.mem_singleton] at ht
      subst ht
      obtain ⟨o, ho⟩ := wAny_type_compiled
      exact ⟨_, _, _, _, _, o, ho⟩)
  rw [wAny_facts.1] at h
  have h2 := h wAny_facts.2.2
  rw [wAny_facts.2.1] at h2
  exact absurd h2 (by decide)

open BridgeCK in
/-- **C04_pipeline_with_checker_model_compiled** (`C04_pipeline_with_checker_model` / `C01_text_level_with_checker_model`
instantiated for the class): for schema and type TEXTS whose loaded form lies in `xr`, the text-level pipeline with the
checker MODEL of C04 inside (`E2E.validateTextCK`) gives the outcome of `E2E.validateText` on every document text — every
text-level theorem about `validateText` speaks about the pipeline whose checker stage `C04_checker_sound / _complete`
describe. -/
theorem C04_pipeline_with_checker_model_compiled (root : List UInt8) (types : List (String × List UInt8))
    (doc : List UInt8) (opt : Bool)
    (hcls : ∀ r ts, E2E.loadSchema root opt = .ok r → E2E.loadTypes types = .ok ts →
      (∀ x, r = some x → xr ts x = true) ∧
      (∀ t ∈ ts, xr ts t.2 = true ∧ byteChars t.1 ∧ (name t.1).head? = some 64) ∧ (ts.map (·.1)).Nodup) :
    E2E.validateTextCK root types doc opt = E2E.validateText root types doc opt :=
  C04_pipeline_with_checker_model root types doc opt fun r ts h1 h2 =>
    agree_typed r ts (hcls r ts h1 h2).1 (hcls r ts h1 h2).2.1 (hcls r ts h1 h2).2.2

namespace BridgeEx3
open BridgeCK Compile
def litI (tok : String) (rules : List RulesF.Rule) : CN := .lit { kind := .i, ex := sb tok, nul := false, rules := rules } false
def litS (tok : String) : CN := .lit { kind := .s, ex := sb tok, nul := false, rules := [] } false
def refI (names : List String) (tok : String) : CN := .ref names false .int (some (sb tok)) false
/-- `1 // {type: "@a"}`, `@a = 2 // {type: "@b"}`, `@b = 4 // {min: 3}`: the EXAMPLE 1 fails the rule two references
away (602 on both sides), and so does the EXAMPLE 2 of `@a` -/
def chainTs : Types := [("@a", refI ["@b"] "2"), ("@b", litI "4" [.min (sb "3") false])]
example : xr chainTs (refI ["@a"] "1") = true ∧
    (∀ t ∈ chainTs, xr chainTs t.2 = true ∧ byteChars t.1 ∧ (name t.1).head? = some 64) ∧
    (chainTs.map (·.1)).Nodup := by decide +kernel
example : checkC (some (refI ["@a"] "1")) chainTs = .err 602 0 0 none ∧
    codeOfA (checkA (some (refI ["@a"] "1")) chainTs) = some 602 := by decide +kernel
example : resOf (checkC (some (refI ["@a"] "1")) chainTs) = some (checkA (some (refI ["@a"] "1")) chainTs) :=
  C04_models_agree_compiled _ _ (fun r h => by cases h; decide +kernel) (by decide +kernel) (by decide +kernel)
/-- `5 // {type: "@a"}` passes the chain (accepted); `"x" // {type: "@a"}` has the wrong JSON type (1301) -/
example : checkC (some (refI ["@a"] "5")) [("@a", refI ["@b"] "4"), ("@b", litI "4" [.min (sb "3") false])] = .ok ∧
    (codeOfA (checkA (some (refI ["@a"] "5")) [("@a", refI ["@b"] "4"), ("@b", litI "4" [.min (sb "3") false])]) = none ∧ isUnsupported (checkA (some (refI ["@a"] "5")) [("@a", refI ["@b"] "4"), ("@b", litI "4" [.min (sb "3") false])]) = false) := by
  decide +kernel
example : checkC (some (.ref ["@a"] false .str (some (sb "\"x\"")) false)) chainTs = .err 1301 0 0 none ∧
    codeOfA (checkA (some (.ref ["@a"] false .str (some (sb "\"x\"")) false)) chainTs) = some 1301 := by decide +kernel
/-- `1 // {or: ["@s", "@b"]}` with `@s = "x"`, `@b = 4 // {min: 3}`: both alternatives fail — 204; with `@b` alone: 602;
with an undefined name: 1302 -/
def orTs : Types := [("@s", litS "\"x\""), ("@b", litI "4" [.min (sb "3") false])]
example : xr orTs (refI ["@s", "@b"] "1") = true := by decide +kernel
example : checkC (some (refI ["@s", "@b"] "1")) orTs = .err 204 0 0 none ∧
    codeOfA (checkA (some (refI ["@s", "@b"] "1")) orTs) = some 204 ∧
    checkC (some (refI ["@s", "@nope"] "1")) orTs = .err 1302 0 0 none ∧
    codeOfA (checkA (some (refI ["@s", "@nope"] "1")) orTs) = some 1302 ∧
    checkC (some (refI ["@s", "@b"] "7")) orTs = .ok ∧ (codeOfA (checkA (some (refI ["@s", "@b"] "7")) orTs) = none ∧ isUnsupported (checkA (some (refI ["@s", "@b"] "7")) orTs) = false) := by
  decide +kernel
/-- the witness that exposed the fuel slip: `@T = 1 // {or: ["@x" × 9, "@a"]}`, `@a = 2 // {type: "@T"}`, `@x = 3`: the
chain comes back to `@a` — 1303 on both sides (before the repair of `checkFuel`: `unsupported "fuel"` in (A)) -/
def cycTs : Types := [("@T", refI (List.replicate 9 "@x" ++ ["@a"]) "1"), ("@a", refI ["@T"] "2"), ("@x", litI "3" [])]
example : (∀ t ∈ cycTs, xr cycTs t.2 = true ∧ byteChars t.1 ∧ (name t.1).head? = some 64) ∧
    checkC none cycTs = .err 1303 0 0 (some (name "@T")) ∧ codeOfA (checkA none cycTs) = some 1303 := by decide +kernel
/-- a named type that is an alias of a type shortcut: `@m = @s`, used by `"y" // {type: "@m"}` (accepted: every JSON
type is allowed, the alternative `@s` admits the token) -/
def aliasTs : Types := [("@m", .ref ["@s"] false .mixed none false), ("@s", litS "\"x\"")]
example : (∀ t ∈ aliasTs, xr aliasTs t.2 = true) ∧ xr aliasTs (.ref ["@m"] false .str (some (sb "\"y\"")) false) = true ∧
    checkC (some (.ref ["@m"] false .str (some (sb "\"y\"")) false)) aliasTs = .ok ∧
    (codeOfA (checkA (some (.ref ["@m"] false .str (some (sb "\"y\"")) false)) aliasTs) = none ∧ isUnsupported (checkA (some (.ref ["@m"] false .str (some (sb "\"y\"")) false)) aliasTs) = false) := by decide +kernel
/-- OR-SHORTCUTS. `@o = @s | @nope` (a named type that IS an or-shortcut: its unnamed type `#@o` is checked before every
named type — 1302 in (C), `orShortsOK` in (A)); `@t = { "k": @s | @b }` (an or-shortcut inside a named type: accepted);
`[ @s | @b ]` at the root -/
def orShort (names : List String) : CN := .ref names false .mixed none true
def osBad : Types := [("@o", orShort ["@s", "@nope"]), ("@s", litS "\"x\"")]
def osGood : Types := [("@t", .obj [("k", false, true, false, orShort ["@s", "@b"])] .absent false false),
  ("@s", litS "\"x\""), ("@b", litI "4" [.min (sb "3") false])]
example : (∀ t ∈ osBad, xr osBad t.2 = true ∧ byteChars t.1 ∧ (name t.1).head? = some 64) ∧ (osBad.map (·.1)).Nodup ∧
    (∀ t ∈ osGood, xr osGood t.2 = true ∧ byteChars t.1 ∧ (name t.1).head? = some 64) ∧ (osGood.map (·.1)).Nodup ∧
    xr osGood (.arr [orShort ["@s", "@b"]] false false) = true := by decide +kernel
example : checkC none osBad = .err 1302 0 0 (some (name "#@o")) ∧ codeOfA (checkA none osBad) = some 1302 ∧
    (dumpOf none osGood).types.length = 4 ∧
    checkC (some (.arr [orShort ["@s", "@b"]] false false)) osGood = .ok ∧
    codeOfA (checkA (some (.arr [orShort ["@s", "@b"]] false false)) osGood) = none ∧
    isUnsupported (checkA (some (.arr [orShort ["@s", "@b"]] false false)) osGood) = false := by decide +kernel
example : resOf (checkC none osBad) = some (checkA none osBad) :=
  C04_models_agree_compiled _ _ (fun r h => by cases h) (by decide +kernel) (by decide +kernel)
/-- a key shortcut whose type is a typed literal: `{ @k: 1 }` with `@k = "ab" // {type: "@s"}` (accepted), and with
`@k = 5 // {type: "@n"}` (not a string: 1304 on both sides) -/
def keyTs (k : CN) : Types := [("@k", k), ("@s", litS "\"x\""), ("@n", litI "4" [])]
def keyRoot : CN := .obj [("k", true, true, false, litI "1" [])] .absent false false
example : xr (keyTs (.ref ["@s"] false .str (some (sb "\"ab\"")) false)) keyRoot = true ∧
    xr (keyTs (refI ["@n"] "5")) keyRoot = true ∧
    checkC (some keyRoot) (keyTs (.ref ["@s"] false .str (some (sb "\"ab\"")) false)) = .ok ∧
    codeOfA (checkA (some keyRoot) (keyTs (.ref ["@s"] false .str (some (sb "\"ab\"")) false))) = none ∧
    checkC (some keyRoot) (keyTs (refI ["@n"] "5")) = .err 1304 0 0 none ∧
    codeOfA (checkA (some keyRoot) (keyTs (refI ["@n"] "5"))) = some 1304 := by decide +kernel
/-- non-vacuity of the node-level statements: table, environment and fuel as in `chainTs` -/
example : tokOK .int (sb "1") = true ∧ (∀ n cn, lookupT chainTs n = some cn → headOK cn = true) ∧
    2 + budget [] chainTs ≤ checkFuel none chainTs := by
  refine ⟨by decide +kernel, ?_, by decide +kernel⟩
  exact lookup_class chainTs (fun cn => headOK cn = true) (by decide +kernel)
end BridgeEx3

/-! ### Bridge (A)∩(C), fourth part: KEY SHORTCUTS whose type is an alias

`BridgeCK4Keys.lean` (`actualRootType` of the two models: (A)'s `Compile.actualRoot`, (C)'s `CK.actualRoot` / `CK.actualLoop`;
(A)'s fuel is enough), `BridgeCK4Tree.lean` (tree and type table on the class `xrk` ⊇ `xr`). -/

open BridgeCK in
/-- **C04_key_root_type_agrees** (`actualRootTypeVisiting`): on tables in relation `EnvRelN` whose roots the loops can
read (`headOK`), for any path `vis` of pairwise different defined names walked so far and any amounts of fuel that leave
`|table| + 2` units minus that path on each side, (C)'s `CK.actualRoot` on the dump of the type `n` ANSWERS (`some`: not
out of fuel) and its answer is (A)'s `Compile.actualRoot`, `none` read as `mixed` (`normJ`) — alias chains `@k = @s` of any
length, or-shortcuts `@k = @a | @b` (the same root type on every branch, else mixed; (C) compares by `eraseDups`, (A) by
`all (· == r)`), cycles (`mixed` on both sides) and undefined names (`mixed`) included. -/
theorem C04_key_root_type_agrees (ts : Compile.Types) (env : CK.Env) (hE : EnvRelN ts env)
    (hT : ∀ n cn, Compile.lookupT ts n = some cn → headOK cn = true)
    (fA fC : Nat) (vis : List String) (n : String) (cn : Compile.CN) (hl : Compile.lookupT ts n = some cn)
    (hnd : vis.Nodup) (hv : ∀ v ∈ vis, nameOK v ∧ (Compile.lookupT ts v).isSome = true)
    (hA : ts.length + 2 ≤ fA + vis.length) (hC : ts.length + 2 ≤ fC + vis.length) :
    CK.actualRoot env fC (vis.map name) (dumpNode cn).hd.info = some (normJ (Compile.actualRoot ts fA vis n)) :=
  actual_agree ts env hE hT fA fC vis n cn hl hnd hv hA hC

open BridgeCK in
/-- **C04_key_root_type_fuel_enough**: `Compile.checkFuel` IS enough for (A)'s `actualRoot` — with `checkFuel` units
(≥ `|table| + 2`) the key-shortcut test `actualRoot … != some .str` of `Compile.checkNode` gives what it gives with ANY
larger amount: the silent branch `| 0, _, _ => none` ("out of fuel = mixed") never decides, on any table whose type
names are single-byte and whose roots are `headOK`. No repair of `Compile.lean` was needed here. -/
theorem C04_key_root_type_fuel_enough (ts : Compile.Types) (hb : ∀ t ∈ ts, byteChars t.1)
    (hT : ∀ t ∈ ts, headOK t.2 = true) (r : Option Compile.CN) (f : Nat) (hf : Compile.checkFuel r ts ≤ f)
    (n : String) :
    (Compile.actualRoot ts (Compile.checkFuel r ts) [] n != some .str) = (Compile.actualRoot ts f [] n != some .str) := by
  have h0 : ts.length + 2 ≤ Compile.checkFuel r ts := by unfold Compile.checkFuel; omega
  have hE := envRelN_ext ts [] hb (fun u hu => by cases hu)
  have := actualA_fuel_enough ts _ hE (lookup_class ts (fun cn => headOK cn = true) hT)
    (Compile.checkFuel r ts) f h0 (by omega) n
  rw [← normJ_str, ← normJ_str, this]

open BridgeCK in
/-- `xrk ⊇ xr`: the class of `C04_models_agree_compiled_keys` contains the class of `C04_models_agree_compiled` -/
theorem C04_xrk_contains_xr (ts : Compile.Types) (cn : Compile.CN) (h : xr ts cn = true) : xrk ts cn = true :=
  xr_sub ts cn h

open BridgeCK in
/-- **C04_models_agree_compiled_keys** — `C04_models_agree_compiled` with the hypothesis `keyDirect` gone: the class
`xrk` is `xr` where the type a KEY shortcut names may be ANY named type of the table — a type shortcut `@k = @s`, an
or-shortcut `@k = @a | @b`, chains and cycles of them of any length (`actualRootType` follows the references: the key type
must resolve to a string root, else 1304; undefined: 1302). On this class `checkA root ts` =
`CK.checkSchema noOracles (dumpOf root ts)` read back: the same verdict, the same first error code; the equation
excludes "out of fuel" on both sides ((C)'s `crash "actualRootType"`, (A)'s `unsupported "fuel"`), and (A)'s silent
"out of fuel = mixed" inside `actualRoot` is not reached (`C04_key_root_type_fuel_enough`). Still outside: the `email`
validator, `any` on a type shortcut. -/
theorem C04_models_agree_compiled_keys (root : Option Compile.CN) (ts : Compile.Types)
    (hroot : ∀ r, root = some r → xrk ts r = true)
    (hts : ∀ t ∈ ts, xrk ts t.2 = true ∧ byteChars t.1 ∧ (name t.1).head? = some 64)
    (hnd : (ts.map (·.1)).Nodup) :
    resOf (checkC root ts) = some (checkA root ts) :=
  agree_typed_k root ts hroot hts hnd

namespace BridgeEx4
open BridgeCK Compile BridgeEx3
def aliasOf (n : String) : CN := .ref [n] false .mixed none false
/-- `{@k: 1}` -/
def kRoot : CN := keyRoot
/-- `@k = @s`, `@s = "x"`: accepted; the class `xrk` holds, `xr` does not (`keyDirect` fails) -/
def tsAlias : Types := [("@k", aliasOf "@s"), ("@s", litS "\"x\"")]
/-- `@k = @n`, `@n = 4`: 1304 -/
def tsNum : Types := [("@k", aliasOf "@n"), ("@n", litI "4" [])]
/-- `@k = @k2`, `@k2 = @k`: a cycle — mixed, 1304 -/
def tsCyc : Types := [("@k", aliasOf "@k2"), ("@k2", aliasOf "@k")]
/-- `@k = @s | @n`: two different roots — mixed, 1304; `@k = @s | @s2`: both strings — accepted -/
def tsOr : Types := [("@k", orShort ["@s", "@n"]), ("@s", litS "\"x\""), ("@n", litI "4" [])]
def tsOrS : Types := [("@k", orShort ["@s", "@s2"]), ("@s", litS "\"x\""), ("@s2", aliasOf "@s")]
/-- a chain of three aliases and an undefined key type -/
def tsChain : Types := [("@k", aliasOf "@a"), ("@a", aliasOf "@b"), ("@b", aliasOf "@s"), ("@s", litS "\"x\"")]

def cls (ts : Types) : Bool :=
  xrk ts kRoot && ts.all (fun t => xrk ts t.2 && decide (byteChars t.1) && ((name t.1).head? == some 64)) &&
    decide ((ts.map (·.1)).Nodup)

example : cls tsAlias = true ∧ cls tsNum = true ∧ cls tsCyc = true ∧ cls tsOr = true ∧ cls tsOrS = true ∧
    cls tsChain = true ∧ xr tsAlias kRoot = false ∧ xr tsOr kRoot = false := by decide +kernel
example : checkC (some kRoot) tsAlias = .ok ∧ (codeOfA (checkA (some kRoot) tsAlias) = none ∧ isUnsupported (checkA (some kRoot) tsAlias) = false) ∧
    checkC (some kRoot) tsNum = .err 1304 0 0 none ∧ codeOfA (checkA (some kRoot) tsNum) = some 1304 ∧
    checkC (some kRoot) tsCyc = .err 1304 0 0 none ∧ codeOfA (checkA (some kRoot) tsCyc) = some 1304 ∧
    checkC (some kRoot) tsOr = .err 1304 0 0 none ∧ codeOfA (checkA (some kRoot) tsOr) = some 1304 ∧
    checkC (some kRoot) tsOrS = .ok ∧ (codeOfA (checkA (some kRoot) tsOrS) = none ∧ isUnsupported (checkA (some kRoot) tsOrS) = false) ∧
    checkC (some kRoot) tsChain = .ok ∧ (codeOfA (checkA (some kRoot) tsChain) = none ∧ isUnsupported (checkA (some kRoot) tsChain) = false) ∧
    checkC (some kRoot) [("@s", litS "\"x\"")] = .err 1302 0 0 none ∧
    codeOfA (checkA (some kRoot) [("@s", litS "\"x\"")]) = some 1302 := by decide +kernel
/-- the theorem instantiated on the aliasOf, the cycle and the or-shortcut -/
example : resOf (checkC (some kRoot) tsAlias) = some (checkA (some kRoot) tsAlias) :=
  C04_models_agree_compiled_keys _ _ (fun r h => by cases h; decide +kernel) (by decide +kernel) (by decide +kernel)
example : resOf (checkC (some kRoot) tsCyc) = some (checkA (some kRoot) tsCyc) :=
  C04_models_agree_compiled_keys _ _ (fun r h => by cases h; decide +kernel) (by decide +kernel) (by decide +kernel)
example : resOf (checkC (some kRoot) tsOr) = some (checkA (some kRoot) tsOr) :=
  C04_models_agree_compiled_keys _ _ (fun r h => by cases h; decide +kernel) (by decide +kernel) (by decide +kernel)
/-- non-vacuity of `C04_key_root_type_agrees` / `_fuel_enough`: the chain table, the empty path, `checkFuel` units -/
example : (∀ t ∈ tsChain, byteChars t.1) ∧ (∀ t ∈ tsChain, headOK t.2 = true) ∧
    tsChain.length + 2 ≤ checkFuel (some kRoot) tsChain + ([] : List String).length ∧
    Compile.actualRoot tsChain (checkFuel (some kRoot) tsChain) [] "@k" = some .str ∧
    Compile.actualRoot tsChain 3 [] "@k" = none := by decide +kernel
end BridgeEx4

end Props.C04
