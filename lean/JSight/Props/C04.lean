import JSight.CheckExample
/-!
# C04 — Check accepts a schema only if its own EXAMPLE obeys its rules

Parametric in the literal validation function `litOK` (the same `ValidateLiteralValue` is used by the
checker on the example token and by the validator on document tokens) and in `ex : L → D` (the example
token of a literal node). `checked` = what the checker establishes on a plain-JSON schema: every
literal passes `litOK` on its own example, object keys are unique. Then validating the example document
succeeds — for every nesting, any literal rule semantics.
The converse half ("a violated rule makes Check fail at the position of the value") is checked against
the code (harness `c04-check-example`), see DESIGN.md §4 C04.
-/
namespace Props.C04

theorem C04_example_valid {L D : Type} (litOK : L → D → Bool) (ex : L → D) (s : VP.S L)
    (h : VP.checked litOK ex s = true) : VP.validate litOK s (VP.exampleOf ex s) = true :=
  VP.C04_example_valid litOK ex s h

/-! Non-vacuity: a schema that satisfies the hypothesis -/
example : VP.checked (fun (l : Nat) (d : Nat) => l == d) id
    (.obj [("a", true, .lit 1), ("b", false, .arr [.lit 2, .obj [("c", true, .lit 3)]])]) = true := by decide +kernel

end Props.C04
