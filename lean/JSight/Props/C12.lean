import JSight.ProtocolProofs
import JSight.PoolRace
/-!
# C12 — A loaded schema can be shared by concurrent goroutines: the protocol part

Model `Protocol.Race`: n goroutines race to the first use of one `sync.Once` cell (`compileOnce`); a
goroutine that finds another one inside `f` blocks (the Once mutex); steps are interleaved by an
arbitrary schedule (a list of goroutine indices of any length, with repetitions and starvation).
`C12_once_exactly_once`: under every schedule the compile function is started at most once and every
goroutine that has returned got the same value, although the value `f g` would differ by who computes it.
Model `PoolRace`: any number of goroutines call `Example()` on the shared object; each takes a buffer from
the shared pool (or allocates one), writes its text, copies the result out, puts the buffer back; the steps
are interleaved by an arbitrary schedule. `C12_pool_result_is_own`: under every schedule every goroutine's
result is its own text — what the sequential run gives (invariant: held buffers are distinct and not in the
pool). `C12_pool_pinned_overwritten`: handing out the pooled buffer itself (the pinned tree) fails.
After compilation the schema is otherwise only read: the rest of the property — no data races in the real
memory model — is exercised under the race detector (harness `c12-concurrent`), not provable here.
-/
namespace Props.C12
open Protocol

theorem C12_once_exactly_once (f : Nat → Nat) (n : Nat) (sched : List Nat) :
    ((Race.init n).run f sched).count ≤ 1 ∧
    ∀ p ∈ ((Race.init n).run f sched).res, ∀ q ∈ ((Race.init n).run f sched).res, p.2 = q.2 :=
  race_once f n sched

/-- concurrent `Example()` over the shared buffer pool: every schedule, every goroutine gets its own text -/
theorem C12_pool_result_is_own (inp : Nat → List Nat) (sched : List Nat) (g : Nat)
    (h : 3 ≤ ((PoolRace.run inp {} sched).gs g).pc) : ((PoolRace.run inp {} sched).gs g).res = some (inp g) :=
  PoolRace.result_is_own inp sched g h

/-- the pinned variant: goroutine 0's result reads as goroutine 1's text once the buffer is reused -/
theorem C12_pool_pinned_overwritten :
    let inp : Nat → List Nat := fun g => [g + 7]
    let s := PoolRace.run inp {} [0, 0, 0, 0, 1, 1]
    (s.gs 0).pc = 4 ∧ PoolRace.readPinned s 0 = some [8] := PoolRace.pinned_overwritten

/-- non-vacuity: an interleaved schedule in which both goroutines finish (sharing no buffer while they overlap) -/
example : let s := PoolRace.run (fun g => [g + 7]) {} [0, 1, 0, 1, 1, 0, 0, 1]
    (s.gs 0).pc = 4 ∧ (s.gs 1).pc = 4 ∧ (s.gs 0).res = some [7] ∧ (s.gs 1).res = some [8] ∧ s.bufs.length = 2 := by decide

/-! Non-vacuity: a schedule in which three goroutines all return -/
example : ((Race.init 3).run (fun g => g + 10) [1, 0, 2, 1, 0, 2]).res.length = 3 := by decide
example : ((Race.init 3).run (fun g => g + 10) [1, 0, 2, 1, 0, 2]).res.map (·.2) = [11, 11, 11] := by decide

end Props.C12
