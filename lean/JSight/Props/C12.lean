import JSight.ProtocolProofs
/-!
# C12 — A loaded schema can be shared by concurrent goroutines: the protocol part

Model `Protocol.Race`: n goroutines race to the first use of one `sync.Once` cell (`compileOnce`); a
goroutine that finds another one inside `f` blocks (the Once mutex); steps are interleaved by an
arbitrary schedule (a list of goroutine indices of any length, with repetitions and starvation).
`C12_once_exactly_once`: under every schedule the compile function is started at most once and every
goroutine that has returned got the same value, although the value `f g` would differ by who computes it.
After compilation the schema is only read and `Example()` hands out copies (C11): the rest of the
property — no data races in the real memory model, every result equal to the sequential run — is
exercised under the race detector (harness `c12-concurrent`), not provable here.
-/
namespace Props.C12
open Protocol

theorem C12_once_exactly_once (f : Nat → Nat) (n : Nat) (sched : List Nat) :
    ((Race.init n).run f sched).count ≤ 1 ∧
    ∀ p ∈ ((Race.init n).run f sched).res, ∀ q ∈ ((Race.init n).run f sched).res, p.2 = q.2 :=
  race_once f n sched

/-! Non-vacuity: a schedule in which three goroutines all return -/
example : ((Race.init 3).run (fun g => g + 10) [1, 0, 2, 1, 0, 2]).res.length = 3 := by decide
example : ((Race.init 3).run (fun g => g + 10) [1, 0, 2, 1, 0, 2]).res.map (·.2) = [11, 11, 11] := by decide

end Props.C12
