import JSight.RegexQuote
import JSight.EnumEvents
/-!
# C18 — Named regex types behave like their inline forms (token extraction and hand-over)

* `C18_regex_extract`: for a pattern `P` that contains no unescaped `/` and does not end inside an escape,
  the regex type text `/P/rest` yields pattern `P` and `Len = |P| + 2`, whatever follows.
* `C18_goquote_roundtrip`: `AddType` hands the pattern to the schema loader as Go `%q` text; decoding
  that text with the library's own `Unquote` gives the pattern back (printable ASCII), so `@T` and an
  inline `{regex: P}` give the *same* pattern string to the same engine.
* Enum rules (model `EnumScan` of `rules/enum/scanner.go`, tied by `enum-diff`): for every text
  `ws [ ws item ws , … ] ws` whose items are scalar tokens of the grammar (strings with escapes, numbers without
  exponent, true / false / null) and any layout incl. line breaks —
  `C18_enum_values`: the literal events, in order, span exactly the item tokens (`Values` lists the literals in
  source order); `C18_enum_events`: when the (decoded text, kind) keys are pairwise distinct the scan succeeds with
  the event list the grammar predicts; `C18_enum_duplicate`: the first item whose key repeats an earlier one is
  rejected with error 810 at its first byte. Comments inside the list are not covered by these theorems.
Engine (`regexp`), example generator (`reggen`) and the hand-over of the values to the enum constraint are checked
against the code (harness `c18-named`, `enum-diff`).
-/
namespace Props.C18

theorem C18_regex_extract (P rest : List UInt8) (hne : P ≠ []) (h : RegexT.endState P false = some false) :
    RegexT.pattern (47 :: (P ++ 47 :: rest)) = some P ∧ RegexT.len (47 :: (P ++ 47 :: rest)) = some (P.length + 2) :=
  RegexT.C18_regex_extract P rest hne h

theorem C18_goquote_roundtrip (s : List UInt8) (hp : ∀ c ∈ s, GoQuote.printable c = true) :
    Unquote.unquote (GoQuote.q s) = s := GoQuote.C18_goquote_roundtrip s hp

/-! ### enum rules -/
open EnumScan in
theorem C18_enum_events (pre ws0 post : List UInt8) (items : List Item)
    (hpre : IsWsB pre) (hws0 : IsWsB ws0) (hpost : IsWsB post) (hv : GValidItems items)
    (hnd : (items.map itemKey).Nodup) :
    scanAll (renderEnum pre ws0 items post) = .ok (enumEvsOf pre ws0 items post) :=
  enum_events pre ws0 post items hpre hws0 hpost hv hnd

open EnumScan in
theorem C18_enum_values (pre ws0 post : List UInt8) (items : List Item) (hv : GValidItems items) :
    valuesOf (renderEnum pre ws0 items post) (enumEvsOf pre ws0 items post) = items.map (·.2.1) :=
  enum_values pre ws0 post items hv.valid

open EnumScan in
theorem C18_enum_duplicate (pre ws0 post : List UInt8) (its1 : List Item) (dup : Item) (its2 : List Item)
    (hpre : IsWsB pre) (hws0 : IsWsB ws0) (hv : GValidItems (its1 ++ dup :: its2))
    (hnd : (its1.map itemKey).Nodup) (hdup : itemKey dup ∈ its1.map itemKey) :
    scanAll (renderEnum pre ws0 (its1 ++ dup :: its2) post)
      = .error (.duplicate (pre.length + 1 + ws0.length + (renderInit its1).length + dup.1.length)) :=
  enum_duplicate pre ws0 post its1 dup its2 hpre hws0 hv hnd hdup

end Props.C18
