import JSight.RegexQuote
/-!
# C18 — Named regex types behave like their inline forms (token extraction and hand-over)

* `C18_regex_extract`: for a pattern `P` that contains no unescaped `/` and does not end inside an escape,
  the regex type text `/P/rest` yields pattern `P` and `Len = |P| + 2`, whatever follows.
* `C18_goquote_roundtrip`: `AddType` hands the pattern to the schema loader as Go `%q` text; decoding
  that text with the library's own `Unquote` gives the pattern back (printable ASCII), so `@T` and an
  inline `{regex: P}` give the *same* pattern string to the same engine.
Engine (`regexp`), example generator (`reggen`) and the enum-rule half are checked against the code
(harness `c18-named`, `enum-diff`).
-/
namespace Props.C18

theorem C18_regex_extract (P rest : List UInt8) (hne : P ≠ []) (h : RegexT.endState P false = some false) :
    RegexT.pattern (47 :: (P ++ 47 :: rest)) = some P ∧ RegexT.len (47 :: (P ++ 47 :: rest)) = some (P.length + 2) :=
  RegexT.C18_regex_extract P rest hne h

theorem C18_goquote_roundtrip (s : List UInt8) (hp : ∀ c ∈ s, GoQuote.printable c = true) :
    Unquote.unquote (GoQuote.q s) = s := GoQuote.C18_goquote_roundtrip s hp

end Props.C18
