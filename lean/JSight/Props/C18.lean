import JSight.RegexQuote
import JSight.EnumEvents
import JSight.EnumC2
import JSight.EnumRouteEq
import JSight.EnumCExamples
import JSight.EnumGuess
/-!
# C18 — Named regex types behave like their inline forms (token extraction and hand-over)

* `C18_regex_extract`: for a pattern `P` that contains no unescaped `/` and does not end inside an escape,
  the regex type text `/P/rest` yields pattern `P` and `Len = |P| + 2`, whatever follows.
* `C18_goquote_roundtrip`: `AddType` hands the pattern to the schema loader as Go `%q` text; decoding
  that text with the library's own `Unquote` gives the pattern back (printable ASCII), so `@T` and an
  inline `{regex: P}` give the *same* pattern string to the same engine.
* Enum rules (model `EnumScan` of `rules/enum/scanner.go`, tied by `enum-diff`): for every text
  `ws [ ws item ws , … ] ws` whose items are scalar tokens of the grammar (strings with escapes, numbers without
  exponent, true / false / null) and any layout incl. line breaks —
  `C18_enum_values`: the literal events, in order, span exactly the item tokens (`Values` lists the literals in
  source order); `C18_enum_events`: when the (decoded text, kind) keys are pairwise distinct the scan succeeds with
  the event list the grammar predicts; `C18_enum_duplicate`: the first item whose key repeats an earlier one is
  rejected with error 810 at its first byte. Comments inside the list are not covered by these theorems.
Engine (`regexp`), example generator (`reggen`) and the hand-over of the values to the enum constraint are checked
against the code (harness `c18-named`, `enum-diff`).
-/
namespace Props.C18

theorem C18_regex_extract (P rest : List UInt8) (hne : P ≠ []) (h : RegexT.endState P false = some false) :
    RegexT.pattern (47 :: (P ++ 47 :: rest)) = some P ∧ RegexT.len (47 :: (P ++ 47 :: rest)) = some (P.length + 2) :=
  RegexT.C18_regex_extract P rest hne h

theorem C18_goquote_roundtrip (s : List UInt8) (hp : ∀ c ∈ s, GoQuote.printable c = true) :
    Unquote.unquote (GoQuote.q s) = s := GoQuote.C18_goquote_roundtrip s hp

/-! ### enum rules -/
open EnumScan in
theorem C18_enum_events (pre ws0 post : List UInt8) (items : List Item)
    (hpre : IsWsB pre) (hws0 : IsWsB ws0) (hpost : IsWsB post) (hv : GValidItems items)
    (hnd : (items.map itemKey).Nodup) :
    scanAll (renderEnum pre ws0 items post) = .ok (enumEvsOf pre ws0 items post) :=
  enum_events pre ws0 post items hpre hws0 hpost hv hnd

open EnumScan in
theorem C18_enum_values (pre ws0 post : List UInt8) (items : List Item) (hv : GValidItems items) :
    valuesOf (renderEnum pre ws0 items post) (enumEvsOf pre ws0 items post) = items.map (·.2.1) :=
  enum_values pre ws0 post items hv.valid

open EnumScan in
theorem C18_enum_duplicate (pre ws0 post : List UInt8) (its1 : List Item) (dup : Item) (its2 : List Item)
    (hpre : IsWsB pre) (hws0 : IsWsB ws0) (hv : GValidItems (its1 ++ dup :: its2))
    (hnd : (its1.map itemKey).Nodup) (hdup : itemKey dup ∈ its1.map itemKey) :
    scanAll (renderEnum pre ws0 (its1 ++ dup :: its2) post)
      = .error (.duplicate (pre.length + 1 + ws0.length + (renderInit its1).length + dup.1.length)) :=
  enum_duplicate pre ws0 post its1 dup its2 hpre hws0 hv hnd hdup

end Props.C18

/-! ### comments in the rule text, exponents, named rule = inline list

Text grammar (`JSight/EnumC.lean`): `pre [ lay item , item … ] lay`, `item = lay token lay`; `pre` is blank bytes (the
enum scanner accepts no comment before `[`); every `lay` is a layout WITH comments — any sequence of blank bytes,
`// sp* text line-break` and `/* ws* text */` (the two comment forms of `rules/enum/scanner.go`; no `#` comments) —
i.e. comments wherever the scanner accepts them: after `[`, before and after every item, after `]`.
`blankOut` overwrites every comment byte by a space (same length, same offsets). -/
namespace Props.C18
open EnumScan

/-- **C18 (1) — comments are ignored.** Scanning succeeds with the predicted events; without the comments' own events
they are, spans included, the events of the text whose comments are blanked out (which is what the scanner delivers for
THAT text); `Values` lists the item tokens in source order; `Len` is the length of the text without its trailing
blanks — a comment behind the closing bracket is INSIDE `Len`. -/
theorem C18_enum_comments_ignored (pre : List UInt8) (ws0 post : LayB) (items : List ItemC)
    (hpre : IsWsB pre) (hws0 : ws0.Valid) (hpost : post.Valid) (hv : GValidItemsC items)
    (hnd : (items.map itemKeyC).Nodup) :
    scanAll (renderEnumC pre ws0 items post) = .ok (enumEvsC pre ws0 items post) ∧
    dropComments (enumEvsC pre ws0 items post)
      = enumEvsOf pre (LayB.blankOut ws0) (items.map blankItem) (LayB.blankOut post) ∧
    scanAll (renderEnum pre (LayB.blankOut ws0) (items.map blankItem) (LayB.blankOut post))
      = .ok (enumEvsOf pre (LayB.blankOut ws0) (items.map blankItem) (LayB.blankOut post)) ∧
    (renderEnum pre (LayB.blankOut ws0) (items.map blankItem) (LayB.blankOut post)).length
      = (renderEnumC pre ws0 items post).length ∧
    valuesOf (renderEnumC pre ws0 items post) (enumEvsC pre ws0 items post) = items.map (·.2.1) ∧
    length (renderEnumC pre ws0 items post) = .ok (rtrimB (renderEnumC pre ws0 items post)).length :=
  ⟨enumC_events pre ws0 post items hpre hws0 hpost hv hnd,
   enumC_filter pre ws0 post items hws0 hpost hv.valid,
   enum_events pre _ _ _ hpre (LayB.blankOut_ws ws0 hws0) (LayB.blankOut_ws post hpost) (blank_valid items hv)
     (by rw [List.map_map]; exact hnd),
   renderEnum_blank_length pre ws0 post items,
   enumC_values pre ws0 post items hv.valid,
   enumC_length pre ws0 post items hpre hws0 hpost hv hnd⟩

/-- … and duplicates are detected as without comments: the first item whose (decoded text, kind) repeats an earlier
one is rejected with error 810 at the first byte of its token -/
theorem C18_enum_comments_duplicate (pre : List UInt8) (ws0 post : LayB) (its1 : List ItemC) (dup : ItemC)
    (its2 : List ItemC) (hpre : IsWsB pre) (hws0 : ws0.Valid) (hv : GValidItemsC (its1 ++ dup :: its2))
    (hnd : (its1.map itemKeyC).Nodup) (hdup : itemKeyC dup ∈ its1.map itemKeyC) :
    scanAll (renderEnumC pre ws0 (its1 ++ dup :: its2) post)
      = .error (.duplicate (pre.length + 1 + (LayB.render ws0).length + (renderInitC its1).length
          + (LayB.render dup.1).length)) :=
  enumC_duplicate pre ws0 post its1 dup its2 hpre hws0 hv hnd hdup

/-- **C18 (2) — the enum scanner has no exponent form.** Behind any prefix of valid items, any layout and a number of
the grammar (`[-] int [frac]`), the letter `e` or `E` is rejected with error 301 at that byte, whatever follows.
(Replayed on the library by `c18-routes`: `enum.New("@E", "[1e2]").Check()` = error 301 at index 2; the inline form
`1 // {enum: [1e2]}` is rejected by the schema scanner in the same way.) -/
theorem C18_enum_exponents (pre : List UInt8) (ws0 : LayB) (its1 : List ItemC) (l1 : LayB) (t : NumTok)
    (num : List UInt8) (x : UInt8) (rest : List UInt8) (hpre : IsWsB pre) (hws0 : ws0.Valid)
    (hv : GValidItemsC its1) (hnd : (its1.map itemKeyC).Nodup) (hl1 : l1.Valid) (hwf : t.WF)
    (hnum : num.map SchemaScan.classify = t.render) (hx : x = 101 ∨ x = 69) :
    scanAll (pre ++ (91 :: (LayB.render ws0 ++ (renderInitC its1 ++ (LayB.render l1 ++ (num ++ (x :: rest)))))))
      = .error (.invalidChar (pre.length + 1 + (LayB.render ws0).length + (renderInitC its1).length
          + (LayB.render l1).length + num.length) "isn't allowed 'cause not obvious it's a float or an integer") :=
  enumC_exponent pre ws0 its1 l1 t num x rest hpre hws0 hv hnd hl1 hwf hnum hx

-- non-vacuity, and the witness replayed on the library: `[1e2]`
example : scanAll [91, 49, 101, 50, 93] = .error (.invalidChar 2 "isn't allowed 'cause not obvious it's a float or an integer") :=
  C18_enum_exponents [] [] [] [] ⟨false, [.d19], none⟩ [49] 101 [50, 93] (by intro c hc; cases hc)
    (by intro p hp; cases hp) (by intro it hit; cases hit) List.nodup_nil (by intro p hp; cases hp)
    ⟨Or.inr ⟨[], rfl, by intro c hc; cases hc⟩, by intro d ds h; cases h⟩ (by decide) (Or.inl rfl)

-- non-vacuity: ` [ // one⏎ 1 /* a*b */ , "a" //⏎ , true ] /* end */ ` (both comment forms, an empty `//`, a trailing comment)
example : scanAll (renderEnumC xPre xWs0 xItems xPost) = .ok (enumEvsC xPre xWs0 xItems xPost) ∧
    length (renderEnumC xPre xWs0 xItems xPost) = .ok (rtrimB (renderEnumC xPre xWs0 xItems xPost)).length :=
  let h := C18_enum_comments_ignored xPre xWs0 xPost xItems xPre_ws xWs0_valid xPost_valid xItems_valid (by decide)
  ⟨h.1, h.2.2.2.2.2⟩
-- `[ // one⏎ 1 /* a*b */ , "a" //⏎ , 1 ]`: the third item repeats the first
example : ∃ p, scanAll (renderEnumC xPre xWs0 ((xItems.take 2) ++ ([.blank 32], [49], []) :: []) xPost)
    = .error (.duplicate p) :=
  ⟨_, C18_enum_comments_duplicate xPre xWs0 xPost (xItems.take 2) ([.blank 32], [49], []) [] xPre_ws xWs0_valid
    (by
      intro it hit
      simp only [List.take, xItems, List.cons_append, List.nil_append, List.mem_cons, List.not_mem_nil, or_false] at hit
      rcases hit with rfl | rfl | rfl
      · exact xItems_valid _ (by simp [xItems])
      · exact xItems_valid _ (by simp [xItems])
      · exact ⟨lay_sp_valid, (xItems_valid _ (List.mem_cons_self)).2.1, lay_nil_valid⟩)
    (by decide) (by decide)⟩

end Props.C18

/-! ### named rule = inline list -/
namespace Props.C18
open EnumRoute

/-- **C18 (3) — a named enum rule and the same list written inline give the constraint the same items.**
Route A (`rules/enum/enum.go` `Values()` on the rule text — any layout with comments — then the loop of
`enumValueLoader.ruleName` that appends every non-comment value: `appendValues`) and route B (the schema text
`EX // {enum: [ … ]}` or `EX /* {enum: [ … ]} */` through the schema scanner model, the loader model and the enum-value
sub-loader: `routeInline`) for the SAME item tokens in the same order (each route with its own layout): `Values()`
succeeds, route A yields a constraint `cA`, route B exactly one constraint `cB`, both hold in source order the item
tokens with the (value, jsonType) that `NewEnumItem` computes (decoded text for strings, SOURCE TEXT for everything
else — K-C10-enumtext), hence `Enum.Validate` gives the same verdict on every document token. No side condition on the
tokens: every scalar token of the grammar is known to both type guessers (`C18_tokens_guessable`). -/
theorem C18_named_eq_inline (pre : List UInt8) (ws0 post : EnumScan.LayB) (items : List EnumScan.ItemC)
    (a : SchemaScan.Ann) (ha : a.isAnn = true) (ex s1 s2 : List UInt8) (e : BEObj) (s3 tl : List UInt8)
    (hpre : EnumScan.IsWsB pre) (hws0 : ws0.Valid) (hpost : post.Valid) (hv : EnumScan.GValidItemsC items)
    (hnd : (items.map EnumScan.itemKeyC).Nodup) (hiv : InlineValid a ex s1 s2 e s3 tl)
    (hsame : e.items.map (·.2.1) = items.map (·.2.1)) (name : List UInt8) (pos : Nat) :
    ∃ vs cA cB,
      ruleValues (EnumScan.renderEnumC pre ws0 items post) = .ok vs ∧
      appendValues pos { ruleName := name } vs = .ok cA ∧
      routeInline (inlineText a ex s1 s2 e s3 tl) = .ok [cB] ∧
      proj cA = projToks (items.map (·.2.1)) ∧ proj cB = projToks (items.map (·.2.1)) ∧
      cA.items.map (·.src) = items.map (·.2.1) ∧ cB.items.map (·.src) = items.map (·.2.1) ∧
      ∀ d, enumOK cA d = enumOK cB d :=
  named_eq_inline_grammar pre ws0 post items a ha ex s1 s2 e s3 tl hpre hws0 hpost hv hnd hiv hsame name pos

/-- every scalar token of the grammar (string, number without exponent, true / false / null) is known to both type
guessers: `GuessSchemaType` (the `Type` of `Values()`) and `json.Guess(…).JsonType()` (`NewEnumItem`) -/
theorem C18_tokens_guessable (t : List UInt8) (h : EnumScan.GTok (t.map SchemaScan.classify)) : Guessable t :=
  guessable_gtok t h

/-- a scalar token of the enum grammar is a scalar token for the schema scanner (the inline route reads it) -/
theorem C18_token_both_scanners {tk : List SchemaScan.Cls} (h : EnumScan.GTok tk) : SchemaScan.IsScalar tk :=
  gtok_isScalar h

/-- the verdict function of the model is the enum case of C02's `ValidateLiteralValue` model -/
theorem C18_enumOK_is_ruleOK (o : RulesF.Oracles) (ex : List UInt8) (c : Cons) (d : List UInt8)
    (hk : ∀ i ∈ c.items, RulesF.enumItem i.src = some i.key) :
    enumOK c d = RulesF.ruleOK o ex d (.enum (c.items.map (·.src))) := by
  unfold enumOK RulesF.ruleOK
  cases RulesF.enumItem d with
  | none => rfl
  | some k =>
    simp only [List.any_map, Function.comp_def]
    have : ∀ (l : List CItem), (∀ i ∈ l, RulesF.enumItem i.src = some i.key) →
        l.any (fun it => it.key == k) = l.any (fun it => RulesF.enumItem it.src == some k) := by
      intro l
      induction l with
      | nil => intro _; rfl
      | cons x xs ih =>
        intro h
        simp only [List.any_cons, h x (by simp), ih (fun i hi => h i (by simp [hi]))]
        congr 1
    exact this c.items hk

-- non-vacuity: the rule text of the example above against `1 // { enum : [ 1, "a" ,true ] }` and against the /* */ form
example : ∃ vs cA cB,
    ruleValues (EnumScan.renderEnumC EnumScan.xPre EnumScan.xWs0 EnumScan.xItems EnumScan.xPost) = .ok vs ∧
    appendValues 0 { ruleName := [64, 69] } vs = .ok cA ∧
    routeInline (inlineText .inline [49] [32] [32] xObj [] []) = .ok [cB] ∧ ∀ d, enumOK cA d = enumOK cB d :=
  let ⟨vs, cA, cB, h1, h2, h3, _, _, _, _, h8⟩ := C18_named_eq_inline EnumScan.xPre EnumScan.xWs0 EnumScan.xPost
    EnumScan.xItems .inline rfl [49] [32] [32] xObj [] [] EnumScan.xPre_ws EnumScan.xWs0_valid EnumScan.xPost_valid
    EnumScan.xItems_valid (by decide) xInline_valid (by decide) [64, 69] 0
  ⟨vs, cA, cB, h1, h2, h3, h8⟩
example : ∃ cB, routeInline (inlineText .multi [49] [32] [10] xObj [10] [42, 47, 10]) = .ok [cB] ∧
    cB.items.map (·.src) = [[49], [34, 97, 34], [116, 114, 117, 101]] :=
  let ⟨_, _, cB, _, _, h3, _, _, _, h7, _⟩ := C18_named_eq_inline EnumScan.xPre EnumScan.xWs0 EnumScan.xPost
    EnumScan.xItems .multi rfl [49] [32] [10] xObj [10] [42, 47, 10] EnumScan.xPre_ws EnumScan.xWs0_valid
    EnumScan.xPost_valid EnumScan.xItems_valid (by decide) xMulti_valid (by decide) [64, 69] 0
  ⟨cB, h3, h7⟩
-- the whole named route on the models (schema scanner, loader, sub-loader with the rule registered as `@E`) is evaluated
-- in `JSight/EnumCExamples.lean` (`#eval`) and compared with the library by `c18-routes`

end Props.C18
