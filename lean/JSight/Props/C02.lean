import JSight.Rules
import JSight.NumberDen
import JSight.RulesFullProofs
import JSight.Props.C10
import JSight.C02TextThm
import JSight.AnnotExamples
import JSight.C02TextThm2
import JSight.C02TextGrammar2
import JSight.AnnotQExamples
import JSight.ScalarItemsBridge
/-!
# C02 — Scalar rules admit exactly the values their definitions describe (decision logic)

Model `Rules.litOK` = `ValidateLiteralValue` on one compiled scalar node (kind admissibility,
`nullable` with fix F-6, min / max with the exclusive flags folded in by `Rules.compile`,
minLength / maxLength). The theorems state the decision logic outright and tie the numeric rules to
the exact decimal value through C10. `regex`, `enum`, `const`, `precision` and the formats are
checked against the code (harness `sem-rules`, `formats-diff`, `c13-metamorphic`, `c18-named`);
regexp / mail / url / time parsing of the Go standard library are oracles (DESIGN.md §8).
-/
namespace Props.C02
open Rules

/-- accept iff (null admitted by nullable) or (admissible kind and every rule satisfied) -/
theorem C02_accept_iff (l : LitSpec) (hx : l.exact = false) (tok : String) :
    litOK l tok = match kindOfTok tok with
      | none => false
      | some d => (d == .n && l.nul) || (kindAdmissible l d && rulesOK l tok) := by
  unfold litOK
  cases kindOfTok tok with
  | none => rfl
  | some d =>
    simp only [hx, Bool.false_eq_true, if_false]
    cases h1 : (d == Kind.n && l.nul) <;> cases h2 : kindAdmissible l d <;> simp

/-- a null admitted by `nullable: true` is accepted whatever other rules are present -/
theorem C02_null_admitted (l : LitSpec) (hx : l.exact = false) (hn : l.nul = true) : litOK l "null" = true := by
  have hk : kindOfTok "null" = some .n := by decide
  rw [C02_accept_iff l hx, hk]
  simp [hn]

/-- min / max compare exact mathematical values (strictly when the bound is exclusive) -/
theorem C02_min_exact (v b : List Num.Ch) (hv : ∀ c ∈ v, Num.ValidCh c) (hb : ∀ c ∈ b, Num.ValidCh c)
    (nv nb : Num.N) (sv : Num.scan v = some nv) (sb : Num.scan b = some nb) (excl : Bool) :
    boundOK v b excl true =
      (if excl then Num.cmpDen (Num.den v) (Num.den b) == .gt else Num.cmpDen (Num.den v) (Num.den b) != .lt) := by
  unfold boundOK
  rw [sv, sb]
  simp only [if_true, Num.C10_cmp_exact v b hv hb nv nb sv sb]

theorem C02_max_exact (v b : List Num.Ch) (hv : ∀ c ∈ v, Num.ValidCh c) (hb : ∀ c ∈ b, Num.ValidCh c)
    (nv nb : Num.N) (sv : Num.scan v = some nv) (sb : Num.scan b = some nb) (excl : Bool) :
    boundOK v b excl false =
      (if excl then Num.cmpDen (Num.den v) (Num.den b) == .lt else Num.cmpDen (Num.den v) (Num.den b) != .gt) := by
  unfold boundOK
  rw [sv, sb]
  simp only [Bool.false_eq_true, if_false, Num.C10_cmp_exact v b hv hb nv nb sv sb]

/-- rules with value `false` (nullable, exclusiveMinimum, exclusiveMaximum) are inert -/
theorem C02_false_rules_inert (r : RawRules) :
    compile { r with nullable := some false } = compile { r with nullable := none } ∧
    compile { r with exclusiveMinimum := some false } = compile { r with exclusiveMinimum := none } ∧
    compile { r with exclusiveMaximum := some false } = compile { r with exclusiveMaximum := none } := by
  refine ⟨?_, ?_, ?_⟩ <;> simp [compile]

/-! Boundary probes (evaluated by `#guard`: tests of the model, not theorems) -/
#guard litOK (compile { kind := .f, min := some "1.5", exclusiveMinimum := some true }) "1.50" == false
#guard litOK (compile { kind := .f, min := some "1.5", exclusiveMinimum := some false }) "15e-1" == true
#guard litOK (compile { kind := .f, min := some "1.5" }) "2" == true
#guard litOK (compile { kind := .i, min := some "0", nullable := some true }) "null" == true
#guard litOK (compile { kind := .i, min := some "0", nullable := some false }) "null" == false
#guard litOK (compile { kind := .s, minLen := some 2, maxLen := some 3 }) "\"ab\"" == true
#guard litOK (compile { kind := .s, minLen := some 2, maxLen := some 3 }) "\"abcd\"" == false

/-! # Every scalar rule (model `RulesF.litOKFull`, spec `RulesF.Accepts`)

`JSight/RulesFull.lean` transliterates `ValidateLiteralValue` with ALL literal validators of
`schema/constraint/c_*.go` (min / max with the folded exclusive flags, precision, minLength / maxLength, regex, enum,
const, the five formats) and the compiler's folding (`RulesF.compile`); Go's `regexp`, `net/mail`, `net/url` and
`time.Parse(RFC3339)` are the oracle parameters `RulesF.Oracles`. `JSight/RulesFullSpec.lean` states what each rule
admits over the MEANING of the token: the exact decimal `Num.den` of a numeral, the RFC 8259 decoding of a string
(`RulesF.text`, UTF-8 by Lean's own `String.utf8EncodeChar`). Tokens are structured (`RulesF.STok`): the three
words, every string of the JSON grammar over arbitrary Unicode text, every RFC 8259 numeral except `0e1`-like ones
(K-C10-zeroexp). Tied to the real `Validate` by `vh sem-rules-full` (driver word `semcf`). -/

section Full
open RulesF

/-- **C02, every rule.** For every rule set over scalar tokens that the checker's applicability table allows and
every scalar token of a JSON document: the validator accepts iff the token is a `null` admitted by
`nullable: true`, or it has an admissible kind and satisfies every rule — min / max exactly (strict when
exclusive), precision as a bound on the fractional digits of the VALUE, minLength / maxLength on the UTF-8 bytes of
the DECODED string, regex / email / uri / datetime through the oracles on the decoded string, uuid / date by the
in-repo definitions, enum type-sensitively (numbers by spelling: K-C10-enumtext), const by value. -/
theorem C02_accept_iff_full (o : Oracles) (S : SSpec) (hS : S.WF) (hA : S.applicable = true)
    (tok : STok) (ht : tok.WF) :
    litOKFull o S.toModel tok.bytes = true ↔
      (tok = .null ∧ S.nul = true) ∨ (Admissible S tok ∧ ∀ r ∈ S.rules, Sat o S.ex r tok) :=
  RulesF.accept_iff o S hS hA tok ht

/-- the library's `Unquote` computes the RFC 8259 meaning of every string token: escapes, `\uXXXX`, surrogate
pairs (unpaired halves become U+FFFD), raw UTF-8 of any length -/
theorem C02_unquote_is_decode (cs : List SCh) (h : ∀ c ∈ cs, c.ok) :
    Unquote.unquote (STok.str cs).bytes = text cs := RulesF.unquote_str cs h

/-- every RFC 8259 numeral other than `0e…` is a token of the theorems above, in either case of the exponent letter -/
theorem C02_every_numeral_is_token (t : Num.Numeral) (hd : Props.C10.digitsOK t) (hw : t.wf) (hz : ¬ t.zeroExp) :
    IsNumeral (t.render.map Props.C10.chByte) :=
  ⟨t, hw, hz, Props.C10.ofBytes_chByte _ hd⟩

/-- **precision** depends on the value only: two spellings of one number (`1.10`, `1.1`, `11e-1`) get one verdict -/
theorem C02_precision_exact (o : Oracles) (ex : Bytes) (p : Nat) (a b : Bytes) (ha : IsNumeral a) (hb : IsNumeral b)
    (h : Num.cmpDen (value a) (value b) = .eq) :
    ruleOK o ex a (.precision p) = ruleOK o ex b (.precision p) := RulesF.precision_exact o ex p a b ha hb h

/-- … and it is the bound "value · 10^p is an integer" -/
theorem C02_precision_is_fraction_digits (o : Oracles) (ex : STok) (p : Nat) (v : Bytes) (hv : IsNumeral v) :
    ruleOK o ex.bytes v (.precision p) = true ↔ FracDigitsLE p (value v) :=
  RulesF.precision_iff o ex p (.num v) hv

/-- **minLength / maxLength** count the UTF-8 bytes of the decoded string -/
theorem C02_length_decoded (o : Oracles) (ex : Bytes) (cs : List SCh) (h : (STok.str cs).WF) (n : Nat) :
    ruleOK o ex (STok.str cs).bytes (.minLength n) = decide (n ≤ (text cs).length) ∧
    ruleOK o ex (STok.str cs).bytes (.maxLength n) = decide ((text cs).length ≤ n) :=
  RulesF.length_decoded o ex cs h n

/-- **const: true** is equality with the EXAMPLE by value: strings by decoded text, numbers by exact value -/
theorem C02_const_by_value (o : Oracles) (ex tok : STok) (he : ex.WF) (ht : tok.WF) :
    ruleOK o ex.bytes tok.bytes .const = true ↔ SameValue tok ex := RulesF.const_by_value o ex tok he ht

/-- **enum** is membership among the items, type-sensitively: a token of another form (`"1"` against `1`) equals
no item; strings compare by decoded text, numbers by spelling -/
theorem C02_enum_type_sensitive (o : Oracles) (ex : STok) (items : List STok) (hi : ∀ it ∈ items, it.WF)
    (tok : STok) (ht : tok.WF) :
    (ruleOK o ex.bytes tok.bytes (SRule.enum items).toModel = true ↔ ∃ it ∈ items, EnumEq it tok) ∧
    (∀ a b : STok, a.form ≠ b.form → ¬ EnumEq a b) :=
  ⟨RulesF.enum_iff o ex items hi tok ht, RulesF.enum_type_sensitive⟩

/-- **false-valued rules are inert**: `nullable: false`, `const: false`, `exclusiveMinimum: false`,
`exclusiveMaximum: false` may stand anywhere in the annotation or be left out — the compiled node is the same -/
theorem C02_false_rules_inert_full (kind : Rules.Kind) (ex : Bytes) (a b : List RawRule) (x : RawRule)
    (hx : x = .nullable false ∨ x = .const false ∨ x = .exclusiveMinimum false ∨ x = .exclusiveMaximum false) :
    compile kind ex (a ++ x :: b) = compile kind ex (a ++ b) := RulesF.false_rules_inert kind ex a b x hx

/-- **null first**: with `nullable: true` the token `null` is accepted by EVERY compiled node, whatever its kind
and its other rules (applicable or not); without it a non-null, enum-free node rejects `null` -/
theorem C02_null_first (o : Oracles) (l : LitSpecF) :
    (l.nul = true → litOKFull o l sNull = true) ∧
    (l.nul = false → l.kind ≠ .n → hasEnum l = false → litOKFull o l sNull = false) :=
  ⟨RulesF.null_first o l, RulesF.null_needs_nullable o l⟩

/-! ### the two known classes, stated and refuted -/

/-- the statement with enum membership of numbers by VALUE -/
def C02_enum_by_value_full : Prop := RulesF.accept_iff_enum_by_value
/-- false of the code (K-C10-enumtext): `2.50 // {enum: [2.50]}` rejects `2.5` -/
theorem C02_enum_by_value_full_false : ¬ C02_enum_by_value_full := RulesF.accept_iff_enum_by_value_false
/-- it holds whenever no enum item is a number equal to the token by value but spelled differently -/
theorem C02_enum_by_value_partial (o : Oracles) (S : SSpec) (hS : S.WF) (hA : S.applicable = true)
    (tok : STok) (ht : tok.WF) (hc : enumTextClass S tok = false) :
    litOKFull o S.toModel tok.bytes = true ↔ Accepts EnumEqV o S tok :=
  RulesF.accept_iff_enum_by_value_partial o S hS hA tok ht hc

/-- the statement for every numeral of the RFC grammar, `0e1` included -/
def C02_every_numeral_full : Prop := RulesF.accept_iff_every_numeral
/-- false of the code (K-C10-zeroexp): the rule-free schema `1` rejects `0e1` -/
theorem C02_every_numeral_full_false : ¬ C02_every_numeral_full := RulesF.accept_iff_every_numeral_false

/-! ### non-vacuity: concrete instances (`bs` turns an ASCII literal into its bytes) -/

def bs (s : String) : Bytes := s.toList.map (fun c => UInt8.ofNat c.toNat)

/-- `1.5 // {min: 1.5, precision: 1}` against `15e-1` -/
def exNum : SSpec := ⟨.f, .num (bs "1.5"), false, [.min (bs "1.5") false, .precision 1]⟩
theorem exNum_ok : exNum.WF ∧ exNum.applicable = true ∧ (STok.num (bs "15e-1")).WF := by
  refine ⟨⟨⟨⟨false, 1, [], some (5, []), none⟩, by simp [Num.Numeral.wf], by simp [Num.Numeral.zeroExp], by decide⟩, ?_⟩,
    by decide, ⟨⟨false, 1, [5], none, some (some true, 1, [])⟩, by simp [Num.Numeral.wf], by simp [Num.Numeral.zeroExp], by decide⟩⟩
  intro r hr
  simp only [exNum, List.mem_cons, List.not_mem_nil, or_false] at hr
  rcases hr with rfl | rfl
  · exact ⟨⟨false, 1, [], some (5, []), none⟩, by simp [Num.Numeral.wf], by simp [Num.Numeral.zeroExp], by decide⟩
  · trivial
-- verdicts of the model on this instance (evaluated: `Number.Cmp` recurses on two lists, which the kernel does not unfold)
#guard litOKFull RulesF.noOracle exNum.toModel (bs "15e-1") == true
#guard litOKFull RulesF.noOracle exNum.toModel (bs "1.49") == false
#guard litOKFull RulesF.noOracle exNum.toModel (bs "1.55") == false
-- `1.10` has ONE fractional digit for the code: the trailing zeros of the fraction do not count, whatever the spelling
example : ruleOK RulesF.noOracle (bs "1.5") (bs "1.10") (.precision 1) = true ∧
          ruleOK RulesF.noOracle (bs "1.5") (bs "110e-2") (.precision 1) = true ∧
          ruleOK RulesF.noOracle (bs "1.5") (bs "1.11") (.precision 1) = false ∧
          ruleOK RulesF.noOracle (bs "1.5") (bs "5E-9") (.precision 8) = false := by decide +kernel

/-- `"abcd" // {minLength: 2, maxLength: 4}` against the escaped pair `"😀"` (U+1F600: 4 bytes) -/
def exStr : SSpec := ⟨.s, .str [.chr 'a', .chr 'b', .chr 'c', .chr 'd'], false, [.minLength 2, .maxLength 4]⟩
def grin : STok := .str [.u4 100 56 51 100, .u4 100 101 48 48]
theorem exStr_ok : exStr.WF ∧ exStr.applicable = true ∧ grin.WF := by
  refine ⟨⟨?_, ?_⟩, by decide, ?_⟩
  · intro c hc; simp only [List.mem_cons, List.not_mem_nil, or_false] at hc
    rcases hc with rfl | rfl | rfl | rfl <;> exact ⟨by decide, by decide, by decide⟩
  · intro r hr; simp only [exStr, List.mem_cons, List.not_mem_nil, or_false] at hr; rcases hr with rfl | rfl <;> trivial
  · intro c hc; simp only [List.mem_cons, List.not_mem_nil, or_false] at hc
    rcases hc with rfl | rfl <;> exact ⟨by decide, by decide, by decide, by decide⟩
example : grin.bytes = bs "\"\\ud83d\\ude00\"" := by decide
example : text [.u4 100 56 51 100, .u4 100 101 48 48] = [0xF0, 0x9F, 0x98, 0x80] := by
  simp only [text, decodeS]; decide +kernel
example : text [.u4 48 48 52 49] = [65] := by simp only [text, decodeS]; decide +kernel              -- "\u0041" is one byte
example : text [.chr 'é'] = [0xC3, 0xA9] := by simp only [text, decodeS]; decide +kernel              -- é is two
example : text [.u4 100 56 51 100] = [0xEF, 0xBF, 0xBD] := by simp only [text, decodeS]; decide +kernel  -- a lone surrogate is U+FFFD
example : litOKFull RulesF.noOracle exStr.toModel grin.bytes = true := by decide +kernel
example : litOKFull RulesF.noOracle exStr.toModel (bs "\"\\ud83d\\ude00s\"") = false := by decide +kernel

-- const by value, enum by type
#guard sameJSONValue (bs "1.50") (bs "15e-1") && !sameJSONValue (bs "1.50") (bs "1.51")
example : sameJSONValue (bs "\"a\\u0062\"") (bs "\"ab\"") = true := by decide +kernel
example : ruleOK RulesF.noOracle (bs "1") (bs "\"1\"") (.enum [bs "1"]) = false ∧
          ruleOK RulesF.noOracle (bs "1") (bs "1") (.enum [bs "\"1\""]) = false ∧
          ruleOK RulesF.noOracle (bs "1") (bs "1") (.enum [bs "\"1\"", bs "1"]) = true := by decide +kernel
-- false-valued rules, null first
example : compile .i (bs "1") [.min (bs "0"), .exclusiveMinimum false, .const false, .nullable false]
        = compile .i (bs "1") [.min (bs "0")] := by decide
example : litOKFull RulesF.noOracle (compile .s (bs "\"a\"") [.const true, .nullable true, .minLength 1]) sNull = true := by decide +kernel
example : litOKFull RulesF.noOracle (compile .s (bs "\"a\"") [.const false, .nullable false, .minLength 1]) sNull = false := by decide +kernel

end Full

/-! # C02 at TEXT level: a scalar schema with its rules written as text

`Lay.annTextB a EX s1 s2 ob s3 tl` is the schema text `EX s1 // s2 {ob} s3 tl` (`a = .inline`) or `EX s1 /* s2 {ob} s3 tl`
(`a = .multi`, `tl` = `*/` + white space): a top-level scalar EXAMPLE and a rule object of the grammar `Lay.AnnValid`
(rules `blanks name spaces : blanks value blanks` with bare names and LITERAL values, commas, optional trailing comma,
line breaks in the multi-line form). `ob.pairs` is the list (name, value token) in written order. `E2E.validateText`
runs, inside Lean, schema scanner model → loader model (rule names and value spans) → `Compile` (the constraint
constructors, `compileNode`, `CheckRootSchema`) → JSON scanner model → validator machine. No IR is trusted: the
statements speak about the two TEXTS.

`C02T.okRules EX pairs` (decidable) = the kind of EX can be guessed ∧ the constraint constructors accept every rule in
written order (`C02T.okCreate`: known name, well-formed value, no duplicate) ∧ the conditions of `compileNode`
(`C02T.okBasic`, in the order of `compiler_basic.go`: no `or` / `enum` / `optional` / `additionalProperties`; next to
`precision` a `type` says `decimal`; `type` is the example's JSON kind, `decimal` on a float with `precision`, or
`uuid` / `date` on a string without length rules; `exclusiveMinimum` / `exclusiveMaximum` only next to `min` / `max`;
min ≤ max (strictly under an exclusive flag), minLength ≤ maxLength; every constraint fits the example's kind).
`C02T.compiledOf EX rules` is the scalar node the compiler leaves: kind and example of EX, `nul` = a `nullable` rule
other than `nullable: false` is present, the literal validators in written order with the exclusive flags folded into
`min` / `max`, false-valued `const` dropped, the format of `type: "uuid" | "date"` last.
Tied to the real `Check` / `Validate` by `vh c02-text` (text → real library = driver `e2e` = driver `c02t`, the
closed form evaluated from the structured rule list through `C02T.specOfRules` = `RulesF.compile` of the written rules). -/

section TextLevel
open Lay SchemaScan C02T

/-- **C02 at text level.** For every schema text `EX // {r1: v1, …}` / `EX /* {…} */` of the grammar whose rule set
passes the creation and basic-compile stages and whose EXAMPLE satisfies its own rules (the check stage), and every
document text that is one JSON scalar with white space around it: the outcome of the whole pipeline is `acc` exactly
when `ValidateLiteralValue` (`RulesF.litOKFull`, the model of `C02_accept_iff_full`) accepts the document token on the
compiled node of the written rules (`Compile.noOracles`: no rule of the class calls the standard library). -/
theorem C02_text_level (a : Ann) (ha : a.isAnn = true) (EX s1 s2 : List UInt8) (ob : BObj)
    (s3 tl : List UInt8) (hv : AnnValid a EX s1 s2 ob s3 tl) (hok : okRules EX ob.pairs = true)
    (hex : RulesF.litOKFull Compile.noOracles (compiledOf EX (mk ob.pairs)) EX = true)
    (docTok ws0 ws1 : List UInt8) (hd : JsonScan.IsScalar (docTok.map JsonScan.classify))
    (hw0 : JsonScan.IsWs (ws0.map JsonScan.classify)) (hw1 : JsonScan.IsWs (ws1.map JsonScan.classify)) :
    E2E.validateText (annTextB a EX s1 s2 ob s3 tl) [] (ws0 ++ (docTok ++ ws1))
      = if RulesF.litOKFull Compile.noOracles (compiledOf EX (mk ob.pairs)) docTok then .acc else .rej :=
  C02T.text_level a ha EX s1 s2 ob s3 tl hv hok hex docTok ws0 ws1 hd hw0 hw1

/-- **compile half**: scanner model, loader model, constraint constructors and `compileNode` on the text yield the
literal node of the written rules — exclusive flags folded into the bounds, false-valued `nullable` / `const`
dropped, the format of a `type` rule added, positions and layout gone -/
theorem C02_text_compile_half (a : Ann) (ha : a.isAnn = true) (EX s1 s2 : List UInt8) (ob : BObj) (s3 tl : List UInt8)
    (hv : AnnValid a EX s1 s2 ob s3 tl) (hok : okRules EX ob.pairs = true) :
    E2E.loadSchema (annTextB a EX s1 s2 ob s3 tl) false = .ok (some (.lit (compiledOf EX (mk ob.pairs)) false)) :=
  C02T.loadSchema_annot a ha EX s1 s2 ob s3 tl hv hok

/-- **the EXAMPLE violates one of its own rules**: `Check` refuses the schema — whatever the document — with the code
of the first failing validator (`Compile.litErr`: 210 kind, 602 min / max / precision, 603 lengths, 614 uuid, 616 date,
615 const) at the offset of EX, which is 0 in these texts (C04's statement for the scalar case, on text) -/
theorem C02_text_check_rejects_bad_example (a : Ann) (ha : a.isAnn = true) (EX s1 s2 : List UInt8) (ob : BObj)
    (s3 tl : List UInt8) (hv : AnnValid a EX s1 s2 ob s3 tl) (hok : okRules EX ob.pairs = true)
    (hex : RulesF.litOKFull Compile.noOracles (compiledOf EX (mk ob.pairs)) EX = false) (doc : List UInt8) :
    E2E.validateText (annTextB a EX s1 s2 ob s3 tl) [] doc
      = .schemaErr ((Compile.litErr (compiledOf EX (mk ob.pairs)) EX).getD 0) 0 :=
  C02T.text_check_rejects a ha EX s1 s2 ob s3 tl hv hok hex doc

/-- the same statements with the node written through `RulesF.compile` of the parsed rules (`C02T.specOfRules`: the
`RulesF.Spec` of `C02_accept_iff_full`) in place of `compiledOf` — the two differ in the order of the validators only.
Stated, not proved here; evaluated against the real library by `vh c02-text` (the closed form `c02t` uses it). -/
def C02_text_level_spec_full : Prop :=
  ∀ (o : RulesF.Oracles) (a : Ann), a.isAnn = true → ∀ (EX s1 s2 : List UInt8) (ob : BObj) (s3 tl : List UInt8),
    AnnValid a EX s1 s2 ob s3 tl → okRules EX ob.pairs = true →
    RulesF.litOKFull o (specOfRules EX ob.pairs) EX = true →
    ∀ (docTok ws0 ws1 : List UInt8), JsonScan.IsScalar (docTok.map JsonScan.classify) →
    JsonScan.IsWs (ws0.map JsonScan.classify) → JsonScan.IsWs (ws1.map JsonScan.classify) →
    E2E.validateText (annTextB a EX s1 s2 ob s3 tl) [] (ws0 ++ (docTok ++ ws1))
      = if RulesF.litOKFull o (specOfRules EX ob.pairs) docTok then .acc else .rej

/-- rule order: permuting the rules inside the annotation leaves the outcome unchanged. Stated, not proved here
(`vh c02-text` checks it on the real library: every third node is run with its rules permuted and re-spelled). -/
def C02_text_rule_order_full : Prop :=
  ∀ (a a' : Ann), a.isAnn = true → a'.isAnn = true → ∀ (EX s1 s2 s1' s2' : List UInt8) (ob ob' : BObj)
    (s3 tl s3' tl' : List UInt8), AnnValid a EX s1 s2 ob s3 tl → AnnValid a' EX s1' s2' ob' s3' tl' →
    ob.pairs.Perm ob'.pairs → okRules EX ob.pairs = true → ∀ doc : List UInt8,
    (E2E.validateText (annTextB a EX s1 s2 ob s3 tl) [] doc = .acc ↔
      E2E.validateText (annTextB a' EX s1' s2' ob' s3' tl') [] doc = .acc)

/-! Non-vacuity: `1 // {min: 0, max :5, }` (inline, trailing comma) and `1 /*⏎ {min: 0,⏎ max: 5⏎}⏎*/⏎` (multi-line)
against the documents ` 4⏎` (accepted) and `6` (rejected); `7 // {min: 0, max :5, }`
is refused by `Check` with code 602 at offset 0. -/

example : okRules Lay.Ex.one Lay.Ex.obInl.pairs = true := by decide +kernel
example : okRules Lay.Ex.one Lay.Ex.obMl.pairs = true := by decide +kernel
example : Lay.Ex.obInl.pairs = [(bs "min", bs "0"), (bs "max", bs "5")] := by decide
example : annTextB .inline Lay.Ex.one [32] [32] Lay.Ex.obInl [] [] = bs "1 // {min: 0, max :5, }" := by decide
-- typical rule sets meet the predicate (values as tokens; `"…"` escaped for Lean)
example : okRules (bs "1.5") [(bs "min", bs "1.5"), (bs "exclusiveMinimum", bs "false"), (bs "max", bs "2"),
    (bs "exclusiveMaximum", bs "true"), (bs "nullable", bs "true")] = true := by decide +kernel
example : okRules (bs "1.25") [(bs "precision", bs "2"), (bs "type", bs "\"decimal\""), (bs "const", bs "false")] = true := by
  decide +kernel
example : okRules (bs "\"abc\"") [(bs "minLength", bs "1"), (bs "maxLength", bs "3"), (bs "type", bs "\"string\""),
    (bs "const", bs "true")] = true := by decide +kernel
example : okRules (bs "\"2024-02-29\"") [(bs "type", bs "\"date\""), (bs "nullable", bs "false")] = true := by
  decide +kernel
example : okRules (bs "true") [(bs "const", bs "true"), (bs "type", bs "\"boolean\"")] = true := by decide +kernel
-- … and the offending ones do not
example : okRules (bs "1") [(bs "exclusiveMinimum", bs "true")] = false := by decide +kernel
example : okRules (bs "1") [(bs "min", bs "2"), (bs "max", bs "1")] = false := by decide +kernel
example : okRules (bs "1") [(bs "min", bs "0"), (bs "min", bs "0")] = false := by decide +kernel
example : okRules (bs "1") [(bs "type", bs "\"float\"")] = false := by decide +kernel

theorem ex_doc4 : JsonScan.IsScalar (([52] : List UInt8).map JsonScan.classify) := ⟨.d19, [], .d1, false, .d1, rfl, rfl, rfl, rfl⟩
theorem ex_doc6 : JsonScan.IsScalar (([54] : List UInt8).map JsonScan.classify) := ⟨.d19, [], .d1, false, .d1, rfl, rfl, rfl, rfl⟩

/-- `1 // {min: 0, max :5, }` accepts ` 4⏎` -/
example : E2E.validateText (annTextB .inline Lay.Ex.one [32] [32] Lay.Ex.obInl [] []) [] ([32] ++ ([52] ++ [10])) = .acc := by
  rw [C02_text_level .inline rfl Lay.Ex.one [32] [32] Lay.Ex.obInl [] [] Lay.Ex.annInl_valid
    (by decide +kernel) (by decide +kernel) [52] [32] [10] ex_doc4
    (by simp [JsonScan.IsWs, JsonScan.classify, JsonScan.Cls.isWs])
    (by simp [JsonScan.IsWs, JsonScan.classify, JsonScan.Cls.isWs])]
  have h : RulesF.litOKFull Compile.noOracles (compiledOf Lay.Ex.one (mk Lay.Ex.obInl.pairs)) [52] = true := by
    decide +kernel
  rw [if_pos h]

/-- the multi-line spelling `1 /*⏎ {min: 0,⏎ max: 5⏎}⏎*/⏎` rejects `6` -/
example : E2E.validateText (annTextB .multi Lay.Ex.one [32] [10, 32] Lay.Ex.obMl [10] [42, 47, 10]) [] ([] ++ ([54] ++ [])) = .rej := by
  rw [C02_text_level .multi rfl Lay.Ex.one [32] [10, 32] Lay.Ex.obMl [10] [42, 47, 10] Lay.Ex.annMl_valid
    (by decide +kernel) (by decide +kernel) [54] [] [] ex_doc6 (by simp [JsonScan.IsWs]) (by simp [JsonScan.IsWs])]
  have h : RulesF.litOKFull Compile.noOracles (compiledOf Lay.Ex.one (mk Lay.Ex.obMl.pairs)) [54] = false := by
    decide +kernel
  rw [h]
  rfl

theorem ann7_valid : AnnValid .inline [55] [32] [32] Lay.Ex.obInl [] [] :=
  ⟨⟨.d19, [], .d1, false, .d1, rfl, rfl, rfl, rfl⟩, by simp only [IsSpTabs]; decide, by simp only [ABlank]; decide,
    Lay.Ex.obInl_valid, by simp only [ABlank]; decide, .eof⟩

/-- `7 // {min: 0, max :5, }`: the example exceeds its own `max` — error 602 at offset 0, for every document -/
example (doc : List UInt8) :
    E2E.validateText (annTextB .inline [55] [32] [32] Lay.Ex.obInl [] []) [] doc = .schemaErr 602 0 := by
  rw [C02_text_check_rejects_bad_example .inline rfl [55] [32] [32] Lay.Ex.obInl [] [] ann7_valid (by decide +kernel)
    (by decide +kernel) doc]
  have h : Compile.litErr (compiledOf [55] (mk Lay.Ex.obInl.pairs)) [55] = some 602 := by decide +kernel
  rw [h]
  rfl

/-! ## second part: the SPEC form, the property's own wording, the rule order

`C02T.specOfRules EX pairs` = `RulesF.compile` of the parsed pairs: the `RulesF.LitSpecF` that `C02_accept_iff_full`
speaks about. The compiler's node (`compiledOf`) lists the validators in written order with the format of a `type`
rule last and reads the exclusive flags off the FIRST rule of that name; `RulesF.compile` keeps the written order and
asks whether `exclusiveMinimum: true` occurs ANYWHERE. The two agree as SETS of validators because the constraint
constructors refuse a repeated name (`C02T.facts_of_okCreate`), and a set is all `ValidateLiteralValue` sees. -/

/-- **the validators as a set**: `ValidateLiteralValue` gives two nodes with the same kind, example, nullable flag and
the same validators up to order and repetition the same verdict on every token -/
theorem C02_validators_as_set (o : RulesF.Oracles) (l l' : RulesF.LitSpecF) (hk : l.kind = l'.kind) (he : l.ex = l'.ex)
    (hn : l.nul = l'.nul) (hr : ∀ r, r ∈ l.rules ↔ r ∈ l'.rules) (tok : List UInt8) :
    RulesF.litOKFull o l tok = RulesF.litOKFull o l' tok := C02T.litOKFull_congr o l l' hk he hn hr tok

/-- … in particular a permutation of the validator list -/
theorem C02_validators_perm (o : RulesF.Oracles) (l : RulesF.LitSpecF) (rs' : List RulesF.Rule) (hp : l.rules.Perm rs')
    (tok : List UInt8) : RulesF.litOKFull o l tok = RulesF.litOKFull o { l with rules := rs' } tok :=
  C02T.litOKFull_perm o l rs' hp tok

/-- the compiled node and the spec node of an admissible rule set: same kind, example, nullable flag, same validators
as a set -/
theorem C02_text_spec_vs_compiled (EX : List UInt8) (ps : List C02T.Pair) (hok : okCreate ps = true) :
    (specOfRules EX ps).kind = (compiledOf EX (mk ps)).kind ∧ (specOfRules EX ps).ex = (compiledOf EX (mk ps)).ex ∧
    (specOfRules EX ps).nul = (compiledOf EX (mk ps)).nul ∧
    ∀ r, r ∈ (specOfRules EX ps).rules ↔ r ∈ (compiledOf EX (mk ps)).rules :=
  C02T.spec_vs_compiled EX ps (C02T.facts_of_okCreate hok)

/-- **C02 at text level, SPEC form.** As `C02_text_level`, with the node written through `RulesF.compile` of the
parsed rules and ANY oracles (no rule of the class reaches the standard library): the outcome of the whole pipeline on
the two texts is `acc` exactly when `RulesF.litOKFull o (specOfRules EX rules) docTok`. -/
theorem C02_text_level_spec (o : RulesF.Oracles) (a : Ann) (ha : a.isAnn = true) (EX s1 s2 : List UInt8) (ob : BObj)
    (s3 tl : List UInt8) (hv : AnnValid a EX s1 s2 ob s3 tl) (hok : okRules EX ob.pairs = true)
    (hex : RulesF.litOKFull o (specOfRules EX ob.pairs) EX = true)
    (docTok ws0 ws1 : List UInt8) (hd : JsonScan.IsScalar (docTok.map JsonScan.classify))
    (hw0 : JsonScan.IsWs (ws0.map JsonScan.classify)) (hw1 : JsonScan.IsWs (ws1.map JsonScan.classify)) :
    E2E.validateText (annTextB a EX s1 s2 ob s3 tl) [] (ws0 ++ (docTok ++ ws1))
      = if RulesF.litOKFull o (specOfRules EX ob.pairs) docTok then .acc else .rej :=
  C02T.text_level_spec o a ha EX s1 s2 ob s3 tl hv hok hex docTok ws0 ws1 hd hw0 hw1

/-- the statement left open by the first part holds -/
theorem C02_text_level_spec_full_holds : C02_text_level_spec_full :=
  fun o a ha EX s1 s2 ob s3 tl hv hok hex docTok ws0 ws1 hd hw0 hw1 =>
    C02_text_level_spec o a ha EX s1 s2 ob s3 tl hv hok hex docTok ws0 ws1 hd hw0 hw1

/-- **C02 at text level, in the property's own wording.** `S` is the rule set over structured tokens
(`RulesF.SSpec`: the example, the nullable flag, the validators) that the written rules denote
(`specOfRules … = S.toModel`, a decidable check on a concrete text); it is well-formed and applicable, and its EXAMPLE
is a value it accepts. Then for every scalar token `tok` of a JSON document, with white space around it: the library
(scanner, loader, compiler, checker, validator — all inside) accepts the document text exactly when `tok` is a `null`
admitted by `nullable: true`, or has an admissible kind and satisfies every rule by its MEANING
(`RulesF.Accepts`: min / max on the exact decimal value, precision on the fractional digits of the value, lengths on
the UTF-8 bytes of the decoded string, uuid / date by their definitions, const by value, enum type-sensitively). -/
theorem C02_text_level_meaning (o : RulesF.Oracles) (a : Ann) (ha : a.isAnn = true) (S : RulesF.SSpec) (hS : S.WF)
    (hA : S.applicable = true) (s1 s2 : List UInt8) (ob : BObj) (s3 tl : List UInt8)
    (hv : AnnValid a S.ex.bytes s1 s2 ob s3 tl) (hok : okRules S.ex.bytes ob.pairs = true)
    (hm : specOfRules S.ex.bytes ob.pairs = S.toModel) (hex : RulesF.Accepts RulesF.EnumEq o S S.ex)
    (tok : RulesF.STok) (ht : tok.WF) (ws0 ws1 : List UInt8) (hd : JsonScan.IsScalar (tok.bytes.map JsonScan.classify))
    (hw0 : JsonScan.IsWs (ws0.map JsonScan.classify)) (hw1 : JsonScan.IsWs (ws1.map JsonScan.classify)) :
    E2E.validateText (annTextB a S.ex.bytes s1 s2 ob s3 tl) [] (ws0 ++ (tok.bytes ++ ws1)) = .acc ↔
      RulesF.Accepts RulesF.EnumEq o S tok := by
  have hex' : RulesF.litOKFull o (specOfRules S.ex.bytes ob.pairs) S.ex.bytes = true := by
    rw [hm]; exact (C02_accept_iff_full o S hS hA S.ex hS.1).2 hex
  rw [C02_text_level_spec o a ha S.ex.bytes s1 s2 ob s3 tl hv hok hex' tok.bytes ws0 ws1 hd hw0 hw1, hm]
  have hiff : RulesF.litOKFull o S.toModel tok.bytes = true ↔ RulesF.Accepts RulesF.EnumEq o S tok :=
    C02_accept_iff_full o S hS hA tok ht
  rw [← hiff]
  cases RulesF.litOKFull o S.toModel tok.bytes <;> simp

/-- **rule order.** Two annotations on the same EXAMPLE whose rule objects are permutations of each other (the same
(name, value) pairs; each in any layout, either form, with or without trailing comma): the same documents are accepted
— for EVERY document text, scalar or not, well-formed or not. -/
theorem C02_text_rule_order (a a' : Ann) (ha : a.isAnn = true) (ha' : a'.isAnn = true)
    (EX s1 s2 s1' s2' : List UInt8) (ob ob' : BObj) (s3 tl s3' tl' : List UInt8)
    (hv : AnnValid a EX s1 s2 ob s3 tl) (hv' : AnnValid a' EX s1' s2' ob' s3' tl')
    (hp : ob.pairs.Perm ob'.pairs) (hok : okRules EX ob.pairs = true) (doc : List UInt8) :
    E2E.validateText (annTextB a EX s1 s2 ob s3 tl) [] doc = .acc ↔
      E2E.validateText (annTextB a' EX s1' s2' ob' s3' tl') [] doc = .acc :=
  C02T.text_rule_order a a' ha ha' EX s1 s2 s1' s2' ob ob' s3 tl s3' tl' hv hv' hp hok doc

/-- the statement left open by the first part holds -/
theorem C02_text_rule_order_full_holds : C02_text_rule_order_full :=
  fun a a' ha ha' EX s1 s2 s1' s2' ob ob' s3 tl s3' tl' hv hv' hp hok doc =>
    C02_text_rule_order a a' ha ha' EX s1 s2 s1' s2' ob ob' s3 tl s3' tl' hv hv' hp hok doc

/-- … and when the EXAMPLE passes its own rules the two texts get the same OUTCOME (accept, reject, or the same
document error at the same offset) on every document text -/
theorem C02_text_rule_order_outcome (a a' : Ann) (ha : a.isAnn = true) (ha' : a'.isAnn = true)
    (EX s1 s2 s1' s2' : List UInt8) (ob ob' : BObj) (s3 tl s3' tl' : List UInt8)
    (hv : AnnValid a EX s1 s2 ob s3 tl) (hv' : AnnValid a' EX s1' s2' ob' s3' tl')
    (hp : ob.pairs.Perm ob'.pairs) (hok : okRules EX ob.pairs = true)
    (hex : RulesF.litOKFull Compile.noOracles (compiledOf EX (mk ob.pairs)) EX = true) (doc : List UInt8) :
    E2E.validateText (annTextB a EX s1 s2 ob s3 tl) [] doc
      = E2E.validateText (annTextB a' EX s1' s2' ob' s3' tl') [] doc :=
  C02T.text_rule_order_outcome a a' ha ha' EX s1 s2 s1' s2' ob ob' s3 tl s3' tl' hv hv' hp hok hex doc

/-- the conditions of the stages do not depend on the order either -/
theorem C02_okRules_perm (EX : List UInt8) (ps ps' : List C02T.Pair) (hp : ps.Perm ps') (h : okRules EX ps = true) :
    okRules EX ps' = true := C02T.okRules_perm EX hp h

/-! Non-vacuity. `1 // {min: 0, max :5, }` denotes `S15` = (integer, example `1`, not nullable, [min 0, max 5]); against
` 4⏎` the pipeline accepts and `4` lies in [0, 5] by value; the multi-line text with the rules swapped
(`1 /*⏎ {max: 5,⏎ min: 0⏎}⏎*/⏎`) gets the same outcome on every document. -/

def S15 : RulesF.SSpec := ⟨.i, .num [49], false, [.min [48] false, .max [53] false]⟩

theorem num1 (d : Nat) (hd : 1 ≤ d ∧ d ≤ 9) : RulesF.IsNumeral [UInt8.ofNat (48 + d)] := by
  refine ⟨⟨false, d, [], none, none⟩, by simp [Num.Numeral.wf], by simp [Num.Numeral.zeroExp], ?_⟩
  have : d = 1 ∨ d = 2 ∨ d = 3 ∨ d = 4 ∨ d = 5 ∨ d = 6 ∨ d = 7 ∨ d = 8 ∨ d = 9 := by omega
  rcases this with rfl | rfl | rfl | rfl | rfl | rfl | rfl | rfl | rfl <;> decide

theorem S15_ok : S15.WF ∧ S15.applicable = true := by
  refine ⟨⟨num1 1 (by omega), ?_⟩, by decide⟩
  intro r hr
  simp only [S15, List.mem_cons, List.not_mem_nil, or_false] at hr
  rcases hr with rfl | rfl
  · exact ⟨⟨false, 0, [], none, none⟩, by simp [Num.Numeral.wf], by simp [Num.Numeral.zeroExp], by decide⟩
  · exact num1 5 (by omega)

example : specOfRules S15.ex.bytes Lay.Ex.obInl.pairs = S15.toModel := by decide +kernel

/-- `1 // {min: 0, max :5, }` accepts ` 4⏎`, and the meaning says why -/
example : E2E.validateText (annTextB .inline Lay.Ex.one [32] [32] Lay.Ex.obInl [] []) [] ([32] ++ ([52] ++ [10])) = .acc ∧
    RulesF.Accepts RulesF.EnumEq RulesF.noOracle S15 (.num [52]) := by
  have hex : RulesF.Accepts RulesF.EnumEq RulesF.noOracle S15 S15.ex :=
    (C02_accept_iff_full RulesF.noOracle S15 S15_ok.1 S15_ok.2 S15.ex S15_ok.1.1).1 (by decide +kernel)
  have h := C02_text_level_meaning RulesF.noOracle .inline rfl S15 S15_ok.1 S15_ok.2 [32] [32] Lay.Ex.obInl [] []
    Lay.Ex.annInl_valid (by decide +kernel) (by decide +kernel) hex (.num [52]) (num1 4 (by omega)) [32] [10] ex_doc4
    (by simp [JsonScan.IsWs, JsonScan.classify, JsonScan.Cls.isWs])
    (by simp [JsonScan.IsWs, JsonScan.classify, JsonScan.Cls.isWs])
  have hacc : RulesF.Accepts RulesF.EnumEq RulesF.noOracle S15 (.num [52]) :=
    (C02_accept_iff_full RulesF.noOracle S15 S15_ok.1 S15_ok.2 (.num [52]) (num1 4 (by omega))).1 (by decide +kernel)
  exact ⟨h.2 hacc, hacc⟩

/-- `max: 5,⏎ min: 0⏎` — the rules of `obMl` swapped -/
def obSw : BObj := .rules ⟨[], Lay.Ex.nMax, 0, [32], Lay.Ex.v5, []⟩ [⟨[10, 32], Lay.Ex.nMin, 0, [32], Lay.Ex.v0, [10]⟩] none

theorem annSw_valid : AnnValid .multi Lay.Ex.one [32] [10, 32] obSw [10] [42, 47, 10] := by
  refine ⟨Lay.Ex.one_ok, by simp only [IsSpTabs]; decide, by simp only [ABlank]; decide, ⟨⟨?_, ?_⟩, ?_⟩,
    by simp only [ABlank]; decide, .close [.nl] (by simp only [IsWs]; decide)⟩
  · exact ⟨by simp only [ABlank, BRule.cls]; decide, Lay.Ex.nMax_ok, by simp only [ABlank, BRule.cls]; decide,
      Lay.Ex.v5_ok, by simp only [ABlank, BRule.cls]; decide⟩
  · intro x hx
    simp only [List.map_cons, List.map_nil, List.mem_singleton] at hx
    subst hx
    exact ⟨by simp only [ABlank, BRule.cls]; decide, Lay.Ex.nMin_ok, by simp only [ABlank, BRule.cls]; decide,
      Lay.Ex.v0_ok, by simp only [ABlank, BRule.cls]; decide⟩
  · intro b5 h; cases h

example : annTextB .multi Lay.Ex.one [32] [10, 32] obSw [10] [42, 47, 10] = bs "1 /*\n {max: 5,\n min: 0\n}\n*/\n" := by decide

/-- `1 // {min: 0, max :5, }` and `1 /*⏎ {max: 5,⏎ min: 0⏎}⏎*/⏎`: one outcome on every document text -/
example (doc : List UInt8) :
    E2E.validateText (annTextB .inline Lay.Ex.one [32] [32] Lay.Ex.obInl [] []) [] doc
      = E2E.validateText (annTextB .multi Lay.Ex.one [32] [10, 32] obSw [10] [42, 47, 10]) [] doc :=
  C02_text_rule_order_outcome .inline .multi rfl rfl Lay.Ex.one [32] [32] [32] [10, 32] Lay.Ex.obInl obSw [] [] [10]
    [42, 47, 10] Lay.Ex.annInl_valid annSw_valid (by decide) (by decide +kernel) (by decide +kernel) doc

/-! ## third part: quoted names and `enum` — what is proved (loaded pairs) and what is stated (texts)

After the loader a rule is the pair (name as `TrimSpaces().Unquote()` of the name token, value text): a quoted or
`\u`-escaped name arrives as its decoded text, an `enum` list as the text from `[` to `]`. On such pairs the `enum`
class is inside the theorems: `C02T.okRulesE` (the class of the first part, or: an `enum` rule beside at most `const`,
`nullable`, `type: "enum"`), `C02_stages_compiledOf` (creation + `compileNode` compute `compiledOf`),
`C02_closed_is_spec` (the closed form `C02T.closed` — the driver word `c02t`, compared with the real library by
`vh c02-text` on quoted, escaped and enum spellings — is the spec verdict of `RulesF.compile` of the written rules) and
`C02_text_is_closed` (on the texts of the first grammar the whole pipeline IS the closed form). The scanner + loader
half for the EXTENDED grammar (`Lay.GObj`: quoted names, list values) is STATED (`…_full`), not proved: the run lemmas of
`AnnotStep` / `AnnotRun` / `AnnotObj` are stated on `cfgA`, which pins the scanner's `boundaryQuote` flag to `false`; a
quoted key leaves it `true` until the next key, so they all need the flag as a parameter. -/

/-- **creation + `compileNode` on loaded pairs, `enum` class included**: the literal node `compiledOf` -/
theorem C02_stages_compiledOf (EX : List UInt8) (ps : List C02T.Pair) (h : okRulesE EX ps = true) :
    stages EX ps = .ok (.lit (compiledOf EX (mk ps)) false) := C02T.stages_ok EX ps h

/-- **the closed form is the spec verdict**: for an admissible rule set of either class whose validators do not
reach the standard library, any oracles and any document token, `closed` answers the code of the EXAMPLE's own first
failing validator at offset 0, else `acc` / `rej` by `RulesF.litOKFull` on `RulesF.compile` of the written rules -/
theorem C02_closed_is_spec (o : RulesF.Oracles) (EX : List UInt8) (ps : List C02T.Pair) (h : okRulesE EX ps = true)
    (hstd : ∀ r ∈ (compiledOf EX (mk ps)).rules, C02T.usesStd r = false) (docTok : List UInt8) :
    closed EX ps docTok = match Compile.litErr (compiledOf EX (mk ps)) EX with
      | some c => .schemaErr c 0
      | none => if RulesF.litOKFull o (specOfRules EX ps) docTok then .acc else .rej :=
  C02T.closed_spec o EX ps h hstd docTok

/-- an `enum` node of the class has no validator that reaches the standard library -/
theorem C02_enum_class_no_std (EX : List UInt8) (ps : List C02T.Pair) (k : Rules.Kind)
    (h : okBasicRE (mk ps) (Compile.JT.ofKind k) = true) :
    ∀ r ∈ (compiledOf EX (mk ps)).rules, C02T.usesStd r = false := C02T.compiled_noStd_enum EX ps k h

/-- **the text pipeline is the closed form** (first grammar): schema text and document text ↦ what `c02t` computes from
the structured rule list — accepted, rejected, or refused by `Check` -/
theorem C02_text_is_closed (a : Ann) (ha : a.isAnn = true) (EX s1 s2 : List UInt8) (ob : BObj)
    (s3 tl : List UInt8) (hv : AnnValid a EX s1 s2 ob s3 tl) (hok : okRules EX ob.pairs = true)
    (docTok ws0 ws1 : List UInt8) (hd : JsonScan.IsScalar (docTok.map JsonScan.classify))
    (hw0 : JsonScan.IsWs (ws0.map JsonScan.classify)) (hw1 : JsonScan.IsWs (ws1.map JsonScan.classify)) :
    E2E.validateText (annTextB a EX s1 s2 ob s3 tl) [] (ws0 ++ (docTok ++ ws1)) = closed EX ob.pairs docTok :=
  C02T.text_eq_closed a ha EX s1 s2 ob s3 tl hv hok docTok ws0 ws1 hd hw0 hw1

/-- the same on the EXTENDED grammar (`Lay.GObj`: bare or quoted names — any JSON string, `\uXXXX` included —, literal
or list values): the statement that contains `C02_text_level_quoted` and `C02_text_level_enum`. Stated, not proved;
`vh c02-text` evaluates it against the real library (quoted / escaped names, enum lists, permutations: 0 diffs). -/
def C02_text_is_closed_extended_full : Prop :=
  ∀ (a : Ann), a.isAnn = true → ∀ (EX s1 s2 : List UInt8) (ob : GObj) (s3 tl : List UInt8),
    GAnnValid a EX s1 s2 ob s3 tl → okRulesE EX ob.pairs = true →
    ∀ (docTok ws0 ws1 : List UInt8), JsonScan.IsScalar (docTok.map JsonScan.classify) →
    JsonScan.IsWs (ws0.map JsonScan.classify) → JsonScan.IsWs (ws1.map JsonScan.classify) →
    E2E.validateText (gannText a EX s1 s2 ob s3 tl) [] (ws0 ++ (docTok ++ ws1)) = closed EX ob.pairs docTok

/-- quoted names, literal values -/
def C02_text_level_quoted_full : Prop :=
  ∀ (o : RulesF.Oracles) (a : Ann), a.isAnn = true → ∀ (EX s1 s2 : List UInt8) (ob : GObj) (s3 tl : List UInt8),
    GAnnValid a EX s1 s2 ob s3 tl → ob.literalValues → okRules EX ob.pairs = true →
    RulesF.litOKFull o (specOfRules EX ob.pairs) EX = true →
    ∀ (docTok ws0 ws1 : List UInt8), JsonScan.IsScalar (docTok.map JsonScan.classify) →
    JsonScan.IsWs (ws0.map JsonScan.classify) → JsonScan.IsWs (ws1.map JsonScan.classify) →
    E2E.validateText (gannText a EX s1 s2 ob s3 tl) [] (ws0 ++ (docTok ++ ws1))
      = if RulesF.litOKFull o (specOfRules EX ob.pairs) docTok then .acc else .rej

/-- the `enum` class (K-C10-enumtext applies: the items are compared as `RulesF.ruleOK … (.enum items)` does — numbers
by source text) -/
def C02_text_level_enum_full : Prop :=
  ∀ (o : RulesF.Oracles) (a : Ann), a.isAnn = true → ∀ (EX s1 s2 : List UInt8) (ob : GObj) (s3 tl : List UInt8),
    GAnnValid a EX s1 s2 ob s3 tl → okRulesE EX ob.pairs = true →
    RulesF.litOKFull o (specOfRules EX ob.pairs) EX = true →
    ∀ (docTok ws0 ws1 : List UInt8), JsonScan.IsScalar (docTok.map JsonScan.classify) →
    JsonScan.IsWs (ws0.map JsonScan.classify) → JsonScan.IsWs (ws1.map JsonScan.classify) →
    E2E.validateText (gannText a EX s1 s2 ob s3 tl) [] (ws0 ++ (docTok ++ ws1))
      = if RulesF.litOKFull o (specOfRules EX ob.pairs) docTok then .acc else .rej

/-- the two follow from the extended closed-form statement and the theorems above -/
theorem C02_text_level_enum_of_closed (h : C02_text_is_closed_extended_full) : C02_text_level_enum_full := by
  intro o a ha EX s1 s2 ob s3 tl hv hok hex docTok ws0 ws1 hd hw0 hw1
  have hE := hok
  simp only [okRulesE, Bool.and_eq_true, Bool.or_eq_true] at hE
  have hstd : ∀ r ∈ (compiledOf EX (mk ob.pairs)).rules, C02T.usesStd r = false := by
    rcases hE.2 with hb | hb
    · exact C02T.compiled_noStd EX ob.pairs (by simp [okRules, okBasic, hE.1.1, hE.1.2, hb])
    · exact C02T.compiled_noStd_enum EX ob.pairs _ hb
  rw [h a ha EX s1 s2 ob s3 tl hv hok docTok ws0 ws1 hd hw0 hw1, C02_closed_is_spec o EX ob.pairs hok hstd docTok]
  have hex' : RulesF.litOKFull Compile.noOracles (compiledOf EX (mk ob.pairs)) EX = true := by
    rw [← C02T.spec_eq_compiled _ EX ob.pairs (C02T.facts_of_okCreate hE.1.2),
      C02T.litOKFull_oracle Compile.noOracles o _ ?_ EX]
    · exact hex
    · intro r hr
      exact hstd r (((C02T.spec_vs_compiled EX ob.pairs (C02T.facts_of_okCreate hE.1.2)).2.2.2 r).1 hr)
  rw [(C02T.litErr_none_iff _ _).2 hex']

theorem C02_text_level_quoted_of_closed (h : C02_text_is_closed_extended_full) : C02_text_level_quoted_full :=
  fun o a ha EX s1 s2 ob s3 tl hv _ hok hex docTok ws0 ws1 hd hw0 hw1 =>
    C02_text_level_enum_of_closed h o a ha EX s1 s2 ob s3 tl hv (C02T.okRulesE_of_okRules hok) hex docTok ws0 ws1 hd hw0 hw1

/-! Non-vacuity: `"b" // {"\u0065num": ["a", "b"], const: false}` as loaded pairs — name decoded, list as text. -/

example : (GName.quoted [.u4 48 48 54 53, .chr 'n', .chr 'u', .chr 'm']).spell = bs "\"\\u0065num\"" ∧
    (GName.quoted [.u4 48 48 54 53, .chr 'n', .chr 'u', .chr 'm']).meaning = bs "enum" := by
  constructor
  · decide
  · simp only [GName.meaning, RulesF.text, RulesF.decodeS]; decide +kernel
example : (GVal.list [] [⟨[], bs "\"a\"", []⟩, ⟨[32], bs "\"b\"", []⟩]).spell = bs "[\"a\", \"b\"]" := by decide
example : okRulesE (bs "\"b\"") [(bs "enum", bs "[\"a\", \"b\"]"), (bs "const", bs "false")] = true := by decide +kernel
example : okRulesE (bs "2") [(bs "type", bs "\"enum\""), (bs "enum", bs "[1, 2, \"x\", null]"), (bs "nullable", bs "true")] = true := by
  decide +kernel
example : okRulesE (bs "2") [(bs "enum", bs "[1, 2]"), (bs "min", bs "1")] = false := by decide +kernel
-- the closed form on this node: `"b"` and `"\u0062"` accepted, `"c"` rejected; an EXAMPLE outside its list is refused (610)
#guard closed (bs "\"b\"") [(bs "enum", bs "[\"a\", \"b\"]"), (bs "const", bs "false")] (bs "\"\\u0062\"") == .acc
#guard closed (bs "\"b\"") [(bs "enum", bs "[\"a\", \"b\"]"), (bs "const", bs "false")] (bs "\"c\"") == .rej
#guard closed (bs "\"c\"") [(bs "enum", bs "[\"a\", \"b\"]")] (bs "\"a\"") == .schemaErr 610 0
-- … and through the theorem: the verdict on `"\u0062"` is `RulesF.litOKFull` on the spec node
example : closed (bs "\"b\"") [(bs "enum", bs "[\"a\", \"b\"]"), (bs "const", bs "false")] (bs "\"\\u0062\"") = .acc := by
  rw [C02_closed_is_spec RulesF.noOracle _ _ (by decide +kernel)
    (C02_enum_class_no_std _ _ .s (by decide +kernel))]
  have h1 : Compile.litErr (compiledOf (bs "\"b\"") (mk [(bs "enum", bs "[\"a\", \"b\"]"), (bs "const", bs "false")]))
      (bs "\"b\"") = none := by decide +kernel
  have h2 : RulesF.litOKFull RulesF.noOracle
      (specOfRules (bs "\"b\"") [(bs "enum", bs "[\"a\", \"b\"]"), (bs "const", bs "false")]) (bs "\"\\u0062\"") = true := by
    decide +kernel
  rw [h1]
  simp only [h2, if_true]

end TextLevel

end Props.C02

namespace Props.C02
open Lay SchemaScan C02T

/-! ## fourth part: quoted names and `enum` on TEXTS — the three statements of the third part, proved

Scanner model + loader model on the EXTENDED grammar (`Lay.GObj`): modules `AnnotQStep` / `AnnotQRun` / `AnnotQList` /
`AnnotQObj` (the run lemmas of the annotation at configurations that carry the scanner's `boundaryQuote` flag; a list
value `[ item, … ]` inside a general rule object), `AnnotQLoad` (`Loader.step` folded over the events: the UNQUOTED name
is bound; a list value goes through `embContainer` and is recorded from bracket to bracket), `QNameBytes` (every JSON
string token is a key of the scanner's token automaton), `AnnotQThm` (`Lay.load_gannot`), `C02TextQ`
(`loadSchema_gannot`, `docOut_scalar`), `C02TextQEmb` (an admissible rule set has list values only under `or` / `enum` /
`allOf`: every other constraint constructor refuses a value that begins with `[`, and `compileNode` refuses such a
`type`). -/

/-- **the text pipeline is the closed form, EXTENDED grammar**: bare or quoted rule names (any JSON string, `\uXXXX`
included), literal or list values, either annotation form, any layout of the grammar. For every admissible rule set
(`okRulesE`: the class of the first part, or an `enum` rule beside at most `const`, `nullable`, `type: "enum"`) and every
document that is one scalar token with white space around it, the whole pipeline (schema scanner model, loader model,
constraint constructors, `compileNode`, check, JSON scanner model, validator) answers what `C02T.closed` computes from the
pairs (DECODED name, value text) -/
theorem C02_text_is_closed_extended (a : Ann) (ha : a.isAnn = true) (EX s1 s2 : List UInt8) (ob : GObj)
    (s3 tl : List UInt8) (hv : GAnnValid a EX s1 s2 ob s3 tl) (hok : okRulesE EX ob.pairs = true)
    (docTok ws0 ws1 : List UInt8) (hd : JsonScan.IsScalar (docTok.map JsonScan.classify))
    (hw0 : JsonScan.IsWs (ws0.map JsonScan.classify)) (hw1 : JsonScan.IsWs (ws1.map JsonScan.classify)) :
    E2E.validateText (gannText a EX s1 s2 ob s3 tl) [] (ws0 ++ (docTok ++ ws1)) = closed EX ob.pairs docTok :=
  C02T.text_is_closed_extended a ha EX s1 s2 ob s3 tl hv hok docTok ws0 ws1 hd hw0 hw1

/-- the statement left open by the third part holds -/
theorem C02_text_is_closed_extended_full_holds : C02_text_is_closed_extended_full :=
  fun a ha EX s1 s2 ob s3 tl hv hok docTok ws0 ws1 hd hw0 hw1 =>
    C02_text_is_closed_extended a ha EX s1 s2 ob s3 tl hv hok docTok ws0 ws1 hd hw0 hw1

/-- **C02 at text level, the `enum` class and quoted names** (SPEC form; K-C10-enumtext applies: the items are compared
as `RulesF.ruleOK … (.enum items)` does — numbers by source text): for a schema text of the extended grammar whose rule
set is admissible and whose EXAMPLE passes its own rules, the outcome on a scalar document is `acc` exactly when
`RulesF.litOKFull o (specOfRules EX pairs) docTok`, for ANY oracles -/
theorem C02_text_level_enum (o : RulesF.Oracles) (a : Ann) (ha : a.isAnn = true) (EX s1 s2 : List UInt8) (ob : GObj)
    (s3 tl : List UInt8) (hv : GAnnValid a EX s1 s2 ob s3 tl) (hok : okRulesE EX ob.pairs = true)
    (hex : RulesF.litOKFull o (specOfRules EX ob.pairs) EX = true)
    (docTok ws0 ws1 : List UInt8) (hd : JsonScan.IsScalar (docTok.map JsonScan.classify))
    (hw0 : JsonScan.IsWs (ws0.map JsonScan.classify)) (hw1 : JsonScan.IsWs (ws1.map JsonScan.classify)) :
    E2E.validateText (gannText a EX s1 s2 ob s3 tl) [] (ws0 ++ (docTok ++ ws1))
      = if RulesF.litOKFull o (specOfRules EX ob.pairs) docTok then .acc else .rej :=
  C02_text_level_enum_of_closed C02_text_is_closed_extended_full_holds o a ha EX s1 s2 ob s3 tl hv hok hex docTok ws0 ws1
    hd hw0 hw1

theorem C02_text_level_enum_full_holds : C02_text_level_enum_full :=
  C02_text_level_enum_of_closed C02_text_is_closed_extended_full_holds

/-- **C02 at text level, QUOTED rule names** (literal values, the class of the first part): `"min": 1`,
`"m\u0069n": 1` — the verdict is that of the DECODED names -/
theorem C02_text_level_quoted (o : RulesF.Oracles) (a : Ann) (ha : a.isAnn = true) (EX s1 s2 : List UInt8) (ob : GObj)
    (s3 tl : List UInt8) (hv : GAnnValid a EX s1 s2 ob s3 tl) (hl : ob.literalValues) (hok : okRules EX ob.pairs = true)
    (hex : RulesF.litOKFull o (specOfRules EX ob.pairs) EX = true)
    (docTok ws0 ws1 : List UInt8) (hd : JsonScan.IsScalar (docTok.map JsonScan.classify))
    (hw0 : JsonScan.IsWs (ws0.map JsonScan.classify)) (hw1 : JsonScan.IsWs (ws1.map JsonScan.classify)) :
    E2E.validateText (gannText a EX s1 s2 ob s3 tl) [] (ws0 ++ (docTok ++ ws1))
      = if RulesF.litOKFull o (specOfRules EX ob.pairs) docTok then .acc else .rej :=
  C02_text_level_quoted_of_closed C02_text_is_closed_extended_full_holds o a ha EX s1 s2 ob s3 tl hv hl hok hex docTok ws0
    ws1 hd hw0 hw1

theorem C02_text_level_quoted_full_holds : C02_text_level_quoted_full :=
  C02_text_level_quoted_of_closed C02_text_is_closed_extended_full_holds

/-- **quoting a rule name changes nothing**: two schema texts on the same EXAMPLE whose rule objects have the same pairs
(decoded name, value text) — quoted / escaped / bare names, either form, any layout — get the same outcome on every scalar
document -/
theorem C02_text_quoting_invariant (a a' : Ann) (ha : a.isAnn = true) (ha' : a'.isAnn = true)
    (EX s1 s2 s1' s2' : List UInt8) (ob ob' : GObj) (s3 tl s3' tl' : List UInt8)
    (hv : GAnnValid a EX s1 s2 ob s3 tl) (hv' : GAnnValid a' EX s1' s2' ob' s3' tl')
    (hsame : ob.pairs = ob'.pairs) (hok : okRulesE EX ob.pairs = true)
    (docTok ws0 ws1 : List UInt8) (hd : JsonScan.IsScalar (docTok.map JsonScan.classify))
    (hw0 : JsonScan.IsWs (ws0.map JsonScan.classify)) (hw1 : JsonScan.IsWs (ws1.map JsonScan.classify)) :
    E2E.validateText (gannText a EX s1 s2 ob s3 tl) [] (ws0 ++ (docTok ++ ws1))
      = E2E.validateText (gannText a' EX s1' s2' ob' s3' tl') [] (ws0 ++ (docTok ++ ws1)) := by
  rw [C02_text_is_closed_extended a ha EX s1 s2 ob s3 tl hv hok docTok ws0 ws1 hd hw0 hw1,
    C02_text_is_closed_extended a' ha' EX s1' s2' ob' s3' tl' hv' (hsame ▸ hok) docTok ws0 ws1 hd hw0 hw1, hsame]

/-- a list value in an admissible rule set sits under `or` / `enum` / `allOf` (under another name the loader answers
error 802): what makes the extended statement hold without a further hypothesis -/
theorem C02_list_values_under_emb_names (EX : List UInt8) (ob : GObj) (hok : okRulesE EX ob.pairs = true) : ob.listsEmb :=
  C02T.listsEmb_of_okRulesE EX ob hok

/-! Non-vacuity. `1 // {"min": 0, "max" :5, }` against ` 4⏎`: accepted, by the spec node of the decoded names;
`"b" // {"enum": ["a", "b"], const: false}` against ` "b"⏎`: accepted (the escaped spelling of an item is the
same string), against ` "c"⏎`: rejected. -/

theorem exQ_ok : okRules Lay.Ex.one Lay.Ex.gobQ.pairs = true := by
  rw [Lay.Ex.gsame_pairs]; decide +kernel

example : E2E.validateText (gannText .inline Lay.Ex.one [32] [32] Lay.Ex.gobQ [] []) [] ([32] ++ ([52] ++ [10])) = .acc := by
  have hex : RulesF.litOKFull RulesF.noOracle (specOfRules Lay.Ex.one Lay.Ex.gobQ.pairs) Lay.Ex.one = true := by
    rw [Lay.Ex.gsame_pairs]; decide +kernel
  rw [C02_text_level_quoted RulesF.noOracle .inline rfl Lay.Ex.one [32] [32] Lay.Ex.gobQ [] [] Lay.Ex.gannQ_valid
    Lay.Ex.gobQ_lits exQ_ok hex [52] [32] [10] ex_doc4
    (by simp [JsonScan.IsWs, JsonScan.classify, JsonScan.Cls.isWs])
    (by simp [JsonScan.IsWs, JsonScan.classify, JsonScan.Cls.isWs])]
  have : RulesF.litOKFull RulesF.noOracle (specOfRules Lay.Ex.one Lay.Ex.gobQ.pairs) [52] = true := by
    rw [Lay.Ex.gsame_pairs]; decide +kernel
  simp [this]

theorem exE_ok : okRulesE Lay.Ex.sB Lay.Ex.gobE.pairs = true := by
  rw [Lay.Ex.gobE_pairs]; decide +kernel

theorem ex_docS (c : UInt8) (hc : c = 98 ∨ c = 99) :
    JsonScan.IsScalar (([34, c, 34] : List UInt8).map JsonScan.classify) := by
  rcases hc with rfl | rfl <;> exact ⟨.quote, _, .inString, true, .endValue, rfl, rfl, rfl, rfl⟩

example : E2E.validateText (gannText .inline Lay.Ex.sB [32] [32] Lay.Ex.gobE [] []) [] ([32] ++ ([34, 98, 34] ++ [10])) = .acc ∧
    E2E.validateText (gannText .inline Lay.Ex.sB [32] [32] Lay.Ex.gobE [] []) [] ([32] ++ ([34, 99, 34] ++ [10])) = .rej := by
  have hex : RulesF.litOKFull RulesF.noOracle (specOfRules Lay.Ex.sB Lay.Ex.gobE.pairs) Lay.Ex.sB = true := by
    rw [Lay.Ex.gobE_pairs]; decide +kernel
  have hw0 : JsonScan.IsWs (([32] : List UInt8).map JsonScan.classify) := by
    simp [JsonScan.IsWs, JsonScan.classify, JsonScan.Cls.isWs]
  have hw1 : JsonScan.IsWs (([10] : List UInt8).map JsonScan.classify) := by
    simp [JsonScan.IsWs, JsonScan.classify, JsonScan.Cls.isWs]
  rw [C02_text_level_enum RulesF.noOracle .inline rfl Lay.Ex.sB [32] [32] Lay.Ex.gobE [] [] Lay.Ex.gannE_valid exE_ok hex
      [34, 98, 34] [32] [10] (ex_docS 98 (Or.inl rfl)) hw0 hw1,
    C02_text_level_enum RulesF.noOracle .inline rfl Lay.Ex.sB [32] [32] Lay.Ex.gobE [] [] Lay.Ex.gannE_valid exE_ok hex
      [34, 99, 34] [32] [10] (ex_docS 99 (Or.inr rfl)) hw0 hw1]
  have h1 : RulesF.litOKFull RulesF.noOracle (specOfRules Lay.Ex.sB Lay.Ex.gobE.pairs) [34, 98, 34] = true := by
    rw [Lay.Ex.gobE_pairs]; decide +kernel
  have h2 : RulesF.litOKFull RulesF.noOracle (specOfRules Lay.Ex.sB Lay.Ex.gobE.pairs) [34, 99, 34] = false := by
    rw [Lay.Ex.gobE_pairs]; decide +kernel
  simp [h1, h2]

/-- … and the quoted text gets the verdict of the bare multi-line text on every scalar document -/
example (docTok ws0 ws1 : List UInt8) (hd : JsonScan.IsScalar (docTok.map JsonScan.classify))
    (hw0 : JsonScan.IsWs (ws0.map JsonScan.classify)) (hw1 : JsonScan.IsWs (ws1.map JsonScan.classify)) :
    E2E.validateText (gannText .inline Lay.Ex.one [32] [32] Lay.Ex.gobQ [] []) [] (ws0 ++ (docTok ++ ws1))
      = E2E.validateText (gannText .multi Lay.Ex.one [32] [10, 32] Lay.Ex.gobB [10] [42, 47, 10]) [] (ws0 ++ (docTok ++ ws1)) :=
  C02_text_quoting_invariant .inline .multi rfl rfl Lay.Ex.one [32] [32] [32] [10, 32] Lay.Ex.gobQ Lay.Ex.gobB [] [] [10]
    [42, 47, 10] Lay.Ex.gannQ_valid Lay.Ex.gannB_valid Lay.Ex.gsame_pairs (C02T.okRulesE_of_okRules exQ_ok) docTok ws0 ws1
    hd hw0 hw1

end Props.C02

namespace Props.C02
open Lay SchemaScan C02T

/-! ## the items of a list value, as the constraint constructors read them back (module `ScalarItemsBridge`)

The loader keeps the text of a list value from `[` to `]`; `constraint.NewEnum` / the `or` loader scan that text AGAIN with the
JSON scanner (`Compile.scalarItems`, the JSON scanner model). The schema scanner's token automaton is the JSON scanner's
without exponents, the blanks of an annotation are JSON white space: the second reading delivers exactly the written item
tokens, in order. -/

/-- **a scalar token of the schema scanner is a scalar token of the JSON scanner** (bytes) -/
theorem C02_schema_scalar_is_json_scalar (tok : List UInt8) (h : SchemaScan.IsScalar (tok.map SchemaScan.classify)) :
    JsonScan.IsScalar (tok.map JsonScan.classify) := by
  rw [map_classify_toJ]; exact isScalar_toJ h

/-- **the `enum` items are the written item tokens**: for every list value of the grammar — any blanks (line breaks in the
multi-line form) around the items — `scalarItems` of the recorded text is the list of the item tokens, so the spec reads the
rule `enum: [t1, …, tn]` as `RulesF.RawRule.enum [t1, …, tn]` -/
theorem C02_enum_items_as_written (a : Ann) (b0 : List UInt8) (items : List GItem) (hv : (GVal.list b0 items).Valid a) :
    Compile.scalarItems (GVal.list b0 items).spell = some (items.map (·.tok)) ∧
    rawOf (Compile.sb "enum", (GVal.list b0 items).spell) = some (.enum (items.map (·.tok))) := by
  have h := scalarItems_list a b0 items hv
  refine ⟨h, ?_⟩
  unfold rawOf
  simp only []
  tag_rw
  rw [show tagOf (Compile.sb "enum") = .enum from by decide +kernel]
  simp [h]

/-! Non-vacuity: the list of `"b" // {"enum": ["a", "b"], const: false}` -/
example : Compile.scalarItems [91, 34, 97, 34, 44, 32, 34, 98, 34, 93] = some [Lay.Ex.sA, Lay.Ex.sB] :=
  (C02_enum_items_as_written .inline [] [⟨[], Lay.Ex.sA, []⟩, ⟨[32], Lay.Ex.sB, []⟩] Lay.Ex.gobE_valid.1.1.2.2.2.1).1

end Props.C02
