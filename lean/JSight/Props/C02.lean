import JSight.Rules
import JSight.NumberDen
import JSight.RulesFullProofs
import JSight.Props.C10
/-!
# C02 — Scalar rules admit exactly the values their definitions describe (decision logic)

Model `Rules.litOK` = `ValidateLiteralValue` on one compiled scalar node (kind admissibility,
`nullable` with fix F-6, min / max with the exclusive flags folded in by `Rules.compile`,
minLength / maxLength). The theorems state the decision logic outright and tie the numeric rules to
the exact decimal value through C10. `regex`, `enum`, `const`, `precision` and the formats are
checked against the code (harness `sem-rules`, `formats-diff`, `c13-metamorphic`, `c18-named`);
regexp / mail / url / time parsing of the Go standard library are oracles (DESIGN.md §8).
-/
namespace Props.C02
open Rules

/-- accept iff (null admitted by nullable) or (admissible kind and every rule satisfied) -/
theorem C02_accept_iff (l : LitSpec) (hx : l.exact = false) (tok : String) :
    litOK l tok = match kindOfTok tok with
      | none => false
      | some d => (d == .n && l.nul) || (kindAdmissible l d && rulesOK l tok) := by
  unfold litOK
  cases kindOfTok tok with
  | none => rfl
  | some d =>
    simp only [hx, Bool.false_eq_true, if_false]
    cases h1 : (d == Kind.n && l.nul) <;> cases h2 : kindAdmissible l d <;> simp

/-- a null admitted by `nullable: true` is accepted whatever other rules are present -/
theorem C02_null_admitted (l : LitSpec) (hx : l.exact = false) (hn : l.nul = true) : litOK l "null" = true := by
  have hk : kindOfTok "null" = some .n := by decide
  rw [C02_accept_iff l hx, hk]
  simp [hn]

/-- min / max compare exact mathematical values (strictly when the bound is exclusive) -/
theorem C02_min_exact (v b : List Num.Ch) (hv : ∀ c ∈ v, Num.ValidCh c) (hb : ∀ c ∈ b, Num.ValidCh c)
    (nv nb : Num.N) (sv : Num.scan v = some nv) (sb : Num.scan b = some nb) (excl : Bool) :
    boundOK v b excl true =
      (if excl then Num.cmpDen (Num.den v) (Num.den b) == .gt else Num.cmpDen (Num.den v) (Num.den b) != .lt) := by
  unfold boundOK
  rw [sv, sb]
  simp only [if_true, Num.C10_cmp_exact v b hv hb nv nb sv sb]

theorem C02_max_exact (v b : List Num.Ch) (hv : ∀ c ∈ v, Num.ValidCh c) (hb : ∀ c ∈ b, Num.ValidCh c)
    (nv nb : Num.N) (sv : Num.scan v = some nv) (sb : Num.scan b = some nb) (excl : Bool) :
    boundOK v b excl false =
      (if excl then Num.cmpDen (Num.den v) (Num.den b) == .lt else Num.cmpDen (Num.den v) (Num.den b) != .gt) := by
  unfold boundOK
  rw [sv, sb]
  simp only [Bool.false_eq_true, if_false, Num.C10_cmp_exact v b hv hb nv nb sv sb]

/-- rules with value `false` (nullable, exclusiveMinimum, exclusiveMaximum) are inert -/
theorem C02_false_rules_inert (r : RawRules) :
    compile { r with nullable := some false } = compile { r with nullable := none } ∧
    compile { r with exclusiveMinimum := some false } = compile { r with exclusiveMinimum := none } ∧
    compile { r with exclusiveMaximum := some false } = compile { r with exclusiveMaximum := none } := by
  refine ⟨?_, ?_, ?_⟩ <;> simp [compile]

/-! Boundary probes (evaluated by `#guard`: tests of the model, not theorems) -/
#guard litOK (compile { kind := .f, min := some "1.5", exclusiveMinimum := some true }) "1.50" == false
#guard litOK (compile { kind := .f, min := some "1.5", exclusiveMinimum := some false }) "15e-1" == true
#guard litOK (compile { kind := .f, min := some "1.5" }) "2" == true
#guard litOK (compile { kind := .i, min := some "0", nullable := some true }) "null" == true
#guard litOK (compile { kind := .i, min := some "0", nullable := some false }) "null" == false
#guard litOK (compile { kind := .s, minLen := some 2, maxLen := some 3 }) "\"ab\"" == true
#guard litOK (compile { kind := .s, minLen := some 2, maxLen := some 3 }) "\"abcd\"" == false

/-! # Every scalar rule (model `RulesF.litOKFull`, spec `RulesF.Accepts`)

`JSight/RulesFull.lean` transliterates `ValidateLiteralValue` with ALL literal validators of
`schema/constraint/c_*.go` (min / max with the folded exclusive flags, precision, minLength / maxLength, regex, enum,
const, the five formats) and the compiler's folding (`RulesF.compile`); Go's `regexp`, `net/mail`, `net/url` and
`time.Parse(RFC3339)` are the oracle parameters `RulesF.Oracles`. `JSight/RulesFullSpec.lean` states what each rule
admits over the MEANING of the token: the exact decimal `Num.den` of a numeral, the RFC 8259 decoding of a string
(`RulesF.text`, UTF-8 by Lean's own `String.utf8EncodeChar`). Tokens are structured (`RulesF.STok`): the three
words, every string of the JSON grammar over arbitrary Unicode text, every RFC 8259 numeral except `0e1`-like ones
(K-C10-zeroexp). Tied to the real `Validate` by `vh sem-rules-full` (driver word `semcf`). -/

section Full
open RulesF

/-- **C02, every rule.** For every rule set over scalar tokens that the checker's applicability table allows and
every scalar token of a JSON document: the validator accepts iff the token is a `null` admitted by
`nullable: true`, or it has an admissible kind and satisfies every rule — min / max exactly (strict when
exclusive), precision as a bound on the fractional digits of the VALUE, minLength / maxLength on the UTF-8 bytes of
the DECODED string, regex / email / uri / datetime through the oracles on the decoded string, uuid / date by the
in-repo definitions, enum type-sensitively (numbers by spelling: K-C10-enumtext), const by value. -/
theorem C02_accept_iff_full (o : Oracles) (S : SSpec) (hS : S.WF) (hA : S.applicable = true)
    (tok : STok) (ht : tok.WF) :
    litOKFull o S.toModel tok.bytes = true ↔
      (tok = .null ∧ S.nul = true) ∨ (Admissible S tok ∧ ∀ r ∈ S.rules, Sat o S.ex r tok) :=
  RulesF.accept_iff o S hS hA tok ht

/-- the library's `Unquote` computes the RFC 8259 meaning of every string token: escapes, `\uXXXX`, surrogate
pairs (unpaired halves become U+FFFD), raw UTF-8 of any length -/
theorem C02_unquote_is_decode (cs : List SCh) (h : ∀ c ∈ cs, c.ok) :
    Unquote.unquote (STok.str cs).bytes = text cs := RulesF.unquote_str cs h

/-- every RFC 8259 numeral other than `0e…` is a token of the theorems above, in either case of the exponent letter -/
theorem C02_every_numeral_is_token (t : Num.Numeral) (hd : Props.C10.digitsOK t) (hw : t.wf) (hz : ¬ t.zeroExp) :
    IsNumeral (t.render.map Props.C10.chByte) :=
  ⟨t, hw, hz, Props.C10.ofBytes_chByte _ hd⟩

/-- **precision** depends on the value only: two spellings of one number (`1.10`, `1.1`, `11e-1`) get one verdict -/
theorem C02_precision_exact (o : Oracles) (ex : Bytes) (p : Nat) (a b : Bytes) (ha : IsNumeral a) (hb : IsNumeral b)
    (h : Num.cmpDen (value a) (value b) = .eq) :
    ruleOK o ex a (.precision p) = ruleOK o ex b (.precision p) := RulesF.precision_exact o ex p a b ha hb h

/-- … and it is the bound "value · 10^p is an integer" -/
theorem C02_precision_is_fraction_digits (o : Oracles) (ex : STok) (p : Nat) (v : Bytes) (hv : IsNumeral v) :
    ruleOK o ex.bytes v (.precision p) = true ↔ FracDigitsLE p (value v) :=
  RulesF.precision_iff o ex p (.num v) hv

/-- **minLength / maxLength** count the UTF-8 bytes of the decoded string -/
theorem C02_length_decoded (o : Oracles) (ex : Bytes) (cs : List SCh) (h : (STok.str cs).WF) (n : Nat) :
    ruleOK o ex (STok.str cs).bytes (.minLength n) = decide (n ≤ (text cs).length) ∧
    ruleOK o ex (STok.str cs).bytes (.maxLength n) = decide ((text cs).length ≤ n) :=
  RulesF.length_decoded o ex cs h n

/-- **const: true** is equality with the EXAMPLE by value: strings by decoded text, numbers by exact value -/
theorem C02_const_by_value (o : Oracles) (ex tok : STok) (he : ex.WF) (ht : tok.WF) :
    ruleOK o ex.bytes tok.bytes .const = true ↔ SameValue tok ex := RulesF.const_by_value o ex tok he ht

/-- **enum** is membership among the items, type-sensitively: a token of another form (`"1"` against `1`) equals
no item; strings compare by decoded text, numbers by spelling -/
theorem C02_enum_type_sensitive (o : Oracles) (ex : STok) (items : List STok) (hi : ∀ it ∈ items, it.WF)
    (tok : STok) (ht : tok.WF) :
    (ruleOK o ex.bytes tok.bytes (SRule.enum items).toModel = true ↔ ∃ it ∈ items, EnumEq it tok) ∧
    (∀ a b : STok, a.form ≠ b.form → ¬ EnumEq a b) :=
  ⟨RulesF.enum_iff o ex items hi tok ht, RulesF.enum_type_sensitive⟩

/-- **false-valued rules are inert**: `nullable: false`, `const: false`, `exclusiveMinimum: false`,
`exclusiveMaximum: false` may stand anywhere in the annotation or be left out — the compiled node is the same -/
theorem C02_false_rules_inert_full (kind : Rules.Kind) (ex : Bytes) (a b : List RawRule) (x : RawRule)
    (hx : x = .nullable false ∨ x = .const false ∨ x = .exclusiveMinimum false ∨ x = .exclusiveMaximum false) :
    compile kind ex (a ++ x :: b) = compile kind ex (a ++ b) := RulesF.false_rules_inert kind ex a b x hx

/-- **null first**: with `nullable: true` the token `null` is accepted by EVERY compiled node, whatever its kind
and its other rules (applicable or not); without it a non-null, enum-free node rejects `null` -/
theorem C02_null_first (o : Oracles) (l : LitSpecF) :
    (l.nul = true → litOKFull o l sNull = true) ∧
    (l.nul = false → l.kind ≠ .n → hasEnum l = false → litOKFull o l sNull = false) :=
  ⟨RulesF.null_first o l, RulesF.null_needs_nullable o l⟩

/-! ### the two known classes, stated and refuted -/

/-- the statement with enum membership of numbers by VALUE -/
def C02_enum_by_value_full : Prop := RulesF.accept_iff_enum_by_value
/-- false of the code (K-C10-enumtext): `2.50 // {enum: [2.50]}` rejects `2.5` -/
theorem C02_enum_by_value_full_false : ¬ C02_enum_by_value_full := RulesF.accept_iff_enum_by_value_false
/-- it holds whenever no enum item is a number equal to the token by value but spelled differently -/
theorem C02_enum_by_value_partial (o : Oracles) (S : SSpec) (hS : S.WF) (hA : S.applicable = true)
    (tok : STok) (ht : tok.WF) (hc : enumTextClass S tok = false) :
    litOKFull o S.toModel tok.bytes = true ↔ Accepts EnumEqV o S tok :=
  RulesF.accept_iff_enum_by_value_partial o S hS hA tok ht hc

/-- the statement for every numeral of the RFC grammar, `0e1` included -/
def C02_every_numeral_full : Prop := RulesF.accept_iff_every_numeral
/-- false of the code (K-C10-zeroexp): the rule-free schema `1` rejects `0e1` -/
theorem C02_every_numeral_full_false : ¬ C02_every_numeral_full := RulesF.accept_iff_every_numeral_false

/-! ### non-vacuity: concrete instances (`bs` turns an ASCII literal into its bytes) -/

def bs (s : String) : Bytes := s.toList.map (fun c => UInt8.ofNat c.toNat)

/-- `1.5 // {min: 1.5, precision: 1}` against `15e-1` -/
def exNum : SSpec := ⟨.f, .num (bs "1.5"), false, [.min (bs "1.5") false, .precision 1]⟩
theorem exNum_ok : exNum.WF ∧ exNum.applicable = true ∧ (STok.num (bs "15e-1")).WF := by
  refine ⟨⟨⟨⟨false, 1, [], some (5, []), none⟩, by simp [Num.Numeral.wf], by simp [Num.Numeral.zeroExp], by decide⟩, ?_⟩,
    by decide, ⟨⟨false, 1, [5], none, some (some true, 1, [])⟩, by simp [Num.Numeral.wf], by simp [Num.Numeral.zeroExp], by decide⟩⟩
  intro r hr
  simp only [exNum, List.mem_cons, List.not_mem_nil, or_false] at hr
  rcases hr with rfl | rfl
  · exact ⟨⟨false, 1, [], some (5, []), none⟩, by simp [Num.Numeral.wf], by simp [Num.Numeral.zeroExp], by decide⟩
  · trivial
-- verdicts of the model on this instance (evaluated: `Number.Cmp` recurses on two lists, which the kernel does not unfold)
#guard litOKFull RulesF.noOracle exNum.toModel (bs "15e-1") == true
#guard litOKFull RulesF.noOracle exNum.toModel (bs "1.49") == false
#guard litOKFull RulesF.noOracle exNum.toModel (bs "1.55") == false
-- `1.10` has ONE fractional digit for the code: the trailing zeros of the fraction do not count, whatever the spelling
example : ruleOK RulesF.noOracle (bs "1.5") (bs "1.10") (.precision 1) = true ∧
          ruleOK RulesF.noOracle (bs "1.5") (bs "110e-2") (.precision 1) = true ∧
          ruleOK RulesF.noOracle (bs "1.5") (bs "1.11") (.precision 1) = false ∧
          ruleOK RulesF.noOracle (bs "1.5") (bs "5E-9") (.precision 8) = false := by decide +kernel

/-- `"abcd" // {minLength: 2, maxLength: 4}` against the escaped pair `"😀"` (U+1F600: 4 bytes) -/
def exStr : SSpec := ⟨.s, .str [.chr 'a', .chr 'b', .chr 'c', .chr 'd'], false, [.minLength 2, .maxLength 4]⟩
def grin : STok := .str [.u4 100 56 51 100, .u4 100 101 48 48]
theorem exStr_ok : exStr.WF ∧ exStr.applicable = true ∧ grin.WF := by
  refine ⟨⟨?_, ?_⟩, by decide, ?_⟩
  · intro c hc; simp only [List.mem_cons, List.not_mem_nil, or_false] at hc
    rcases hc with rfl | rfl | rfl | rfl <;> exact ⟨by decide, by decide, by decide⟩
  · intro r hr; simp only [exStr, List.mem_cons, List.not_mem_nil, or_false] at hr; rcases hr with rfl | rfl <;> trivial
  · intro c hc; simp only [List.mem_cons, List.not_mem_nil, or_false] at hc
    rcases hc with rfl | rfl <;> exact ⟨by decide, by decide, by decide, by decide⟩
example : grin.bytes = bs "\"\\ud83d\\ude00\"" := by decide
example : text [.u4 100 56 51 100, .u4 100 101 48 48] = [0xF0, 0x9F, 0x98, 0x80] := by
  simp only [text, decodeS]; decide +kernel
example : text [.u4 48 48 52 49] = [65] := by simp only [text, decodeS]; decide +kernel              -- "\u0041" is one byte
example : text [.chr 'é'] = [0xC3, 0xA9] := by simp only [text, decodeS]; decide +kernel              -- é is two
example : text [.u4 100 56 51 100] = [0xEF, 0xBF, 0xBD] := by simp only [text, decodeS]; decide +kernel  -- a lone surrogate is U+FFFD
example : litOKFull RulesF.noOracle exStr.toModel grin.bytes = true := by decide +kernel
example : litOKFull RulesF.noOracle exStr.toModel (bs "\"\\ud83d\\ude00s\"") = false := by decide +kernel

-- const by value, enum by type
#guard sameJSONValue (bs "1.50") (bs "15e-1") && !sameJSONValue (bs "1.50") (bs "1.51")
example : sameJSONValue (bs "\"a\\u0062\"") (bs "\"ab\"") = true := by decide +kernel
example : ruleOK RulesF.noOracle (bs "1") (bs "\"1\"") (.enum [bs "1"]) = false ∧
          ruleOK RulesF.noOracle (bs "1") (bs "1") (.enum [bs "\"1\""]) = false ∧
          ruleOK RulesF.noOracle (bs "1") (bs "1") (.enum [bs "\"1\"", bs "1"]) = true := by decide +kernel
-- false-valued rules, null first
example : compile .i (bs "1") [.min (bs "0"), .exclusiveMinimum false, .const false, .nullable false]
        = compile .i (bs "1") [.min (bs "0")] := by decide
example : litOKFull RulesF.noOracle (compile .s (bs "\"a\"") [.const true, .nullable true, .minLength 1]) sNull = true := by decide +kernel
example : litOKFull RulesF.noOracle (compile .s (bs "\"a\"") [.const false, .nullable false, .minLength 1]) sNull = false := by decide +kernel

end Full

end Props.C02
