import JSight.Rules
import JSight.NumberDen
/-!
# C02 — Scalar rules admit exactly the values their definitions describe (decision logic)

Model `Rules.litOK` = `ValidateLiteralValue` on one compiled scalar node (kind admissibility,
`nullable` with fix F-6, min / max with the exclusive flags folded in by `Rules.compile`,
minLength / maxLength). The theorems state the decision logic outright and tie the numeric rules to
the exact decimal value through C10. `regex`, `enum`, `const`, `precision` and the formats are
checked against the code (harness `sem-rules`, `formats-diff`, `c13-metamorphic`, `c18-named`);
regexp / mail / url / time parsing of the Go standard library are oracles (DESIGN.md §8).
-/
namespace Props.C02
open Rules

/-- accept iff (null admitted by nullable) or (admissible kind and every rule satisfied) -/
theorem C02_accept_iff (l : LitSpec) (hx : l.exact = false) (tok : String) :
    litOK l tok = match kindOfTok tok with
      | none => false
      | some d => (d == .n && l.nul) || (kindAdmissible l d && rulesOK l tok) := by
  unfold litOK
  cases kindOfTok tok with
  | none => rfl
  | some d =>
    simp only [hx, Bool.false_eq_true, if_false]
    cases h1 : (d == Kind.n && l.nul) <;> cases h2 : kindAdmissible l d <;> simp

/-- a null admitted by `nullable: true` is accepted whatever other rules are present -/
theorem C02_null_admitted (l : LitSpec) (hx : l.exact = false) (hn : l.nul = true) : litOK l "null" = true := by
  have hk : kindOfTok "null" = some .n := by decide
  rw [C02_accept_iff l hx, hk]
  simp [hn]

/-- min / max compare exact mathematical values (strictly when the bound is exclusive) -/
theorem C02_min_exact (v b : List Num.Ch) (hv : ∀ c ∈ v, Num.ValidCh c) (hb : ∀ c ∈ b, Num.ValidCh c)
    (nv nb : Num.N) (sv : Num.scan v = some nv) (sb : Num.scan b = some nb) (excl : Bool) :
    boundOK v b excl true =
      (if excl then Num.cmpDen (Num.den v) (Num.den b) == .gt else Num.cmpDen (Num.den v) (Num.den b) != .lt) := by
  unfold boundOK
  rw [sv, sb]
  simp only [if_true, Num.C10_cmp_exact v b hv hb nv nb sv sb]

theorem C02_max_exact (v b : List Num.Ch) (hv : ∀ c ∈ v, Num.ValidCh c) (hb : ∀ c ∈ b, Num.ValidCh c)
    (nv nb : Num.N) (sv : Num.scan v = some nv) (sb : Num.scan b = some nb) (excl : Bool) :
    boundOK v b excl false =
      (if excl then Num.cmpDen (Num.den v) (Num.den b) == .lt else Num.cmpDen (Num.den v) (Num.den b) != .gt) := by
  unfold boundOK
  rw [sv, sb]
  simp only [Bool.false_eq_true, if_false, Num.C10_cmp_exact v b hv hb nv nb sv sb]

/-- rules with value `false` (nullable, exclusiveMinimum, exclusiveMaximum) are inert -/
theorem C02_false_rules_inert (r : RawRules) :
    compile { r with nullable := some false } = compile { r with nullable := none } ∧
    compile { r with exclusiveMinimum := some false } = compile { r with exclusiveMinimum := none } ∧
    compile { r with exclusiveMaximum := some false } = compile { r with exclusiveMaximum := none } := by
  refine ⟨?_, ?_, ?_⟩ <;> simp [compile]

/-! Boundary probes (evaluated by `#guard`: tests of the model, not theorems) -/
#guard litOK (compile { kind := .f, min := some "1.5", exclusiveMinimum := some true }) "1.50" == false
#guard litOK (compile { kind := .f, min := some "1.5", exclusiveMinimum := some false }) "15e-1" == true
#guard litOK (compile { kind := .f, min := some "1.5" }) "2" == true
#guard litOK (compile { kind := .i, min := some "0", nullable := some true }) "null" == true
#guard litOK (compile { kind := .i, min := some "0", nullable := some false }) "null" == false
#guard litOK (compile { kind := .s, minLen := some 2, maxLen := some 3 }) "\"ab\"" == true
#guard litOK (compile { kind := .s, minLen := some 2, maxLen := some 3 }) "\"abcd\"" == false

end Props.C02
