import JSight.Rules
import JSight.NumberDen
import JSight.RulesFullProofs
import JSight.Props.C10
import JSight.C02TextThm
import JSight.AnnotExamples
/-!
# C02 — Scalar rules admit exactly the values their definitions describe (decision logic)

Model `Rules.litOK` = `ValidateLiteralValue` on one compiled scalar node (kind admissibility,
`nullable` with fix F-6, min / max with the exclusive flags folded in by `Rules.compile`,
minLength / maxLength). The theorems state the decision logic outright and tie the numeric rules to
the exact decimal value through C10. `regex`, `enum`, `const`, `precision` and the formats are
checked against the code (harness `sem-rules`, `formats-diff`, `c13-metamorphic`, `c18-named`);
regexp / mail / url / time parsing of the Go standard library are oracles (DESIGN.md §8).
-/
namespace Props.C02
open Rules

/-- accept iff (null admitted by nullable) or (admissible kind and every rule satisfied) -/
theorem C02_accept_iff (l : LitSpec) (hx : l.exact = false) (tok : String) :
    litOK l tok = match kindOfTok tok with
      | none => false
      | some d => (d == .n && l.nul) || (kindAdmissible l d && rulesOK l tok) := by
  unfold litOK
  cases kindOfTok tok with
  | none => rfl
  | some d =>
    simp only [hx, Bool.false_eq_true, if_false]
    cases h1 : (d == Kind.n && l.nul) <;> cases h2 : kindAdmissible l d <;> simp

/-- a null admitted by `nullable: true` is accepted whatever other rules are present -/
theorem C02_null_admitted (l : LitSpec) (hx : l.exact = false) (hn : l.nul = true) : litOK l "null" = true := by
  have hk : kindOfTok "null" = some .n := by decide
  rw [C02_accept_iff l hx, hk]
  simp [hn]

/-- min / max compare exact mathematical values (strictly when the bound is exclusive) -/
theorem C02_min_exact (v b : List Num.Ch) (hv : ∀ c ∈ v, Num.ValidCh c) (hb : ∀ c ∈ b, Num.ValidCh c)
    (nv nb : Num.N) (sv : Num.scan v = some nv) (sb : Num.scan b = some nb) (excl : Bool) :
    boundOK v b excl true =
      (if excl then Num.cmpDen (Num.den v) (Num.den b) == .gt else Num.cmpDen (Num.den v) (Num.den b) != .lt) := by
  unfold boundOK
  rw [sv, sb]
  simp only [if_true, Num.C10_cmp_exact v b hv hb nv nb sv sb]

theorem C02_max_exact (v b : List Num.Ch) (hv : ∀ c ∈ v, Num.ValidCh c) (hb : ∀ c ∈ b, Num.ValidCh c)
    (nv nb : Num.N) (sv : Num.scan v = some nv) (sb : Num.scan b = some nb) (excl : Bool) :
    boundOK v b excl false =
      (if excl then Num.cmpDen (Num.den v) (Num.den b) == .lt else Num.cmpDen (Num.den v) (Num.den b) != .gt) := by
  unfold boundOK
  rw [sv, sb]
  simp only [Bool.false_eq_true, if_false, Num.C10_cmp_exact v b hv hb nv nb sv sb]

/-- rules with value `false` (nullable, exclusiveMinimum, exclusiveMaximum) are inert -/
theorem C02_false_rules_inert (r : RawRules) :
    compile { r with nullable := some false } = compile { r with nullable := none } ∧
    compile { r with exclusiveMinimum := some false } = compile { r with exclusiveMinimum := none } ∧
    compile { r with exclusiveMaximum := some false } = compile { r with exclusiveMaximum := none } := by
  refine ⟨?_, ?_, ?_⟩ <;> simp [compile]

/-! Boundary probes (evaluated by `#guard`: tests of the model, not theorems) -/
#guard litOK (compile { kind := .f, min := some "1.5", exclusiveMinimum := some true }) "1.50" == false
#guard litOK (compile { kind := .f, min := some "1.5", exclusiveMinimum := some false }) "15e-1" == true
#guard litOK (compile { kind := .f, min := some "1.5" }) "2" == true
#guard litOK (compile { kind := .i, min := some "0", nullable := some true }) "null" == true
#guard litOK (compile { kind := .i, min := some "0", nullable := some false }) "null" == false
#guard litOK (compile { kind := .s, minLen := some 2, maxLen := some 3 }) "\"ab\"" == true
#guard litOK (compile { kind := .s, minLen := some 2, maxLen := some 3 }) "\"abcd\"" == false

/-! # Every scalar rule (model `RulesF.litOKFull`, spec `RulesF.Accepts`)

`JSight/RulesFull.lean` transliterates `ValidateLiteralValue` with ALL literal validators of
`schema/constraint/c_*.go` (min / max with the folded exclusive flags, precision, minLength / maxLength, regex, enum,
const, the five formats) and the compiler's folding (`RulesF.compile`); Go's `regexp`, `net/mail`, `net/url` and
`time.Parse(RFC3339)` are the oracle parameters `RulesF.Oracles`. `JSight/RulesFullSpec.lean` states what each rule
admits over the MEANING of the token: the exact decimal `Num.den` of a numeral, the RFC 8259 decoding of a string
(`RulesF.text`, UTF-8 by Lean's own `String.utf8EncodeChar`). Tokens are structured (`RulesF.STok`): the three
words, every string of the JSON grammar over arbitrary Unicode text, every RFC 8259 numeral except `0e1`-like ones
(K-C10-zeroexp). Tied to the real `Validate` by `vh sem-rules-full` (driver word `semcf`). -/

section Full
open RulesF

/-- **C02, every rule.** For every rule set over scalar tokens that the checker's applicability table allows and
every scalar token of a JSON document: the validator accepts iff the token is a `null` admitted by
`nullable: true`, or it has an admissible kind and satisfies every rule — min / max exactly (strict when
exclusive), precision as a bound on the fractional digits of the VALUE, minLength / maxLength on the UTF-8 bytes of
the DECODED string, regex / email / uri / datetime through the oracles on the decoded string, uuid / date by the
in-repo definitions, enum type-sensitively (numbers by spelling: K-C10-enumtext), const by value. -/
theorem C02_accept_iff_full (o : Oracles) (S : SSpec) (hS : S.WF) (hA : S.applicable = true)
    (tok : STok) (ht : tok.WF) :
    litOKFull o S.toModel tok.bytes = true ↔
      (tok = .null ∧ S.nul = true) ∨ (Admissible S tok ∧ ∀ r ∈ S.rules, Sat o S.ex r tok) :=
  RulesF.accept_iff o S hS hA tok ht

/-- the library's `Unquote` computes the RFC 8259 meaning of every string token: escapes, `\uXXXX`, surrogate
pairs (unpaired halves become U+FFFD), raw UTF-8 of any length -/
theorem C02_unquote_is_decode (cs : List SCh) (h : ∀ c ∈ cs, c.ok) :
    Unquote.unquote (STok.str cs).bytes = text cs := RulesF.unquote_str cs h

/-- every RFC 8259 numeral other than `0e…` is a token of the theorems above, in either case of the exponent letter -/
theorem C02_every_numeral_is_token (t : Num.Numeral) (hd : Props.C10.digitsOK t) (hw : t.wf) (hz : ¬ t.zeroExp) :
    IsNumeral (t.render.map Props.C10.chByte) :=
  ⟨t, hw, hz, Props.C10.ofBytes_chByte _ hd⟩

/-- **precision** depends on the value only: two spellings of one number (`1.10`, `1.1`, `11e-1`) get one verdict -/
theorem C02_precision_exact (o : Oracles) (ex : Bytes) (p : Nat) (a b : Bytes) (ha : IsNumeral a) (hb : IsNumeral b)
    (h : Num.cmpDen (value a) (value b) = .eq) :
    ruleOK o ex a (.precision p) = ruleOK o ex b (.precision p) := RulesF.precision_exact o ex p a b ha hb h

/-- … and it is the bound "value · 10^p is an integer" -/
theorem C02_precision_is_fraction_digits (o : Oracles) (ex : STok) (p : Nat) (v : Bytes) (hv : IsNumeral v) :
    ruleOK o ex.bytes v (.precision p) = true ↔ FracDigitsLE p (value v) :=
  RulesF.precision_iff o ex p (.num v) hv

/-- **minLength / maxLength** count the UTF-8 bytes of the decoded string -/
theorem C02_length_decoded (o : Oracles) (ex : Bytes) (cs : List SCh) (h : (STok.str cs).WF) (n : Nat) :
    ruleOK o ex (STok.str cs).bytes (.minLength n) = decide (n ≤ (text cs).length) ∧
    ruleOK o ex (STok.str cs).bytes (.maxLength n) = decide ((text cs).length ≤ n) :=
  RulesF.length_decoded o ex cs h n

/-- **const: true** is equality with the EXAMPLE by value: strings by decoded text, numbers by exact value -/
theorem C02_const_by_value (o : Oracles) (ex tok : STok) (he : ex.WF) (ht : tok.WF) :
    ruleOK o ex.bytes tok.bytes .const = true ↔ SameValue tok ex := RulesF.const_by_value o ex tok he ht

/-- **enum** is membership among the items, type-sensitively: a token of another form (`"1"` against `1`) equals
no item; strings compare by decoded text, numbers by spelling -/
theorem C02_enum_type_sensitive (o : Oracles) (ex : STok) (items : List STok) (hi : ∀ it ∈ items, it.WF)
    (tok : STok) (ht : tok.WF) :
    (ruleOK o ex.bytes tok.bytes (SRule.enum items).toModel = true ↔ ∃ it ∈ items, EnumEq it tok) ∧
    (∀ a b : STok, a.form ≠ b.form → ¬ EnumEq a b) :=
  ⟨RulesF.enum_iff o ex items hi tok ht, RulesF.enum_type_sensitive⟩

/-- **false-valued rules are inert**: `nullable: false`, `const: false`, `exclusiveMinimum: false`,
`exclusiveMaximum: false` may stand anywhere in the annotation or be left out — the compiled node is the same -/
theorem C02_false_rules_inert_full (kind : Rules.Kind) (ex : Bytes) (a b : List RawRule) (x : RawRule)
    (hx : x = .nullable false ∨ x = .const false ∨ x = .exclusiveMinimum false ∨ x = .exclusiveMaximum false) :
    compile kind ex (a ++ x :: b) = compile kind ex (a ++ b) := RulesF.false_rules_inert kind ex a b x hx

/-- **null first**: with `nullable: true` the token `null` is accepted by EVERY compiled node, whatever its kind
and its other rules (applicable or not); without it a non-null, enum-free node rejects `null` -/
theorem C02_null_first (o : Oracles) (l : LitSpecF) :
    (l.nul = true → litOKFull o l sNull = true) ∧
    (l.nul = false → l.kind ≠ .n → hasEnum l = false → litOKFull o l sNull = false) :=
  ⟨RulesF.null_first o l, RulesF.null_needs_nullable o l⟩

/-! ### the two known classes, stated and refuted -/

/-- the statement with enum membership of numbers by VALUE -/
def C02_enum_by_value_full : Prop := RulesF.accept_iff_enum_by_value
/-- false of the code (K-C10-enumtext): `2.50 // {enum: [2.50]}` rejects `2.5` -/
theorem C02_enum_by_value_full_false : ¬ C02_enum_by_value_full := RulesF.accept_iff_enum_by_value_false
/-- it holds whenever no enum item is a number equal to the token by value but spelled differently -/
theorem C02_enum_by_value_partial (o : Oracles) (S : SSpec) (hS : S.WF) (hA : S.applicable = true)
    (tok : STok) (ht : tok.WF) (hc : enumTextClass S tok = false) :
    litOKFull o S.toModel tok.bytes = true ↔ Accepts EnumEqV o S tok :=
  RulesF.accept_iff_enum_by_value_partial o S hS hA tok ht hc

/-- the statement for every numeral of the RFC grammar, `0e1` included -/
def C02_every_numeral_full : Prop := RulesF.accept_iff_every_numeral
/-- false of the code (K-C10-zeroexp): the rule-free schema `1` rejects `0e1` -/
theorem C02_every_numeral_full_false : ¬ C02_every_numeral_full := RulesF.accept_iff_every_numeral_false

/-! ### non-vacuity: concrete instances (`bs` turns an ASCII literal into its bytes) -/

def bs (s : String) : Bytes := s.toList.map (fun c => UInt8.ofNat c.toNat)

/-- `1.5 // {min: 1.5, precision: 1}` against `15e-1` -/
def exNum : SSpec := ⟨.f, .num (bs "1.5"), false, [.min (bs "1.5") false, .precision 1]⟩
theorem exNum_ok : exNum.WF ∧ exNum.applicable = true ∧ (STok.num (bs "15e-1")).WF := by
  refine ⟨⟨⟨⟨false, 1, [], some (5, []), none⟩, by simp [Num.Numeral.wf], by simp [Num.Numeral.zeroExp], by decide⟩, ?_⟩,
    by decide, ⟨⟨false, 1, [5], none, some (some true, 1, [])⟩, by simp [Num.Numeral.wf], by simp [Num.Numeral.zeroExp], by decide⟩⟩
  intro r hr
  simp only [exNum, List.mem_cons, List.not_mem_nil, or_false] at hr
  rcases hr with rfl | rfl
  · exact ⟨⟨false, 1, [], some (5, []), none⟩, by simp [Num.Numeral.wf], by simp [Num.Numeral.zeroExp], by decide⟩
  · trivial
-- verdicts of the model on this instance (evaluated: `Number.Cmp` recurses on two lists, which the kernel does not unfold)
#guard litOKFull RulesF.noOracle exNum.toModel (bs "15e-1") == true
#guard litOKFull RulesF.noOracle exNum.toModel (bs "1.49") == false
#guard litOKFull RulesF.noOracle exNum.toModel (bs "1.55") == false
-- `1.10` has ONE fractional digit for the code: the trailing zeros of the fraction do not count, whatever the spelling
example : ruleOK RulesF.noOracle (bs "1.5") (bs "1.10") (.precision 1) = true ∧
          ruleOK RulesF.noOracle (bs "1.5") (bs "110e-2") (.precision 1) = true ∧
          ruleOK RulesF.noOracle (bs "1.5") (bs "1.11") (.precision 1) = false ∧
          ruleOK RulesF.noOracle (bs "1.5") (bs "5E-9") (.precision 8) = false := by decide +kernel

/-- `"abcd" // {minLength: 2, maxLength: 4}` against the escaped pair `"😀"` (U+1F600: 4 bytes) -/
def exStr : SSpec := ⟨.s, .str [.chr 'a', .chr 'b', .chr 'c', .chr 'd'], false, [.minLength 2, .maxLength 4]⟩
def grin : STok := .str [.u4 100 56 51 100, .u4 100 101 48 48]
theorem exStr_ok : exStr.WF ∧ exStr.applicable = true ∧ grin.WF := by
  refine ⟨⟨?_, ?_⟩, by decide, ?_⟩
  · intro c hc; simp only [List.mem_cons, List.not_mem_nil, or_false] at hc
    rcases hc with rfl | rfl | rfl | rfl <;> exact ⟨by decide, by decide, by decide⟩
  · intro r hr; simp only [exStr, List.mem_cons, List.not_mem_nil, or_false] at hr; rcases hr with rfl | rfl <;> trivial
  · intro c hc; simp only [List.mem_cons, List.not_mem_nil, or_false] at hc
    rcases hc with rfl | rfl <;> exact ⟨by decide, by decide, by decide, by decide⟩
example : grin.bytes = bs "\"\\ud83d\\ude00\"" := by decide
example : text [.u4 100 56 51 100, .u4 100 101 48 48] = [0xF0, 0x9F, 0x98, 0x80] := by
  simp only [text, decodeS]; decide +kernel
example : text [.u4 48 48 52 49] = [65] := by simp only [text, decodeS]; decide +kernel              -- "\u0041" is one byte
example : text [.chr 'é'] = [0xC3, 0xA9] := by simp only [text, decodeS]; decide +kernel              -- é is two
example : text [.u4 100 56 51 100] = [0xEF, 0xBF, 0xBD] := by simp only [text, decodeS]; decide +kernel  -- a lone surrogate is U+FFFD
example : litOKFull RulesF.noOracle exStr.toModel grin.bytes = true := by decide +kernel
example : litOKFull RulesF.noOracle exStr.toModel (bs "\"\\ud83d\\ude00s\"") = false := by decide +kernel

-- const by value, enum by type
#guard sameJSONValue (bs "1.50") (bs "15e-1") && !sameJSONValue (bs "1.50") (bs "1.51")
example : sameJSONValue (bs "\"a\\u0062\"") (bs "\"ab\"") = true := by decide +kernel
example : ruleOK RulesF.noOracle (bs "1") (bs "\"1\"") (.enum [bs "1"]) = false ∧
          ruleOK RulesF.noOracle (bs "1") (bs "1") (.enum [bs "\"1\""]) = false ∧
          ruleOK RulesF.noOracle (bs "1") (bs "1") (.enum [bs "\"1\"", bs "1"]) = true := by decide +kernel
-- false-valued rules, null first
example : compile .i (bs "1") [.min (bs "0"), .exclusiveMinimum false, .const false, .nullable false]
        = compile .i (bs "1") [.min (bs "0")] := by decide
example : litOKFull RulesF.noOracle (compile .s (bs "\"a\"") [.const true, .nullable true, .minLength 1]) sNull = true := by decide +kernel
example : litOKFull RulesF.noOracle (compile .s (bs "\"a\"") [.const false, .nullable false, .minLength 1]) sNull = false := by decide +kernel

end Full

/-! # C02 at TEXT level: a scalar schema with its rules written as text

`Lay.annTextB a EX s1 s2 ob s3 tl` is the schema text `EX s1 // s2 {ob} s3 tl` (`a = .inline`) or `EX s1 /* s2 {ob} s3 tl`
(`a = .multi`, `tl` = `*/` + white space): a top-level scalar EXAMPLE and a rule object of the grammar `Lay.AnnValid`
(rules `blanks name spaces : blanks value blanks` with bare names and LITERAL values, commas, optional trailing comma,
line breaks in the multi-line form). `ob.pairs` is the list (name, value token) in written order. `E2E.validateText`
runs, inside Lean, schema scanner model → loader model (rule names and value spans) → `Compile` (the constraint
constructors, `compileNode`, `CheckRootSchema`) → JSON scanner model → validator machine. No IR is trusted: the
statements speak about the two TEXTS.

`C02T.okRules EX pairs` (decidable) = the kind of EX can be guessed ∧ the constraint constructors accept every rule in
written order (`C02T.okCreate`: known name, well-formed value, no duplicate) ∧ the conditions of `compileNode`
(`C02T.okBasic`, in the order of `compiler_basic.go`: no `or` / `enum` / `optional` / `additionalProperties`; next to
`precision` a `type` says `decimal`; `type` is the example's JSON kind, `decimal` on a float with `precision`, or
`uuid` / `date` on a string without length rules; `exclusiveMinimum` / `exclusiveMaximum` only next to `min` / `max`;
min ≤ max (strictly under an exclusive flag), minLength ≤ maxLength; every constraint fits the example's kind).
`C02T.compiledOf EX rules` is the scalar node the compiler leaves: kind and example of EX, `nul` = a `nullable` rule
other than `nullable: false` is present, the literal validators in written order with the exclusive flags folded into
`min` / `max`, false-valued `const` dropped, the format of `type: "uuid" | "date"` last.
Tied to the real `Check` / `Validate` by `vh c02-text` (text → real library = driver `e2e` = driver `c02t`, the
closed form evaluated from the structured rule list through `C02T.specOfRules` = `RulesF.compile` of the written rules). -/

section TextLevel
open Lay SchemaScan C02T

/-- **C02 at text level.** For every schema text `EX // {r1: v1, …}` / `EX /* {…} */` of the grammar whose rule set
passes the creation and basic-compile stages and whose EXAMPLE satisfies its own rules (the check stage), and every
document text that is one JSON scalar with white space around it: the outcome of the whole pipeline is `acc` exactly
when `ValidateLiteralValue` (`RulesF.litOKFull`, the model of `C02_accept_iff_full`) accepts the document token on the
compiled node of the written rules (`Compile.noOracles`: no rule of the class calls the standard library). -/
theorem C02_text_level (a : Ann) (ha : a.isAnn = true) (EX s1 s2 : List UInt8) (ob : BObj)
    (s3 tl : List UInt8) (hv : AnnValid a EX s1 s2 ob s3 tl) (hok : okRules EX ob.pairs = true)
    (hex : RulesF.litOKFull Compile.noOracles (compiledOf EX (mk ob.pairs)) EX = true)
    (docTok ws0 ws1 : List UInt8) (hd : JsonScan.IsScalar (docTok.map JsonScan.classify))
    (hw0 : JsonScan.IsWs (ws0.map JsonScan.classify)) (hw1 : JsonScan.IsWs (ws1.map JsonScan.classify)) :
    E2E.validateText (annTextB a EX s1 s2 ob s3 tl) [] (ws0 ++ (docTok ++ ws1))
      = if RulesF.litOKFull Compile.noOracles (compiledOf EX (mk ob.pairs)) docTok then .acc else .rej :=
  C02T.text_level a ha EX s1 s2 ob s3 tl hv hok hex docTok ws0 ws1 hd hw0 hw1

/-- **compile half**: scanner model, loader model, constraint constructors and `compileNode` on the text yield the
literal node of the written rules — exclusive flags folded into the bounds, false-valued `nullable` / `const`
dropped, the format of a `type` rule added, positions and layout gone -/
theorem C02_text_compile_half (a : Ann) (ha : a.isAnn = true) (EX s1 s2 : List UInt8) (ob : BObj) (s3 tl : List UInt8)
    (hv : AnnValid a EX s1 s2 ob s3 tl) (hok : okRules EX ob.pairs = true) :
    E2E.loadSchema (annTextB a EX s1 s2 ob s3 tl) false = .ok (some (.lit (compiledOf EX (mk ob.pairs)) false)) :=
  C02T.loadSchema_annot a ha EX s1 s2 ob s3 tl hv hok

/-- **the EXAMPLE violates one of its own rules**: `Check` refuses the schema — whatever the document — with the code
of the first failing validator (`Compile.litErr`: 210 kind, 602 min / max / precision, 603 lengths, 614 uuid, 616 date,
615 const) at the offset of EX, which is 0 in these texts (C04's statement for the scalar case, on text) -/
theorem C02_text_check_rejects_bad_example (a : Ann) (ha : a.isAnn = true) (EX s1 s2 : List UInt8) (ob : BObj)
    (s3 tl : List UInt8) (hv : AnnValid a EX s1 s2 ob s3 tl) (hok : okRules EX ob.pairs = true)
    (hex : RulesF.litOKFull Compile.noOracles (compiledOf EX (mk ob.pairs)) EX = false) (doc : List UInt8) :
    E2E.validateText (annTextB a EX s1 s2 ob s3 tl) [] doc
      = .schemaErr ((Compile.litErr (compiledOf EX (mk ob.pairs)) EX).getD 0) 0 :=
  C02T.text_check_rejects a ha EX s1 s2 ob s3 tl hv hok hex doc

/-- the same statements with the node written through `RulesF.compile` of the parsed rules (`C02T.specOfRules`: the
`RulesF.Spec` of `C02_accept_iff_full`) in place of `compiledOf` — the two differ in the order of the validators only.
Stated, not proved here; evaluated against the real library by `vh c02-text` (the closed form `c02t` uses it). -/
def C02_text_level_spec_full : Prop :=
  ∀ (o : RulesF.Oracles) (a : Ann), a.isAnn = true → ∀ (EX s1 s2 : List UInt8) (ob : BObj) (s3 tl : List UInt8),
    AnnValid a EX s1 s2 ob s3 tl → okRules EX ob.pairs = true →
    RulesF.litOKFull o (specOfRules EX ob.pairs) EX = true →
    ∀ (docTok ws0 ws1 : List UInt8), JsonScan.IsScalar (docTok.map JsonScan.classify) →
    JsonScan.IsWs (ws0.map JsonScan.classify) → JsonScan.IsWs (ws1.map JsonScan.classify) →
    E2E.validateText (annTextB a EX s1 s2 ob s3 tl) [] (ws0 ++ (docTok ++ ws1))
      = if RulesF.litOKFull o (specOfRules EX ob.pairs) docTok then .acc else .rej

/-- rule order: permuting the rules inside the annotation leaves the outcome unchanged. Stated, not proved here
(`vh c02-text` checks it on the real library: every third node is run with its rules permuted and re-spelled). -/
def C02_text_rule_order_full : Prop :=
  ∀ (a a' : Ann), a.isAnn = true → a'.isAnn = true → ∀ (EX s1 s2 s1' s2' : List UInt8) (ob ob' : BObj)
    (s3 tl s3' tl' : List UInt8), AnnValid a EX s1 s2 ob s3 tl → AnnValid a' EX s1' s2' ob' s3' tl' →
    ob.pairs.Perm ob'.pairs → okRules EX ob.pairs = true → ∀ doc : List UInt8,
    (E2E.validateText (annTextB a EX s1 s2 ob s3 tl) [] doc = .acc ↔
      E2E.validateText (annTextB a' EX s1' s2' ob' s3' tl') [] doc = .acc)

/-! Non-vacuity: `1 // {min: 0, max :5, }` (inline, trailing comma) and `1 /*⏎ {min: 0,⏎ max: 5⏎}⏎*/⏎` (multi-line)
against the documents ` 4⏎` (accepted) and `6` (rejected); `7 // {min: 0, max :5, }`
is refused by `Check` with code 602 at offset 0. -/

example : okRules Lay.Ex.one Lay.Ex.obInl.pairs = true := by decide +kernel
example : okRules Lay.Ex.one Lay.Ex.obMl.pairs = true := by decide +kernel
example : Lay.Ex.obInl.pairs = [(bs "min", bs "0"), (bs "max", bs "5")] := by decide
example : annTextB .inline Lay.Ex.one [32] [32] Lay.Ex.obInl [] [] = bs "1 // {min: 0, max :5, }" := by decide
-- typical rule sets meet the predicate (values as tokens; `"…"` escaped for Lean)
example : okRules (bs "1.5") [(bs "min", bs "1.5"), (bs "exclusiveMinimum", bs "false"), (bs "max", bs "2"),
    (bs "exclusiveMaximum", bs "true"), (bs "nullable", bs "true")] = true := by decide +kernel
example : okRules (bs "1.25") [(bs "precision", bs "2"), (bs "type", bs "\"decimal\""), (bs "const", bs "false")] = true := by
  decide +kernel
example : okRules (bs "\"abc\"") [(bs "minLength", bs "1"), (bs "maxLength", bs "3"), (bs "type", bs "\"string\""),
    (bs "const", bs "true")] = true := by decide +kernel
example : okRules (bs "\"2024-02-29\"") [(bs "type", bs "\"date\""), (bs "nullable", bs "false")] = true := by
  decide +kernel
example : okRules (bs "true") [(bs "const", bs "true"), (bs "type", bs "\"boolean\"")] = true := by decide +kernel
-- … and the offending ones do not
example : okRules (bs "1") [(bs "exclusiveMinimum", bs "true")] = false := by decide +kernel
example : okRules (bs "1") [(bs "min", bs "2"), (bs "max", bs "1")] = false := by decide +kernel
example : okRules (bs "1") [(bs "min", bs "0"), (bs "min", bs "0")] = false := by decide +kernel
example : okRules (bs "1") [(bs "type", bs "\"float\"")] = false := by decide +kernel

theorem ex_doc4 : JsonScan.IsScalar (([52] : List UInt8).map JsonScan.classify) := ⟨.d19, [], .d1, false, .d1, rfl, rfl, rfl, rfl⟩
theorem ex_doc6 : JsonScan.IsScalar (([54] : List UInt8).map JsonScan.classify) := ⟨.d19, [], .d1, false, .d1, rfl, rfl, rfl, rfl⟩

/-- `1 // {min: 0, max :5, }` accepts ` 4⏎` -/
example : E2E.validateText (annTextB .inline Lay.Ex.one [32] [32] Lay.Ex.obInl [] []) [] ([32] ++ ([52] ++ [10])) = .acc := by
  rw [C02_text_level .inline rfl Lay.Ex.one [32] [32] Lay.Ex.obInl [] [] Lay.Ex.annInl_valid
    (by decide +kernel) (by decide +kernel) [52] [32] [10] ex_doc4
    (by simp [JsonScan.IsWs, JsonScan.classify, JsonScan.Cls.isWs])
    (by simp [JsonScan.IsWs, JsonScan.classify, JsonScan.Cls.isWs])]
  have h : RulesF.litOKFull Compile.noOracles (compiledOf Lay.Ex.one (mk Lay.Ex.obInl.pairs)) [52] = true := by
    decide +kernel
  rw [if_pos h]

/-- the multi-line spelling `1 /*⏎ {min: 0,⏎ max: 5⏎}⏎*/⏎` rejects `6` -/
example : E2E.validateText (annTextB .multi Lay.Ex.one [32] [10, 32] Lay.Ex.obMl [10] [42, 47, 10]) [] ([] ++ ([54] ++ [])) = .rej := by
  rw [C02_text_level .multi rfl Lay.Ex.one [32] [10, 32] Lay.Ex.obMl [10] [42, 47, 10] Lay.Ex.annMl_valid
    (by decide +kernel) (by decide +kernel) [54] [] [] ex_doc6 (by simp [JsonScan.IsWs]) (by simp [JsonScan.IsWs])]
  have h : RulesF.litOKFull Compile.noOracles (compiledOf Lay.Ex.one (mk Lay.Ex.obMl.pairs)) [54] = false := by
    decide +kernel
  rw [h]
  rfl

theorem ann7_valid : AnnValid .inline [55] [32] [32] Lay.Ex.obInl [] [] :=
  ⟨⟨.d19, [], .d1, false, .d1, rfl, rfl, rfl, rfl⟩, by simp only [IsSpTabs]; decide, by simp only [ABlank]; decide,
    Lay.Ex.obInl_valid, by simp only [ABlank]; decide, .eof⟩

/-- `7 // {min: 0, max :5, }`: the example exceeds its own `max` — error 602 at offset 0, for every document -/
example (doc : List UInt8) :
    E2E.validateText (annTextB .inline [55] [32] [32] Lay.Ex.obInl [] []) [] doc = .schemaErr 602 0 := by
  rw [C02_text_check_rejects_bad_example .inline rfl [55] [32] [32] Lay.Ex.obInl [] [] ann7_valid (by decide +kernel)
    (by decide +kernel) doc]
  have h : Compile.litErr (compiledOf [55] (mk Lay.Ex.obInl.pairs)) [55] = some 602 := by decide +kernel
  rw [h]
  rfl

end TextLevel

end Props.C02
