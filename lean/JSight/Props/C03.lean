import JSight.ValidateNProofs
import JSight.ValidateTProofs
import JSight.ValidateRProofs
import JSight.ValidateAProofs
import JSight.ValidateKProofs
import JSight.AllOfProofs
import JSight.Dfs
import JSight.PinnedTree
/-!
# C03 — Type references, or, allOf and additionalProperties compose as set operations

Models (all executable, the last one is what the driver runs against the real `Validate`):
* `VN.validate` — independent leaves: every alternative of a position is its own stack of frames;
* `VN.validateT` — the validator tree as the code keeps it (`Tree.leaves`, children share their parent
  object, a finishing child steps back to the parent, fix F-11: the parent becomes a leaf once);
* `VR.validateT` — + named, possibly recursive user types: `NodeValidatorList` expands type names
  depth-first, every name once per position, a nullable reference adds a literal validator;
* `VA.validateT` — + `additionalProperties` in all modes (absent/false, any, object, array, scalar type,
  user type).
Spec: `shape` by recursion on the *document* — a position accepts the union of its alternatives
(`(alts env s).any …`), an object decides every key the example does not name by `additionalProperties`.
* `VK.validateT` — + key shortcuts `@K: v` (declaration-order matching, one document key per shortcut,
  fix F-15): the richest model, the one the driver's `semk` command runs.
`or` rules are the same union through anonymous types; `allOf` is a compile-time expansion
(`AO.compileAll`, compared with the code by `sem-allof`; `C03_allOf_expand` says what it produces).
No bound on depth, width, number of types or cycle structure.
-/
namespace Props.C03

theorem C03_union {L D : Type} (litOK : L → D → Bool) (s : VN.S L) (d : VN.J D) :
    VN.validate litOK s d = VN.shape litOK s d := VN.C03_validate_iff_union litOK s d

/-- the tree with shared parent validators (as in `tree.go`, F-11) accepts the union too -/
theorem C03_shared_tree {L D : Type} (litOK : L → D → Bool) (s : VN.S L) (d : VN.J D) :
    VN.validateT litOK s d = VN.shape litOK s d := VN.C03_shared_tree litOK s d

theorem C03_shared_eq_independent {L D : Type} (litOK : L → D → Bool) (s : VN.S L) (d : VN.J D) :
    VN.validateT litOK s d = VN.validate litOK s d := VN.shared_eq_independent litOK s d

/-- named, possibly recursive types and nullable references -/
theorem C03_named_types {L D : Type} (env : VR.Env L) (litOK : L → D → Bool) (s : VR.S L) (d : VN.J D) :
    VR.validateT env litOK s d = VR.shape env litOK s d := VR.C03_named_types env litOK s d

/-- the depth-first type expansion is exactly reachability through chains of references (cycles
included): "resolved completely" -/
theorem C03_alts_iff_reach {L : Type} (env : VR.Env L) (s a : VR.S L) : a ∈ VR.alts env s ↔ VR.ReachS env s a :=
  VR.alts_iff_reach env s a

/-- + additionalProperties: decides every key the example does not name -/
theorem C03_additional_properties {L D : Type} (env : VA.Env L) (litOK : L → D → Bool) (s : VA.S L) (d : VN.J D) :
    VA.validateT env litOK s d = VA.shape env litOK s d := VA.C03_additional_properties env litOK s d

/-- + key shortcuts: an unknown key takes the first unused shortcut whose key type accepts it, then
additionalProperties; required shortcuts must be met -/
theorem C03_key_shortcuts {L D : Type} (env : VK.Env L) (litOK : L → D → Bool) (keyOK : String → String → Bool)
    (s : VK.S L) (d : VN.J D) : VK.validateT env litOK keyOK s d = VK.shape env litOK keyOK s d :=
  VK.C03_key_shortcuts env litOK keyOK s d

/-- allOf is a compile-time expansion: the expanded object has its own properties followed by the properties
of the (already expanded, hence transitively complete) base types in `allOf` order; every base is an object.
With the validator theorems above: an object with allOf accepts exactly the objects meeting its own and all
transitively inherited property requirements -/
theorem C03_allOf_expand {L : Type} [DecidableEq L] (env : AO.PEnv L) (fuel : Nat) (proc : List String)
    (props : List (String × Bool × AO.PS L)) (add : VA.AddMode L) (allOf : List String) (s : VA.S L)
    (h : AO.compileNode env fuel proc (.obj props add allOf) = .ok s) :
    ∃ bases own add', AO.compileTypes env fuel proc allOf = .ok bases ∧ AO.compileProps env fuel proc props = .ok own ∧
      (∀ b ∈ bases, AO.isObj b = true) ∧ s = .obj (own ++ bases.flatMap AO.propsOf) add' :=
  AO.C03_allOf_expand env fuel proc props add allOf s h

/-- the pre-fix tree (parent entered into `leaves` once per finishing child) violates the property:
`[@A | @B, "s", 1]`, `@A = 1.5`, `@B = 2.5` accepts `[1, 1]` (fixed by F-11; kept as regression witness) -/
theorem C03_pinned_tree_false : VN.validateTP VN.okK VN.wS VN.wD = true ∧ VN.shape VN.okK VN.wS VN.wD = false :=
  VN.C03_full_false

end Props.C03
