import JSight.ValidateNProofs
import JSight.ValidateTProofs
import JSight.ValidateRProofs
import JSight.ValidateAProofs
import JSight.ValidateKProofs
import JSight.AllOfProofs
import JSight.AllOfKSem
import JSight.AllOfKTrans
import JSight.AllOfKFull
import JSight.OrRuleSetProofs
import JSight.KeyTypeProofs
import JSight.Dfs
import JSight.PinnedTree
import JSight.RefE2EExamples
/-!
# C03 — Type references, or, allOf and additionalProperties compose as set operations

Models (all executable, the last one is what the driver runs against the real `Validate`):
* `VN.validate` — independent leaves: every alternative of a position is its own stack of frames;
* `VN.validateT` — the validator tree as the code keeps it (`Tree.leaves`, children share their parent
  object, a finishing child steps back to the parent, fix F-11: the parent becomes a leaf once);
* `VR.validateT` — + named, possibly recursive user types: `NodeValidatorList` expands type names
  depth-first, every name once per position, a nullable reference adds a literal validator;
* `VA.validateT` — + `additionalProperties` in all modes (absent/false, any, object, array, scalar type,
  user type).
Spec: `shape` by recursion on the *document* — a position accepts the union of its alternatives
(`(alts env s).any …`), an object decides every key the example does not name by `additionalProperties`.
* `VK.validateT` — + key shortcuts `@K: v` (declaration-order matching, one document key per shortcut,
  fix F-15): the richest model, the one the driver's `semk` command runs.
`or` rules are the same union through anonymous types; `allOf` is a compile-time expansion
(`AO.compileAll`, compared with the code by `sem-allof`; `C03_allOf_expand` says what it produces).
No bound on depth, width, number of types or cycle structure.
-/
namespace Props.C03

theorem C03_union {L D : Type} (litOK : L → D → Bool) (s : VN.S L) (d : VN.J D) :
    VN.validate litOK s d = VN.shape litOK s d := VN.C03_validate_iff_union litOK s d

/-- the tree with shared parent validators (as in `tree.go`, F-11) accepts the union too -/
theorem C03_shared_tree {L D : Type} (litOK : L → D → Bool) (s : VN.S L) (d : VN.J D) :
    VN.validateT litOK s d = VN.shape litOK s d := VN.C03_shared_tree litOK s d

theorem C03_shared_eq_independent {L D : Type} (litOK : L → D → Bool) (s : VN.S L) (d : VN.J D) :
    VN.validateT litOK s d = VN.validate litOK s d := VN.shared_eq_independent litOK s d

/-- named, possibly recursive types and nullable references -/
theorem C03_named_types {L D : Type} (env : VR.Env L) (litOK : L → D → Bool) (s : VR.S L) (d : VN.J D) :
    VR.validateT env litOK s d = VR.shape env litOK s d := VR.C03_named_types env litOK s d

/-- the depth-first type expansion is exactly reachability through chains of references (cycles
included): "resolved completely" -/
theorem C03_alts_iff_reach {L : Type} (env : VR.Env L) (s a : VR.S L) : a ∈ VR.alts env s ↔ VR.ReachS env s a :=
  VR.alts_iff_reach env s a

/-- + additionalProperties: decides every key the example does not name -/
theorem C03_additional_properties {L D : Type} (env : VA.Env L) (litOK : L → D → Bool) (s : VA.S L) (d : VN.J D) :
    VA.validateT env litOK s d = VA.shape env litOK s d := VA.C03_additional_properties env litOK s d

/-- + key shortcuts: an unknown key takes the first unused shortcut whose key type accepts it, then
additionalProperties; required shortcuts must be met -/
theorem C03_key_shortcuts {L D : Type} (env : VK.Env L) (litOK : L → D → Bool) (keyOK : String → String → Bool)
    (s : VK.S L) (d : VN.J D) : VK.validateT env litOK keyOK s d = VK.shape env litOK keyOK s d :=
  VK.C03_key_shortcuts env litOK keyOK s d

/-- allOf is a compile-time expansion: the expanded object has its own properties followed by the properties
of the (already expanded, hence transitively complete) base types in `allOf` order; every base is an object.
With the validator theorems above: an object with allOf accepts exactly the objects meeting its own and all
transitively inherited property requirements -/
theorem C03_allOf_expand {L : Type} [DecidableEq L] (env : AO.PEnv L) (fuel : Nat) (proc : List String)
    (props : List (String × Bool × AO.PS L)) (add : VA.AddMode L) (allOf : List String) (s : VA.S L)
    (h : AO.compileNode env fuel proc (.obj props add allOf) = .ok s) :
    ∃ bases own add', AO.compileTypes env fuel proc allOf = .ok bases ∧ AO.compileProps env fuel proc props = .ok own ∧
      (∀ b ∈ bases, AO.isObj b = true) ∧ s = .obj (own ++ bases.flatMap AO.propsOf) add' :=
  AO.C03_allOf_expand env fuel proc props add allOf s h

/-- the pre-fix tree (parent entered into `leaves` once per finishing child) violates the property:
`[@A | @B, "s", 1]`, `@A = 1.5`, `@B = 2.5` accepts `[1, 1]` (fixed by F-11; kept as regression witness) -/
theorem C03_pinned_tree_false : VN.validateTP VN.okK VN.wS VN.wD = true ∧ VN.shape VN.okK VN.wS VN.wD = false :=
  VN.C03_full_false

/-! ## allOf as coded, and `or` rule-sets (extension)

Models: `AOK.compileAll` (`compiler_all_of.go` transliterated: root first, then the types in sorted name order;
`extend` before the children; per base: `processType` with its in-progress set, object test, additionalProperties
merge by `IsEqual`, children appended with their (key, isShortcut) keys, required keys appended) producing `AOK.CS`
objects with explicit children / RequiredKeys / additionalProperties, read by the validator through `AOK.toVK`;
`ORS.loadAll` (the `or` value loaders + `AddUnnamedType` + `AddUnnamedTypes`). Driver words `semao`, `semor`; ties
`sem-allof-full`, `sem-or-rs`. -/

section AllOfK
open AOK
variable {L D : Type} [DecidableEq L]

/-- **C03_allOf_expand for the model that follows the code.** An object with a non-empty allOf list expands iff every
name resolves (`pt` = `processType` under the current in-progress set) to an object, the own children expand, no
(key, isShortcut) pair occurs twice among own and inherited children, and the additionalProperties constraints that are
present agree in the sense of the code's `IsEqual`; the result then has the own children followed by the children of the
bases in list order, the own required keys followed by the bases', and the first additionalProperties constraint
present (the object's own first). -/
theorem C03_allOf_expand_coded (pt : String → Except Err (CS L)) (ents : List (String × Bool × Bool × PS L))
    (add : Option (AP L)) (names : List String) (c : CS L) :
    compileWith pt (.obj ents add (some names)) = .ok c ↔
      names ≠ [] ∧ ∃ bases own, Resolves pt names bases ∧ (∀ b ∈ bases, isObj b = true) ∧
        compileEnts pt ents = .ok own ∧
        Fresh (ents.map keyOf) (bases.flatMap keysOf) ∧ Compatible (add :: bases.map addOf) ∧
        c = .obj (own ++ bases.flatMap entsOf) (reqOf ents ++ bases.flatMap reqsOf) (firstAdd (add :: bases.map addOf)) :=
  AOK.compileWith_obj_ok_iff pt ents add names c

/-- **C03_allOf_semantics** (general form, key shortcuts included): the validator on the expanded object is the
validator on the object that declares the own entries followed by the entries of the expanded — hence transitively
complete — bases, in allOf order, under the merged additionalProperties; by `C03_key_shortcuts` it accepts exactly
what that object's specification `VK.shape` admits. -/
theorem C03_allOf_semantics (envV : VK.Env L) (litOK : L → D → Bool) (keyOK : String → String → Bool)
    (pt : String → Except Err (CS L)) (ents : List (String × Bool × Bool × PS L)) (add : Option (AP L))
    (names : List String) (c : CS L) (bases : List (CS L)) (own : List (String × Bool × Bool × CS L))
    (hc : compileWith pt (.obj ents add (some names)) = .ok c)
    (hr : Resolves pt names bases) (ho : compileEnts pt ents = .ok own) (d : VN.J D) :
    VK.validateT envV litOK keyOK (toVK c) d =
      VK.shape envV litOK keyOK
        (.obj (plainOf own ++ bases.flatMap (fun b => plainOf (entsOf b)))
              (shortsOf own ++ bases.flatMap (fun b => shortsOf (entsOf b)))
              (modeOf (firstAdd (add :: bases.map addOf)))) d :=
  AOK.allOf_semantics envV litOK keyOK pt ents add names c bases own hc hr ho d

/-- **C03_allOf_semantics, conjunction form** (no key shortcut among own and inherited entries — with shortcuts the
one-slot greedy matching makes "meets the requirements of each part" meaningless): the expanded object accepts an
object document iff its members meet the object's own property requirements AND the property requirements of every
base (each base is itself expanded: `C03_allOf_transitive`), and the merged additionalProperties accepts every member
that neither the object nor a base names. -/
theorem C03_allOf_semantics_conj (envV : VK.Env L) (litOK : L → D → Bool) (keyOK : String → String → Bool)
    (pt : String → Except Err (CS L)) (ents : List (String × Bool × Bool × PS L)) (add : Option (AP L))
    (names : List String) (c : CS L) (bases : List (CS L)) (own : List (String × Bool × Bool × CS L))
    (hc : compileWith pt (.obj ents add (some names)) = .ok c)
    (hr : Resolves pt names bases) (ho : compileEnts pt ents = .ok own)
    (hplain : ∀ e ∈ entsOf c, e.2.1 = false) (ms : List (String × VN.J D)) :
    VK.validateT envV litOK keyOK (toVK c) (.obj ms) = true ↔
      Meets envV litOK keyOK (plainOf own) ms ∧
      (∀ b ∈ bases, Meets envV litOK keyOK (plainOf (entsOf b)) ms) ∧
      (∀ m ∈ ms, VK.lookup (plainOf own) m.1 = none → (∀ b ∈ bases, VK.lookup (plainOf (entsOf b)) m.1 = none) →
        AddAccepts envV litOK keyOK (modeOf (firstAdd (add :: bases.map addOf))) m.2 = true) :=
  AOK.allOf_semantics_conj envV litOK keyOK pt ents add names c bases own hc hr ho hplain ms

/-- **transitive inheritance**: the children of an expanded type are its own children and the own children of every
type it inherits from through any number of allOf steps (`Anc`). -/
theorem C03_allOf_transitive (env : PEnv L) (f : Nat) (P : List String) (n : String) (c : CS L)
    (h : processType env f P n = .ok c) (e : String × Bool × Bool × CS L) :
    e ∈ entsOf c ↔ e ∈ ownPart env n c ∨ ∃ m cm, Anc env n m ∧ Expands env m cm ∧ e ∈ ownPart env m cm :=
  AOK.allOf_transitive env f P n c h e

/-- **C03_allOf_semantics, as the property reads** (plain, pairwise distinct keys — distinctness between own and
inherited keys and among the inherited ones is what a successful expansion guarantees, within the own ones the loader):
a type `n` that expands to the object `c` accepts an object document iff its members meet the requirement of every own
property of `n` AND of every own property of every type `n` inherits from through any number of allOf steps, and
additionalProperties (the first constraint present) accepts every member whose key none of these properties names. -/
theorem C03_allOf_semantics_transitive (env : PEnv L) (envV : VK.Env L) (litOK : L → D → Bool) (keyOK : String → String → Bool)
    (f : Nat) (P : List String) (n : String) (c : CS L) (h : processType env f P n = .ok c)
    (hplain : ∀ e ∈ entsOf c, e.2.1 = false) (hnd : ((entsOf c).map keyOf).Nodup) (hobj : isObj c = true)
    (ms : List (String × VN.J D)) :
    VK.validateT envV litOK keyOK (toVK c) (.obj ms) = true ↔
      (∀ e ∈ ownPart env n c, EntryMet envV litOK keyOK e ms) ∧
      (∀ m cm, Anc env n m → Expands env m cm → ∀ e ∈ ownPart env m cm, EntryMet envV litOK keyOK e ms) ∧
      (∀ m ∈ ms, (∀ e ∈ entsOf c, e.1 ≠ m.1) → AddAccepts envV litOK keyOK (modeOf (addOf c)) m.2 = true) :=
  AOK.allOf_semantics_transitive env envV litOK keyOK f P n c h hplain hnd hobj ms

/-- **required-key bookkeeping**: after `CompileAllOf` the RequiredKeys list of every object of the root and of every
type is exactly the list of the keys of its non-optional children, own then inherited (the optional flags are
inherited with the children). -/
theorem C03_allOf_required_keys (env : PEnv L) (root : PS L) (env' : List (String × CS L)) (root' : CS L)
    (h : compileAll env root = .ok (env', root')) : ReqOK root' ∧ ∀ p ∈ env', ReqOK p.2 :=
  AOK.reqOK_compileAll env root env' root' h

/-- **C03_allOf_errors**, one object: the expansion fails iff the allOf list is empty, or a base does not expand
(`C03_allOf_errors_type`: cycle, unknown type, or a failure inside it), or a base is not an object, or — all bases
resolving — a key collides or two additionalProperties constraints conflict, or an own child fails. Independent of the
order in which the code meets the defects (which only selects the reported code; compared by `sem-allof-full`). -/
theorem C03_allOf_errors (pt : String → Except Err (CS L)) (ents : List (String × Bool × Bool × PS L))
    (add : Option (AP L)) (names : List String) :
    (∃ e, compileWith pt (.obj ents add (some names)) = .error e) ↔
        names = []
      ∨ (∃ n ∈ names, ∃ e, pt n = .error e)
      ∨ (∃ n ∈ names, ∃ b, pt n = .ok b ∧ isObj b = false)
      ∨ (∃ bases, Resolves pt names bases ∧
          (¬ Fresh (ents.map keyOf) (bases.flatMap keysOf) ∨ ¬ Compatible (add :: bases.map addOf)))
      ∨ (∃ e, compileEnts pt ents = .error e) :=
  AOK.compileWith_obj_fails_iff pt ents add names

/-- a type does not expand iff it is in progress (a cycle), unknown, or its body does not expand -/
theorem C03_allOf_errors_type (env : PEnv L) (f : Nat) (P : List String) (n : String) :
    (∃ e, processType env (f + 1) P n = .error e) ↔
      n ∈ P ∨ lookupP env n = none ∨
      ∃ t, lookupP env n = some t ∧ ∃ e, compileWith (fun m => processType env f (n :: P) m) t = .error e :=
  AOK.processType_fails_iff env f P n

/-- the in-progress set finds exactly the cycles: every table in which a type inherits from itself (through any
number of steps, from any depth of its body, used by the root or not) is refused … -/
theorem C03_allOf_cycle_refused (env : PEnv L) (root : PS L) (a : String) (hc : DepPlus env a a) :
    ∃ e, compileAll env root = .error e := AOK.compileAll_cycle_fails env root a hc

/-- … and the recursion error (703) is only reported when some type inherits from itself -/
theorem C03_allOf_recursion_error_cycle (env : PEnv L) (root : PS L) (h : compileAll env root = .error .recursion) :
    ∃ a, DepPlus env a a := AOK.compileAll_recursion_cycle env root h

/-- the fuel of the model never runs out: the model's recursion terminates on every table -/
theorem C03_allOf_total (env : PEnv L) (root : PS L) : compileAll env root ≠ .error .fuel :=
  AOK.compileAll_never_out_of_fuel env root

/-- the compiled type does not depend on the context in which it is expanded (re-expansion in the model = the memo
`compiledTypes` of the code) -/
theorem C03_allOf_context_free (env : PEnv L) (f f' : Nat) (P P' : List String) (n : String) (c c' : CS L)
    (h : processType env f P n = .ok c) (h' : processType env f' P' n = .ok c') : c = c' :=
  AOK.processType_proc_irrelevant env f f' P P' n c c' h h'

end AllOfK

/-! ### non-vacuity: a three-level chain `@C allOf @B allOf @A` with an optional key and additionalProperties at both
ends, and every error case -/
section AllOfKExamples
open AOK

private def exEnv : PEnv Nat :=
  [("A", .obj [("a", false, true, .lit 1), ("o", false, false, .lit 2)] (some .any) none),
   ("B", .obj [("b", false, true, .lit 3)] none (some ["A"])),
   ("C", .obj [("c", false, true, .lit 4)] (some .no) (some ["B"]))]
private def exLit (l : Nat) (d : Nat) : Bool := l == d
private def exKey (_ _ : String) : Bool := false
private def exPt : String → Except Err (CS Nat) := fun m => processType exEnv 4 [] m
private def exB : CS Nat :=
  .obj [("b", false, true, .lit 3), ("a", false, true, .lit 1), ("o", false, false, .lit 2)] ["b", "a"] (some .any)
private def exC : CS Nat :=
  .obj [("c", false, true, .lit 4), ("b", false, true, .lit 3), ("a", false, true, .lit 1), ("o", false, false, .lit 2)]
    ["c", "b", "a"] (some .no)

/-- `@B` expands to its own child, then `@A`'s (the optional flag of `o` kept); it copies `@A`'s "any" -/
example : exPt "B" = .ok exB := rfl
/-- `@C`: own, then everything `@B` has (two levels); explicit `false` and the inherited "any" are `IsEqual`, the
object's own `false` stays; required keys of three levels -/
example : compileWith exPt (.obj [("c", false, true, .lit 4)] (some .no) (some ["B"])) = .ok exC := rfl
example : Resolves exPt ["B"] [exB] := .cons rfl .nil
example : compileEnts exPt [("c", false, true, (.lit 4 : PS Nat))] = .ok [("c", false, true, .lit 4)] := rfl
example : ∀ e ∈ entsOf exC, e.2.1 = false := by decide
example : (compileAll exEnv (.ref ["C"] none)).toOption.map (·.2) = some (.ref ["C"] none) := rfl
/-- the expanded `@C` wants `a`, `b`, `c`, allows `o`, forbids anything else; `@B` allows anything else -/
example : VK.validateT (L := Nat) (D := Nat) [] exLit exKey (toVK exC) (.obj [("a", .lit 1), ("c", .lit 4), ("b", .lit 3)]) = true := by
  decide +kernel
example : VK.validateT (L := Nat) (D := Nat) [] exLit exKey (toVK exC) (.obj [("a", .lit 1), ("c", .lit 4)]) = false := by
  decide +kernel
example : VK.validateT (L := Nat) (D := Nat) [] exLit exKey (toVK exC) (.obj [("a", .lit 1), ("c", .lit 4), ("b", .lit 3), ("z", .lit 3)]) = false := by
  decide +kernel
example : VK.validateT (L := Nat) (D := Nat) [] exLit exKey (toVK exB) (.obj [("a", .lit 1), ("b", .lit 3), ("z", .lit 3)]) = true := by
  decide +kernel
example : processType exEnv 4 [] "C" = .ok exC := rfl
example : ((entsOf exC).map keyOf).Nodup := by decide
example : isObj exC = true := rfl
example : ownPart exEnv "C" exC = [("c", false, true, .lit 4)] := rfl
example : Anc exEnv "C" "A" := .step (k := "B") (by decide) (.base (by decide))
/-- every way to fail, with the error the code reports -/
example : compileAll (L := Nat) [("A", .obj [] none (some ["B"])), ("B", .obj [("k", false, true, .obj [] none (some ["A"]))] none none)] .any
    = .error .recursion := rfl
example : DepPlus (L := Nat) [("A", .obj [] none (some ["B"])), ("B", .obj [("k", false, true, .obj [] none (some ["A"]))] none none)] "A" "A" :=
  .step (b := "B") ⟨.obj [] none (some ["B"]), rfl, by decide⟩
    (.one ⟨.obj [("k", false, true, .obj [] none (some ["A"]))] none none, rfl, by decide⟩)
example : compileAll (L := Nat) [("A", .obj [] none (some ["Z"]))] .any = .error .unknownType := rfl
example : compileAll (L := Nat) [("A", .lit 1)] (.obj [] none (some ["A"])) = .error .notObject := rfl
example : compileAll (L := Nat) [("A", .obj [("k", false, true, .lit 1)] none none)]
    (.obj [("k", false, false, .lit 2)] none (some ["A"])) = .error .duplicateKey := rfl
example : compileAll (L := Nat) [("A", .obj [] (some (.lit 1)) none)] (.obj [] (some .any) (some ["A"])) = .error .conflictAdd := rfl
example : compileAll (L := Nat) [] (.obj [] none (some [])) = .error .emptyAllOf := rfl
example : compileAll (L := Nat) [("A", .obj [] none none)] (.bad ["A"]) = .error .unexpectedConstraint := rfl
/-- a plain key `"@k"` and the key shortcut `@k` are different keys: no collision -/
example : (compileAll (L := Nat) [("A", .obj [("k", true, true, .lit 1)] none none)]
    (.obj [("@k", false, true, .lit 2)] none (some ["A"]))).toOption.map (·.2) =
    some (.obj [("@k", false, true, .lit 2), ("k", true, true, .lit 1)] ["@k", "@k"] none) := rfl

end AllOfKExamples

/-! ## `or` rule-sets -/
section OrRuleSets
open ORS
variable {L R D : Type}

/-- a reference position accepts the union over its names, plus the literal alternative of `nullable: true` -/
theorem C03_ref_union (env : VK.Env L) (litOK : L → D → Bool) (keyOK : String → String → Bool)
    (names : List String) (nul : Option L) (d : VN.J D) :
    VK.shape env litOK keyOK (.ref names nul) d =
      (names.any (fun n => VK.shape env litOK keyOK (.ref [n] none) d) || nulAccepts litOK nul d) :=
  ORS.shape_ref_union env litOK keyOK names nul d

/-- a type name accepts what its type accepts -/
theorem C03_ref_single (env : VK.Env L) (litOK : L → D → Bool) (keyOK : String → String → Bool)
    (a : String) (t : VK.S L) (hl : VK.lookupT env a = some t) (d : VN.J D) :
    VK.shape env litOK keyOK (.ref [a] none) d = VK.shape env litOK keyOK t d :=
  ORS.shape_ref_single env litOK keyOK a t hl d

/-- **C03_or_ruleset_union, any position**: the names the loader appends for the members of an `or` list accept,
together, exactly what the members accept as written (`memberAccepts`: a named type by either spelling; a type string
or a rule-set = its compiled root), in every table in which the types created so far are found under their names -/
theorem C03_or_members_union (env : VK.Env L) (litOK : L → D → Bool) (keyOK : String → String → Bool)
    (fresh : Nat → String) (mk : R → VK.S L) (d : VN.J D) (ms : List (Member R)) (st : St L)
    (hl : ∀ p ∈ (loadMembers fresh mk ms st).2.anon, VK.lookupT env p.1 = some p.2) :
    (loadMembers fresh mk ms st).1.any (fun n => VK.shape env litOK keyOK (.ref [n] none) d) =
      ms.any (memberAccepts env litOK keyOK mk d) :=
  ORS.loadMembers_union env litOK keyOK fresh mk d ms st hl

/-- in the table the loader builds every created type is found under its name (unique names that are never user
type names: what `#%p` of a fresh object guarantees) -/
theorem C03_or_created_types_found (fresh : Nat → String) (mk : R → VK.S L) (env : List (String × OS L R)) (root : OS L R)
    (hinj : ∀ i j, fresh i = fresh j → i = j) (hdisj : ∀ k, fresh k ∉ env.map (·.1)) :
    ∀ p ∈ (loadNode fresh mk root (loadEnv fresh mk env ⟨0, []⟩).2).2.anon,
      VK.lookupT (loadAll fresh mk env root).1 p.1 = some p.2 :=
  ORS.loadAll_lookup_anon fresh mk env root hinj hdisj

/-- **C03_or_ruleset_union** (closed statement for a root `or` node over any table of added types, themselves with
`or` nodes anywhere): the validator accepts exactly the union over the members as written — named type, `{type: "@T"}`,
type string, rule-set — plus the literal alternative of `nullable: true` (null only: `nulAccepts` with the null
literal) -/
theorem C03_or_ruleset_union (fresh : Nat → String) (mk : R → VK.S L) (litOK : L → D → Bool) (keyOK : String → String → Bool)
    (env : List (String × OS L R)) (members : List (Member R)) (nul : Option L)
    (hinj : ∀ i j, fresh i = fresh j → i = j) (hdisj : ∀ k, fresh k ∉ env.map (·.1)) (d : VN.J D) :
    VK.validateT (loadAll fresh mk env (.or members nul)).1 litOK keyOK (loadAll fresh mk env (.or members nul)).2 d =
      (members.any (memberAccepts (loadAll fresh mk env (.or members nul)).1 litOK keyOK mk d) || nulAccepts litOK nul d) :=
  ORS.or_ruleset_union fresh mk litOK keyOK env members nul hinj hdisj d

/-! non-vacuity: `v // {or: [{type: "integer", min: 0}, "string", "@A", {type: "@B"}], nullable: true}` with literals as
(kind, lower bound) pairs; `@A` itself carries an `or`, so the table holds three created types -/
private inductive K | int | str | bool | null deriving DecidableEq
private def oLit (l : K × Nat) (d : K × Nat) : Bool := (l.1 == d.1 && decide (l.2 ≤ d.2))
private def oFresh (k : Nat) : String := String.ofList (List.replicate (k + 1) '#')
private def oEnv : List (String × OS (K × Nat) (K × Nat)) :=
  [("A", .or [.typeStr (.bool, 0), .ruleSet (.int, 100)] none), ("B", .lit (.bool, 5))]
private def oMembers : List (Member (K × Nat)) := [.ruleSet (.int, 3), .typeStr (.str, 0), .named "A", .typeRef "B"]
private def oMk (r : K × Nat) : VK.S (K × Nat) := .lit r

example : (loadAll oFresh oMk oEnv (.or oMembers (some (.null, 0)))).2 = .ref ["###", "####", "A", "B"] (some (.null, 0)) := rfl
example : (loadAll oFresh oMk oEnv (.or oMembers (some (.null, 0)))).1.map (·.1) = ["A", "B", "#", "##", "###", "####"] := rfl
example : ∀ k, oFresh k ∉ oEnv.map (·.1) := by
  intro k h
  simp only [oEnv, List.map_cons, List.map_nil, List.mem_cons, List.not_mem_nil, or_false] at h
  rcases h with h | h <;>
  · have := congrArg (fun s => s.toList.head?) h
    simp [oFresh, List.replicate] at this
example : ∀ i j, oFresh i = oFresh j → i = j := by
  intro i j h
  have := congrArg (fun s => s.toList.length) h
  simp [oFresh] at this
  exact this
/-- accepted through the rule-set, the type string, the created types of `@A`, `{type: "@B"}`, nullable; rejected
outside the union -/
example : VK.validateT (loadAll oFresh oMk oEnv (.or oMembers (some (.null, 0)))).1 oLit (fun _ _ => false)
    (loadAll oFresh oMk oEnv (.or oMembers (some (.null, 0)))).2 (.lit (.int, 7)) = true := by decide +kernel
example : VK.validateT (loadAll oFresh oMk oEnv (.or oMembers (some (.null, 0)))).1 oLit (fun _ _ => false)
    (loadAll oFresh oMk oEnv (.or oMembers (some (.null, 0)))).2 (.lit (.int, 2)) = false := by decide +kernel
example : VK.validateT (loadAll oFresh oMk oEnv (.or oMembers (some (.null, 0)))).1 oLit (fun _ _ => false)
    (loadAll oFresh oMk oEnv (.or oMembers (some (.null, 0)))).2 (.lit (.bool, 1)) = true := by decide +kernel
example : VK.validateT (loadAll oFresh oMk oEnv (.or oMembers (some (.null, 0)))).1 oLit (fun _ _ => false)
    (loadAll oFresh oMk oEnv (.or oMembers (some (.null, 0)))).2 (.lit (.null, 0)) = true := by decide +kernel
example : VK.validateT (loadAll oFresh oMk oEnv (.or oMembers none)).1 oLit (fun _ _ => false)
    (loadAll oFresh oMk oEnv (.or oMembers none)).2 (.lit (.null, 0)) = false := by decide +kernel

/-- regression witness of fix F-33 (a94aab7): before it the extra alternative of a nullable node with a types list
was the literal validator of the node ITSELF — the kind of its example, not null only — so `5 // {or: [{type:
"integer", min: 3}, "string"], nullable: true}` accepted `1`, which is in no member and not null. The theorem above
holds for any literal alternative; the property needs the null-only one. -/
example : VK.validateT (loadAll oFresh oMk [] (.or [.ruleSet (.int, 3), .typeStr (.str, 0)] (some (.int, 0)))).1 oLit (fun _ _ => false)
    (loadAll oFresh oMk [] (.or [.ruleSet (.int, 3), .typeStr (.str, 0)] (some (.int, 0)))).2 (.lit (.int, 1)) = true := by decide +kernel
example : VK.validateT (loadAll oFresh oMk [] (.or [.ruleSet (.int, 3), .typeStr (.str, 0)] (some (.null, 0)))).1 oLit (fun _ _ => false)
    (loadAll oFresh oMk [] (.or [.ruleSet (.int, 3), .typeStr (.str, 0)] (some (.null, 0)))).2 (.lit (.int, 1)) = false := by decide +kernel

end OrRuleSets


/-! ## The key test of key shortcuts inside the model (work package c03keytype)

`C03_key_shortcuts` takes the key test as a parameter (`keyOK`). `KeyType.keyOKc` is that test as
`validateTypeRules` / `checkConstraint` of `v_object.go` code it (after F-35, F-37), over the C02 rule model:
the key token of the document, the compiled root node of the key type (JSON type, EXAMPLE, constraint map). -/
namespace KeyTypes
open RulesF KeyType

/-- **C03_key_admitted_iff_value_accepted**: for every string type that keeps at least one constraint after
compilation (`nullable: true` or any literal validator: length, regex, enum, `const: true`, a format type) and every
key token of a document, the shortcut admits the key iff the C02 validator (`RulesF.litOKFull`: the function
`C02_accept_iff_full` is about) accepts the key token as a VALUE of that type -/
theorem C03_key_admitted_iff_value_accepted (o : Oracles) (l : LitSpecF) (k : KeyBytes)
    (hs : l.kind = .s) (hk : Unquote.inQuotes k = true) (hr : l.nul = true ∨ l.rules ≠ []) :
    keyOKc o (ofSpec l) k = litOKFull o l k :=
  KeyType.key_admitted_iff_value_accepted o l k hs hk hr

/-- the same in the words of the property text (C02's specification `Accepts`): the key `cs` (any spelling) is
admitted iff the decoded string satisfies every rule of the type -/
theorem C03_key_admitted_iff_accepts (o : Oracles) (S : SSpec) (hS : S.WF) (hA : S.applicable = true)
    (hs : S.kind = .s) (hr : S.nul = true ∨ S.rules ≠ []) (cs : List SCh) (hc : (STok.str cs).WF) :
    keyOKc o (ofSpec S.toModel) (STok.str cs).bytes = true ↔ Accepts EnumEq o S (.str cs) :=
  KeyType.key_admitted_iff_accepts o S hS hA hs hr cs hc

/-- **C03_key_type_without_rules**: an annotation made of `type: "string"` (any `type` that is no format),
`const: false`, `nullable: false` only — or no annotation — leaves no constraint, and the type then admits exactly
its EXAMPLE as key, compared after decoding … -/
theorem C03_key_type_without_rules (o : Oracles) (ex : Bytes) (raws : List RawRule) (k : KeyBytes)
    (h : raws.all KeyType.RawRule.inert = true) :
    keyOKc o (ofRaw ex raws) k = (Unquote.unquote ex == Unquote.unquote k) :=
  KeyType.key_type_without_rules_raw o ex raws k h

/-- … although as a value such a type accepts every string -/
theorem C03_value_type_without_rules (o : Oracles) (ex : Bytes) (raws : List RawRule) (k : Bytes)
    (h : raws.all KeyType.RawRule.inert = true) (hk : Unquote.inQuotes k = true) :
    litOKFull o (compile .s ex raws) k = true :=
  KeyType.value_type_without_rules o _ k rfl (KeyType.compile_inert ex raws h).2 hk

/-- the difference as a statement: "key admitted iff value accepted" for EVERY string type -/
def C03_key_vs_value_full : Prop := KeyType.key_vs_value_full

/-- it fails on `@K = "zz"` and the key `"a"` (long-standing documented reading: a type without rules stands for
its example; replayed on the real library by `vh c03-keytype`, stat `witness_ruleless_type_key_vs_value`) -/
theorem C03_key_vs_value_full_false : ¬ C03_key_vs_value_full := KeyType.key_vs_value_full_false

/-- **C03_key_spelling_invariant** (F-35 as a theorem): two key tokens with the same decoded bytes get the same
answer from every key type, whatever its root node and constraints (panic included) -/
theorem C03_key_spelling_invariant (o : Oracles) (T : KeyTypeNode) (k₁ k₂ : KeyBytes)
    (h₁ : Unquote.inQuotes k₁ = true) (h₂ : Unquote.inQuotes k₂ = true)
    (hu : Unquote.unquote k₁ = Unquote.unquote k₂) :
    keyStep o T k₁ = keyStep o T k₂ ∧ keyOKc o T k₁ = keyOKc o T k₂ :=
  KeyType.key_spelling_invariant o T k₁ k₂ h₁ h₂ hu

/-- … for RFC 8259 string tokens: equal text, equal answer -/
theorem C03_key_spelling_invariant_tokens (o : Oracles) (T : KeyTypeNode) (cs₁ cs₂ : List SCh)
    (h₁ : (STok.str cs₁).WF) (h₂ : (STok.str cs₂).WF) (ht : text cs₁ = text cs₂) :
    keyOKc o T (STok.str cs₁).bytes = keyOKc o T (STok.str cs₂).bytes :=
  KeyType.key_spelling_invariant_tokens o T cs₁ cs₂ h₁ h₂ ht

/-- a root node that is no string: `ErrInvalidKeyType`, no key admitted -/
theorem C03_key_type_not_string (o : Oracles) (T : KeyTypeNode) (k : KeyBytes) (hs : T.kind ≠ .s) :
    keyStep o T k = none ∧ keyOKc o T k = false := KeyType.keyOKc_not_string o T k hs

/-! non-vacuity -/
private def b (s : List Nat) : Bytes := s.map UInt8.ofNat
private def kAB : Bytes := b [34, 97, 98, 34]                      -- "ab"
private def kABu : Bytes := b [34, 92, 117, 48, 48, 54, 49, 98, 34]  -- "\u0061b"
private def kX : Bytes := b [34, 120, 34]                          -- "x"
/-- oracles of the examples: regex `^a` as "starts with a", mail as "contains @" -/
private def oEx : Oracles :=
  { re := fun _ s => s.head? == some 97, mail := fun s => s.contains 64, uri := fun _ => false, rfc3339 := fun _ => false }
private def kMail : Bytes := b [34, 97, 64, 98, 34]                -- "a@b"

-- hypotheses of `C03_key_admitted_iff_value_accepted` met non-trivially, both verdicts
example : Unquote.inQuotes kABu = true ∧ Unquote.unquote kABu = Unquote.unquote kAB := by decide
-- `"ab" // {regex: "^a", maxLength: 2}`
private def tRe : LitSpecF := compile .s kAB [.regex (b [94, 97]), .maxLength 2]
example : tRe.rules ≠ [] ∧ keyOKc oEx (ofSpec tRe) kABu = true ∧ keyOKc oEx (ofSpec tRe) kX = false := by decide
-- a format key type: `"a@b" // {type: "email"}`
private def tMail : LitSpecF := compile .s kMail [.typeFmt .email]
example : keyOKc oEx (ofSpec tMail) kMail = true ∧ keyOKc oEx (ofSpec tMail) kAB = false ∧
    litOKFull oEx tMail kMail = true ∧ litOKFull oEx tMail kAB = false := by decide
-- `"ab" // {const: true}`: the example only, in any spelling
private def tConst : LitSpecF := compile .s kAB [.const true]
example : keyOKc oEx (ofSpec tConst) kAB = true ∧ keyOKc oEx (ofSpec tConst) kABu = true ∧
    keyOKc oEx (ofSpec tConst) kX = false := by decide
-- `"ab" // {enum: ["ab", "x"]}`
private def tEnum : LitSpecF := compile .s kAB [.enum [kAB, kX]]
example : keyOKc oEx (ofSpec tEnum) kABu = true ∧ keyOKc oEx (ofSpec tEnum) kX = true ∧
    keyOKc oEx (ofSpec tEnum) kMail = false := by decide
-- `"ab" // {nullable: true}`: one constraint, no validator — every key, as every string value
private def tNul : LitSpecF := compile .s kAB [.nullable true]
example : tNul.nul = true ∧ tNul.rules = [] ∧ keyOKc oEx (ofSpec tNul) kX = true ∧ litOKFull oEx tNul kX = true := by decide
-- a type without effective rules: `"ab" // {type: "string", const: false, nullable: false}`
example : keyOKc oEx (ofRaw kAB [.typeOther, .const false, .nullable false]) kABu = true ∧
    keyOKc oEx (ofRaw kAB [.typeOther, .const false, .nullable false]) kX = false ∧
    litOKFull oEx (compile .s kAB [.typeOther, .const false, .nullable false]) kX = true := by decide
-- constraints that are no validators (`type: "any"`, a types list): every key
example : keyOKc oEx { kind := .s, ex := kAB, cons := [.any] } kX = true ∧
    keyOKc oEx { kind := .s, ex := kAB, cons := [.typesList, .nullable] } kX = true := by decide
-- a root that is no string
example : keyStep oEx { kind := .i, ex := b [49], cons := [] } kX = none := by decide
/-- regression witness of fix F-35 (e1d8e9e): before it a type without rules compared its example with the key AS
SPELLED — `"\u0061b"` was refused where `"ab"` was admitted -/
example : keyOKraw oEx (ofRaw kAB []) kAB = true ∧ keyOKraw oEx (ofRaw kAB []) kABu = false ∧
    keyOKc oEx (ofRaw kAB []) kAB = true ∧ keyOKc oEx (ofRaw kAB []) kABu = true := by decide

end KeyTypes

/-! ## C03 at TEXT level: type references and or-shortcuts compose as union, from schema TEXTS (work package c03text)

The whole pipeline `E2E.validateText` (schema scanner model → loader model → `Compile` creation / `CompileBasic` /
`Check` → JSON scanner model → validator machine) on a root text and added type texts whose values are scalars or type
shortcuts `@A`, `@A | @B | …` in any nesting and blank layout (`SE.BST`, `SE.TextOK`, `SE.TypesOK`: the class of
`C09_text_loads` / `C09_types_load`), against the specification `RE.Admits` (`JSight/RefE2ESpec.lean`): one step
`RE.stepA` by cases on (tree, document) — scalar: the kind matrix of `C01_text_level`; shortcut: the UNION over its
names of what the tree added under the name admits; array / object: as `VN.shape` — iterated by fuel; "admitted" =
with some fuel (least fixed point: `@A = @A` admits nothing). `C03_text_admits_*` read it as a recursive predicate.
Added types may themselves contain shortcuts (any depth of references, recursive types such as `@L = [@L]`). -/
section TextLevelRefs
open SE (BST BItem BMember TypeText TextOK TypesOK docText typeTexts typesOf cnOf namesOf)
open RE (Admits Doc lookupB childAtB lookupM keysM)

open Classical in
/-- **C03_text_level_refs**: root text and added type texts of the class, distinct user type names, the check stage
passes (`C09_text_level_links`: every referenced name was added and the recursion check passes); then for every
document text that is one JSON value in any white space the pipeline answers `acc` iff the document is admitted by the
root tree with every shortcut leaf read as the union of the trees of its names — and `rej` otherwise, never an error -/
theorem C03_text_level_refs (w0 : SE.Bytes) (t : BST) (w1 : SE.Bytes) (ht : TextOK w0 t w1) (tys : List TypeText)
    (htys : TypesOK tys) (hn : CL.typeNamesOK (typeTexts tys) = true) (opt : Bool)
    (hc : Compile.check (cnOf opt t) (typesOf tys) = .ok ())
    (d : VPos.T UInt8) (hd : (VPos.toJA JsonScan.classify d).Valid) (ws0 ws1 : List UInt8)
    (hw0 : JsonScan.IsWs (ws0.map JsonScan.classify)) (hw1 : JsonScan.IsWs (ws1.map JsonScan.classify)) :
    E2E.validateText (docText w0 t w1) (typeTexts tys) (ws0 ++ (d.render VPos.byteSym ++ ws1)) opt
      = if Admits tys opt t (E2E.docOf d) then .acc else .rej :=
  RE.text_level_refs w0 t w1 ht tys htys hn opt hc d hd ws0 ws1 hw0 hw1

/-- the same as two equivalences on the outcome -/
theorem C03_text_level_refs_iff (w0 : SE.Bytes) (t : BST) (w1 : SE.Bytes) (ht : TextOK w0 t w1) (tys : List TypeText)
    (htys : TypesOK tys) (hn : CL.typeNamesOK (typeTexts tys) = true) (opt : Bool)
    (hc : Compile.check (cnOf opt t) (typesOf tys) = .ok ())
    (d : VPos.T UInt8) (hd : (VPos.toJA JsonScan.classify d).Valid) (ws0 ws1 : List UInt8)
    (hw0 : JsonScan.IsWs (ws0.map JsonScan.classify)) (hw1 : JsonScan.IsWs (ws1.map JsonScan.classify)) :
    (E2E.validateText (docText w0 t w1) (typeTexts tys) (ws0 ++ (d.render VPos.byteSym ++ ws1)) opt = .acc
        ↔ Admits tys opt t (E2E.docOf d)) ∧
    (E2E.validateText (docText w0 t w1) (typeTexts tys) (ws0 ++ (d.render VPos.byteSym ++ ws1)) opt = .rej
        ↔ ¬ Admits tys opt t (E2E.docOf d)) := by
  rw [C03_text_level_refs w0 t w1 ht tys htys hn opt hc d hd ws0 ws1 hw0 hw1]
  by_cases h : Admits tys opt t (E2E.docOf d) <;> simp [h]

/-- the validator half alone: the specification of the validator machine (`C03_key_shortcuts`) on the validator schema
of the compiled root and the table of the compiled types is the union specification -/
theorem C03_text_validator_refs (tys : List TypeText) (kOK : String → String → Bool) (opt : Bool) (t : BST) (d : Doc) :
    VK.validateT (RE.envB tys) Compile.litOK kOK (RE.vkOf opt t) d = true ↔ Admits tys opt t d := by
  rw [VK.C03_key_shortcuts]
  exact RE.shape_iff_admits tys kOK opt t d

/-- the specification as a recursive predicate. **Union**: a shortcut leaf `@A | @B | …` admits exactly what the tree
added under one of its names admits (added types are read with required keys) -/
theorem C03_text_admits_union (tys : List TypeText) (o : Bool) (fi : List UInt8) (as : List SE.Alt) (sps : List UInt8)
    (d : Doc) :
    Admits tys o (.short fi as sps) d ↔
      ∃ n ∈ namesOf fi as sps, ∃ t, lookupB tys n = some t ∧ Admits tys false t d :=
  RE.admits_short tys o fi as sps d

/-- a scalar leaf: the literal-kind rule of `C01_text_level` -/
theorem C03_text_admits_scalar (tys : List TypeText) (o : Bool) (tok : List UInt8) (d : Doc) :
    Admits tys o (.scalar tok) d ↔ ∃ x, d = .lit x ∧ E2E.kindOKTok (E2E.kindOf tok) x = true :=
  RE.admits_scalar tys o tok d

/-- an array: every element is admitted by the item of its index, the last item repeating -/
theorem C03_text_admits_arr (tys : List TypeText) (o : Bool) (w : List UInt8) (its : List BItem) (d : Doc) :
    Admits tys o (.arr w its) d ↔
      ∃ xs, d = .arr xs ∧ ∀ p ∈ xs.zipIdx, ∃ t, childAtB its p.2 = some t ∧ Admits tys o t p.1 :=
  RE.admits_arr tys o w its d

/-- an object: every member's key is a key of the tree whose value tree admits the member's value; every key of the
tree is present unless keys are optional by default -/
theorem C03_text_admits_obj (tys : List TypeText) (o : Bool) (w : List UInt8) (ms : List BMember) (d : Doc) :
    Admits tys o (.obj w ms) d ↔
      ∃ dms, d = .obj dms ∧ (∀ m ∈ dms, ∃ t, lookupM ms m.1 = some t ∧ Admits tys o t m.2) ∧
        (o = true ∨ ∀ k ∈ keysM ms, ∃ m ∈ dms, m.1 = k) :=
  RE.admits_obj tys o w ms d

/-- a decidable criterion for "not admitted": the optimistic `k`-step unfolding already refuses -/
theorem C03_text_not_admitted (tys : List TypeText) (k : Nat) (o : Bool) (t : BST) (d : Doc)
    (h : RE.admitsTop tys k o t d = false) : ¬ Admits tys o t d := RE.not_admits_of_top tys k o t d h

/-! non-vacuity: root `{"a": @A | @B ,⏎ "b": [@C⏎], "c": 1}`, types `@A` = `1⏎`, `@B` = `"s"`, `@C` = `{"k": true}`
(`RE.Ex`); documents written ` …⏎`. Accepted: `{"a":1,"b":[{"k":true}],"c":2}`, `{"a":"x","b":[],"c":2}`,
`{"c":2,"b":[{"k":false},{"k":true}],"a":1}`; rejected: `{"a":true,"b":[],"c":2}` (in neither `@A` nor `@B`),
`{"a":1,"b":[1],"c":2}` (not in `@C`), `{"a":1,"b":[{"k":true,"z":2}],"c":2}` (`@C` has no `z`). The same six verdicts
by evaluation: `RE.Ex` (`#guard` on the closed pipeline; kernel `decide` on scanner + validator machine). -/
section nonvacuity
open RE.Ex

private theorem exRun (d : DT) (hd : (VPos.toJA JsonScan.classify d).Valid) :
    (run d = .acc ↔ Admits RE.Ex.tys false SE.Ex.root (E2E.docOf d)) ∧
    (run d = .rej ↔ ¬ Admits RE.Ex.tys false SE.Ex.root (E2E.docOf d)) :=
  C03_text_level_refs_iff [] SE.Ex.root [] SE.Ex.root_ok RE.Ex.tys RE.Ex.tys_ok RE.Ex.names_ok false RE.Ex.check_ok d hd
    [32] [10] sp_ws lf_ws

example : run dAcc1 = .acc := (exRun dAcc1 dAcc1_valid).1.2 acc1
example : run dAcc2 = .acc := (exRun dAcc2 dAcc2_valid).1.2 acc2
example : run dAcc3 = .acc := (exRun dAcc3 dAcc3_valid).1.2 acc3
example : run dRej1 = .rej := (exRun dRej1 dRej1_valid).2.2 rej1
example : run dRej2 = .rej := (exRun dRej2 dRej2_valid).2.2 rej2
example : run dRej3 = .rej := (exRun dRej3 dRej3_valid).2.2 rej3

/-- the union at the leaf `a`: `1` through `@A`, `"x"` through `@B` -/
example : Admits RE.Ex.tys false SE.Ex.sAB (.lit [49]) ∧ Admits RE.Ex.tys false SE.Ex.sAB (.lit [34, 120, 34]) ∧
    ¬ Admits RE.Ex.tys false SE.Ex.sAB (.lit [116, 114, 117, 101]) :=
  ⟨⟨2, by decide +kernel⟩, ⟨2, by decide +kernel⟩, C03_text_not_admitted _ 2 _ _ _ (by decide +kernel)⟩

/-- references through references and a recursive type: `@L` = `[@L]`, `@M` = `@L | @A`, `@A` = `1`; the leaf `@M`
admits `[[], [[]]]` and `1`, not `[1]`; the cycle `@X` = `@X` admits nothing -/
private def tysRec : List TypeText :=
  [("@L", [], .arr [] [([], .short [76] [] [], [])], []),
   ("@M", [], .short [76] [([32], [32], [65])] [], []),
   ("@A", [], .scalar [49], []),
   ("@X", [], .short [88] [] [], [])]
example : namesOf [76] [([32], [32], [65])] [] = ["@L", "@A"] := by decide +kernel
example : Admits tysRec false (.short [77] [] []) (.arr [.arr [], .arr [.arr []]]) := ⟨8, by decide +kernel⟩
example : Admits tysRec false (.short [77] [] []) (.lit [49]) := ⟨3, by decide +kernel⟩
example : ¬ Admits tysRec false (.short [77] [] []) (.arr [.lit [49]]) :=
  C03_text_not_admitted _ 6 _ _ _ (by decide +kernel)
example : ¬ Admits tysRec false (.short [88] [] []) (.lit [49]) := by
  rw [C03_text_admits_union]
  rintro ⟨n, hn, t, hl, f, hf⟩
  have hn' : n = "@X" := by
    have e : namesOf [88] [] [] = ["@X"] := by decide +kernel
    rw [e] at hn; simpa using hn
  subst hn'
  have ht : t = .short [88] [] [] := by
    have e : lookupB tysRec "@X" = some (.short [88] [] []) := by simp [lookupB, tysRec]
    rw [e] at hl; cases hl; rfl
  subst ht
  induction f with
  | zero => simp [RE.admits] at hf
  | succ f ih =>
    apply ih
    have e : namesOf [88] [] [] = ["@X"] := by decide +kernel
    have e2 : lookupB tysRec "@X" = some (.short [88] [] []) := by simp [lookupB, tysRec]
    simpa [RE.admits, RE.stepA, e, e2] using hf

end nonvacuity
end TextLevelRefs

end Props.C03
