import JSight.RuleOrder
import JSight.Tie.CMap
/-!
# C08 — Check's verdict does not depend on the order of the rules (the part that is a theorem)

`RuleOrder.Prog` is the language of pipelines that look at a node's constraint map only through
`Has`, `Get`, `Len`, `Set`, `Delete`, a key-wise `Filter` and an "every constraint passes" iteration.
`C08_verdict_perm`: the verdict of *every* such pipeline is the same for every ordering of a
duplicate-free rule set (the map is built by `AddConstraint` = `Has` + `Set` in written order, C19
gives the map semantics, `Filter` is the fixed one of F-1).
`Gen.C08_cmap_uses_reviewed` (table regenerated from /repo on every run) shows that the Go
compile / check pipeline stays inside this language.
Exception recorded as known finding K-C08-ref-type-or: `MixedValueNode.AddConstraint` special-cases
`type` and `or` *at insertion time* (its result depends on what is already in the map), so for a
type-reference example node the hypothesis "the map is built by Set" does not hold.
The rule-by-rule applicability table (`C08_check_iff`) is checked against the code with a spec written
from the statement (harness `c08-rules`), not proved: DESIGN.md §4 C08.
-/
namespace Props.C08
open RuleOrder OMap

theorem C08_verdict_perm {κ ν : Type} [DecidableEq κ] (prog : Prog κ ν) (rs rs' : List (κ × ν))
    (hn : (rs.map (·.1)).Nodup) (hp : rs.Perm rs') :
    eval prog (build rs) = eval prog (build rs') := verdict_perm prog rs rs' hn hp

/-- the map's lookup function does not depend on the insertion order -/
theorem C08_lookup_perm {κ ν : Type} [DecidableEq κ] (rs rs' : List (κ × ν)) (hn : (rs.map (·.1)).Nodup) (hp : rs.Perm rs') :
    ∀ k, (build rs).data k = (build rs').data k := (build_lookup_perm rs rs' hn hp).2.2

/-! ### an instance: `falseConstraints` + the counting of `orConstraint` -/
inductive RK | nullable | const | or | typesList | optional | type | min | max
  deriving DecidableEq, Repr

/-- value of a rule as far as these steps look at it: Boolean value / is the type "mixed" -/
structure RV where
  flag : Bool := true
  deriving DecidableEq, Repr

/-- `compile.falseConstraints; compile.orConstraint` (verdict: no "other rules with or" error) -/
def orStep : Prog RK RV :=
  .filter (fun k v => !((k == .nullable || k == .const) && !v.flag)) <|
  .has .or fun hasOr => if !hasOr then .ret true else
  .has .typesList fun hasTypes => if !hasTypes then .ret false else
  .len fun n =>
  .has .optional fun o => .has .nullable fun nl => .get .type fun t =>
    let n := n - 2 - (if o then 1 else 0) - (if nl then 1 else 0) - (if t.isSome then 1 else 0)
    .ret (n == 0 && (match t with | some v => v.flag | none => true))

/-- the pinned-tree witness of F-1, both orders: accepted either way -/
example : eval orStep (build [(.nullable, ⟨false⟩), (.const, ⟨false⟩), (.or, ⟨true⟩), (.typesList, ⟨true⟩)]) = true := by decide
example : eval orStep (build [(.or, ⟨true⟩), (.typesList, ⟨true⟩), (.nullable, ⟨false⟩), (.const, ⟨false⟩)]) = true := by decide
example : eval orStep (build [(.or, ⟨true⟩), (.typesList, ⟨true⟩), (.min, ⟨true⟩)]) = false := by decide

end Props.C08
