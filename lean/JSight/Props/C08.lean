import JSight.RuleOrder
import JSight.Tie.CMap
import JSight.CheckRulesThm
import JSight.CheckRulesTie
import JSight.BridgeCRThm
import JSight.BridgeCR2Short
/-!
# C08 — Check's verdict does not depend on the order of the rules (the part that is a theorem)

`RuleOrder.Prog` is the language of pipelines that look at a node's constraint map only through
`Has`, `Get`, `Len`, `Set`, `Delete`, a key-wise `Filter` and an "every constraint passes" iteration.
`C08_verdict_perm`: the verdict of *every* such pipeline is the same for every ordering of a
duplicate-free rule set (the map is built by `AddConstraint` = `Has` + `Set` in written order, C19
gives the map semantics, `Filter` is the fixed one of F-1).
`Gen.C08_cmap_uses_reviewed` (table regenerated from /repo on every run) shows that the Go
compile / check pipeline stays inside this language.
Exception recorded as known finding K-C08-ref-type-or: `MixedValueNode.AddConstraint` special-cases
`type` and `or` *at insertion time* (its result depends on what is already in the map), so for a
type-reference example node the hypothesis "the map is built by Set" does not hold.
The rule checker itself is inside the model since the extension phase: `CR.checkRules` (`CheckRules.lean`,
tied to the real `Check` by `vh c08-model`) against the statement `CR.specOK` (`CheckRulesSpec.lean`):
`C08_check_iff_partial`, `C08_check_perm` at the end of this file.
-/
namespace Props.C08
open RuleOrder OMap

theorem C08_verdict_perm {κ ν : Type} [DecidableEq κ] (prog : Prog κ ν) (rs rs' : List (κ × ν))
    (hn : (rs.map (·.1)).Nodup) (hp : rs.Perm rs') :
    eval prog (build rs) = eval prog (build rs') := verdict_perm prog rs rs' hn hp

/-- the map's lookup function does not depend on the insertion order -/
theorem C08_lookup_perm {κ ν : Type} [DecidableEq κ] (rs rs' : List (κ × ν)) (hn : (rs.map (·.1)).Nodup) (hp : rs.Perm rs') :
    ∀ k, (build rs).data k = (build rs').data k := (build_lookup_perm rs rs' hn hp).2.2

/-! ### an instance: `falseConstraints` + the counting of `orConstraint` -/
inductive RK | nullable | const | or | typesList | optional | type | min | max
  deriving DecidableEq, Repr

/-- value of a rule as far as these steps look at it: Boolean value / is the type "mixed" -/
structure RV where
  flag : Bool := true
  deriving DecidableEq, Repr

/-- `compile.falseConstraints; compile.orConstraint` (verdict: no "other rules with or" error) -/
def orStep : Prog RK RV :=
  .filter (fun k v => !((k == .nullable || k == .const) && !v.flag)) <|
  .has .or fun hasOr => if !hasOr then .ret true else
  .has .typesList fun hasTypes => if !hasTypes then .ret false else
  .len fun n =>
  .has .optional fun o => .has .nullable fun nl => .get .type fun t =>
    let n := n - 2 - (if o then 1 else 0) - (if nl then 1 else 0) - (if t.isSome then 1 else 0)
    .ret (n == 0 && (match t with | some v => v.flag | none => true))

/-- the pinned-tree witness of F-1, both orders: accepted either way -/
example : eval orStep (build [(.nullable, ⟨false⟩), (.const, ⟨false⟩), (.or, ⟨true⟩), (.typesList, ⟨true⟩)]) = true := by decide
example : eval orStep (build [(.or, ⟨true⟩), (.typesList, ⟨true⟩), (.nullable, ⟨false⟩), (.const, ⟨false⟩)]) = true := by decide
example : eval orStep (build [(.or, ⟨true⟩), (.typesList, ⟨true⟩), (.min, ⟨true⟩)]) = false := by decide

/-! ## The rule checker itself: `Check` on the rules of one annotated node = the statement

`CR.checkRules n` transliterates what `Check` does with the rules of one annotated node `n` (kind of the EXAMPLE,
object property or not, ORDERED list of (rule name, value tree)): rule creation and insertion in the order of the
annotation — `or` members loaded and compiled on the spot —, `compileNode` step by step, `CompileAllOf`, the
compatibility check; it returns the FIRST error code in code order (tie: `vh c08-model`, every ordering of every
generated rule set). `CR.specOK n` is the property text: `Known`, `Once`, `ValuesOK` rule by rule and, on the rule
SET read as a partial function, `Applies`, `PairsOrdered`, `ExclusiveHasBound`, `PrecisionOnlyDecimal`,
`FormatExcludesLengthRegex`, `CombinatorsAlone`, `TypeFits`, `EmptyArrayCounts`, `AllOfNamesSomething`. -/
open CR

/-- Full statement: for every node and every rule list, of any length, values of any size, `or` members included. -/
def C08_check_iff_full : Prop := ∀ n : Node, n.kind.wf = true → isOk (checkRules n) = specOK n

/-- **C08_check_iff** outside the class around known finding K-C08-ref-type-or (`type` rules on a shortcut node:
any on a `@t` node, two or more on an `@a | @b` node — `MixedValueNode.AddConstraint` replaces the type constraint
there instead of rejecting the duplicate): the checker accepts the rules of a node iff they are known, appear
once, have well-formed values, apply to the node's kind and are mutually consistent. -/
theorem C08_check_iff_partial (n : Node) (hwf : n.kind.wf = true) (hK : refTypeClass n = false) :
    isOk (checkRules n) = specOK n := CR.check_iff_partial n hwf hK

/-- the three node families separately (no well-formedness / class hypothesis where none is needed) -/
theorem C08_check_iff_kinded (n : Node) (hk : n.kind.isShortcut = false) : isOk (checkRules n) = specOK n :=
  CR.check_iff_base n hk

/-- **C08_check_perm**: the VERDICT is the same for every ordering of the rules inside the annotation (outside the
same class; the class is closed under reordering). The error CODE may depend on the order: `C08_code_depends_on_order`. -/
theorem C08_check_perm (n : Node) (rs' : List Rule) (hp : n.rules.Perm rs') (hwf : n.kind.wf = true)
    (hK : refTypeClass n = false) :
    isOk (checkRules n) = isOk (checkRules { n with rules := rs' }) := CR.check_perm n rs' hp hwf hK

/-- the specification itself does not see the order (no hypothesis) -/
theorem C08_spec_perm (n : Node) (rs' : List Rule) (hp : n.rules.Perm rs') :
    specOK n = specOK { n with rules := rs' } := CR.specOK_perm n rs' hp

/-- the model's applicability table is the code's (`IsJsonTypeCompatible` executed through the hook, every run) -/
theorem C08_model_compat_is_code : (Gen.compatTable.all fun row =>
    match ctOfString row.1, jtOfString row.2.1 with
    | some k, some t => compat k t == row.2.2
    | _, _ => true) = true := CR.compat_is_table

/-! ### witnesses -/

def bInteger : Bytes := [34, 105, 110, 116, 101, 103, 101, 114, 34]   -- "integer"
def bString : Bytes := [34, 115, 116, 114, 105, 110, 103, 34]         -- "string"
def bRefT : Bytes := [34, 64, 116, 34]                                -- "@t"
def orIntStr : Val := .arr [.lit bInteger, .lit bString]

/-- K-C08-ref-type-or: `@t // {type: "@t", or: ["integer", "string"]}` … -/
def wTypeOr : Node := { kind := NKind.typeRef [64, 116], isProp := false, rules := [(n_type, Val.lit bRefT), (n_or, orIntStr)] }
/-- … and the same rules in the other order -/
def wOrType : Node := { kind := NKind.typeRef [64, 116], isProp := false, rules := [(n_or, orIntStr), (n_type, Val.lit bRefT)] }

def codeOf : Except Code Unit → Option Code
  | .ok _ => none
  | .error c => some c

/-- the model reproduces the known finding: accepted in one order, 501 in the other (replayed on the real library
by `vh c08-model` / `vh c08-rules`, stream `known`) -/
theorem C08_ref_type_or_order : isOk (checkRules wTypeOr) = true ∧ codeOf (checkRules wOrType) = some 501 := by
  decide +kernel

/-- the unrestricted statement is false (on the recorded witness the checker accepts a rule set whose `type` rule
repeats the node's own type reference) -/
theorem C08_check_iff_full_false : ¬ C08_check_iff_full := by
  intro h
  have := h wTypeOr (by decide +kernel)
  revert this
  decide +kernel

/-- a second witness in the same class, on an or-shortcut node: `@a | @b // {type: "mixed", type: "mixed"}` is accepted
although the rule appears twice -/
def wTwiceRules : List Rule := [(n_type, Val.lit q_mixed), (n_type, Val.lit q_mixed)]
def wTwice : Node := { kind := NKind.orShortcut [true, true], isProp := false, rules := wTwiceRules }
theorem C08_once_false_on_orShortcut : isOk (checkRules wTwice) = true ∧ Once wTwice = false := by decide +kernel

/-- the error CODE depends on the order: `5 // {min: "a", foo: 1}` fails with code 0 ("Incorrect number value"),
`5 // {foo: 1, min: "a"}` with 601 (unknown rule) — the verdict is the same -/
def wCodeA : Node := { kind := NKind.integer, isProp := false, rules := [(n_min, Val.lit [34, 97, 34]), ([102, 111, 111], Val.lit [49])] }
def wCodeB : Node := { kind := NKind.integer, isProp := false, rules := [([102, 111, 111], Val.lit [49]), (n_min, Val.lit [34, 97, 34])] }
theorem C08_code_depends_on_order : codeOf (checkRules wCodeA) = some 0 ∧ codeOf (checkRules wCodeB) = some 601 := by
  decide +kernel

/-! ### non-vacuity: concrete nodes that meet the hypotheses, on both sides of the verdict -/

/-- `2.5 // {min: 1, max: 3, exclusiveMaximum: true, precision: 1, type: "decimal", nullable: false}` as an object
property: accepted by the checker and by the statement -/
def wAcceptRules : List Rule :=
  [(n_min, Val.lit [49]), (n_max, Val.lit [51]), (n_exclusiveMaximum, Val.lit t_true), (n_precision, Val.lit [49]),
   (n_type, Val.lit [34, 100, 101, 99, 105, 109, 97, 108, 34]), (n_nullable, Val.lit t_false), (n_optional, Val.lit t_true)]
def wAccept : Node := { kind := NKind.float, isProp := true, rules := wAcceptRules }
example : wAccept.kind.wf = true ∧ refTypeClass wAccept = false ∧ isOk (checkRules wAccept) = true ∧ specOK wAccept = true := by
  decide +kernel

/-- `"a" // {or: [{type: "integer", min: 2, max: 1, exclusiveMinimum: true}, "string"]}` (the shape of the witness of
fix F-25): rejected (618) by the checker and by the statement — through the member rule-set, which the example does
not match -/
def wF25Rules : List Rule :=
  [(n_or, Val.arr [Val.obj [(n_type, Val.lit bInteger), (n_min, Val.lit [50]), (n_max, Val.lit [49]),
                            (n_exclusiveMinimum, Val.lit t_true)], Val.lit bString])]
def wF25 : Node := { kind := NKind.string, isProp := false, rules := wF25Rules }
example : refTypeClass wF25 = false ∧ codeOf (checkRules wF25) = some 618 ∧ specOK wF25 = false := by decide +kernel

/-- `@t // {or: ["integer", "string"], nullable: true}` on a type shortcut: inside the theorem's domain, accepted -/
def wRefOr : Node := { kind := NKind.typeRef [64, 116], isProp := false, rules := [(n_or, orIntStr), (n_nullable, Val.lit t_true)] }
example : refTypeClass wRefOr = false ∧ isOk (checkRules wRefOr) = true ∧ specOK wRefOr = true := by decide +kernel

/-- a permutation instance of `C08_check_perm` -/
example : isOk (checkRules wAccept) = isOk (checkRules { wAccept with rules := wAccept.rules.reverse }) :=
  C08_check_perm wAccept _ (List.reverse_perm _).symm (by decide +kernel) (by decide +kernel)

/-! ### Bridge (A)∩(B): `Compile` (text-level pipeline of C01) and `CR.checkRules` model ONE piece of code

`BridgeCR.crNodeOf` translates (A)'s loaded node (kind, EXAMPLE token, rules with their value TEXT) into (B)'s `CR.Node`;
`BridgeCR.common` is the (decidable, syntactic) class both express; `BridgeCR.aNode` is (A) on one node: constraint
creation (`Compile.createRules`), `Compile.basic` (`compileNode`'s own steps), the kind-compatibility stage of
`Compile.checkNode`. The run-time bridge `vh bridge-models` evaluates `C08_models_agree_full` on every annotated node of
its inputs (no disagreement after three model repairs). -/

open BridgeCR in
/-- the FULL statement (both phases): on every node of the common class (A) never answers `unsupported`, and the two
models give the same verdict and the same first error code.
PROVED below for the annotation-reading phase (`C08_models_agree_creation`) and — second part — for BOTH phases on
every node of the class under two decidable hypotheses that every loader-produced node meets
(`C08_models_agree_partial`); AS STATED it is false on two families of `RNode`s no loader produces
(`C08_models_agree_full_false`, `C08_models_agree_full_false_ref`). Run time: `vh bridge-models`. -/
def C08_models_agree_full : Prop :=
  ∀ (n : Compile.RNode) (isProp : Bool), common n = true →
    isUnsupported (aNode n isProp) = false ∧ codeA (aNode n isProp) = codeB (CR.checkRules (crNodeOf n isProp))

open BridgeCR in
/-- **C08_models_agree_creation** (the annotation-reading phase, every scalar / object / array node of the common
class, any number of rules in any order): `Compile.createRules` (constraint constructors + `AddConstraint`: 601, 604,
605, 103, 0, 501, 810, 902, 903, 904) and (B)'s fold of `CR.loadRule` over the translated rules both accept, or both
reject with the SAME error code; (A) never answers `unsupported`; and when they accept, (B)'s constraint map has a
constraint exactly for the rule names (A) recorded (`Inv`: the common starting point of the two `compileNode` models). -/
theorem C08_models_agree_creation (n : Compile.RNode) (isProp : Bool) (h : common n = true) (hp : plainKind n = true) :
    FoldOK ((n.rules.map (·.name)).reverse) (Compile.createRules n.kind [] n.rules)
      ((crNodeOf n isProp).rules.foldlM
        (CR.loadRule { okRegex := [], enumRules := [] } (crNodeOf n isProp).ctx) (CR.initMap (crNodeOf n isProp).kind)) :=
  creation_agree n isProp h hp

open BridgeCR in
/-- one rule at a time, also on a type-shortcut node (`k = mixed`: the rule is not `type` / `or`): the constructor +
insertion of (A) against `CR.loadRule` of (B) under the invariant -/
theorem C08_models_agree_rule (k : Loader.NK) (c : CR.Ctx) (env : CR.Env) (seen : List (List UInt8)) (m : CR.CMap)
    (r : Compile.Rule) (hI : Inv seen m) (hg : r.gen = false) (hc : ruleCommon r = true)
    (hk : k = Loader.NK.mixed → r.name ≠ CR.n_type ∧ r.name ≠ CR.n_or)
    (hcls : c.cls = .mixedValue → k = Loader.NK.mixed) :
    StepOK seen r.name (Compile.createRule k seen r) (CR.loadRule env c m (ruleOf r)) :=
  step_agree k c env seen m r hI hg hc hk hcls

open BridgeCR in
/-- payoff, conditional on the full statement: on kinded nodes (B)'s SPECIFICATION characterises when (A)'s
creation + compile + compatibility stage succeeds (through `C08_check_iff_kinded`) -/
theorem C08_spec_characterises_compile (hfull : C08_models_agree_full) (n : Compile.RNode) (isProp : Bool)
    (h : common n = true) (hk : (crNodeOf n isProp).kind.isShortcut = false) :
    (codeA (aNode n isProp)).isNone = specOK (crNodeOf n isProp) := by
  rw [← C08_check_iff_kinded _ hk, (hfull n isProp h).2]
  cases checkRules (crNodeOf n isProp) <;> rfl

namespace BridgeEx
open BridgeCR Compile
def r (name : String) (v : String) : Compile.Rule := { name := sb name, gen := false, val := some (sb v), pos := 0, npos := 0 }
/-- `5 // {min: 1, max: 3}` -/
def nOK : RNode := { kind := .lit, children := [], keys := [], value := some (sb "5"), rules := [r "min" "1", r "max" "3"] }
/-- `5 // {max: 5, min: 7}`: 617 in both -/
def n617 : RNode := { nOK with rules := [r "max" "5", r "min" "7"] }
/-- `5 // {minLength: 1}`: 1117 in both (the kind-compatibility stage) -/
def n1117 : RNode := { nOK with rules := [r "minLength" "1"] }
/-- `5 // {min: 1, foo: 2, min: 3}`: 601 in both (before the duplicate) -/
def n601 : RNode := { nOK with rules := [r "min" "1", r "foo" "2", r "min" "3"] }
/-- `{} // {additionalProperties: "comment", nullable: true}` as an object property (the value the bridge repaired (B) for) -/
def nObj : RNode := { kind := .obj, children := [], keys := [], value := none,
                      rules := [r "additionalProperties" "\"comment\"", r "nullable" "true"] }
/-- non-vacuity of `C08_models_agree_full` / `C08_models_agree_creation`: nodes inside the class, on both sides of the verdict -/
example : common nOK = true ∧ plainKind nOK = true ∧ codeA (aNode nOK false) = none ∧ codeB (CR.checkRules (crNodeOf nOK false)) = none := by
  decide +kernel
example : common n617 = true ∧ codeA (aNode n617 false) = some 617 ∧ codeB (CR.checkRules (crNodeOf n617 false)) = some 617 := by
  decide +kernel
example : common n1117 = true ∧ codeA (aNode n1117 false) = some 1117 ∧ codeB (CR.checkRules (crNodeOf n1117 false)) = some 1117 := by
  decide +kernel
example : common n601 = true ∧ plainKind n601 = true ∧ codeA (aNode n601 false) = some 601 ∧ codeB (CR.checkRules (crNodeOf n601 false)) = some 601 := by
  decide +kernel
example : common nObj = true ∧ isUnsupported (aNode nObj true) = false ∧ codeA (aNode nObj true) = none ∧
    codeB (CR.checkRules (crNodeOf nObj true)) = none := by decide +kernel
end BridgeEx


/-! ### Bridge (A)∩(B), second part: the COMPILE phase (`compileNode` + `CompileAllOf` + the checker's kind compatibility)

`BridgeCR2*.lean`: (B)'s constraint map after the annotation is the explicit function `BridgeCR.mapOf` of (A)'s rule
list (`foldB`: values, not only presence); `falseConstraints` is (A)'s filter (`fc_mapOf`); then the stages of
`Compile.basic` (`bEnumPrec`, `bNames`, `bType`, `bAllowed`, `bPairs`, `bMinMax`, `bLens`, `bOptional`, `bFinish`) are
walked against the steps of `CR.compile` one by one (`or_agree`, `enum_agree`, `prec_agree`, `type_agree`, `tail_plain`,
`tail_names`, `tail_any`, `pairNum_agree`, `pairNat_agree`, `compat_agree`), with the same error code at every exit. -/

open BridgeCR in
/-- **C08_models_agree_compile** (both phases, every scalar / object / array node of the common class whose literal
nodes have no children — `leafOK`, true of every node the loader produces): (A)'s per-node compile — constraint
creation, then `Compile.basic` stage by stage, then the kind-compatibility part of `Compile.check` — succeeds iff
`CR.checkRules` succeeds on the translated node, when both fail they fail with the SAME error code (601, 604, 605,
103, 0, 501, 810, 902–904; 1111, 1103, 1108, 1104, 1117, 1102, 1107, 1114, 1113, 1115, 1112, 102, 1105, 1106, 1109,
1110, 618, 617, 1101), and (A) never answers `unsupported`. -/
theorem C08_models_agree_compile (n : Compile.RNode) (isProp : Bool) (h : common n = true) (hp : plainKind n = true)
    (hw : leafOK n = true) :
    isUnsupported (aNode n isProp) = false ∧ codeA (aNode n isProp) = codeB (CR.checkRules (crNodeOf n isProp)) :=
  models_agree_compile n isProp h hp hw

open BridgeCR in
/-- the same with (B)'s side spelled as verdicts: (A) accepts iff (B) accepts -/
theorem C08_models_agree_verdict (n : Compile.RNode) (isProp : Bool) (h : common n = true) (hp : plainKind n = true)
    (hw : leafOK n = true) :
    (codeA (aNode n isProp)).isNone = isOk (CR.checkRules (crNodeOf n isProp)) := by
  rw [(models_agree_compile n isProp h hp hw).2]
  cases CR.checkRules (crNodeOf n isProp) <;> rfl

open BridgeCR in
/-- **the FULL statement of the first part is false** — on an `RNode` no loader produces: a LITERAL node that has a
child, with `type: "any"`. (A) counts `n.children` whatever the kind (1106), (B)'s literal node has no children
(accepted). The node is inside `common` (which does not speak about children); `leafOK` is the missing, decidable,
hypothesis. Not replayable on the library: the loader never gives a literal node children. -/
theorem C08_models_agree_full_false : ¬ C08_models_agree_full := by
  intro hfull
  have h := (hfull wLeaf false wLeaf_facts.1).2
  rw [wLeaf_facts.2.2.1, wLeaf_facts.2.2.2] at h
  exact absurd h (by decide)

open BridgeCR in
/-- **C08_models_agree_partial** = `C08_models_agree_full` with its two explicit decidable hypotheses, EVERY node of
the common class (scalar / object / array nodes AND the type shortcuts `@t`, `@a | @b`): `leafOK` (a literal node has no
children) and `shortOK` (the synthesised rule of a shortcut node has a value, the value of `@t` is a type name) — both
true of every node the loader produces, both needed (`C08_models_agree_full_false`, `C08_models_agree_full_false_ref`). -/
theorem C08_models_agree_partial :
    ∀ (n : Compile.RNode) (isProp : Bool), common n = true → leafOK n = true → shortOK n = true →
      isUnsupported (aNode n isProp) = false ∧ codeA (aNode n isProp) = codeB (CR.checkRules (crNodeOf n isProp)) :=
  fun n isProp h hw hs => models_agree_all n isProp h hw hs

open BridgeCR in
/-- the type-shortcut nodes alone (`@t // {…}`, `@a | @b // {…}`: (B)'s `MixedValueNode`, whose synthesised rule is
(B)'s initial constraint map) -/
theorem C08_models_agree_shortcut (n : Compile.RNode) (isProp : Bool) (h : common n = true)
    (hm : n.kind = Loader.NK.mixed) (hs : shortOK n = true) :
    isUnsupported (aNode n isProp) = false ∧ codeA (aNode n isProp) = codeB (CR.checkRules (crNodeOf n isProp)) :=
  models_agree_short n isProp h hm hs

open BridgeCR in
/-- the second witness against the unrestricted statement: a `@t` node whose synthesised token is `"enum"` -/
theorem C08_models_agree_full_false_ref :
    common wRef = true ∧ leafOK wRef = true ∧ shortOK wRef = false ∧
      codeA (aNode wRef false) ≠ codeB (CR.checkRules (crNodeOf wRef false)) := by
  refine ⟨wRef_facts.1, wRef_facts.2.1, wRef_facts.2.2.1, ?_⟩
  rw [wRef_facts.2.2.2.1, wRef_facts.2.2.2.2]
  decide

open BridgeCR in
/-- a kinded node of the common class is a scalar / object / array node -/
theorem plainKind_of_kinded (n : Compile.RNode) (isProp : Bool) (h : common n = true)
    (hk : (crNodeOf n isProp).kind.isShortcut = false) : plainKind n = true := by
  unfold plainKind
  cases hkind : n.kind <;> try rfl
  exfalso
  simp only [common, Bool.and_eq_true] at h
  obtain ⟨⟨⟨hs, _⟩, _⟩, _⟩ := h
  obtain ⟨nk, hnk⟩ := Option.isSome_iff_exists.1 hs
  have hcr : (crNodeOf n isProp).kind = nk := by unfold crNodeOf; rw [hnk]; rfl
  rw [hcr] at hk
  unfold nkindOf at hnk
  simp only [hkind] at hnk
  cases hr : n.rules with
  | nil => simp [hr] at hnk
  | cons r rest =>
    simp only [hr] at hnk
    split at hnk
    · cases hnk; simp [NKind.isShortcut] at hk
    · split at hnk
      · cases hnk; simp [NKind.isShortcut] at hk
      · cases hnk

open BridgeCR in
/-- **C08_spec_characterises_compile, unconditional**: on kinded nodes of the common class (B)'s SPECIFICATION
characterises when (A)'s creation + compile + compatibility stage succeeds — `C08_models_agree_compile` through
`C08_check_iff_kinded`; no hypothesis about the other model is left (only `leafOK`, see `C08_models_agree_full_false`) -/
theorem C08_spec_characterises_compile_proved (n : Compile.RNode) (isProp : Bool)
    (h : common n = true) (hw : leafOK n = true) (hk : (crNodeOf n isProp).kind.isShortcut = false) :
    (codeA (aNode n isProp)).isNone = specOK (crNodeOf n isProp) := by
  rw [← C08_check_iff_kinded _ hk, (models_agree_compile n isProp h (plainKind_of_kinded n isProp h hk) hw).2]
  cases checkRules (crNodeOf n isProp) <;> rfl

namespace BridgeEx
open BridgeCR Compile
/-- `"a" // {or: ["@x", "@y"], optional: true}` outside an object: 1101 in both (through the `or` branch) -/
def nOr : RNode := { kind := .lit, children := [], keys := [], value := some (sb "\"a\""),
                     rules := [r "or" "[\"@x\", \"@y\"]", r "optional" "true"] }
/-- `5 // {type: "integer", min: 2, max: 1, exclusiveMaximum: true}`: 618 in both -/
def n618 : RNode := { kind := .lit, children := [], keys := [], value := some (sb "5"),
                      rules := [r "type" "\"integer\"", r "min" "2", r "max" "1", r "exclusiveMaximum" "true"] }
/-- `"x" // {type: "uuid", nullable: false, const: true}`: accepted by both -/
def nUuid : RNode := { kind := .lit, children := [], keys := [], value := some (sb "\"x\""),
                       rules := [r "type" "\"uuid\"", r "nullable" "false", r "const" "true"] }
/-- non-vacuity of `C08_models_agree_compile` / `_partial` / `C08_spec_characterises_compile_proved`: nodes meeting
all hypotheses, on both sides of the verdict, through the `or`, the pair and the format branches -/
example : common nOK = true ∧ plainKind nOK = true ∧ leafOK nOK = true ∧ (crNodeOf nOK false).kind.isShortcut = false := by
  decide +kernel
example : common nOr = true ∧ plainKind nOr = true ∧ leafOK nOr = true ∧ codeA (aNode nOr false) = some 1101 ∧
    codeB (CR.checkRules (crNodeOf nOr false)) = some 1101 ∧ codeA (aNode nOr true) = none := by decide +kernel
example : common n618 = true ∧ plainKind n618 = true ∧ leafOK n618 = true ∧ codeA (aNode n618 false) = some 618 ∧
    codeB (CR.checkRules (crNodeOf n618 false)) = some 618 := by decide +kernel
example : common nUuid = true ∧ plainKind nUuid = true ∧ leafOK nUuid = true ∧ codeA (aNode nUuid false) = none ∧
    codeB (CR.checkRules (crNodeOf nUuid false)) = none := by decide +kernel
example : common nObj = true ∧ plainKind nObj = true ∧ leafOK nObj = true := by decide +kernel
/-- `@t // {optional: true, min: 1}`: 1102 in both; `@a | @b // {nullable: true}` as a property: accepted by both -/
def nRef : RNode := { kind := .mixed, children := [], keys := [], value := none,
                      rules := [{ name := sb "type", gen := true, val := some (sb "@t"), pos := 0, npos := 0 },
                                r "optional" "true", r "min" "1"] }
def nOrS : RNode := { kind := .mixed, children := [], keys := [], value := none,
                      rules := [{ name := sb "or", gen := true, val := some (sb "@a | @b"), pos := 0, npos := 0 },
                                r "nullable" "true"] }
example : common nRef = true ∧ leafOK nRef = true ∧ shortOK nRef = true ∧ nRef.kind = Loader.NK.mixed ∧
    codeA (aNode nRef true) = some 1102 ∧ codeB (CR.checkRules (crNodeOf nRef true)) = some 1102 := by decide +kernel
example : common nOrS = true ∧ leafOK nOrS = true ∧ shortOK nOrS = true ∧ nOrS.kind = Loader.NK.mixed ∧
    codeA (aNode nOrS true) = none ∧ codeB (CR.checkRules (crNodeOf nOrS true)) = none := by decide +kernel
example : shortOK nOK = true ∧ shortOK n618 = true ∧ shortOK nOr = true := by decide +kernel
/-- the instance of the theorem on one of them -/
example : codeA (aNode n618 false) = codeB (CR.checkRules (crNodeOf n618 false)) :=
  (C08_models_agree_compile n618 false (by decide +kernel) (by decide +kernel) (by decide +kernel)).2
end BridgeEx

end Props.C08
