import JSight.NoCrash
import JSight.RenderProofs
import JSight.EnumNoCrash
import JSight.SchemaNoCrash
import JSight.DocCorollaries
/-!
# C07 — no panics: the parts that are theorems

* `C07_json_no_crash`: in the JSON scanner model every Go runtime-panic site is an explicit `.crash`
  outcome ("Reading from empty stack", "Incorrect ending of the lexical event", index out of range);
  for every byte string and both modes the model never reaches one: every error is the structured
  "invalid character" / "unexpected end of file" / "empty JSON" error.
* `C07_enum_no_crash`, `C07_enum_len_no_crash`: the same for the enum-rule scanner model (`rules/enum/scanner.go`:
  `Next` over the whole text, and `Length`): for every byte string no "Reading from empty stack", no "incorrect
  ending of the lexical event", and the fuel parameters that make the model total never run out — every error
  is one of the structured ones (array expected, invalid character, duplicate value, unexpected end of file).
  Invariant: the queued finds replay against the lexeme stack and what is left has the shape fixed by the step
  function and the return stack.
* `C07_schema_no_crash`, `C07_schema_len_no_crash`: the same for the JSight schema scanner model
  (`notations/jschema/internal/scanner`, ≈60 states, three stacks: return steps, lexeme stack, contexts): for
  every byte string no "Reading from empty stack (…)", no "Incorrect ending of the lexical event", no
  "Unexpected context" / "Incorrect annotation begin in stack", and no fuel exhaustion. The invariant is a
  recursive grammar of (step, effective lexeme stack, return stack) — annotations nest to any depth because a
  `#` comment inside an inline annotation resets the annotation flag.
* `C07_render_total`: producing the `Error()` text never indexes outside the content.
* template / argument agreement at every error construction site: `JSight.Tie.Errors` over the table
  regenerated from /repo's source on every run.
* the panic / recover discipline above the scanners (static half of part 4): `JSight.Tie.Panics` over
  `JSight.Generated.PanicFacts`, regenerated from /repo's source on every run by `vh tgen-panics` - every public
  entry is guarded or reviewed, every panic value is an error or a reviewed invariant, no handler swallows, the
  boundary handlers return errors and re-panic non-errors, every non-error panic site is unreachable unconverted
  or reviewed with dynamic evidence.
The behaviour of the API surface above the scanners is explored, not proved (harness `api-fuzz`, `c07-entries`).
-/
namespace Props.C07
open JsonScan

theorem C07_json_no_crash (allow : Bool) (bs : List UInt8) :
    ∀ e, run allow Cfg.init (bs.map classify) = .error e → Sim.Err.isCrash e = false :=
  Sim.C07_json_no_crash allow bs

theorem C07_enum_no_crash (bs : List UInt8) : ∀ e, EnumScan.scanAll bs = .error e → EnumScan.Err.isCrash e = false :=
  EnumScan.scanAll_no_crash bs

theorem C07_enum_len_no_crash (bs : List UInt8) : ∀ e, EnumScan.length bs = .error e → EnumScan.Err.isCrash e = false :=
  EnumScan.length_no_crash bs

theorem C07_schema_no_crash (bs : List UInt8) :
    ∀ e, SchemaScan.scanAll bs = .error e → SchemaScan.Err.isCrash e = false := SchemaScan.scanAll_no_crash bs

theorem C07_schema_len_no_crash (bs : List UInt8) :
    ∀ e, SchemaScan.length bs = .error e → SchemaScan.Err.isCrash e = false := SchemaScan.length_no_crash bs

theorem C07_render_total (content : Array UInt8) (idx : Nat) (h : idx < content.size) :
    (Render.render content idx).isSome = true := Render.render_total content idx h

end Props.C07

/-! ## The json `Document` object never panics (carry-over of `C07_json_no_crash` through the C11 bridge) -/
namespace Props.C07
section document
open DocCursor

/-- for every byte string, both values of the option and EVERY history over {`NextLexeme`, `Check`, `Len`}, no call of the
`Document` model ends in a non-error panic: no output of the history is `.next (.crash w)`, `.check (.crash w)` or
`.len (.crash w)` (the fuel of the model's loops included: `"fuel"` is one of the `w`). From
`C11_doc_next_never_panics` (`lexAt_never_crash`) and `C11_doc_check_len_never_panic`; what the once cells keep is never a
panic either. -/
theorem C07_document_never_panics (t : List UInt8) (o : Bool) (ops : List Op) :
    ∀ out ∈ ((Doc.new t o).run ops).1, ∀ w : String,
      out ≠ .next (.crash w) ∧ out ≠ .check (.crash w) ∧ out ≠ .len (.crash w) :=
  DocCorollaries.outs_never_panic t o ops

/-- non-vacuity: `{x}` (error inside), a history with every call kind, seven outputs, none a panic -/
example : ((Doc.new [123, 120, 125] false).run [.next, .next, .next, .len, .next, .check, .next]).1.length = 7 ∧
    (((Doc.new [123, 120, 125] false).run [.next, .next, .next, .len, .next, .check, .next]).1.map
      DocCorollaries.outIsCrash).all (· == false) = true := by decide

end document
end Props.C07

#print axioms Props.C07.C07_document_never_panics
