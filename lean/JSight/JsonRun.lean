import JSight.JsonScan
/-! JSON scanner with spans: `Next()`, `Document.Check`, `Length()` (F-2, F-4 applied). -/
namespace JsonScan

structure Ev where
  ty : LexT
  b : Nat
  e : Nat
  deriving DecidableEq, Repr

structure CfgS where
  st : St := .foundRoot
  stack : List (LexT × Nat) := []
  unf : Bool := false
  deriving Repr

inductive ErrS
  | invalidChar (idx : Nat)
  | unexpectedEOF (idx : Nat)
  | emptyJson
  | crash (why : String)
  deriving DecidableEq, Repr

/-- processingFoundLexeme for all finds of one byte at index `i`; `none` = EndTop reached (stream ends) -/
def applyFindsS (i : Nat) : List (LexT × Nat) → List LexT → List Ev → Except ErrS (List (LexT × Nat) × List Ev × Bool)
  | stack, [], acc => .ok (stack, acc.reverse, false)
  | stack, f :: fs, acc =>
    if f == .endTop then .ok (stack, (⟨.endTop, i, i⟩ :: acc).reverse, true)
    else if f.isOpening then applyFindsS i ((f, i) :: stack) fs (⟨f, i, i⟩ :: acc)
    else match stack with
      | [] => .error (.crash "Reading from empty stack")
      | (p, b) :: rest =>
        if (p == .objB && f == .objE) || (p == .arrB && f == .arrE) then applyFindsS i rest fs (⟨f, b, i⟩ :: acc)
        else if pairs p f then applyFindsS i rest fs (⟨f, b, i - 1⟩ :: acc)
        else .error (.crash "Incorrect ending of the lexical event")

/-- all events of a document, as `NextLexeme` delivers them (EndTop included as last event) -/
def eventsLoop (allowTrailing : Bool) (n : Nat) : List Cls → Nat → CfgS → List Ev → Except ErrS (List Ev)
  | [], _, cfg, acc =>
    -- end of input rule
    match cfg.stack with
    | [] => .ok acc
    | [(.litB, b)] => if cfg.unf then .error (.unexpectedEOF (n - 1)) else .ok (acc ++ [⟨.litE, b, n - 1⟩])
    | _ => .error (.unexpectedEOF (n - 1))
  | c :: cs, i, cfg, acc =>
    match step allowTrailing cfg.st (cfg.stack.map (·.1)) cfg.unf c with
    | .error _ => .error (.invalidChar i)
    | .ok (st', unf', finds) =>
      match applyFindsS i cfg.stack finds [] with
      | .error e => .error e
      | .ok (stack', evs, stop) =>
        if stop then .ok (acc ++ evs)
        else eventsLoop allowTrailing n cs (i + 1) { st := st', stack := stack', unf := unf' } (acc ++ evs)

def events (allowTrailing : Bool) (bs : List UInt8) : Except ErrS (List Ev) :=
  eventsLoop allowTrailing bs.length (bs.map classify) 0 {} []

/-- `Document.Check` -/
def checkS (allowTrailing : Bool) (bs : List UInt8) : Except ErrS Unit :=
  match events allowTrailing bs with
  | .error e => .error e
  | .ok evs => if (evs.filter (·.ty != .endTop)).isEmpty then .error .emptyJson else .ok ()

def isBlankB (c : UInt8) : Bool := c == 32 || c == 9 || c == 10 || c == 13

def trimBlank (bs : Array UInt8) : Nat → Nat
  | 0 => 0
  | n + 1 => if (bs[n]?.map isBlankB) == some true then trimBlank bs n else n + 1

/-- `Length()` (documents are created with AllowTrailingNonSpaceCharacters when Len is used on embedded text) -/
def lengthS (allowTrailing : Bool) (bs : List UInt8) : Except ErrS Nat :=
  match events allowTrailing bs with
  | .error e => .error e
  | .ok evs =>
    let len := evs.foldl (fun _ e => if e.ty == .endTop then e.e else e.e + 1) 0
    .ok (trimBlank bs.toArray len)

def LexT.name : LexT → String
  | .litB => "literal-begin" | .litE => "literal-end" | .objB => "object-begin" | .objE => "object-end"
  | .keyB => "key-begin" | .keyE => "key-end" | .valB => "value-begin" | .valE => "value-end"
  | .arrB => "array-begin" | .arrE => "array-end" | .itemB => "item-begin" | .itemE => "item-end" | .endTop => "end-top"

def showErrS : ErrS → String
  | .invalidChar i => s!"ERR 301 {i}"
  | .unexpectedEOF i => s!"ERR 303 {i}"
  | .emptyJson => "ERR 203 0"
  | .crash w => s!"CRASH {w}"

end JsonScan
