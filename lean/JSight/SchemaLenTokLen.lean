import JSight.SchemaLenTokEvs
/-!
C14: `Len` of a schema given as a token list (plain-JSON value with blanks, line breaks, `#` comments and inline
annotations wherever the token-level scanner `trun` accepts them) that is followed by a foreign byte.
-/
namespace SchemaScan
namespace Len

variable {data : Array Cls}

theorem d_endTop_foreign (f : Nat) (x : Cls) (hx : x.isForeign = true) (xs : St)
    (i : Nat) (CS : List Ctx) (cx : Ctx) (al : Bool) (fs : List LexT) (p1 p2 : Option Cls) :
    dispatch (f + 1) .endTop { cfgL true xs [] [] false i CS cx al with finds := fs } x p1 p2
      = .ok { cfgL true xs [] [] false i CS cx al with finds := fs ++ [.endTop] } := by
  cases x <;> simp [Cls.isForeign] at hx <;> (unfold dispatch; rfl)

theorem foreign_ne_slash {x : Cls} (hx : x.isForeign = true) : x ≠ .slash := by
  intro e; subst e; cases hx

/-- a foreign byte at the place behind the complete schema (also behind an annotation with a note) -/
theorem foreign_at_top (g : Bool) {x : Cls} (hx : x.isForeign = true) (j : Nat) (CS : List Ctx) (cx : Ctx) (al : Bool)
    (len : Nat) (hc : data[j]? = some x) :
    LenRun data (cfgL true (gst g .endTop) [] [] false j CS cx al) len j 1 := by
  have hn : NextOk data { cfgL true (gst g .endTop) [] [] false (j + 1) CS cx al with finds := [.endTop] }
      (some (cfgL true (gst g .endTop) [] [] false (j + 1) CS cx al, ⟨.endTop, j, j⟩)) := nextOk_shift rfl rfl
  have r : LenRun data { cfgL true (gst g .endTop) [] [] false (j + 1) CS cx al with finds := [.endTop] } len j 1 :=
    LenRun.top hn rfl
  exact r.lift (nextOk_read (s := cfgL true (gst g .endTop) [] [] false j CS cx al) rfl hc
    (gdispatch g .endTop _ _ x (foreign_ne_slash hx) _ _
      (fun f => d_endTop_foreign f x hx _ (j + 1) CS cx al [] _ _)) rfl)

/-! ### the length without trailing blanks -/

/-- the length of a text without its trailing blanks (spaces, tabs, line breaks) -/
def rtrimLen (l : List Cls) : Nat := trimBlank l.toArray l.length

theorem trimBlank_prefix (l tl : List Cls) : ∀ n, n ≤ l.length →
    trimBlank (l ++ tl).toArray n = trimBlank l.toArray n
  | 0, _ => rfl
  | n + 1, h => by
    have e : (l ++ tl).toArray[n]? = l.toArray[n]? := by
      simp only [List.getElem?_toArray]
      exact List.getElem?_append_left (by omega)
    rw [trimBlank, trimBlank, e, trimBlank_prefix l tl n (by omega)]

theorem rtrimLen_snoc (pre : List Cls) (d : Cls) (w : List Cls) (hd : d.isBlank = false) (hw : IsWs w) :
    rtrimLen (pre ++ [d] ++ w) = pre.length + 1 := by
  unfold rtrimLen
  have hat : At ((pre ++ [d]) ++ w).toArray 0 ((pre ++ [d]) ++ w) := At_toArray _ [] _ rfl
  have := trimBlank_after (data := ((pre ++ [d]) ++ w).toArray) w hw pre d hd 0 hat ((pre ++ [d]) ++ w).length
    (by simp) (by simp only [List.length_append, List.length_cons, List.length_nil]; omega)
  simpa using this

/-- when the scan may stop behind the last token, given the byte that follows -/
def EndsAt (c : TC) (x : Cls) : Prop :=
  (c.st = .endTop ∧ c.K = []) ∨
  (PV c.st = true ∧ c.g = false ∧ (c.K = [] ∨ ∃ b, c.K = [(.litB, b)]) ∧ adjOk c.st x = true)

/-- **schema as a token list, embedded, on byte classes** -/
theorem lenRun_toks_embedded (toks : List Tok) (hw : ∀ t ∈ toks, t.WF) (c' : TC) (evs : List Ev)
    (h : trun TC.init toks = some (c', evs)) (x : Cls) (rest : List Cls) (hx : x.isForeign = true) (hend : EndsAt c' x)
    (hat : At data 0 (renderToks toks ++ x :: rest)) (hsize : data.size = (renderToks toks).length + 1 + rest.length) :
    ∃ k, LenRun data { lengthComputing := true } 0 (renderToks toks).length k ∧ k ≤ 8 * data.size + 16 := by
  rw [At_append] at hat
  obtain ⟨hat0, hatx⟩ := hat
  simp only [Nat.zero_add] at hatx
  have P := sim_run (lc := true) toks TC.init c' evs h hw hat0
  rw [TC.init_sc] at P
  have hi := trun_index toks TC.init c' evs h
  have hi' : c'.i = (renderToks toks).length := by rw [hi]; simp [TC.init]
  obtain ⟨hnt, hlen⟩ := trun_evs toks TC.init c' evs h hw
  obtain ⟨st, g, K, i, CS, cx, al⟩ := c'
  simp only at hi' hend
  subst hi'
  rcases hend with ⟨rfl, rfl⟩ | ⟨hpv, rfl, hK, hadj⟩
  · have r := foreign_at_top g hx (renderToks toks).length CS cx al (lenAfter data evs 0) hatx.1
    exact ⟨_, P.lenRun hnt 0 _ 1 r, by omega⟩
  · rcases hK with rfl | ⟨b, rfl⟩
    · have r := foreign_glued_container hpv hx hadj (renderToks toks).length CS cx al (lenAfter data evs 0) hatx.1
      exact ⟨_, P.lenRun hnt 0 _ 1 r, by omega⟩
    · have hpos : 1 ≤ (renderToks toks).length := by
        cases hl : (renderToks toks).length with
        | zero =>
          -- nothing was read: the state would be the initial one, which is not behind a value
          exfalso
          have hnil : renderToks toks = [] := List.eq_nil_of_length_eq_zero hl
          cases toks with
          | nil => simp [trun, TC.init] at h
          | cons t ts =>
            have : t.render = [] := by
              simp only [renderToks] at hnil
              exact (List.append_eq_nil_iff.mp hnil).1
            have hwt := hw t (by simp)
            cases t <;> simp [Tok.render] at this
            · subst this; obtain ⟨c0, tl, _, _, _, he, _⟩ := hwt; cases he
            · subst this; obtain ⟨tl, he, _⟩ := hwt; cases he
        | succ n => omega
      obtain ⟨k, hk, r⟩ := foreign_glued_scalar hpv hx hadj b (renderToks toks).length CS cx al
        (lenAfter data evs 0) hpos hatx.1
      exact ⟨_, P.lenRun hnt 0 _ k r, by omega⟩

end Len

open Len in
/-- **C14 (schema scanner), schema with inline annotations and user comments, embedded**: the input is the text of a
token list that the token-level scanner accepts from the initial state (`trun TC.init toks`), ending behind the
complete top-level value (`EndsAt`), followed by a foreign byte `x` and anything. `Len` is the length of the schema
text without its trailing blanks. -/
theorem C14_schema_len_tokens (toks : List Tok) (hw : ∀ t ∈ toks, t.WF) (c' : TC) (evs : List Ev)
    (h : trun TC.init toks = some (c', evs)) (x : Cls) (rest : List Cls) (hx : x.isForeign = true) (hend : EndsAt c' x)
    (bs : List UInt8) (hbs : bs.map classify = renderToks toks ++ x :: rest) :
    length bs = .ok (rtrimLen (renderToks toks)) := by
  have hat : At (bs.map classify).toArray 0 (renderToks toks ++ x :: rest) := At_toArray _ [] _ hbs
  have hsize : (bs.map classify).toArray.size = (renderToks toks).length + 1 + rest.length := by
    rw [hbs]; simp only [List.size_toArray, List.length_append, List.length_cons]; omega
  obtain ⟨k, hrun, hk⟩ := lenRun_toks_embedded toks hw c' evs h x rest hx hend hat hsize
  rw [length_of_lenRun bs _ k hrun hk, hbs]
  unfold rtrimLen
  rw [trimBlank_prefix _ _ _ (Nat.le_refl _)]

#print axioms C14_schema_len_tokens

end SchemaScan
