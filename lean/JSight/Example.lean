import JSight.TreeEvents
/-!
C15 prototype (well-formedness half): the example builder of `example.go` (with F-5: separator before every emitted
child after the first, keys written as source tokens) emits the rendering of a JSON tree; hence the scanner accepts it.
Plain keys only; key shortcuts are left to the build phase.
-/
namespace EX
open JsonScan

inductive N
  | lit (tok : List Cls)                         -- the example token of a literal node
  | arr (items : List N)
  | obj (props : List (List Cls × N))            -- key source token (with quotes), value
  | ref (first : String)                         -- a type reference: only `tt[0]` is used

abbrev Types := List (String × N)
def lookupT (ts : Types) (n : String) : Option N := (ts.find? (·.1 == n)).map (·.2)
def bump (proc : String → Nat) (n : String) : String → Nat := fun m => if m == n then proc m + 1 else proc m

def joinC : List (List Cls) → List Cls
  | [] => []
  | x :: rest => x ++ ((if rest.isEmpty then [] else [.comma]) ++ joinC rest)

-- `none` = error (unknown type / out of fuel); `some none` = the child is omitted (recursion cut-off)
mutual
def build (ts : Types) : Nat → (String → Nat) → N → Option (Option (List Cls))
  | _, _, .lit tok => some (some tok)
  | fuel, proc, .arr items =>
    match buildKids ts fuel proc items with
    | some parts => some (some (.lbrack :: (joinC parts ++ [.rbrack])))
    | none => none
  | fuel, proc, .obj props =>
    match buildProps ts fuel proc props with
    | some parts => some (some (.lbrace :: (joinC parts ++ [.rbrace])))
    | none => none
  | 0, _, .ref _ => none
  | fuel + 1, proc, .ref n =>
    if proc n > 1 then some none
    else match lookupT ts n with
      | some t => build ts fuel (bump proc n) t
      | none => none
termination_by fuel _ n => (fuel, sizeOf n)
def buildKids (ts : Types) : Nat → (String → Nat) → List N → Option (List (List Cls))
  | _, _, [] => some []
  | fuel, proc, c :: cs =>
    match build ts fuel proc c, buildKids ts fuel proc cs with
    | some (some ex), some rest => some (ex :: rest)
    | some none, some rest => some rest
    | _, _ => none
termination_by fuel _ cs => (fuel, sizeOf cs)
def buildProps (ts : Types) : Nat → (String → Nat) → List (List Cls × N) → Option (List (List Cls))
  | _, _, [] => some []
  | fuel, proc, (k, c) :: ps =>
    match build ts fuel proc c, buildProps ts fuel proc ps with
    | some (some ex), some rest => some ((k ++ .colon :: ex) :: rest)
    | some none, some rest => some rest
    | _, _ => none
termination_by fuel _ ps => (fuel, sizeOf ps)
end

/-! the same recursion producing trees (compact layout) -/
mutual
def tree (ts : Types) : Nat → (String → Nat) → N → Option (Option JA)
  | _, _, .lit tok => some (some (.scalar tok))
  | fuel, proc, .arr items =>
    match treeKids ts fuel proc items with
    | some vs => some (some (.arr [] (vs.map fun v => ([], v, []))))
    | none => none
  | fuel, proc, .obj props =>
    match treeProps ts fuel proc props with
    | some ms => some (some (.obj [] (ms.map fun m => ([], m.1, [], [], m.2, []))))
    | none => none
  | 0, _, .ref _ => none
  | fuel + 1, proc, .ref n =>
    if proc n > 1 then some none
    else match lookupT ts n with
      | some t => tree ts fuel (bump proc n) t
      | none => none
termination_by fuel _ n => (fuel, sizeOf n)
def treeKids (ts : Types) : Nat → (String → Nat) → List N → Option (List JA)
  | _, _, [] => some []
  | fuel, proc, c :: cs =>
    match tree ts fuel proc c, treeKids ts fuel proc cs with
    | some (some v), some rest => some (v :: rest)
    | some none, some rest => some rest
    | _, _ => none
termination_by fuel _ cs => (fuel, sizeOf cs)
def treeProps (ts : Types) : Nat → (String → Nat) → List (List Cls × N) → Option (List (List Cls × JA))
  | _, _, [] => some []
  | fuel, proc, (k, c) :: ps =>
    match tree ts fuel proc c, treeProps ts fuel proc ps with
    | some (some v), some rest => some ((k, v) :: rest)
    | some none, some rest => some rest
    | _, _ => none
termination_by fuel _ ps => (fuel, sizeOf ps)
end

/-! ### compact layout -/

theorem renderItems_compact (vs : List JA) :
    renderItems (vs.map fun v => (([] : List Cls), v, ([] : List Cls))) = joinC (vs.map JA.render) ++ [.rbrack] := by
  induction vs with
  | nil => rfl
  | cons v vs ih =>
    simp only [List.map_cons, renderItems, joinC, List.nil_append, ih, List.append_assoc, List.isEmpty_map]

theorem renderMembers_compact (ms : List (List Cls × JA)) :
    renderMembers (ms.map fun m => (([] : List Cls), m.1, ([] : List Cls), ([] : List Cls), m.2, ([] : List Cls)))
      = joinC (ms.map fun m => m.1 ++ .colon :: m.2.render) ++ [.rbrace] := by
  induction ms with
  | nil => rfl
  | cons m ms ih =>
    simp only [List.map_cons, renderMembers, joinC, List.nil_append, ih, List.append_assoc, List.isEmpty_map,
      List.cons_append]

/-! ### the builder emits the rendering of the tree -/

mutual
theorem build_eq (ts : Types) : (fuel : Nat) → (proc : String → Nat) → (n : N) →
    build ts fuel proc n = (tree ts fuel proc n).map (Option.map JA.render)
  | fuel, proc, .lit tok => by simp [build, tree, JA.render]
  | fuel, proc, .arr items => by
    have ih := buildKids_eq ts fuel proc items
    simp only [build, tree, ih]
    cases treeKids ts fuel proc items with
    | none => rfl
    | some vs => simp [JA.render, renderItems_compact]
  | fuel, proc, .obj props => by
    have ih := buildProps_eq ts fuel proc props
    simp only [build, tree, ih]
    cases treeProps ts fuel proc props with
    | none => rfl
    | some ms => simp [JA.render, renderMembers_compact]
  | 0, proc, .ref n => by simp [build, tree]
  | fuel + 1, proc, .ref n => by
    simp only [build, tree]
    split
    · rfl
    · cases h : lookupT ts n with
      | none => rfl
      | some t => exact build_eq ts fuel (bump proc n) t
termination_by fuel _ n => (fuel, sizeOf n)
theorem buildKids_eq (ts : Types) : (fuel : Nat) → (proc : String → Nat) → (cs : List N) →
    buildKids ts fuel proc cs = (treeKids ts fuel proc cs).map (List.map JA.render)
  | fuel, proc, [] => by simp [buildKids, treeKids]
  | fuel, proc, c :: cs => by
    have h1 := build_eq ts fuel proc c
    have h2 := buildKids_eq ts fuel proc cs
    simp only [buildKids, treeKids, h1, h2]
    cases tree ts fuel proc c with
    | none => rfl
    | some o =>
      cases o <;> cases treeKids ts fuel proc cs <;> simp
termination_by fuel _ cs => (fuel, sizeOf cs)
theorem buildProps_eq (ts : Types) : (fuel : Nat) → (proc : String → Nat) → (ps : List (List Cls × N)) →
    buildProps ts fuel proc ps = (treeProps ts fuel proc ps).map (List.map fun m => m.1 ++ .colon :: m.2.render)
  | fuel, proc, [] => by simp [buildProps, treeProps]
  | fuel, proc, (k, c) :: ps => by
    have h1 := build_eq ts fuel proc c
    have h2 := buildProps_eq ts fuel proc ps
    simp only [buildProps, treeProps, h1, h2]
    cases tree ts fuel proc c with
    | none => rfl
    | some o =>
      cases o <;> cases treeProps ts fuel proc ps <;> simp
termination_by fuel _ ps => (fuel, sizeOf ps)
end

/-! ### the tree is a valid JSON tree when the schema's own tokens are -/

mutual
def WFN : N → Prop
  | .lit tok => IsScalar tok
  | .arr items => WFKids items
  | .obj props => WFProps props
  | .ref _ => True
def WFKids : List N → Prop
  | [] => True
  | c :: cs => WFN c ∧ WFKids cs
def WFProps : List (List Cls × N) → Prop
  | [] => True
  | (k, c) :: ps => IsKey k ∧ WFN c ∧ WFProps ps
end

def WFTypes (ts : Types) : Prop := ∀ n t, lookupT ts n = some t → WFN t

theorem isWs_nil : IsWs [] := fun _ h => by simp at h

theorem validItems_compact (vs : List JA) (h : ∀ v ∈ vs, v.Valid) :
    ValidItems (vs.map fun v => (([] : List Cls), v, ([] : List Cls))) := by
  induction vs with
  | nil => simp [ValidItems]
  | cons v vs ih =>
    simp only [List.map_cons, ValidItems]
    exact ⟨isWs_nil, h v (by simp), isWs_nil, ih (fun x hx => h x (by simp [hx]))⟩

theorem validMembers_compact (ms : List (List Cls × JA)) (h : ∀ m ∈ ms, IsKey m.1 ∧ m.2.Valid) :
    ValidMembers (ms.map fun m => (([] : List Cls), m.1, ([] : List Cls), ([] : List Cls), m.2, ([] : List Cls))) := by
  induction ms with
  | nil => simp [ValidMembers]
  | cons m ms ih =>
    simp only [List.map_cons, ValidMembers]
    exact ⟨isWs_nil, (h m (by simp)).1, isWs_nil, isWs_nil, (h m (by simp)).2, isWs_nil,
      ih (fun x hx => h x (by simp [hx]))⟩

mutual
theorem tree_valid (ts : Types) (hts : WFTypes ts) : (fuel : Nat) → (proc : String → Nat) → (n : N) → WFN n →
    ∀ v, tree ts fuel proc n = some (some v) → v.Valid
  | fuel, proc, .lit tok, hw => by
    intro v h; simp [tree] at h; subst h; simpa [JA.Valid, WFN] using hw
  | fuel, proc, .arr items, hw => by
    intro v h
    simp only [tree] at h
    cases hk : treeKids ts fuel proc items with
    | none => rw [hk] at h; simp at h
    | some vs =>
      rw [hk] at h; simp at h; subst h
      have := treeKids_valid ts hts fuel proc items (by simpa [WFN] using hw) vs hk
      simp only [JA.Valid]
      exact ⟨isWs_nil, validItems_compact vs this⟩
  | fuel, proc, .obj props, hw => by
    intro v h
    simp only [tree] at h
    cases hk : treeProps ts fuel proc props with
    | none => rw [hk] at h; simp at h
    | some ms =>
      rw [hk] at h; simp at h; subst h
      have := treeProps_valid ts hts fuel proc props (by simpa [WFN] using hw) ms hk
      simp only [JA.Valid]
      exact ⟨isWs_nil, validMembers_compact ms this⟩
  | 0, proc, .ref n, _ => by intro v h; simp [tree] at h
  | fuel + 1, proc, .ref n, _ => by
    intro v h
    simp only [tree] at h
    split at h
    · simp at h
    · cases hl : lookupT ts n with
      | none => rw [hl] at h; simp at h
      | some t =>
        rw [hl] at h
        exact tree_valid ts hts fuel (bump proc n) t (hts n t hl) v h
termination_by fuel _ n _ => (fuel, sizeOf n)
theorem treeKids_valid (ts : Types) (hts : WFTypes ts) : (fuel : Nat) → (proc : String → Nat) → (cs : List N) →
    WFKids cs → ∀ vs, treeKids ts fuel proc cs = some vs → ∀ v ∈ vs, v.Valid
  | fuel, proc, [], _ => by intro vs h; simp [treeKids] at h; subst h; simp
  | fuel, proc, c :: cs, hw => by
    intro vs h
    obtain ⟨hc, hcs⟩ : WFN c ∧ WFKids cs := by simpa [WFKids] using hw
    simp only [treeKids] at h
    cases h1 : tree ts fuel proc c with
    | none => rw [h1] at h; simp at h
    | some o =>
      cases h2 : treeKids ts fuel proc cs with
      | none => rw [h1, h2] at h; cases o <;> simp at h
      | some rest =>
        have ih := treeKids_valid ts hts fuel proc cs hcs rest h2
        rw [h1, h2] at h
        cases o with
        | none => simp at h; subst h; exact ih
        | some v0 =>
          simp at h; subst h
          intro v hv
          rcases List.mem_cons.1 hv with rfl | hv
          · exact tree_valid ts hts fuel proc c hc _ h1
          · exact ih v hv
termination_by fuel _ cs _ => (fuel, sizeOf cs)
theorem treeProps_valid (ts : Types) (hts : WFTypes ts) : (fuel : Nat) → (proc : String → Nat) →
    (ps : List (List Cls × N)) → WFProps ps → ∀ ms, treeProps ts fuel proc ps = some ms → ∀ m ∈ ms, IsKey m.1 ∧ m.2.Valid
  | fuel, proc, [], _ => by intro ms h; simp [treeProps] at h; subst h; simp
  | fuel, proc, (k, c) :: ps, hw => by
    intro ms h
    obtain ⟨hk, hc, hps⟩ : IsKey k ∧ WFN c ∧ WFProps ps := by simpa [WFProps] using hw
    simp only [treeProps] at h
    cases h1 : tree ts fuel proc c with
    | none => rw [h1] at h; simp at h
    | some o =>
      cases h2 : treeProps ts fuel proc ps with
      | none => rw [h1, h2] at h; cases o <;> simp at h
      | some rest =>
        have ih := treeProps_valid ts hts fuel proc ps hps rest h2
        rw [h1, h2] at h
        cases o with
        | none => simp at h; subst h; exact ih
        | some v0 =>
          simp at h; subst h
          intro m hm
          rcases List.mem_cons.1 hm with rfl | hm
          · exact ⟨hk, tree_valid ts hts fuel proc c hc _ h1⟩
          · exact ih m hm
termination_by fuel _ ps _ => (fuel, sizeOf ps)
end

/-- **C15, well-formedness**: whatever the builder emits is the rendering of a valid JSON tree, so the JSON scanner
delivers exactly that tree's events for it (in particular, it is accepted) -/
theorem C15_wellformed (ts : Types) (hts : WFTypes ts) (fuel : Nat) (n : N) (hn : WFN n) (bs : List Cls)
    (h : build ts fuel (fun _ => 0) n = some (some bs)) :
    ∃ v : JA, v.Valid ∧ bs = v.render ∧
      eventsLoop false bs.length bs 0 {} [] = .ok (evsAt 0 v) := by
  rw [build_eq] at h
  cases ht : tree ts fuel (fun _ => 0) n with
  | none => rw [ht] at h; simp at h
  | some o =>
    cases o with
    | none => rw [ht] at h; simp at h
    | some v =>
      rw [ht] at h
      simp at h; subst h
      have hv := tree_valid ts hts fuel _ n hn v ht
      refine ⟨v, hv, rfl, ?_⟩
      have := C06_events_of_tree false v hv [] [] isWs_nil isWs_nil
      simpa using this

#print axioms C15_wellformed

end EX
