import JSight.SchemaEndValue
/-! Composite transitions (those that re-dispatch) and the one-byte theorem `dispatch_ok`. -/
namespace SchemaScan

theorem foundRoot_lbrace_eq {f s p1 p2} : dispatch (f+1) .foundRoot s .lbrace p1 p2 =
    .ok (setContext (found { s with step := .objKeyOrEmpty } .objB) { ty := .object }) := by
  unfold dispatch; dsimp only
  simp [isCommentStart, beginValue, isNewLineM, Cls.isNewLine, Cls.isBlank, Cls.isSpace, bind, Except.bind,
    pure, Except.pure]

/-- the root object of an annotation begins -/
theorem foundRoot_lbrace_ok {f s p1 p2 V} (hE : Eff s V) (hC : CH V s.ret) :
    OKRes Inv (dispatch (f+1) .foundRoot s .lbrace p1 p2) := by
  rw [foundRoot_lbrace_eq]
  exact ⟨_, Eff_found_setContext (s := { s with step := .objKeyOrEmpty }) hE rfl rfl, Good.obj rfl hC⟩

theorem Good.toEndValue {st eff ret} (h : Good st eff ret)
    (hst : st = .keyShortcut ∨ st.numLit = true ∨ st.tsOnly = true ∨ st.annKeyState = true) :
    Good .endValue eff ret := by
  rcases hst with rfl | hst | hst | hst
  · obtain ⟨V, rfl, hV⟩ := h.ks_inv; exact Good.ks rfl hV
  · obtain ⟨V, rfl, hV⟩ := h.numLit_inv hst; exact Good.lit rfl hV
  · obtain ⟨V, rfl, hV⟩ := h.ts_inv hst; exact Good.ts rfl hV
  · obtain ⟨V, rfl, hV⟩ := h.annKey_inv hst; exact Good.key rfl hV

theorem keyShortcut_ok {f s c p1 p2} (h : InvAt .keyShortcut s) (hf : s.finds = [])
    (hs : StepOK .keyShortcut s c) : OKRes Inv (dispatch (f+2) .keyShortcut s c p1 p2) := by
  obtain ⟨eff, hE, hG⟩ := h
  have hK := Good.keep hs hG
  unfold dispatch; dsimp only
  split
  · exact ⟨_, hE, hK⟩
  · exact endValue_ok hE hf (hG.toEndValue (Or.inl rfl))

theorem endValueSt_ok {f s c p1 p2} (h : InvAt .endValue s) (hf : s.finds = []) :
    OKRes Inv (dispatch (f+2) .endValue s c p1 p2) := by
  obtain ⟨eff, hE, hG⟩ := h
  unfold dispatch; dsimp only
  exact endValue_ok hE hf hG

theorem state0_ok {f s c p1 p2 V} (hE : Eff s (.litB :: V)) (hV : VH V s.ret) (hf : s.finds = []) :
    OKRes Inv (state0 (f+1) s c p1 p2) := by
  unfold state0
  split
  · exact ⟨_, hE, Good.lit rfl hV⟩
  split
  · rfl
  · exact endValue_ok hE hf (Good.lit rfl hV)

theorem d1_ok {f s c p1 p2} (h : InvAt .d1 s) (hf : s.finds = []) :
    OKRes Inv (dispatch (f+2) .d1 s c p1 p2) := by
  obtain ⟨eff, hE, hG⟩ := h
  obtain ⟨V, rfl, hV⟩ := hG.numLit_inv rfl
  unfold dispatch; dsimp only
  split
  · exact ⟨_, hE, Good.lit rfl hV⟩
  · exact state0_ok hE hV hf

theorem d0_ok {f s c p1 p2} (h : InvAt .d0 s) (hf : s.finds = []) :
    OKRes Inv (dispatch (f+2) .d0 s c p1 p2) := by
  obtain ⟨eff, hE, hG⟩ := h
  obtain ⟨V, rfl, hV⟩ := hG.numLit_inv rfl
  unfold dispatch; dsimp only
  exact state0_ok hE hV hf

theorem dot0_ok {f s c p1 p2} (h : InvAt .dot0 s) (hf : s.finds = []) (hs : StepOK .dot0 s c) :
    OKRes Inv (dispatch (f+2) .dot0 s c p1 p2) := by
  obtain ⟨eff, hE, hG⟩ := h
  have hK := Good.keep hs hG
  obtain ⟨V, rfl, hV⟩ := hG.numLit_inv rfl
  unfold dispatch; dsimp only
  split
  · exact ⟨_, hE, hK⟩
  split
  · rfl
  · exact endValue_ok hE hf (Good.lit rfl hV)

theorem FSPost.inv {s V s'} (h : FSPost s V s') :
    ∃ eff, Eff s' eff ∧ Good s'.step eff s'.ret ∧ s'.step.annRet = true ∧ s'.step.cflag = 0 := by
  obtain ⟨hr, _, ⟨V', rfl, hst, hE', hV'⟩ | ⟨V', rfl, hst, hE', hV'⟩ | ⟨rfl, hret, hst, hE'⟩⟩ := h
  · exact ⟨_, hE', by rw [hst, hr]; exact Good.obj rfl hV', by rw [hst]; rfl, by rw [hst]; rfl⟩
  · exact ⟨_, hE', by rw [hst, hr]; exact Good.arr rfl hV', by rw [hst]; rfl, by rw [hst]; rfl⟩
  · exact ⟨_, hE', by rw [hst, hr, hret]; exact Good.endTop, by rw [hst]; rfl, by rw [hst]; rfl⟩

theorem finishThenAnn_ok {s V} (hE : Eff s (.tsB :: .mixB :: V)) (hV : VH V s.ret) :
    OKRes Inv (Except.bind (finishShortcut s) switchToAnnotation) := by
  refine OKRes.bind (finishShortcut_spec hE hV) ?_
  intro v hv
  obtain ⟨eff, h1, h2, h3, _⟩ := hv.inv
  exact switchToAnnotation_ok h1 h2 h3

theorem finishThenCom_ok {s V} (hE : Eff s (.tsB :: .mixB :: V)) (hV : VH V s.ret) :
    OKRes Inv (Except.bind (finishShortcut s) switchToComment) := by
  refine OKRes.bind (finishShortcut_spec hE hV) ?_
  intro v hv
  obtain ⟨eff, h1, h2, _, h4⟩ := hv.inv
  exact switchToComment_ok h1 h2 h4

theorem tsName_ok {f s c p1 p2} (h : InvAt .tsName s) (hf : s.finds = []) :
    OKRes Inv (dispatch (f+2) .tsName s c p1 p2) := by
  obtain ⟨eff, hE, hG⟩ := h
  obtain ⟨V, rfl, hV⟩ := hG.ts_inv rfl
  unfold dispatch; dsimp only
  simp only [bind, Except.bind, pure, Except.pure]
  split
  · exact finishThenAnn_ok hE hV
  split
  · exact finishThenCom_ok hE hV
  split
  · exact ⟨_, hE, Good.ts rfl hV⟩
  split
  · exact ⟨_, hE, Good.ts rfl hV⟩
  split
  · exact ⟨_, hE, Good.ts rfl hV⟩
  · exact endValue_ok hE hf (Good.ts rfl hV)

theorem tsBeforePipe_ok {f s c p1 p2} (h : InvAt .tsBeforePipe s) (hf : s.finds = []) :
    OKRes Inv (dispatch (f+3) .tsBeforePipe s c p1 p2) := by
  obtain ⟨eff, hE, hG⟩ := h
  obtain ⟨V, rfl, hV⟩ := hG.ts_inv rfl
  unfold dispatch; dsimp only
  simp only [bind, Except.bind, pure, Except.pure]
  split
  · exact finishThenAnn_ok hE hV
  split
  · exact finishThenCom_ok hE hV
  split
  · exact ⟨_, hE, Good.ts rfl hV⟩
  split
  · exact ⟨_, hE, Good.ts rfl hV⟩
  · exact endValueSt_ok (s := { s with step := .endValue, unf := false }) ⟨_, hE, Good.ts rfl hV⟩ hf

theorem annKey_ok {f s c p1 p2} (h : InvAt .annKey s) (hf : s.finds = []) (hs : StepOK .annKey s c) :
    OKRes Inv (dispatch (f+2) .annKey s c p1 p2) := by
  obtain ⟨eff, hE, hG⟩ := h
  have hK := Good.keep hs hG
  obtain ⟨V, rfl, hV⟩ := hG.annKey_inv rfl
  unfold dispatch; dsimp only
  split
  · exact endValue_ok hE hf (Good.key rfl hV)
  split
  · exact ⟨_, hE, Good.key rfl hV⟩
  split
  · exact ⟨_, hE, Good.key rfl hV⟩
  split
  · rfl
  · exact ⟨_, hE, hK⟩

theorem annKeyAfter_ok {f s c p1 p2} (h : InvAt .annKeyAfter s) (hf : s.finds = [])
    (hs : StepOK .annKeyAfter s c) :
    OKRes Inv (dispatch (f+2) .annKeyAfter s c p1 p2) := by
  obtain ⟨eff, hE, hG⟩ := h
  have hK := Good.keep hs hG
  obtain ⟨V, rfl, hV⟩ := hG.annKey_inv rfl
  unfold dispatch; dsimp only
  split
  · exact endValue_ok hE hf (Good.key rfl hV)
  split
  · exact ⟨_, hE, hK⟩
  · rfl

theorem inlAnn_ok {f s c p1 p2} (h : InvAt .inlAnn s) (hs : StepOK .inlAnn s c) :
    OKRes Inv (dispatch (f+2) .inlAnn s c p1 p2) := by
  obtain ⟨eff, hE, hG⟩ := h
  have hK := Good.keep hs hG
  obtain ⟨r, σ, ret', rfl, hret, hr, hGr⟩ := hG.inl_inv rfl
  have hC : CH (.inlAnnB :: σ) s.ret := by rw [hret]; exact CH.marker rfl hr hGr
  have hT : OKRes Inv (dispatch (f+1) .inlTxt { (found s .inlTxtB) with step := .inlTxt } c p1 p2) := by
    refine inlTxt_ok ⟨_, Eff_found hE rfl rfl, ?_⟩ (Or.inl rfl)
    show Good .inlTxt _ s.ret
    rw [hret]; exact Good.inlTxt hr hGr
  unfold dispatch; dsimp only
  cases c <;> first | exact ⟨_, hE, hK⟩ | exact foundRoot_lbrace_ok hE hC | exact hT

theorem inlTxtPrefix2_ok {f s c p1 p2} (h : InvAt .inlTxtPrefix2 s) (hs : StepOK .inlTxtPrefix2 s c) :
    OKRes Inv (dispatch (f+2) .inlTxtPrefix2 s c p1 p2) := by
  obtain ⟨eff, hE, hG⟩ := h
  have hK := Good.keep hs hG
  obtain ⟨r, σ, ret', rfl, hret, hr, hGr⟩ := hG.inl_inv rfl
  unfold dispatch; dsimp only
  split
  · exact ⟨_, hE, hK⟩
  · refine inlTxt_ok ⟨_, Eff_found hE rfl rfl, ?_⟩ (Or.inl rfl)
    show Good .inlTxt _ s.ret
    rw [hret]; exact Good.inlTxt hr hGr

theorem mlAnn_ok {f s c p1 p2} (h : InvAt .mlAnn s) (hs : StepOK .mlAnn s c) :
    OKRes Inv (dispatch (f+2) .mlAnn s c p1 p2) := by
  obtain ⟨eff, hE, hG⟩ := h
  have hK := Good.keep hs hG
  obtain ⟨r, σ, ret', rfl, hret, hr, hGr⟩ := hG.ml_inv rfl
  have hC : CH (.mlAnnB :: σ) s.ret := by rw [hret]; exact CH.marker rfl hr hGr
  unfold dispatch; dsimp only
  simp only [bind, Except.bind, pure, Except.pure]
  rcases isNewLineM_cases s c with hn | ⟨e, hn, he⟩ <;> simp only [hn]
  · split
    · exact ⟨_, Eff_found hE rfl rfl, hK⟩
    split
    · exact ⟨_, hE, hK⟩
    split
    · have : c = .lbrace := eq_of_beq ‹_›
      subst this
      exact foundRoot_lbrace_ok hE hC
    · refine mlTxt_ok ⟨_, Eff_found hE rfl rfl, ?_⟩ (Or.inl rfl)
      show Good .mlTxt _ s.ret
      rw [hret]; exact Good.mlTxt hr hGr
  · exact he

theorem mlTxtPrefix2_ok {f s c p1 p2} (h : InvAt .mlTxtPrefix2 s) (hs : StepOK .mlTxtPrefix2 s c) :
    OKRes Inv (dispatch (f+2) .mlTxtPrefix2 s c p1 p2) := by
  obtain ⟨eff, hE, hG⟩ := h
  have hK := Good.keep hs hG
  obtain ⟨r, σ, ret', rfl, hret, hr, hGr⟩ := hG.ml_inv rfl
  unfold dispatch; dsimp only
  split
  · exact ⟨_, hE, hK⟩
  · refine mlTxt_ok ⟨_, Eff_found hE rfl rfl, ?_⟩ (Or.inl rfl)
    show Good .mlTxt _ s.ret
    rw [hret]; exact Good.mlTxt hr hGr

end SchemaScan
