import JSight.E2E
/-!
The two loops of `E2E` that also return what was reached before an error (`loadLoopP`, `eventsLoopP`) agree with the
loops the existing theorems speak about (`Loader.loadLoop`, `JsonScan.eventsLoop`) whenever those succeed.
-/
namespace E2E

theorem loadLoopP_of_ok (src : Array UInt8) (data : Array SchemaScan.Cls) :
    ∀ (fuel : Nat) (sc : SchemaScan.Sc) (st st' : Loader.St),
      Loader.loadLoop src data fuel sc st = .ok st' → loadLoopP src data fuel sc st = (st', none)
  | 0, _, _, _, h => by simp [Loader.loadLoop] at h
  | fuel + 1, sc, st, st', h => by
    unfold Loader.loadLoop at h
    unfold loadLoopP
    cases hn : SchemaScan.next data (3 * data.size + 16) sc with
    | error e => rw [hn] at h; simp at h
    | ok r =>
      rw [hn] at h
      cases r with
      | none => simp only at h ⊢; cases h; rfl
      | some p =>
        obtain ⟨sc', e⟩ := p
        simp only at h ⊢
        cases hs : Loader.step src st e with
        | error le => rw [hs] at h; simp at h
        | ok st1 =>
          rw [hs] at h
          simp only at h ⊢
          exact loadLoopP_of_ok src data fuel sc' st1 st' h

theorem loadTextP_of_ok (bs : List UInt8) (st : Loader.St) (h : Loader.loadText bs = .ok st) :
    loadTextP bs = (st, none) := by
  unfold Loader.loadText at h
  unfold loadTextP
  exact loadLoopP_of_ok _ _ _ _ _ _ h

theorem eventsLoopP_of_ok (n : Nat) : ∀ (cs : List JsonScan.Cls) (i : Nat) (cfg : JsonScan.CfgS)
    (acc evs : List JsonScan.Ev),
    JsonScan.eventsLoop false n cs i cfg acc = .ok evs → eventsLoopP n cs i cfg acc = (evs, none)
  | [], i, cfg, acc, evs, h => by
    unfold JsonScan.eventsLoop at h
    unfold eventsLoopP
    cases hs : cfg.stack with
    | nil => rw [hs] at h; simp only at h ⊢; cases h; rfl
    | cons p rest =>
      rw [hs] at h
      obtain ⟨ty, b⟩ := p
      cases rest with
      | nil =>
        cases ty <;> simp only at h ⊢ <;> first | (simp at h; done) | skip
        split at h
        · simp at h
        · rename_i hu; simp only [hu]; cases h; simp
      | cons q rest' =>
        cases ty <;> simp at h
  | c :: cs, i, cfg, acc, evs, h => by
    unfold JsonScan.eventsLoop at h
    unfold eventsLoopP
    cases hst : JsonScan.step false cfg.st (cfg.stack.map (·.1)) cfg.unf c with
    | error e => rw [hst] at h; simp at h
    | ok r =>
      obtain ⟨st', unf', finds⟩ := r
      rw [hst] at h
      simp only at h ⊢
      cases ha : JsonScan.applyFindsS i cfg.stack finds [] with
      | error e => rw [ha] at h; simp at h
      | ok r2 =>
        obtain ⟨stack', evs', stop⟩ := r2
        rw [ha] at h
        simp only at h ⊢
        cases stop with
        | true => simp only [if_true] at h ⊢; cases h; rfl
        | false =>
          simp only [Bool.false_eq_true, if_false] at h ⊢
          exact eventsLoopP_of_ok n cs (i + 1) _ _ evs h

theorem eventsP_of_ok (bs : List UInt8) (evs : List JsonScan.Ev) (h : JsonScan.events false bs = .ok evs) :
    eventsP bs = (evs, none) := by
  unfold JsonScan.events at h
  unfold eventsP
  exact eventsLoopP_of_ok _ _ _ _ _ _ h

end E2E

namespace E2E
open Compile

theorem loadLoopP_of_error (src : Array UInt8) (data : Array SchemaScan.Cls) :
    ∀ (fuel : Nat) (sc : SchemaScan.Sc) (st : Loader.St) (s : String),
      Loader.loadLoop src data fuel sc st = .error s → ∃ st' le, loadLoopP src data fuel sc st = (st', some le)
  | 0, _, st, _, _ => ⟨st, .fuel, rfl⟩
  | fuel + 1, sc, st, s, h => by
    unfold Loader.loadLoop at h
    unfold loadLoopP
    cases hn : SchemaScan.next data (3 * data.size + 16) sc with
    | error e => exact ⟨st, .scan e, rfl⟩
    | ok r =>
      rw [hn] at h
      cases r with
      | none => simp at h
      | some p =>
        obtain ⟨sc', e⟩ := p
        simp only at h ⊢
        cases hs : Loader.step src st e with
        | error le => exact ⟨st, .load le, rfl⟩
        | ok st1 =>
          rw [hs] at h
          simp only at h ⊢
          exact loadLoopP_of_error src data fuel sc' st1 s h

/-- a text the scanner model / loader model refuse is refused by `loadSchema` -/
theorem loadSchema_of_load_error (bs : List UInt8) (opt : Bool) (s : String) (h : Loader.loadText bs = .error s) :
    ∃ x, loadSchema bs opt = .error x := by
  unfold Loader.loadText at h
  obtain ⟨st', le, hp⟩ := loadLoopP_of_error _ _ _ _ _ _ h
  unfold loadSchema loadTextP
  rw [hp]
  simp only
  cases creation (st'.nodes.toList.map (resolve bs.toArray)) with
  | error e => exact ⟨e, rfl⟩
  | ok u =>
    simp only
    split
    · exact ⟨_, rfl⟩
    · cases le.code with
      | none => exact ⟨_, rfl⟩
      | some p => exact ⟨_, rfl⟩

/-- … and `validateText` answers a schema error (or `unsupported`), whatever the document: never a verdict -/
theorem validateText_of_load_error (bs : List UInt8) (types : List (String × List UInt8)) (doc : List UInt8) (opt : Bool)
    (s : String) (h : Loader.loadText bs = .error s) :
    validateText bs types doc opt ≠ .acc ∧ validateText bs types doc opt ≠ .rej := by
  obtain ⟨x, hx⟩ := loadSchema_of_load_error bs opt s h
  unfold validateText
  rw [hx]
  cases x <;> simp [errOut]

end E2E
