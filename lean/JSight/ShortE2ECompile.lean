import JSight.ShortE2E
/-!
`Compile` on the resolved node table of a tree with shortcut leaves: `compileNode` yields `SE.cnOf`; the table passes
`creation`; `E2E.loadSchema` on the text yields `cnOf` (`SE.loadSchema_stree`).
-/
namespace SE
open SchemaScan (Cls classify STree)
open SchemaScan.Len (Shortcut)
open Loader (Node slice keyText shortNode valOff)
open LoaderS (nodesOf nodesItems nodesMembers idxItems idxMembers keysMembers nextItem nextMember nodeCount
  countItems countMembers ruleOf)
open Lay (AtB AtB_append slice_tok keyText_tok scalar_ne key_ne)
open Compile
open E2E (basic_plain plainBasic getElem?_mid)

/-- the resolved node of an object without rules -/
def objR (cs : List Nat) (ks : List (Bytes × Bool)) : RNode :=
  { kind := .obj, children := cs, keys := ks, value := none, rules := [] }

theorem resolve_short (src : Array UInt8) (par : Option Nat) (o e e' : Nat) (nm : String) :
    resolve src (shortNode par o e e' nm) = shortR nm (slice src o e') (Loader.trimSpaces (slice src o e)) o := by
  simp [resolve, shortNode, resolveRule, shortR, genRule]

theorem resolve_lit (src : Array UInt8) (par : Option Nat) (tok : Bytes) (o : Nat) (h : AtB src o tok) (hne : tok ≠ []) :
    resolve src { kind := .lit, parent := par, value := some (o, o + tok.length - 1) }
      = { kind := .lit, children := [], keys := [], value := some tok, rules := [] } := by
  simp [resolve, slice_tok src tok o h hne]

theorem sc_length (f : Bytes) (as : List Alt) (sps : Bytes) :
    ((clsSc f as).render ++ clsB sps).length = (scBytes f as ++ sps).length := by
  rw [← scBytes_cls, clsB, ← List.map_append, List.length_map]

theorem idxItems_length : (its : List SchemaScan.SItem) → (n : Nat) → (idxItems n its).length = its.length
  | [], _ => rfl
  | (_, _, _) :: its, n => by simp [idxItems, idxItems_length its]

theorem idxMembers_length : (ms : List SchemaScan.SMember) → (n : Nat) → (idxMembers n ms).length = ms.length
  | [], _ => rfl
  | (_, _, _, _, _, _) :: ms, n => by simp [idxMembers, idxMembers_length ms]

theorem keysB_length : (ms : List BMember) → (keysB ms).length = ms.length
  | [] => rfl
  | (_, _, _, _, _, _) :: ms => by simp [keysB, keysB_length ms]

theorem clsMembers_length : (ms : List BMember) → (clsMembers ms).length = ms.length
  | [] => rfl
  | (_, _, _, _, _, _) :: ms => by simp [clsMembers, clsMembers_length ms]

/-- the keys the loader records, decoded -/
theorem keys_text (src : Array UInt8) : (ms : List BMember) → SchemaScan.SValidMembers (clsMembers ms) → (o : Nat) →
    AtB src o (renderMembers ms) → (keysMembers o (clsMembers ms)).map (keyText src) = keysB ms
  | [], _, _, _ => rfl
  | (w1, k, w2, w3, v, w4) :: ms, hv, o, hat => by
    obtain ⟨_, hk, _, _, _, _, _, hms⟩ :
        SchemaScan.IsWs (clsB w1) ∧ SchemaScan.IsKey (clsB k) ∧ SchemaScan.IsWs (clsB w2) ∧ SchemaScan.IsWs (clsB w3) ∧
          v.cls.Valid ∧ SchemaScan.IsWs (clsB w4) ∧ SchemaScan.Follow v.cls (clsB w4) ∧
          SchemaScan.SValidMembers (clsMembers ms) := by
      simpa [clsMembers, SchemaScan.SValidMembers] using hv
    obtain ⟨hatk, _, hatr⟩ := AtB_members hat
    simp only [clsMembers, keysMembers, keysB, List.map_cons, nextMember_eq, clsB_length]
    rw [keyText_tok src k _ hatk (key_ne hk), keys_text src ms hms _ hatr]

mutual
theorem compileNode_nodes (src : Array UInt8) (opt : Bool) : (t : BST) → t.cls.Valid → t.sideOK = true →
    (pre post : List RNode) → (par : Option Nat) → (o : Nat) → AtB src o t.render →
    (fuel : Nat) → (pobj : Bool) → nodeCount t.cls ≤ fuel →
    compileNode (pre ++ ((nodesOf par pre.length o t.cls).map (resolve src) ++ post)).toArray opt fuel pre.length pobj
      = .ok (cnOf opt t, none)
  | .scalar tok, hv, hg, pre, post, par, o, hat, fuel, pobj, hf => by
    obtain ⟨f, rfl⟩ : ∃ f, fuel = f + 1 := ⟨fuel - 1, by simp [BST.cls, nodeCount] at hf; omega⟩
    have hs : SchemaScan.IsScalar (tok.map classify) := by simpa [BST.cls, STree.Valid, clsB] using hv
    simp only [BST.sideOK, Option.isSome_iff_exists] at hg
    obtain ⟨k, hk⟩ := hg
    simp only [BST.render] at hat
    simp only [BST.cls, nodesOf, clsB, List.length_map, List.map_cons, List.map_nil,
      resolve_lit src par tok o hat (scalar_ne hs), List.cons_append, List.nil_append, compileNode, getElem?_mid,
      jtOf, hk, basic_plain, plainBasic, Option.getD_some, cnOf, E2E.kindOf]
    rfl
  | .short fi as sps, hv, hg, pre, post, par, o, hat, fuel, pobj, hf => by
    obtain ⟨f, rfl⟩ : ∃ f, fuel = f + 1 := ⟨fuel - 1, by simp [BST.cls, nodeCount] at hf; omega⟩
    simp only [BST.sideOK, shortOK, Bool.and_eq_true, Bool.or_eq_true, beq_iff_eq] at hg
    simp only [BST.render] at hat
    have hsl : slice src o (o + ((clsSc fi as).render ++ clsB sps).length - 1) = scBytes fi as ++ sps := by
      rw [sc_length]
      exact slice_tok src _ o hat (by simp [scBytes])
    have hnm : ruleOf (clsSc fi as) = (bif !as.isEmpty then "or" else "type") := by
      simp only [ruleOf, clsSc, clsAlts_isEmpty]
      cases as.isEmpty <;> rfl
    have hi : (pre ++ ((nodesOf par pre.length o (BST.short fi as sps).cls).map (resolve src) ++ post)).toArray[pre.length]?
        = some (shortR (bif !as.isEmpty then "or" else "type")
            (slice src o (SchemaScan.mixEndOf (o + ((clsSc fi as).render ++ clsB sps).length - 1)
              ((clsSc fi as).render ++ clsB sps)))
            (Loader.trimSpaces (scBytes fi as ++ sps)) o) := by
      simp only [BST.cls, nodesOf, List.map_cons, List.map_nil, resolve_short, hsl, hnm, List.cons_append,
        List.nil_append, getElem?_mid]
    rw [compileNode_short _ opt f pre.length pobj (!as.isEmpty) _ _ o hi (by
      intro h
      rcases hg.2.1 with h2 | h2
      · rw [h2] at h; cases h
      · exact h2)]
    rfl
  | .arr w0 its, hv, hg, pre, post, par, o, hat, fuel, pobj, hf => by
    obtain ⟨f, rfl⟩ : ∃ f, fuel = f + 1 := ⟨fuel - 1, by simp [BST.cls, nodeCount] at hf; omega⟩
    have hf' : countItems (clsItems its) ≤ f := by simp [BST.cls, nodeCount] at hf; omega
    obtain ⟨_, hvi⟩ : SchemaScan.IsWs (clsB w0) ∧ SchemaScan.SValidItems (clsItems its) := by
      simpa [BST.cls, STree.Valid] using hv
    have hg' : sideItems its = true := by simpa [BST.sideOK] using hg
    simp only [BST.render] at hat
    obtain ⟨_, hat⟩ := hat
    rw [AtB_append] at hat
    have h := compileItems_nodes src opt its hvi hg'
      (pre ++ [{ kind := .arr, children := idxItems (pre.length + 1) (clsItems its), keys := [], value := none, rules := [] }])
      post pre.length (o + 1 + w0.length) hat.2 f hf'
    simp only [List.length_append, List.length_cons, List.length_nil, List.append_assoc, List.cons_append,
      List.nil_append, Nat.zero_add] at h
    have hr : resolve src { kind := .arr, parent := par, children := idxItems (pre.length + 1) (clsItems its) }
        = { kind := .arr, children := idxItems (pre.length + 1) (clsItems its), keys := [], value := none, rules := [] } := by
      simp [resolve]
    simp only [BST.cls, nodesOf, List.map_cons, hr, clsB_length, List.cons_append, compileNode, getElem?_mid, jtOf,
      basic_plain, plainBasic, h, cnOf]
    simp
  | .obj w0 ms, hv, hg, pre, post, par, o, hat, fuel, pobj, hf => by
    obtain ⟨f, rfl⟩ : ∃ f, fuel = f + 1 := ⟨fuel - 1, by simp [BST.cls, nodeCount] at hf; omega⟩
    have hf' : countMembers (clsMembers ms) ≤ f := by simp [BST.cls, nodeCount] at hf; omega
    obtain ⟨_, hvi⟩ : SchemaScan.IsWs (clsB w0) ∧ SchemaScan.SValidMembers (clsMembers ms) := by
      simpa [BST.cls, STree.Valid] using hv
    have hg' : sideMembers ms = true := by simpa [BST.sideOK] using hg
    simp only [BST.render] at hat
    obtain ⟨_, hat⟩ := hat
    rw [AtB_append] at hat
    have h := compileProps_nodes src opt ms hvi hg'
      (pre ++ [objR (idxMembers (pre.length + 1) (clsMembers ms)) (keysB ms)])
      post pre.length (o + 1 + w0.length) hat.2 f hf'
    simp only [List.length_append, List.length_cons, List.length_nil, List.append_assoc, List.cons_append,
      List.nil_append, Nat.zero_add, objR] at h
    have hr : resolve src (LoaderS.objNodeS par (idxMembers (pre.length + 1) (clsMembers ms))
          (keysMembers (o + 1 + w0.length) (clsMembers ms)))
        = objR (idxMembers (pre.length + 1) (clsMembers ms)) (keysB ms) := by
      simp [resolve, LoaderS.objNodeS, objR, keys_text src ms hvi _ hat.2]
    have hn : nodesOf par pre.length o (STree.obj (clsB w0) (clsMembers ms))
        = LoaderS.objNodeS par (idxMembers (pre.length + 1) (clsMembers ms))
            (keysMembers (o + 1 + (clsB w0).length) (clsMembers ms)) ::
          nodesMembers pre.length (pre.length + 1) (o + 1 + (clsB w0).length) (clsMembers ms) := rfl
    simp only [BST.cls, hn, clsB_length, List.map_cons, hr, objR, List.cons_append, compileNode, getElem?_mid, jtOf,
      basic_plain, plainBasic, h, cnOf, keysB_length, idxMembers_length, clsMembers_length]
    simp
theorem compileItems_nodes (src : Array UInt8) (opt : Bool) : (its : List BItem) →
    SchemaScan.SValidItems (clsItems its) → sideItems its = true →
    (pre post : List RNode) → (a o : Nat) → AtB src o (renderItems its) → (fuel : Nat) →
    countItems (clsItems its) ≤ fuel →
    compileItems (pre ++ ((nodesItems a pre.length o (clsItems its)).map (resolve src) ++ post)).toArray opt fuel
      (idxItems pre.length (clsItems its)) = .ok (cnItems opt its)
  | [], _, _, _, _, _, _, _, _, _ => by simp [clsItems, idxItems, compileItems, cnItems]
  | (w1, v, w2) :: its, hv, hg, pre, post, a, o, hat, fuel, hf => by
    obtain ⟨_, hvv, _, _, hits⟩ : SchemaScan.IsWs (clsB w1) ∧ v.cls.Valid ∧ SchemaScan.IsWs (clsB w2) ∧
        SchemaScan.Follow v.cls (clsB w2) ∧ SchemaScan.SValidItems (clsItems its) := by
      simpa [clsItems, SchemaScan.SValidItems] using hv
    have hvf : nodeCount v.cls ≤ fuel := by simp [clsItems, countItems] at hf; omega
    have hr : countItems (clsItems its) ≤ fuel := by simp [clsItems, countItems] at hf; omega
    obtain ⟨hg1, hg2⟩ : v.sideOK = true ∧ sideItems its = true := by simpa [sideItems] using hg
    obtain ⟨hatv, hatr⟩ := AtB_items hat
    have h1 := compileNode_nodes src opt v hvv hg1 pre
      ((nodesItems a (pre.length + nodeCount v.cls) (nextItem o (clsB w1) v.cls (clsB w2) (clsItems its)) (clsItems its)).map
        (resolve src) ++ post) (some a) (o + w1.length) hatv fuel false hvf
    have h2 := compileItems_nodes src opt its hits hg2
      (pre ++ (nodesOf (some a) pre.length (o + w1.length) v.cls).map (resolve src)) post a
      (o + w1.length + v.render.length + w2.length + (if its.isEmpty then 0 else 1)) hatr fuel hr
    simp only [List.length_append, List.length_map, LoaderS.nodesOf_length, List.append_assoc] at h2
    simp only [clsItems, idxItems, nodesItems, compileItems, List.map_append, List.append_assoc, clsB_length,
      nextItem_eq, cnItems] at h1 ⊢
    simp only [h1, h2]
theorem compileProps_nodes (src : Array UInt8) (opt : Bool) : (ms : List BMember) →
    SchemaScan.SValidMembers (clsMembers ms) → sideMembers ms = true →
    (pre post : List RNode) → (a o : Nat) → AtB src o (renderMembers ms) → (fuel : Nat) →
    countMembers (clsMembers ms) ≤ fuel →
    compileProps (pre ++ ((nodesMembers a pre.length o (clsMembers ms)).map (resolve src) ++ post)).toArray opt fuel
      (keysB ms) (idxMembers pre.length (clsMembers ms)) = .ok (cnMembers opt ms)
  | [], _, _, _, _, _, _, _, _, _ => by simp [clsMembers, keysB, idxMembers, compileProps, cnMembers]
  | (w1, k, w2, w3, v, w4) :: ms, hv, hg, pre, post, a, o, hat, fuel, hf => by
    obtain ⟨_, _, _, _, hvv, _, _, hms⟩ :
        SchemaScan.IsWs (clsB w1) ∧ SchemaScan.IsKey (clsB k) ∧ SchemaScan.IsWs (clsB w2) ∧ SchemaScan.IsWs (clsB w3) ∧
          v.cls.Valid ∧ SchemaScan.IsWs (clsB w4) ∧ SchemaScan.Follow v.cls (clsB w4) ∧
          SchemaScan.SValidMembers (clsMembers ms) := by
      simpa [clsMembers, SchemaScan.SValidMembers] using hv
    have hvf : nodeCount v.cls ≤ fuel := by simp [clsMembers, countMembers] at hf; omega
    have hr : countMembers (clsMembers ms) ≤ fuel := by simp [clsMembers, countMembers] at hf; omega
    obtain ⟨hg1, hg2⟩ : v.sideOK = true ∧ sideMembers ms = true := by simpa [sideMembers] using hg
    obtain ⟨_, hatv, hatr⟩ := AtB_members hat
    have h1 := compileNode_nodes src opt v hvv hg1 pre
      ((nodesMembers a (pre.length + nodeCount v.cls)
        (nextMember o (clsB w1) (clsB k) (clsB w2) (clsB w3) v.cls (clsB w4) (clsMembers ms)) (clsMembers ms)).map
        (resolve src) ++ post) (some a) (o + w1.length + k.length + w2.length + 1 + w3.length) hatv fuel true hvf
    have h2 := compileProps_nodes src opt ms hms hg2
      (pre ++ (nodesOf (some a) pre.length (o + w1.length + k.length + w2.length + 1 + w3.length) v.cls).map (resolve src))
      post a _ hatr fuel hr
    simp only [List.length_append, List.length_map, LoaderS.nodesOf_length, List.append_assoc] at h2
    simp only [clsMembers, keysB, idxMembers, nodesMembers, compileProps, List.map_append, List.append_assoc, valOff_eq,
      nextMember_eq, cnMembers, E2E.keyOf] at h1 ⊢
    simp only [h1, h2]
    simp
end

end SE
