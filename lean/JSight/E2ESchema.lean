import JSight.E2ESpec
import JSight.LayoutAbs
import JSight.E2ELoad
/-!
Schema half of `C01_text_level`: on the node table a plain-JSON value denotes (`Lay.tableOf`, what scanner model +
loader model build for its text: `C13_text_with_comments_loads_value`) the phases of `Compile` run without error and
yield the compiled tree `cnOf` of the value; `check` accepts it; its validator schema is `vkOf`.
-/
namespace E2E
open Rules (Kind)
open Lay (JV ANode tableOf tableItems tableMembers idxJ idxM keysM countJ countM)
open Compile

/-- a rule-free resolved node -/
def ofA (a : ANode) : RNode :=
  { kind := a.kind, children := a.children, keys := a.keys, value := a.value, rules := [] }

def plainBasic : Basic :=
  { optional := none, nul := false, any := false, names := none, orShort := false, add := .absent, rules := [],
    bad := false }

theorem basic_plain (k : Loader.NK) (cs : List Nat) (ks : List (Bytes × Bool)) (v : Option Bytes) (jt : JT)
    (p : Bool) (c : Nat) :
    basic { kind := k, children := cs, keys := ks, value := v, rules := [] } jt p c = .ok plainBasic := by
  rfl

end E2E

namespace E2E
open Rules (Kind)
open Lay (JV ANode tableOf tableItems tableMembers idxJ idxM keysM countJ countM)
open Compile

mutual
/-- the compiled tree of a plain-JSON value -/
def cnOf (opt : Bool) : JV → CN
  | .lit tok => .lit { kind := kindOf tok, ex := tok, nul := false, rules := [] } false
  | .arr items => .arr (cnItems opt items) false false
  | .obj ms => .obj (cnMembers opt ms) .absent false false
def cnItems (opt : Bool) : List JV → List CN
  | [] => []
  | v :: vs => cnOf opt v :: cnItems opt vs
def cnMembers (opt : Bool) : List (List UInt8 × JV) → List (String × Bool × Bool × Bool × CN)
  | [] => []
  | (k, v) :: ms => (keyOf k, false, !opt, false, cnOf opt v) :: cnMembers opt ms
end

theorem getElem?_mid (pre : List RNode) (x : RNode) (post : List RNode) :
    (pre ++ (x :: post)).toArray[pre.length]? = some x := by simp

mutual
theorem tableOf_length : (v : JV) → (par : Option Nat) → (n : Nat) → (tableOf par n v).length = v.count
  | .lit _, _, _ => rfl
  | .arr items, par, n => by simp [tableOf, JV.count, tableItems_length items n (n + 1)]; omega
  | .obj ms, par, n => by simp [tableOf, JV.count, tableMembers_length ms n (n + 1)]; omega
theorem tableItems_length : (items : List JV) → (a n : Nat) → (tableItems a n items).length = countJ items
  | [], _, _ => rfl
  | v :: vs, a, n => by simp [tableItems, countJ, tableOf_length v, tableItems_length vs]
theorem tableMembers_length : (ms : List (List UInt8 × JV)) → (a n : Nat) → (tableMembers a n ms).length = countM ms
  | [], _, _ => rfl
  | (_, v) :: ms, a, n => by simp [tableMembers, countM, tableOf_length v, tableMembers_length ms]
end

theorem keysM_length : (ms : List (List UInt8 × JV)) → (keysM ms).length = ms.length
  | [] => rfl
  | (_, _) :: ms => by simp [keysM, keysM_length ms]

theorem idxM_length : (ms : List (List UInt8 × JV)) → (n : Nat) → (idxM n ms).length = ms.length
  | [], _ => rfl
  | (_, _) :: ms, n => by simp [idxM, idxM_length ms]

def arrA (par : Option Nat) (cs : List Nat) : ANode :=
  { kind := .arr, parent := par, children := cs, keys := [], value := none, rules := [], note := none }
def objA (par : Option Nat) (cs : List Nat) (ks : List (List UInt8 × Bool)) : ANode :=
  { kind := .obj, parent := par, children := cs, keys := ks, value := none, rules := [], note := none }

mutual
theorem compileNode_table (opt : Bool) : (v : JV) → guessable v = true → (pre post : List RNode) → (par : Option Nat) →
    (fuel : Nat) → (pobj : Bool) → v.count ≤ fuel →
    compileNode (pre ++ ((tableOf par pre.length v).map ofA ++ post)).toArray opt fuel pre.length pobj
      = .ok (cnOf opt v, none)
  | .lit tok, hg, pre, post, par, fuel, pobj, hf => by
    obtain ⟨f, rfl⟩ : ∃ f, fuel = f + 1 := ⟨fuel - 1, by simp [JV.count] at hf; omega⟩
    simp only [guessable, Option.isSome_iff_exists] at hg
    obtain ⟨k, hk⟩ := hg
    simp only [tableOf, List.map_cons, List.map_nil, List.cons_append, List.nil_append, compileNode, getElem?_mid, ofA,
      jtOf, hk, basic_plain, plainBasic, Option.getD_some, cnOf, kindOf]
    rfl
  | .arr items, hg, pre, post, par, fuel, pobj, hf => by
    obtain ⟨f, rfl⟩ : ∃ f, fuel = f + 1 := ⟨fuel - 1, by simp [JV.count] at hf; omega⟩
    have hf' : countJ items ≤ f := by simp [JV.count] at hf; omega
    have hg' : guessableItems items = true := by simpa [guessable] using hg
    have h := compileItems_table opt items hg'
      (pre ++ [ofA (arrA par (idxJ (pre.length + 1) items))]) post pre.length f hf'
    simp only [List.length_append, List.length_cons, List.length_nil, List.append_assoc, List.cons_append,
      List.nil_append, Nat.zero_add, arrA, ofA] at h
    simp only [tableOf, List.map_cons, List.cons_append, compileNode, getElem?_mid, ofA, jtOf, basic_plain, plainBasic,
      h, cnOf]
    simp
  | .obj ms, hg, pre, post, par, fuel, pobj, hf => by
    obtain ⟨f, rfl⟩ : ∃ f, fuel = f + 1 := ⟨fuel - 1, by simp [JV.count] at hf; omega⟩
    have hf' : countM ms ≤ f := by simp [JV.count] at hf; omega
    have hg' : guessableMembers ms = true := by simpa [guessable] using hg
    have h := compileProps_table opt ms hg'
      (pre ++ [ofA (objA par (idxM (pre.length + 1) ms) (keysM ms))]) post pre.length f hf'
    simp only [List.length_append, List.length_cons, List.length_nil, List.append_assoc, List.cons_append,
      List.nil_append, Nat.zero_add, objA, ofA] at h
    simp only [tableOf, List.map_cons, List.cons_append, compileNode, getElem?_mid, ofA, jtOf, basic_plain, plainBasic,
      h, cnOf, keysM_length, idxM_length]
    simp
theorem compileItems_table (opt : Bool) : (items : List JV) → guessableItems items = true → (pre post : List RNode) → (a fuel : Nat) →
    countJ items ≤ fuel →
    compileItems (pre ++ ((tableItems a pre.length items).map ofA ++ post)).toArray opt fuel (idxJ pre.length items)
      = .ok (cnItems opt items)
  | [], _, _, _, _, _, _ => by simp [idxJ, compileItems, cnItems]
  | v :: vs, hg, pre, post, a, fuel, hf => by
    have hv : v.count ≤ fuel := by simp [countJ] at hf; omega
    have hr : countJ vs ≤ fuel := by simp [countJ] at hf; omega
    obtain ⟨hg1, hg2⟩ : guessable v = true ∧ guessableItems vs = true := by simpa [guessableItems] using hg
    have h1 := compileNode_table opt v hg1 pre ((tableItems a (pre.length + v.count) vs).map ofA ++ post) (some a) fuel
      false hv
    have h2 := compileItems_table opt vs hg2 (pre ++ (tableOf (some a) pre.length v).map ofA) post a fuel hr
    simp only [List.length_append, List.length_map, tableOf_length, List.append_assoc] at h2
    simp only [idxJ, tableItems, compileItems, List.map_append, List.append_assoc, h1, h2, cnItems]
theorem compileProps_table (opt : Bool) : (ms : List (List UInt8 × JV)) → guessableMembers ms = true → (pre post : List RNode) →
    (a fuel : Nat) → countM ms ≤ fuel →
    compileProps (pre ++ ((tableMembers a pre.length ms).map ofA ++ post)).toArray opt fuel (keysM ms)
      (idxM pre.length ms) = .ok (cnMembers opt ms)
  | [], _, _, _, _, _, _ => by simp [keysM, idxM, compileProps, cnMembers]
  | (k, v) :: ms, hg, pre, post, a, fuel, hf => by
    have hv : v.count ≤ fuel := by simp [countM] at hf; omega
    have hr : countM ms ≤ fuel := by simp [countM] at hf; omega
    obtain ⟨hg1, hg2⟩ : guessable v = true ∧ guessableMembers ms = true := by simpa [guessableMembers] using hg
    have h1 := compileNode_table opt v hg1 pre ((tableMembers a (pre.length + v.count) ms).map ofA ++ post) (some a) fuel
      true hv
    have h2 := compileProps_table opt ms hg2 (pre ++ (tableOf (some a) pre.length v).map ofA) post a fuel hr
    simp only [List.length_append, List.length_map, tableOf_length, List.append_assoc] at h2
    simp only [keysM, idxM, tableMembers, compileProps, List.map_append, List.append_assoc, h1, h2, cnMembers, keyOf]
    simp
end

end E2E

namespace E2E
open Rules (Kind)
open Lay (JV)
open Compile

/-- the literal validator of a rule-free scalar node is the kind matrix -/
theorem litOK_plain (k : Kind) (e tok : Bytes) :
    RulesF.litOKFull noOracles { kind := k, ex := e, nul := false, rules := [] } tok = kindOKTok k tok := by
  unfold RulesF.litOKFull RulesF.kindGate RulesF.hasEnum kindOKTok
  cases RulesF.kindOfTok tok <;> simp

theorem litErr_plain (tok : Bytes) (h : (RulesF.kindOfTok tok).isSome = true) :
    litErr { kind := kindOf tok, ex := tok, nul := false, rules := [] } tok = none := by
  obtain ⟨k, hk⟩ := Option.isSome_iff_exists.mp h
  unfold litErr
  rw [litOK_plain]
  simp [kindOKTok, kindOf, hk]

theorem find_short_none (opt : Bool) (f : String × Bool × Bool × Bool × CN → Bool) :
    (ms : List (List UInt8 × JV)) → (cnMembers opt ms).find? (fun p => p.2.1 && f p) = none
  | [] => rfl
  | (k, v) :: ms => by simp [cnMembers, find_short_none opt f ms]

mutual
theorem checkNode_plain (opt : Bool) (fuel : Nat) : (v : JV) → guessable v = true →
    checkNode [] fuel (cnOf opt v) = .ok ()
  | .lit tok, hg => by
    simp only [guessable] at hg
    simp [cnOf, checkNode, litErr_plain tok hg]
  | .arr items, hg => by
    have hg' : guessableItems items = true := by simpa [guessable] using hg
    simp [cnOf, checkNode, checkItems_plain opt fuel items hg']
  | .obj ms, hg => by
    have hg' : guessableMembers ms = true := by simpa [guessable] using hg
    simp only [cnOf, checkNode, find_short_none, checkProps_plain opt fuel ms hg']
    simp
theorem checkItems_plain (opt : Bool) (fuel : Nat) : (items : List JV) → guessableItems items = true →
    checkItems [] fuel (cnItems opt items) = .ok ()
  | [], _ => rfl
  | v :: vs, hg => by
    obtain ⟨hg1, hg2⟩ : guessable v = true ∧ guessableItems vs = true := by simpa [guessableItems] using hg
    simp [cnItems, checkItems, checkNode_plain opt fuel v hg1, checkItems_plain opt fuel vs hg2]
theorem checkProps_plain (opt : Bool) (fuel : Nat) : (ms : List (List UInt8 × JV)) → guessableMembers ms = true →
    checkProps [] fuel (cnMembers opt ms) = .ok ()
  | [], _ => rfl
  | (k, v) :: ms, hg => by
    obtain ⟨hg1, hg2⟩ : guessable v = true ∧ guessableMembers ms = true := by simpa [guessableMembers] using hg
    simp [cnMembers, checkProps, checkNode_plain opt fuel v hg1, checkProps_plain opt fuel ms hg2]
end

mutual
theorem checkOuter_plain (opt : Bool) (g : TG.G) (vis : List String) : (v : JV) →
    TG.checkOuter g vis (toTG (cnOf opt v)).2 = true
  | .lit _ => by simp [cnOf, toTG, TG.checkOuter]
  | .arr _ => by simp [cnOf, toTG, TG.checkOuter]
  | .obj ms => by simp [cnOf, toTG, TG.checkOuter, checkOuterProps_plain opt g vis ms]
theorem checkOuterProps_plain (opt : Bool) (g : TG.G) (vis : List String) : (ms : List (List UInt8 × JV)) →
    TG.checkOuterProps g vis (toTGProps (cnMembers opt ms)) = true
  | [] => by simp [cnMembers, toTGProps, TG.checkOuterProps]
  | (k, v) :: ms => by
    simp [cnMembers, toTGProps, TG.checkOuterProps, checkOuter_plain opt g vis v, checkOuterProps_plain opt g vis ms]
end

/-- `Check` accepts the compiled tree of a plain-JSON value -/
theorem check_plain (opt : Bool) (v : JV) (hg : guessable v = true) : check (cnOf opt v) [] = .ok () := by
  simp [check, checkNode_plain opt _ v hg, sortNames, checkTypes, TG.check, tgOf, checkOuter_plain]

mutual
theorem shortcutsOK_plain (opt : Bool) : (v : JV) → shortcutsOK [] (cnOf opt v) = true
  | .lit _ => rfl
  | .arr items => by simp [cnOf, shortcutsOK, shortcutsItems_plain opt items]
  | .obj ms => by simp [cnOf, shortcutsOK, shortcutsProps_plain opt ms]
theorem shortcutsItems_plain (opt : Bool) : (items : List JV) → shortcutsItems [] (cnItems opt items) = true
  | [] => rfl
  | v :: vs => by simp [cnItems, shortcutsItems, shortcutsOK_plain opt v, shortcutsItems_plain opt vs]
theorem shortcutsProps_plain (opt : Bool) : (ms : List (List UInt8 × JV)) → shortcutsProps [] (cnMembers opt ms) = true
  | [] => rfl
  | (k, v) :: ms => by simp [cnMembers, shortcutsProps, shortcutsOK_plain opt v, shortcutsProps_plain opt ms]
end

mutual
theorem rawKeyTypes_plain (opt : Bool) : (v : JV) → rawKeyTypes [] (cnOf opt v) = false
  | .lit _ => rfl
  | .arr items => by simp [cnOf, rawKeyTypes, rawKeyItems_plain opt items]
  | .obj ms => by simp [cnOf, rawKeyTypes, rawKeyProps_plain opt ms]
theorem rawKeyItems_plain (opt : Bool) : (items : List JV) → rawKeyItems [] (cnItems opt items) = false
  | [] => rfl
  | v :: vs => by simp [cnItems, rawKeyItems, rawKeyTypes_plain opt v, rawKeyItems_plain opt vs]
theorem rawKeyProps_plain (opt : Bool) : (ms : List (List UInt8 × JV)) → rawKeyProps [] (cnMembers opt ms) = false
  | [] => rfl
  | (k, v) :: ms => by simp [cnMembers, rawKeyProps, rawKeyTypes_plain opt v, rawKeyProps_plain opt ms]
end

/-! ### the validator schema of a plain-JSON value -/

mutual
def vkOf (opt : Bool) : JV → VK.S Lit
  | .lit tok => .lit (.node { kind := kindOf tok, ex := tok, nul := false, rules := [] })
  | .arr items => .arr (vkItems opt items)
  | .obj ms => .obj (vkMembers opt ms) [] .none
def vkItems (opt : Bool) : List JV → List (VK.S Lit)
  | [] => []
  | v :: vs => vkOf opt v :: vkItems opt vs
def vkMembers (opt : Bool) : List (List UInt8 × JV) → List (String × Bool × VK.S Lit)
  | [] => []
  | (k, v) :: ms => (keyOf k, !opt, vkOf opt v) :: vkMembers opt ms
end

mutual
theorem toVK_plain (opt : Bool) : (v : JV) → (path : String) → toVK path (cnOf opt v) = vkOf opt v
  | .lit _, _ => rfl
  | .arr items, path => by simp [cnOf, toVK, vkOf, toVKItems_plain opt items path 0]
  | .obj ms, path => by
    simp [cnOf, toVK, vkOf, toVKProps_plain opt ms path 0, toVKShorts_plain opt ms path 0, toAdd]
theorem toVKItems_plain (opt : Bool) : (items : List JV) → (path : String) → (i : Nat) →
    toVKItems path i (cnItems opt items) = vkItems opt items
  | [], _, _ => rfl
  | v :: vs, path, i => by simp [cnItems, toVKItems, vkItems, toVK_plain opt v, toVKItems_plain opt vs path (i + 1)]
theorem toVKProps_plain (opt : Bool) : (ms : List (List UInt8 × JV)) → (path : String) → (i : Nat) →
    toVKProps path i false (cnMembers opt ms) = vkMembers opt ms
  | [], _, _ => rfl
  | (k, v) :: ms, path, i => by
    simp [cnMembers, toVKProps, vkMembers, toVK_plain opt v, toVKProps_plain opt ms path (i + 1)]
theorem toVKShorts_plain (opt : Bool) : (ms : List (List UInt8 × JV)) → (path : String) → (i : Nat) →
    toVKProps path i true (cnMembers opt ms) = []
  | [], _, _ => rfl
  | (k, v) :: ms, path, i => by simp [cnMembers, toVKProps, toVKShorts_plain opt ms path (i + 1)]
end

mutual
theorem synth_plain (opt : Bool) : (v : JV) → (path : String) → synth path (cnOf opt v) = []
  | .lit _, _ => rfl
  | .arr items, path => by simp [cnOf, synth, synthItems_plain opt items path 0]
  | .obj ms, path => by simp [cnOf, synth, synthProps_plain opt ms path 0]
theorem synthItems_plain (opt : Bool) : (items : List JV) → (path : String) → (i : Nat) →
    synthItems path i (cnItems opt items) = []
  | [], _, _ => rfl
  | v :: vs, path, i => by simp [cnItems, synthItems, synth_plain opt v, synthItems_plain opt vs path (i + 1)]
theorem synthProps_plain (opt : Bool) : (ms : List (List UInt8 × JV)) → (path : String) → (i : Nat) →
    synthProps path i (cnMembers opt ms) = []
  | [], _, _ => rfl
  | (k, v) :: ms, path, i => by simp [cnMembers, synthProps, synth_plain opt v, synthProps_plain opt ms path (i + 1)]
end

theorem envOf_plain (opt : Bool) (v : JV) : envOf (cnOf opt v) [] = [] := by
  simp [envOf, synth_plain]

end E2E

namespace E2E
open Lay (JV ANode tableOf tableItems tableMembers absNode absTable)
open Compile

mutual
theorem tableOf_rules : (v : JV) → (par : Option Nat) → (n : Nat) → ∀ a ∈ tableOf par n v, a.rules = []
  | .lit _, _, _, a, h => by simp [tableOf] at h; subst h; rfl
  | .arr items, par, n, a, h => by
    simp only [tableOf, List.mem_cons] at h
    rcases h with rfl | h
    · rfl
    · exact tableItems_rules items n (n + 1) a h
  | .obj ms, par, n, a, h => by
    simp only [tableOf, List.mem_cons] at h
    rcases h with rfl | h
    · rfl
    · exact tableMembers_rules ms n (n + 1) a h
theorem tableItems_rules : (items : List JV) → (p n : Nat) → ∀ a ∈ tableItems p n items, a.rules = []
  | [], _, _, a, h => by simp [tableItems] at h
  | v :: vs, p, n, a, h => by
    simp only [tableItems, List.mem_append] at h
    rcases h with h | h
    · exact tableOf_rules v (some p) n a h
    · exact tableItems_rules vs p (n + v.count) a h
theorem tableMembers_rules : (ms : List (List UInt8 × JV)) → (p n : Nat) → ∀ a ∈ tableMembers p n ms, a.rules = []
  | [], _, _, a, h => by simp [tableMembers] at h
  | (_, v) :: ms, p, n, a, h => by
    simp only [tableMembers, List.mem_append] at h
    rcases h with h | h
    · exact tableOf_rules v (some p) n a h
    · exact tableMembers_rules ms p (n + v.count) a h
end

theorem resolve_of_abs (src : Array UInt8) (n : Loader.Node) (h : (absNode src n).rules = []) :
    resolve src n = ofA (absNode src n) := by
  have hr : n.rules = [] := by simpa [absNode] using h
  simp [resolve, ofA, absNode, hr]

theorem creation_plain : (tbl : List RNode) → (∀ n ∈ tbl, n.rules = []) → creation tbl = .ok ()
  | [], _ => rfl
  | n :: tbl, h => by
    have hn : n.rules = [] := h n (by simp)
    have ih := creation_plain tbl (fun m hm => h m (by simp [hm]))
    unfold creation at ih ⊢
    simp only [List.foldl_cons, hn, createRules]
    exact ih

/-- **schema half**: scanner model + loader model + `Compile` on a text whose node table is the table of the
plain-JSON value `v` yield the compiled tree of `v` -/
theorem loadSchema_plain (bs : List UInt8) (opt : Bool) (st : Loader.St) (v : JV)
    (hl : Loader.loadText bs = .ok st) (hr : st.root = some 0)
    (ht : absTable bs.toArray st = tableOf none 0 v) (hg : guessable v = true) :
    loadSchema bs opt = .ok (some (cnOf opt v)) := by
  have htbl : st.nodes.toList.map (resolve bs.toArray) = (tableOf none 0 v).map ofA := by
    rw [← ht, absTable, List.map_map]
    apply List.map_congr_left
    intro n hn
    apply resolve_of_abs
    apply tableOf_rules v none 0
    rw [← ht, absTable]
    exact List.mem_map_of_mem hn
  have hcr : creation ((tableOf none 0 v).map ofA) = .ok () := by
    apply creation_plain
    intro n hn
    obtain ⟨a, _, rfl⟩ := List.mem_map.mp hn
    rfl
  have hc := compileNode_table opt v hg [] [] none (((tableOf none 0 v).map ofA).length + 1) false
    (by simp [tableOf_length])
  simp only [List.nil_append, List.append_nil, List.length_nil] at hc
  unfold loadSchema
  rw [loadTextP_of_ok bs st hl]
  simp only [htbl, hcr, hr, hc]

end E2E
